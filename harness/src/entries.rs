//! C12 / C13 / C14: forked operation-level probes of the registration entry points and of
//! `Signals` instances. Input: blocks separated by `---`; each block is a list of ops executed in
//! ONE forked child (fresh process state), one result line per op, then `exit <how the child ended>`.
//!
//!   reg <entry> <sig>        entry: register | register_sigaction | register_signal_unchecked |
//!                            register_unchecked | flag | flag_usize | cond_shutdown | cond_default |
//!                            pipe | pipe_raw | pipe_dgram
//!   new <exf> <sig>...       Signals::new / SignalsInfo::<WithRawSiginfo>::new   (exf: only | raw)
//!   withpipe <sig>...        SignalDelivery::with_pipe (what the async adapters call)
//!   add <sig> | hadd <sig>   add_signal on the instance / on a cloned Handle
//!   drop                     drop the instance and all handles
//!   check <sig>              raise <sig>: does the instance yield it? does an independent flag see it?
//!   usable                   the library still works: flag on SIGUSR2 + raise
use crate::common::*;
use signal_hook::iterator::exfiltrator::{SignalOnly, WithRawSiginfo};
use signal_hook::iterator::{Handle, Signals, SignalsInfo};
use std::os::unix::io::{AsRawFd, IntoRawFd};
use std::os::unix::net::{UnixDatagram, UnixStream};
use std::panic::{catch_unwind, AssertUnwindSafe};
use std::sync::atomic::{AtomicBool, AtomicUsize, Ordering};
use std::sync::Arc;

fn all_disps(lib: Option<usize>) -> Vec<String> {
    (1..=64).map(|s| disposition(s, lib)).collect()
}

fn disp_diff(before: &[String], after: &[String]) -> String {
    let mut d = Vec::new();
    for i in 0..before.len() {
        if before[i] != after[i] {
            d.push(format!("{}:{}", i + 1, after[i].split(':').next().unwrap_or("?")));
        }
    }
    if d.is_empty() { "same".into() } else { format!("changed:{}", d.join(",")) }
}

fn fd_open(fd: i32) -> bool {
    unsafe { libc::fcntl(fd, libc::F_GETFD) >= 0 }
}

enum Inst {
    Only(Signals),
    Raw(SignalsInfo<WithRawSiginfo>),
}

struct State {
    lib: Option<usize>,
    inst: Option<Inst>,
    handles: Vec<Handle>,
    watch_flags: Vec<(i32, Arc<AtomicBool>)>,
    keep: Vec<Box<dyn std::any::Any>>,
    fd_base: usize,
}

fn open_fds() -> usize {
    std::fs::read_dir("/proc/self/fd").map(|d| d.count()).unwrap_or(0)
}

fn learn_lib(st: &mut State, sig: i32) {
    if st.lib.is_none() {
        let a = handler_addr_of(sig);
        if a != libc::SIG_DFL && a != libc::SIG_IGN {
            st.lib = Some(a);
        }
    }
}

fn kind<T>(r: std::thread::Result<Result<T, std::io::Error>>) -> (&'static str, Option<T>) {
    match r {
        Ok(Ok(v)) => ("ok", Some(v)),
        Ok(Err(_)) => ("err", None),
        Err(_) => ("panic", None),
    }
}

fn do_reg(st: &mut State, entry: &str, sig: i32) -> String {
    let before = all_disps(st.lib);
    let res;
    let k;
    match entry {
        "register" | "register_sigaction" | "register_signal_unchecked" | "register_unchecked" => {
            let canary = Arc::new(AtomicUsize::new(0));
            let c2 = canary.clone();
            let r = catch_unwind(AssertUnwindSafe(|| unsafe {
                match entry {
                    "register" => signal_hook_registry::register(sig, move || { c2.fetch_add(1, Ordering::SeqCst); }),
                    "register_sigaction" => signal_hook_registry::register_sigaction(sig, move |_| { c2.fetch_add(1, Ordering::SeqCst); }),
                    "register_signal_unchecked" => signal_hook_registry::register_signal_unchecked(sig, move || { c2.fetch_add(1, Ordering::SeqCst); }),
                    _ => signal_hook_registry::register_unchecked(sig, move |_| { c2.fetch_add(1, Ordering::SeqCst); }),
                }
            }));
            k = kind(r).0;
            res = if Arc::strong_count(&canary) == 1 { "released" } else { "held" };
        }
        "flag" | "cond_shutdown" | "cond_default" => {
            let flag = Arc::new(AtomicBool::new(false));
            let f2 = flag.clone();
            let r = catch_unwind(AssertUnwindSafe(|| match entry {
                "flag" => signal_hook::flag::register(sig, f2),
                "cond_shutdown" => signal_hook::flag::register_conditional_shutdown(sig, 7, f2),
                _ => signal_hook::flag::register_conditional_default(sig, f2),
            }));
            k = kind(r).0;
            res = if Arc::strong_count(&flag) == 1 { "released" } else { "held" };
        }
        "flag_usize" => {
            let flag = Arc::new(AtomicUsize::new(0));
            let f2 = flag.clone();
            let r = catch_unwind(AssertUnwindSafe(|| signal_hook::flag::register_usize(sig, f2, 5)));
            k = kind(r).0;
            res = if Arc::strong_count(&flag) == 1 { "released" } else { "held" };
        }
        "pipe" | "pipe_raw" | "pipe_dgram" => {
            let (wfd, _keep_r): (i32, Box<dyn std::any::Any>);
            let r;
            if entry == "pipe_dgram" {
                let (rd, wr) = UnixDatagram::pair().unwrap();
                wfd = wr.as_raw_fd();
                _keep_r = Box::new(rd);
                r = catch_unwind(AssertUnwindSafe(|| signal_hook::low_level::pipe::register(sig, wr)));
            } else if entry == "pipe" {
                let (rd, wr) = UnixStream::pair().unwrap();
                wfd = wr.as_raw_fd();
                _keep_r = Box::new(rd);
                r = catch_unwind(AssertUnwindSafe(|| signal_hook::low_level::pipe::register(sig, wr)));
            } else {
                let mut fds = [0; 2];
                unsafe { libc::pipe(fds.as_mut_ptr()) };
                wfd = fds[1];
                _keep_r = Box::new(fds[0]);
                r = catch_unwind(AssertUnwindSafe(|| signal_hook::low_level::pipe::register_raw(sig, wfd)));
            }
            k = kind(r).0;
            res = if fd_open(wfd) { "held" } else { "released" };
            st.keep.push(_keep_r);
        }
        _ => return "bad-op".into(),
    }
    if k == "ok" { learn_lib(st, sig); }
    let after = all_disps(st.lib);
    format!("{} disp={} res={}", k, disp_diff(&before, &after), res)
}

fn inst_handle(st: &State) -> Option<Handle> {
    match st.inst.as_ref() {
        Some(Inst::Only(s)) => Some(s.handle()),
        Some(Inst::Raw(s)) => Some(s.handle()),
        None => None,
    }
}

pub fn run_child(ops: &[String]) {
    silence_panics();
    reset_dispositions();
    // as in every Rust program (the runtime ignores SIGPIPE at start-up): a delivery that wakes a self-pipe
    // whose reading instance is gone while a handle clone keeps the registrations alive gets EPIPE
    unsafe { libc::signal(libc::SIGPIPE, libc::SIG_IGN); }
    let mut st = State { lib: None, inst: None, handles: Vec::new(), watch_flags: Vec::new(), keep: Vec::new(), fd_base: 0 };
    for op in ops {
        let w: Vec<&str> = op.split_whitespace().collect();
        let line = match w.as_slice() {
            ["reg", entry, sig] => do_reg(&mut st, entry, sig.parse().unwrap()),
            ["new", exf, sigs @ ..] => {
                let sigs: Vec<i32> = sigs.iter().map(|x| x.parse().unwrap()).collect();
                let before = all_disps(st.lib);
                st.fd_base = open_fds();
                let r = if *exf == "raw" {
                    catch_unwind(AssertUnwindSafe(|| SignalsInfo::<WithRawSiginfo>::new(&sigs).map(Inst::Raw)))
                } else {
                    catch_unwind(AssertUnwindSafe(|| Signals::new(&sigs).map(Inst::Only)))
                };
                let (k, v) = kind(r);
                for s in sigs.iter() { if *s >= 1 && *s <= 64 { learn_lib(&mut st, *s); } }
                if let Some(i) = v {
                    st.inst = Some(i);
                }
                let after = all_disps(st.lib);
                if k == "ok" {
                    format!("{} disp={}", k, disp_diff(&before, &after))
                } else {
                    // a failed constructor must not leave descriptors (its self-pipe, kept alive by a
                    // registration it forgot to remove) behind
                    format!("{} disp={} fds={:+}", k, disp_diff(&before, &after), open_fds() as i64 - st.fd_base as i64)
                }
            }
            ["add", sig] | ["hadd", sig] => {
                let sig: i32 = sig.parse().unwrap();
                let before = all_disps(st.lib);
                let r = if w[0] == "hadd" {
                    // through a handle clone; when the instance itself is gone, through one that outlived it
                    match inst_handle(&st).or_else(|| st.handles.last().cloned()) {
                        Some(h) => { st.handles.push(h.clone()); catch_unwind(AssertUnwindSafe(|| h.add_signal(sig))) }
                        None => Ok(Ok(())),
                    }
                } else {
                    match st.inst.as_ref() {
                        Some(Inst::Only(s)) => catch_unwind(AssertUnwindSafe(|| s.add_signal(sig))),
                        Some(Inst::Raw(s)) => catch_unwind(AssertUnwindSafe(|| s.add_signal(sig))),
                        None => Ok(Ok(())),
                    }
                };
                let k = kind(r).0;
                if k == "ok" { learn_lib(&mut st, sig); }
                let after = all_disps(st.lib);
                format!("{} disp={}", k, disp_diff(&before, &after))
            }
            ["unregsig", sig] => {
                // somebody clears the signal behind the instance's back (the deprecated registry call): the ids the
                // instance recorded for it are stale from now on
                let sig: i32 = sig.parse().unwrap();
                #[allow(deprecated)]
                let r = signal_hook_registry::unregister_signal(sig);
                st.watch_flags.retain(|(s, _)| *s != sig);
                format!("bool {}", r)
            }
            ["dropinst"] => {
                // the instance goes, a handle clone stays: the shared state (and what it registered) lives on
                if let Some(h) = inst_handle(&st) { st.handles.push(h); }
                let r = catch_unwind(AssertUnwindSafe(|| { st.inst.take(); }));
                format!("{}", if r.is_ok() { "ok" } else { "panic" })
            }
            ["drophandles"] => {
                // the last holders go: every registration the instance (or a handle) made must be removed
                let r = catch_unwind(AssertUnwindSafe(|| { st.handles.clear(); }));
                let delta = open_fds() as i64 - st.fd_base as i64;
                format!("{} fds={:+}", if r.is_ok() { "ok" } else { "panic" }, delta)
            }
            ["drop"] => {
                st.handles.clear();
                let r = catch_unwind(AssertUnwindSafe(|| { st.inst.take(); }));
                let delta = open_fds() as i64 - st.fd_base as i64;
                format!("{} fds={:+}", if r.is_ok() { "ok" } else { "panic" }, delta)
            }
            ["check", sig] => {
                let sig: i32 = sig.parse().unwrap();
                // an independent flag on the same signal (registered once per signal)
                if !st.watch_flags.iter().any(|(s, _)| *s == sig) {
                    let f = Arc::new(AtomicBool::new(false));
                    if signal_hook::flag::register(sig, f.clone()).is_ok() {
                        learn_lib(&mut st, sig);
                        st.watch_flags.push((sig, f));
                    }
                }
                let d = disposition(sig, st.lib);
                if !d.starts_with("lib") {
                    format!("notours {}", d)
                } else {
                    for (_, f) in st.watch_flags.iter() { f.store(false, Ordering::SeqCst); }
                    unsafe { libc::raise(sig) };
                    let flag_seen = st.watch_flags.iter().find(|(s, _)| *s == sig).map(|(_, f)| f.load(Ordering::SeqCst)).unwrap_or(false);
                    let yielded: Vec<i32> = match st.inst.as_mut() {
                        Some(Inst::Only(s)) => s.pending().collect(),
                        Some(Inst::Raw(s)) => s.pending().map(|i| i.si_signo).collect(),
                        None => Vec::new(),
                    };
                    format!("flag={} yielded={:?}", flag_seen, yielded)
                }
            }
            ["usable"] => {
                let f = Arc::new(AtomicBool::new(false));
                let r = catch_unwind(AssertUnwindSafe(|| signal_hook::flag::register(libc::SIGUSR2, f.clone())));
                let ok = matches!(r, Ok(Ok(_)));
                unsafe { libc::raise(libc::SIGUSR2) };
                format!("usable {}", ok && f.load(Ordering::SeqCst))
            }
            _ => "bad-op".into(),
        };
        println!("{}", line);
    }
    use std::io::Write;
    let _ = std::io::stdout().flush();
    // keep whatever is still alive from running destructors that could panic at exit
    std::mem::forget(st);
}

pub fn main() -> i32 {
    let mut block: Vec<String> = Vec::new();
    let mut blocks: Vec<Vec<String>> = Vec::new();
    for line in read_lines() {
        if line.trim() == "---" {
            blocks.push(std::mem::take(&mut block));
        } else {
            block.push(line);
        }
    }
    if !block.is_empty() { blocks.push(block); }
    for b in blocks {
        use std::io::Write;
        let _ = std::io::stdout().flush();
        let status = crate::defaults::fork_classify(|| {
            run_child(&b);
            0
        });
        println!("exit {}", status);
        println!("---");
    }
    0
}
