//! C13: forked probes of `pipe::register` / `register_raw` on real pipes, stream and datagram
//! sockets, empty or filled to capacity, blocking or not; every system call the library makes on
//! the descriptor is logged through the shim (pass-through hooks; a write that would block for
//! ever is reported instead of performed).
//!   mk <pipe|stream|dgram|opath> <nonblock 0|1> <full 0|1>
//!   reg <own|raw> <sig>      raise <n>      drain      unreg      final
//!   fd0                      move the write end to descriptor 0
//!   eintr-close              the next close() the library makes releases the descriptor and answers EINTR
use crate::common::*;
use signal_hook_registry::verif_shim as shim;
use std::os::unix::io::{FromRawFd, RawFd};
use std::sync::Mutex;

static LOG: Mutex<Vec<String>> = Mutex::new(Vec::new());
/// `eintr-close`: the next `close` the library makes is performed - the descriptor is released, as Linux does -
/// and answered with -1 / EINTR
static EINTR_CLOSE: std::sync::atomic::AtomicBool = std::sync::atomic::AtomicBool::new(false);
static EINTR_DONE: std::sync::atomic::AtomicBool = std::sync::atomic::AtomicBool::new(false);
static FDS: Mutex<(i32, i32)> = Mutex::new((-1, -1));

fn fdname(fd: i64) -> String {
    let (r, w) = *FDS.lock().unwrap();
    if fd == w as i64 { "W".into() } else if fd == r as i64 { "R".into() } else { format!("fd{}", fd) }
}

fn pre(e: &shim::Event) -> shim::Inject {
    if e.op == shim::Op::Syscall && e.name == "close" && EINTR_CLOSE.swap(false, std::sync::atomic::Ordering::SeqCst) {
        unsafe {
            libc::close(e.arg as i32);
            *libc::__errno_location() = libc::EINTR;
        }
        EINTR_DONE.store(true, std::sync::atomic::Ordering::SeqCst);
        return shim::Inject::Return(-1);
    }
    if e.op == shim::Op::Syscall && (e.name == "write" || e.name == "send") {
        let fd = e.arg as i32;
        let flags = (e.arg2 >> 32) as i32;
        let dontwait = e.name == "send" && (flags & libc::MSG_DONTWAIT) != 0;
        let fl = unsafe { libc::fcntl(fd, libc::F_GETFL) };
        let nonblock = fl >= 0 && (fl & libc::O_NONBLOCK) != 0;
        if !dontwait && !nonblock && fl >= 0 {
            let mut p = libc::pollfd { fd, events: libc::POLLOUT, revents: 0 };
            if unsafe { libc::poll(&mut p, 1, 0) } == 0 {
                LOG.lock().unwrap().push(format!("WOULD-BLOCK {} {}", e.name, fdname(fd as i64)));
                return shim::Inject::Return(-1);
            }
        }
    }
    shim::Inject::None
}

fn post(e: &shim::Event, result: u64, _ok: bool) {
    if e.op != shim::Op::Syscall || e.name == "sigaction" {
        return;
    }
    let len = e.arg2 & 0xffff_ffff;
    let hi = (e.arg2 >> 32) as i64;
    let text = match e.name {
        "send" => format!("sys send {} len={}{} = {}", fdname(e.arg as i64), len, if hi & libc::MSG_DONTWAIT as i64 != 0 { " dontwait" } else { " BLOCKING" }, result as i64),
        "write" => {
            let fl = unsafe { libc::fcntl(e.arg as i32, libc::F_GETFL) };
            format!("sys write {} len={}{} = {}", fdname(e.arg as i64), len, if fl >= 0 && fl & libc::O_NONBLOCK != 0 { " nonblock-fd" } else { " BLOCKING" }, result as i64)
        }
        "fcntl" => format!("sys fcntl {} {} = {}", fdname(e.arg as i64), if hi == libc::F_GETFL as i64 { "getfl".to_string() } else if hi == libc::F_SETFL as i64 { format!("setfl nonblock={}", (len as i32 & libc::O_NONBLOCK != 0) as i32) } else { format!("cmd{}", hi) }, if (result as i64) < 0 { -1 } else { 0 }),
        // an interrupted close is logged as what it did (the descriptor is gone), not as what it answered
        "close" if EINTR_DONE.swap(false, std::sync::atomic::Ordering::SeqCst) => {
            LOG.lock().unwrap().push(format!("sys close {} = 0", fdname(e.arg as i64)));
            unsafe { *libc::__errno_location() = libc::EINTR; }
            return;
        }
        "close" => format!("sys close {} = {}", fdname(e.arg as i64), result as i64),
        n => format!("sys {} {} = {}", n, fdname(e.arg as i64), result as i64),
    };
    LOG.lock().unwrap().push(text);
}

fn flush_log() {
    for l in LOG.lock().unwrap().drain(..) {
        println!("  {}", l);
    }
}

fn set_nonblock(fd: RawFd, on: bool) {
    unsafe {
        let fl = libc::fcntl(fd, libc::F_GETFL);
        libc::fcntl(fd, libc::F_SETFL, if on { fl | libc::O_NONBLOCK } else { fl & !libc::O_NONBLOCK });
    }
}

fn run_child(ops: &[String]) {
    silence_panics();
    reset_dispositions();
    unsafe { libc::signal(libc::SIGPIPE, libc::SIG_IGN); }
    unsafe { shim::set_hooks(shim::Hooks { pre, post }); }
    let mut kind = String::new();
    let mut id: Option<signal_hook::SigId> = None;
    let (mut rfd, mut wfd) = (-1, -1);
    let mut sig = libc::SIGUSR1;
    // a second registration, for another signal, on a dup of the same write end (the documented way to
    // wake one pipe from several signals): both share one open file description
    let mut sig2 = libc::SIGUSR2;
    let mut id2: Option<signal_hook::SigId> = None;
    for op in ops {
        let w: Vec<&str> = op.split_whitespace().collect();
        match w.as_slice() {
            ["mk", k, nb, full] => {
                kind = k.to_string();
                let mut fds = [0; 2];
                unsafe {
                    match *k {
                        // a descriptor that is no socket and refuses F_SETFL: O_PATH
                        "opath" => { fds[0] = -1; fds[1] = libc::open(b"/\0".as_ptr() as *const libc::c_char, libc::O_PATH); }
                        "pipe" => { libc::pipe(fds.as_mut_ptr()); }
                        "stream" => { libc::socketpair(libc::AF_UNIX, libc::SOCK_STREAM, 0, fds.as_mut_ptr()); }
                        _ => { libc::socketpair(libc::AF_UNIX, libc::SOCK_DGRAM, 0, fds.as_mut_ptr()); }
                    }
                }
                rfd = fds[0]; wfd = fds[1];
                *FDS.lock().unwrap() = (rfd, wfd);
                // measure the capacity in one-byte messages on this very descriptor, then drain again
                set_nonblock(wfd, true);
                set_nonblock(rfd, true);
                let mut cap = 0usize;
                while unsafe { libc::write(wfd, b"X".as_ptr() as *const libc::c_void, 1) } == 1 { cap += 1; }
                if *full != "1" {
                    let mut buf = [0u8; 4096];
                    loop {
                        let r = unsafe { libc::read(rfd, buf.as_mut_ptr() as *mut libc::c_void, if *k == "dgram" { 1 } else { 4096 }) };
                        if r < 0 || (r == 0 && *k != "dgram") { break; }
                    }
                }
                set_nonblock(wfd, *nb == "1");
                println!("made cap={} fill={}", cap, if *full == "1" { cap } else { 0 });
            }
            ["reg", how, s] => {
                sig = s.parse().unwrap();
                let r = std::panic::catch_unwind(std::panic::AssertUnwindSafe(|| {
                    if *how == "raw" {
                        signal_hook::low_level::pipe::register_raw(sig, wfd)
                    } else {
                        match kind.as_str() {
                            "stream" => signal_hook::low_level::pipe::register(sig, unsafe { std::os::unix::net::UnixStream::from_raw_fd(wfd) }),
                            "dgram" => signal_hook::low_level::pipe::register(sig, unsafe { std::os::unix::net::UnixDatagram::from_raw_fd(wfd) }),
                            _ => signal_hook::low_level::pipe::register(sig, unsafe { std::fs::File::from_raw_fd(wfd) }),
                        }
                    }
                }));
                println!("{}", match r { Ok(Ok(i)) => { id = Some(i); "ok" } Ok(Err(_)) => "err", Err(_) => "panic" });
                flush_log();
            }
            ["reg2", how, s] => {
                sig2 = s.parse().unwrap();
                let dupfd = unsafe { libc::dup(wfd) };
                let r = std::panic::catch_unwind(std::panic::AssertUnwindSafe(|| {
                    if *how == "raw" {
                        signal_hook::low_level::pipe::register_raw(sig2, dupfd)
                    } else {
                        match kind.as_str() {
                            "stream" => signal_hook::low_level::pipe::register(sig2, unsafe { std::os::unix::net::UnixStream::from_raw_fd(dupfd) }),
                            "dgram" => signal_hook::low_level::pipe::register(sig2, unsafe { std::os::unix::net::UnixDatagram::from_raw_fd(dupfd) }),
                            _ => signal_hook::low_level::pipe::register(sig2, unsafe { std::fs::File::from_raw_fd(dupfd) }),
                        }
                    }
                }));
                println!("{}", match r { Ok(Ok(i)) => { id2 = Some(i); "ok" } Ok(Err(_)) => "err", Err(_) => "panic" });
                flush_log();
            }
            ["raise", n] | ["raise2", n] => {
                let n: usize = n.parse().unwrap();
                let sig = if w[0] == "raise2" { sig2 } else { sig };
                let d = disposition(sig, None);
                if d == "dfl" { println!("raised 0"); continue; }
                let t0 = std::time::Instant::now();
                for _ in 0..n { unsafe { libc::raise(sig) }; }
                let log = LOG.lock().unwrap().clone();
                let attempts = log.iter().filter(|l| l.starts_with("sys write") || l.starts_with("sys send")).count();
                let wb = log.iter().filter(|l| l.starts_with("WOULD-BLOCK")).count();
                let blocking = log.iter().filter(|l| l.contains("BLOCKING")).count();
                println!("raised {} attempts={} wouldblock={} blocking_calls={} slow={}", n, attempts, wb, blocking, (t0.elapsed().as_millis() > 2000) as i32);
                LOG.lock().unwrap().clear();
            }
            ["drain"] => {
                let mut total = 0i64;
                let mut buf = [0u8; 4096];
                loop {
                    let r = unsafe { libc::read(rfd, buf.as_mut_ptr() as *mut libc::c_void, if kind == "dgram" { 1 } else { 4096 }) };
                    // a datagram socket may hold the empty datagram of the library's probe: 0 is not EOF there
                    if r < 0 || (r == 0 && kind != "dgram") { break; }
                    total += r as i64;
                }
                println!("bytes={}", total);
            }
            // the write end becomes descriptor 0 (a process that closed its stdin gets 0 from its next pipe()/dup())
            ["fd0"] => {
                unsafe {
                    libc::dup2(wfd, 0);
                    libc::close(wfd);
                }
                wfd = 0;
                *FDS.lock().unwrap() = (rfd, wfd);
                println!("ok");
            }
            ["eintr-close"] => {
                EINTR_CLOSE.store(true, std::sync::atomic::Ordering::SeqCst);
                println!("ok");
            }
            ["unreg"] => {
                let b = id.map(signal_hook::low_level::unregister).unwrap_or(false);
                let open = unsafe { libc::fcntl(wfd, libc::F_GETFD) >= 0 };
                println!("unregistered={} fd={}", b, if open { "open" } else { "closed" });
                flush_log();
            }
            ["unreg2"] => {
                let b = id2.map(signal_hook::low_level::unregister).unwrap_or(false);
                println!("unregistered2={}", b);
                flush_log();
            }
            ["final"] => {
                let open = unsafe { libc::fcntl(wfd, libc::F_GETFD) >= 0 };
                println!("fd={}", if open { "open" } else { "closed" });
                flush_log();
            }
            _ => println!("bad-op"),
        }
    }
}

pub fn main() -> i32 {
    let mut block: Vec<String> = Vec::new();
    let mut blocks: Vec<Vec<String>> = Vec::new();
    for line in read_lines() {
        if line.trim() == "---" { blocks.push(std::mem::take(&mut block)); } else { block.push(line); }
    }
    if !block.is_empty() { blocks.push(block); }
    for b in blocks {
        use std::io::Write;
        let _ = std::io::stdout().flush();
        let status = crate::defaults::fork_classify(|| { run_child(&b); 0 });
        println!("exit {}", status);
        println!("---");
    }
    0
}
