//! C17: `Origin::extract` on synthetic siginfo (table level) and on real deliveries.
use crate::common::*;
use signal_hook::iterator::exfiltrator::WithOrigin;
use signal_hook::iterator::SignalsInfo;
use signal_hook::low_level::siginfo::{Cause, Chld, Origin, Sent};
use std::sync::atomic::{AtomicI64, AtomicUsize, Ordering};
use std::time::{Duration, Instant};

extern "C" {
    fn sigqueue(pid: libc::pid_t, sig: libc::c_int, value: libc::sigval) -> libc::c_int;
    fn setitimer(which: libc::c_int, new: *const libc::itimerval, old: *mut libc::itimerval) -> libc::c_int;
}


fn cause_name(c: &Cause) -> &'static str {
    match c {
        Cause::Unknown => "unknown",
        Cause::Kernel => "kernel",
        Cause::Sent(Sent::User) => "sentUser",
        Cause::Sent(Sent::TKill) => "sentTKill",
        Cause::Sent(Sent::Queue) => "sentQueue",
        Cause::Sent(Sent::MesgQ) => "sentMesgQ",
        Cause::Chld(Chld::Exited) => "chldExited",
        Cause::Chld(Chld::Killed) => "chldKilled",
        Cause::Chld(Chld::Dumped) => "chldDumped",
        Cause::Chld(Chld::Trapped) => "chldTrapped",
        Cause::Chld(Chld::Stopped) => "chldStopped",
        Cause::Chld(Chld::Continued) => "chldContinued",
        _ => "other",
    }
}

fn fmt_origin(o: &Origin) -> String {
    let p = match &o.process {
        Some(p) => format!("{}:{}", p.pid, p.uid as i32),
        None => "none".into(),
    };
    format!("sig={} cause={} proc={}", o.signal, cause_name(&o.cause), p)
}

/// independent reader of the raw kernel record (does not go through the library)
unsafe fn raw_fields(info: *const libc::siginfo_t) -> (i64, i64, i64, i64) {
    let p = info as *const i32;
    // Linux x86_64 layout: si_signo(0) si_errno(4) si_code(8) pad(12) union(16: si_pid, 20: si_uid)
    (*p.add(0) as i64, *p.add(2) as i64, *p.add(4) as i64, *p.add(5) as i64)
}

fn synthetic(signo: i32, code: i32, pid: i32, uid: i32) -> libc::siginfo_t {
    unsafe {
        let mut info: libc::siginfo_t = std::mem::zeroed();
        let p = &mut info as *mut libc::siginfo_t as *mut i32;
        *p.add(0) = signo;
        *p.add(2) = code;
        *p.add(4) = pid;
        *p.add(5) = uid;
        info
    }
}

static RAW: [AtomicI64; 4] = [AtomicI64::new(0), AtomicI64::new(0), AtomicI64::new(0), AtomicI64::new(0)];
static RAW_CNT: AtomicUsize = AtomicUsize::new(0);

fn wait_origin(sigs: &mut SignalsInfo<WithOrigin>, want_sig: i32) -> Option<Origin> {
    let start = Instant::now();
    while start.elapsed() < Duration::from_secs(5) {
        for o in sigs.pending() {
            if o.signal == want_sig {
                return Some(o);
            }
        }
        std::thread::sleep(Duration::from_millis(1));
    }
    None
}

fn fork_child<F: FnOnce()>(f: F) -> libc::pid_t {
    unsafe {
        let pid = libc::fork();
        if pid == 0 {
            f();
            libc::_exit(0);
        }
        pid
    }
}

pub fn main() -> i32 {
    silence_panics();
    let mut out = Out::new();
    let lines = read_lines();
    let need_real = lines.iter().any(|l| l.starts_with("real"));
    let mut sigs: Option<SignalsInfo<WithOrigin>> = None;
    if need_real {
        reset_dispositions();
        for &s in &[libc::SIGUSR1, libc::SIGUSR2, libc::SIGCHLD, libc::SIGALRM] {
            unsafe {
                signal_hook_registry::register_sigaction(s, move |info| {
                    let (a, b, c, d) = raw_fields(info);
                    RAW[0].store(a, Ordering::SeqCst);
                    RAW[1].store(b, Ordering::SeqCst);
                    RAW[2].store(c, Ordering::SeqCst);
                    RAW[3].store(d, Ordering::SeqCst);
                    RAW_CNT.fetch_add(1, Ordering::SeqCst);
                })
                .unwrap();
            }
        }
        sigs = Some(SignalsInfo::<WithOrigin>::new(&[libc::SIGUSR1, libc::SIGUSR2, libc::SIGCHLD, libc::SIGALRM]).unwrap());
    }
    let me = unsafe { libc::getpid() } as i64;
    let uid = unsafe { libc::getuid() } as i64;
    for line in lines {
        let w: Vec<&str> = line.split_whitespace().collect();
        match w.as_slice() {
            ["ex", s, c, p, u] => {
                match (s.parse::<i32>(), c.parse::<i32>(), p.parse::<i32>(), u.parse::<i32>()) {
                    (Ok(s), Ok(c), Ok(p), Ok(u)) => {
                        let info = synthetic(s, c, p, u);
                        let o = unsafe { Origin::extract(&info) };
                        out.line(&format!("raw {} {} {} {} | {}", s, c, p, u, fmt_origin(&o)));
                    }
                    _ => out.line("bad-op"),
                }
            }
            ["real", mech] => {
                let sigs = sigs.as_mut().unwrap();
                let before = RAW_CNT.load(Ordering::SeqCst);
                let mut child: i64 = 0;
                let want_sig;
                unsafe {
                    match *mech {
                        "kill" => { want_sig = libc::SIGUSR1; libc::kill(me as i32, libc::SIGUSR1); }
                        "raise" => { want_sig = libc::SIGUSR2; libc::raise(libc::SIGUSR2); }
                        "sigqueue" => {
                            want_sig = libc::SIGUSR1;
                            let v = libc::sigval { sival_ptr: 0x1234 as *mut libc::c_void };
                            sigqueue(me as i32, libc::SIGUSR1, v);
                        }
                        "fromchild" => {
                            want_sig = libc::SIGUSR1;
                            // block SIGCHLD bookkeeping: the child's exit also raises SIGCHLD, drained below
                            child = fork_child(|| { libc::kill(me as i32, libc::SIGUSR1); libc::pause(); }) as i64;
                        }
                        "chld_exit" => { want_sig = libc::SIGCHLD; child = fork_child(|| {}) as i64; }
                        "chld_kill" => {
                            want_sig = libc::SIGCHLD;
                            child = fork_child(|| { libc::pause(); }) as i64;
                            libc::kill(child as i32, libc::SIGKILL);
                        }
                        "chld_stop" => {
                            want_sig = libc::SIGCHLD;
                            child = fork_child(|| { loop { libc::pause(); } }) as i64;
                            libc::kill(child as i32, libc::SIGSTOP);
                        }
                        "alarm" => {
                            want_sig = libc::SIGALRM;
                            let it = libc::itimerval {
                                it_interval: libc::timeval { tv_sec: 0, tv_usec: 0 },
                                it_value: libc::timeval { tv_sec: 0, tv_usec: 5000 },
                            };
                            setitimer(0 /* ITIMER_REAL */, &it, std::ptr::null_mut());
                        }
                        "timer" => {
                            want_sig = libc::SIGUSR2;
                            let mut sev: libc::sigevent = std::mem::zeroed();
                            sev.sigev_notify = libc::SIGEV_SIGNAL;
                            sev.sigev_signo = libc::SIGUSR2;
                            let mut t: libc::timer_t = std::mem::zeroed();
                            libc::timer_create(libc::CLOCK_MONOTONIC, &mut sev, &mut t);
                            let its = libc::itimerspec {
                                it_interval: libc::timespec { tv_sec: 0, tv_nsec: 0 },
                                it_value: libc::timespec { tv_sec: 0, tv_nsec: 5_000_000 },
                            };
                            libc::timer_settime(t, 0, &its, std::ptr::null_mut());
                        }
                        _ => { out.line("bad-op"); continue; }
                    }
                }
                let start = Instant::now();
                while RAW_CNT.load(Ordering::SeqCst) == before && start.elapsed() < Duration::from_secs(5) {
                    std::thread::sleep(Duration::from_millis(1));
                }
                let raw: Vec<i64> = RAW.iter().map(|a| a.load(Ordering::SeqCst)).collect();
                let o = wait_origin(sigs, want_sig);
                let os = o.map(|o| fmt_origin(&o)).unwrap_or_else(|| "missing".into());
                out.line(&format!("raw {} {} {} {} | {} | me={} uid={} child={} mech={}",
                                  raw[0], raw[1], raw[2], raw[3], os, me, uid, child, mech));
                // clean up children and drain whatever else arrived
                unsafe {
                    if child != 0 {
                        libc::kill(child as i32, libc::SIGKILL);
                        libc::kill(child as i32, libc::SIGCONT);
                        let mut st = 0;
                        libc::waitpid(child as i32, &mut st, 0);
                    }
                }
                std::thread::sleep(Duration::from_millis(5));
                for _ in sigs.pending() {}
            }
            _ => out.line("bad-op"),
        }
    }
    out.flush();
    0
}
