//! C15: forked histories on the real `flag::*` actions with real signals.
//!   flag b<k> | usize u<k> <v> | shutdown <status> b<k> | set <flag> <v> | raise | unreg <k-th registration>
//!   nullinfo   — deliver with a NULL siginfo while another thread holds std's stderr lock (must abort at once)
//!   thread     — start a second, sleeping thread first (exit:77 = only the delivering thread went away)
//!   reraiser   — a raw action that raises the same signal again, once, from inside the delivery
//!                (the signal is blocked while its handler runs, so the second delivery starts
//!                when the first has returned)
use crate::common::*;
use std::sync::atomic::{AtomicBool, AtomicUsize, Ordering};
use std::sync::Arc;

extern "C" fn at_exit_hook() {
    let m = b"ATEXIT-HOOK-RAN\n";
    unsafe { libc::write(1, m.as_ptr() as *const libc::c_void, m.len()) };
}

fn run_child(ops: &[String]) {
    reset_dispositions();
    unsafe { libc::atexit(at_exit_hook) };
    let sig = libc::SIGUSR1;
    let mut bools: Vec<(String, Arc<AtomicBool>)> = Vec::new();
    let mut usizes: Vec<(String, Arc<AtomicUsize>)> = Vec::new();
    // ids of the flag / usize / shutdown registrations, in registration order (`unreg <k>` removes the k-th)
    let mut ids: Vec<signal_hook::SigId> = Vec::new();
    let getb = |bools: &mut Vec<(String, Arc<AtomicBool>)>, n: &str| -> Arc<AtomicBool> {
        if let Some((_, a)) = bools.iter().find(|(k, _)| k == n) { return a.clone(); }
        let a = Arc::new(AtomicBool::new(false));
        bools.push((n.to_string(), a.clone()));
        a
    };
    let getu = |usizes: &mut Vec<(String, Arc<AtomicUsize>)>, n: &str| -> Arc<AtomicUsize> {
        if let Some((_, a)) = usizes.iter().find(|(k, _)| k == n) { return a.clone(); }
        let a = Arc::new(AtomicUsize::new(0));
        usizes.push((n.to_string(), a.clone()));
        a
    };
    for op in ops {
        let w: Vec<&str> = op.split_whitespace().collect();
        match w.as_slice() {
            ["flag", f] => { let a = getb(&mut bools, f); ids.push(signal_hook::flag::register(sig, a).unwrap()); println!("ok"); }
            ["usize", f, v] => { let a = getu(&mut usizes, f); ids.push(signal_hook::flag::register_usize(sig, a, v.parse().unwrap()).unwrap()); println!("ok"); }
            ["shutdown", st, f] => { let a = getb(&mut bools, f); ids.push(signal_hook::flag::register_conditional_shutdown(sig, st.parse().unwrap(), a).unwrap()); println!("ok"); }
            ["unreg", k] => {
                // take the k-th registration away again: the others keep their order
                let k: usize = k.parse().unwrap();
                let r = ids.get(k).map(|id| signal_hook::low_level::unregister(*id));
                println!("{}", match r { Some(true) => "ok", Some(false) => "gone", None => "bad-op" });
            }
            ["set", f, v] => {
                let v: usize = v.parse().unwrap();
                if f.starts_with('b') { getb(&mut bools, f).store(v != 0, Ordering::SeqCst); } else { getu(&mut usizes, f).store(v, Ordering::SeqCst); }
                println!("ok");
            }
            ["thread"] => {
                // a second thread in the process: a shutdown has to end the whole process, not the thread
                // the delivery happened to run on. Should only that thread end, this one reports it.
                std::thread::spawn(|| {
                    std::thread::sleep(std::time::Duration::from_millis(6000));
                    unsafe { libc::_exit(77) };
                });
                println!("ok");
            }
            ["nullinfo"] => {
                // the dispatcher entered with a NULL `info` (a foreign handler chaining to it sa_handler-style, a
                // broken platform) while another thread holds the lock of std's stderr: it has to end the process
                // with write + abort, at once, and not wait for that lock
                let (tx, rx) = std::sync::mpsc::channel::<()>();
                std::thread::spawn(move || {
                    let _g = std::io::stderr().lock();
                    let _ = tx.send(());
                    std::thread::sleep(std::time::Duration::from_millis(8000));
                    unsafe { libc::_exit(78) };
                });
                let _ = rx.recv();
                use std::io::Write;
                let _ = std::io::stdout().flush();
                unsafe { signal_hook_registry::verif::deliver(sig, std::ptr::null_mut(), std::ptr::null_mut()) };
                println!("returned");
            }
            ["reraiser"] => {
                let fired = Arc::new(AtomicBool::new(false));
                unsafe { signal_hook_registry::register(sig, move || {
                    if !fired.swap(true, Ordering::SeqCst) { libc::raise(sig); }
                }) }.unwrap();
                println!("ok");
            }
            ["raise"] => {
                unsafe { libc::raise(sig) };
                let mut s = String::from("alive");
                for (k, a) in bools.iter() { s += &format!(" {}={}", k, a.load(Ordering::SeqCst) as usize); }
                for (k, a) in usizes.iter() { s += &format!(" {}={}", k, a.load(Ordering::SeqCst)); }
                println!("{}", s);
            }
            _ => println!("bad-op"),
        }
    }
}

pub fn main() -> i32 {
    let mut block: Vec<String> = Vec::new();
    let mut blocks: Vec<Vec<String>> = Vec::new();
    for line in read_lines() {
        if line.trim() == "---" { blocks.push(std::mem::take(&mut block)); } else { block.push(line); }
    }
    if !block.is_empty() { blocks.push(block); }
    for b in blocks {
        use std::io::Write;
        let _ = std::io::stdout().flush();
        // 199 = "ran to the end"; every other exit status is the library's doing
        let status = crate::defaults::fork_classify(|| { run_child(&b); 199 });
        let status = match status.as_str() { "exit:199" => "continues".to_string(), "continues" => "exit:0".to_string(), "err" => "exit:3".to_string(), s => s.to_string() };
        println!("exit {}", status);
        println!("---");
    }
    0
}
