#![allow(dead_code)]
use std::io::{self, BufRead, Write};
use std::sync::atomic::{AtomicUsize, Ordering};

pub const LOG_CAP: usize = 1 << 16;
static LOG: [AtomicUsize; LOG_CAP] = {
    #[allow(clippy::declare_interior_mutable_const)]
    const Z: AtomicUsize = AtomicUsize::new(0);
    [Z; LOG_CAP]
};
static LOG_LEN: AtomicUsize = AtomicUsize::new(0);

/// async-signal-safe append to the global event log
pub fn log(v: usize) {
    let i = LOG_LEN.fetch_add(1, Ordering::SeqCst);
    if i < LOG_CAP {
        LOG[i].store(v, Ordering::SeqCst);
    }
}

pub fn log_take() -> Vec<usize> {
    let n = LOG_LEN.swap(0, Ordering::SeqCst).min(LOG_CAP);
    (0..n).map(|i| LOG[i].load(Ordering::SeqCst)).collect()
}

pub fn silence_panics() {
    if std::env::var("VERIF_PANICS").is_ok() {
        // debugging aid: say where a caught panic came from
        std::panic::set_hook(Box::new(|i| { eprintln!("PANIC: {}", i); }));
        return;
    }
    std::panic::set_hook(Box::new(|_| {}));
}

pub fn read_lines() -> Vec<String> {
    let stdin = io::stdin();
    stdin
        .lock()
        .lines()
        .map(|l| l.unwrap())
        .filter(|l| !l.trim().is_empty() && !l.starts_with('#'))
        .collect()
}

pub struct Out {
    w: io::BufWriter<io::Stdout>,
}

impl Out {
    pub fn new() -> Self {
        Out { w: io::BufWriter::new(io::stdout()) }
    }
    pub fn line(&mut self, s: &str) {
        writeln!(self.w, "{}", s).unwrap();
    }
    pub fn flush(&mut self) {
        self.w.flush().unwrap();
    }
}

/// parse the numeric action id out of `SigId`'s Debug output
/// (`SigId { signal: 10, action: ActionId(1) }`)
pub fn sigid_parts(id: &signal_hook_registry::SigId) -> (i64, u128) {
    let s = format!("{:?}", id);
    let sig = s
        .split("signal:")
        .nth(1)
        .and_then(|r| r.trim().split(|c: char| c == ',' || c == ' ').next())
        .and_then(|n| n.parse::<i64>().ok())
        .expect("SigId debug: signal");
    let act = s
        .split("ActionId(")
        .nth(1)
        .and_then(|r| r.split(')').next())
        .and_then(|n| n.trim().parse::<u128>().ok())
        .expect("SigId debug: action");
    (sig, act)
}

pub const FOREIGN_H1: usize = 1_000_000;
pub const FOREIGN_H3: usize = 2_000_000;

macro_rules! foreign_handlers {
    ($($k:expr => $n1:ident, $n3:ident);*) => {
        $(
            pub extern "C" fn $n1(sig: libc::c_int) {
                if !crate::regconc::foreign_called("h1", $k, sig, 0, 0) { log(FOREIGN_H1 + $k); }
            }
            pub extern "C" fn $n3(sig: libc::c_int, i: *mut libc::siginfo_t, c: *mut libc::c_void) {
                if !crate::regconc::foreign_called("h3", $k, sig, i as usize, c as usize) { log(FOREIGN_H3 + $k); }
            }
        )*
        pub fn foreign_h1(k: usize) -> Option<usize> {
            match k { $($k => Some($n1 as usize),)* _ => None }
        }
        pub fn foreign_h3(k: usize) -> Option<usize> {
            match k { $($k => Some($n3 as usize),)* _ => None }
        }
        pub fn foreign_classify(addr: usize) -> Option<String> {
            $(
                if addr == $n1 as usize { return Some(format!("h1:{}", $k)); }
                if addr == $n3 as usize { return Some(format!("h3:{}", $k)); }
            )*
            None
        }
    };
}
foreign_handlers!(0 => fh1_0, fh3_0; 1 => fh1_1, fh3_1; 2 => fh1_2, fh3_2; 3 => fh1_3, fh3_3;
                  4 => fh1_4, fh3_4; 5 => fh1_5, fh3_5; 6 => fh1_6, fh3_6; 7 => fh1_7, fh3_7);

pub const SA_RESTORER: libc::c_int = 0x0400_0000;

/// install a foreign disposition; returns false if the kernel refuses
pub fn install_foreign(sig: libc::c_int, kind: &str) -> bool {
    unsafe {
        let mut sa: libc::sigaction = std::mem::zeroed();
        let (kind, masked) = match kind.split_once('~') {
            Some((k, m)) => (k, m.parse::<libc::c_int>().ok()),
            None => (kind, None),
        };
        libc::sigemptyset(&mut sa.sa_mask);
        if let Some(m) = masked {
            libc::sigaddset(&mut sa.sa_mask, m);
        }
        let (kind, extra) = match kind.split_once('+') {
            Some((k, f)) => (k, libc::c_int::from_str_radix(f, 16).unwrap_or(0)),
            None => (kind, 0),
        };
        let parts: Vec<&str> = kind.split(':').collect();
        match parts.as_slice() {
            ["dfl"] => sa.sa_sigaction = libc::SIG_DFL,
            ["ign"] => sa.sa_sigaction = libc::SIG_IGN,
            ["h1", k] => match k.parse().ok().and_then(foreign_h1) {
                Some(a) => sa.sa_sigaction = a,
                None => return false,
            },
            ["h3", k] => match k.parse().ok().and_then(foreign_h3) {
                Some(a) => {
                    sa.sa_sigaction = a;
                    sa.sa_flags = libc::SA_SIGINFO;
                }
                None => return false,
            },
            _ => return false,
        }
        sa.sa_flags |= extra;
        libc::sigaction(sig, &sa, std::ptr::null_mut()) == 0
    }
}

/// classify the kernel's current disposition of `sig`
pub fn disposition(sig: libc::c_int, lib_handler: Option<usize>) -> String {
    unsafe {
        let mut old: libc::sigaction = std::mem::zeroed();
        if libc::sigaction(sig, std::ptr::null(), &mut old) != 0 {
            return "dfl".to_string(); // the model's table says default for unknown numbers
        }
        let h = old.sa_sigaction;
        if h == libc::SIG_DFL {
            "dfl".into()
        } else if h == libc::SIG_IGN {
            "ign".into()
        } else if Some(h) == lib_handler {
            // the library installs its dispatcher with an empty mask: anything else is reported
            let masked: Vec<String> = (1..65).filter(|&k| libc::sigismember(&old.sa_mask, k) == 1).map(|k| k.to_string()).collect();
            if masked.is_empty() {
                format!("lib:{}", (old.sa_flags & !SA_RESTORER) as u32)
            } else {
                format!("lib:{}+mask[{}]", (old.sa_flags & !SA_RESTORER) as u32, masked.join(","))
            }
        } else if let Some(f) = foreign_classify(h) {
            f
        } else {
            format!("other:{:x}", h)
        }
    }
}

pub fn handler_addr_of(sig: libc::c_int) -> usize {
    unsafe {
        let mut old: libc::sigaction = std::mem::zeroed();
        libc::sigaction(sig, std::ptr::null(), &mut old);
        old.sa_sigaction
    }
}

pub fn fmt_tags(v: &[usize]) -> String {
    let s: Vec<String> = v.iter().map(|t| t.to_string()).collect();
    format!("[{}]", s.join(","))
}

/// make the process's disposition table match the model's initial state: everything default
/// (the Rust runtime ignores SIGPIPE and installs SIGSEGV/SIGBUS handlers before main)
pub fn reset_dispositions() {
    for sig in 1..=64 {
        unsafe {
            let mut sa: libc::sigaction = std::mem::zeroed();
            sa.sa_sigaction = libc::SIG_DFL;
            libc::sigaction(sig, &sa, std::ptr::null_mut());
        }
    }
}
