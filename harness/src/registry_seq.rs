//! Sequential registry histories on the real crate with real signals (C05, parts of C02/C04/C14).
use crate::common::*;
use signal_hook_registry::SigId;
use std::panic::{catch_unwind, AssertUnwindSafe};

struct St {
    ids: Vec<SigId>,
    lib_handler: Option<usize>,
}

fn reg_result(st: &mut St, sig: libc::c_int, r: std::thread::Result<Result<SigId, std::io::Error>>) -> String {
    match r {
        Ok(Ok(id)) => {
            if st.lib_handler.is_none() {
                st.lib_handler = Some(handler_addr_of(sig));
            }
            let (s, a) = sigid_parts(&id);
            st.ids.push(id);
            format!("id {} {}", s, a)
        }
        Ok(Err(_)) => "err".into(),
        Err(_) => "panic".into(),
    }
}

fn fmt_ran(log: &[usize]) -> String {
    // canonical: an optional leading foreign-handler entry, then action tags
    let mut prev = "-".to_string();
    let mut rest = log;
    if let Some(&first) = log.first() {
        if first >= FOREIGN_H3 {
            prev = format!("h3:{}", first - FOREIGN_H3);
            rest = &log[1..];
        } else if first >= FOREIGN_H1 {
            prev = format!("h1:{}", first - FOREIGN_H1);
            rest = &log[1..];
        }
    }
    if rest.iter().any(|&t| t >= FOREIGN_H1) {
        return format!("ran-raw {}", fmt_tags(log));
    }
    format!("ran {} {}", prev, fmt_tags(rest))
}

pub fn main() -> i32 {
    silence_panics();
    reset_dispositions();
    let mut out = Out::new();
    let mut st = St { ids: Vec::new(), lib_handler: None };
    for line in read_lines() {
        let w: Vec<&str> = line.split_whitespace().collect();
        let parse_sig = |s: &str| s.parse::<i64>().ok();
        let (res, sig): (String, Option<i64>) = match w.as_slice() {
            [op @ ("reg" | "regsa" | "regu" | "regusa"), s, t] => match (parse_sig(s), t.parse::<usize>().ok()) {
                (Some(sig), Some(tag)) if sig >= i32::MIN as i64 && sig <= i32::MAX as i64 => {
                    let sg = sig as libc::c_int;
                    let r = catch_unwind(AssertUnwindSafe(|| unsafe {
                        match *op {
                            "reg" => signal_hook_registry::register(sg, move || log(tag)),
                            "regsa" => signal_hook_registry::register_sigaction(sg, move |_| log(tag)),
                            "regu" => signal_hook_registry::register_signal_unchecked(sg, move || log(tag)),
                            _ => signal_hook_registry::register_unchecked(sg, move |_| log(tag)),
                        }
                    }));
                    (reg_result(&mut st, sg, r), Some(sig))
                }
                _ => ("bad-op".into(), None),
            },
            ["unreg", k] => match k.parse::<usize>().ok().and_then(|k| st.ids.get(k).copied()) {
                Some(id) => {
                    let (s, _) = sigid_parts(&id);
                    (format!("bool {}", signal_hook_registry::unregister(id)), Some(s))
                }
                None => ("bad-op".into(), None),
            },
            ["unregsig", s] => match parse_sig(s) {
                Some(sig) => {
                    #[allow(deprecated)]
                    let b = signal_hook_registry::unregister_signal(sig as libc::c_int);
                    (format!("bool {}", b), Some(sig))
                }
                None => ("bad-op".into(), None),
            },
            ["raise", s] => match parse_sig(s) {
                Some(sig) => {
                    let d = disposition(sig as libc::c_int, st.lib_handler);
                    let r = if d.starts_with("lib:") {
                        log_take();
                        unsafe { libc::raise(sig as libc::c_int) };
                        fmt_ran(&log_take())
                    } else {
                        format!("notours {}", d)
                    };
                    (r, Some(sig))
                }
                None => ("bad-op".into(), None),
            },
            ["foreign", s, k] => match parse_sig(s) {
                Some(sig) => {
                    if install_foreign(sig as libc::c_int, k) {
                        ("bool true".into(), Some(sig))
                    } else {
                        ("bad-op".into(), None)
                    }
                }
                None => ("bad-op".into(), None),
            },
            _ => ("bad-op".into(), None),
        };
        match sig {
            Some(sig) => out.line(&format!("{} | disp={}", res, disposition(sig as libc::c_int, st.lib_handler))),
            None => out.line(&res),
        }
    }
    out.flush();
    0
}
