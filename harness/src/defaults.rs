//! C16: paired forked probes — native default disposition vs `emulate_default_handler`.
use crate::common::*;
use std::sync::atomic::{AtomicBool, Ordering};
use std::sync::Arc;

static EMU_ERR: AtomicBool = AtomicBool::new(false);

fn child_prelude() {
    unsafe {
        libc::alarm(20); // never outlive a stuck probe
        // fresh, non-orphaned process group (stop signals are discarded in orphaned groups)
        libc::setpgid(0, 0);
        let lim = libc::rlimit { rlim_cur: 0, rlim_max: 0 };
        libc::setrlimit(libc::RLIMIT_CORE, &lim);
    }
    reset_dispositions();
    unsafe {
        let mut set: libc::sigset_t = std::mem::zeroed();
        libc::sigemptyset(&mut set);
        libc::sigprocmask(libc::SIG_SETMASK, &set, std::ptr::null_mut());
    }
}

/// run `f` in a forked child and classify how it ended
pub fn fork_classify<F: FnOnce() -> i32>(f: F) -> String {
    unsafe {
        let pid = libc::fork();
        if pid < 0 {
            return "fork-failed".into();
        }
        if pid == 0 {
            child_prelude();
            let code = f();
            libc::_exit(code);
        }
        let mut status = 0;
        let mut waited = 0u32;
        loop {
            let r = libc::waitpid(pid, &mut status, libc::WUNTRACED | libc::WNOHANG);
            if r == pid {
                break;
            }
            if r < 0 {
                return "wait-failed".into();
            }
            std::thread::sleep(std::time::Duration::from_millis(2));
            waited += 2;
            if waited > 10_000 {
                libc::kill(pid, libc::SIGKILL);
                libc::waitpid(pid, &mut status, 0);
                return "hang".into();
            }
        }
        if libc::WIFSTOPPED(status) {
            libc::kill(pid, libc::SIGKILL);
            libc::kill(pid, libc::SIGCONT);
            libc::waitpid(pid, &mut status, 0);
            "stopped".into()
        } else if libc::WIFSIGNALED(status) {
            format!("killedBy:{}", libc::WTERMSIG(status))
        } else if libc::WIFEXITED(status) {
            match libc::WEXITSTATUS(status) {
                0 => "continues".into(),
                3 => "err".into(),
                c => format!("exit:{}", c),
            }
        } else {
            format!("status:{}", status)
        }
    }
}

/// state letter of a process from /proc (R, S, T = stopped, Z = zombie, - = gone)
fn proc_state(pid: libc::pid_t) -> char {
    match std::fs::read_to_string(format!("/proc/{}/stat", pid)) {
        Ok(t) => t.rsplit(')').next().and_then(|r| r.trim_start().chars().next()).unwrap_or('?'),
        Err(_) => '-',
    }
}

/// like `fork_classify`, but the probe shares its (fresh) process group with a bystander process; the
/// outcome also says what happened to the bystander - the default action of a signal raised in one
/// process concerns that process only
pub fn fork_classify_group<F: FnOnce() -> i32>(f: F) -> String {
    unsafe {
        let mut fds = [0 as libc::c_int; 2];
        if libc::pipe(fds.as_mut_ptr()) != 0 {
            return "pipe-failed".into();
        }
        let pid = libc::fork();
        if pid < 0 {
            return "fork-failed".into();
        }
        if pid == 0 {
            child_prelude();
            libc::close(fds[0]);
            let b = libc::fork();
            if b == 0 {
                libc::close(fds[1]);
                libc::alarm(20);
                loop {
                    libc::pause();
                }
            }
            let bytes = (b as i32).to_ne_bytes();
            libc::write(fds[1], bytes.as_ptr() as *const libc::c_void, 4);
            libc::close(fds[1]);
            let code = if b < 0 { 6 } else { f() };
            libc::_exit(code);
        }
        libc::close(fds[1]);
        let mut bytes = [0u8; 4];
        let got = libc::read(fds[0], bytes.as_mut_ptr() as *mut libc::c_void, 4);
        libc::close(fds[0]);
        let b = if got == 4 { i32::from_ne_bytes(bytes) } else { -1 };
        let mut status = 0;
        let mut waited = 0u32;
        let base: String = loop {
            let r = libc::waitpid(pid, &mut status, libc::WUNTRACED | libc::WNOHANG);
            if r == pid {
                break if libc::WIFSTOPPED(status) {
                    "stopped".into()
                } else if libc::WIFSIGNALED(status) {
                    format!("killedBy:{}", libc::WTERMSIG(status))
                } else if libc::WIFEXITED(status) {
                    match libc::WEXITSTATUS(status) {
                        0 => "continues".into(),
                        3 => "err".into(),
                        c => format!("exit:{}", c),
                    }
                } else {
                    format!("status:{}", status)
                };
            }
            if r < 0 {
                break "wait-failed".into();
            }
            std::thread::sleep(std::time::Duration::from_millis(2));
            waited += 2;
            if waited > 10_000 {
                break "hang".into();
            }
        };
        // the bystander is observed while the probe is still there (stopped) or has just gone
        std::thread::sleep(std::time::Duration::from_millis(15));
        let st = if b > 0 { proc_state(b) } else { '?' };
        if b > 0 {
            libc::kill(b, libc::SIGKILL);
            libc::kill(b, libc::SIGCONT);
        }
        if base == "stopped" || base == "hang" {
            libc::kill(pid, libc::SIGKILL);
            libc::kill(pid, libc::SIGCONT);
            libc::waitpid(pid, &mut status, 0);
        }
        match st {
            'S' | 'R' | 'D' => base,
            'T' | 't' => format!("{}+bystander-stopped", base),
            'Z' | '-' | 'X' => format!("{}+bystander-killed", base),
            c => format!("{}+bystander-{}", base, c),
        }
    }
}

fn native_group(n: libc::c_int) -> String {
    fork_classify_group(|| unsafe {
        if libc::raise(n) != 0 {
            return 3;
        }
        0
    })
}

fn emulate_group(n: libc::c_int) -> String {
    fork_classify_group(|| match signal_hook::low_level::emulate_default_handler(n) {
        Ok(()) => 0,
        Err(_) => 3,
    })
}

/// the action happens on a second thread while the main thread idles with every signal unblocked: the outcome
/// must be the one of the signal, whichever thread the kernel hands a process-directed signal to
fn on_worker<F: FnOnce() -> i32 + Send + 'static>(f: F) -> i32 {
    let h = std::thread::spawn(f);
    // the main thread stays around (and unblocked) until the worker is done
    match h.join() {
        Ok(code) => code,
        Err(_) => 7,
    }
}

fn native_worker(n: libc::c_int) -> String {
    fork_classify(move || on_worker(move || unsafe {
        if libc::raise(n) != 0 {
            return 3;
        }
        0
    }))
}

fn emulate_worker(n: libc::c_int) -> String {
    fork_classify(move || on_worker(move || match signal_hook::low_level::emulate_default_handler(n) {
        Ok(()) => 0,
        Err(_) => 3,
    }))
}

static ONESHOT_SIG: std::sync::atomic::AtomicI32 = std::sync::atomic::AtomicI32::new(0);

extern "C" fn oneshot_handler(_s: libc::c_int) {
    let n = ONESHOT_SIG.load(Ordering::SeqCst);
    if signal_hook::low_level::emulate_default_handler(n).is_err() {
        EMU_ERR.store(true, Ordering::SeqCst);
    }
}

/// the signal is blocked and its disposition is already the default one: a thread that takes its signals with
/// sigwait / signalfd, or a one-shot (SA_RESETHAND) handler - the emulation still has to end in the signal's
/// default action
fn emulate_blocked(n: libc::c_int) -> String {
    fork_classify(move || unsafe {
        let mut set: libc::sigset_t = std::mem::zeroed();
        libc::sigemptyset(&mut set);
        libc::sigaddset(&mut set, n);
        libc::sigprocmask(libc::SIG_BLOCK, &set, std::ptr::null_mut());
        match signal_hook::low_level::emulate_default_handler(n) {
            Ok(()) => 0,
            Err(_) => 3,
        }
    })
}

/// the signal is being ignored (SIGPIPE in every Rust program, SIGHUP / SIGINT under nohup): the emulation is of the
/// *default* action, whatever disposition is in place
fn emulate_ignored(n: libc::c_int) -> String {
    fork_classify(move || unsafe {
        if libc::signal(n, libc::SIG_IGN) == libc::SIG_ERR {
            return 4;
        }
        match signal_hook::low_level::emulate_default_handler(n) {
            Ok(()) => 0,
            Err(_) => 3,
        }
    })
}

fn emulate_oneshot(n: libc::c_int) -> String {
    fork_classify(move || unsafe {
        ONESHOT_SIG.store(n, Ordering::SeqCst);
        let mut sa: libc::sigaction = std::mem::zeroed();
        sa.sa_sigaction = oneshot_handler as usize;
        sa.sa_flags = libc::SA_RESETHAND;
        if libc::sigaction(n, &sa, std::ptr::null_mut()) != 0 {
            return 4;
        }
        libc::raise(n);
        if EMU_ERR.load(Ordering::SeqCst) { 3 } else { 0 }
    })
}

fn native(n: libc::c_int) -> String {
    fork_classify(|| unsafe {
        if libc::raise(n) != 0 {
            return 3;
        }
        0
    })
}

fn emulate_normal(n: libc::c_int) -> String {
    fork_classify(|| match signal_hook::low_level::emulate_default_handler(n) {
        Ok(()) => 0,
        Err(_) => 3,
    })
}

/// block another (terminating) signal and leave it pending: the default action of `n` - native or
/// emulated - must not be disturbed by it, and must not deliver it
fn leave_other_pending(n: libc::c_int) {
    let other = if n == libc::SIGUSR2 { libc::SIGUSR1 } else { libc::SIGUSR2 };
    unsafe {
        let mut set: libc::sigset_t = std::mem::zeroed();
        libc::sigemptyset(&mut set);
        libc::sigaddset(&mut set, other);
        libc::sigprocmask(libc::SIG_BLOCK, &set, std::ptr::null_mut());
        libc::raise(other);
    }
}

fn native_pending(n: libc::c_int) -> String {
    fork_classify(|| unsafe {
        leave_other_pending(n);
        if libc::raise(n) != 0 {
            return 3;
        }
        0
    })
}

fn emulate_pending(n: libc::c_int) -> String {
    fork_classify(|| {
        leave_other_pending(n);
        match signal_hook::low_level::emulate_default_handler(n) {
            Ok(()) => 0,
            Err(_) => 3,
        }
    })
}

fn emulate_in_handler(n: libc::c_int) -> String {
    fork_classify(|| {
        let r = unsafe {
            signal_hook_registry::register_signal_unchecked(n, move || {
                if signal_hook::low_level::emulate_default_handler(n).is_err() {
                    EMU_ERR.store(true, Ordering::SeqCst);
                }
            })
        };
        if r.is_err() {
            return 4;
        }
        unsafe { libc::raise(n) };
        if EMU_ERR.load(Ordering::SeqCst) { 3 } else { 0 }
    })
}

fn emulate_cond_default(n: libc::c_int) -> String {
    fork_classify(|| {
        let r = std::panic::catch_unwind(|| {
            signal_hook::flag::register_conditional_default(n, Arc::new(AtomicBool::new(true)))
        });
        match r {
            Ok(Ok(_)) => {}
            Ok(Err(_)) => return 3,
            Err(_) => return 5,
        }
        unsafe { libc::raise(n) };
        0
    })
}

pub fn main() -> i32 {
    silence_panics();
    let mut out = Out::new();
    for line in read_lines() {
        let w: Vec<&str> = line.split_whitespace().collect();
        match w.as_slice() {
            ["emu", n, ctx] => match n.parse::<i64>() {
                Ok(n) if n >= i32::MIN as i64 && n <= i32::MAX as i64 => {
                    let n = n as libc::c_int;
                    let k = match *ctx {
                        "pending" => native_pending(n),
                        "group" => native_group(n),
                        "worker" => native_worker(n),
                        _ => native(n),
                    };
                    let e = match *ctx {
                        "normal" => emulate_normal(n),
                        "pending" => emulate_pending(n),
                        "group" => emulate_group(n),
                        "worker" => emulate_worker(n),
                        "blocked" => emulate_blocked(n),
                        "oneshot" => emulate_oneshot(n),
                        "ignored" => emulate_ignored(n),
                        "handler" => emulate_in_handler(n),
                        "cond" => emulate_cond_default(n),
                        _ => "bad-ctx".into(),
                    };
                    out.line(&format!("kernel={} emul={}", k, e));
                }
                _ => out.line("bad-op"),
            },
            ["name", n] => match n.parse::<i64>() {
                Ok(n) if n >= i32::MIN as i64 && n <= i32::MAX as i64 => {
                    let nm = signal_hook::low_level::signal_name(n as libc::c_int).unwrap_or("-");
                    out.line(&format!("name {}", nm));
                }
                _ => out.line("bad-op"),
            },
            _ => out.line("bad-op"),
        }
    }
    out.flush();
    0
}
