//! Step-level scenarios on the real global registry under the deterministic scheduler:
//! mutators (register / unregister / unregister_signal) and simulated deliveries (the real
//! dispatcher through `verif::deliver`), incl. deliveries nested on a mutator's thread.
//! One scenario per process (the registry is process-global).
//!   setup foreign <sig> <kind> | setup reg|regu <sig> <tag> | setup unreg @<tag>
//!   t<k> reg|regu <sig> <tag> | t<k> unreg @<tag> | t<k> unregsig <sig> | t<k> deliver <sig>
//!   t<k> nested t<h> deliver <sig>
//!   seed <n> | schedule ... | maxsteps <n>
use crate::common::*;
use crate::halflock::load_sites;
use crate::sched::{self, Rng, IN_DELIVERY, TID};
use signal_hook_registry::{verif, SigId};
use std::cell::Cell;
use std::collections::HashMap;
use std::sync::{Arc, Mutex};

#[derive(Clone, Debug)]
enum Op {
    Reg(bool, i32, usize),
    UnregTag(usize),
    UnregSig(i32),
    Deliver(i32),
}

fn parse_op(w: &[&str]) -> Option<Op> {
    match w {
        ["reg", s, t] => Some(Op::Reg(true, s.parse().ok()?, t.parse().ok()?)),
        ["regu", s, t] => Some(Op::Reg(false, s.parse().ok()?, t.parse().ok()?)),
        ["unreg", t] if t.starts_with('@') => Some(Op::UnregTag(t[1..].parse().ok()?)),
        ["unregsig", s] => Some(Op::UnregSig(s.parse().ok()?)),
        ["deliver", s] => Some(Op::Deliver(s.parse().ok()?)),
        _ => None,
    }
}

struct ActionCanary {
    tag: usize,
}

fn push_log(text: String) {
    let _hg = sched::HarnessGuard::new();
    if let Some(s) = sched::sched() {
        let tid = TID.with(|t| t.get());
        if let Some(tid) = tid {
            let depth = IN_DELIVERY.with(|d| d.get());
            s.inner.lock().unwrap().log.push(format!("t{} {}{}", tid, if depth > 0 { "H " } else { "" }, text));
        }
    }
}

impl Drop for ActionCanary {
    fn drop(&mut self) {
        push_log(format!("drop-action {}", self.tag));
    }
}

thread_local! {
    static DELIVER_ARGS: Cell<(i32, usize, usize)> = Cell::new((0, 0, 0));
}

/// called by the foreign handlers of common.rs when the scheduler is active
pub fn foreign_called(kind: &str, k: usize, sig: i32, info: usize, ctx: usize) -> bool {
    let _hg = sched::HarnessGuard::new();
    let s = match sched::sched() {
        Some(s) => s,
        None => return false,
    };
    if TID.with(|t| t.get()).is_none() {
        return false;
    }
    let (esig, einfo, ectx) = DELIVER_ARGS.with(|d| d.get());
    let ok = sig == esig && (kind == "h1" || (info == einfo && ctx == ectx));
    s.point(format!("prev {}:{}{}", kind, k, if ok { "" } else { " BAD-ARGS" }));
    true
}

static IDS: Mutex<Vec<(usize, SigId)>> = Mutex::new(Vec::new());

fn do_op(text: &str, op: &Op, lib_handler: usize) {
    let s = sched::sched().unwrap().clone();
    s.point(format!("call {}", text));
    match op {
        Op::Reg(checked, sig, tag) => {
            let (checked, sig, tag) = (*checked, *sig, *tag);
            let canary = ActionCanary { tag };
            let sc = s.clone();
            let r = std::panic::catch_unwind(std::panic::AssertUnwindSafe(move || unsafe {
                let act = move || {
                    let _hg = sched::HarnessGuard::new();
                    let _keep = &canary;
                    sc.point(format!("run {}", tag));
                };
                if checked {
                    signal_hook_registry::register(sig, act)
                } else {
                    signal_hook_registry::register_signal_unchecked(sig, act)
                }
            }));
            match r {
                Ok(Ok(id)) => {
                    let (sg, a) = sigid_parts(&id);
                    IDS.lock().unwrap().push((tag, id));
                    push_log(format!("ret id {} {}", sg, a));
                }
                Ok(Err(_)) => push_log("ret err".into()),
                Err(_) => push_log("ret panic".into()),
            }
        }
        Op::UnregTag(tag) => {
            let id = IDS.lock().unwrap().iter().find(|(t, _)| t == tag).map(|(_, id)| *id);
            match id {
                Some(id) => {
                    let b = signal_hook_registry::unregister(id);
                    push_log(format!("ret bool {}", b));
                }
                None => push_log("ret bool false".into()),
            }
        }
        Op::UnregSig(sig) => {
            #[allow(deprecated)]
            let b = signal_hook_registry::unregister_signal(*sig);
            push_log(format!("ret bool {}", b));
        }
        Op::Deliver(sig) => {
            let d = disposition(*sig, Some(lib_handler));
            if d.starts_with("lib:") {
                let mut info: libc::siginfo_t = unsafe { std::mem::zeroed() };
                info.si_signo = *sig;
                let mut ctx = [0u8; 16];
                let ip = &mut info as *mut libc::siginfo_t;
                let cp = ctx.as_mut_ptr() as *mut libc::c_void;
                DELIVER_ARGS.with(|a| a.set((*sig, ip as usize, cp as usize)));
                let before = sched::HANDLER_HEAP_OPS.load(std::sync::atomic::Ordering::SeqCst);
                IN_DELIVERY.with(|x| x.set(x.get() + 1));
                unsafe { verif::deliver(*sig, ip, cp) };
                IN_DELIVERY.with(|x| x.set(x.get() - 1));
                let heap = sched::HANDLER_HEAP_OPS.load(std::sync::atomic::Ordering::SeqCst) - before;
                if heap > 0 {
                    push_log(format!("HEAP-IN-HANDLER {}", heap));
                }
                push_log("ret delivered".into());
            } else {
                push_log(format!("ret notours {}", d));
            }
        }
    }
}

static NESTED: Mutex<Vec<(usize, String, i32)>> = Mutex::new(Vec::new());
static LIB_HANDLER: std::sync::atomic::AtomicUsize = std::sync::atomic::AtomicUsize::new(0);

fn nest_body(n: usize) {
    let item = NESTED.lock().unwrap().iter().find(|(k, _, _)| *k == n).cloned();
    if let Some((_, text, sig)) = item {
        do_op(&text, &Op::Deliver(sig), LIB_HANDLER.load(std::sync::atomic::Ordering::SeqCst));
    }
}

pub fn main() -> i32 {
    silence_panics();
    reset_dispositions();
    let mut out = Out::new();
    let lines = read_lines();
    let mut setup: Vec<String> = Vec::new();
    let mut scripts: HashMap<usize, Vec<(String, Op)>> = HashMap::new();
    let mut nested: Vec<(usize, usize, String, i32)> = Vec::new();
    let mut seed: u64 = 1;
    let mut replay: Option<Vec<usize>> = None;
    let mut maxsteps = 3000usize;
    let mut nthreads = 0usize;
    // `delay t<k> <n>`: thread <k> is not scheduled during the first <n> steps (unless nothing else can
    // run); makes nested deliveries start anywhere inside their host's operation, not just at its start
    let mut delays: Vec<(usize, usize)> = Vec::new();
    // `holdat t<k> <j> <n>`: once thread <k> has taken <j> steps of its own it is not scheduled again before
    // global step <n> (unless nothing else can run): parks a delivery between two of its reads while the
    // mutators go on
    let mut holds: Vec<(usize, usize, usize)> = Vec::new();
    let mut own: HashMap<usize, usize> = HashMap::new();
    for l in lines.iter() {
        let w: Vec<&str> = l.split_whitespace().collect();
        match w.as_slice() {
            ["setup", rest @ ..] => setup.push(rest.join(" ")),
            ["seed", n] => seed = n.parse().unwrap(),
            ["maxsteps", n] => maxsteps = n.parse().unwrap(),
            ["schedule", rest @ ..] => replay = Some(rest.iter().map(|x| x.parse().unwrap()).collect()),
            ["delay", t, n] => delays.push((t[1..].parse().unwrap(), n.parse().unwrap())),
            ["holdat", t, j, n] => holds.push((t[1..].parse().unwrap(), j.parse().unwrap(), n.parse().unwrap())),
            [t, "nested", h, "deliver", sig] => {
                let k: usize = t[1..].parse().unwrap();
                let hk: usize = h[1..].parse().unwrap();
                nthreads = nthreads.max(k + 1);
                nested.push((k, hk, format!("deliver {}", sig), sig.parse().unwrap()));
            }
            [t, rest @ ..] if t.starts_with('t') => {
                let k: usize = t[1..].parse().unwrap();
                nthreads = nthreads.max(k + 1);
                match parse_op(rest) {
                    Some(op) => scripts.entry(k).or_default().push((rest.join(" "), op)),
                    None => { out.line("bad-op"); out.flush(); return 0; }
                }
            }
            _ => { out.line("bad-op"); out.flush(); return 0; }
        }
    }
    let s = sched::install(load_sites());
    verif::ensure();
    let lib_handler = verif::handler_addr();
    LIB_HANDLER.store(lib_handler, std::sync::atomic::Ordering::SeqCst);
    {
        let mut g = s.inner.lock().unwrap();
        for (n, a) in verif::layout() {
            g.names.insert(a, n);
        }
        g.nest_fn = Some(nest_body);
    }
    // setup phase: sequential, on this (unscheduled) thread
    for l in setup.iter() {
        let w: Vec<&str> = l.split_whitespace().collect();
        match w.as_slice() {
            ["foreign", sig, kind] => { install_foreign(sig.parse().unwrap(), kind); }
            _ => match parse_op(&w) {
                Some(Op::Reg(checked, sig, tag)) => {
                    let canary = ActionCanary { tag };
                    let sc = s.clone();
                    let act = move || { let _hg = sched::HarnessGuard::new(); let _k = &canary; sc.point(format!("run {}", tag)); };
                    let r = unsafe { if checked { signal_hook_registry::register(sig, act) } else { signal_hook_registry::register_signal_unchecked(sig, act) } };
                    if let Ok(id) = r { IDS.lock().unwrap().push((tag, id)); }
                }
                Some(Op::UnregTag(tag)) => {
                    let id = IDS.lock().unwrap().iter().find(|(t, _)| *t == tag).map(|(_, id)| *id);
                    if let Some(id) = id { signal_hook_registry::unregister(id); }
                }
                Some(Op::UnregSig(sig)) => { #[allow(deprecated)] signal_hook_registry::unregister_signal(sig); }
                _ => {}
            },
        }
    }
    // logical threads, in tid order
    let mut handles = Vec::new();
    for k in 0..nthreads {
        if let Some((_, host, text, sig)) = nested.iter().find(|(n, _, _, _)| *n == k).cloned() {
            let n = s.add_nested(host);
            assert_eq!(n, k);
            NESTED.lock().unwrap().push((k, text, sig));
        } else {
            let script = scripts.get(&k).cloned().unwrap_or_default();
            let (tid, h) = s.spawn(move || {
                for (text, op) in script.iter() {
                    do_op(text, op, lib_handler);
                }
            });
            assert_eq!(tid, k);
            handles.push(h);
        }
    }
    let mut rng = Rng(seed.wrapping_mul(0x9E3779B97F4A7C15) | 1);
    let mut pos = 0usize;
    let status = s.run(
        |enabled, step, g| {
            if let Some(i) = enabled.iter().position(|&t| g.threads[t].pending.as_ref().map(|p| p.name == "start").unwrap_or(false)) {
                return i;
            }
            if replay.is_none() && (!delays.is_empty() || !holds.is_empty()) {
                let ok: Vec<usize> = (0..enabled.len()).filter(|&i| {
                    !delays.iter().any(|&(t, n)| t == enabled[i] && step < n)
                        && !holds.iter().any(|&(t, j, n)| t == enabled[i] && own.get(&t).copied().unwrap_or(0) == j && step < n)
                }).collect();
                if !ok.is_empty() {
                    let pick = ok[rng.below(ok.len())];
                    *own.entry(enabled[pick]).or_insert(0) += 1;
                    return pick;
                }
            }
            match &replay {
                Some(r) => {
                    let want = r.get(pos).copied();
                    let idx = want.and_then(|w| enabled.iter().position(|&t| t == w));
                    // starting a nested thread is not a recorded step: do not consume the entry
                    let consumes = idx.map(|i| g.threads[enabled[i]].status != sched::Status::NotStarted).unwrap_or(true);
                    if consumes { pos += 1; }
                    idx.unwrap_or(0)
                }
                None => {
                    let pick = rng.below(enabled.len());
                    *own.entry(enabled[pick]).or_insert(0) += 1;
                    pick
                }
            }
        },
        maxsteps,
    );
    if status == "done" {
        for h in handles {
            let _ = h.join();
        }
    } else {
        // deadlock / step limit: the threads are stuck on each other; report what happened and leave
        std::thread::sleep(std::time::Duration::from_millis(20));
    }
    let g = s.inner.lock().unwrap();
    for l in g.log.iter() {
        out.line(l);
    }
    if status == "deadlock" {
        for (t, th) in g.threads.iter().enumerate() {
            if let Some(p) = th.pending.as_ref() {
                out.line(&format!("BLOCKED t{} waiting for {:?} {}", t, p.op, g.loc_name(p.addr)));
            }
        }
    }
    let sch: Vec<String> = g.schedule.iter().map(|t| t.to_string()).collect();
    out.line(&format!("SCHEDULE {}", sch.join(" ")));
    out.line(&format!("END {}", status));
    out.flush();
    // skip destructors of the global registry / canaries
    unsafe { libc::_exit(0) }
}
