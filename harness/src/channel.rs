//! Step-level scenarios on the real `Channel<T>` under the deterministic scheduler
//! (spurious weak-CAS failures are injected by the scheduler), incl. a `send` nested on a thread
//! that is in the middle of `send`/`recv` (a signal handler), plus the exhaustive `get`/`set` table.
//!   t<k> send <tag> | t<k> recv | t<k> nested t<h> send <tag>
//!   seed <n> | schedule <tid>[s] ... | maxsteps <n> | spurious <per-mille>
use crate::common::*;
use crate::halflock::load_sites;
use crate::sched::{self, HarnessGuard, Rng, TID};
use signal_hook::low_level::channel::Channel;
use signal_hook_registry::verif_shim as shim;
use std::sync::{Arc, Mutex};

struct Tagged {
    tag: usize,
}

fn push_log(text: String) {
    let _hg = HarnessGuard::new();
    if let Some(s) = sched::sched() {
        match TID.with(|t| t.get()) {
            Some(tid) => s.inner.lock().unwrap().log.push(format!("t{} {}", tid, text)),
            None => s.inner.lock().unwrap().log.push(format!("- {}", text)),
        }
    }
}

impl Drop for Tagged {
    fn drop(&mut self) {
        push_log(format!("drop {}", self.tag));
    }
}

#[derive(Clone, Debug)]
enum Cmd {
    Send(usize),
    Recv,
}

static NESTED: Mutex<Vec<(usize, usize)>> = Mutex::new(Vec::new());
static mut CHAN: Option<Arc<Channel<Tagged>>> = None;

fn chan() -> Arc<Channel<Tagged>> {
    unsafe { (*std::ptr::addr_of!(CHAN)).as_ref().unwrap().clone() }
}

fn do_cmd(c: &Cmd) {
    let ch = chan();
    match c {
        Cmd::Send(tag) => {
            push_log(format!("call send {}", tag));
            let r = std::panic::catch_unwind(std::panic::AssertUnwindSafe(|| ch.send(Tagged { tag: *tag })));
            match r {
                Ok(()) => push_log("ret send".into()),
                Err(e) => push_log(format!("PANIC {}", panic_text(&e))),
            }
        }
        Cmd::Recv => {
            push_log("call recv".into());
            let r = std::panic::catch_unwind(std::panic::AssertUnwindSafe(|| ch.recv()));
            match r {
                Ok(Some(v)) => {
                    push_log(format!("ret recv some {}", v.tag));
                    drop(v);
                }
                Ok(None) => push_log("ret recv none".into()),
                Err(e) => push_log(format!("PANIC {}", panic_text(&e))),
            }
        }
    }
}

fn panic_text(e: &Box<dyn std::any::Any + Send>) -> String {
    if let Some(s) = e.downcast_ref::<&str>() {
        s.to_string()
    } else if let Some(s) = e.downcast_ref::<String>() {
        s.clone()
    } else {
        "?".into()
    }
}

fn nest_body(n: usize) {
    let tag = NESTED.lock().unwrap().iter().find(|(k, _)| *k == n).map(|(_, t)| *t);
    if let Some(tag) = tag {
        do_cmd(&Cmd::Send(tag));
    }
}

fn run_block(lines: &[String], out: &mut Out) {
    let mut scripts: Vec<Vec<Cmd>> = Vec::new();
    let mut nested: Vec<(usize, usize, usize)> = Vec::new();
    let mut seed: u64 = 1;
    let mut replay: Option<Vec<(usize, bool)>> = None;
    let mut maxsteps = 2000usize;
    let mut spurious_pm = 60u64;
    let mut via_default = false;
    let mut nthreads = 0usize;
    for l in lines {
        let w: Vec<&str> = l.split_whitespace().collect();
        match w.as_slice() {
            [t, "nested", h, "send", n] => {
                let k: usize = t[1..].parse().unwrap();
                nthreads = nthreads.max(k + 1);
                nested.push((k, h[1..].parse().unwrap(), n.parse().unwrap()));
            }
            [t, "send", n] => {
                let k: usize = t[1..].parse().unwrap();
                nthreads = nthreads.max(k + 1);
                while scripts.len() <= k { scripts.push(Vec::new()); }
                scripts[k].push(Cmd::Send(n.parse().unwrap()));
            }
            [t, "recv"] => {
                let k: usize = t[1..].parse().unwrap();
                nthreads = nthreads.max(k + 1);
                while scripts.len() <= k { scripts.push(Vec::new()); }
                scripts[k].push(Cmd::Recv);
            }
            ["seed", n] => seed = n.parse().unwrap(),
            ["maxsteps", n] => maxsteps = n.parse().unwrap(),
            ["spurious", n] => spurious_pm = n.parse().unwrap(),
            // the channel is built through `Default` (as the exfiltrators do) instead of `Channel::new()`
            ["setup", "default"] => via_default = true,
            ["schedule", rest @ ..] => {
                replay = Some(rest.iter().map(|x| {
                    let sp = x.ends_with('s');
                    let num = x.trim_end_matches('s');
                    (num.parse().unwrap(), sp)
                }).collect())
            }
            _ => { out.line("bad-op"); return; }
        }
    }
    while scripts.len() < nthreads { scripts.push(Vec::new()); }
    let s = sched::install(load_sites());
    let ch: Arc<Channel<Tagged>> = Arc::new(if via_default { Default::default() } else { Channel::new() });
    unsafe { CHAN = Some(ch.clone()); }
    NESTED.lock().unwrap().clear();
    {
        let mut g = s.inner.lock().unwrap();
        for (n, a) in ch.verif_layout() {
            g.names.insert(a, n);
        }
        g.nest_fn = Some(nest_body);
        // watch the payload cells: what actually changed during each step (the shim only sees
        // `UnsafeCell::get`, not the access through the pointer)
        let cells: Vec<usize> = ch.verif_layout().iter().filter(|(n, _)| n.starts_with("cell")).map(|(_, a)| *a).collect();
        let mut last: Vec<Option<usize>> = vec![None; cells.len()];
        g.observer = Some(Box::new(move |tid| {
            let mut out = Vec::new();
            for (i, a) in cells.iter().enumerate() {
                let now = unsafe { (*(*a as *const Option<Tagged>)).as_ref().map(|t| t.tag) };
                if now != last[i] {
                    let f = |v: Option<usize>| v.map(|x| format!("some {}", x)).unwrap_or_else(|| "none".into());
                    out.push(format!("t{} cellmod cell{} {}->{}", tid, i + 1, f(last[i]), f(now)));
                    last[i] = now;
                }
            }
            out
        }));
    }
    let mut handles = Vec::new();
    for k in 0..nthreads {
        if let Some((_, host, tag)) = nested.iter().find(|(n, _, _)| *n == k).cloned() {
            let n = s.add_nested(host);
            assert_eq!(n, k);
            NESTED.lock().unwrap().push((k, tag));
        } else {
            let script = scripts[k].clone();
            let (tid, h) = s.spawn(move || {
                for c in script.iter() {
                    do_cmd(c);
                }
            });
            assert_eq!(tid, k);
            handles.push(h);
        }
    }
    let mut rng = Rng(seed.wrapping_mul(0x9E3779B97F4A7C15) | 1);
    let mut pos = 0usize;
    let spur_log: Arc<Mutex<Vec<bool>>> = Arc::new(Mutex::new(Vec::new()));
    let spur_log2 = spur_log.clone();
    let sref = s.clone();
    let status = s.run(
        |enabled, _step, g| {
            if let Some(i) = enabled.iter().position(|&t| g.threads[t].pending.as_ref().map(|p| p.name == "start").unwrap_or(false)) {
                return i;
            }
            let (idx, spur) = match &replay {
                Some(r) => {
                    let want = r.get(pos).copied();
                    let idx = want.and_then(|(w, _)| enabled.iter().position(|&t| t == w));
                    let consumes = idx.map(|i| g.threads[enabled[i]].status != sched::Status::NotStarted).unwrap_or(true);
                    if consumes { pos += 1; }
                    (idx.unwrap_or(0), want.map(|(_, s)| s).unwrap_or(false) && consumes)
                }
                None => {
                    let i = rng.below(enabled.len());
                    let is_weak = g.threads[enabled[i]].pending.as_ref().map(|p| p.op == shim::Op::CasWeak).unwrap_or(false);
                    (i, is_weak && (rng.next() % 1000) < spurious_pm)
                }
            };
            let tid = enabled[idx % enabled.len()];
            if g.threads[tid].status != sched::Status::NotStarted {
                let is_weak = g.threads[tid].pending.as_ref().map(|p| p.op == shim::Op::CasWeak).unwrap_or(false);
                // injection is applied through a side channel: the controller sets it after choosing
                spur_log2.lock().unwrap().push(spur && is_weak);
                if spur && is_weak {
                    g.threads[tid].inject.set(shim::Inject::SpuriousFail);
                }
            }
            idx
        },
        maxsteps,
    );
    let _ = sref;
    if status == "done" {
        for h in handles { let _ = h.join(); }
    } else {
        // the scenario did not finish within its step budget: some operation waits for another thread
        // (or for the thread it interrupted). The stuck threads cannot be torn down - letting them run
        // freely would spin and log for ever - so report what happened and leave the process; the
        // caller runs the remaining scenarios in a fresh one.
        let g = s.inner.lock().unwrap();
        for l in g.log.iter() {
            out.line(l);
        }
        out.line("final-drop ?");
        let spur = spur_log.lock().unwrap();
        let sch: Vec<String> = g.schedule.iter().zip(spur.iter()).map(|(t, s)| format!("{}{}", t, if *s { "s" } else { "" })).collect();
        out.line(&format!("SCHEDULE {}", sch.join(" ")));
        out.line(&format!("END {}", status));
        out.line("---");
        out.line("ABANDONED");
        out.flush();
        unsafe { libc::_exit(0) };
    }
    // drop the channel: whatever is still inside is dropped now
    unsafe { CHAN = None; }
    let mark = s.inner.lock().unwrap().log.len();
    drop(ch);
    let g = s.inner.lock().unwrap();
    let mut left: Vec<usize> = g.log[mark..].iter().filter_map(|l| l.strip_prefix("- drop ").and_then(|x| x.parse().ok())).collect();
    left.sort();
    for l in g.log[..mark].iter() {
        out.line(l);
    }
    out.line(&format!("final-drop {}", fmt_tags(&left)));
    let spur = spur_log.lock().unwrap();
    let sch: Vec<String> = g.schedule.iter().zip(spur.iter()).map(|(t, s)| format!("{}{}", t, if *s { "s" } else { "" })).collect();
    out.line(&format!("SCHEDULE {}", sch.join(" ")));
    out.line(&format!("END {}", status));
}

pub fn main() -> i32 {
    silence_panics();
    let mut out = Out::new();
    let mut block: Vec<String> = Vec::new();
    for line in read_lines() {
        if line.trim() == "---" {
            if !block.is_empty() {
                run_block(&block, &mut out);
                out.line("---");
                block.clear();
            }
        } else {
            block.push(line);
        }
    }
    if !block.is_empty() {
        run_block(&block, &mut out);
        out.line("---");
    }
    out.flush();
    0
}

/// exhaustive table: the real `get` / `set` for all n, idx in 0..5, v in 0..8 — printed as a
/// checksum per (idx, v) plus the full table on request
pub fn table_main() -> i32 {
    use signal_hook::low_level::channel::{verif_get, verif_set};
    let mut out = Out::new();
    let full = std::env::args().any(|a| a == "--full");
    for idx in 0..5u16 {
        let mut acc: u64 = 1469598103934665603;
        for n in 0..=u16::MAX {
            let g = verif_get(n, idx);
            acc = (acc ^ g as u64).wrapping_mul(1099511628211);
            if full { out.line(&format!("get {} {} = {}", n, idx, g)); }
        }
        out.line(&format!("get-sum idx={} {}", idx, acc));
        for v in 0..8u16 {
            let mut acc: u64 = 1469598103934665603;
            for n in 0..=u16::MAX {
                let r = verif_set(n, idx, v);
                acc = (acc ^ r as u64).wrapping_mul(1099511628211);
                if full { out.line(&format!("set {} {} {} = {}", n, idx, v, r)); }
            }
            out.line(&format!("set-sum idx={} v={} {}", idx, v, acc));
        }
    }
    out.flush();
    0
}

// ---------------------------------------------------------------------------------------------
// Unscheduled stress run (real threads, real signal handler nesting): only used to *search for a
// failing input* once the step correspondence has broken, and in the thorough tier.

use std::sync::atomic::{AtomicBool, AtomicUsize, Ordering as AO};

static LIVE: AtomicUsize = AtomicUsize::new(0);
static DOUBLE: AtomicUsize = AtomicUsize::new(0);

struct Counted {
    producer: usize,
    seq: usize,
    alive: AtomicBool,
}

impl Drop for Counted {
    fn drop(&mut self) {
        if !self.alive.swap(false, AO::SeqCst) {
            DOUBLE.fetch_add(1, AO::SeqCst);
        }
        LIVE.fetch_sub(1, AO::SeqCst);
    }
}

static mut SCHAN: Option<Arc<Channel<Counted>>> = None;
static HSEQ: AtomicUsize = AtomicUsize::new(0);

extern "C" fn stress_handler(_s: libc::c_int) {
    // a send nested inside whatever the interrupted thread was doing
    let ch = unsafe { (*std::ptr::addr_of!(SCHAN)).as_ref().unwrap() };
    let seq = HSEQ.fetch_add(1, AO::SeqCst);
    LIVE.fetch_add(1, AO::SeqCst);
    ch.send(Counted { producer: 99, seq, alive: AtomicBool::new(true) });
}

/// Sequential long histories (no scheduler): fill the channel, then `n` more sends that find it full, then
/// drain; then `n` rounds of send / recv. Prints what was received and whether anything panicked. A fault that
/// needs tens of thousands of operations (a counter that wraps) shows here and nowhere in the scheduled runs.
pub fn long_main() -> i32 {
    silence_panics();
    let n: usize = std::env::args().nth(2).and_then(|s| s.parse().ok()).unwrap_or(70000);
    for via_default in [false, true] {
        let ch: Channel<usize> = if via_default { Default::default() } else { Channel::new() };
        let r = std::panic::catch_unwind(std::panic::AssertUnwindSafe(|| {
            for i in 0..5 { ch.send(i); }
            for i in 0..n { ch.send(1000 + i); }
            let mut got = Vec::new();
            while let Some(v) = ch.recv() { got.push(v); }
            let mut ok_rounds = 0usize;
            for i in 0..n {
                ch.send(i);
                if ch.recv() == Some(i) && ch.recv().is_none() { ok_rounds += 1; }
            }
            (got, ok_rounds)
        }));
        match r {
            Ok((got, ok_rounds)) => println!("long default={} overflow-kept={:?} rounds-ok={}/{}", via_default, got, ok_rounds, n),
            Err(_) => println!("long default={} PANIC", via_default),
        }
    }
    0
}

pub fn stress_main() -> i32 {
    let millis: u64 = std::env::args().nth(2).and_then(|s| s.parse().ok()).unwrap_or(1500);
    let ch = Arc::new(Channel::<Counted>::new());
    unsafe { SCHAN = Some(ch.clone()); }
    unsafe {
        let mut sa: libc::sigaction = std::mem::zeroed();
        sa.sa_sigaction = stress_handler as usize;
        sa.sa_flags = libc::SA_RESTART;
        libc::sigaction(libc::SIGUSR1, &sa, std::ptr::null_mut());
    }
    let stop = Arc::new(AtomicBool::new(false));
    let panics = Arc::new(AtomicUsize::new(0));
    let mut problems: Vec<String> = Vec::new();
    let mut handles = Vec::new();
    let tids: Arc<Mutex<Vec<libc::pthread_t>>> = Arc::new(Mutex::new(Vec::new()));
    for p in 0..4usize {
        let (ch, stop, panics, tids) = (ch.clone(), stop.clone(), panics.clone(), tids.clone());
        handles.push(std::thread::spawn(move || {
            tids.lock().unwrap().push(unsafe { libc::pthread_self() });
            let mut seq = 0usize;
            while !stop.load(AO::Relaxed) {
                LIVE.fetch_add(1, AO::SeqCst);
                let r = std::panic::catch_unwind(std::panic::AssertUnwindSafe(|| {
                    ch.send(Counted { producer: p, seq, alive: AtomicBool::new(true) })
                }));
                if r.is_err() { panics.fetch_add(1, AO::SeqCst); }
                seq += 1;
            }
        }));
    }
    let (c2, s2, p2, t2) = (ch.clone(), stop.clone(), panics.clone(), tids.clone());
    let consumer = std::thread::spawn(move || {
        t2.lock().unwrap().push(unsafe { libc::pthread_self() });
        let mut last = [None::<usize>; 100];
        let mut seen99: std::collections::HashSet<usize> = std::collections::HashSet::new();
        let mut bad: Vec<String> = Vec::new();
        let mut got = 0usize;
        while !s2.load(AO::Relaxed) {
            let r = std::panic::catch_unwind(std::panic::AssertUnwindSafe(|| c2.recv()));
            match r {
                Ok(Some(v)) => {
                    got += 1;
                    if v.producer == 99 {
                        // the handler runs on whichever thread was signalled: two of its instances can be
                        // between drawing their number and their send at the same time, so their numbers
                        // arrive in either order. Each number at most once, that is all that can be said.
                        if !seen99.insert(v.seq) && bad.len() < 5 {
                            bad.push(format!("producer 99 (the handler) seq {} obtained twice (duplicated)", v.seq));
                        }
                    } else {
                        if let Some(l) = last[v.producer] {
                            if v.seq <= l && bad.len() < 5 {
                                bad.push(format!("producer {} seq {} obtained after seq {} (duplicated or reordered)", v.producer, v.seq, l));
                            }
                        }
                        last[v.producer] = Some(v.seq);
                    }
                }
                Ok(None) => {}
                Err(_) => { p2.fetch_add(1, AO::SeqCst); }
            }
        }
        (got, bad)
    });
    let start = std::time::Instant::now();
    let mut k = 0usize;
    while start.elapsed() < std::time::Duration::from_millis(millis) {
        let ts = tids.lock().unwrap().clone();
        if !ts.is_empty() {
            unsafe { libc::pthread_kill(ts[k % ts.len()], libc::SIGUSR1); }
            k += 1;
        }
        std::thread::sleep(std::time::Duration::from_micros(50));
    }
    stop.store(true, AO::SeqCst);
    for h in handles { let _ = h.join(); }
    let (got, bad) = consumer.join().unwrap_or((0, vec!["consumer thread died".into()]));
    problems.extend(bad);
    unsafe { SCHAN = None; }
    drop(ch);
    let np = panics.load(AO::SeqCst);
    if np > 0 { problems.push(format!("{} operations panicked", np)); }
    if DOUBLE.load(AO::SeqCst) > 0 { problems.push(format!("{} values dropped twice", DOUBLE.load(AO::SeqCst))); }
    if LIVE.load(AO::SeqCst) != 0 && np == 0 { problems.push(format!("{} values leaked or over-released", LIVE.load(AO::SeqCst) as isize)); }
    println!("STRESS received={} signals={} problems={}", got, k, problems.len());
    for p in problems.iter() { println!("PROBLEM {}", p); }
    0
}
