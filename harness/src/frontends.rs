//! Operation-level probes of the front-ends: `signal_hook::iterator::Signals` (src/iterator/mod.rs)
//! and the three adapter crates (signal-hook-mio, -tokio, -async-std), each in a forked child,
//! with real signals raised by the probe itself.
//!   new <signals|mio|tokio|asyncstd> <sig> ...
//!   raise <sig> [<count>]        real raise(), `count` times
//!   close
//!   pending | wait | next        (signals)   -> `yield [..]` / `some <sig>` / `none` / `blocked`
//!   mpoll                        (mio)       -> `ready [..]` / `notready`
//!   poll                         (tokio, asyncstd: one hand-made poll_next with a counting waker)
//!                                            -> `some <sig>` / `none` / `pending`
//!   woken                        (tokio, asyncstd) -> `woken true|false` (waker fired since the last poll?)
//! A blocking operation that does not return within 400 ms prints `blocked` and ends the probe.
use crate::common::*;
use futures_core::Stream;
use std::pin::Pin;
use std::sync::atomic::{AtomicBool, Ordering};
use std::sync::Arc;
use std::task::{Context, Poll, Wake, Waker};

struct Flag(AtomicBool);
impl Wake for Flag {
    fn wake(self: Arc<Self>) {
        self.0.store(true, Ordering::SeqCst);
    }
    fn wake_by_ref(self: &Arc<Self>) {
        self.0.store(true, Ordering::SeqCst);
    }
}

enum Inst {
    None,
    Signals(signal_hook::iterator::Signals),
    Mio(signal_hook_mio::v0_7::Signals, mio::Poll),
    Tokio(signal_hook_tokio::Signals, tokio::runtime::Runtime),
    AsyncStd(signal_hook_async_std::Signals),
}

/// how patient the probe is with the other threads (reactor, helper): the waits below are multiplied by it.
/// 1 by default; the check re-runs a block that failed with more patience before it believes the failure.
fn patience() -> u64 {
    std::env::var("SIGHOOK_PATIENCE").ok().and_then(|v| v.parse().ok()).unwrap_or(1).max(1)
}

/// run `f` on a helper thread; `None` if it does not finish within 2 s (times patience)
fn with_timeout<T: Send + 'static, F: FnOnce() -> T + Send + 'static>(f: F) -> Option<T> {
    let (tx, rx) = std::sync::mpsc::channel();
    std::thread::spawn(move || {
        let _ = tx.send(f());
    });
    rx.recv_timeout(std::time::Duration::from_millis(2000 * patience())).ok()
}

struct SendPtr<T>(*mut T);
unsafe impl<T> Send for SendPtr<T> {}

/// the list of signals handed to a constructor, consumed lazily: when the constructor asks for the second element
/// the first signal is already registered - it is raised right there (a signal during start-up), and the
/// constructor is held up for a moment so that a reactor thread can notice the readable self-pipe
struct Startup {
    sigs: Vec<i32>,
    pos: usize,
    raise: bool,
}

impl Iterator for Startup {
    type Item = i32;
    fn next(&mut self) -> Option<i32> {
        if self.pos == 1 && self.raise {
            unsafe { libc::raise(self.sigs[0]) };
            std::thread::sleep(std::time::Duration::from_millis(200));
        }
        self.pos += 1;
        self.sigs.get(self.pos - 1).copied()
    }
}

fn run_child(ops: &[String]) {
    silence_panics();
    reset_dispositions();
    let mut inst = Inst::None;
    let mut handle: Option<signal_hook::iterator::Handle> = None;
    let flag = Arc::new(Flag(AtomicBool::new(false)));
    let waker: Waker = flag.clone().into();
    for op in ops {
        let w: Vec<&str> = op.split_whitespace().collect();
        match w.as_slice() {
            ["new", kind, sigs @ ..] | ["newstart", kind, sigs @ ..] => {
                let sigs: Vec<i32> = sigs.iter().map(|x| x.parse().unwrap()).collect();
                let list = || Startup { sigs: sigs.clone(), pos: 0, raise: w[0] == "newstart" };
                match *kind {
                    "signals" => {
                        let s = signal_hook::iterator::Signals::new(list()).unwrap();
                        handle = Some(s.handle());
                        inst = Inst::Signals(s);
                    }
                    "mio" => {
                        let mut s = signal_hook_mio::v0_7::Signals::new(list()).unwrap();
                        let poll = mio::Poll::new().unwrap();
                        poll.registry().register(&mut s, mio::Token(0), mio::Interest::READABLE).unwrap();
                        inst = Inst::Mio(s, poll);
                    }
                    "tokio" => {
                        let rt = tokio::runtime::Builder::new_multi_thread().worker_threads(1).enable_all().build().unwrap();
                        let s = {
                            let _g = rt.enter();
                            signal_hook_tokio::Signals::new(list()).unwrap()
                        };
                        handle = Some(s.handle());
                        inst = Inst::Tokio(s, rt);
                    }
                    _ => {
                        let s = signal_hook_async_std::Signals::new(list()).unwrap();
                        handle = Some(s.handle());
                        inst = Inst::AsyncStd(s);
                    }
                }
                println!("ok");
            }
            ["raise", sig] | ["raise", sig, _] => {
                let sig: i32 = sig.parse().unwrap();
                let n: usize = w.get(2).map(|x| x.parse().unwrap()).unwrap_or(1);
                for _ in 0..n {
                    unsafe { libc::raise(sig) };
                }
                println!("ok");
            }
            ["close"] => {
                if let Some(h) = handle.as_ref() {
                    h.close();
                }
                println!("ok");
            }
            ["pending"] => {
                if let Inst::Signals(s) = &mut inst {
                    let v: Vec<i32> = s.pending().collect();
                    println!("yield {:?}", v);
                }
            }
            ["wait"] => {
                if let Inst::Signals(s) = &mut inst {
                    let p = SendPtr(s as *mut signal_hook::iterator::Signals);
                    match with_timeout(move || { let p = p; unsafe { (*p.0).wait().collect::<Vec<i32>>() } }) {
                        Some(v) => println!("yield {:?}", v),
                        None => { println!("blocked"); return; }
                    }
                }
            }
            ["next"] => {
                if let Inst::Signals(s) = &mut inst {
                    let p = SendPtr(s as *mut signal_hook::iterator::Signals);
                    match with_timeout(move || { let p = p; unsafe { (*p.0).forever().next() } }) {
                        Some(Some(v)) => println!("some {}", v),
                        Some(None) => println!("none"),
                        None => { println!("blocked"); return; }
                    }
                }
            }
            ["mpoll"] => {
                if let Inst::Mio(s, poll) = &mut inst {
                    let mut events = mio::Events::with_capacity(8);
                    let _ = poll.poll(&mut events, Some(std::time::Duration::from_millis(60 * patience())));
                    if events.iter().next().is_some() {
                        let v: Vec<i32> = s.pending().collect();
                        println!("ready {:?}", v);
                    } else {
                        println!("notready");
                    }
                }
            }
            ["poll"] => {
                // one `poll_next`; an answer of Pending whose waker fires shortly afterwards (the reactor
                // thread had not yet seen the readable descriptor) is followed by another poll, as an
                // executor would do
                let mut r;
                let mut rounds = 0;
                loop {
                    flag.0.store(false, Ordering::SeqCst);
                    let mut cx = Context::from_waker(&waker);
                    r = match &mut inst {
                        Inst::Tokio(s, rt) => {
                            let _g = rt.enter();
                            Pin::new(s).poll_next(&mut cx)
                        }
                        Inst::AsyncStd(s) => Pin::new(s).poll_next(&mut cx),
                        _ => Poll::Ready(None),
                    };
                    rounds += 1;
                    if !r.is_pending() || rounds > 6 {
                        break;
                    }
                    let mut seen = false;
                    for _ in 0..(120 * patience()) {
                        if flag.0.load(Ordering::SeqCst) { seen = true; break; }
                        std::thread::sleep(std::time::Duration::from_millis(5));
                    }
                    if !seen {
                        break;
                    }
                }
                match r {
                    Poll::Ready(Some(v)) => println!("some {}", v),
                    Poll::Ready(None) => println!("none"),
                    Poll::Pending => println!("pending"),
                }
            }
            ["woken"] => {
                // give the reactor thread time to see the readable descriptor and call the waker
                let mut seen = false;
                for _ in 0..(120 * patience()) {
                    if flag.0.load(Ordering::SeqCst) { seen = true; break; }
                    std::thread::sleep(std::time::Duration::from_millis(5));
                }
                println!("woken {}", seen);
            }
            _ => println!("bad-op"),
        }
    }
    use std::io::Write;
    let _ = std::io::stdout().flush();
    std::mem::forget(inst);
}

pub fn main() -> i32 {
    let mut block: Vec<String> = Vec::new();
    let mut blocks: Vec<Vec<String>> = Vec::new();
    for line in read_lines() {
        if line.trim() == "---" { blocks.push(std::mem::take(&mut block)); } else { block.push(line); }
    }
    if !block.is_empty() { blocks.push(block); }
    for b in blocks {
        use std::io::Write;
        let _ = std::io::stdout().flush();
        let status = crate::defaults::fork_classify(|| { run_child(&b); let _ = std::io::stdout().flush(); unsafe { libc::_exit(0) } });
        println!("exit {}", status);
        println!("---");
    }
    0
}
