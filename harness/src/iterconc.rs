//! Step-level scenarios on the real iterator back end (`SignalDelivery` / `SignalIterator`,
//! exfiltrator `SignalOnly`) under the deterministic scheduler. One scenario per process.
//!   setup watch <sig> ...   signals the instance watches
//!   setup fill              fill the self-pipe to capacity first
//!   setup style A|B         A: consumer uses pending/wait on SignalDelivery; B: poll/forever on SignalIterator
//!   t<k> deliver <sig> | t<k> close | t<k> pending | t<k> wait | t<k> poll | t<k> forever
use crate::common::*;
use crate::halflock::load_sites;
use crate::sched::{self, HarnessGuard, Rng, IN_DELIVERY, TID};
use signal_hook::iterator::backend::{Handle, OwningSignalIterator, PollResult, SignalDelivery};
use signal_hook::iterator::exfiltrator::SignalOnly;
use signal_hook_registry::verif;
use std::io::Error;
use std::os::unix::io::AsRawFd;
use std::os::unix::net::UnixStream;
use std::sync::Mutex;

fn push_log(text: String) {
    let _hg = HarnessGuard::new();
    if let Some(s) = sched::sched() {
        if let Some(tid) = TID.with(|t| t.get()) {
            let depth = IN_DELIVERY.with(|d| d.get());
            s.inner.lock().unwrap().log.push(format!("t{} {}{}", tid, if depth > 0 { "H " } else { "" }, text));
        }
    }
}

/// the write end handed to the instance: says when - and on which thread, inside a delivery or not - it is let go
#[derive(Debug)]
struct WEnd(UnixStream);

impl AsRawFd for WEnd {
    fn as_raw_fd(&self) -> i32 {
        self.0.as_raw_fd()
    }
}

impl Drop for WEnd {
    fn drop(&mut self) {
        push_log("drop-write-end".into());
    }
}

fn readable(fd: i32) -> bool {
    let mut b = [0u8; 1];
    unsafe { libc::recv(fd, b.as_mut_ptr() as *mut libc::c_void, 1, libc::MSG_PEEK | libc::MSG_DONTWAIT) > 0 }
}

/// the readiness callbacks handed to the library
fn cb_blocking(read: &mut UnixStream) -> Result<bool, Error> {
    let _hg = HarnessGuard::new();
    let s = sched::sched().unwrap();
    // a scheduling point that is enabled only when a byte can be read
    s.point_named("cb-block", String::new());
    let mut b = [0u8; 1];
    let n = unsafe { libc::recv(read.as_raw_fd(), b.as_mut_ptr() as *mut libc::c_void, 1, libc::MSG_DONTWAIT) };
    push_log(format!("cb block {}", n > 0));
    Ok(n > 0)
}

fn cb_nonblocking(read: &mut UnixStream) -> Result<bool, Error> {
    let _hg = HarnessGuard::new();
    let s = sched::sched().unwrap();
    s.point_named("cb", String::new());
    let mut b = [0u8; 1];
    let n = unsafe { libc::recv(read.as_raw_fd(), b.as_mut_ptr() as *mut libc::c_void, 1, libc::MSG_DONTWAIT) };
    push_log(format!("cb nonblock {}", n > 0));
    Ok(n > 0)
}

enum Consumer {
    A(SignalDelivery<UnixStream, SignalOnly>),
    B(OwningSignalIterator<UnixStream, SignalOnly>),
    None,
}

static CONSUMER: Mutex<Option<Consumer>> = Mutex::new(None);
/// batches (`Pending`) handed out by `pending()` during the setup, each drained later by its own thread
static BATCHES: Mutex<Vec<Option<signal_hook::iterator::backend::Pending<SignalOnly>>>> = Mutex::new(Vec::new());
static HANDLE: Mutex<Option<Handle>> = Mutex::new(None);

fn do_op(text: &str) {
    let w: Vec<&str> = text.split_whitespace().collect();
    push_log(format!("call {}", text));
    match w.as_slice() {
        ["deliver", sig] => {
            let sig: i32 = sig.parse().unwrap();
            let mut info: libc::siginfo_t = unsafe { std::mem::zeroed() };
            info.si_signo = sig;
            let before = sched::HANDLER_HEAP_OPS.load(std::sync::atomic::Ordering::SeqCst);
            IN_DELIVERY.with(|x| x.set(x.get() + 1));
            unsafe { verif::deliver(sig, &mut info, std::ptr::null_mut()) };
            IN_DELIVERY.with(|x| x.set(x.get() - 1));
            let heap = sched::HANDLER_HEAP_OPS.load(std::sync::atomic::Ordering::SeqCst) - before;
            if heap > 0 {
                push_log(format!("HEAP-IN-HANDLER {}", heap));
            }
            push_log("ret done".into());
        }
        ["close"] => {
            let h = HANDLE.lock().unwrap().as_ref().unwrap().clone();
            h.close();
            push_log("ret done".into());
        }
        ["dropall"] => {
            // every owner goes away - the instance, its batches, the handle - while deliveries may be in flight
            // on other threads: the removal of the instance's actions. A scheduling point of its own first, so
            // that `delay` can place the drop anywhere in the other threads' operations.
            {
                let _hg = HarnessGuard::new();
                sched::sched().unwrap().point_named("dropall", String::new());
            }
            let c = CONSUMER.lock().unwrap().take();
            let b: Vec<_> = BATCHES.lock().unwrap().drain(..).collect();
            let h = HANDLE.lock().unwrap().take();
            drop(b);
            drop(c);
            drop(h);
            push_log("ret done".into());
        }
        ["add", sig] => {
            // add_signal through a clone of the handle
            let sig: i32 = sig.parse().unwrap();
            let h = HANDLE.lock().unwrap().as_ref().unwrap().clone();
            let r = std::panic::catch_unwind(std::panic::AssertUnwindSafe(|| h.add_signal(sig)));
            ADDED.lock().unwrap().push(sig);
            push_log(format!("ret add {}", match r { Ok(Ok(())) => "ok", Ok(Err(_)) => "err", Err(_) => "panic" }));
        }
        ["pending"] | ["wait"] => {
            let mut c = CONSUMER.lock().unwrap().take().unwrap();
            if let Consumer::A(ref mut d) = c {
                let it = if w[0] == "pending" {
                    d.pending()
                } else {
                    match d.poll_pending(&mut cb_blocking) {
                        Ok(Some(p)) => p,
                        Ok(None) => d.pending(),
                        Err(e) => panic!("{}", e),
                    }
                };
                for sig in it {
                    push_log(format!("yield {}", sig));
                }
            }
            *CONSUMER.lock().unwrap() = Some(c);
            push_log("ret done".into());
        }
        ["drain", k] => {
            // a batch obtained earlier (it owns a reference to the slots, not to the instance) is drained
            // here, possibly while another batch of the same instance is drained elsewhere
            let b = BATCHES.lock().unwrap()[k.parse::<usize>().unwrap()].take();
            if let Some(b) = b {
                for sig in b {
                    push_log(format!("yield {}", sig));
                }
            }
            push_log("ret done".into());
        }
        ["poll"] => {
            let mut c = CONSUMER.lock().unwrap().take().unwrap();
            if let Consumer::B(ref mut it) = c {
                match it.poll_signal(&mut cb_nonblocking) {
                    PollResult::Signal(s) => { push_log(format!("yield {}", s)); push_log(format!("ret poll signal {}", s)); }
                    PollResult::Pending => push_log("ret poll pending".into()),
                    PollResult::Closed => push_log("ret poll closed".into()),
                    PollResult::Err(e) => push_log(format!("ret poll err {}", e)),
                }
            }
            *CONSUMER.lock().unwrap() = Some(c);
        }
        ["forever"] => {
            let mut c = CONSUMER.lock().unwrap().take().unwrap();
            if let Consumer::B(ref mut it) = c {
                loop {
                    match it.poll_signal(&mut cb_blocking) {
                        PollResult::Signal(s) => push_log(format!("yield {}", s)),
                        PollResult::Closed => break,
                        PollResult::Pending => continue,
                        PollResult::Err(e) => panic!("{}", e),
                    }
                }
            }
            *CONSUMER.lock().unwrap() = Some(c);
            push_log("ret poll closed".into());
        }
        _ => push_log("bad-op".into()),
    }
}

pub fn main() -> i32 {
    silence_panics();
    reset_dispositions();
    // a leaked action writing into a pipe whose reader is gone must not kill the probe
    unsafe { libc::signal(libc::SIGPIPE, libc::SIG_IGN); }
    let mut out = Out::new();
    let mut watch: Vec<i32> = Vec::new();
    let mut fill = false;
    let mut style = "A".to_string();
    let mut scripts: Vec<Vec<String>> = Vec::new();
    let mut seed: u64 = 1;
    let mut replay: Option<Vec<usize>> = None;
    let mut maxsteps = 20000usize;
    let mut delays: Vec<(usize, usize)> = Vec::new();
    // `holdat t<k> <j> <n>`: once thread <k> has taken <j> own steps it is not scheduled before global step <n>
    let mut holds: Vec<(usize, usize, usize)> = Vec::new();
    let mut own: std::collections::HashMap<usize, usize> = std::collections::HashMap::new();
    let mut batches = 0usize;
    for l in read_lines() {
        let w: Vec<&str> = l.split_whitespace().collect();
        match w.as_slice() {
            ["setup", "watch", rest @ ..] => watch.extend(rest.iter().map(|x| x.parse::<i32>().unwrap())),
            ["setup", "fill"] => fill = true,
            ["setup", "batches", n] => batches = n.parse().unwrap(),
            ["setup", "style", s] => style = s.to_string(),
            ["seed", n] => seed = n.parse().unwrap(),
            ["maxsteps", n] => maxsteps = n.parse().unwrap(),
            ["schedule", rest @ ..] => replay = Some(rest.iter().map(|x| x.parse().unwrap()).collect()),
            // `delay t<k> <n>`: thread <k> is not scheduled during the first <n> steps (unless nothing else can run)
            ["delay", t, n] => delays.push((t[1..].parse().unwrap(), n.parse().unwrap())),
            ["holdat", t, j, n] => holds.push((t[1..].parse().unwrap(), j.parse().unwrap(), n.parse().unwrap())),
            [t, rest @ ..] if t.starts_with('t') => {
                let k: usize = t[1..].parse().unwrap();
                while scripts.len() <= k { scripts.push(Vec::new()); }
                scripts[k].push(rest.join(" "));
            }
            _ => { out.line("bad-op"); out.flush(); return 0; }
        }
    }
    let s = sched::install(load_sites());
    verif::ensure();
    let (read, write) = UnixStream::pair().unwrap();
    let (rfd, wfd) = (read.as_raw_fd(), write.as_raw_fd());
    // capacity of the self-pipe in one-byte wake-ups, measured on an identical pair
    let cap = {
        let (_r2, w2) = UnixStream::pair().unwrap();
        let mut n = 0usize;
        loop {
            let r = unsafe { libc::send(w2.as_raw_fd(), b"X".as_ptr() as *const libc::c_void, 1, libc::MSG_DONTWAIT) };
            if r != 1 { break; }
            n += 1;
            if n > 1_000_000 { break; }
        }
        n
    };
    let delivery = SignalDelivery::with_pipe(read, WEnd(write), SignalOnly::default(), watch.iter()).unwrap();
    *HANDLE.lock().unwrap() = Some(delivery.handle());
    let mut prefill = 0usize;
    {
        let mut g = s.inner.lock().unwrap();
        for (n, a) in verif::layout() { g.names.insert(a, n); }
        g.fd_names.insert(rfd as i64, "R".into());
        g.fd_names.insert(wfd as i64, "W".into());
        g.site_names.insert("close#1".into(), "closed".into());
        g.site_names.insert("is_closed#1".into(), "closed".into());
        // the slots are a contiguous array of one-byte atomics: learn the base from the first access
        let base = std::sync::Arc::new(std::sync::atomic::AtomicUsize::new(0));
        let deliv_sig = std::sync::Arc::new(std::sync::atomic::AtomicUsize::new(0));
        let _ = deliv_sig;
        let b2 = base.clone();
        g.resolver = Some(Box::new(move |addr| {
            let b = b2.load(std::sync::atomic::Ordering::SeqCst);
            if b != 0 && addr >= b && addr < b + 128 { Some(format!("slot{}", addr - b)) } else { None }
        }));
        SLOT_BASE.lock().unwrap().replace(base);
        g.extra_enabled = Some(Box::new(move |_g, _tid, p| {
            if p.name == "cb-block" { readable(rfd) } else { true }
        }));
    }
    // the initial scan of SignalIterator::new (style B) runs unscheduled here and teaches us the base:
    // position 0 is the first compare-exchange
    LEARN.store(true, std::sync::atomic::Ordering::SeqCst);
    let mut d = delivery;
    // an unscheduled scan of the still empty instance, only to learn the slot base
    for _ in d.pending() {}
    LEARN.store(false, std::sync::atomic::Ordering::SeqCst);
    for _ in 0..batches {
        // `pending()` on the still empty pipe (one recv answering EAGAIN), unscheduled
        BATCHES.lock().unwrap().push(Some(d.pending()));
    }
    let consumer = if style == "B" { Consumer::B(OwningSignalIterator::new(d)) } else { Consumer::A(d) };
    if fill {
        loop {
            let r = unsafe { libc::send(wfd, b"X".as_ptr() as *const libc::c_void, 1, libc::MSG_DONTWAIT) };
            if r != 1 { break; }
            prefill += 1;
        }
    }
    *CONSUMER.lock().unwrap() = Some(consumer);
    out.line(&format!("CAP {} PREFILL {}", cap, prefill));
    let mut handles = Vec::new();
    for script in scripts.iter().cloned() {
        let (_tid, h) = s.spawn(move || {
            for op in script.iter() {
                do_op(op);
            }
        });
        handles.push(h);
    }
    let mut rng = Rng(seed.wrapping_mul(0x9E3779B97F4A7C15) | 1);
    let mut pos = 0usize;
    let status = s.run(
        |enabled, step, g| {
            if let Some(i) = enabled.iter().position(|&t| g.threads[t].pending.as_ref().map(|p| p.name == "start").unwrap_or(false)) {
                return i;
            }
            if replay.is_none() && (!delays.is_empty() || !holds.is_empty()) {
                let ok: Vec<usize> = (0..enabled.len()).filter(|&i| {
                    !delays.iter().any(|&(t, n)| t == enabled[i] && step < n)
                        && !holds.iter().any(|&(t, j, n)| t == enabled[i] && own.get(&t).copied().unwrap_or(0) == j && step < n)
                }).collect();
                if !ok.is_empty() {
                    let pick = ok[rng.below(ok.len())];
                    *own.entry(enabled[pick]).or_insert(0) += 1;
                    return pick;
                }
            }
            match &replay {
                Some(r) => {
                    let want = r.get(pos).copied();
                    pos += 1;
                    want.and_then(|w| enabled.iter().position(|&t| t == w)).unwrap_or(0)
                }
                None => {
                    let pick = rng.below(enabled.len());
                    *own.entry(enabled[pick]).or_insert(0) += 1;
                    pick
                }
            }
        },
        maxsteps,
    );
    if status == "done" {
        for h in handles { let _ = h.join(); }
    }
    // teardown (only after a complete run): drop the instance and every handle, then deliver each
    // signal it ever watched once more — none of its actions may still be registered
    let mut leaked: Vec<i32> = Vec::new();
    if status == "done" {
        CONSUMER.lock().unwrap().take();
        HANDLE.lock().unwrap().take();
        let mut all: Vec<i32> = watch.clone();
        all.extend(ADDED.lock().unwrap().iter().cloned());
        all.sort();
        all.dedup();
        for sig in all {
            let before = LATE_STORES.load(std::sync::atomic::Ordering::SeqCst);
            let mut info: libc::siginfo_t = unsafe { std::mem::zeroed() };
            info.si_signo = sig;
            if disposition(sig, Some(verif::handler_addr())).starts_with("lib") {
                unsafe { verif::deliver(sig, &mut info, std::ptr::null_mut()) };
            }
            if LATE_STORES.load(std::sync::atomic::Ordering::SeqCst) != before {
                leaked.push(sig);
            }
        }
    }
    let g = s.inner.lock().unwrap();
    for l in g.log.iter() { out.line(l); }
    out.line(&format!("LEAKED {:?}", leaked));
    let sch: Vec<String> = g.schedule.iter().map(|t| t.to_string()).collect();
    out.line(&format!("SCHEDULE {}", sch.join(" ")));
    out.line(&format!("END {}", status));
    out.flush();
    unsafe { libc::_exit(0) }
}

static ADDED: Mutex<Vec<i32>> = Mutex::new(Vec::new());
/// slot stores seen from unscheduled threads (after teardown: an action that should be gone)
pub static LATE_STORES: std::sync::atomic::AtomicUsize = std::sync::atomic::AtomicUsize::new(0);
pub static LEARN: std::sync::atomic::AtomicBool = std::sync::atomic::AtomicBool::new(false);
pub static SLOT_BASE: Mutex<Option<std::sync::Arc<std::sync::atomic::AtomicUsize>>> = Mutex::new(None);

/// called from the scheduler's post hook for unscheduled threads while LEARN is on
pub fn learn(addr: usize) {
    if let Some(b) = SLOT_BASE.lock().unwrap().as_ref() {
        if b.load(std::sync::atomic::Ordering::SeqCst) == 0 {
            b.store(addr, std::sync::atomic::Ordering::SeqCst);
        }
    }
}
