//! Correspondence harness: runs the *real* signal-hook code on operation files and prints one
//! canonical observation line per operation (the Lean driver prints the model's prediction for
//! the same file; bin/check diffs the two).
mod common;
mod registry_seq;
mod defaults;
mod origin;
mod sched;
mod halflock;
mod regconc;
mod channel;
mod iterconc;
mod iterq;
mod frontends;
mod entries;
mod flags;
mod pipes;

#[global_allocator]
static GLOBAL: sched::CountingAlloc = sched::CountingAlloc;

fn main() {
    let args: Vec<String> = std::env::args().collect();
    let cmd = args.get(1).map(|s| s.as_str()).unwrap_or("");
    let code = match cmd {
        "registry" => registry_seq::main(),
        "defaults" => defaults::main(),
        "origin" => origin::main(),
        "halflock" => halflock::main(),
        "regconc" => regconc::main(),
        "channel" => channel::main(),
        "iterconc" => iterconc::main(),
        "iterq" => iterq::main(),
        "frontends" => frontends::main(),
        "entries" => entries::main(),
        "flags" => flags::main(),
        "pipes" => pipes::main(),
        "channel-table" => channel::table_main(),
        "channel-stress" => channel::stress_main(),
        "channel-long" => channel::long_main(),
        _ => {
            eprintln!("usage: harness <registry>");
            2
        }
    };
    std::process::exit(code);
}
