//! Step-level scenarios on the real iterator back end with a *queueing* exfiltrator
//! (`WithRawSiginfo`: one signal-safe channel per signal) under the deterministic scheduler.
//! Every shim event (including the channel's own atomics) is a scheduling point. There is no
//! lock-step model for these runs; the trace is judged by the property monitors (C09: no stranded
//! record, C10: every yielded record is one delivered record, once).
//!   setup watch <sig> ...
//!   setup style A|B
//!   t<k> deliver <sig> | t<k> close | t<k> pending | t<k> wait | t<k> poll | t<k> forever | t<k> add <sig>
//! Each delivery carries a unique id in `si_errno`; `yield <sig> <id>` names it.
use crate::common::*;
use crate::halflock::load_sites;
use crate::sched::{self, HarnessGuard, Rng, IN_DELIVERY, TID};
use signal_hook::iterator::backend::{Handle, OwningSignalIterator, PollResult, SignalDelivery};
use signal_hook::iterator::exfiltrator::raw::WithRawSiginfo;
use signal_hook_registry::verif;
use std::io::Error;
use std::os::unix::io::AsRawFd;
use std::os::unix::net::UnixStream;
use std::sync::atomic::{AtomicI32, Ordering};
use std::sync::Mutex;

fn push_log(text: String) {
    let _hg = HarnessGuard::new();
    if let Some(s) = sched::sched() {
        if let Some(tid) = TID.with(|t| t.get()) {
            let depth = IN_DELIVERY.with(|d| d.get());
            s.inner.lock().unwrap().log.push(format!("t{} {}{}", tid, if depth > 0 { "H " } else { "" }, text));
        }
    }
}

fn readable(fd: i32) -> bool {
    let mut b = [0u8; 1];
    unsafe { libc::recv(fd, b.as_mut_ptr() as *mut libc::c_void, 1, libc::MSG_PEEK | libc::MSG_DONTWAIT) > 0 }
}

fn cb_blocking(read: &mut UnixStream) -> Result<bool, Error> {
    let _hg = HarnessGuard::new();
    let s = sched::sched().unwrap();
    s.point_named("cb-block", String::new());
    let mut b = [0u8; 1];
    let n = unsafe { libc::recv(read.as_raw_fd(), b.as_mut_ptr() as *mut libc::c_void, 1, libc::MSG_DONTWAIT) };
    push_log(format!("cb block {}", n > 0));
    Ok(n > 0)
}

fn cb_nonblocking(read: &mut UnixStream) -> Result<bool, Error> {
    let _hg = HarnessGuard::new();
    let s = sched::sched().unwrap();
    s.point_named("cb", String::new());
    let mut b = [0u8; 1];
    let n = unsafe { libc::recv(read.as_raw_fd(), b.as_mut_ptr() as *mut libc::c_void, 1, libc::MSG_DONTWAIT) };
    push_log(format!("cb nonblock {}", n > 0));
    Ok(n > 0)
}

enum Consumer {
    A(SignalDelivery<UnixStream, WithRawSiginfo>),
    B(OwningSignalIterator<UnixStream, WithRawSiginfo>),
}

static CONSUMER: Mutex<Option<Consumer>> = Mutex::new(None);
static HANDLE: Mutex<Option<Handle>> = Mutex::new(None);
static NEXT_ID: AtomicI32 = AtomicI32::new(1);

/// every byte of the record after si_signo / si_errno carries a pattern derived from the delivery's id
/// and the offset: a record that is handed out must be a copy of the *whole* siginfo_t of its delivery
fn pattern(id: i32, off: usize) -> u8 {
    (id as usize).wrapping_mul(131).wrapping_add(off.wrapping_mul(7)).wrapping_add(13) as u8
}

fn fill(info: &mut libc::siginfo_t, sig: i32, id: i32) {
    let n = std::mem::size_of::<libc::siginfo_t>();
    let p = info as *mut libc::siginfo_t as *mut u8;
    for off in 8..n {
        unsafe { *p.add(off) = pattern(id, off) };
    }
    info.si_signo = sig;
    info.si_errno = id;
}

/// first byte at which a yielded record differs from what its delivery carried
fn corrupt_at(info: &libc::siginfo_t) -> Option<usize> {
    let n = std::mem::size_of::<libc::siginfo_t>();
    let p = info as *const libc::siginfo_t as *const u8;
    (8..n).find(|&off| unsafe { *p.add(off) } != pattern(info.si_errno, off))
}

fn yield_line(info: &libc::siginfo_t) -> String {
    match corrupt_at(info) {
        None => format!("yield {} {}", info.si_signo, info.si_errno),
        Some(off) => format!("yield {} {} CORRUPT byte {}", info.si_signo, info.si_errno, off),
    }
}

fn do_op(text: &str) {
    let w: Vec<&str> = text.split_whitespace().collect();
    match w.as_slice() {
        ["deliver", sig] => {
            let sig: i32 = sig.parse().unwrap();
            let id = NEXT_ID.fetch_add(1, Ordering::SeqCst);
            push_log(format!("call deliver {} {}", sig, id));
            let mut info: libc::siginfo_t = unsafe { std::mem::zeroed() };
            fill(&mut info, sig, id);
            let before = sched::HANDLER_HEAP_OPS.load(std::sync::atomic::Ordering::SeqCst);
            IN_DELIVERY.with(|x| x.set(x.get() + 1));
            unsafe { verif::deliver(sig, &mut info, std::ptr::null_mut()) };
            IN_DELIVERY.with(|x| x.set(x.get() - 1));
            let heap = sched::HANDLER_HEAP_OPS.load(std::sync::atomic::Ordering::SeqCst) - before;
            if heap > 0 {
                push_log(format!("HEAP-IN-HANDLER {}", heap));
            }
            push_log("ret done".into());
        }
        ["add", sig] => {
            // add_signal through a clone of the handle (several threads may add the same signal)
            push_log(format!("call add {}", sig));
            let sig: i32 = sig.parse().unwrap();
            let h = HANDLE.lock().unwrap().as_ref().unwrap().clone();
            let r = std::panic::catch_unwind(std::panic::AssertUnwindSafe(|| h.add_signal(sig)));
            push_log(format!("ret add {}", match r { Ok(Ok(())) => "ok", Ok(Err(_)) => "err", Err(_) => "panic" }));
        }
        ["close"] => {
            push_log("call close".into());
            let h = HANDLE.lock().unwrap().as_ref().unwrap().clone();
            h.close();
            push_log("ret done".into());
        }
        ["pending"] | ["wait"] => {
            push_log(format!("call {}", text));
            let mut c = CONSUMER.lock().unwrap().take().unwrap();
            if let Consumer::A(ref mut d) = c {
                let it = if w[0] == "pending" {
                    d.pending()
                } else {
                    match d.poll_pending(&mut cb_blocking) {
                        Ok(Some(p)) => p,
                        Ok(None) => d.pending(),
                        Err(e) => panic!("{}", e),
                    }
                };
                for info in it {
                    push_log(yield_line(&info));
                }
            }
            *CONSUMER.lock().unwrap() = Some(c);
            push_log("ret done".into());
        }
        ["poll"] => {
            push_log("call poll".into());
            let mut c = CONSUMER.lock().unwrap().take().unwrap();
            if let Consumer::B(ref mut it) = c {
                match it.poll_signal(&mut cb_nonblocking) {
                    PollResult::Signal(i) => { push_log(yield_line(&i)); push_log("ret poll signal".into()); }
                    PollResult::Pending => push_log("ret poll pending".into()),
                    PollResult::Closed => push_log("ret poll closed".into()),
                    PollResult::Err(e) => push_log(format!("ret poll err {}", e)),
                }
            }
            *CONSUMER.lock().unwrap() = Some(c);
        }
        ["forever"] => {
            push_log("call forever".into());
            let mut c = CONSUMER.lock().unwrap().take().unwrap();
            if let Consumer::B(ref mut it) = c {
                loop {
                    match it.poll_signal(&mut cb_blocking) {
                        PollResult::Signal(i) => push_log(yield_line(&i)),
                        PollResult::Closed => break,
                        PollResult::Pending => continue,
                        PollResult::Err(e) => panic!("{}", e),
                    }
                }
            }
            *CONSUMER.lock().unwrap() = Some(c);
            push_log("ret poll closed".into());
        }
        _ => push_log("bad-op".into()),
    }
}

pub fn main() -> i32 {
    silence_panics();
    reset_dispositions();
    unsafe { libc::signal(libc::SIGPIPE, libc::SIG_IGN); }
    let mut out = Out::new();
    let mut watch: Vec<i32> = Vec::new();
    let mut style = "B".to_string();
    let mut scripts: Vec<Vec<String>> = Vec::new();
    let mut seed: u64 = 1;
    let mut replay: Option<Vec<usize>> = None;
    let mut maxsteps = 20000usize;
    // `delay <tid> <n>`: thread <tid> is not scheduled during the first <n> steps (unless nothing else can run)
    let mut delays: Vec<(usize, usize)> = Vec::new();
    // `setup trace`: print every shim event, not just the operation-level lines
    let mut full_trace = false;
    for l in read_lines() {
        let w: Vec<&str> = l.split_whitespace().collect();
        match w.as_slice() {
            ["setup", "watch", rest @ ..] => watch.extend(rest.iter().map(|x| x.parse::<i32>().unwrap())),
            ["setup", "style", s] => style = s.to_string(),
            ["setup", "trace"] => full_trace = true,
            ["seed", n] => seed = n.parse().unwrap(),
            ["maxsteps", n] => maxsteps = n.parse().unwrap(),
            ["delay", t, n] => delays.push((t[1..].parse().unwrap(), n.parse().unwrap())),
            ["schedule", rest @ ..] => replay = Some(rest.iter().map(|x| x.parse().unwrap()).collect()),
            [t, rest @ ..] if t.starts_with('t') => {
                let k: usize = t[1..].parse().unwrap();
                while scripts.len() <= k { scripts.push(Vec::new()); }
                scripts[k].push(rest.join(" "));
            }
            _ => { out.line("bad-op"); out.flush(); return 0; }
        }
    }
    let s = sched::install(load_sites());
    verif::ensure();
    let (read, write) = UnixStream::pair().unwrap();
    let rfd = read.as_raw_fd();
    let delivery = SignalDelivery::with_pipe(read, write, WithRawSiginfo::default(), watch.iter()).unwrap();
    *HANDLE.lock().unwrap() = Some(delivery.handle());
    {
        let mut g = s.inner.lock().unwrap();
        g.extra_enabled = Some(Box::new(move |_g, _tid, p| {
            if p.name == "cb-block" { readable(rfd) } else { true }
        }));
    }
    let consumer = if style == "B" { Consumer::B(OwningSignalIterator::new(delivery)) } else { Consumer::A(delivery) };
    *CONSUMER.lock().unwrap() = Some(consumer);
    let mut handles = Vec::new();
    for script in scripts.iter().cloned() {
        let (_tid, h) = s.spawn(move || {
            for op in script.iter() {
                do_op(op);
            }
        });
        handles.push(h);
    }
    let mut rng = Rng(seed.wrapping_mul(0x9E3779B97F4A7C15) | 1);
    let mut pos = 0usize;
    let status = s.run(
        |enabled, step, g| {
            if let Some(i) = enabled.iter().position(|&t| g.threads[t].pending.as_ref().map(|p| p.name == "start").unwrap_or(false)) {
                return i;
            }
            if replay.is_none() && !delays.is_empty() {
                let ok: Vec<usize> = (0..enabled.len()).filter(|&i| !delays.iter().any(|&(t, n)| t == enabled[i] && step < n)).collect();
                if !ok.is_empty() {
                    return ok[rng.below(ok.len())];
                }
            }
            match &replay {
                Some(r) => {
                    let want = r.get(pos).copied();
                    pos += 1;
                    want.and_then(|w| enabled.iter().position(|&t| t == w)).unwrap_or(0)
                }
                None => rng.below(enabled.len()),
            }
        },
        maxsteps,
    );
    if status == "done" {
        for h in handles { let _ = h.join(); }
    }
    let g = s.inner.lock().unwrap();
    // only the operation-level lines matter here
    for l in g.log.iter() {
        let body = l.splitn(2, ' ').nth(1).unwrap_or("");
        let body = body.strip_prefix("H ").unwrap_or(body);
        if full_trace || body.starts_with("call ") || body.starts_with("ret ") || body.starts_with("yield ") || body.starts_with("cb ") {
            out.line(l);
        }
    }
    for (t, th) in g.threads.iter().enumerate() {
        if let Some(p) = th.pending.as_ref() {
            out.line(&format!("PARKED t{} {}", t, p.name));
        }
    }
    let sch: Vec<String> = g.schedule.iter().map(|t| t.to_string()).collect();
    out.line(&format!("SCHEDULE {}", sch.join(" ")));
    out.line(&format!("END {}", status));
    out.flush();
    unsafe { libc::_exit(0) }
}
