//! Step-level scenarios on the real `HalfLock` (through `verif::HalfLockProbe`) under the
//! deterministic scheduler. Input: scenario blocks separated by `---`:
//!   t<k> read <uses> | t<k> write <0|1>      (script lines, in order, per thread)
//!   seed <n>  |  schedule <tid> <tid> ...      (random or replayed schedule)
//!   maxsteps <n>
//! Output per block: the observation lines, `SCHEDULE ...`, `END <status>`.
use crate::common::*;
use crate::sched::{self, Rng};
use signal_hook_registry::verif::HalfLockProbe;
use std::collections::HashMap;
use std::sync::atomic::{AtomicUsize, Ordering};
use std::sync::Arc;

pub struct Canary {
    pub id: usize,
    pub bomb: bool,
}

pub static DROPS: AtomicUsize = AtomicUsize::new(0);

impl Drop for Canary {
    fn drop(&mut self) {
        DROPS.fetch_add(1, Ordering::SeqCst);
        if self.bomb {
            panic!("destructor of snapshot {} panics", self.id);
        }
    }
}

#[derive(Clone, Debug)]
enum Cmd {
    Read(usize),
    Write(bool, bool),
}

pub fn load_sites() -> HashMap<(String, u32), String> {
    let mut m = HashMap::new();
    let path = std::env::var("VERIF_SITES").unwrap_or_else(|_| "/verif/sites.txt".into());
    if let Ok(text) = std::fs::read_to_string(&path) {
        for l in text.lines() {
            let w: Vec<&str> = l.split_whitespace().collect();
            if w.len() == 3 {
                if let Ok(line) = w[1].parse::<u32>() {
                    m.insert((w[0].to_string(), line), w[2].to_string());
                }
            }
        }
    }
    m
}

fn run_block(lines: &[String], out: &mut Out) {
    let mut scripts: Vec<Vec<Cmd>> = Vec::new();
    let mut seed: u64 = 1;
    let mut replay: Option<Vec<usize>> = None;
    let mut maxsteps = 400usize;
    for l in lines {
        let w: Vec<&str> = l.split_whitespace().collect();
        match w.as_slice() {
            [t, "read", n] if t.starts_with('t') => {
                let k: usize = t[1..].parse().unwrap();
                while scripts.len() <= k { scripts.push(Vec::new()); }
                scripts[k].push(Cmd::Read(n.parse().unwrap()));
            }
            [t, "write", b] if t.starts_with('t') => {
                let k: usize = t[1..].parse().unwrap();
                while scripts.len() <= k { scripts.push(Vec::new()); }
                scripts[k].push(Cmd::Write(*b != "0", *b == "2"));
            }
            ["seed", n] => seed = n.parse().unwrap(),
            ["maxsteps", n] => maxsteps = n.parse().unwrap(),
            ["schedule", rest @ ..] => replay = Some(rest.iter().map(|x| x.parse().unwrap()).collect()),
            _ => { out.line("bad-op"); return; }
        }
    }
    let s = sched::install(load_sites());
    let probe = Arc::new(HalfLockProbe::new(Canary { id: 0, bomb: false }));
    {
        let mut g = s.inner.lock().unwrap();
        for (n, a) in probe.layout() {
            g.names.insert(a, n);
        }
    }
    let mut handles = Vec::new();
    for script in scripts.iter().cloned() {
        let p = probe.clone();
        let sc = s.clone();
        let (_tid, h) = s.spawn(move || {
            for cmd in script {
                match cmd {
                    Cmd::Read(uses) => p.read(|c| {
                        for _ in 0..uses {
                            sc.point(format!("use {}", c.id));
                        }
                    }),
                    Cmd::Write(st, bomb) => {
                        let sc2 = sc.clone();
                        let p2 = p.clone();
                        // a panicking destructor unwinds out of `store`; the caller survives it
                        let _ = std::panic::catch_unwind(std::panic::AssertUnwindSafe(move || {
                            p2.write(move |_cur| {
                                if st {
                                    // the id of the new snapshot is the allocation ordinal the shim will assign
                                    let id = sc2.inner.lock().unwrap().next_alloc;
                                    Some(Canary { id, bomb })
                                } else {
                                    None
                                }
                            });
                        }));
                    }
                }
            }
        });
        handles.push(h);
    }
    let mut rng = Rng(seed.wrapping_mul(0x9E3779B97F4A7C15) | 1);
    let mut pos = 0usize;
    let status = s.run(
        |enabled, _step, g| {
            // thread starts are forced first, in order, and are not part of the schedule
            if let Some(i) = enabled.iter().position(|&t| g.threads[t].pending.as_ref().map(|p| p.name == "start").unwrap_or(false)) {
                return i;
            }
            match &replay {
                Some(r) => {
                    let want = r.get(pos).copied();
                    pos += 1;
                    // beyond the given prefix (or if the wanted thread is not enabled): lowest enabled tid
                    want.and_then(|w| enabled.iter().position(|&t| t == w)).unwrap_or(0)
                }
                None => rng.below(enabled.len()),
            }
        },
        maxsteps,
    );
    if status == "done" {
        for h in handles {
            let _ = h.join();
        }
    } else {
        // the scenario did not finish within its step budget (a thread waits for something that
        // never happens, e.g. a wedged write barrier): report what happened and leave the process
        // - the stuck threads cannot be torn down, the caller re-runs the remaining scenarios
        let g = s.inner.lock().unwrap();
        for l in g.log.iter() {
            out.line(l);
        }
        let sch: Vec<String> = g.schedule.iter().map(|t| t.to_string()).collect();
        out.line(&format!("SCHEDULE {}", sch.join(" ")));
        out.line(&format!("END {}", status));
        out.line("---");
        out.line("ABANDONED");
        out.flush();
        std::process::exit(0);
    }
    let g = s.inner.lock().unwrap();
    for l in g.log.iter() {
        out.line(l);
    }
    let sch: Vec<String> = g.schedule.iter().map(|t| t.to_string()).collect();
    out.line(&format!("SCHEDULE {}", sch.join(" ")));
    out.line(&format!("END {}", status));
    drop(g);
    // the last published value may be one whose destructor panics
    let _ = std::panic::catch_unwind(std::panic::AssertUnwindSafe(move || drop(probe)));
}

pub fn main() -> i32 {
    silence_panics();
    let mut out = Out::new();
    let mut block: Vec<String> = Vec::new();
    for line in read_lines() {
        if line.trim() == "---" {
            if !block.is_empty() {
                run_block(&block, &mut out);
                out.line("---");
                out.flush();
                block.clear();
            }
        } else {
            block.push(line);
        }
    }
    if !block.is_empty() {
        run_block(&block, &mut out);
        out.line("---");
    }
    out.flush();
    0
}
