//! Deterministic scheduler: every logical thread is an OS thread parked on a condvar; the shim
//! (and the harness's own event points) call in before every shared-memory operation; the
//! controller lets exactly one thread perform exactly one operation at a time and records one
//! canonical observation line per operation.
#![allow(dead_code)]
use signal_hook_registry::verif_shim as shim;
use std::cell::Cell;
use std::collections::HashMap;
use std::sync::{Arc, Condvar, Mutex};

#[derive(Clone, Debug)]
pub struct Pending {
    pub op: shim::Op,
    pub addr: usize,
    pub name: &'static str,
    pub desc: String,
}

#[derive(Clone, Debug, PartialEq)]
pub enum Status {
    Running,
    Pending,
    Done,
    NotStarted,
}

pub struct TState {
    pub status: Status,
    pub pending: Option<Pending>,
    pub inject: Cell<shim::Inject>,
    /// request to run nested logical thread `n` on this OS thread (set by the controller)
    pub nest: Option<usize>,
    /// this logical thread is a nested delivery hosted by that thread
    pub host: Option<usize>,
    /// the nested logical thread currently running on top of this one
    pub hosting: Option<usize>,
    pub own_steps: usize,
}

pub struct Inner {
    pub threads: Vec<TState>,
    pub granted: Option<usize>,
    pub log: Vec<String>,
    pub schedule: Vec<usize>,
    pub mutex_owner: HashMap<usize, usize>,
    pub names: HashMap<usize, String>,
    /// allocation address -> snapshot id
    pub allocs: HashMap<usize, usize>,
    pub next_alloc: usize,
    pub sites: HashMap<(String, u32), String>,
    pub abort: bool,
    /// body of nested logical threads (called with the nested thread's id)
    pub nest_fn: Option<fn(usize)>,
    /// called by the controller after every step (all threads parked) with the thread that moved;
    /// returns extra observation lines (e.g. memory that changed during the step)
    pub observer: Option<Box<dyn FnMut(usize) -> Vec<String> + Send>>,
    /// names for locations only known by the site that touches them / by address arithmetic
    pub site_names: HashMap<String, String>,
    pub resolver: Option<Box<dyn Fn(usize) -> Option<String> + Send>>,
    /// names of file descriptors in system-call lines
    pub fd_names: HashMap<i64, String>,
    pub last_granted: Option<usize>,
    pub extra_enabled: Option<Box<dyn Fn(&Inner, usize, &Pending) -> bool + Send>>,
}

pub struct Sched {
    pub inner: Mutex<Inner>,
    pub cv: Condvar,
}

thread_local! {
    pub static TID: Cell<Option<usize>> = const { Cell::new(None) };
    pub static IN_DELIVERY: Cell<usize> = const { Cell::new(0) };
    /// >0 while harness code (scheduler, logging, test actions) runs: its allocations do not count
    pub static IN_HARNESS: Cell<usize> = const { Cell::new(0) };
}

/// heap operations performed by library code while a (simulated) delivery is running
pub static HANDLER_HEAP_OPS: std::sync::atomic::AtomicUsize = std::sync::atomic::AtomicUsize::new(0);

pub struct HarnessGuard;
impl HarnessGuard {
    pub fn new() -> Self {
        IN_HARNESS.with(|h| h.set(h.get() + 1));
        HarnessGuard
    }
}
impl Drop for HarnessGuard {
    fn drop(&mut self) {
        IN_HARNESS.with(|h| h.set(h.get() - 1));
    }
}

pub struct CountingAlloc;
unsafe impl std::alloc::GlobalAlloc for CountingAlloc {
    unsafe fn alloc(&self, l: std::alloc::Layout) -> *mut u8 {
        note_heap_op();
        std::alloc::System.alloc(l)
    }
    unsafe fn dealloc(&self, p: *mut u8, l: std::alloc::Layout) {
        note_heap_op();
        std::alloc::System.dealloc(p, l)
    }
    unsafe fn realloc(&self, p: *mut u8, l: std::alloc::Layout, n: usize) -> *mut u8 {
        note_heap_op();
        std::alloc::System.realloc(p, l, n)
    }
}

#[inline]
fn note_heap_op() {
    let in_deliv = IN_DELIVERY.try_with(|d| d.get()).unwrap_or(0);
    if in_deliv > 0 && IN_HARNESS.try_with(|h| h.get()).unwrap_or(1) == 0 {
        HANDLER_HEAP_OPS.fetch_add(1, std::sync::atomic::Ordering::SeqCst);
    }
}

static mut SCHED: Option<Arc<Sched>> = None;

pub fn sched() -> Option<&'static Arc<Sched>> {
    unsafe { (*std::ptr::addr_of!(SCHED)).as_ref() }
}

pub fn install(sites: HashMap<(String, u32), String>) -> Arc<Sched> {
    let s = Arc::new(Sched {
        inner: Mutex::new(Inner {
            threads: Vec::new(),
            granted: None,
            log: Vec::new(),
            schedule: Vec::new(),
            mutex_owner: HashMap::new(),
            names: HashMap::new(),
            allocs: HashMap::new(),
            next_alloc: 0,
            sites,
            abort: false,
            nest_fn: None,
            observer: None,
            site_names: HashMap::new(),
            resolver: None,
            fd_names: HashMap::new(),
            last_granted: None,
            extra_enabled: None,
        }),
        cv: Condvar::new(),
    });
    unsafe {
        SCHED = Some(s.clone());
        shim::set_hooks(shim::Hooks { pre: hook_pre, post: hook_post });
    }
    s
}

pub fn ord_name(o: Option<shim::Ordering>) -> &'static str {
    match o {
        Some(shim::Ordering::Relaxed) => "Relaxed",
        Some(shim::Ordering::Acquire) => "Acquire",
        Some(shim::Ordering::Release) => "Release",
        Some(shim::Ordering::AcqRel) => "AcqRel",
        Some(shim::Ordering::SeqCst) => "SeqCst",
        _ => "-",
    }
}

impl Inner {
    pub fn loc_name(&self, addr: usize) -> String {
        self.names.get(&addr).cloned().unwrap_or_else(|| format!("?{:x}", addr))
    }
    pub fn site(&self, file: &str, line: u32) -> String {
        // file paths reported by #[track_caller] are as passed to rustc (absolute or relative)
        for ((f, l), label) in self.sites.iter() {
            if *l == line && file.ends_with(f.as_str()) {
                return label.clone();
            }
        }
        "-".into()
    }
    pub fn snap_id(&mut self, addr: usize) -> usize {
        if addr == 0 {
            return usize::MAX;
        }
        if let Some(id) = self.allocs.get(&addr) {
            *id
        } else {
            // allocated before the shim saw it (should not happen): give it a fresh id
            let id = self.next_alloc;
            self.next_alloc += 1;
            self.allocs.insert(addr, id);
            id
        }
    }
}

fn hook_pre(e: &shim::Event) -> shim::Inject {
    let _hg = HarnessGuard::new();
    let s = match sched() {
        Some(s) => s,
        None => return shim::Inject::None,
    };
    let tid = TID.with(|t| t.get());
    let tid = match tid {
        Some(t) => t,
        None => return shim::Inject::None,
    };
    let inj = s.park(tid, Pending { op: e.op, addr: e.addr, name: e.name, desc: String::new() });
    // a write / send that would block for ever (blocking descriptor, no room): do not perform it —
    // report it instead (the calling thread may be inside a signal handler)
    if e.op == shim::Op::Syscall && (e.name == "write" || e.name == "send") {
        let fd = e.arg as i32;
        let flags = (e.arg2 >> 32) as i32;
        let dontwait = e.name == "send" && (flags & libc::MSG_DONTWAIT) != 0;
        let fl = unsafe { libc::fcntl(fd, libc::F_GETFL) };
        let nonblock = fl >= 0 && (fl & libc::O_NONBLOCK) != 0;
        if !dontwait && !nonblock && fl >= 0 {
            let mut p = libc::pollfd { fd, events: libc::POLLOUT, revents: 0 };
            let r = unsafe { libc::poll(&mut p, 1, 0) };
            if r == 0 {
                let mut g = s.inner.lock().unwrap();
                let name = g.fd_names.get(&(fd as i64)).cloned().unwrap_or_else(|| format!("fd{}", fd));
                let depth = IN_DELIVERY.with(|d| d.get());
                g.log.push(format!("t{} {}WOULD-BLOCK {} {}", tid, if depth > 0 { "H " } else { "" }, e.name, name));
                return shim::Inject::Return(-1);
            }
        }
    }
    inj
}

fn hook_post(e: &shim::Event, result: u64, ok: bool) {
    let _hg = HarnessGuard::new();
    let s = match sched() {
        Some(s) => s,
        None => return,
    };
    let tid = TID.with(|t| t.get());
    let mut g = s.inner.lock().unwrap();
    // allocation bookkeeping happens for every thread, scheduled or not
    match e.op {
        shim::Op::Alloc => {
            let id = g.next_alloc;
            g.next_alloc += 1;
            g.allocs.insert(e.addr, id);
        }
        _ => {}
    }
    let tid = match tid {
        Some(t) => t,
        None => {
            if e.op == shim::Op::Free {
                g.allocs.remove(&e.addr);
            }
            if e.op == shim::Op::Store && e.file.ends_with("exfiltrator/mod.rs") {
                crate::iterconc::LATE_STORES.fetch_add(1, std::sync::atomic::Ordering::SeqCst);
            }
            if e.op == shim::Op::Cas && crate::iterconc::LEARN.load(std::sync::atomic::Ordering::SeqCst) {
                drop(g);
                crate::iterconc::learn(e.addr);
            }
            return;
        }
    };
    let site = g.site(e.file, e.line);
    let mut loc = g.loc_name(e.addr);
    if loc.starts_with('?') {
        if let Some(n) = g.site_names.get(&site) {
            loc = n.clone();
        } else if let Some(n) = g.resolver.as_ref().and_then(|r| r(e.addr)) {
            loc = n;
        }
    }
    let is_ptr = loc.ends_with("data");
    let o = ord_name(e.ord);
    let val = |g: &mut Inner, v: u64| -> String {
        if is_ptr { g.snap_id(v as usize).to_string() } else { v.to_string() }
    };
    let text = match e.op {
        shim::Op::Load => { let v = val(&mut g, result); format!("load {} = {} @{}:{}", loc, v, site, o) }
        shim::Op::Store => format!("store {} {} @{}:{}", loc, e.arg, site, o),
        shim::Op::Swap => {
            let n = val(&mut g, e.arg);
            let v = val(&mut g, result);
            format!("swap {} {} = {} @{}:{}", loc, n, v, site, o)
        }
        shim::Op::FetchAdd => format!("fetch_add {} = {} @{}:{}", loc, result, site, o),
        shim::Op::FetchSub => format!("fetch_sub {} = {} @{}:{}", loc, result, site, o),
        shim::Op::Rmw => format!("{} {} {} = {} @{}:{}", e.name, loc, e.arg, result, site, o),
        shim::Op::Cas | shim::Op::CasWeak => format!(
            "{} {} {}->{} = {}{} @{}:{}/{}",
            if e.op == shim::Op::Cas { "cas" } else { "cas_weak" },
            loc, e.arg, e.arg2, if ok { "ok " } else { "fail " }, result, site, o, ord_name(e.ord_fail)
        ),
        shim::Op::MutexLock => {
            g.mutex_owner.insert(e.addr, tid);
            format!("mutex_lock {}{}", loc, if result != 0 { " poisoned" } else { "" })
        }
        shim::Op::MutexUnlock => {
            g.mutex_owner.remove(&e.addr);
            format!("mutex_unlock {}{}", loc, if e.arg != 0 { " panicking" } else { "" })
        }
        shim::Op::Yield => "yield".to_string(),
        shim::Op::Spin => "spin".to_string(),
        shim::Op::CellAccess => format!("cell {}", loc),
        shim::Op::Alloc => { let id = g.snap_id(e.addr); format!("alloc {}", id) }
        shim::Op::Free => {
            let id = g.snap_id(e.addr);
            g.allocs.remove(&e.addr);
            format!("free {}", id)
        }
        shim::Op::Syscall => {
            if e.name == "sigaction" {
                format!("sys {} {} {} = {}", e.name, e.arg as i64, e.arg2 as i64, result as i64)
            } else {
                let fd = g.fd_names.get(&(e.arg as i64)).cloned().unwrap_or_else(|| format!("fd{}", e.arg as i64));
                let len = e.arg2 & 0xffff_ffff;
                let flags = (e.arg2 >> 32) as i64;
                let fdfl = unsafe { libc::fcntl(e.arg as i32, libc::F_GETFL) };
                let nonblock = fdfl >= 0 && (fdfl & libc::O_NONBLOCK) != 0;
                let fl = if e.name == "send" || e.name == "recv" {
                    if flags & (libc::MSG_DONTWAIT as i64) != 0 { " dontwait" } else if nonblock { " nonblock-fd" } else { " BLOCKING" }
                } else if e.name == "write" {
                    if nonblock { " nonblock-fd" } else { " BLOCKING" }
                } else { "" };
                format!("sys {} {} len={}{} = {}", e.name, fd, len, fl, result as i64)
            }
        }
    };
    let depth = IN_DELIVERY.with(|d| d.get());
    g.log.push(format!("t{} {}{}", tid, if depth > 0 { "H " } else { "" }, text));
    g.threads[tid].own_steps += 1;
}

impl Sched {
    /// a silent scheduling point with a name the enabledness filter can look at
    pub fn point_named(&self, name: &'static str, desc: String) {
        let _hg = HarnessGuard::new();
        if let Some(tid) = TID.with(|t| t.get()) {
            self.park(tid, Pending { op: shim::Op::Spin, addr: 0, name, desc });
            let mut g = self.inner.lock().unwrap();
            g.threads[tid].own_steps += 1;
        }
    }

    /// a harness-level event point (e.g. "use snapshot", "run action")
    pub fn point(&self, text: String) {
        let _hg = HarnessGuard::new();
        let tid = match TID.with(|t| t.get()) {
            Some(t) => t,
            None => return,
        };
        self.park(tid, Pending { op: shim::Op::Spin, addr: 0, name: "harness", desc: text.clone() });
        let depth = IN_DELIVERY.with(|d| d.get());
        let mut g = self.inner.lock().unwrap();
        g.log.push(format!("t{} {}{}", tid, if depth > 0 { "H " } else { "" }, text));
        g.threads[tid].own_steps += 1;
    }

    fn park(&self, tid: usize, p: Pending) -> shim::Inject {
        let mut g = self.inner.lock().unwrap();
        g.threads[tid].pending = Some(p);
        g.threads[tid].status = Status::Pending;
        self.cv.notify_all();
        loop {
            if g.abort {
                // scenario is being torn down: let every thread run freely to its end
                g.threads[tid].status = Status::Running;
                return shim::Inject::None;
            }
            if g.granted == Some(tid) {
                g.granted = None;
                if let Some(n) = g.threads[tid].nest.take() {
                    // run the nested delivery `n` on this OS thread; this thread stays where it is
                    g.threads[tid].hosting = Some(n);
                    g.threads[n].status = Status::Running;
                    let f = g.nest_fn;
                    drop(g);
                    TID.with(|t| t.set(Some(n)));
                    if let Some(f) = f {
                        f(n);
                    }
                    TID.with(|t| t.set(Some(tid)));
                    g = self.inner.lock().unwrap();
                    g.threads[n].status = Status::Done;
                    g.threads[tid].hosting = None;
                    self.cv.notify_all();
                    continue;
                }
                g.threads[tid].status = Status::Running;
                g.threads[tid].pending = None;
                let inj = g.threads[tid].inject.get();
                g.threads[tid].inject.set(shim::Inject::None);
                return inj;
            }
            g = self.cv.wait(g).unwrap();
        }
    }

    pub fn thread_done(&self, tid: usize) {
        let mut g = self.inner.lock().unwrap();
        g.threads[tid].status = Status::Done;
        self.cv.notify_all();
    }

    pub fn add_thread(&self) -> usize {
        let mut g = self.inner.lock().unwrap();
        g.threads.push(TState { status: Status::NotStarted, pending: None, inject: Cell::new(shim::Inject::None), nest: None, host: None, hosting: None, own_steps: 0 });
        g.threads.len() - 1
    }

    /// declare a nested delivery thread hosted by `host` (it has no OS thread of its own)
    pub fn add_nested(&self, host: usize) -> usize {
        let n = self.add_thread();
        let mut g = self.inner.lock().unwrap();
        g.threads[n].host = Some(host);
        n
    }

    /// spawn a logical thread running `f`
    pub fn spawn<F: FnOnce() + Send + 'static>(self: &Arc<Self>, f: F) -> (usize, std::thread::JoinHandle<()>) {
        let tid = self.add_thread();
        {
            let mut g = self.inner.lock().unwrap();
            g.threads[tid].status = Status::Running;
        }
        let me = self.clone();
        let h = std::thread::spawn(move || {
            TID.with(|t| t.set(Some(tid)));
            // first park: nothing runs before the controller says so
            me.park(tid, Pending { op: shim::Op::Spin, addr: 0, name: "start", desc: "start".into() });
            let r = std::panic::catch_unwind(std::panic::AssertUnwindSafe(f));
            if r.is_err() {
                let mut g = me.inner.lock().unwrap();
                g.log.push(format!("t{} PANIC", tid));
            }
            me.thread_done(tid);
        });
        (tid, h)
    }

    fn enabled(g: &Inner, tid: usize) -> bool {
        let t = &g.threads[tid];
        if t.status == Status::NotStarted {
            // a nested delivery can start while its host is parked at a real operation
            return match t.host {
                Some(h) => {
                    let ht = &g.threads[h];
                    ht.status == Status::Pending && ht.hosting.is_none()
                        && ht.pending.as_ref().map(|p| p.name != "start").unwrap_or(false)
                }
                None => false,
            };
        }
        if t.status != Status::Pending || t.hosting.is_some() {
            return false;
        }
        let p = t.pending.as_ref().unwrap();
        if p.op == shim::Op::MutexLock && g.mutex_owner.contains_key(&p.addr) {
            return false;
        }
        if let Some(f) = g.extra_enabled.as_ref() {
            if !f(g, tid, p) {
                return false;
            }
        }
        true
    }

    /// Run the controller until every thread is done, or `max_steps` is reached, or no thread is
    /// enabled (deadlock). `choose(enabled, step)` picks the index into `enabled`.
    /// Returns "done" | "deadlock" | "limit".
    pub fn run<F: FnMut(&[usize], usize, &Inner) -> usize>(&self, mut choose: F, max_steps: usize) -> &'static str {
        let mut step = 0usize;
        loop {
            let mut g = self.inner.lock().unwrap();
            // wait until nobody is running
            while g.granted.is_some() || g.threads.iter().any(|t| t.status == Status::Running) {
                g = self.cv.wait(g).unwrap();
            }
            if let Some(last) = g.last_granted.take() {
                if let Some(mut obs) = g.observer.take() {
                    let lines = obs(last);
                    for l in lines {
                        g.log.push(l);
                    }
                    g.observer = Some(obs);
                }
            }
            if g.threads.iter().all(|t| t.status == Status::Done || (t.status == Status::NotStarted && t.host.is_some() && g.threads[t.host.unwrap()].status == Status::Done)) {
                return "done";
            }
            let enabled: Vec<usize> = (0..g.threads.len()).filter(|&t| Self::enabled(&g, t)).collect();
            if enabled.is_empty() {
                return "deadlock";
            }
            if step >= max_steps {
                return "limit";
            }
            let k = choose(&enabled, step, &g);
            let tid = enabled[k % enabled.len()];
            if g.threads[tid].status == Status::NotStarted {
                // start the nested delivery on its host's OS thread (not a recorded step)
                let h = g.threads[tid].host.unwrap();
                g.threads[h].nest = Some(tid);
                g.threads[tid].status = Status::Running;
                g.granted = Some(h);
                self.cv.notify_all();
                continue;
            }
            // "start" pseudo-steps are not recorded in the schedule
            let is_start = g.threads[tid].pending.as_ref().map(|p| p.name == "start").unwrap_or(false);
            if !is_start {
                g.schedule.push(tid);
                step += 1;
                g.last_granted = Some(tid);
            }
            g.granted = Some(tid);
            self.cv.notify_all();
        }
    }
}

/// xorshift PRNG (deterministic from VERIF_SEED)
pub struct Rng(pub u64);
impl Rng {
    pub fn next(&mut self) -> u64 {
        let mut x = self.0;
        x ^= x << 13;
        x ^= x >> 7;
        x ^= x << 17;
        self.0 = x;
        x
    }
    pub fn below(&mut self, n: usize) -> usize {
        (self.next() % (n as u64)) as usize
    }
}
