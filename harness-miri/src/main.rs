//! The real `Channel` (no shim, the std atomics as the crate declares them) under Miri: an interpreter of the
//! C11 memory model with a data-race detector and weak-memory emulation (store buffers: a relaxed load may
//! return an older value). This is the one place where stale reads are exercised on the implementation and
//! not only in the Lean model. Run with many scheduler seeds (MIRIFLAGS=-Zmiri-many-seeds=..).
//! A data race or any other undefined behaviour makes Miri stop with an error; the value-level checks below
//! (nothing invented, nothing twice, per-producer order, every value dropped once) panic.
use signal_hook::low_level::channel::Channel;
use std::sync::atomic::{AtomicUsize, Ordering};
use std::sync::Arc;
use std::thread;

static DROPS: AtomicUsize = AtomicUsize::new(0);
static MADE: AtomicUsize = AtomicUsize::new(0);

struct V(u64);
impl V {
    fn new(x: u64) -> V {
        MADE.fetch_add(1, Ordering::SeqCst);
        V(x)
    }
}
impl Drop for V {
    fn drop(&mut self) {
        DROPS.fetch_add(1, Ordering::SeqCst);
    }
}

fn check(got: &[u64], producers: &[(u64, u64)]) {
    let mut sorted = got.to_vec();
    sorted.sort_unstable();
    let n = sorted.len();
    sorted.dedup();
    assert_eq!(sorted.len(), n, "a value was received twice: {:?}", got);
    for v in got {
        assert!(producers.iter().any(|&(b, k)| (b..b + k).contains(v)), "received a value that was never sent: {}", v);
    }
    for &(b, k) in producers {
        let mine: Vec<u64> = got.iter().copied().filter(|v| (b..b + k).contains(v)).collect();
        assert!(mine.windows(2).all(|w| w[0] < w[1]), "values of one producer came out of order: {:?}", mine);
    }
}

/// two senders compete for the last free slot while a receiver recycles slots
fn senders2(per: u64, prefill: u64) {
    let ch = Arc::new(Channel::<V>::new());
    for i in 0..prefill {
        ch.send(V::new(1000 + i));
    }
    let sender = |base: u64| {
        let ch = Arc::clone(&ch);
        thread::spawn(move || {
            for i in 0..per {
                ch.send(V::new(base + i));
                thread::yield_now();
            }
        })
    };
    let (s1, s2) = (sender(100), sender(200));
    let r = {
        let ch = Arc::clone(&ch);
        thread::spawn(move || {
            let mut got = Vec::new();
            for _ in 0..(6 * per) {
                if let Some(v) = ch.recv() {
                    got.push(v.0);
                }
                thread::yield_now();
            }
            got
        })
    };
    s1.join().unwrap();
    s2.join().unwrap();
    let mut got = r.join().unwrap();
    while let Some(v) = ch.recv() {
        got.push(v.0);
    }
    check(&got, &[(1000, prefill), (100, per), (200, per)]);
}

/// two receivers compete for the head of `full` while a sender refills
fn receivers2(per: u64) {
    let ch = Arc::new(Channel::<V>::new());
    let s = {
        let ch = Arc::clone(&ch);
        thread::spawn(move || {
            for i in 0..per {
                ch.send(V::new(100 + i));
                thread::yield_now();
            }
        })
    };
    let recv = || {
        let ch = Arc::clone(&ch);
        thread::spawn(move || {
            let mut got = Vec::new();
            for _ in 0..(3 * per) {
                if let Some(v) = ch.recv() {
                    got.push(v.0);
                }
                thread::yield_now();
            }
            got
        })
    };
    let (r1, r2) = (recv(), recv());
    s.join().unwrap();
    let (g1, g2) = (r1.join().unwrap(), r2.join().unwrap());
    // each receiver sees the sender's values in order; together: no value twice
    check(&g1, &[(100, per)]);
    check(&g2, &[(100, per)]);
    let mut all = g1;
    all.extend(g2);
    while let Some(v) = ch.recv() {
        all.push(v.0);
    }
    let mut sorted = all.clone();
    sorted.sort_unstable();
    let n = sorted.len();
    sorted.dedup();
    assert_eq!(sorted.len(), n, "a value was received twice: {:?}", all);
    // values left behind are dropped with the channel
}

/// a channel dropped with values still queued lets go of each of them once
fn drop_queued() {
    {
        let ch = Channel::<V>::new();
        for i in 0..7 {
            ch.send(V::new(i)); // two of them find the channel full and are dropped by send
        }
        let _ = ch.recv();
    }
}

fn main() {
    let which = std::env::args().nth(1).unwrap_or_else(|| "all".into());
    let per: u64 = std::env::args().nth(2).and_then(|s| s.parse().ok()).unwrap_or(12);
    if which == "senders2" || which == "all" {
        senders2(per, 4);
        senders2(per, 0);
    }
    if which == "receivers2" || which == "all" {
        receivers2(per);
    }
    if which == "drop" || which == "all" {
        drop_queued();
    }
    let (made, drops) = (MADE.load(Ordering::SeqCst), DROPS.load(Ordering::SeqCst));
    assert_eq!(made, drops, "values made: {}, values dropped: {} (each value is dropped exactly once)", made, drops);
    println!("ok {} values", made);
}
