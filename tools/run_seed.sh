#!/bin/bash
# run_seed.sh <seed-id> <Cxx> [<Cxx> ...] — apply /verif/seeded/<seed-id>/patch.diff to /repo, run the
# named checks (quick tier), undo the patch straight afterwards. Appends to seeded/<seed-id>/detect.log.
SEED="$1"; shift
P=/verif/seeded/$SEED/patch.diff
cd /repo || exit 2
if ! git diff --quiet; then echo "/repo has uncommitted changes; refusing"; exit 2; fi
git apply "$P" 2>/dev/null || git apply --3way "$P" || { echo "patch does not apply"; exit 3; }
git reset -q 2>/dev/null
cd /verif
for c in "$@"; do
  echo "=== seed $SEED, check $c ($(date -u +%FT%TZ))" | tee -a /verif/seeded/$SEED/detect.log
  bin/check $c --tier quick 2>&1 | grep -E "violation:|no longer checks|VIOLATION|KNOWN|tier:" | cut -c1-400 | tee -a /verif/seeded/$SEED/detect.log
done
cd /repo && git checkout -- . && git clean -fdq -e target
git -C /repo status --short | head -3
# regenerate Gen/* and rebuild the harness for the unchanged tree (otherwise the next direct use of
# the harness binary would still run the seeded code)
cd /verif && python3 extract/extract.py >/dev/null
(cd /verif/harness && cargo build --offline -q >/dev/null 2>&1)
