#!/bin/bash
# allseeds.sh — run every kept seeded change against the check of the property it was written for (quick tier).
# One line per seed; a seed whose line has no VIOLATION was not reported by that check.
cd /verif
for s in $(ls seeded); do
  case $s in C12b) c=C12;; R*C??) c=C${s: -2};; *) c=$s;; esac
  out=$(tools/run_seed.sh $s $c 2>&1 | grep -E "VIOLATION|tier:" | cut -c1-200 | tr '\n' ' ')
  echo "$s -> $c : $out"
done
