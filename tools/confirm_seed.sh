#!/bin/bash
# confirm_seed.sh <Cxx> [srcdir]  — independently confirm a seeded change in a scratch worktree:
#   demo passes on the unchanged tree; patch applies; suite passes with it; demo fails with it.
# On success copies patch.diff, demo, run.sh, meta.json into /verif/seeded/<Cxx>/ (+ confirm.log).
ID="$1"; SRC="${2:-/tmp/wt/out/$ID}"
WT=/tmp/wt/confirm-$ID
LOG=/tmp/wt/confirm-$ID.log
exec > >(tee "$LOG") 2>&1
set -u
git -C /repo worktree remove --force "$WT" 2>/dev/null
git -C /repo worktree add --detach "$WT" HEAD -q || exit 2
export CARGO_NET_OFFLINE=true
cleanup() { git -C /repo worktree remove --force "$WT" 2>/dev/null; rm -rf "$WT"; }
echo "== 1. demo on the unchanged tree (expect PASS)"
( sh "$SRC/run.sh" "$WT" ) > /tmp/wt/confirm-$ID.a.log 2>&1; A=$?
tail -5 /tmp/wt/confirm-$ID.a.log; echo "exit=$A"
# remove any demo file the run script left in the tree
git -C "$WT" clean -fdq -e target; git -C "$WT" checkout -- . 
echo "== 2. apply patch"
if git -C "$WT" apply "$SRC/patch.diff"; then echo applied; else
  echo "plain apply failed, trying 3-way"; git -C "$WT" apply --3way "$SRC/patch.diff" || { echo "PATCH DOES NOT APPLY"; cleanup; exit 3; }; fi
git -C "$WT" diff --stat
echo "== 3. existing suite with the patch (expect all ok)"
( cd "$WT" && cargo test --workspace --no-fail-fast --offline 2>&1 | grep -E "^test result|FAILED|failed|error(\[|:)" | sort | uniq -c ) ; 
( cd "$WT" && cargo test --workspace --no-fail-fast --offline >/tmp/wt/confirm-$ID.s.log 2>&1 ); S=$?
echo "suite exit=$S"
echo "== 4. demo with the patch (expect FAIL)"
( sh "$SRC/run.sh" "$WT" ) > /tmp/wt/confirm-$ID.b.log 2>&1; B=$?
tail -8 /tmp/wt/confirm-$ID.b.log; echo "exit=$B"
cleanup
if [ $A -eq 0 ] && [ $S -eq 0 ] && [ $B -ne 0 ]; then
  echo "CONFIRMED $ID"
  mkdir -p /verif/seeded/$ID
  cp "$SRC/patch.diff" "$SRC/run.sh" "$SRC/meta.json" /verif/seeded/$ID/ 2>/dev/null
  for f in "$SRC"/*.rs "$SRC"/*.c "$SRC"/*.py; do [ -f "$f" ] && cp "$f" /verif/seeded/$ID/; done
  [ -d "$SRC/demo" ] && cp -r "$SRC/demo" /verif/seeded/$ID/ && rm -rf /verif/seeded/$ID/demo/target
  cp "$LOG" /verif/seeded/$ID/confirm.log
  exit 0
else
  echo "NOT CONFIRMED $ID (unpatched demo exit=$A, suite exit=$S, patched demo exit=$B)"
  exit 1
fi
