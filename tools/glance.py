#!/usr/bin/env python3
"""Prints the 'at a glance' table of DESIGN.md from the evidence files and the seeded directory."""
import json, os, glob, re
V = os.path.dirname(os.path.dirname(os.path.abspath(__file__)))
props = [json.loads(l) for l in open(os.path.join(V, "properties.jsonl"))]
seeds = {}
for d in sorted(os.listdir(os.path.join(V, "seeded"))):
    m = re.match(r"^(?:R\d+)?(C\d\d)b?$", d)
    if m:
        seeds.setdefault(m.group(1), []).append(d)
print("| id | title | obligations / property theorems | quick tier: cases, time | seeds written against it |")
print("|---|---|---|---|---|")
for p in props:
    pid = p["id"]
    e = json.load(open(os.path.join(V, "evidence", pid + ".json")))
    c = e["coverage"]
    print("| %s | %s | %d / %d | %d, %.0f s | %d |" % (pid, p["title"].split(":")[0][:60], c.get("obligations", 0), len(c.get("property_theorems", [])),
          c.get("evaluations", 0), e.get("wall_s", 0), len(seeds.get(pid, []))))
