#!/usr/bin/env python3
"""Regenerates MANIFEST.json from the table below (keeps it valid and consistent)."""
import json, os
HERE = os.path.dirname(os.path.abspath(__file__))

CLAIMED = {
 "C05": {
  "text": "Machine-checked proof (Lean 4) that the sequential registry model refines the simple per-signal ordered-multiset spec for every finite history, with unique increasing ids, frame property, exact unregister semantics and sticky disposition; tied to /repo by generated constants (FORBIDDEN, installed flags, initial id) and by differential execution of the model and the real crate (real signals) on generated histories.",
  "design_ref": "DESIGN.md section 6 C05",
  "note": "Trusted: Lean kernel; axioms propext/Classical.choice/Quot.sound only; extractor; correspondence harness; HashMap/BTreeMap/Arc modelled by their specs; Linux sigaction verdict table (Model/Env.lean) validated by the harness on this kernel; sequential executions only (concurrency is C01/C02).",
  "technique": "Lean 4 refinement proof (induction over histories) + model/implementation differential execution",
 },
}

CLAIMED["C16"] = {
  "text": "Machine-checked proof by complete case analysis (decide over the whole regenerated DETAILS table, lifted to all Int for unknown numbers) that the model of emulate_default_handler yields the kernel's default outcome for every known signal in both calling contexts, errors for unknown ones, and that names are the platform's; tied to /repo by regenerating the table from signal_details.rs each run and by exhaustive paired forked probes (native default vs real emulate_default_handler) for every number 1..64 and out-of-range numbers, in normal, in-handler and register_conditional_default contexts.",
  "design_ref": "DESIGN.md section 6 C16",
  "note": "Trusted: Lean kernel, axioms as audited, extractor (DETAILS table, platform numbers from system headers via gcc), forked probes; kernelDefault is an environment table (Linux signal(7)) validated against this kernel on each run; control flow of the Term path (restore default, unblock, raise, abort) is modelled by hand and tied by the probes in both contexts; glibc-internal 32/33 not probed.",
  "technique": "Lean 4 proof by exhaustive decision over the regenerated table + exhaustive forked differential probes",
}

CLAIMED["C17"] = {
  "text": "Machine-checked proof over all (si_signo, si_code) in Int x Int and all pid/uid byte contents that the model of Origin::extract (built from the regenerated consts[] table of extract.c, the ICause discriminants, has_process and From<ICause>) reports the intended cause class, reports a process exactly when the kernel supplies one and then exactly (si_pid, si_uid), takes the signal from si_signo, and that the C and Rust tables are in sync; tied to /repo by regeneration of all four tables each run, by comparing the real Origin::extract with the model on 23k+ synthetic siginfo values with poisoned union bytes, and by real deliveries (kill, raise, sigqueue, from a child, SIGCHLD exit/kill/stop, itimer, POSIX timer) through SignalsInfo<WithOrigin>.",
  "design_ref": "DESIGN.md section 6 C17",
  "note": "Trusted: Lean kernel, audited axioms, extractor, harness; kernelFills (which si_code carry si_pid/si_uid) is an environment table validated by the real deliveries; Linux x86_64 siginfo layout for the independent raw reader; macOS arm not modelled. The translator also reads has_process in its matches! form; a section it cannot read is regenerated from its last good reading for the search (and reported as no longer checking).",
  "technique": "Lean 4 proof by case analysis over the regenerated lookup tables (all integers) + differential table sweep + real-delivery probes",
}

CLAIMED["C01"] = {
  "text": "Machine-checked proof (Lean 4, invariant by induction over the step relation) on a step-per-shared-memory-operation model of HalfLock for ANY number of threads, ANY finite scripts of read sections and write/store calls and EVERY interleaving: a pinned snapshot is never released, every snapshot is released at most once, only by the writer that swapped it out, only after its barrier saw both reader slots idle, never by a reader (delivery); the published snapshot is never a released one. Tied to /repo by (a) the SeqCst side condition and the exact list of atomic call sites regenerated from half_lock.rs, and (b) lock-step differential execution: the real HalfLock runs under a deterministic scheduler behind cfg(sighook_verif) and every shim-visible operation (site, ordering, location, value) is compared with the model replaying the same schedule; the C01 trace monitor also runs on the implementation trace. At registry level (model L6, every reachable state): an action dropped when a snapshot is released is in no delivery's remaining list and in no live snapshot, deliveries never release anything, and a delivery executes a suffix of the list recorded for the live snapshot it pinned; checked against the real registry (scheduled register/unregister/deliveries) and against dropping the owning iterator instance.",
  "design_ref": "DESIGN.md sections 6 C01, 12",
  "note": "Trusted: Lean kernel + audited axioms; SC memory model for the half-lock (all its atomics are SeqCst, checked; DRF-SC trusted); shim reports every shared-memory operation of half_lock.rs; deliveries are simulated calls of the real dispatcher; counters modelled as Nat (MAX_GUARDS abort unreachable below isize::MAX threads). Registry level (actions, not just snapshots): theorems C01_registry_release_unreferenced / _delivery_never_releases / _runs_pinned hold for every reachable state of the concurrent registry model L6 (invariants Inv6, Inv7a), tied by the registry and owner-drop scenario stages.",
  "technique": "Lean 4 inductive invariant over an N-thread step machine + lock-step model/implementation correspondence under a deterministic scheduler",
}

CLAIMED["C18"] = {
  "text": "Machine-checked proofs on the N-thread half-lock step machine, for every reachable state of every interleaving: no deadlock (some thread is always enabled while any is unfinished), mutual exclusion of writers, readers (deliveries) are wait-free (every reader step is enabled regardless of other threads), quiescent completion (a writer anywhere inside write()/store() with both reader counters at zero returns alone within 8 own steps), and poisoning of the writer mutex never disables a step. Tied to /repo by lock-step differential execution of the real HalfLock under the deterministic scheduler (including destructors that panic under the writer mutex) against the model, with monitors for completion, the quiescent bound and non-wedging on the implementation trace.",
  "design_ref": "DESIGN.md section 6 C18",
  "note": "Trusted: as C01 (SC, shim completeness, scheduler). Termination is proved in the bounded-step / enabledness form above for finite workloads; with an infinite stream of overlapping deliveries a writer can spin by design and that liveness is not claimed. The iterator-level part (instance mutex of Signals: add_signal/Drop after a panic) is decided under C12. Registry level, every reachable L6 state: C18_registry_waits_only_for_data_mutex, C18_registry_no_deadlock, C18_registry_lock_order; tie theorem C18_lock_order_source. Props/C18b.lean (every reachable state): C18_seen_slot_not_reloaded, C18_seen_flags_sticky, C18_barrier_ends_when_both_seen - the barrier's per-slot flags are sticky, a slot seen empty is never loaded again and the barrier ends with the load that finds the second one empty, so a delivery that arrives after the writer saw its slot empty is never waited for; the same rule is a monitor on the real barrier's traces (scenarios with a stream of overlapping read sections). C18_registry_quiescent_completion (Lemmas/RegistryConcQuiet.lean): in every reachable L6 state a mutator anywhere inside its operation, with no delivery inside a read section of either half-lock and data's writer mutex free or its own, returns alone within its measure (at most 36) of own steps, its script untouched.",
  "technique": "Lean 4 invariants + bounded-progress lemmas over an N-thread step machine + lock-step correspondence under a deterministic scheduler",
}

_RC_NOTE = "Trusted: Lean kernel + audited axioms; SC for the half-locks (all SeqCst, checked; DRF-SC trusted); the shim reports every shared-memory operation and sigaction call of the registry; deliveries are simulated calls of the real dispatcher (the real disposition is checked first); HashMap/BTreeMap/Arc by their specifications; user actions / foreign handlers opaque and terminating."
CLAIMED["C02"] = {
  "text": "Lean 4 theorems on the concurrent registry model L6 (two embedded half-lock machines + snapshot contents + kernel table; any number of threads, every interleaving, every state): the dispatcher's plan is a function of the pinned data snapshot only (the slot's actions in map order, nothing of other signals), it is executed one action per step in order each exactly once with the chained handler first, the pinned snapshot is the one current at the delivery's data.load() (C01_read_gets_current), registrations append (execution order = registration order), removals keep the order of the rest, operations never touch other signals' slots and never remove slots. Tied to /repo by lock-step differential execution of the real registry (real register/unregister/unregister_signal + the real dispatcher via verif::deliver, incl. deliveries nested on mutator threads) against L6 on the same schedule, and by the C02 trace monitor (each delivery's run list = the action list of the registry state current at its load; spec advanced at each publication) evaluated on the implementation trace.",
  "design_ref": "DESIGN.md section 6 C02",
  "note": _RC_NOTE + " The real-time corollary (registered-before / removed-after) is checked by the trace monitor on every explored schedule and follows from the proved step lemmas + writer mutual exclusion (C18); Proved for every reachable L6 state: C02_publications_linearize (the current contents change only at a data.swap and then by exactly one sequential-specification step of the contents current at that swap), C02_delivery_pins_current, C02_runs_pinned_list, C02_contents_immutable; tie theorem C02_mutator_skeleton on the regenerated call order. The real-time clause is proved over runs of any length (Props/C02b.lean): C02_registered_stays (a published entry survives every run whose publications are registrations) and C02_removed_stays_removed (ids are never reused: an entry that is gone is in the current contents of no later state).",
  "technique": "Lean 4 step lemmas over the N-thread registry machine + lock-step model/implementation correspondence + linearizability monitor on implementation traces",
}
CLAIMED["C03"] = {
  "text": "Lean 4 theorems, for every state of the rest of the system (reachable or not, i.e. every point at which every other thread - or the interrupted thread - may be paused): a thread inside a half-lock read section performs only atomic load / fetch_add / fetch_sub, every such step is enabled regardless of all other threads and strictly decreases the number of own steps left (read section = exactly 4 + uses own steps), a release of a snapshot is never performed from a read section, and between pinning and unpinning the dispatcher only calls the chained handler and the actions and releases nothing. Tied to /repo by the registry step correspondence with deliveries forced at every scheduling point of concurrent mutators (incl. nested on the mutator's own thread), a per-step event-kind monitor on the implementation trace (no lock/alloc/free/spin/yield/syscall inside a delivery, step bound 8 + actions + chained handler) and a #[global_allocator] wrapper counting heap operations of library code inside deliveries.",
  "design_ref": "DESIGN.md section 6 C03",
  "note": _RC_NOTE + " Built-in actions (flag, pipe wake, exfiltrators, conditional shutdown) are covered at the step level where their code is shimmed (channel, exfiltrators: C06-C10) and otherwise by the heap/lock monitors; see DESIGN.md for what is partial. Proved for every reachable L6 state: C03_registry_delivery_step (always enabled, handler-safe event, nothing released) and C03_registry_delivery_bounded (exact own-step count: at most 6 to the pin, then chained handler + pinned actions + 2). Nested deliveries are started at a delayed global step so that they land anywhere inside their host's operation (e.g. between the installation of the dispatcher and the publication of the slot); the own-step bound is also applied to deliveries that have not returned when the schedule ends.",
  "technique": "Lean 4 wait-freedom / bounded-step lemmas + event-kind and heap monitors on scheduled executions of the real dispatcher",
}
CLAIMED["C04"] = {
  "text": "Lean 4 theorems on L6: calling conventions of Prev::execute (1-arg vs 3-arg, default/ignore not called), a pinned slot's prev has priority, in the first-registration window the handler stored in the pinned race_fallback snapshot is used and only if stored for this very signal, and a prev call only ever happens as the first step of a dispatch plan (once, before every action). Tied to /repo by the registry step correspondence with foreign C-ABI handlers pre-installed (1-arg and SA_SIGINFO, checking signal/info/context pointers), deliveries forced into every step of concurrent first registrations (same and other signals), and the C04 monitor (exactly one call, first, right convention and arguments) on the implementation trace.",
  "design_ref": "DESIGN.md section 6 C04",
  "note": _RC_NOTE + " Environment hypothesis: nobody outside the library changes the disposition after the library first read it. The handover invariant is proved for every reachable L6 state from any initial disposition table without the library's handler (Inv7b): C04_records_what_it_replaced, C04_recorded_from_first_instant, C04_record_never_changes, C04_delivery_chains_the_record; tie theorems C04_first_registration_order / C04_handler_order on the regenerated call order.",
  "technique": "Lean 4 dispatch lemmas + lock-step correspondence with forced deliveries in the first-registration window + chaining monitor",
}

_CH_NOTE = "Trusted: Lean kernel + audited axioms (decide +kernel over finite tables, no native_decide); the view-based memory model of Model/Channel.lean (per-location message histories, per-thread views, release sequences through RMWs, stale relaxed reads, spurious weak-CAS failures) as an over-approximation of Rust's model for this program; extractor (SLOTS/BITS/MASK, the six orderings); the scheduler drives the real Channel through SC interleavings + injected spurious failures (stale reads cannot be produced on x86); cell accesses are observed both at UnsafeCell::get and as actual memory changes per step."
CLAIMED["C06"] = {
  "text": "Lean 4 proofs by complete enumeration (decide +kernel, lifted by closure lemmas) over all 326 well-formed queue states that the packed u16 queues are exact List FIFOs: dequeue hands out the head and leaves the tail, enqueue appends at the tail and never panics with room, empty is reported iff empty, pack is injective and well-formed states are closed; model-level lemma for every state and every environment choice that a value is discarded only by a step that read an empty `empty` queue. Tied to /repo by the regenerated constants, the exhaustive get/set table (2^16 x 5 x 9 arguments, real functions vs model), lock-step execution of the real Channel under the scheduler (N threads, bursts beyond capacity, sends nested as a signal handler, spurious CAS failures) against the model, FIFO/uniqueness/outstanding-count monitors on the implementation trace, and an unscheduled stress search when the correspondence breaks.",
  "design_ref": "DESIGN.md section 6 C06",
  "note": _CH_NOTE + " The N-thread invariant of the view-based model (Lemmas/ChannelInv.lean: one holder per slot index, every value in both histories well-formed, cells of `full`'s indices occupied) is proved for every reachable state: C06_queues_wellformed, C06_fifo_transitions; the payload-level statement (values, per-producer order, five outstanding) is the monitor's. 40% of the scheduled scenarios use a channel built through Default (as the exfiltrators build theirs); sequential histories of 70 000 (thorough: 200 000) operations check overflow and reuse over a long life. Values, not just indexes (Props/C06b.lean over the payload invariant of Lemmas/ChannelPay.lean, every reachable state of the N-thread weak-memory model): C06_values_fifo, C06_values_are_sent, C06_recv_takes_its_own, C06_queued_values_intact.",
  "technique": "Lean 4 inductive invariant over the N-thread view-based channel machine + exhaustive kernel-checked tables; lock-step correspondence; exhaustive bit-function table",
}
CLAIMED["C07"] = {
  "text": "Lean 4: the ordering side condition (enqueue success releases, dequeue success acquires) is a theorem about the orderings regenerated from channel.rs, so any downgrade breaks a proof obligation; kernel-checked witnesses show the side condition is necessary (with either ordering relaxed the model reaches a data race on the simplest send/recv execution) and that the declared orderings are race-free on executions with forced stale reads and cell reuse. Tied to /repo by the lock-step channel correspondence, a vector-clock happens-before monitor computed from the orderings the code actually passes at run time, an ownership monitor on actual cell modifications (memory watched per step), and destructor-counting payloads (drop exactly once incl. channel drop).",
  "design_ref": "DESIGN.md section 6 C07",
  "note": _CH_NOTE + " C07_race_free / C07_race_free_declared: no step of any reachable state (N threads, any scripts, every interleaving, every stale read and spurious failure the view model allows) is a data race, for any orderings satisfying the side condition, which the declared ones do (regenerated); drop-exactly-once is monitored.",
  "technique": "Lean 4 race-freedom theorem (inductive invariant under a view-based release/acquire model) with the side condition on the regenerated orderings + kernel-checked necessity witnesses; vector-clock and ownership monitors on scheduled executions",
}
CLAIMED["C08"] = {
  "text": "Lean 4: in every state of the model (reachable or not — i.e. wherever every other thread, or the thread a handler interrupted, is paused) and under every environment choice a thread with work left has an enabled step (no operation of send/recv waits on another thread); enqueue finds room on every well-formed non-full queue (complete enumeration). Tied to /repo by the lock-step channel correspondence with sends nested at every step of a send/recv on the same thread, panic detection, per-operation own-step bound 7 + 2 x failed CAS on the implementation trace, and the unscheduled stress search with a real signal handler.",
  "design_ref": "DESIGN.md section 6 C08",
  "note": _CH_NOTE + " C08_never_panics: neither expect() is reachable from any reachable state (enqueue's relaxed loads can only return queue values that lack the owner's index; recv finds its payload), C08_progress_without_panic. A scenario in which an operation does not return within the step budget is reported with its schedule (the executor leaves the process instead of letting the stuck threads run on).",
  "technique": "Lean 4 no-panic theorem for all reachable states (inductive invariant) + enabledness lemma for all states; lock-step correspondence with nested sends; stress search",
}

_IT_NOTE = "Trusted: Lean kernel + audited axioms; SC for `closed` and the SignalOnly slots (SeqCst, checked from the regenerated orderings); the self-pipe as a byte counter with capacity (capacity measured each run); readiness callbacks by their contract (blocking = one-byte read enabled iff a byte is present; non-blocking false = armed notification); one consumer per instance (&mut self); deliveries are simulated calls of the real dispatcher running the instance's real action; mio/tokio/async-std reactors are outside the model."
CLAIMED["C09"] = {
  "text": "Machine-checked inductive invariant on the iterator model L8 (any number of delivery and close threads, one consumer of either front-end family, any pipe capacity > 0 and initial fill, every interleaving): a delivered signal whose wake-up has completed is either announced by a byte in the pipe, or the instance is closed, or the consumer is at a point from which it compare-exchanges that signal's slot before it can block or answer Pending. Corollaries: while open, a consumer blocked in its blocking read with an empty pipe, or at/after a non-blocking callback that found nothing, or parked as Pending with an exhausted iterator, has no delivered-and-woken signal unreported; a scan reaching a set slot yields it; store precedes wake. Tied to /repo by lock-step execution of the real SignalDelivery/SignalIterator (real dispatcher + real action, callbacks as scheduling points, optionally pre-filled pipe) against L8 and a lost-wake-up monitor on the implementation trace.",
  "design_ref": "DESIGN.md section 6 C09",
  "note": _IT_NOTE + " Liveness ('obtains the signal') is proved in the safety form above (never stranded) plus the scan lemma, not as a temporal statement. The front ends themselves (Signals::pending/wait/forever with its has_signals loop, signal-hook-mio under a real mio::Poll, the tokio and async-std streams with a flag waker) are driven by real raise() in forked children and compared with L8 run sequentially (driver mode frontends), bursts around the 16-byte and 1024-byte chunk sizes included. Queueing exfiltrators (WithRawSiginfo / WithOrigin): model L8q (Model/IterQ.lean: one SLOTS-deep FIFO per signal, two-step send and recv, a record dropped exactly when all indexes of its channel are queued or held) with the inductive invariant WakeQ and theorems C09_queue_never_stranded / C09_queue_parked_pending for every reachable state (Props/C09q.lean), run in lock-step with the real back end at the level of channel operation halves. Progress for forever() (Props/C09c.lean): C09_forever_obtains / C09_forever_obtains_reachable - the consumer running alone hands a delivered-and-woken signal out within fcost own steps.",
  "technique": "Lean 4 inductive invariant over an N-thread step machine + lock-step model/implementation correspondence",
}
CLAIMED["C10"] = {
  "text": "Machine-checked counting invariant on L8 for every reachable state of every interleaving and every consumer front-end, also after close: for each signal number, yields so far plus the possibly pending slot never exceed the slot stores (deliveries begun) so far; every yielded number is a watched one when only watched signals have the instance's action. Tied to /repo by the lock-step iterator correspondence and a per-signal counting / slot-index monitor on the implementation trace; for the info-carrying exfiltrators the per-signal record queue is the Channel of C06/C07 (faithful copy, at most one record per delivery, delivery order) exercised by the channel checks.",
  "design_ref": "DESIGN.md section 6 C10",
  "note": _IT_NOTE + " The WithRawSiginfo/WithOrigin paths are covered through the channel model and the C17 real-delivery probes, not by a dedicated L8 instance. Scenarios in which two or three batches (Pending) of one instance are drained concurrently by different threads are part of the lock-step runs. L8q (Props/C10q.lean), every reachable state with one consumer, any number of delivering threads and bursts of any length: C10_queue_records_in_order (per signal, the records handed out are an initial segment of the records queued, in queueing order), C10_queue_each_once, C10_queue_records_are_deliveries, C10_queue_capacity, C10_drop_only_when_full; the real back end with WithRawSiginfo runs in lock-step with L8q and every handed-out record is compared byte for byte (128 bytes) with what its delivery carried.",
  "technique": "Lean 4 inductive counting invariant + lock-step correspondence",
}
CLAIMED["C11"] = {
  "text": "Machine-checked on L8 for every reachable state of every interleaving: closed is sticky (no step resets it); with the current (fixed) shape of poll_signal a non-blocking poll returns Pending only if its readiness callback was consulted during that same call and last answered 'nothing available' (inductive invariant on the re-check program point); a kernel-checked 3-step witness shows the shape before the fix violates this, and the fixed shape answers Closed on the same schedule; the shape flag is regenerated from backend.rs each run. Tied to /repo by the lock-step iterator correspondence with close() threads racing every consumer step, callback-consultation logging, and monitors (sticky flag, store-before-wake in close, Pending implies consulted-false, no consumer left blocked after a completed close).",
  "design_ref": "DESIGN.md section 6 C11 and section 7.1",
  "note": _IT_NOTE + " The genuine defect found by this check on the original tree was repaired by fix: commit c911cc7 (known_findings.json, fixed). C11_close_unblocks (Props/C11b.lean, inductive CloseInv): in every reachable state, once close() has returned, the consumer's next step is enabled - it is never left in its blocking callback; the numeric step bound to Closed is monitored on every explored schedule. The adapters (signal-hook-tokio, signal-hook-async-std) are probed at operation level: a poll_next answering Pending followed by a delivery or close() must call the task's waker; compared with L8 run sequentially. C11_close_bounded (Props/C11c.lean): with the closed flag set, the consumer alone finishes the call it is in within cost <= pipe/1024 + MAX_SIGNUM + number of set slots + 6 own steps, for pending / wait / poll / forever and either shape of poll_signal.",
  "technique": "Lean 4 inductive invariant + kernel-checked defect witness + lock-step correspondence",
}

_EN_NOTE = "Trusted: Lean kernel + audited axioms; extractor (FORBIDDEN list, shape flags of backend.rs/raw.rs: poison-tolerant lock sites, idempotent init); the OS verdict table of Model/Env.lean (validated by these probes on this kernel); std::sync::Mutex poisoning and unwinding semantics (a panic in a destructor during unwinding aborts) modelled by hand; probes run in forked children and observe results, all 64 dispositions, Arc counts, descriptor validity and descriptor counts."
CLAIMED["C12"] = {
  "text": "Lean 4 theorems on the instance model L10 with the source's current shape (generated flags): for every registry state, every instance state (also a poisoned one), every number in Int and both exfiltrator kinds, a rejected add_signal leaves everything observable of the registry (C05's abstraction) and the instance's watched set and ids unchanged; re-adding a watched signal is a literal no-op; neither add_signal, drop nor a failing constructor can abort; drop never panics and removes exactly the instance's own ids from every signal's action list (nobody else's); kernel-checked witnesses that the two shapes before the fix: commits violate this (wedged instance + leaked registrations; retry panic). Tied to /repo by the regenerated shape flags, by random forked histories on the real Signals / SignalsInfo<WithRawSiginfo> (new / add on instance and handle clones / check by real raise / drop / usable) compared with the model and judged by the property monitor, and by scheduled scenarios in which handle clones add the same signals concurrently followed by a leak probe after dropping everything.",
  "design_ref": "DESIGN.md section 6 C12, section 7.2, 7.3",
  "note": _EN_NOTE + " Two genuine defects found by this check were repaired (fix: bd23c21, c523b70; known_findings.json). Concurrent add_signal is covered by the correspondence / leak probe, not by a theorem (the L10 model is sequential). Histories in which the instance is dropped before its handles, a surviving handle keeps adding signals, and the handles go last are part of the differential runs.",
  "technique": "Lean 4 theorems over a sequential instance model with generated shape flags + forked differential histories + scheduled concurrent-add leak probe",
}
CLAIMED["C14"] = {
  "text": "Lean 4 theorems for every registry state, every entry point, every number in Int and every environment: a checked entry point given a forbidden signal panics with the state literally unchanged and nothing retained; any entry point given a number the OS rejects returns an error with the state unchanged (for set-only rejections only the inert fallback differs, observationally unchanged); unchecked entry points register whatever the OS accepts; the iterator front-ends refuse forbidden / negative / too large / OS-rejected numbers leaving registry and watched set as before; the forbidden list regenerated from the source is exactly KILL, STOP, ILL, FPE, SEGV; witness that before the fix a constructor given a forbidden signal after a valid one aborted. Tied to /repo by an exhaustive forked table: 11 plain entry points + 4 iterator entry points x every number -2..130 and extremes x contexts (fresh, after other registrations, after an unchecked registration of the same forbidden signal), compared with the model and judged by the property monitor (result kind, all 64 dispositions, Arc counts / descriptor validity, follow-up usability, no abort).",
  "design_ref": "DESIGN.md section 6 C14",
  "note": _EN_NOTE + " The genuine defect (process abort in the iterator constructors) was repaired by fix: bd23c21. The monitor demands of every refusal, whatever its reason, that no disposition changed and what was handed in was released.",
  "technique": "Lean 4 theorems over all states/numbers + exhaustive forked entry-point table",
}

CLAIMED["C15"] = {
  "text": "Lean 4 theorems on the flag-action model L7 for every action list (registration order), every flag content and every arm/disarm history: if a delivery returns, a flag registered with flag::register holds true and one registered with register_usize holds its value, whatever the application wrote before; a delivery terminates the process iff some conditional shutdown's condition is true at the moment it is reached, then with exactly that status mod 256, without exit hooks, with no later action run; the documented 'shutdown first, arming flag second' pattern survives a delivery with the flag false (leaving it true) and dies on one with the flag true, the other order dies at once, disarming in between saves the process. Tied to /repo by random forked histories on the real flag::* functions with real raise()s, application writes, statuses incl. >255 and negative, an atexit marker, compared with the model and judged by the property monitor.",
  "design_ref": "DESIGN.md section 6 C15",
  "note": "Trusted: Lean kernel + audited axioms; actions run in registration order (C02/C05); waitpid status and atexit marker observed from a forked child; the caller-owned flags are std atomics (their SeqCst orderings are checked statically from the regenerated table, a weaker ordering that does not change SC behaviour is not flagged); register_conditional_default is covered by C16.",
  "technique": "Lean 4 theorems by induction over action lists + forked differential histories",
}

CLAIMED["C13"] = {
  "text": "Lean 4 theorems on the descriptor model L9 for every descriptor kind (pipe, stream socket, datagram socket), every initial O_NONBLOCK state, every capacity and fill level and every burst length: after register_raw's classification no wake-up can block (either MSG_DONTWAIT is used or O_NONBLOCK was set); a burst of n deliveries makes exactly n one-byte attempts; after a drain and n deliveries the reader finds at most n bytes and at least one if n > 0; a failed attempt implies a byte is already there; classification touches nothing but O_NONBLOCK on the write path. Tied to /repo by an exhaustive forked table (kind x blocking x empty/full x owned/raw x burst lengths, plus rejected registrations) with every system call on the descriptor logged through the shim, a would-block detector, real raise() bursts, bytes read back, close count and no-write-after-close, compared with the model and judged by the property monitor.",
  "design_ref": "DESIGN.md section 6 C13",
  "note": "Trusted: Lean kernel + audited axioms; the kernel behaviour table of Model/Pipe.lean (zero-length send per kind and fill, EAGAIN vs blocking), validated by these probes on this kernel; 'promptly' = never a call that can block (model) + a wall-clock flag in the probe; ownership / release-once of the action is C01 + C14, here observed as exactly one close() and no write after it.",
  "technique": "Lean 4 theorems over all descriptor states + exhaustive forked syscall-trace table",
}

NOT_YET = {}
ALL = ["C%02d" % i for i in range(1, 19)]


# what later rounds added on top of the texts above (DESIGN.md sections 12 and 15 have the details)
LATER = {
 "C03": " Later rounds: the channel `send` an origin-carrying delivery runs is part of the check (scheduled channel scenarios, no-panic / own-step-bound monitors on send; C08_never_panics, C08_op_bounded audited here too); scheduled scenarios on the info-carrying exfiltrator with deliveries racing add_signal of their own signal, heap monitor on every delivery; deterministic sweep of a delivery over every step of a first registration.",
 "C04": " Later rounds: predecessors SIG_IGN / SIG_DFL installed with SA_SIGINFO and other flags; tie C04_chained_call_shape (Prev::execute excludes the special dispositions in one guard before it looks at any flag); a scenario whose process is killed by a signal is reported with that scenario as the failing input.",
 "C05": " Later rounds: C05_container_shape (ActionId = u128 with derived Ord, BTreeMap of actions, HashMap of signals, regenerated); special dispositions with arbitrary sa_flags in the histories.",
 "C06": " Later rounds: values, not only indexes (Props/C06b.lean over history variables: C06_values_fifo, C06_values_are_sent, C06_queued_values_intact, C06_recv_takes_its_own); the unshimmed channel under Miri (weak-memory emulation, data-race detector) in the thorough tier.",
 "C07": " Later rounds: C07_race_free for every reachable state of the N-thread view model (Lemmas/ChannelInv.lean); accounting of values (Props/C07b.lean: C07_values_conserved, C07_no_value_twice, C07_quiescent_accounting, C07_overflow_drop_is_unwritten); the unshimmed channel under Miri (C11 interpreter with weak-memory emulation and a data-race detector working from the declared orderings) in both tiers; the theorem that pinned the exact orderings was removed (a stronger ordering keeps every theorem).",
 "C08": " Later rounds: C08_never_panics for every reachable state; Props/C08b.lean: C08_op_bounded (a busy thread alone completes its call within ccost <= 7 own steps plus one per spurious failure, hypothesis casFresh), C08_op_bounded_concurrent (any interleaving: own steps so far < ccost + own spurious failures + compare-exchanges won by others); Miri stage in the thorough tier.",
 "C09": " Later rounds: progress for all three front ends, both exfiltrator models, consumer running alone: C09_forever_obtains, C09_batch_obtains, C09_poll_obtains and their queueing counterparts, each with a _reachable corollary from the inductive invariant; front-end probes of Signals / mio / tokio / async-std incl. a signal during start-up.",
 "C11": " Later rounds: C11_close_unblocks, C11_close_bounded; deterministic sweep of close() over a poll_signal call that loops twice; adapter probes (waker must be called).",
 "C13": " Later rounds: second registration on a dup of the descriptor (C13_shared_description_never_blocks, lock-step); close() answered with EINTR after releasing the descriptor (still closed once).",
 "C16": " Later rounds: contexts `pending` (another signal blocked and pending), `group` (a bystander in the same process group, whose fate is part of the outcome), `worker` (emulation on a second thread while the main thread idles unblocked); tie C16_emulation_skeleton.",
 "C17": " Later rounds: C17_table_fields_fit (the integer types of struct Const's fields are regenerated; every row's constants fit).",
 "C18": " Later rounds: L6 theorems for the whole registry (no deadlock, lock order, quiescent completion within 36 own steps); Props/C18b.lean, C18c.lean: sticky flags, C18_switched_away_slot_only_drains, and the witness C18_first_look_can_find_both_slots_busy (the barrier can wait for a delivery that began after the switch: recorded as an observation in DESIGN.md section 13, not a finding under the finitely-many-deliveries reading).",
}
for _k, _v in LATER.items():
    if _k in CLAIMED:
        CLAIMED[_k]["note"] = CLAIMED[_k]["note"] + _v


def main():
    checks = []
    for pid in ALL:
        if pid not in CLAIMED:
            continue
        c = CLAIMED[pid]
        checks.append({
            "property_id": pid,
            "quick_cmd": "bin/check %s --tier quick" % pid,
            "thorough_cmd": "bin/check %s --tier thorough" % pid,
            "evidence_file": "/verif/evidence/%s.json" % pid,
            "replay_cmd_template": "bin/check %s --replay {path}" % pid,
            "engine": "lean4+harness",
            "level_claimed": {"category": "proof", "text": c["text"], "design_ref": c["design_ref"]},
            "level_note": c["note"],
            "technique": c["technique"],
        })
    na = [{"property_id": pid, "reason": NOT_YET.get(pid, "check not built yet in this round; planned as in DESIGN.md section 6/10 (no claim is made until a theorem and a correspondence run exist)")}
          for pid in ALL if pid not in CLAIMED]
    m = {
        "version": 1,
        "setup_cmd": "cd /verif && python3 extract/extract.py && (cd lean && lake build SigHook driver) && (cd harness && cargo build --offline)",
        "hooks": {
            "guard": "sighook_verif",
            "enable": "RUSTFLAGS=--cfg sighook_verif (set in /verif/harness/.cargo/config.toml); the harness crate path-depends on /repo",
            "baseline_off_cmd": "cd /repo && cargo test --workspace --no-fail-fast --offline",
            "source_commits": json.load(open(os.path.join(HERE, "hooks_commits.json"))) if os.path.exists(os.path.join(HERE, "hooks_commits.json")) else [],
            "add_only": True,
        },
        "engines": [
            {"name": "lean4+harness", "path": "/verif/lean, /verif/harness, /verif/verifkit, /verif/extract",
             "serves_properties": [c["property_id"] for c in checks],
             "kind_free_text": "Lean 4 models + theorems (lake project SigHook), regenerated tables (extract.py), Rust correspondence harness running the real crate, python orchestration (bin/check)"},
        ],
        "checks": checks,
        "not_applicable": na,
        "notes": "Every check: regenerate Gen/*.lean from /repo, lake build the property's theorems, audit axioms, build the harness against /repo's working tree, run the correspondence, write evidence. See DESIGN.md.",
    }
    json.dump(m, open(os.path.join(HERE, "MANIFEST.json"), "w"), indent=1)
    print("MANIFEST.json: %d checks, %d not_applicable" % (len(checks), len(na)))


if __name__ == "__main__":
    main()
