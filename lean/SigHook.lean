-- Root of the `SigHook` library: every model, lemma and property module.
import SigHook.Model.Ord
import SigHook.Model.Env
import SigHook.Model.RegistrySeq
import SigHook.Lemmas.RegistrySeq
import SigHook.Gen.Platform
import SigHook.Gen.Consts
import SigHook.Gen.Details
import SigHook.Gen.Cause
import SigHook.Gen.Orderings
import SigHook.Props.C05
import SigHook.Model.Default
import SigHook.Props.C16
import SigHook.Model.Origin
import SigHook.Props.C17
import SigHook.Model.HalfLock
import SigHook.Lemmas.HalfLock
import SigHook.Props.C01
