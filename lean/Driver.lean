import SigHook.Model.RegistrySeq
import SigHook.Model.Default
import SigHook.Model.Origin
import SigHook.Model.HalfLock
import SigHook.Model.RegistryConc
import SigHook.Model.Channel
import SigHook.Model.ChannelGen
import SigHook.Model.Iterator
import SigHook.Model.IterQ
import SigHook.Model.Entry
import SigHook.Model.Builtin
import SigHook.Model.Pipe
import SigHook.Gen.Orderings
import SigHook.Gen.Consts
import SigHook.Model.Env
/-!
Line-protocol driver: replays operation files on the executable models and prints one
canonical observation line per operation. `driver <model>` reads stdin until EOF.
-/
open SigHook

def parseInt? (s : String) : Option Int := s.toInt?

def fmtDisp : Registry.Disp → String
  | .dfl => "dfl" | .ign => "ign" | .h1 f => s!"h1:{f}" | .h3 f => s!"h3:{f}"
  | .lib fl => s!"lib:{fl}"

def parseDisp (s : String) : Option Registry.Disp :=
  -- an optional `+<hex flags>` suffix (extra sa_flags of the foreign handler) does not matter to the model
  -- likewise a `~<signal>` suffix (a signal in the foreign handler's sa_mask)
  match ((((s.splitOn "~").headD "").splitOn "+").headD "").splitOn ":" with
  | ["dfl"] => some .dfl
  | ["ign"] => some .ign
  | ["h1", f] => f.toNat?.map .h1
  | ["h3", f] => f.toNat?.map .h3
  | _ => none

def fmtTags (l : List Nat) : String := "[" ++ ",".intercalate (l.map toString) ++ "]"

def fmtOut : Registry.Out → String
  | .id sig i => s!"id {sig} {i}"
  | .err => "err"
  | .panic => "panic"
  | .bug => "bug"
  | .bool b => s!"bool {b}"
  | .ran p tags => s!"ran {(p.map fmtDisp).getD "-"} {fmtTags tags}"
  | .notOurs d => s!"notours {fmtDisp d}"

structure RegDrv where
  st : Registry.State := Registry.State.init
  ids : Array (Int × Nat) := #[]

def regEnv : Registry.Env :=
  { rejectsQuery := Gen.osRejectsQuery, rejectsSet := Gen.osRejectsSet,
    forbidden := Gen.forbidden, libFlags := Gen.libFlags }

def regApply (d : RegDrv) (op : Registry.Op) (sig : Int) : RegDrv × String :=
  let r := Registry.step regEnv d.st op
  let ids := match r.2 with
    | .id s i => d.ids.push (s, i)
    | _ => d.ids
  ({ st := r.1, ids := ids }, s!"{fmtOut r.2} | disp={fmtDisp (Registry.dispOf r.1 sig)}")

def regStep (d : RegDrv) (line : String) : RegDrv × String :=
  match line.trimAscii.toString.splitOn " " with
  | ["reg", s, t] => match parseInt? s, t.toNat? with
    | some sig, some tag => regApply d (.register sig tag) sig
    | _, _ => (d, "bad-op")
  | ["regsa", s, t] => match parseInt? s, t.toNat? with
    | some sig, some tag => regApply d (.register sig tag) sig
    | _, _ => (d, "bad-op")
  | ["regu", s, t] => match parseInt? s, t.toNat? with
    | some sig, some tag => regApply d (.registerUnchecked sig tag) sig
    | _, _ => (d, "bad-op")
  | ["regusa", s, t] => match parseInt? s, t.toNat? with
    | some sig, some tag => regApply d (.registerUnchecked sig tag) sig
    | _, _ => (d, "bad-op")
  | ["unreg", k] => match k.toNat? with
    | some k => match d.ids[k]? with
      | some (sig, id) => regApply d (.unregister sig id) sig
      | none => (d, "bad-op")
    | none => (d, "bad-op")
  | ["unregsig", s] => match parseInt? s with
    | some sig => regApply d (.unregisterSignal sig) sig
    | none => (d, "bad-op")
  | ["raise", s] => match parseInt? s with
    | some sig => regApply d (.deliver sig) sig
    | none => (d, "bad-op")
  | ["foreign", s, k] => match parseInt? s, parseDisp k with
    | some sig, some disp => regApply d (.foreign sig disp) sig
    | _, _ => (d, "bad-op")
  | ["reset"] => ({}, "reset")
  | _ => (d, "bad-op")

def fmtOutcome : Default.Outcome → String
  | .continues => "continues" | .stopped => "stopped" | .killedBy n => s!"killedBy:{n}" | .err => "err"

def defaultsStep (_ : Unit) (line : String) : Unit × String :=
  match line.trimAscii.toString.splitOn " " with
  | ["emu", n, ctx] =>
    -- "pending" = another signal is blocked and pending meanwhile: it does not matter to the outcome
    match parseInt? n, (match ctx with | "normal" => some Default.Ctx.normal | "pending" => some Default.Ctx.normal
                                       | "group" => some Default.Ctx.normal   -- with a bystander in the same process group: no matter
                                       | "worker" => some Default.Ctx.normal  -- on a second thread, the main thread idling: no matter
                                       | "blocked" => some .inHandler  -- the signal blocked, its disposition already the default one
                                       | "oneshot" => some .inHandler  -- inside a one-shot (SA_RESETHAND) handler of the signal
                                       | "ignored" => some Default.Ctx.normal  -- the signal is being ignored: the default action all the same
                                       | "handler" => some .inHandler
                                       | "cond" => some .inHandler | _ => none) with
    | some n, some c =>
      -- `register_conditional_default` refuses signals without a name before registering
      let e := if ctx == "cond" && !(Default.known Gen.details n) then Default.Outcome.err
               else Default.emulate Gen.details n c
      ((), s!"kernel={fmtOutcome (Default.kernelDefault n)} emul={fmtOutcome e}")
    | _, _ => ((), "bad-op")
  | ["name", n] => match parseInt? n with
    | some n => ((), s!"name {(Default.findName Gen.details n).getD "-"}")
    | none => ((), "bad-op")
  | _ => ((), "bad-op")

def fmtCause : Gen.Cause → String
  | .unknown => "unknown" | .kernel => "kernel" | .sentUser => "sentUser" | .sentTKill => "sentTKill"
  | .sentQueue => "sentQueue" | .sentMesgQ => "sentMesgQ" | .chldExited => "chldExited"
  | .chldKilled => "chldKilled" | .chldDumped => "chldDumped" | .chldTrapped => "chldTrapped"
  | .chldStopped => "chldStopped" | .chldContinued => "chldContinued"

def originStep (_ : Unit) (line : String) : Unit × String :=
  match line.trimAscii.toString.splitOn " " with
  | ["ex", s, c, p, u] =>
    match parseInt? s, parseInt? c, parseInt? p, parseInt? u with
    | some s, some c, some p, some u =>
      let f := fun (o : Origin.Origin) =>
        let pr := match o.process with | some (a, b) => s!"{a}:{b}" | none => "none"
        s!"sig={o.signal} cause={fmtCause o.cause} proc={pr}"
      ((), s!"{f (Origin.extract ⟨s, c, p, u⟩)} | spec {f (Origin.specOrigin ⟨s, c, p, u⟩)}")
    | _, _, _, _ => ((), "bad-op")
  | _ => ((), "bad-op")

/-! ### half-lock step machine -/

def ordOf (file fn : String) (ordinal : Nat) : String :=
  match Gen.orderings.find? (fun r => r.1 == file && r.2.1 == fn && r.2.2.1 == ordinal) with
  | some r => "/".intercalate (r.2.2.2.2.map Ord.toString)
  | none => "?"

def hlFile := "signal-hook-registry/src/half_lock.rs"

def hlSite (fn : String) (k : Nat) : String := s!" @{fn}#{k}:{ordOf hlFile fn k}"

/-- site label of the operation a thread at `pc` performs next -/
def hlSiteOf (pc : HalfLock.Pc) (nextIsRead : Bool) : String :=
  match pc with
  | .idle => if nextIsRead then hlSite "read" 1 else ""
  | .rInc .. => hlSite "read" 2
  | .rData .. => hlSite "read" 3
  | .rUse _ _ 0 => hlSite "drop" 1
  | .rUse .. => ""
  | .wLoad .. => hlSite "write" 1
  | .wSwap .. => hlSite "store" 1
  | .wSeen0 .. | .wSeen1 .. | .wLoop0 .. | .wLoop1 .. => hlSite "update_seen" 1
  | .wFlip .. => hlSite "write_barrier" 1
  | _ => ""

def fmtHlObs (pfx : String) : HalfLock.Obs → String
  | .load loc v => s!"load {pfx}{loc} = {v}"
  | .fetchAdd loc v => s!"fetch_add {pfx}{loc} = {v}"
  | .fetchSub loc v => s!"fetch_sub {pfx}{loc} = {v}"
  | .swap loc n o => s!"swap {pfx}{loc} {n} = {o}"
  | .mutexLock p => s!"mutex_lock {pfx}mutex" ++ (if p then " poisoned" else "")
  | .mutexUnlock p => s!"mutex_unlock {pfx}mutex" ++ (if p then " panicking" else "")
  | .alloc i => s!"alloc {i}"
  | .free i => s!"free {i}"
  | .spin => "spin"
  | .yield => "yield"
  | .use i => s!"use {i}"

structure HlDrv where
  scripts : Array (List HalfLock.Cmd) := #[]
  out : Array String := #[]

def hlAddCmd (d : HlDrv) (t : Nat) (c : HalfLock.Cmd) : HlDrv :=
  let scripts := if d.scripts.size ≤ t then d.scripts ++ Array.replicate (t + 1 - d.scripts.size) [] else d.scripts
  { d with scripts := scripts.modify t (· ++ [c]) }

def hlRun (d : HlDrv) (sched : List Nat) : List String := Id.run do
  let mut s := HalfLock.Sys.init d.scripts.toList
  let mut lines : Array String := #[]
  for t in sched do
    let site := match s.threads[t]? with
      | some th => hlSiteOf th.pc (match th.script with | .read _ :: _ => true | _ => false)
      | none => ""
    match HalfLock.step Gen.YIELD_EVERY s t with
    | none =>
      lines := lines.push s!"t{t} NOT-ENABLED"
      break
    | some (s', o) =>
      lines := lines.push s!"t{t} {fmtHlObs "" o}{site}"
      s := s'
  let done := s.threads.all (fun th => th.pc == .idle && th.script.isEmpty)
  lines := lines.push (if done then "END done" else "END unfinished")
  return lines.toList

def hlStep (d : HlDrv) (line : String) : HlDrv × String :=
  match line.trimAscii.toString.splitOn " " with
  | [t, "read", n] => match (t.drop 1).toString.toNat?, n.toNat? with
    | some t, some n => (hlAddCmd d t (.read n), "")
    | _, _ => (d, "bad-op")
  | [t, "write", b] => match (t.drop 1).toString.toNat? with
    | some t => (hlAddCmd d t (.write (b != "0") (b == "2")), "")
    | none => (d, "bad-op")
  | "schedule" :: rest =>
    let sched := rest.filterMap (·.toNat?)
    (d, "\n".intercalate (hlRun d sched))
  | ["seed", _] | ["maxsteps", _] => (d, "")
  | ["---"] => ({}, "---")
  | _ => (d, "bad-op")

/-! ### concurrent registry (L6) -/

inductive SymOp where
  | reg (checked : Bool) (sig : Int) (tag : Nat)
  | unregTag (tag : Nat)
  | unregSig (sig : Int)
  | deliver (sig : Int)

structure RcDrv where
  setup : Array String := #[]
  scripts : Array (List (String × SymOp)) := #[]   -- per thread: (text, op), consumed as they start
  nested : List Nat := []                           -- threads that are deliveries nested on another thread
  lines : Array String := #[]

def parseSym (w : List String) : Option SymOp :=
  match w with
  | ["reg", s, t] => match parseInt? s, t.toNat? with | some s, some t => some (.reg true s t) | _, _ => none
  | ["regu", s, t] => match parseInt? s, t.toNat? with | some s, some t => some (.reg false s t) | _, _ => none
  | ["unreg", t] => ((t.drop 1).toString.toNat?).map .unregTag
  | ["unregsig", s] => (parseInt? s).map .unregSig
  | ["deliver", s] => (parseInt? s).map .deliver
  | _ => none

def fmtRet : RegConc.Ret → String
  | .id s i => s!"ret id {s} {i}" | .err => "ret err" | .panic => "ret panic" | .bug => "ret bug"
  | .bool b => s!"ret bool {b}" | .delivered => "ret delivered" | .notOurs d => s!"ret notours {fmtDisp d}"

def rcSite (pfx : String) (o : HalfLock.Obs) (pc : HalfLock.Pc) (nextIsRead : Bool) : String :=
  fmtHlObs pfx o ++ hlSiteOf pc nextIsRead

/-- resolve a symbolic op against the ids handed out so far -/
def resolveSym (ids : List (Nat × Int × Nat)) : SymOp → Option RegConc.Op
  | .reg c s t => some (.register c s t)
  | .unregTag tag => match ids.find? (fun e => e.1 == tag) with
    | some (_, sig, id) => some (.unregister sig id)
    | none => none
  | .unregSig s => some (.unregisterSignal s)
  | .deliver s => some (.deliver s)

def rcRun (d : RcDrv) (sched : List Nat) : List String := Id.run do
  let n := d.scripts.size
  -- thread n is the setup thread
  let mut disp : List (Int × Registry.Disp) := []
  let mut setupOps : List (String × SymOp) := []
  for l in d.setup do
    match l.splitOn " " with
    | ["foreign", s, k] => match parseInt? s, parseDisp k with
      | some sig, some dd => disp := Registry.update sig dd disp
      | _, _ => pure ()
    | w => match parseSym w with
      | some op => setupOps := setupOps ++ [(l, op)]
      | none => pure ()
  let mut s := RegConc.Sys.init disp ((List.replicate (n + 1) []))
  let mut ids : List (Nat × Int × Nat) := []
  let mut scripts := d.scripts.push setupOps
  let mut lines : Array String := #[]
  -- the schedule: setup thread runs alone first, silently
  let mut fuel := 100000
  let mut schedule := sched
  let mut inSetup := true
  let mut curTag : Array Nat := Array.replicate (n + 1) 0
  while fuel > 0 do
    fuel := fuel - 1
    let mut t := n
    if !inSetup then
      match schedule with
      | [] => break
      | t' :: rest =>
        schedule := rest
        t := t'
    -- feed the next symbolic op if the thread is idle with nothing to do
    let th := s.threads[t]?.getD { script := [], pc := .idle }
    let isIdle := match th.pc with | .idle => th.script.isEmpty | _ => false
    let mut callText := ""
    if isIdle then
      match scripts[t]?.getD [] with
      | [] =>
        if inSetup then
          inSetup := false
          continue
        else
          lines := lines.push s!"t{t} NOT-ENABLED"
          break
      | (text, sop) :: rest =>
        scripts := scripts.set! t rest
        callText := text
        match sop with
        | .reg _ _ tag => curTag := curTag.set! t tag
        | _ => pure ()
        match resolveSym ids sop with
        | some op => s := RegConc.setT s t { th with script := [op] }
        | none =>
          -- an id that was never handed out: the call is a no-op returning false
          if !inSetup then
            lines := lines.push s!"t{t} call {text}"
            lines := lines.push s!"t{t} ret bool false"
          continue
    let hdPc := RegConc.hlPc s.hd t
    let hfPc := RegConc.hlPc s.hf t
    match RegConc.step regEnv Gen.YIELD_EVERY s t with
    | none =>
      lines := lines.push s!"t{t} NOT-ENABLED"
      break
    | some (s', out) =>
      let inDeliv := match th.pc with
        | .dFb _ | .dData _ | .dPlan .. | .dRelF _ => "H "
        | _ => ""
      let evText := match out.ev with
        | .call _ => s!"call {callText}"
        | .hd o => rcSite "data." o hdPc (match th.pc with | .dData _ => true | _ => false)
        | .hf o => rcSite "fallback." o hfPc (match th.pc with | .dFb _ => true | _ => false)
        | .sigaction sig set ok => s!"sys sigaction {sig} {if set then 1 else 0} = {if ok then "0" else "-1"}"
        | .prev dd => s!"prev {fmtDisp dd}"
        | .run tag => s!"run {tag}"
      if !inSetup then
        lines := lines.push s!"t{t} {inDeliv}{evText}"
        if !out.dropped.isEmpty then lines := lines.push s!"t{t} drop-action {fmtTags out.dropped}"
      match out.ret with
      | some r =>
        if !inSetup then lines := lines.push s!"t{t} {fmtRet r}"
        match r with
        | .id sig i =>
          -- remember which tag got this id (the registration op that just returned)
          ids := ids ++ [(curTag[t]?.getD 0, sig, i)]
        | _ => pure ()
      | none => pure ()
      s := s'
  let done := (List.range n).all (fun t =>
    match s.threads[t]? with
    | some th =>
      -- a nested delivery whose host finished before it was ever started simply never happens
      ((match th.pc with | .idle => th.script.isEmpty | _ => false) && (scripts[t]?.getD []).isEmpty) ||
        (d.nested.contains t && (scripts[t]?.getD []).length == (d.scripts[t]?.getD []).length)
    | none => true)
  lines := lines.push (if done then "END done" else "END unfinished")
  return lines.toList

def rcStep (d : RcDrv) (line : String) : RcDrv × String :=
  let w := line.trimAscii.toString.splitOn " "
  match w with
  | "setup" :: rest => ({ d with setup := d.setup.push (" ".intercalate rest) }, "")
  | "schedule" :: rest => (d, "\n".intercalate (rcRun d (rest.filterMap (·.toNat?))))
  | ["seed", _] | ["maxsteps", _] | ["delay", _, _] | ["holdat", _, _, _] => (d, "")
  | ["---"] => ({}, "---")
  | t :: "nested" :: _ :: rest =>
    match (t.drop 1).toString.toNat?, parseSym rest with
    | some t, some op =>
      let scripts := if d.scripts.size ≤ t then d.scripts ++ Array.replicate (t + 1 - d.scripts.size) [] else d.scripts
      ({ d with scripts := scripts.modify t (· ++ [(" ".intercalate rest, op)]), nested := t :: d.nested }, "")
    | _, _ => (d, "bad-op")
  | t :: rest =>
    match (t.drop 1).toString.toNat?, parseSym rest with
    | some t, some op =>
      let scripts := if d.scripts.size ≤ t then d.scripts ++ Array.replicate (t + 1 - d.scripts.size) [] else d.scripts
      ({ d with scripts := scripts.modify t (· ++ [(" ".intercalate rest, op)]) }, "")
    | _, _ => (d, "bad-op")
  | _ => (d, "bad-op")

/-! ### channel (L2) -/

open Channel (genOrders chFile) in
def locName : Channel.Loc → String | .empty => "empty" | .full => "full"

def fmtChObs (isEnq : Bool) : Channel.Obs → String
  | .load q v => s!"load {locName q} = {v.toNat} @{if isEnq then "enqueue" else "dequeue"}#1:{ordOf Channel.chFile (if isEnq then "enqueue" else "dequeue") 1}"
  | .cas q e n ok seen =>
    let fn := if isEnq then "enqueue" else "dequeue"
    s!"cas_weak {locName q} {e.toNat}->{n.toNat} = {if ok then "ok" else "fail"} {seen.toNat} @{fn}#2:{ordOf Channel.chFile fn 2}"
  | .cellWrite i => s!"cell cell{i}"
  | .cellTake i => s!"cell cell{i}"

structure ChDrv where
  scripts : Array (List Channel.Cmd) := #[]
  nested : List Nat := []

def chAdd (d : ChDrv) (t : Nat) (c : Channel.Cmd) : ChDrv :=
  let scripts := if d.scripts.size ≤ t then d.scripts ++ Array.replicate (t + 1 - d.scripts.size) [] else d.scripts
  { d with scripts := scripts.modify t (· ++ [c]) }

def parseEntry (e : String) : Option (Nat × Channel.Choice) :=
  -- "<tid>", "<tid>s" (spurious failure), "<tid>r<k>" (read message k)
  let digits := e.toList.takeWhile Char.isDigit
  let rest := e.toList.dropWhile Char.isDigit
  match (String.ofList digits).toNat? with
  | none => none
  | some t =>
    match rest with
    | [] => some (t, {})
    | ['s'] => some (t, { spurious := true })
    | 'r' :: ks => (String.ofList ks).toNat?.map (fun k => (t, { read := some k }))
    | _ => none

def chRun (d : ChDrv) (sched : List String) : List String := Id.run do
  let mut s := Channel.Sys.init d.scripts.toList
  let mut lines : Array String := #[]
  for e in sched do
    match parseEntry e with
    | none => lines := lines.push s!"bad-schedule-entry {e}"
    | some (t, c) =>
      let th := s.threads[t]?.getD { script := [], pc := .idle, view := Channel.View.bot }
      -- call marker at the first step of an operation
      match th.pc, th.script with
      | .idle, .send tag :: _ => lines := lines.push s!"t{t} call send {tag}"
      | .idle, .recv :: _ => lines := lines.push s!"t{t} call recv"
      | _, _ => pure ()
      let isEnq := match th.pc with | .enqLoad .. | .enqCas .. => true | _ => false
      let isRecv := match th.pc, th.script with
        | .idle, .recv :: _ => true
        | .deqCas _ none _, _ | .take _, _ => true
        | .enqLoad .empty .., _ | .enqCas .empty .., _ => true
        | _, _ => false
      match Channel.step Channel.genOrders s t c with
      | none =>
        lines := lines.push s!"t{t} NOT-ENABLED"
        break
      | some (s', out) =>
        lines := lines.push s!"t{t} {fmtChObs isEnq out.obs}"
        -- what the step changed in the payload cells
        for i in [0:Gen.SLOTS] do
          let a := s.cells.getD i none
          let b := s'.cells.getD i none
          if a != b then
            let f := fun (v : Option Nat) => match v with | some x => s!"some {x}" | none => "none"
            lines := lines.push s!"t{t} cellmod cell{i + 1} {f a}->{f b}"
        if out.race then lines := lines.push s!"t{t} RACE"
        match out.panic with
        | some m => lines := lines.push s!"t{t} PANIC {m}"
        | none => pure ()
        match out.dropped with
        | some tg => lines := lines.push s!"t{t} drop {tg}"
        | none => pure ()
        match out.ret with
        | some r =>
          if isRecv then
            match r with
            | some tg =>
              lines := lines.push s!"t{t} ret recv some {tg}"
              lines := lines.push s!"t{t} drop {tg}"
            | none => lines := lines.push s!"t{t} ret recv none"
          else lines := lines.push s!"t{t} ret send"
        | none => pure ()
        s := s'
  let left := (s.cells.filterMap id).mergeSort (· ≤ ·)
  lines := lines.push s!"final-drop {fmtTags left}"
  let done := (List.range s.threads.length).all (fun t =>
    match s.threads[t]? with
    | some th => (th.pc == .idle && th.script.isEmpty) ||
        (d.nested.contains t && th.pc == .idle && th.script.length == (d.scripts[t]?.getD []).length)
    | none => true)
  lines := lines.push (if done then "END done" else "END unfinished")
  return lines.toList

def chStep (d : ChDrv) (line : String) : ChDrv × String :=
  match line.trimAscii.toString.splitOn " " with
  | "schedule" :: rest => (d, "\n".intercalate (chRun d rest))
  | ["seed", _] | ["maxsteps", _] | ["spurious", _] | ["setup", "default"] => (d, "")
  | ["---"] => ({}, "---")
  | [t, "nested", _, "send", n] => match (t.drop 1).toString.toNat?, n.toNat? with
    | some t, some n => ({ chAdd d t (.send n) with nested := t :: d.nested }, "")
    | _, _ => (d, "bad-op")
  | [t, "send", n] => match (t.drop 1).toString.toNat?, n.toNat? with
    | some t, some n => (chAdd d t (.send n), "")
    | _, _ => (d, "bad-op")
  | [t, "recv"] => match (t.drop 1).toString.toNat? with
    | some t => (chAdd d t .recv, "")
    | none => (d, "bad-op")
  | _ => (d, "bad-op")

def fnv (acc : UInt64) (x : UInt64) : UInt64 := (acc ^^^ x) * 1099511628211

def chTable (_ : Unit) : List String := Id.run do
  let mut lines : Array String := #[]
  for idx in [0:5] do
    let mut acc : UInt64 := 1469598103934665603
    for n in [0:65536] do
      acc := fnv acc (Packed.get (BitVec.ofNat 16 n) idx).toNat.toUInt64
    lines := lines.push s!"get-sum idx={idx} {acc.toNat}"
    for v in [0:8] do
      let mut acc2 : UInt64 := 1469598103934665603
      for n in [0:65536] do
        acc2 := fnv acc2 (Packed.set (BitVec.ofNat 16 n) idx (BitVec.ofNat 16 v)).toNat.toUInt64
      lines := lines.push s!"set-sum idx={idx} v={v} {acc2.toNat}"
  return lines.toList

/-! ### iterator back end (L8) -/

def itFile := "src/iterator/backend.rs"
def exFile := "src/iterator/exfiltrator/mod.rs"

def fmtItObs : Iter.Obs → String
  | .storeSlot sig => s!"store slot{sig} 1 @store#1:{ordOf exFile "store" 1}"
  | .storeClosed => s!"store closed 1 @close#1:{ordOf itFile "close" 1}"
  | .wake ok => s!"sys send W len=1 dontwait = {if ok then "1" else "-1"}"
  | .loadClosed v => s!"load closed = {if v then 1 else 0} @is_closed#1:{ordOf itFile "is_closed" 1}"
  | .recv n => s!"sys recv R len=1024 dontwait = {n}"
  | .cas pos ok => s!"cas slot{pos} 1->0 = {if ok then "ok 1" else "fail 0"} @load#1:{ordOf exFile "load" 1}"
  | .callback b a => s!"cb {if b then "block" else "nonblock"} {a}"

structure ItDrv where
  watched : List Nat := []
  cap : Nat := 278
  prefill : Nat := 0
  scripts : Array (List (String × Iter.Cmd)) := #[]
  /-- threads that drain a batch handed out by `pending()` during the setup (on the empty pipe): they
      start in the state such a call leaves, `scan .pending 0` -/
  drains : List (Nat × String) := []

def parseItCmd (w : List String) : Option Iter.Cmd :=
  match w with
  | ["deliver", s] => s.toNat?.map .deliver
  | ["close"] => some .close
  | ["pending"] => some .pending
  | ["wait"] => some .wait
  | ["poll"] => some .poll
  | ["forever"] => some .forever
  | _ => none

def itRun (d : ItDrv) (sched : List Nat) : List String := Id.run do
  let mut s := Iter.Sys.init d.watched d.cap d.prefill (d.scripts.toList.map (fun l => l.map (·.2)))
  let mut texts := d.scripts.map (fun l => l.map (·.1))
  let mut lines : Array String := #[]
  let mut toStart := d.drains
  for (t, _) in d.drains do
    s := Iter.setT s t { script := [], pc := .scan .pending 0 }
  for t in sched do
    let th := s.threads[t]?.getD { script := [], pc := .idle }
    let atStart := match th.pc with | .idle => true | _ => false
    match toStart.find? (·.1 == t) with
    | some (_, tx) =>
      lines := lines.push s!"t{t} call {tx}"
      toStart := toStart.filter (·.1 != t)
    | none => pure ()
    if atStart then
      match texts[t]?.getD [] with
      | tx :: rest =>
        lines := lines.push s!"t{t} call {tx}"
        texts := texts.set! t rest
      | [] => pure ()
    let inDeliv := match th.pc, th.script with
      | .idle, .deliver _ :: _ => "H "
      | .dWake _, _ => "H "
      | _, _ => ""
    match Iter.step Gen.pollRechecksClosed s t with
    | none =>
      lines := lines.push s!"t{t} NOT-ENABLED"
      break
    | some (s', out) =>
      lines := lines.push s!"t{t} {inDeliv}{fmtItObs out.obs}"
      match out.yielded with
      | some sig => lines := lines.push s!"t{t} yield {sig}"
      | none => pure ()
      match out.ret with
      | some .done => lines := lines.push s!"t{t} ret done"
      | some (.pollSignal sig) => lines := lines.push s!"t{t} ret poll signal {sig}"
      | some .pollPending => lines := lines.push s!"t{t} ret poll pending"
      | some .pollClosed => lines := lines.push s!"t{t} ret poll closed"
      | none => pure ()
      s := s'
  let done := s.threads.all (fun th => th.pc == .idle && th.script.isEmpty)
  let blocked := (List.range s.threads.length).filter (fun t => match s.threads[t]? with
    | some th => !(th.pc == .idle && th.script.isEmpty) && (Iter.step Gen.pollRechecksClosed s t).isNone
    | none => false)
  lines := lines.push (if done then "END done" else if !blocked.isEmpty then "END blocked" else "END unfinished")
  return lines.toList

def itStep (d : ItDrv) (line : String) : ItDrv × String :=
  match line.trimAscii.toString.splitOn " " with
  | "setup" :: "watch" :: rest => ({ d with watched := d.watched ++ rest.filterMap (·.toNat?) }, "")
  | ["setup", "fill"] | ["setup", "style", _] | ["seed", _] | ["maxsteps", _] | ["setup", "batches", _] | ["delay", _, _] | ["holdat", _, _, _] => (d, "")
  | [t, "drain", k] =>
    match (t.drop 1).toString.toNat? with
    | some t =>
      let scripts := if d.scripts.size ≤ t then d.scripts ++ Array.replicate (t + 1 - d.scripts.size) [] else d.scripts
      ({ d with scripts := scripts, drains := d.drains ++ [(t, s!"drain {k}")] }, "")
    | none => (d, "bad-op")
  | ["cap", c, "prefill", p] => ({ d with cap := c.toNat?.getD 278, prefill := p.toNat?.getD 0 }, "")
  | "schedule" :: rest => (d, "\n".intercalate (itRun d (rest.filterMap (·.toNat?))))
  | ["---"] => ({}, "---")
  | t :: rest =>
    match (t.drop 1).toString.toNat?, parseItCmd rest with
    | some t, some c =>
      let scripts := if d.scripts.size ≤ t then d.scripts ++ Array.replicate (t + 1 - d.scripts.size) [] else d.scripts
      ({ d with scripts := scripts.modify t (· ++ [(" ".intercalate rest, c)]) }, "")
    | _, _ => (d, "bad-op")
  | _ => (d, "bad-op")

/-! ### iterator with a queueing exfiltrator (L8q), abstract events -/

def fmtIqObs : IterQ.Obs → String
  | .sendBegin sig ok => s!"send-begin {sig} {if ok then "ok" else "drop"}"
  | .sendEnd sig => s!"send-end {sig}"
  | .storeClosed => "store closed"
  | .wake ok => s!"wake {if ok then "ok" else "full"}"
  | .loadClosed v => s!"load closed = {if v then 1 else 0}"
  | .recv n => s!"recv {n}"
  | .recvBegin pos sm => s!"recv-begin {pos} {if sm then "some" else "none"}"
  | .recvEnd pos => s!"recv-end {pos}"
  | .callback b a => s!"cb {if b then "block" else "nonblock"} {a}"

def iqRun (d : ItDrv) (sched : List Nat) : List String := Id.run do
  let mut s := IterQ.Sys.init d.watched d.cap d.prefill (d.scripts.toList.map (fun l => l.map (·.2)))
  let mut texts := d.scripts.map (fun l => l.map (·.1))
  let mut lines : Array String := #[]
  for t in sched do
    let th := s.threads[t]?.getD { script := [], pc := .idle }
    let atStart := match th.pc with | .idle => true | _ => false
    if atStart then
      match texts[t]?.getD [] with
      | tx :: rest =>
        lines := lines.push s!"t{t} call {tx}"
        texts := texts.set! t rest
      | [] => pure ()
    let inDeliv := match th.pc, th.script with
      | .idle, .deliver _ :: _ => "H "
      | .dEnq _ _, _ => "H "
      | .dWake _ _, _ => "H "
      | _, _ => ""
    match IterQ.step Gen.pollRechecksClosed s t with
    | none =>
      lines := lines.push s!"t{t} NOT-ENABLED"
      break
    | some (s', out) =>
      lines := lines.push s!"t{t} {inDeliv}{fmtIqObs out.obs}"
      match out.yielded with
      | some r => lines := lines.push s!"t{t} yield {r.1} {r.2}"
      | none => pure ()
      match out.ret with
      | some .done => lines := lines.push s!"t{t} ret done"
      | some (.pollSignal _) => lines := lines.push s!"t{t} ret poll signal"
      | some .pollPending => lines := lines.push s!"t{t} ret poll pending"
      | some .pollClosed => lines := lines.push s!"t{t} ret poll closed"
      | none => pure ()
      s := s'
  let done := s.threads.all (fun th => th.pc == .idle && th.script.isEmpty)
  let blocked := (List.range s.threads.length).filter (fun t => match s.threads[t]? with
    | some th => !(th.pc == .idle && th.script.isEmpty) && (IterQ.step Gen.pollRechecksClosed s t).isNone
    | none => false)
  lines := lines.push (if done then "END done" else if !blocked.isEmpty then "END blocked" else "END unfinished")
  return lines.toList

def iqStep (d : ItDrv) (line : String) : ItDrv × String :=
  match line.trimAscii.toString.splitOn " " with
  | "schedule" :: rest => (d, "\n".intercalate (iqRun d (rest.filterMap (·.toNat?))))
  | ["setup", "trace"] | ["delay", _, _] => (d, "")
  | _ => itStep d line

/-! ### entry points and Signals instances (L10) -/

def parseEntry' (e : String) : Option Entry.Entry :=
  match e with
  | "register" => some .register | "register_sigaction" => some .registerSigaction
  | "register_signal_unchecked" => some .registerSignalUnchecked | "register_unchecked" => some .registerUnchecked
  | "flag" => some .flag | "flag_usize" => some .flagUsize | "cond_shutdown" => some .condShutdown
  | "cond_default" => some .condDefault | "pipe" => some .pipe | "pipe_raw" => some .pipeRaw
  | "pipe_dgram" => some .pipeDgram | _ => none

def fmtRes : Entry.Res → String
  | .ok => "ok" | .err => "err" | .panic => "panic" | .abort => "abort"

def enShape : Entry.Shape := { tolerant := Gen.lockToleratesPoison, idem := Gen.initIdempotent }

/-- dispositions that differ between two registry states, as `sig:kind` -/
def dispDiff (a b : Registry.State) : String :=
  let ch := (List.range 64).filterMap (fun (k : Nat) =>
    let sig : Int := Int.ofNat k + 1
    let da := Registry.dispOf a sig
    let db := Registry.dispOf b sig
    if da == db then none else some s!"{sig}:{((fmtDisp db).splitOn ":").headD "?"}")
  if ch.isEmpty then "same" else "changed:" ++ ",".intercalate ch

structure EnDrv where
  w : Entry.World := Entry.World.init
  tag : Nat := 1
  dead : Bool := false
  /-- signals on which `check` registered its independent flag -/
  flags : List Int := []
  /-- the instance object has been dropped while a handle clone keeps the shared state alive -/
  instGone : Bool := false

def knownSig (n : Int) : Bool := Default.known Gen.details n

def enStep (d : EnDrv) (line : String) : EnDrv × String :=
  if d.dead then (match line.trimAscii.toString with | "---" => ({}, "exit killedBy:6\n---") | _ => (d, "")) else
  match line.trimAscii.toString.splitOn " " with
  | ["reg", e, s] =>
    match parseEntry' e, parseInt? s with
    | some e, some sig =>
      let r := Entry.callEntry regEnv knownSig d.w.reg e sig d.tag
      ({ d with w := { d.w with reg := r.1 }, tag := d.tag + 1 },
       s!"{fmtRes r.2.1} disp={dispDiff d.w.reg r.1} res={if r.2.2 then "held" else "released"}")
    | _, _ => (d, "bad-op")
  | "new" :: exf :: sigs =>
    let ss := sigs.filterMap parseInt?
    let tagged := ss.zipIdx.map (fun (p : Int × Nat) => (p.1, d.tag + p.2))
    let r := Entry.newInst regEnv enShape d.w (if exf == "raw" then .raw else .only) tagged
    let d' := { d with w := r.1, tag := d.tag + ss.length }
    if r.2 == .abort then ({ d' with dead := true }, "DEAD")
    else
      -- a failed constructor leaves nothing behind: no registration of its own, no descriptor
      let tail := if fmtRes r.2 == "ok" then "" else " fds=+0"
      (d', s!"{fmtRes r.2} disp={dispDiff d.w.reg r.1.reg}{tail}")
  | [op, s] =>
    match op, parseInt? s with
    | "add", some n | "hadd", some n =>
      let r := Entry.addSignal regEnv enShape d.w n d.tag
      ({ d with w := r.1, tag := d.tag + 1 }, s!"{fmtRes r.2} disp={dispDiff d.w.reg r.1.reg}")
    | "unregsig", some sig =>
      -- the deprecated registry call, behind the instance's back: its ids for the signal are stale from now on
      let r := Registry.unregisterSignal d.w.reg sig
      ({ d with w := { d.w with reg := r.1 }, flags := d.flags.filter (· != sig) }, fmtOut r.2)
    | "check", some sig =>
      -- the independent flag first (a checked registration), then the delivery
      let (w1, flags, tag) := if d.flags.contains sig then (d.w, d.flags, d.tag) else
        let r := Registry.register regEnv d.w.reg sig d.tag
        match r.2 with
        | .id _ _ => ({ d.w with reg := r.1 }, sig :: d.flags, d.tag + 1)
        | _ => (d.w, d.flags, d.tag + 1)
      let d' := { d with w := w1, flags := flags, tag := tag }
      match Registry.dispOf w1.reg sig with
      | .lib _ =>
        let flagSeen := flags.contains sig
        -- watched = the instance recorded an id for the signal *and* the registry still has that action
        let watched := match w1.inst with
          | some i => !d.instGone && (match Registry.lookup sig i.ids with
              | some id => (Registry.actionsOf w1.reg sig).any (fun a => a.1 == id)
              | none => false)
          | none => false
        (d', s!"flag={flagSeen} yielded={if watched then s!"[{sig}]" else "[]"}")
      | dd => (d', s!"notours {fmtDisp dd}")
    | _, _ => (d, "bad-op")
  | ["dropinst"] => ({ d with instGone := d.w.inst.isSome }, "ok")
  | ["drophandles"] =>
    if d.instGone then
      let r := Entry.dropInst enShape d.w
      let had := match d.w.inst with | some i => !i.ids.isEmpty | none => false
      ({ d with w := r.1, instGone := false }, s!"{fmtRes r.2} fds={if r.2 == .panic && had then "+1" else "+0"}")
    else (d, "ok fds=+0")
  | ["drop"] =>
    let r := Entry.dropInst enShape d.w
    -- a leaked registration keeps the write end of the self-pipe open
    let had := match d.w.inst with | some i => !i.ids.isEmpty | none => false
    ({ d with w := r.1, instGone := false }, s!"{fmtRes r.2} fds={if r.2 == .panic && had then "+1" else "+0"}")
  | ["usable"] =>
    let r := Registry.register regEnv d.w.reg Gen.SIGUSR2 d.tag
    let ok := match r.2 with | .id _ _ => true | _ => false
    ({ d with w := { d.w with reg := r.1 }, tag := d.tag + 1 }, s!"usable {ok}")
  | ["---"] => ({}, "exit continues\n---")
  | _ => (d, "bad-op")

/-! ### flag actions (L7) -/

structure FlDrv where
  acts : List Builtin.Action := []
  fl : Builtin.Flags := []
  bools : List String := []
  usizes : List String := []
  dead : Option Nat := none
  /-- a registered raw action that will raise the signal once more from inside the next delivery -/
  reraise : Bool := false
  /-- registration numbers of the live actions, parallel to `acts`; the next number -/
  ids : List Nat := []
  nreg : Nat := 0

def flagIdx (n : String) : Nat :=
  let k := ((n.drop 1).toString.toNat?).getD 0
  if n.startsWith "b" then k else 100 + k

def flDeclare (d : FlDrv) (n : String) : FlDrv :=
  if n.startsWith "b" then (if d.bools.contains n then d else { d with bools := d.bools ++ [n] })
  else (if d.usizes.contains n then d else { d with usizes := d.usizes ++ [n] })

def flStep (d : FlDrv) (line : String) : FlDrv × String :=
  match line.trimAscii.toString.splitOn " " with
  | ["---"] => ({}, (match d.dead with | some c => s!"exit exit:{c}" | none => "exit continues") ++ "\n---")
  | w =>
    if d.dead.isSome then (d, "") else
    match w with
    | ["flag", f] => ({ flDeclare d f with acts := d.acts ++ [.setTrue (flagIdx f)], ids := d.ids ++ [d.nreg], nreg := d.nreg + 1 }, "ok")
    | ["usize", f, v] => ({ flDeclare d f with acts := d.acts ++ [.setUsize (flagIdx f) (v.toNat?.getD 0)], ids := d.ids ++ [d.nreg], nreg := d.nreg + 1 }, "ok")
    | ["shutdown", st, f] => ({ flDeclare d f with acts := d.acts ++ [.condShutdown ((parseInt? st).getD 0) (flagIdx f)], ids := d.ids ++ [d.nreg], nreg := d.nreg + 1 }, "ok")
    | ["unreg", k] =>
      -- removing one action leaves the others in their order
      match k.toNat? with
      | some k =>
        if k ≥ d.nreg then (d, "bad-op")
        else match d.ids.idxOf? k with
          | some i => ({ d with acts := d.acts.eraseIdx i, ids := d.ids.eraseIdx i }, "ok")
          | none => (d, "gone")
      | none => (d, "bad-op")
    | ["set", f, v] =>
      let x := v.toNat?.getD 0
      let x := if f.startsWith "b" then (if x == 0 then 0 else 1) else x
      ({ flDeclare d f with fl := Builtin.setF d.fl (flagIdx f) x }, "ok")
    | ["reraiser"] => ({ d with reraise := true }, "ok")
    | ["thread"] => (d, "ok")   -- a second thread in the process: no matter to what the actions do
    | ["nullinfo"] => ({ d with dead := some 134 }, "")   -- a NULL siginfo: the dispatcher aborts (judged by the probe's monitor, not here)
    | ["raise"] =>
      -- the signal is blocked while its handler runs: a raise from inside a delivery is delivered
      -- when that delivery has returned, i.e. two deliveries back to back (`Builtin.run`)
      let evs : List Builtin.Ev := if d.reraise then [.raise, .raise] else [.raise]
      match Builtin.run d.acts d.fl evs with
      | .returned fl' =>
        let txt := "alive" ++ String.join ((d.bools ++ d.usizes).map (fun n => s!" {n}={Builtin.getF fl' (flagIdx n)}"))
        ({ d with fl := fl', reraise := false }, txt)
      | .exited code hooks _ => ({ d with dead := some code }, if hooks then "ATEXIT-HOOK-RAN" else "")
    | _ => (d, "bad-op")

/-! ### self-pipe (L9) -/

structure PiDrv where
  fd : Pipe.Fd := { kind := .pipe, nonblock := false, fill := 0, cap := 0 }
  method : Option Pipe.Method := none
  closed : Bool := false
  taken : Bool := false
  /-- a second registration, for another signal, on a `dup` of the same descriptor -/
  method2 : Option Pipe.Method := none

def piStep (d : PiDrv) (line : String) : PiDrv × String :=
  match line.trimAscii.toString.splitOn " " with
  | ["---"] => ({}, "exit continues\n---")
  | ["mk", k, nb, full, cap] =>
    let c := cap.toNat?.getD 0
    let kind := match k with | "pipe" => Pipe.Kind.pipe | "stream" => .stream | "opath" => .other | _ => .dgram
    let f := if full == "1" then c else 0
    ({ fd := { kind := kind, nonblock := nb == "1", fill := f, cap := c }, method := none, closed := false },
     s!"made cap={c} fill={f}")
  | ["reg", _, s] =>
    match parseInt? s with
    | none => (d, "bad-op")
    | some sig =>
      let pr := Pipe.probe d.fd
      let (m, fd') := Pipe.classify d.fd
      let probeLine := s!"  sys send W len=0 dontwait = {if pr == .zero then "0" else "-1"}"
      let flagLines := if m == .write then "\n  sys fcntl W getfl = 0\n  sys fcntl W setfl nonblock=1 = 0" else ""
      let r := Registry.register regEnv Registry.State.init sig 1
      if m == .write && !Pipe.setFlagsOk d.fd then
        -- `set_flags()?` fails: rejected before the registry is asked; the owning WakeFd is dropped
        ({ d with fd := Pipe.close d.fd, closed := true },
         "err\n" ++ probeLine ++ "\n  sys fcntl W getfl = 0\n  sys fcntl W setfl nonblock=1 = -1\n  sys close W = 0")
      else
      match r.2 with
      | .id _ _ => ({ d with fd := fd', method := some m, taken := true }, "ok\n" ++ probeLine ++ flagLines)
      | .panic => ({ d with fd := Pipe.close fd', closed := true }, "panic\n" ++ probeLine ++ flagLines ++ "\n  sys close W = 0")
      | _ => ({ d with fd := Pipe.close fd', closed := true }, "err\n" ++ probeLine ++ flagLines ++ "\n  sys close W = 0")
  | ["reg2", _, _] =>
    -- classified again, on the shared open file description (`D` = the dup)
    let pr := Pipe.probe d.fd
    let (m, fd') := Pipe.classify d.fd
    let probeLine := s!"  sys send D len=0 dontwait = {if pr == .zero then "0" else "-1"}"
    let flagLines := if m == .write then "\n  sys fcntl D getfl = 0\n  sys fcntl D setfl nonblock=1 = 0" else ""
    ({ d with fd := fd', method2 := some m }, "ok\n" ++ probeLine ++ flagLines)
  | ["raise2", n] =>
    match d.method2, n.toNat? with
    | some m, some n =>
      let r := Pipe.burst m d.fd n
      let wb := (r.2.filter (· == .blocks)).length
      ({ d with fd := r.1 }, s!"raised {n} attempts={r.2.length} wouldblock={wb} blocking_calls={wb} slow=0")
    | _, _ => (d, "raised 0")
  | ["unreg2"] =>
    match d.method2 with
    | some _ => ({ d with method2 := none }, "unregistered2=true\n  sys close D = 0")
    | none => (d, "unregistered2=false")
  | ["raise", n] =>
    match d.method, n.toNat? with
    | some m, some n =>
      let r := Pipe.burst m d.fd n
      let wb := (r.2.filter (· == .blocks)).length
      ({ d with fd := r.1 }, s!"raised {n} attempts={r.2.length} wouldblock={wb} blocking_calls={wb} slow=0")
    | none, some n => (d, if d.taken then s!"raised {n} attempts=0 wouldblock=0 blocking_calls=0 slow=0" else "raised 0")
    | _, _ => (d, "raised 0")
  | ["drain"] =>
    let r := Pipe.drain d.fd
    ({ d with fd := r.1 }, s!"bytes={r.2}")
  | ["unreg"] =>
    match d.method with
    | some _ => ({ d with fd := Pipe.close d.fd, method := none, closed := true }, "unregistered=true fd=closed\n  sys close W = 0")
    | none => (d, s!"unregistered=false fd={if d.closed then "closed" else "open"}")
  | ["fd0"] => (d, "ok")           -- the descriptor's number is no part of the contract: 0 is as good as any
  | ["eintr-close"] => (d, "ok")   -- an interrupted close has released the descriptor: nothing else to model
  | ["final"] => (d, s!"fd={if d.closed then "closed" else "open"}")
  | _ => (d, "bad-op")

/-! ### front-ends at operation level (L8 run sequentially) -/

structure SqDrv where
  s : Iter.Sys := Iter.Sys.init [] 278 0 [[], []]
  dead : Bool := false

/-- run thread `t` until it is idle with an empty script, blocks, or `stop` says so -/
def sqRun (s : Iter.Sys) (t : Nat) (stop : Iter.Out → Bool) : Nat → Iter.Sys × List Iter.Out × Bool
  | 0 => (s, [], false)
  | fuel + 1 =>
    match s.threads[t]? with
    | none => (s, [], false)
    | some th =>
      if th.pc == .idle && th.script.isEmpty then (s, [], false)
      else
        match Iter.step Gen.pollRechecksClosed s t with
        | none => (s, [], true)
        | some (s', o) =>
          if stop o then (s', [o], false)
          else
            let r := sqRun s' t stop fuel
            (r.1, o :: r.2.1, r.2.2)

def sqSet (s : Iter.Sys) (t : Nat) (f : Iter.Thread → Iter.Thread) : Iter.Sys :=
  match s.threads[t]? with
  | some th => Iter.setT s t (f th)
  | none => s

def fmtYields (os : List Iter.Out) : String :=
  "[" ++ ", ".intercalate ((os.filterMap (·.yielded)).map toString) ++ "]"

def sqStep (d : SqDrv) (line : String) : SqDrv × String :=
  match line.trimAscii.toString.splitOn " " with
  | ["---"] => ({}, "exit continues\n---")
  | w =>
    if d.dead then (d, "") else
    match w with
    | "new" :: _ :: sigs =>
      ({ s := Iter.Sys.init (sigs.filterMap (·.toNat?)) 278 0 [[], []] }, "ok")
    | "newstart" :: _ :: sigs =>
      -- the first signal of the list is delivered once, right after it has been registered (during start-up)
      let s0 := Iter.Sys.init (sigs.filterMap (·.toNat?)) 278 0 [[], []]
      match (sigs.head?.bind (·.toNat?)) with
      | some sig => ({ s := (sqRun (sqSet s0 0 (fun th => { th with script := [.deliver sig] })) 0 (fun _ => false) 10).1 }, "ok")
      | none => ({ s := s0 }, "ok")
    | "raise" :: sg :: rest =>
      let n := (rest.head?.bind (·.toNat?)).getD 1
      match sg.toNat? with
      | some sig =>
        let s' := (List.range n).foldl (fun s _ =>
          if s.watched.contains sig then (sqRun (sqSet s 0 (fun th => { th with script := [.deliver sig] })) 0 (fun _ => false) 10).1
          else s) d.s
        ({ d with s := s' }, "ok")
      | none => (d, "bad-op")
    | ["close"] =>
      ({ d with s := (sqRun (sqSet d.s 0 (fun th => { th with script := [.close] })) 0 (fun _ => false) 10).1 }, "ok")
    | ["pending"] =>
      let r := sqRun (sqSet d.s 1 (fun th => { th with script := [.pending] })) 1 (fun _ => false) 4000
      ({ d with s := r.1 }, s!"yield {fmtYields r.2.1}")
    | ["wait"] =>
      let r := sqRun (sqSet d.s 1 (fun th => { th with script := [.wait] })) 1 (fun _ => false) 4000
      if r.2.2 then ({ d with s := r.1, dead := true }, "blocked") else ({ d with s := r.1 }, s!"yield {fmtYields r.2.1}")
    | ["next"] =>
      -- a fresh `forever()`: `SignalIterator::new` drains the pipe and starts a scan, then `poll_signal` loops
      let r := sqRun (sqSet d.s 1 (fun th => { th with script := [], pc := .flush .forever })) 1
        (fun o => o.yielded.isSome || o.ret == some .pollClosed) 8000
      let s' := sqSet r.1 1 (fun th => { th with script := [], pc := .idle })
      if r.2.2 then ({ d with s := r.1, dead := true }, "blocked")
      else match r.2.1.getLast? with
        | some o => (match o.yielded with
            | some v => ({ d with s := s' }, s!"some {v}")
            | none => ({ d with s := s' }, "none"))
        | none => ({ d with s := s' }, "none")
    | ["mpoll"] =>
      if d.s.pipe > 0 then
        let r := sqRun (sqSet d.s 1 (fun th => { th with script := [.pending] })) 1 (fun _ => false) 4000
        ({ d with s := r.1 }, s!"ready {fmtYields r.2.1}")
      else (d, "notready")
    | ["poll"] =>
      let r := sqRun (sqSet d.s 1 (fun th => { th with script := [.poll] })) 1 (fun _ => false) 4000
      let txt := match r.2.1.getLast?.bind (·.ret) with
        | some (.pollSignal v) => s!"some {v}"
        | some .pollPending => "pending"
        | some .pollClosed => "none"
        | _ => "?"
      ({ d with s := r.1 }, txt)
    | ["woken"] => (d, "woken ?")
    | _ => (d, "bad-op")


partial def loop {σ} (h : IO.FS.Stream) (out : IO.FS.Stream) (st : σ) (f : σ → String → σ × String) :
    IO Unit := do
  let line ← h.getLine
  if line.isEmpty then return ()
  if line.trimAscii.toString.isEmpty || line.startsWith "#" then
    loop h out st f
  else
    let (st', o) := f st line
    if !o.isEmpty then out.putStrLn o
    loop h out st' f

def main (args : List String) : IO UInt32 := do
  let stdin ← IO.getStdin
  let stdout ← IO.getStdout
  match args with
  | ["registry"] => loop stdin stdout ({} : RegDrv) regStep; return 0
  | ["defaults"] => loop stdin stdout () defaultsStep; return 0
  | ["origin"] => loop stdin stdout () originStep; return 0
  | ["halflock"] => loop stdin stdout ({} : HlDrv) hlStep; return 0
  | ["regconc"] => loop stdin stdout ({} : RcDrv) rcStep; return 0
  | ["channel"] => loop stdin stdout ({} : ChDrv) chStep; return 0
  | ["iter"] => loop stdin stdout ({} : ItDrv) itStep; return 0
  | ["iterq"] => loop stdin stdout ({} : ItDrv) iqStep; return 0
  | ["entries"] => loop stdin stdout ({} : EnDrv) enStep; return 0
  | ["flags"] => loop stdin stdout ({} : FlDrv) flStep; return 0
  | ["pipes"] => loop stdin stdout ({} : PiDrv) piStep; return 0
  | ["frontends"] => loop stdin stdout ({} : SqDrv) sqStep; return 0
  | ["channel-table"] => (for l in chTable () do stdout.putStrLn l); return 0
  | _ => IO.eprintln "usage: driver registry"; return 2
