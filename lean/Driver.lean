import SigHook.Model.RegistrySeq
import SigHook.Model.Default
import SigHook.Model.Origin
import SigHook.Gen.Consts
import SigHook.Model.Env
/-!
Line-protocol driver: replays operation files on the executable models and prints one
canonical observation line per operation. `driver <model>` reads stdin until EOF.
-/
open SigHook

def parseInt? (s : String) : Option Int := s.toInt?

def fmtDisp : Registry.Disp → String
  | .dfl => "dfl" | .ign => "ign" | .h1 f => s!"h1:{f}" | .h3 f => s!"h3:{f}"
  | .lib fl => s!"lib:{fl}"

def parseDisp (s : String) : Option Registry.Disp :=
  match s.splitOn ":" with
  | ["dfl"] => some .dfl
  | ["ign"] => some .ign
  | ["h1", f] => f.toNat?.map .h1
  | ["h3", f] => f.toNat?.map .h3
  | _ => none

def fmtTags (l : List Nat) : String := "[" ++ ",".intercalate (l.map toString) ++ "]"

def fmtOut : Registry.Out → String
  | .id sig i => s!"id {sig} {i}"
  | .err => "err"
  | .panic => "panic"
  | .bug => "bug"
  | .bool b => s!"bool {b}"
  | .ran p tags => s!"ran {(p.map fmtDisp).getD "-"} {fmtTags tags}"
  | .notOurs d => s!"notours {fmtDisp d}"

structure RegDrv where
  st : Registry.State := Registry.State.init
  ids : Array (Int × Nat) := #[]

def regEnv : Registry.Env :=
  { rejectsQuery := Gen.osRejectsQuery, rejectsSet := Gen.osRejectsSet,
    forbidden := Gen.forbidden, libFlags := Gen.libFlags }

def regApply (d : RegDrv) (op : Registry.Op) (sig : Int) : RegDrv × String :=
  let r := Registry.step regEnv d.st op
  let ids := match r.2 with
    | .id s i => d.ids.push (s, i)
    | _ => d.ids
  ({ st := r.1, ids := ids }, s!"{fmtOut r.2} | disp={fmtDisp (Registry.dispOf r.1 sig)}")

def regStep (d : RegDrv) (line : String) : RegDrv × String :=
  match line.trimAscii.toString.splitOn " " with
  | ["reg", s, t] => match parseInt? s, t.toNat? with
    | some sig, some tag => regApply d (.register sig tag) sig
    | _, _ => (d, "bad-op")
  | ["regsa", s, t] => match parseInt? s, t.toNat? with
    | some sig, some tag => regApply d (.register sig tag) sig
    | _, _ => (d, "bad-op")
  | ["regu", s, t] => match parseInt? s, t.toNat? with
    | some sig, some tag => regApply d (.registerUnchecked sig tag) sig
    | _, _ => (d, "bad-op")
  | ["regusa", s, t] => match parseInt? s, t.toNat? with
    | some sig, some tag => regApply d (.registerUnchecked sig tag) sig
    | _, _ => (d, "bad-op")
  | ["unreg", k] => match k.toNat? with
    | some k => match d.ids[k]? with
      | some (sig, id) => regApply d (.unregister sig id) sig
      | none => (d, "bad-op")
    | none => (d, "bad-op")
  | ["unregsig", s] => match parseInt? s with
    | some sig => regApply d (.unregisterSignal sig) sig
    | none => (d, "bad-op")
  | ["raise", s] => match parseInt? s with
    | some sig => regApply d (.deliver sig) sig
    | none => (d, "bad-op")
  | ["foreign", s, k] => match parseInt? s, parseDisp k with
    | some sig, some disp => regApply d (.foreign sig disp) sig
    | _, _ => (d, "bad-op")
  | ["reset"] => ({}, "reset")
  | _ => (d, "bad-op")

def fmtOutcome : Default.Outcome → String
  | .continues => "continues" | .stopped => "stopped" | .killedBy n => s!"killedBy:{n}" | .err => "err"

def defaultsStep (_ : Unit) (line : String) : Unit × String :=
  match line.trimAscii.toString.splitOn " " with
  | ["emu", n, ctx] =>
    match parseInt? n, (match ctx with | "normal" => some Default.Ctx.normal | "handler" => some .inHandler
                                       | "cond" => some .inHandler | _ => none) with
    | some n, some c =>
      -- `register_conditional_default` refuses signals without a name before registering
      let e := if ctx == "cond" && !(Default.known Gen.details n) then Default.Outcome.err
               else Default.emulate Gen.details n c
      ((), s!"kernel={fmtOutcome (Default.kernelDefault n)} emul={fmtOutcome e}")
    | _, _ => ((), "bad-op")
  | ["name", n] => match parseInt? n with
    | some n => ((), s!"name {(Default.findName Gen.details n).getD "-"}")
    | none => ((), "bad-op")
  | _ => ((), "bad-op")

def fmtCause : Gen.Cause → String
  | .unknown => "unknown" | .kernel => "kernel" | .sentUser => "sentUser" | .sentTKill => "sentTKill"
  | .sentQueue => "sentQueue" | .sentMesgQ => "sentMesgQ" | .chldExited => "chldExited"
  | .chldKilled => "chldKilled" | .chldDumped => "chldDumped" | .chldTrapped => "chldTrapped"
  | .chldStopped => "chldStopped" | .chldContinued => "chldContinued"

def originStep (_ : Unit) (line : String) : Unit × String :=
  match line.trimAscii.toString.splitOn " " with
  | ["ex", s, c, p, u] =>
    match parseInt? s, parseInt? c, parseInt? p, parseInt? u with
    | some s, some c, some p, some u =>
      let f := fun (o : Origin.Origin) =>
        let pr := match o.process with | some (a, b) => s!"{a}:{b}" | none => "none"
        s!"sig={o.signal} cause={fmtCause o.cause} proc={pr}"
      ((), s!"{f (Origin.extract ⟨s, c, p, u⟩)} | spec {f (Origin.specOrigin ⟨s, c, p, u⟩)}")
    | _, _, _, _ => ((), "bad-op")
  | _ => ((), "bad-op")

partial def loop {σ} (h : IO.FS.Stream) (out : IO.FS.Stream) (st : σ) (f : σ → String → σ × String) :
    IO Unit := do
  let line ← h.getLine
  if line.isEmpty then return ()
  if line.trimAscii.toString.isEmpty || line.startsWith "#" then
    loop h out st f
  else
    let (st', o) := f st line
    out.putStrLn o
    loop h out st' f

def main (args : List String) : IO UInt32 := do
  let stdin ← IO.getStdin
  let stdout ← IO.getStdout
  match args with
  | ["registry"] => loop stdin stdout ({} : RegDrv) regStep; return 0
  | ["defaults"] => loop stdin stdout () defaultsStep; return 0
  | ["origin"] => loop stdin stdout () originStep; return 0
  | _ => IO.eprintln "usage: driver registry"; return 2
