import SigHook.Model.IterQ
/-!
Lemmas for L8q (`Model/IterQ.lean`): what a step does to the queue data (`Eff`), then three
invariants of every reachable state, for any number of threads and every interleaving:

* `CapInv`   — a channel never has more than `SLOTS` of its indexes queued or held;
* `IdsInv`   — records in the queues are records of deliveries that began, each at most once;
* `FifoInv`  — with one consumer: what it has been handed, what it holds and what is queued is, per
               signal and in this order, exactly what was sent.
-/
namespace SigHook.IterQ
open SigHook
open SigHook.Iter (Cmd Mode)

/-! ## lists -/

theorem countP_set {α : Type} (p : α → Bool) (l : List α) (i : Nat) (a b : α) (h : l[i]? = some a) :
    (l.set i b).countP p + (if p a then 1 else 0) = l.countP p + (if p b then 1 else 0) := by
  induction l generalizing i with
  | nil => simp at h
  | cons x xs ih =>
    cases i with
    | zero =>
      simp at h; subst h
      simp only [List.set_cons_zero, List.countP_cons]
      omega
    | succ n =>
      simp only [List.getElem?_cons_succ] at h
      have := ih n h
      simp only [List.set_cons_succ, List.countP_cons]
      omega

theorem qOf_append (a b : List Rec) (sig : Nat) : qOf (a ++ b) sig = qOf a sig ++ qOf b sig := by
  simp [qOf]

/-- the oldest queued record of `sig` is the head of its queue, and erasing it leaves the tail -/
theorem head_erase (q : List Rec) (sig : Nat) (r : Rec) (h : headOf q sig = some r) :
    r.1 = sig ∧ r ∈ q ∧ qOf q sig = r :: qOf (q.erase r) sig := by
  induction q with
  | nil => simp [headOf] at h
  | cons x xs ih =>
    simp only [headOf, List.find?_cons] at h
    by_cases hx : (x.1 == sig) = true
    · simp only [hx] at h
      injection h with h; subst h
      refine ⟨by simpa using hx, by simp, ?_⟩
      simp [qOf, hx]
    · have hx' : (x.1 == sig) = false := by simpa using hx
      simp only [hx'] at h
      obtain ⟨h1, h2, h3⟩ := ih h
      have hne : x ≠ r := by
        intro e; subst e; rw [h1] at hx'; simp at hx'
      refine ⟨h1, List.mem_cons_of_mem _ h2, ?_⟩
      have he : (x :: xs).erase r = x :: xs.erase r := by
        rw [List.erase_cons_tail]; simpa using hne
      rw [he]
      simp only [qOf, List.filter_cons, hx'] at h3 ⊢
      simpa using h3

theorem head_none (q : List Rec) (sig : Nat) (h : headOf q sig = none) : qOf q sig = [] := by
  simp only [headOf, List.find?_eq_none] at h
  simp only [qOf, List.filter_eq_nil_iff]
  exact h

/-- erasing a record of another signal does not touch this signal's queue -/
theorem erase_other (q : List Rec) (sig : Nat) (r : Rec) (h : r.1 ≠ sig) : qOf (q.erase r) sig = qOf q sig := by
  induction q with
  | nil => rfl
  | cons x xs ih =>
    by_cases hx : x = r
    · subst hx
      have : (x.1 == sig) = false := by simpa using h
      simp [qOf, this]
    · have he : (x :: xs).erase r = x :: xs.erase r := by
        rw [List.erase_cons_tail]; simpa using hx
      rw [he]
      simp only [qOf, List.filter_cons] at ih ⊢
      rw [ih]

/-! ## what a thread holds, read off its program counter -/

/-- the record a delivery has reserved an index for and not yet queued -/
def pend (th : Thread) : Option Rec :=
  match th.pc with
  | .dEnq s i => some (s, i)
  | _ => none

/-- the record a consumer has taken out of a queue and not yet handed out -/
def infl (th : Thread) : Option Rec :=
  match th.pc with
  | .scanFin _ p i => some (p, i)
  | .psFin _ i => some (th.iterPos, i)
  | _ => none

/-- the id of the delivery a thread is in the middle of (between its `send` and the end of its wake) -/
def carry (th : Thread) : Option Nat :=
  match th.pc with
  | .dEnq _ i => some i
  | .dWake _ i => some i
  | _ => none

def holdsRec (sig : Nat) : Option Rec → Bool
  | some r => r.1 == sig
  | none => false

theorem holds_eq (th : Thread) (sig : Nat) :
    th.holds sig = (holdsRec sig (pend th) || holdsRec sig (infl th)) := by
  unfold Thread.holds pend infl
  cases th.pc <;> simp [holdsRec]

/-- `pend` / `infl` of a thread whose program counter is an `if` between two constructors that hold
nothing -/
macro "pcnone" : tactic =>
  `(tactic| (simp only [pend, infl, carry]; split <;> first | rfl | (rename_i heq; split at heq <;> cases heq)))

/-! ## the effect of a step on the queue data -/

/-- everything the data invariants need to know about one step of thread `t` (its entry `th` is
replaced by `th'`) -/
inductive Eff (s : Sys) (th : Thread) (s' : Sys) (th' : Thread) : Prop
  /-- control steps: flag, pipe, callback, an empty slot, a wake -/
  | ctl : s'.q = s.q → s'.sent = s.sent → s'.yields = s.yields → s'.begun = s.begun → s'.nextId = s.nextId →
      pend th = none → infl th = none → pend th' = none → infl th' = none →
      ((carry th = none ∧ s'.woken = s.woken) ∨ ∃ i, carry th = some i ∧ s'.woken = i :: s.woken) → carry th' = none →
      Eff s th s' th'
  /-- `send`, first half: an index reserved -/
  | sendOk (sig : Nat) : busy s sig < slots →
      s'.q = s.q → s'.sent = s.sent → s'.yields = s.yields → s'.begun = (sig, s.nextId) :: s.begun →
      s'.nextId = s.nextId + 1 →
      pend th = none → infl th = none → pend th' = some (sig, s.nextId) → infl th' = none →
      s'.woken = s.woken → carry th = none → carry th' = some s.nextId → Eff s th s' th'
  /-- `send`, no index free: the record is dropped -/
  | sendDrop (sig : Nat) :
      s'.q = s.q → s'.sent = s.sent → s'.yields = s.yields → s'.begun = (sig, s.nextId) :: s.begun →
      s'.nextId = s.nextId + 1 →
      pend th = none → infl th = none → pend th' = none → infl th' = none →
      s'.woken = s.woken → carry th = none → carry th' = some s.nextId → Eff s th s' th'
  /-- `send`, second half: the record is queued -/
  | sendEnd (r : Rec) :
      s'.q = s.q ++ [r] → s'.sent = s.sent ++ [r] → s'.yields = s.yields → s'.begun = s.begun → s'.nextId = s.nextId →
      pend th = some r → infl th = none → pend th' = none → infl th' = none →
      s'.woken = s.woken → carry th = some r.2 → carry th' = some r.2 → Eff s th s' th'
  /-- `recv`, first half: the oldest record of a signal taken -/
  | recvSome (r : Rec) : headOf s.q r.1 = some r →
      s'.q = s.q.erase r → s'.sent = s.sent → s'.yields = s.yields → s'.begun = s.begun → s'.nextId = s.nextId →
      pend th = none → infl th = none → pend th' = none → infl th' = some r →
      s'.woken = s.woken → carry th = none → carry th' = none → Eff s th s' th'
  /-- `recv`, second half: the index given back, the record handed out -/
  | recvEnd (r : Rec) :
      s'.q = s.q → s'.sent = s.sent → s'.yields = s.yields ++ [r] → s'.begun = s.begun → s'.nextId = s.nextId →
      pend th = none → infl th = some r → pend th' = none → infl th' = none →
      s'.woken = s.woken → carry th = none → carry th' = none → Eff s th s' th'

theorem step_eff (rc : Bool) (s s' : Sys) (t : Nat) (o : Out) (h : step rc s t = some (s', o)) :
    ∃ th th', s.threads[t]? = some th ∧ s'.threads = s.threads.set t th' ∧ Eff s th s' th' := by
  unfold step at h
  cases hth : s.threads[t]? with
  | none => simp [hth] at h
  | some th =>
    simp only [hth] at h
    suffices hs : ∃ th', s'.threads = s.threads.set t th' ∧ Eff s th s' th' by
      obtain ⟨th', a, b⟩ := hs; exact ⟨th, th', rfl, a, b⟩
    cases hpc : th.pc with
    | idle =>
      simp only [hpc] at h
      cases hsc : th.script with
      | nil => simp [hsc] at h
      | cons cmd rest =>
        cases cmd with
        | deliver sig =>
          simp only [hsc] at h
          split at h
          · rename_i hg
            simp only [Option.some.injEq, Prod.mk.injEq] at h; obtain ⟨rfl, _⟩ := h
            refine ⟨_, rfl, .sendOk sig ?_ rfl rfl rfl rfl rfl (by simp [pend, hpc]) (by simp [infl, hpc]) rfl rfl rfl (by simp [carry, hpc]) rfl⟩
            simp only [Bool.and_eq_true, decide_eq_true_eq] at hg; exact hg.2
          · simp only [Option.some.injEq, Prod.mk.injEq] at h; obtain ⟨rfl, _⟩ := h
            exact ⟨_, rfl, .sendDrop sig rfl rfl rfl rfl rfl (by simp [pend, hpc]) (by simp [infl, hpc]) rfl rfl rfl (by simp [carry, hpc]) rfl⟩
        | close =>
          simp only [hsc, Option.some.injEq, Prod.mk.injEq] at h; obtain ⟨rfl, _⟩ := h
          exact ⟨_, rfl, .ctl rfl rfl rfl rfl rfl (by simp [pend, hpc]) (by simp [infl, hpc]) rfl rfl (Or.inl ⟨by simp [carry, hpc], rfl⟩) rfl⟩
        | pending =>
          simp only [hsc, step.stepFlush] at h
          split at h
          all_goals
            simp only [Option.some.injEq, Prod.mk.injEq] at h; obtain ⟨rfl, _⟩ := h
            exact ⟨_, rfl, .ctl rfl rfl rfl rfl rfl (by simp [pend, hpc]) (by simp [infl, hpc]) rfl rfl (Or.inl ⟨by simp [carry, hpc], rfl⟩) rfl⟩
        | wait =>
          simp only [hsc, Option.some.injEq, Prod.mk.injEq] at h; obtain ⟨rfl, _⟩ := h
          refine ⟨_, rfl, .ctl rfl rfl rfl rfl rfl (by simp [pend, hpc]) (by simp [infl, hpc]) ?_ ?_ (Or.inl ⟨by simp [carry, hpc], rfl⟩) ?_⟩
          · pcnone
          · pcnone
          · pcnone
        | poll =>
          simp only [hsc, step.stepPsClosed] at h
          split at h
          · simp only [Option.some.injEq, Prod.mk.injEq] at h; obtain ⟨rfl, _⟩ := h
            exact ⟨_, rfl, .ctl rfl rfl rfl rfl rfl (by simp [pend, hpc]) (by simp [infl, hpc]) rfl rfl (Or.inl ⟨by simp [carry, hpc], rfl⟩) rfl⟩
          · simp only [Option.some.injEq, Prod.mk.injEq] at h; obtain ⟨rfl, _⟩ := h
            refine ⟨_, rfl, .ctl rfl rfl rfl rfl rfl (by simp [pend, hpc]) (by simp [infl, hpc]) ?_ ?_ (Or.inl ⟨by simp [carry, hpc], rfl⟩) ?_⟩
            · pcnone
            · pcnone
            · pcnone
        | forever =>
          simp only [hsc, step.stepPsClosed] at h
          split at h
          · simp only [Option.some.injEq, Prod.mk.injEq] at h; obtain ⟨rfl, _⟩ := h
            exact ⟨_, rfl, .ctl rfl rfl rfl rfl rfl (by simp [pend, hpc]) (by simp [infl, hpc]) rfl rfl (Or.inl ⟨by simp [carry, hpc], rfl⟩) rfl⟩
          · simp only [Option.some.injEq, Prod.mk.injEq] at h; obtain ⟨rfl, _⟩ := h
            refine ⟨_, rfl, .ctl rfl rfl rfl rfl rfl (by simp [pend, hpc]) (by simp [infl, hpc]) ?_ ?_ (Or.inl ⟨by simp [carry, hpc], rfl⟩) ?_⟩
            · pcnone
            · pcnone
            · pcnone
    | dEnq sig id =>
      simp only [hpc, Option.some.injEq, Prod.mk.injEq] at h; obtain ⟨rfl, _⟩ := h
      exact ⟨_, rfl, .sendEnd (sig, id) rfl rfl rfl rfl rfl (by simp [pend, hpc]) (by simp [infl, hpc]) rfl rfl rfl (by simp [carry, hpc]) rfl⟩
    | dWake sig id =>
      simp only [hpc, Option.some.injEq, Prod.mk.injEq] at h; obtain ⟨rfl, _⟩ := h
      exact ⟨_, rfl, .ctl rfl rfl rfl rfl rfl (by simp [pend, hpc]) (by simp [infl, hpc]) rfl rfl
        (Or.inr ⟨id, by simp [carry, hpc], rfl⟩) rfl⟩
    | cWake =>
      simp only [hpc, Option.some.injEq, Prod.mk.injEq] at h; obtain ⟨rfl, _⟩ := h
      exact ⟨_, rfl, .ctl rfl rfl rfl rfl rfl (by simp [pend, hpc]) (by simp [infl, hpc]) rfl rfl (Or.inl ⟨by simp [carry, hpc], rfl⟩) rfl⟩
    | flush m =>
      simp only [hpc, step.stepFlush] at h
      split at h
      · simp only [Option.some.injEq, Prod.mk.injEq] at h; obtain ⟨rfl, _⟩ := h
        exact ⟨_, rfl, .ctl rfl rfl rfl rfl rfl (by simp [pend, hpc]) (by simp [infl, hpc]) rfl rfl (Or.inl ⟨by simp [carry, hpc], rfl⟩) rfl⟩
      · cases m <;>
        · simp only [Option.some.injEq, Prod.mk.injEq] at h; obtain ⟨rfl, _⟩ := h
          exact ⟨_, rfl, .ctl rfl rfl rfl rfl rfl (by simp [pend, hpc]) (by simp [infl, hpc]) rfl rfl (Or.inl ⟨by simp [carry, hpc], rfl⟩) rfl⟩
    | scan m pos =>
      simp only [hpc] at h
      split at h
      · cases hh : headOf s.q pos with
        | some r =>
          simp only [hh, Option.some.injEq, Prod.mk.injEq] at h; obtain ⟨rfl, _⟩ := h
          have h1 := (head_erase s.q pos r hh).1
          refine ⟨_, rfl, .recvSome r (by rw [h1]; exact hh) rfl rfl rfl rfl rfl (by simp [pend, hpc]) (by simp [infl, hpc]) rfl ?_ rfl (by simp [carry, hpc]) rfl⟩
          simp [infl, ← h1]
        | none =>
          simp only [hh, Option.some.injEq, Prod.mk.injEq] at h; obtain ⟨rfl, _⟩ := h
          refine ⟨_, rfl, .ctl rfl rfl rfl rfl rfl (by simp [pend, hpc]) (by simp [infl, hpc]) ?_ ?_ (Or.inl ⟨by simp [carry, hpc], rfl⟩) ?_⟩
          · pcnone
          · pcnone
          · pcnone
      · simp only [Option.some.injEq, Prod.mk.injEq] at h; obtain ⟨rfl, _⟩ := h
        exact ⟨_, rfl, .ctl rfl rfl rfl rfl rfl (by simp [pend, hpc]) (by simp [infl, hpc]) rfl rfl (Or.inl ⟨by simp [carry, hpc], rfl⟩) rfl⟩
    | scanFin m pos id =>
      simp only [hpc, Option.some.injEq, Prod.mk.injEq] at h; obtain ⟨rfl, _⟩ := h
      exact ⟨_, rfl, .recvEnd (pos, id) rfl rfl rfl rfl rfl (by simp [pend, hpc]) (by simp [infl, hpc]) rfl rfl rfl (by simp [carry, hpc]) rfl⟩
    | psClosed m =>
      simp only [hpc, step.stepPsClosed] at h
      split at h
      · simp only [Option.some.injEq, Prod.mk.injEq] at h; obtain ⟨rfl, _⟩ := h
        exact ⟨_, rfl, .ctl rfl rfl rfl rfl rfl (by simp [pend, hpc]) (by simp [infl, hpc]) rfl rfl (Or.inl ⟨by simp [carry, hpc], rfl⟩) rfl⟩
      · simp only [Option.some.injEq, Prod.mk.injEq] at h; obtain ⟨rfl, _⟩ := h
        refine ⟨_, rfl, .ctl rfl rfl rfl rfl rfl (by simp [pend, hpc]) (by simp [infl, hpc]) ?_ ?_ (Or.inl ⟨by simp [carry, hpc], rfl⟩) ?_⟩
        · pcnone
        · pcnone
        · pcnone
    | psNext m =>
      simp only [hpc] at h
      cases hh : headOf s.q th.iterPos with
      | some r =>
        simp only [hh, Option.some.injEq, Prod.mk.injEq] at h; obtain ⟨rfl, _⟩ := h
        have h1 := (head_erase s.q th.iterPos r hh).1
        refine ⟨_, rfl, .recvSome r (by rw [h1]; exact hh) rfl rfl rfl rfl rfl (by simp [pend, hpc]) (by simp [infl, hpc]) rfl ?_ rfl (by simp [carry, hpc]) rfl⟩
        simp [infl, ← h1]
      | none =>
        simp only [hh, Option.some.injEq, Prod.mk.injEq] at h; obtain ⟨rfl, _⟩ := h
        refine ⟨_, rfl, .ctl rfl rfl rfl rfl rfl (by simp [pend, hpc]) (by simp [infl, hpc]) ?_ ?_ (Or.inl ⟨by simp [carry, hpc], rfl⟩) ?_⟩
        · pcnone
        · pcnone
        · pcnone
    | psFin m id =>
      simp only [hpc] at h
      cases m <;>
      · simp only [Option.some.injEq, Prod.mk.injEq] at h; obtain ⟨rfl, _⟩ := h
        exact ⟨_, rfl, .recvEnd (th.iterPos, id) rfl rfl rfl rfl rfl (by simp [pend, hpc]) (by simp [infl, hpc]) rfl rfl rfl (by simp [carry, hpc]) rfl⟩
    | ppClosed m =>
      simp only [hpc] at h
      split at h
      · split at h
        · simp only [Option.some.injEq, Prod.mk.injEq] at h; obtain ⟨rfl, _⟩ := h
          exact ⟨_, rfl, .ctl rfl rfl rfl rfl rfl (by simp [pend, hpc]) (by simp [infl, hpc]) rfl rfl (Or.inl ⟨by simp [carry, hpc], rfl⟩) rfl⟩
        · cases m <;>
          · simp only [Option.some.injEq, Prod.mk.injEq] at h; obtain ⟨rfl, _⟩ := h
            exact ⟨_, rfl, .ctl rfl rfl rfl rfl rfl (by simp [pend, hpc]) (by simp [infl, hpc]) rfl rfl (Or.inl ⟨by simp [carry, hpc], rfl⟩) rfl⟩
      · simp only [Option.some.injEq, Prod.mk.injEq] at h; obtain ⟨rfl, _⟩ := h
        exact ⟨_, rfl, .ctl rfl rfl rfl rfl rfl (by simp [pend, hpc]) (by simp [infl, hpc]) rfl rfl (Or.inl ⟨by simp [carry, hpc], rfl⟩) rfl⟩
    | psRecheck m =>
      simp only [hpc] at h
      split at h
      · simp only [Option.some.injEq, Prod.mk.injEq] at h; obtain ⟨rfl, _⟩ := h
        exact ⟨_, rfl, .ctl rfl rfl rfl rfl rfl (by simp [pend, hpc]) (by simp [infl, hpc]) rfl rfl (Or.inl ⟨by simp [carry, hpc], rfl⟩) rfl⟩
      · cases m <;>
        · simp only [Option.some.injEq, Prod.mk.injEq] at h; obtain ⟨rfl, _⟩ := h
          exact ⟨_, rfl, .ctl rfl rfl rfl rfl rfl (by simp [pend, hpc]) (by simp [infl, hpc]) rfl rfl (Or.inl ⟨by simp [carry, hpc], rfl⟩) rfl⟩
    | ppCallback m =>
      simp only [hpc] at h
      split at h
      · split at h
        · simp at h
        · simp only [Option.some.injEq, Prod.mk.injEq] at h; obtain ⟨rfl, _⟩ := h
          exact ⟨_, rfl, .ctl rfl rfl rfl rfl rfl (by simp [pend, hpc]) (by simp [infl, hpc]) rfl rfl (Or.inl ⟨by simp [carry, hpc], rfl⟩) rfl⟩
      · split at h
        · split at h
          all_goals
            simp only [Option.some.injEq, Prod.mk.injEq] at h; obtain ⟨rfl, _⟩ := h
            exact ⟨_, rfl, .ctl rfl rfl rfl rfl rfl (by simp [pend, hpc]) (by simp [infl, hpc]) rfl rfl (Or.inl ⟨by simp [carry, hpc], rfl⟩) rfl⟩
        · simp only [Option.some.injEq, Prod.mk.injEq] at h; obtain ⟨rfl, _⟩ := h
          exact ⟨_, rfl, .ctl rfl rfl rfl rfl rfl (by simp [pend, hpc]) (by simp [infl, hpc]) rfl rfl (Or.inl ⟨by simp [carry, hpc], rfl⟩) rfl⟩

/-! ## thread list after a step -/

theorem get_set {s s' : Sys} {t : Nat} {th th' : Thread} (hth : s.threads[t]? = some th)
    (hset : s'.threads = s.threads.set t th') (j : Nat) :
    s'.threads[j]? = if t = j then some th' else s.threads[j]? := by
  have hlt : t < s.threads.length := (List.getElem?_eq_some_iff.1 hth).1
  rw [hset, List.getElem?_set]
  split
  · simp [hlt]
  · rfl

/-! ## CapInv: never more than `SLOTS` indexes of one channel queued or held -/

def CapInv (s : Sys) : Prop := ∀ sig, busy s sig ≤ slots

theorem b2n (b : Bool) : (if b = true then 1 else 0 : Nat) ≤ 1 := by split <;> omega

theorem busy_step {s s' : Sys} {t : Nat} {th th' : Thread} (hth : s.threads[t]? = some th)
    (hset : s'.threads = s.threads.set t th') (sig : Nat) :
    busy s' sig + (if th.holds sig then 1 else 0) =
      (qOf s'.q sig).length + s.threads.countP (Thread.holds sig) + (if th'.holds sig then 1 else 0) := by
  have := countP_set (Thread.holds sig) s.threads t th th' hth
  unfold busy
  rw [hset]
  omega

theorem cap_step (rc : Bool) (s s' : Sys) (t : Nat) (o : Out) (hinv : CapInv s)
    (h : step rc s t = some (s', o)) : CapInv s' := by
  obtain ⟨th, th', hth, hset, heff⟩ := step_eff rc s s' t o h
  intro sig
  have hb := busy_step hth hset sig
  have h0 := hinv sig
  unfold busy at h0
  rw [holds_eq th sig, holds_eq th' sig] at hb
  cases heff with
  | ctl hq _ _ _ _ p1 i1 p2 i2 _ _ =>
    rw [p1, i1, p2, i2, hq] at hb; simp [holdsRec] at hb; omega
  | sendOk sg hlt hq _ _ _ _ p1 i1 p2 i2 _ _ _ =>
    rw [p1, i1, p2, i2, hq] at hb
    simp only [holdsRec, Bool.or_false, Bool.false_eq_true, if_false, Nat.add_zero] at hb
    by_cases hs : sg = sig
    · subst hs; unfold busy at hlt; simp at hb; omega
    · have : (sg == sig) = false := by simpa using hs
      simp [this] at hb; omega
  | sendDrop sg hq _ _ _ _ p1 i1 p2 i2 _ _ _ =>
    rw [p1, i1, p2, i2, hq] at hb; simp [holdsRec] at hb; omega
  | sendEnd r hq _ _ _ _ p1 i1 p2 i2 _ _ _ =>
    rw [p1, i1, p2, i2, hq, qOf_append] at hb
    simp only [holdsRec, Bool.or_false, Bool.false_eq_true, if_false, Nat.add_zero, List.length_append] at hb
    by_cases e : (r.1 == sig) = true
    · have hr : (qOf [r] sig).length = 1 := by simp [qOf, e]
      rw [hr] at hb; simp only [e, if_true] at hb; omega
    · have hr : (qOf [r] sig).length = 0 := by simp [qOf, e]
      rw [hr] at hb; simp only [e, if_false] at hb; omega
  | recvSome r hh hq _ _ _ _ p1 i1 p2 i2 _ _ _ =>
    rw [p1, i1, p2, i2, hq] at hb
    simp only [holdsRec, Bool.false_or, Bool.or_false, Bool.false_eq_true, if_false, Nat.add_zero] at hb
    obtain ⟨_, _, h3⟩ := head_erase s.q r.1 r hh
    by_cases hs : r.1 = sig
    · have e : (r.1 == sig) = true := by simpa using hs
      rw [hs] at h3
      rw [h3] at h0
      simp [e] at hb h0; omega
    · have e : (r.1 == sig) = false := by simpa using hs
      rw [erase_other s.q sig r hs] at hb
      simp [e] at hb; omega
  | recvEnd r hq _ _ _ _ p1 i1 p2 i2 _ _ _ =>
    rw [p1, i1, p2, i2, hq] at hb
    simp only [holdsRec, Bool.false_or, Bool.or_false, Bool.false_eq_true, if_false, Nat.add_zero] at hb
    have := b2n (r.1 == sig)
    omega

theorem cap_init (w : List Nat) (cap pipe : Nat) (scripts : List (List Cmd)) : CapInv (Sys.init w cap pipe scripts) := by
  intro sig
  have : (List.map (fun sc => ({ script := sc, pc := Pc.idle } : Thread)) scripts).countP (Thread.holds sig) = 0 := by
    rw [List.countP_eq_zero]
    intro th hm
    simp only [List.mem_map] at hm
    obtain ⟨sc, _, rfl⟩ := hm
    simp [Thread.holds]
  simp [busy, Sys.init, qOf, this]

theorem cap_reachable {rc : Bool} {w : List Nat} {cap pipe : Nat} {scripts : List (List Cmd)} {s : Sys}
    (hr : Reachable rc w cap pipe scripts s) : CapInv s := by
  induction hr with
  | init => exact cap_init _ _ _ _
  | step _ hs ih => exact cap_step _ _ _ _ _ ih hs

/-! ## IdsInv: queued records are records of deliveries that began, each at most once -/

structure IdsInv (s : Sys) : Prop where
  fresh : ∀ r ∈ s.begun, r.2 < s.nextId
  distinct : (s.begun.map (·.2)).Nodup
  sentBegun : ∀ r ∈ s.sent, r ∈ s.begun
  sentNodup : s.sent.Nodup
  pendOk : ∀ (t : Nat) (th : Thread) (r : Rec), s.threads[t]? = some th → pend th = some r → r ∈ s.begun ∧ r ∉ s.sent
  pendDistinct : ∀ (t t' : Nat) (th th' : Thread) (r : Rec), t ≠ t' → s.threads[t]? = some th →
    s.threads[t']? = some th' → pend th = some r → pend th' ≠ some r

theorem ids_step (rc : Bool) (s s' : Sys) (t : Nat) (o : Out) (hinv : IdsInv s)
    (h : step rc s t = some (s', o)) : IdsInv s' := by
  obtain ⟨th, th', hth, hset, heff⟩ := step_eff rc s s' t o h
  have hget := get_set hth hset
  -- a step that leaves begun / sent / nextId alone and does not create a pending record
  have quiet : s'.begun = s.begun → s'.sent = s.sent → s'.nextId = s.nextId → pend th' = none → IdsInv s' := by
    intro hb hs hn hp
    refine ⟨by rw [hb, hn]; exact hinv.fresh, by rw [hb]; exact hinv.distinct, by rw [hb, hs]; exact hinv.sentBegun,
      by rw [hs]; exact hinv.sentNodup, ?_, ?_⟩
    · intro j thj r hj hpj
      rw [hget j] at hj
      split at hj
      · injection hj with e; subst e; rw [hp] at hpj; cases hpj
      · rw [hb, hs]; exact hinv.pendOk j thj r hj hpj
    · intro j j' thj thj' r hne hj hj' hpj
      rw [hget j] at hj; rw [hget j'] at hj'
      split at hj
      · injection hj with e; subst e; rw [hp] at hpj; cases hpj
      · split at hj'
        · injection hj' with e; subst e; rw [hp]; simp
        · exact hinv.pendDistinct j j' thj thj' r hne hj hj' hpj
  cases heff with
  | ctl _ hs _ hb hn _ _ p2 _ _ _ => exact quiet hb hs hn p2
  | recvSome r _ _ hs _ hb hn _ _ p2 _ _ _ _ => exact quiet hb hs hn p2
  | recvEnd r _ hs _ hb hn _ _ p2 _ _ _ _ => exact quiet hb hs hn p2
  | sendDrop sg _ hs _ hb hn _ _ p2 _ _ _ _ =>
    have hfresh : ∀ r ∈ s.begun, r.2 ≠ s.nextId := fun r hr => Nat.ne_of_lt (hinv.fresh r hr)
    refine ⟨?_, ?_, ?_, by rw [hs]; exact hinv.sentNodup, ?_, ?_⟩
    · intro r hr; rw [hb] at hr; rw [hn]
      rcases List.mem_cons.1 hr with rfl | hr
      · exact Nat.lt_succ_self _
      · exact Nat.lt_succ_of_lt (hinv.fresh r hr)
    · rw [hb]; simp only [List.map_cons, List.nodup_cons]
      refine ⟨?_, hinv.distinct⟩
      intro hm; obtain ⟨r, hr, he⟩ := List.mem_map.1 hm
      exact hfresh r hr he
    · intro r hr; rw [hs] at hr; rw [hb]; exact List.mem_cons_of_mem _ (hinv.sentBegun r hr)
    · intro j thj r hj hpj
      rw [hget j] at hj
      split at hj
      · injection hj with e; subst e; rw [p2] at hpj; cases hpj
      · rw [hb, hs]; exact ⟨List.mem_cons_of_mem _ (hinv.pendOk j thj r hj hpj).1, (hinv.pendOk j thj r hj hpj).2⟩
    · intro j j' thj thj' r hne hj hj' hpj
      rw [hget j] at hj; rw [hget j'] at hj'
      split at hj
      · injection hj with e; subst e; rw [p2] at hpj; cases hpj
      · split at hj'
        · injection hj' with e; subst e; rw [p2]; simp
        · exact hinv.pendDistinct j j' thj thj' r hne hj hj' hpj
  | sendOk sg _ _ hs _ hb hn _ _ p2 _ _ _ _ =>
    have hfresh : ∀ r ∈ s.begun, r.2 ≠ s.nextId := fun r hr => Nat.ne_of_lt (hinv.fresh r hr)
    have hnew : (sg, s.nextId) ∉ s.sent := fun hm => hfresh _ (hinv.sentBegun _ hm) rfl
    refine ⟨?_, ?_, ?_, by rw [hs]; exact hinv.sentNodup, ?_, ?_⟩
    · intro r hr; rw [hb] at hr; rw [hn]
      rcases List.mem_cons.1 hr with rfl | hr
      · exact Nat.lt_succ_self _
      · exact Nat.lt_succ_of_lt (hinv.fresh r hr)
    · rw [hb]; simp only [List.map_cons, List.nodup_cons]
      refine ⟨?_, hinv.distinct⟩
      intro hm; obtain ⟨r, hr, he⟩ := List.mem_map.1 hm
      exact hfresh r hr he
    · intro r hr; rw [hs] at hr; rw [hb]; exact List.mem_cons_of_mem _ (hinv.sentBegun r hr)
    · intro j thj r hj hpj
      rw [hget j] at hj
      split at hj
      · injection hj with e; subst e; rw [p2] at hpj; injection hpj with e; subst e
        rw [hb, hs]; exact ⟨List.mem_cons_self, hnew⟩
      · rw [hb, hs]; exact ⟨List.mem_cons_of_mem _ (hinv.pendOk j thj r hj hpj).1, (hinv.pendOk j thj r hj hpj).2⟩
    · intro j j' thj thj' r hne hj hj' hpj
      rw [hget j] at hj; rw [hget j'] at hj'
      split at hj
      · injection hj with e; subst e; rw [p2] at hpj; injection hpj with e; subst e
        split at hj'
        · rename_i e1 e2; exact absurd (e1.symm.trans e2) hne
        · intro hc
          exact hfresh _ (hinv.pendOk j' thj' _ hj' hc).1 rfl
      · split at hj'
        · injection hj' with e; subst e; rw [p2]
          intro hc; injection hc with hc; subst hc
          exact hfresh _ (hinv.pendOk j thj _ hj hpj).1 rfl
        · exact hinv.pendDistinct j j' thj thj' r hne hj hj' hpj
  | sendEnd r _ hs _ hb hn p1 _ p2 _ _ _ _ =>
    obtain ⟨hrb, hrs⟩ := hinv.pendOk t th r hth p1
    refine ⟨by rw [hb, hn]; exact hinv.fresh, by rw [hb]; exact hinv.distinct, ?_, ?_, ?_, ?_⟩
    · intro x hx; rw [hs] at hx; rw [hb]
      rcases List.mem_append.1 hx with hx | hx
      · exact hinv.sentBegun x hx
      · simp at hx; subst hx; exact hrb
    · rw [hs]; exact List.nodup_append.2 ⟨hinv.sentNodup, by simp, by intro a ha b hb2; simp at hb2; subst hb2; intro e; subst e; exact hrs ha⟩
    · intro j thj x hj hpj
      rw [hget j] at hj
      split at hj
      · injection hj with e; subst e; rw [p2] at hpj; cases hpj
      · rename_i hne
        rw [hb, hs]
        refine ⟨(hinv.pendOk j thj x hj hpj).1, ?_⟩
        intro hm
        rcases List.mem_append.1 hm with hm | hm
        · exact (hinv.pendOk j thj x hj hpj).2 hm
        · simp at hm; subst hm
          exact hinv.pendDistinct j t thj th x (Ne.symm hne) hj hth hpj p1
    · intro j j' thj thj' x hne hj hj' hpj
      rw [hget j] at hj; rw [hget j'] at hj'
      split at hj
      · injection hj with e; subst e; rw [p2] at hpj; cases hpj
      · split at hj'
        · injection hj' with e; subst e; rw [p2]; simp
        · exact hinv.pendDistinct j j' thj thj' x hne hj hj' hpj

theorem ids_init (w : List Nat) (cap pipe : Nat) (scripts : List (List Cmd)) : IdsInv (Sys.init w cap pipe scripts) := by
  refine ⟨by simp [Sys.init], by simp [Sys.init], by simp [Sys.init], by simp [Sys.init], ?_, ?_⟩
  · intro t th r ht hp
    simp only [Sys.init, List.getElem?_map] at ht
    cases hs : scripts[t]? with
    | none => simp [hs] at ht
    | some sc => simp [hs] at ht; subst ht; simp [pend] at hp
  · intro t t' th th' r _ ht _ hp
    simp only [Sys.init, List.getElem?_map] at ht
    cases hs : scripts[t]? with
    | none => simp [hs] at ht
    | some sc => simp [hs] at ht; subst ht; simp [pend] at hp

theorem ids_reachable {rc : Bool} {w : List Nat} {cap pipe : Nat} {scripts : List (List Cmd)} {s : Sys}
    (hr : Reachable rc w cap pipe scripts s) : IdsInv s := by
  induction hr with
  | init => exact ids_init _ _ _ _
  | step _ hs ih => exact ids_step _ _ _ _ _ ih hs

/-! ## FifoInv: one consumer; per signal, handed out ++ in its hands ++ queued = sent, in order -/

/-- a thread that only delivers / closes -/
def Thread.producer (th : Thread) : Prop :=
  (th.pc = .idle ∨ (∃ sg i, th.pc = .dEnq sg i) ∨ (∃ sg i, th.pc = .dWake sg i) ∨ th.pc = .cWake) ∧
  (∀ c ∈ th.script, c = .close ∨ ∃ sg, c = .deliver sg)

theorem producer_infl (th : Thread) (h : th.producer) : infl th = none := by
  rcases h.1 with h | ⟨_, _, h⟩ | ⟨_, _, h⟩ | h <;> simp [infl, h]

/-- a producer's step leaves it a producer -/
theorem producer_step (rc : Bool) (s s' : Sys) (t : Nat) (o : Out) (th : Thread) (hth : s.threads[t]? = some th)
    (hp : th.producer) (h : step rc s t = some (s', o)) :
    ∃ th', s'.threads = s.threads.set t th' ∧ th'.producer := by
  unfold step at h
  simp only [hth] at h
  obtain ⟨hpc, hsc⟩ := hp
  rcases hpc with hpc | ⟨sg, i, hpc⟩ | ⟨sg, i, hpc⟩ | hpc
  · simp only [hpc] at h
    cases hs : th.script with
    | nil => simp [hs] at h
    | cons cmd rest =>
      have hrest : ∀ c ∈ rest, c = .close ∨ ∃ sg, c = .deliver sg :=
        fun c hc => hsc c (by rw [hs]; exact List.mem_cons_of_mem _ hc)
      rcases hsc cmd (by rw [hs]; simp) with rfl | ⟨sg, rfl⟩
      · simp only [hs, Option.some.injEq, Prod.mk.injEq] at h; obtain ⟨rfl, _⟩ := h
        exact ⟨_, rfl, Or.inr (Or.inr (Or.inr rfl)), hrest⟩
      · simp only [hs] at h
        split at h
        · simp only [Option.some.injEq, Prod.mk.injEq] at h; obtain ⟨rfl, _⟩ := h
          exact ⟨_, rfl, Or.inr (Or.inl ⟨_, _, rfl⟩), hrest⟩
        · simp only [Option.some.injEq, Prod.mk.injEq] at h; obtain ⟨rfl, _⟩ := h
          exact ⟨_, rfl, Or.inr (Or.inr (Or.inl ⟨_, _, rfl⟩)), hrest⟩
  · simp only [hpc, Option.some.injEq, Prod.mk.injEq] at h; obtain ⟨rfl, _⟩ := h
    exact ⟨_, rfl, Or.inr (Or.inr (Or.inl ⟨_, _, rfl⟩)), hsc⟩
  · simp only [hpc, Option.some.injEq, Prod.mk.injEq] at h; obtain ⟨rfl, _⟩ := h
    exact ⟨_, rfl, Or.inl rfl, hsc⟩
  · simp only [hpc, Option.some.injEq, Prod.mk.injEq] at h; obtain ⟨rfl, _⟩ := h
    exact ⟨_, rfl, Or.inl rfl, hsc⟩

/-- what the consumer holds, as a list -/
def inHand (th : Thread) : List Rec := (infl th).toList

structure FifoInv (c : Nat) (s : Sys) : Prop where
  others : ∀ (t : Nat) (th : Thread), t ≠ c → s.threads[t]? = some th → th.producer
  cons : ∃ th, s.threads[c]? = some th
  fifo : ∀ th, s.threads[c]? = some th → ∀ sig, qOf (s.yields ++ inHand th ++ s.q) sig = qOf s.sent sig

theorem fifo_step (rc : Bool) (c : Nat) (s s' : Sys) (t : Nat) (o : Out) (hinv : FifoInv c s)
    (h : step rc s t = some (s', o)) : FifoInv c s' := by
  obtain ⟨th, th', hth, hset, heff⟩ := step_eff rc s s' t o h
  have hget := get_set hth hset
  obtain ⟨thc, hthc⟩ := hinv.cons
  have hf := hinv.fifo thc hthc
  by_cases htc : t = c
  · subst htc
    rw [hth] at hthc; injection hthc with e; subst e
    refine ⟨?_, ⟨th', by rw [hget t]; simp⟩, ?_⟩
    · intro j thj hj hjj
      rw [hget j] at hjj; simp [Ne.symm hj] at hjj
      exact hinv.others j thj hj hjj
    · intro th2 h2 sig
      rw [hget t] at h2; simp at h2; subst h2
      have hf := hf sig
      cases heff with
      | ctl hq hs hy _ _ _ i1 _ i2 _ _ => simp only [inHand, i1, i2, hq, hs, hy] at hf ⊢; exact hf
      | sendOk _ _ hq hs hy _ _ _ i1 _ i2 _ _ _ => simp only [inHand, i1, i2, hq, hs, hy] at hf ⊢; exact hf
      | sendDrop _ hq hs hy _ _ _ i1 _ i2 _ _ _ => simp only [inHand, i1, i2, hq, hs, hy] at hf ⊢; exact hf
      | sendEnd r hq hs hy _ _ _ i1 _ i2 _ _ _ =>
        simp only [inHand, i1, i2, hq, hs, hy, Option.toList_none, List.append_nil] at hf ⊢
        rw [← List.append_assoc, qOf_append, hf, qOf_append]
      | recvSome r hh hq hs hy _ _ _ i1 _ i2 _ _ _ =>
        simp only [inHand, i1, i2, hq, hs, hy, Option.toList_none, Option.toList_some, List.append_nil] at hf ⊢
        rw [← hf]
        simp only [qOf_append]
        obtain ⟨_, _, h3⟩ := head_erase s.q r.1 r hh
        by_cases e : r.1 = sig
        · subst e; rw [h3]
          have : qOf [r] r.1 = [r] := by simp [qOf]
          rw [this]; simp
        · rw [erase_other s.q sig r e]
          have : qOf [r] sig = [] := by
            have : (r.1 == sig) = false := by simpa using e
            simp [qOf, this]
          rw [this]; simp
      | recvEnd r hq hs hy _ _ _ i1 _ i2 _ _ _ =>
        simp only [inHand, i1, i2, hq, hs, hy, Option.toList_none, Option.toList_some, List.append_nil] at hf ⊢
        rw [← hf]
  · -- a producer's step
    have hprod := hinv.others t th htc hth
    obtain ⟨th2, hset2, hp2⟩ := producer_step rc s s' t o th hth hprod h
    have hlt : t < s.threads.length := (List.getElem?_eq_some_iff.1 hth).1
    have e2 : th2 = th' := by
      have a : s'.threads[t]? = some th2 := by rw [hset2]; simp [hlt]
      have b : s'.threads[t]? = some th' := by rw [hset]; simp [hlt]
      rw [a] at b; injection b
    subst e2
    have hcsame : s'.threads[c]? = s.threads[c]? := by rw [hget c]; simp [htc]
    refine ⟨?_, ⟨thc, by rw [hcsame]; exact hthc⟩, ?_⟩
    · intro j thj hj hjj
      rw [hget j] at hjj
      split at hjj
      · injection hjj with e; subst e; exact hp2
      · exact hinv.others j thj hj hjj
    · intro thx hx sig
      rw [hcsame, hthc] at hx; injection hx with e; subst e
      have hf := hf sig
      have i1 := producer_infl th hprod
      have i2 := producer_infl th2 hp2
      cases heff with
      | ctl hq hs hy _ _ _ _ _ _ _ _ => rw [hq, hs, hy]; exact hf
      | sendOk _ _ hq hs hy _ _ _ _ _ _ _ _ _ => rw [hq, hs, hy]; exact hf
      | sendDrop _ hq hs hy _ _ _ _ _ _ _ _ _ => rw [hq, hs, hy]; exact hf
      | sendEnd r hq hs hy _ _ _ _ _ _ _ _ _ =>
        rw [hq, hs, hy, ← List.append_assoc, qOf_append, hf, qOf_append]
      | recvSome r _ _ _ _ _ _ _ _ _ i2' _ _ _ => rw [i2] at i2'; cases i2'
      | recvEnd r _ _ _ _ _ _ i1' _ _ _ _ _ => rw [i1] at i1'; cases i1'

theorem fifo_init (c : Nat) (w : List Nat) (cap pipe : Nat) (scripts : List (List Cmd)) (hc : c < scripts.length)
    (hp : ∀ (t : Nat) (sc : List Cmd), t ≠ c → scripts[t]? = some sc → ∀ cmd ∈ sc, cmd = .close ∨ ∃ sg, cmd = .deliver sg) :
    FifoInv c (Sys.init w cap pipe scripts) := by
  refine ⟨?_, ?_, ?_⟩
  · intro t th htc hth
    simp only [Sys.init, List.getElem?_map] at hth
    cases hs : scripts[t]? with
    | none => simp [hs] at hth
    | some sc => simp [hs] at hth; subst hth; exact ⟨Or.inl rfl, hp t sc htc hs⟩
  · exact ⟨{ script := scripts[c], pc := .idle }, by simp [Sys.init, hc]⟩
  · intro th hth sig
    simp only [Sys.init, List.getElem?_map] at hth
    cases hs : scripts[c]? with
    | none => simp [hs] at hth
    | some sc => simp [hs] at hth; subst hth; simp [Sys.init, inHand, infl, qOf]

theorem fifo_reachable {rc : Bool} {c : Nat} {w : List Nat} {cap pipe : Nat} {scripts : List (List Cmd)} {s : Sys}
    (hc : c < scripts.length)
    (hp : ∀ (t : Nat) (sc : List Cmd), t ≠ c → scripts[t]? = some sc → ∀ cmd ∈ sc, cmd = .close ∨ ∃ sg, cmd = .deliver sg)
    (hr : Reachable rc w cap pipe scripts s) : FifoInv c s := by
  induction hr with
  | init => exact fifo_init c _ _ _ _ hc hp
  | step _ hs ih => exact fifo_step _ _ _ _ _ _ ih hs

/-! ## CarryInv: a delivery's wake-up has not happened while it is still in progress -/

structure CarryInv (s : Sys) : Prop where
  wokenOld : ∀ i ∈ s.woken, i < s.nextId
  carryOk : ∀ (t : Nat) (th : Thread) (i : Nat), s.threads[t]? = some th → carry th = some i → i < s.nextId ∧ i ∉ s.woken
  carryDistinct : ∀ (t t' : Nat) (th th' : Thread) (i : Nat), t ≠ t' → s.threads[t]? = some th →
    s.threads[t']? = some th' → carry th = some i → carry th' ≠ some i

theorem carry_step (rc : Bool) (s s' : Sys) (t : Nat) (o : Out) (hinv : CarryInv s)
    (h : step rc s t = some (s', o)) : CarryInv s' := by
  obtain ⟨th, th', hth, hset, heff⟩ := step_eff rc s s' t o h
  have hget := get_set hth hset
  -- a step that starts nothing: the thread carries afterwards what it carried before, or nothing
  have quiet : s'.nextId = s.nextId → s'.woken = s.woken → (carry th' = carry th ∨ carry th' = none) → CarryInv s' := by
    intro hn hw hc
    refine ⟨by rw [hw, hn]; exact hinv.wokenOld, ?_, ?_⟩
    · intro j thj i hj hcj
      rw [hget j] at hj
      rw [hn, hw]
      split at hj
      · injection hj with e; subst e
        rcases hc with hc | hc
        · rw [hc] at hcj; exact hinv.carryOk t th i hth hcj
        · rw [hc] at hcj; cases hcj
      · exact hinv.carryOk j thj i hj hcj
    · intro j j' thj thj' i hne hj hj' hcj
      rw [hget j] at hj; rw [hget j'] at hj'
      split at hj
      · rename_i e1
        injection hj with e; subst e
        split at hj'
        · rename_i e2; exact absurd (e1.symm.trans e2) hne
        · rcases hc with hc | hc
          · rw [hc] at hcj; rw [← e1] at hne; exact hinv.carryDistinct t j' th thj' i hne hth hj' hcj
          · rw [hc] at hcj; cases hcj
      · split at hj'
        · rename_i e2
          injection hj' with e; subst e
          rcases hc with hc | hc
          · rw [hc]; rw [← e2] at hne; exact hinv.carryDistinct j t thj th i hne hj hth hcj
          · rw [hc]; simp
        · exact hinv.carryDistinct j j' thj thj' i hne hj hj' hcj
  -- a delivery begins: the thread carries the fresh id
  have start : s'.nextId = s.nextId + 1 → s'.woken = s.woken → carry th' = some s.nextId → CarryInv s' := by
    intro hn hw hc
    refine ⟨by rw [hw, hn]; intro i hi; exact Nat.lt_succ_of_lt (hinv.wokenOld i hi), ?_, ?_⟩
    · intro j thj i hj hcj
      rw [hget j] at hj
      rw [hn, hw]
      split at hj
      · injection hj with e; subst e
        rw [hc] at hcj; injection hcj with e; subst e
        exact ⟨Nat.lt_succ_self _, fun hm => Nat.lt_irrefl _ (hinv.wokenOld _ hm)⟩
      · exact ⟨Nat.lt_succ_of_lt (hinv.carryOk j thj i hj hcj).1, (hinv.carryOk j thj i hj hcj).2⟩
    · intro j j' thj thj' i hne hj hj' hcj
      rw [hget j] at hj; rw [hget j'] at hj'
      split at hj
      · rename_i e1
        injection hj with e; subst e
        rw [hc] at hcj; injection hcj with e; subst e
        split at hj'
        · rename_i e2; exact absurd (e1.symm.trans e2) hne
        · intro hx; exact Nat.lt_irrefl _ (hinv.carryOk j' thj' _ hj' hx).1
      · split at hj'
        · injection hj' with e; subst e
          rw [hc]; intro hx; injection hx with hx; subst hx
          exact Nat.lt_irrefl _ (hinv.carryOk j thj _ hj hcj).1
        · exact hinv.carryDistinct j j' thj thj' i hne hj hj' hcj
  cases heff with
  | ctl _ _ _ _ hn _ _ _ _ hw hc' =>
    rcases hw with ⟨_, hw⟩ | ⟨i, hci, hw⟩
    · exact quiet hn hw (Or.inr hc')
    · -- the wake of delivery `i`: it is carried by this thread only
      refine ⟨?_, ?_, ?_⟩
      · intro x hx; rw [hw] at hx; rw [hn]
        rcases List.mem_cons.1 hx with rfl | hx
        · exact (hinv.carryOk t th _ hth hci).1
        · exact hinv.wokenOld x hx
      · intro j thj x hj hcj
        rw [hget j] at hj
        rw [hn, hw]
        split at hj
        · injection hj with e; subst e; rw [hc'] at hcj; cases hcj
        · rename_i hne
          refine ⟨(hinv.carryOk j thj x hj hcj).1, ?_⟩
          intro hm
          rcases List.mem_cons.1 hm with rfl | hm
          · exact hinv.carryDistinct t j th thj _ hne hth hj hci hcj
          · exact (hinv.carryOk j thj x hj hcj).2 hm
      · intro j j' thj thj' x hne hj hj' hcj
        rw [hget j] at hj; rw [hget j'] at hj'
        split at hj
        · injection hj with e; subst e; rw [hc'] at hcj; cases hcj
        · split at hj'
          · injection hj' with e; subst e; rw [hc']; simp
          · exact hinv.carryDistinct j j' thj thj' x hne hj hj' hcj
  | sendOk _ _ _ _ _ _ hn _ _ _ _ hw _ hc' => exact start hn hw hc'
  | sendDrop _ _ _ _ _ hn _ _ _ _ hw _ hc' => exact start hn hw hc'
  | sendEnd r _ _ _ _ hn _ _ _ _ hw hc hc' => exact quiet hn hw (Or.inl (hc'.trans hc.symm))
  | recvSome r _ _ _ _ _ hn _ _ _ _ hw _ hc' => exact quiet hn hw (Or.inr hc')
  | recvEnd r _ _ _ _ hn _ _ _ _ hw _ hc' => exact quiet hn hw (Or.inr hc')

theorem carry_init (w : List Nat) (cap pipe : Nat) (scripts : List (List Cmd)) : CarryInv (Sys.init w cap pipe scripts) := by
  refine ⟨by simp [Sys.init], ?_, ?_⟩
  · intro t th i ht hc
    simp only [Sys.init, List.getElem?_map] at ht
    cases hs : scripts[t]? with
    | none => simp [hs] at ht
    | some sc => simp [hs] at ht; subst ht; simp [carry] at hc
  · intro t t' th th' i _ ht _ hc
    simp only [Sys.init, List.getElem?_map] at ht
    cases hs : scripts[t]? with
    | none => simp [hs] at ht
    | some sc => simp [hs] at ht; subst ht; simp [carry] at hc

theorem carry_reachable {rc : Bool} {w : List Nat} {cap pipe : Nat} {scripts : List (List Cmd)} {s : Sys}
    (hr : Reachable rc w cap pipe scripts s) : CarryInv s := by
  induction hr with
  | init => exact carry_init _ _ _ _
  | step _ hs ih => exact carry_step _ _ _ _ _ ih hs

end SigHook.IterQ
