import SigHook.Lemmas.RegistryConcFacts
/-! Deliveries: the library's disposition is in place while one runs, and what it executes is a
suffix of the action list of the snapshot it pinned (which stays live, hence unchanged). -/
namespace SigHook.RegConc
open SigHook.Registry (Disp Slot Env lookup update btInsert btRemove prevCalled)
open SigHook.HalfLock (Phase phaseAt pcAt Obs)

def deliverySig : Pc → Option Int
  | .dFb s | .dData s | .dPlan s _ _ | .dRelF s => some s
  | _ => none

/-- action tags of `sig` in registry contents `d`, in execution order -/
def tagsFor (d : SigData) (sig : Int) : List Nat :=
  match lookup sig d.signals with
  | some slot => slot.actions.map (·.2)
  | none => []

theorem planOf_snd (d : SigData) (fp : Option (Int × Disp)) (sig : Int) : (planOf d fp sig).2 = tagsFor d sig := by
  unfold planOf tagsFor
  cases lookup sig d.signals with
  | some slot => rfl
  | none =>
    cases fp with
    | none => rfl
    | some q => obtain ⟨a, b⟩ := q; simp only; split <;> rfl

def PlanT (s : Sys) (t : Nat) : Pc → Prop
  | .dPlan sig _ tags =>
    ∃ p d, phaseAt s.hd t = .rHold p 0 ∧ lookupN p s.cd = some d ∧ ∃ pre, pre ++ tags = tagsFor d sig
  | _ => True

structure Inv7a (s : Sys) : Prop where
  lib : ∀ (t : Nat) (th : Thread) (sig : Int), s.threads[t]? = some th → deliverySig th.pc = some sig → ∃ f, dispOf s sig = .lib f
  plan : ∀ (t : Nat) (th : Thread), s.threads[t]? = some th → PlanT s t th.pc

theorem dispOf_update (s : Sys) (sig sig' : Int) (d : Disp) (X : Sys) (hX : X.disp = update sig d s.disp) :
    dispOf X sig' = if sig = sig' then d else dispOf s sig' := by
  unfold dispOf; rw [hX, Registry.lookup_update]
  split <;> simp_all

/-- **the library's disposition is sticky** -/
theorem lib_sticky {env : Env} {s s' : Sys} {t : Nat} {th : Thread} {out : StepOut}
    (h6 : Step6 env s t th s' out) (sig : Int) (f : Nat) (h : dispOf s sig = .lib f) :
    ∃ f', dispOf s' sig = .lib f' := by
  cases h6 with
  | setOk sg tag new res hpc hr =>
    have := dispOf_update s sg sig (.lib env.libFlags)
      (setT { s with disp := update sg (.lib env.libFlags) s.disp } t
        { th with pc := .mRunD (some (withSlot new sg (dispOf s sg) res.idOr0 tag)) res }) rfl
    rw [this]; split
    · exact ⟨_, rfl⟩
    · exact ⟨f, h⟩
  | _ => exact ⟨f, h⟩

theorem setT_get (X : Sys) (t : Nat) (th' : Thread) (ht : t < X.threads.length) :
    (setT X t th').threads[t]? = some th' := by simp [setT, ht]

theorem inv7a_step {env : Env} {s s' : Sys} {t : Nat} {th : Thread} {out : StepOut}
    (hI : Inv6 env s) (h7 : Inv7a s) (hth : s.threads[t]? = some th) (h6 : Step6 env s t th s' out) :
    Inv7a s' := by
  have ht := (List.getElem?_eq_some_iff.1 hth).1
  have fr := step6_frame h6
  have hst := lib_sticky h6
  have hlibt : ∀ sig, deliverySig th.pc = some sig → ∃ f, dispOf s' sig = .lib f := by
    intro sig hd; obtain ⟨f, hf⟩ := h7.lib t th sig hth hd; exact hst sig f hf
  refine ⟨?_, ?_⟩
  · intro j x sig hx hd
    by_cases hj : j = t
    · subst hj
      have same : ∀ (X : Sys) (th' : Thread) (sg : Int), (setT X j th').threads[j]? = some x →
          X.threads.length = s.threads.length → deliverySig th'.pc = some sg → deliverySig th.pc = some sg →
          ∃ f, dispOf s' sig = .lib f := by
        intro X th' sg hx' hl hd1 hd2
        rw [setT_get _ _ _ (by rw [hl]; exact ht)] at hx'; injection hx' with hx'; subst hx'
        rw [hd1] at hd; injection hd with hd; subst hd
        exact hlibt _ hd2
      cases h6 with
      | callOurs sg rest f hpc hsc hd' =>
        rw [setT_get _ _ _ ht] at hx; injection hx with hx; subst hx
        simp only [deliverySig] at hd; injection hd with hd; subst hd
        exact ⟨f, hd'⟩
      | fbStep sg hf' p o hpc mv hp ho => exact same _ _ sg hx rfl rfl (by rw [hpc]; rfl)
      | fbPin sg hf' hpc mv => exact same _ _ sg hx rfl rfl (by rw [hpc]; rfl)
      | dataStep sg hd' p o pf hpc hcF mv hp ho => exact same _ _ sg hx rfl rfl (by rw [hpc]; rfl)
      | dataPin sg hd' pf hpc hcF mv => exact same _ _ sg hx rfl rfl (by rw [hpc]; rfl)
      | prev sg d tags hpc => exact same _ _ sg hx rfl rfl (by rw [hpc]; rfl)
      | run sg tag rest hpc => exact same _ _ sg hx rfl rfl (by rw [hpc]; rfl)
      | relD sg hd' p l v hpc mv => exact same _ _ sg hx rfl rfl (by rw [hpc]; rfl)
      | _ =>
        rw [setT_get _ _ _ (by simpa using ht)] at hx; injection hx with hx; subst hx
        simp [deliverySig] at hd
    · rw [fr.other hj] at hx
      obtain ⟨f, hf⟩ := h7.lib j x sig hx hd
      exact hst sig f hf
  · intro j x hx
    by_cases hj : j = t
    · subst hj
      cases h6 with
      | dataPin sg hd' pf hpc hcF mv =>
        rw [setT_get _ _ _ (by simpa using ht)] at hx; injection hx with hx; subst hx
        simp only [PlanT]
        have hsome := hI.emb.hasD _ hI.emb.hd.dataLive
        refine ⟨s.hd.data, cur s, mv.after, ?_, [], ?_⟩
        · show lookupN s.hd.data s.cd = some (cur s)
          unfold cur
          cases hl : lookupN s.hd.data s.cd with
          | none => rw [hl] at hsome; cases hsome
          | some v => rfl
        · simp [planOf_snd]
      | prev sg d tags hpc =>
        rw [setT_get _ _ _ ht] at hx; injection hx with hx; subst hx
        have := h7.plan j th hth; rw [hpc] at this
        exact this
      | run sg tag rest hpc =>
        rw [setT_get _ _ _ ht] at hx; injection hx with hx; subst hx
        have := h7.plan j th hth; rw [hpc] at this
        simp only [PlanT] at this ⊢
        obtain ⟨p, d, h1, h2, pre, h3⟩ := this
        exact ⟨p, d, h1, h2, pre ++ [tag], by simp [← h3]⟩
      | _ =>
        rw [setT_get _ _ _ (by simpa using ht)] at hx; injection hx with hx; subst hx
        trivial
    · rw [fr.other hj] at hx
      have := h7.plan j x hx
      cases hpcx : x.pc with
      | dPlan sg pv tags =>
        rw [hpcx] at this; simp only [PlanT] at this ⊢
        obtain ⟨p, d, h1, h2, h3⟩ := this
        refine ⟨p, d, by rw [fr.phD j hj]; exact h1, ?_, h3⟩
        rw [fr.cd_live hI (hold_live hI.emb.hd h1)]; exact h2
      | _ => trivial


theorem inv7a_init (disp : List (Int × Disp)) (scripts : List (List Op)) : Inv7a (Sys.init disp scripts) := by
  have hidle : ∀ (t : Nat) (th : Thread), (Sys.init disp scripts).threads[t]? = some th → th.pc = .idle := by
    intro t th hth
    simp only [Sys.init, List.getElem?_map] at hth
    cases hsc : scripts[t]? with
    | none => simp [hsc] at hth
    | some sc => simp [hsc] at hth; subst hth; rfl
  refine ⟨?_, ?_⟩
  · intro t th sig hth hd; rw [hidle t th hth] at hd; cases hd
  · intro t th hth; rw [hidle t th hth]; trivial

theorem inv7a_reachable {env : Env} {ye : Nat} {disp : List (Int × Disp)} {scripts : List (List Op)} {s : Sys}
    (h : Reachable env ye disp scripts s) : Inv7a s := by
  induction h with
  | init => exact inv7a_init disp scripts
  | @step s0 s1 t out hr hs ih =>
    have hI := inv6_reachable hr
    cases hth : s0.threads[t]? with
    | none => unfold step at hs; simp [hth] at hs
    | some th => exact inv7a_step hI ih hth (step6_of hI hth hs)

/-! ## release of a snapshot's actions -/

theorem lookup_mem {β} (k : Int) (l : List (Int × β)) (v : β) (h : lookup k l = some v) : (k, v) ∈ l := by
  induction l with
  | nil => simp [lookup] at h
  | cons e rest ih =>
    obtain ⟨k', v'⟩ := e
    simp only [lookup] at h
    split at h
    · rename_i hk; injection h with h; subst h; subst hk; exact List.mem_cons_self
    · exact List.mem_cons_of_mem _ (ih h)

theorem tagsFor_sub (d : SigData) (sig : Int) (tag : Nat) (h : tag ∈ tagsFor d sig) : tag ∈ tagsOfData d := by
  unfold tagsFor at h
  cases hl : lookup sig d.signals with
  | none => simp [hl] at h
  | some slot =>
    simp only [hl] at h
    unfold tagsOfData
    exact List.mem_flatMap.2 ⟨(sig, slot), lookup_mem _ _ _ hl, h⟩

/-- a writer about to release `old` has seen both reader slots idle since its swap: nobody has it
pinned -/
theorem free_not_held {h : HalfLock.Sys} (hinv : HalfLock.Inv h) {t old : Nat}
    (hp : phaseAt h t = .wFree old) {j p u : Nat} (hj : phaseAt h j = .rHold p u) : p ≠ old := by
  unfold phaseAt pcAt at hp hj
  cases hth : h.threads[t]? with
  | none => simp [hth, HalfLock.Pc.phase] at hp
  | some th =>
    obtain ⟨hlt, rfl⟩ := List.getElem?_eq_some_iff.1 hth
    simp only [hth] at hp
    have e : (h.threads[t]).pc = .wFree old := by
      cases hpc : (h.threads[t]).pc <;> rw [hpc] at hp <;> simp [HalfLock.Pc.phase] at hp
      rw [hp]
    obtain ⟨_, _, hz0, hz1⟩ := hinv.post t hlt old true true (by rw [e]; rfl)
    cases hthj : h.threads[j]? with
    | none => simp [hthj, HalfLock.Pc.phase] at hj
    | some thj =>
      obtain ⟨hltj, rfl⟩ := List.getElem?_eq_some_iff.1 hthj
      simp only [hthj] at hj
      obtain ⟨sl, ej⟩ := (phase_rHold _ _ _).1 hj
      intro heq; subst heq
      have hh : (h.threads[j]).pc.holds = some p := by rw [ej]; rfl
      rcases HalfLock.holds_in_slot _ _ hh with h0 | h1
      · exact hz0 rfl j hltj h0 hh
      · exact hz1 rfl j hltj h1 hh

/-- **registry-level C01**: when a `data` snapshot is released, an action is dropped only if no
other live snapshot refers to it; in particular no delivery in progress, on any thread, still has
it in the list it is executing. -/
theorem dropped_not_planned {env : Env} {s : Sys} (hI : Inv6 env s) (h7 : Inv7a s) {t old : Nat}
    (hp : phaseAt s.hd t = .wFree old) {tag : Nat} (hd : tag ∈ droppedAt s old)
    {j : Nat} {thj : Thread} (hj : s.threads[j]? = some thj) {sig : Int} {pv : Option Disp} {tags : List Nat}
    (hpc : thj.pc = .dPlan sig pv tags) : tag ∉ tags := by
  intro hin
  have hpl := h7.plan j thj hj; rw [hpc] at hpl; simp only [PlanT] at hpl
  obtain ⟨p, d, h1, h2, pre, h3⟩ := hpl
  have hlive := hold_live hI.emb.hd h1
  have hne := free_not_held hI.emb.hd hp h1
  have htd : tag ∈ tagsOfData d := tagsFor_sub d sig tag (by rw [← h3]; exact List.mem_append_right _ hin)
  unfold droppedAt at hd
  simp only [List.mem_mergeSort, List.mem_filter] at hd
  obtain ⟨_, hno⟩ := hd
  simp only [Bool.not_eq_true', List.contains_eq_mem, decide_eq_false_iff_not] at hno
  apply hno
  apply List.mem_flatMap.2
  refine ⟨p, List.mem_filter.2 ⟨hlive, by simpa using hne⟩, ?_⟩
  simp [h2, htd]

/-- after the release no live snapshot refers to a dropped action any more -/
theorem dropped_not_live {env : Env} {s : Sys} (hI : Inv6 env s) {old tag : Nat}
    (hd : tag ∈ droppedAt s old) {x : Nat} (hx : x ∈ s.hd.live.erase old) {d : SigData}
    (hl : lookupN x s.cd = some d) : tag ∉ tagsOfData d := by
  intro htd
  unfold droppedAt at hd
  simp only [List.mem_mergeSort, List.mem_filter] at hd
  obtain ⟨_, hno⟩ := hd
  simp only [Bool.not_eq_true', List.contains_eq_mem, decide_eq_false_iff_not] at hno
  apply hno
  apply List.mem_flatMap.2
  have hx' := (hI.emb.hd.liveNodup.mem_erase_iff).1 hx
  refine ⟨x, List.mem_filter.2 ⟨hx'.2, by simpa using hx'.1⟩, ?_⟩
  simp [hl, htd]

end SigHook.RegConc
