import SigHook.Lemmas.HalfLock
/-!
The half-lock machine (L3) as a component: what one step of it does to the parts of the state an
embedding system (L6, the registry with its two half-lock instances) can see, and the facts that
let the L3 invariant survive the two ways L6 touches an embedded machine from outside (handing a
thread its next command, and moving the allocation counter, which the two instances share).
-/
namespace SigHook.HalfLock

def pcAt (h : Sys) (t : Nat) : Pc :=
  match h.threads[t]? with
  | some th => th.pc
  | none => .idle

theorem pcAt_of_get {h : Sys} {t : Nat} {th : Thread} (hth : h.threads[t]? = some th) : pcAt h t = th.pc := by
  simp [pcAt, hth]

/-- all scripts consumed (the embedding hands out one command at a time) -/
def NoScripts (h : Sys) : Prop := ∀ (j : Nat) (th : Thread), h.threads[j]? = some th → th.script = []

/-! ## the invariant does not look at scripts, and survives a larger allocation counter -/

theorem inv_setScript (h : Sys) (t : Nat) (ht : t < h.threads.length) (sc : List Cmd) (hinv : Inv h) :
    Inv { h with threads := h.threads.set t { h.threads[t] with script := sc } } := by
  apply inv_update h _ t ht { h.threads[t] with script := sc } hinv
  refine ⟨rfl, rfl, rfl, rfl, hinv.dataLive, fun x hx => hx, hinv.liveNodup, hinv.fresh, Nat.le_refl _,
    fun x hx => Or.inl hx, Or.inl rfl, Or.inr (Or.inr ⟨rfl, fun h => h, fun h => h⟩), ?_, ?_, Or.inl ⟨rfl, rfl⟩⟩
  · intro old z0 z1 hp
    exact Or.inl ⟨z0, z1, hp, rfl, fun h => Or.inl h, fun h => Or.inl h⟩
  · intro new hp
    exact hinv.pending t ht new hp

theorem inv_setNextSnap (h : Sys) (n : Nat) (hn : h.nextSnap ≤ n) (hinv : Inv h) :
    Inv { h with nextSnap := n } :=
  { count0 := hinv.count0, count1 := hinv.count1, dataLive := hinv.dataLive, holdLive := hinv.holdLive,
    post := hinv.post,
    fresh := fun x hx => Nat.lt_of_lt_of_le (hinv.fresh x hx) hn,
    pending := hinv.pending, mutex := hinv.mutex, liveNodup := hinv.liveNodup,
    freedNotLive := hinv.freedNotLive, freedNodup := hinv.freedNodup,
    freedFresh := fun x hx => Nat.lt_of_lt_of_le (hinv.freedFresh x hx) hn }

/-! ## what a step does to memory, by the observation it produces -/

def Obs.newData (o : Obs) (d : Nat) : Nat := match o with | .swap _ n _ => n | _ => d
def Obs.newLive (o : Obs) (l : List Nat) : List Nat :=
  match o with | .alloc n => n :: l | .free x => l.erase x | _ => l
def Obs.newFreed (o : Obs) (t : Nat) (l : List (Nat × Nat)) : List (Nat × Nat) :=
  match o with | .free x => (x, t) :: l | _ => l
def Obs.newNext (o : Obs) (n : Nat) : Nat := match o with | .alloc k => k + 1 | _ => n
def Obs.newOwner (o : Obs) (t : Nat) (m : Option Nat) : Option Nat :=
  match o with | .mutexLock _ => some t | .mutexUnlock _ => none | _ => m

structure Eff (h h' : Sys) (t : Nat) (o : Obs) : Prop where
  data : h'.data = o.newData h.data
  live : h'.live = o.newLive h.live
  freed : h'.freed = o.newFreed t h.freed
  nextSnap : h'.nextSnap = o.newNext h.nextSnap
  mutex : h'.mutexOwner = o.newOwner t h.mutexOwner
  allocId : ∀ n, o = .alloc n → n = h.nextSnap
  swapOld : ∀ l n old, o = .swap l n old → old = h.data ∧ l = "data"
  loadData : ∀ v, o = .load "data" v → v = h.data

macro "eff_fin" : tactic => `(tactic|
  (refine ⟨?_, ?_, ?_, ?_, ?_, ?_, ?_, ?_⟩ <;>
   simp (config := {failIfUnchanged := false}) [Sys.setLock, lockName, Obs.newData, Obs.newLive, Obs.newFreed,
     Obs.newNext, Obs.newOwner] <;>
   (try split) <;> simp (config := {failIfUnchanged := false}) [lockName]))

theorem step_eff {ye : Nat} {h h' : Sys} {t : Nat} {o : Obs} (hs : step ye h t = some (h', o)) :
    Eff h h' t o := by
  unfold step at hs
  cases hth : h.threads[t]? with
  | none => simp [hth] at hs
  | some th =>
    simp only [hth] at hs
    cases hpc : th.pc with
    | idle =>
      simp only [hpc] at hs
      cases hsc : th.script with
      | nil => simp [hsc] at hs
      | cons c rest =>
        cases c with
        | read uses =>
          simp only [hsc, Option.some.injEq, Prod.mk.injEq] at hs
          obtain ⟨rfl, rfl⟩ := hs; eff_fin
        | write st bomb =>
          simp only [hsc] at hs
          cases hmo : h.mutexOwner with
          | some w => simp [hmo] at hs
          | none =>
            simp only [hmo, Option.some.injEq, Prod.mk.injEq] at hs
            obtain ⟨rfl, rfl⟩ := hs; eff_fin
    | rUse slot p uses =>
      cases uses <;>
      · simp only [hpc, Option.some.injEq, Prod.mk.injEq] at hs
        obtain ⟨rfl, rfl⟩ := hs; eff_fin
    | wHint old z0 z1 iter =>
      simp only [hpc, Option.some.injEq, Prod.mk.injEq] at hs
      obtain ⟨rfl, rfl⟩ := hs
      by_cases hy : iter % ye = 0 <;> simp [hy] <;> eff_fin
    | _ =>
      simp only [hpc, Option.some.injEq, Prod.mk.injEq] at hs
      obtain ⟨rfl, rfl⟩ := hs; eff_fin

/-- a step changes only the stepping thread, and consumes a command exactly when it was idle -/
theorem step_threads {ye : Nat} {h h' : Sys} {t : Nat} {o : Obs} (hs : step ye h t = some (h', o)) :
    ∃ th th', h.threads[t]? = some th ∧ h'.threads = h.threads.set t th' ∧
      th'.script = (if th.pc = .idle then th.script.tail else th.script) := by
  unfold step at hs
  cases hth : h.threads[t]? with
  | none => simp [hth] at hs
  | some th =>
    simp only [hth] at hs
    refine ⟨th, ?_⟩
    cases hpc : th.pc with
    | idle =>
      simp only [hpc] at hs
      cases hsc : th.script with
      | nil => simp [hsc] at hs
      | cons c rest =>
        cases c with
        | read uses =>
          simp only [hsc, Option.some.injEq, Prod.mk.injEq] at hs
          obtain ⟨rfl, rfl⟩ := hs; exact ⟨_, rfl, rfl, by simp⟩
        | write st bomb =>
          simp only [hsc] at hs
          cases hmo : h.mutexOwner with
          | some w => simp [hmo] at hs
          | none =>
            simp only [hmo, Option.some.injEq, Prod.mk.injEq] at hs
            obtain ⟨rfl, rfl⟩ := hs; exact ⟨_, rfl, rfl, by simp⟩
    | rUse slot p uses =>
      cases uses <;>
      · simp only [hpc, Option.some.injEq, Prod.mk.injEq] at hs
        obtain ⟨rfl, rfl⟩ := hs; exact ⟨_, rfl, rfl, by simp⟩
    | _ =>
      simp only [hpc, Option.some.injEq, Prod.mk.injEq] at hs
      obtain ⟨rfl, rfl⟩ := hs; exact ⟨_, rfl, rfl, by simp⟩

theorem step_len {ye : Nat} {h h' : Sys} {t : Nat} {o : Obs} (hs : step ye h t = some (h', o)) :
    h'.threads.length = h.threads.length := by
  obtain ⟨_, _, _, e, _⟩ := step_threads hs
  rw [e]; simp

theorem step_pcAt_other {ye : Nat} {h h' : Sys} {t j : Nat} {o : Obs} (hs : step ye h t = some (h', o))
    (hj : j ≠ t) : pcAt h' j = pcAt h j := by
  obtain ⟨_, _, _, e, _⟩ := step_threads hs
  simp [pcAt, e, Ne.symm hj]

theorem step_noScripts {ye : Nat} {h h' : Sys} {t : Nat} {o : Obs} (hs : step ye h t = some (h', o))
    (hn : ∀ j th, j ≠ t → h.threads[j]? = some th → th.script = [])
    (ht : ∀ th, h.threads[t]? = some th → (if th.pc = .idle then th.script.tail else th.script) = []) :
    NoScripts h' := by
  obtain ⟨th, th', hth, e, hsc⟩ := step_threads hs
  intro j x hx
  rw [e, List.getElem?_set] at hx
  by_cases hj : t = j
  · subst hj
    have hlt : t < h.threads.length := (List.getElem?_eq_some_iff.1 hth).1
    simp [hlt] at hx; subst hx
    rw [hsc]; exact ht th hth
  · simp [hj] at hx
    exact hn j x (fun h => hj h.symm) hx

/-! ## the program counter table, by phase -/

/-- the parts of a program counter the embedding distinguishes -/
inductive Phase where
  | idle
  /-- inside `read()`, before the pin; `uses` as requested -/
  | rPre (uses : Nat)
  /-- snapshot `p` pinned -/
  | rHold (p : Nat) (uses : Nat)
  /-- writer mutex held, before the `load` of `write()` -/
  | wLoad (doStore : Bool)
  | wAlloc
  | wSwap (new : Nat)
  /-- after the swap of `old`, before its release -/
  | wWait (old : Nat)
  | wFree (old : Nat)
  | wUnlock
deriving DecidableEq, Repr

def Pc.phase : Pc → Phase
  | .idle => .idle
  | .rInc _ u => .rPre u
  | .rData _ u => .rPre u
  | .rUse _ p u => .rHold p u
  | .wLoad st _ => .wLoad st
  | .wAlloc _ => .wAlloc
  | .wSwap n => .wSwap n
  | .wSeen0 o | .wSeen1 o _ | .wFlip o _ _ | .wHint o _ _ _ | .wLoop0 o _ _ _ | .wLoop1 o _ _ _ => .wWait o
  | .wFree o => .wFree o
  | .wUnlock _ => .wUnlock

def phaseAt (h : Sys) (t : Nat) : Phase := (pcAt h t).phase

/-- the transition table: phase before, phase after, observation -/
def PhaseTr (h : Sys) (cmd : Option Cmd) : Phase → Phase → Obs → Prop
  | .idle, p', o =>
    (∃ u, cmd = some (.read u) ∧ p' = .rPre u ∧ o = .load "generation" h.gen) ∨
    (∃ st b, cmd = some (.write st b) ∧ p' = .wLoad st ∧ o = .mutexLock h.poisoned ∧ h.mutexOwner = none)
  | .rPre u, p', o => (p' = .rPre u ∧ ∃ l v, o = .fetchAdd l v) ∨ (p' = .rHold h.data u ∧ o = .load "data" h.data)
  | .rHold p (u + 1), p', o => p' = .rHold p u ∧ o = .use p
  | .rHold _ 0, p', o => p' = .idle ∧ ∃ l v, o = .fetchSub l v
  | .wLoad st, p', o => p' = (if st then .wAlloc else .wUnlock) ∧ o = .load "data" h.data
  | .wAlloc, p', o => p' = .wSwap h.nextSnap ∧ o = .alloc h.nextSnap
  | .wSwap n, p', o => p' = .wWait h.data ∧ o = .swap "data" n h.data
  | .wWait old, p', o => (p' = .wWait old ∨ p' = .wFree old) ∧
      ((∃ l v, o = .load l v ∧ l ≠ "data") ∨ (∃ v, o = .fetchAdd "generation" v) ∨ o = .spin ∨ o = .yield)
  | .wFree old, p', o => p' = .wUnlock ∧ o = .free old
  | .wUnlock, p', o => p' = .idle ∧ ∃ b, o = .mutexUnlock b

theorem step_phase {ye : Nat} {h h' : Sys} {t : Nat} {o : Obs} (hs : step ye h t = some (h', o)) :
    ∃ th, h.threads[t]? = some th ∧ PhaseTr h th.script.head? th.pc.phase (phaseAt h' t) o := by
  unfold step at hs
  cases hth : h.threads[t]? with
  | none => simp [hth] at hs
  | some th =>
    have ht : t < h.threads.length := (List.getElem?_eq_some_iff.1 hth).1
    simp only [hth] at hs
    refine ⟨th, rfl, ?_⟩
    cases hpc : th.pc with
    | idle =>
      simp only [hpc] at hs
      cases hsc : th.script with
      | nil => simp [hsc] at hs
      | cons c rest =>
        cases c with
        | read uses =>
          simp only [hsc, Option.some.injEq, Prod.mk.injEq] at hs
          obtain ⟨rfl, rfl⟩ := hs
          simp [PhaseTr, Pc.phase, phaseAt, pcAt, ht]
        | write st bomb =>
          simp only [hsc] at hs
          cases hmo : h.mutexOwner with
          | some w => simp [hmo] at hs
          | none =>
            simp only [hmo, Option.some.injEq, Prod.mk.injEq] at hs
            obtain ⟨rfl, rfl⟩ := hs
            simp [PhaseTr, Pc.phase, phaseAt, pcAt, ht, hmo]
    | rUse slot p uses =>
      cases uses <;>
      · simp only [hpc, Option.some.injEq, Prod.mk.injEq] at hs
        obtain ⟨rfl, rfl⟩ := hs
        simp [PhaseTr, Pc.phase, phaseAt, pcAt, ht, Sys.setLock]
    | wHint old z0 z1 iter =>
      simp only [hpc, Option.some.injEq, Prod.mk.injEq] at hs
      obtain ⟨rfl, rfl⟩ := hs
      by_cases hy : iter % ye = 0 <;> cases z0 <;> simp [PhaseTr, Pc.phase, phaseAt, pcAt, ht, hy]
    | wLoad st b =>
      simp only [hpc, Option.some.injEq, Prod.mk.injEq] at hs
      obtain ⟨rfl, rfl⟩ := hs
      cases st <;> simp [PhaseTr, Pc.phase, phaseAt, pcAt, ht]
    | wFlip old z0 z1 =>
      simp only [hpc, Option.some.injEq, Prod.mk.injEq] at hs
      obtain ⟨rfl, rfl⟩ := hs
      cases z0 <;> cases z1 <;> simp [PhaseTr, Pc.phase, phaseAt, pcAt, ht]
    | wLoop0 old z0 z1 iter =>
      simp only [hpc, Option.some.injEq, Prod.mk.injEq] at hs
      obtain ⟨rfl, rfl⟩ := hs
      cases z1 <;> by_cases hz : h.lock0 = 0 <;> simp [PhaseTr, Pc.phase, phaseAt, pcAt, ht, afterLoop, hz]
    | wLoop1 old z0 z1 iter =>
      simp only [hpc, Option.some.injEq, Prod.mk.injEq] at hs
      obtain ⟨rfl, rfl⟩ := hs
      cases z0 <;> by_cases hz : h.lock1 = 0 <;> simp [PhaseTr, Pc.phase, phaseAt, pcAt, ht, afterLoop, hz]
    | _ =>
      simp only [hpc, Option.some.injEq, Prod.mk.injEq] at hs
      obtain ⟨rfl, rfl⟩ := hs
      simp [PhaseTr, Pc.phase, phaseAt, pcAt, ht, Sys.setLock, lockName]

/-- own steps left until a reader has its snapshot pinned -/
def preA : Pc → Nat
  | .idle => 3
  | .rInc .. => 2
  | .rData .. => 1
  | _ => 0

/-- each step of `read()` brings the pin one step closer -/
theorem step_preA {ye : Nat} {h h' : Sys} {t : Nat} {o : Obs} (hs : step ye h t = some (h', o))
    (hp : phaseAt h t = .idle ∨ ∃ u, phaseAt h t = .rPre u)
    (hp' : (∃ u, phaseAt h' t = .rPre u) ∨ ∃ q u, phaseAt h' t = .rHold q u) :
    preA (pcAt h' t) + 1 = preA (pcAt h t) := by
  unfold step at hs
  cases hth : h.threads[t]? with
  | none => simp [hth] at hs
  | some th =>
    obtain ⟨ht, rfl⟩ := List.getElem?_eq_some_iff.1 hth
    simp only [hth] at hs
    simp only [phaseAt, pcAt, hth] at hp
    cases hpc : (h.threads[t]).pc with
    | idle =>
      simp only [hpc] at hs
      cases hsc : (h.threads[t]).script with
      | nil => simp [hsc] at hs
      | cons c rest =>
        cases c with
        | read uses =>
          simp only [hsc, Option.some.injEq, Prod.mk.injEq] at hs
          obtain ⟨rfl, rfl⟩ := hs
          simp [pcAt, ht, hpc, preA]
        | write st bomb =>
          simp only [hsc] at hs
          cases hmo : h.mutexOwner with
          | some w => simp [hmo] at hs
          | none =>
            simp only [hmo, Option.some.injEq, Prod.mk.injEq] at hs
            obtain ⟨rfl, rfl⟩ := hs
            simp [phaseAt, pcAt, ht, Pc.phase] at hp'
    | rInc g u =>
      simp only [hpc, Option.some.injEq, Prod.mk.injEq] at hs
      obtain ⟨rfl, rfl⟩ := hs
      simp [pcAt, ht, hpc, preA, Sys.setLock]
    | rData sl u =>
      simp only [hpc, Option.some.injEq, Prod.mk.injEq] at hs
      obtain ⟨rfl, rfl⟩ := hs
      simp [pcAt, ht, hpc, preA]
    | _ => rw [hpc] at hp; simp [Pc.phase] at hp

/-- enabledness: the only step that can be refused is taking the writer mutex (and an idle thread
with nothing to do) -/
theorem step_enabled (ye : Nat) (h : Sys) (t : Nat) (th : Thread) (hth : h.threads[t]? = some th)
    (hne : th.pc ≠ .idle ∨ (∃ u rest, th.script = .read u :: rest) ∨
      (∃ st b rest, th.script = .write st b :: rest ∧ h.mutexOwner = none)) :
    ∃ h' o, step ye h t = some (h', o) := by
  unfold step
  simp only [hth]
  cases hpc : th.pc with
  | idle =>
    rcases hne with hne | ⟨u, rest, hsc⟩ | ⟨st, b, rest, hsc, hmo⟩
    · exact absurd hpc hne
    · simp [hsc]
    · simp [hsc, hmo]
  | rUse slot p uses => cases uses <;> simp
  | _ => simp

/-- number of own steps a writer at `pc` still needs when both reader slots are idle -/
def rem : Pc → Nat
  | .wLoad true _ => 8
  | .wLoad false _ => 2
  | .wAlloc _ => 7
  | .wSwap _ => 6
  | .wSeen0 _ => 5
  | .wSeen1 _ z0 => if z0 then 4 else 6
  | .wFlip _ z0 z1 => if z0 && z1 then 3 else if !z0 && !z1 then 6 else 5
  | .wHint _ z0 z1 _ => if !z0 && !z1 then 5 else 4
  | .wLoop0 _ _ z1 _ => if z1 then 3 else 4
  | .wLoop1 _ z0 _ _ => if z0 then 3 else 5
  | .wFree _ => 2
  | .wUnlock _ => 1
  | _ => 0

theorem rem_le (pc : Pc) : rem pc ≤ 8 := by
  cases pc with
  | wLoad st b => cases st <;> simp [rem]
  | wSeen1 o z0 => cases z0 <;> simp [rem]
  | wFlip o z0 z1 => cases z0 <;> cases z1 <;> simp [rem]
  | wHint o z0 z1 i => cases z0 <;> cases z1 <;> simp [rem]
  | wLoop0 o z0 z1 i => cases z1 <;> simp [rem]
  | wLoop1 o z0 z1 i => cases z0 <;> simp [rem]
  | _ => simp [rem]

theorem rem_pos (pc : Pc) (hc : pc.crit = true) : 0 < rem pc := by
  cases pc with
  | wLoad st b => cases st <;> simp [rem]
  | wSeen1 o z0 => cases z0 <;> simp [rem]
  | wFlip o z0 z1 => cases z0 <;> cases z1 <;> simp [rem]
  | wHint o z0 z1 i => cases z0 <;> cases z1 <;> simp [rem]
  | wLoop0 o z0 z1 i => cases z1 <;> simp [rem]
  | wLoop1 o z0 z1 i => cases z0 <;> simp [rem]
  | idle => cases hc
  | rInc g u => cases hc
  | rData sl u => cases hc
  | rUse sl p u => cases hc
  | _ => simp [rem]


/-- quiescent progress: with both reader slots idle, a step of a writer inside its critical section keeps
them idle and uses up one unit of `rem`; taking the writer mutex leaves the slots alone -/
theorem step_qrem {ye : Nat} {h h' : Sys} {t : Nat} {o : Obs} (hs : step ye h t = some (h', o))
    (h0 : h.lock0 = 0) (h1 : h.lock1 = 0)
    (hc : (pcAt h t).crit = true ∨ ∃ b, o = .mutexLock b) :
    h'.lock0 = 0 ∧ h'.lock1 = 0 ∧ ((pcAt h t).crit = true → rem (pcAt h' t) + 1 = rem (pcAt h t)) := by
  unfold step at hs
  cases hth : h.threads[t]? with
  | none => simp [hth] at hs
  | some th =>
    obtain ⟨ht, rfl⟩ := List.getElem?_eq_some_iff.1 hth
    simp only [hth] at hs
    simp only [pcAt, hth] at hc ⊢
    cases hpc : (h.threads[t]).pc with
    | idle =>
      simp only [hpc] at hs hc
      cases hsc : (h.threads[t]).script with
      | nil => simp [hsc] at hs
      | cons c rest =>
        cases c with
        | read uses =>
          simp only [hsc, Option.some.injEq, Prod.mk.injEq] at hs
          obtain ⟨rfl, rfl⟩ := hs
          rcases hc with hc | ⟨b, hb⟩
          · cases hc
          · cases hb
        | write st bomb =>
          simp only [hsc] at hs
          cases hmo : h.mutexOwner with
          | some w => simp [hmo] at hs
          | none =>
            simp only [hmo, Option.some.injEq, Prod.mk.injEq] at hs
            obtain ⟨rfl, rfl⟩ := hs
            exact ⟨h0, h1, fun hcr => by cases hcr⟩
    | rInc g u =>
      simp only [hpc, Option.some.injEq, Prod.mk.injEq] at hs hc
      obtain ⟨rfl, rfl⟩ := hs
      rcases hc with hc | ⟨b, hb⟩
      · cases hc
      · cases hb
    | rData sl u =>
      simp only [hpc, Option.some.injEq, Prod.mk.injEq] at hs hc
      obtain ⟨rfl, rfl⟩ := hs
      rcases hc with hc | ⟨b, hb⟩
      · cases hc
      · cases hb
    | rUse sl p u =>
      cases u <;>
      · simp only [hpc, Option.some.injEq, Prod.mk.injEq] at hs hc
        obtain ⟨rfl, rfl⟩ := hs
        rcases hc with hc | ⟨b, hb⟩
        · cases hc
        · cases hb
    | wLoad st b =>
      simp only [hpc, Option.some.injEq, Prod.mk.injEq] at hs
      obtain ⟨rfl, rfl⟩ := hs
      cases st <;> simp [ht, rem, h0, h1]
    | wFlip old z0 z1 =>
      simp only [hpc, Option.some.injEq, Prod.mk.injEq] at hs
      obtain ⟨rfl, rfl⟩ := hs
      cases z0 <;> cases z1 <;> simp [ht, rem, h0, h1]
    | wHint old z0 z1 it =>
      simp only [hpc, Option.some.injEq, Prod.mk.injEq] at hs
      obtain ⟨rfl, rfl⟩ := hs
      cases z0 <;> cases z1 <;> simp [ht, rem, h0, h1]
    | wLoop0 old z0 z1 it =>
      simp only [hpc, Option.some.injEq, Prod.mk.injEq] at hs
      obtain ⟨rfl, rfl⟩ := hs
      cases z0 <;> cases z1 <;> simp [ht, rem, h0, h1, afterLoop]
    | wLoop1 old z0 z1 it =>
      simp only [hpc, Option.some.injEq, Prod.mk.injEq] at hs
      obtain ⟨rfl, rfl⟩ := hs
      cases z0 <;> cases z1 <;> simp [ht, rem, h0, h1, afterLoop]
    | wSeen1 old z0 =>
      simp only [hpc, Option.some.injEq, Prod.mk.injEq] at hs
      obtain ⟨rfl, rfl⟩ := hs
      cases z0 <;> simp [ht, rem, h0, h1]
    | wAlloc b =>
      simp only [hpc, Option.some.injEq, Prod.mk.injEq] at hs
      obtain ⟨rfl, rfl⟩ := hs
      simp [ht, rem, h0, h1]
    | wSwap n =>
      simp only [hpc, Option.some.injEq, Prod.mk.injEq] at hs
      obtain ⟨rfl, rfl⟩ := hs
      simp [ht, rem, h0, h1]
    | wSeen0 old =>
      simp only [hpc, Option.some.injEq, Prod.mk.injEq] at hs
      obtain ⟨rfl, rfl⟩ := hs
      simp [ht, rem, h0, h1]
    | wFree old =>
      simp only [hpc, Option.some.injEq, Prod.mk.injEq] at hs
      obtain ⟨rfl, rfl⟩ := hs
      simp [ht, rem, h0, h1]
    | wUnlock p =>
      simp only [hpc, Option.some.injEq, Prod.mk.injEq] at hs
      obtain ⟨rfl, rfl⟩ := hs
      simp [ht, rem, h0, h1]

end SigHook.HalfLock
