import SigHook.Lemmas.ChannelInv
/-!
Payload level of the channel: which *values* travel, on top of the index-level invariant `Inv`
(`Lemmas/ChannelInv.lean`). History variables (`Gh`) are attached to the model from outside - the step
function is untouched - and updated from the stepping thread's program counter and the step's observation:

* `wr` — (index, value) written by a `send` into its cell and not yet queued,
* `fq` — (index, value) pairs in the `full` queue, oldest first,
* `tk` — (index, value) taken out of `full` by a `recv` that has not emptied the cell yet,
* `sent` / `got` — the values in the order in which they entered / left the `full` queue.

`PInv` ties them to the state: the keys of `fq` are the latest value of `full`, every recorded pair is what
its cell holds, every `wr` / `tk` pair has its owner thread, and `sent = got ++ values of fq`.
-/
namespace SigHook.Channel
open SigHook SigHook.Packed

structure Gh where
  fq : List (Nat × Nat) := []
  wr : List (Nat × Nat) := []
  tk : List (Nat × Nat) := []
  sent : List Nat := []
  got : List Nat := []
  /-- every value a `send` has written into a cell so far -/
  wrote : List Nat := []
deriving Repr

def dropKey (k : Nat) (l : List (Nat × Nat)) : List (Nat × Nat) := l.filter (fun e => e.1 != k)

theorem mem_dropKey (k : Nat) (l : List (Nat × Nat)) (e : Nat × Nat) : e ∈ dropKey k l ↔ e ∈ l ∧ e.1 ≠ k := by
  simp [dropKey]

/-- the history variables after a step of a thread that was at `pc`, in state `s`, observing `obs` -/
def Gh.next (g : Gh) (s : Sys) (pc : Pc) (obs : Obs) : Gh :=
  match pc, obs with
  | .write idx tag, _ => { g with wr := (idx, tag) :: dropKey idx g.wr, wrote := g.wrote ++ [tag] }
  | .enqCas .full idx _ _, .cas _ _ _ true _ =>
    let tg := (s.cells.getD (idx - 1) none).getD 0
    { g with sent := g.sent ++ [tg], fq := g.fq ++ [(idx, tg)], wr := dropKey idx g.wr }
  | .deqCas .full _ _, .cas _ _ _ true _ =>
    match g.fq with
    | (i, tg) :: rest => { g with got := g.got ++ [tg], fq := rest, tk := (i, tg) :: dropKey i g.tk }
    | [] => g
  | .take idx, _ => { g with tk := dropKey idx g.tk }
  | _, _ => g

def isFullEnq (pc : Pc) (idx : Nat) : Prop := (∃ r, pc = .enqLoad .full idx r) ∨ ∃ r cur, pc = .enqCas .full idx r cur

structure PInv (s : Sys) (g : Gh) : Prop where
  keysF : g.fq.map (·.1) = LQ (lastMsg s.full)
  cellF : ∀ e ∈ g.fq, s.cells.getD (e.1 - 1) none = some e.2
  cellW : ∀ e ∈ g.wr, s.cells.getD (e.1 - 1) none = some e.2 ∧
    ∃ (t : Nat) (th : Thread), s.threads[t]? = some th ∧ isFullEnq th.pc e.1
  cellT : ∀ e ∈ g.tk, s.cells.getD (e.1 - 1) none = some e.2 ∧
    ∃ (t : Nat) (th : Thread), s.threads[t]? = some th ∧ th.pc = .take e.1
  ownW : ∀ (t : Nat) (th : Thread) (idx : Nat), s.threads[t]? = some th → isFullEnq th.pc idx → ∃ tg, (idx, tg) ∈ g.wr
  ownT : ∀ (t : Nat) (th : Thread) (idx : Nat), s.threads[t]? = some th → th.pc = .take idx → ∃ tg, (idx, tg) ∈ g.tk
  fifo : g.sent = g.got ++ g.fq.map (·.2)
  wrW : ∀ e ∈ g.wr, e.2 ∈ g.wrote
  sentW : ∀ x ∈ g.sent, x ∈ g.wrote
  tkGot : ∀ e ∈ g.tk, e.2 ∈ g.got

/-! ## helpers -/

theorem isFullEnq_owns {pc : Pc} {idx : Nat} (h : isFullEnq pc idx) : pc.owns = some idx := by
  rcases h with ⟨r, h⟩ | ⟨r, cur, h⟩ <;> rw [h] <;> rfl

theorem cells_set_other (l : List (Option Nat)) (i j : Nat) (v : Option Nat) (h : i ≠ j) :
    (l.set i v).getD j none = l.getD j none := by
  simp [List.getD, List.getElem?_set, h]

theorem idx_pred_ne {a b : Nat} (ha : a ∈ idxs) (hb : b ∈ idxs) (h : a ≠ b) : a - 1 ≠ b - 1 := by
  rw [idxs_iff] at ha hb; omega

/-- the owner of an index is one thread -/
theorem owner_unique {s : Sys} (hI : Inv s) {t j : Nat} {th thj : Thread} (hth : s.threads[t]? = some th)
    (hj : s.threads[j]? = some thj) {idx : Nat} (ho : th.pc.owns = some idx) (hoj : thj.pc.owns = some idx) : j = t := by
  have hidx := owns_idx_mem (hI.pcs t th hth) ho
  apply Classical.byContradiction
  intro hne
  exact (owner_facts hI hth hidx ho).2.2 j thj hj hne hoj

/-- the keys of the `full` queue are valid slot indexes -/
theorem fq_key_mem {s : Sys} {g : Gh} (hI : Inv s) (hP : PInv s g) {e : Nat × Nat} (he : e ∈ g.fq) : e.1 ∈ idxs := by
  have hv := hI.valid .full _ (lastMsg_mem (hI.ne .full))
  apply tbl_mem _ hv.1
  have : e.1 ∈ g.fq.map (·.1) := List.mem_map_of_mem he
  rw [hP.keysF] at this
  exact this

theorem fq_key_contains {s : Sys} {g : Gh} (hP : PInv s g) {e : Nat × Nat} (he : e ∈ g.fq) :
    (LQ (lastMsg s.full)).contains e.1 = true := by
  have : e.1 ∈ g.fq.map (·.1) := List.mem_map_of_mem he
  rw [hP.keysF] at this
  simpa using this

/-- a step that changes neither the `full` queue nor the cells, and leaves the stepping thread's role
(writer-to-be-queued / taker) as it was, keeps `PInv` with the same history variables -/
theorem pinv_frame {s s' : Sys} {g : Gh} {t : Nat} {th th' : Thread} (hth : s.threads[t]? = some th) (hP : PInv s g)
    (hfull : s'.full = s.full) (hcells : s'.cells = s.cells) (hthreads : s'.threads = s.threads.set t th')
    (hw : ∀ idx, isFullEnq th'.pc idx ↔ isFullEnq th.pc idx) (htk : ∀ idx, th'.pc = .take idx ↔ th.pc = .take idx) :
    PInv s' g := by
  have hlt : t < s.threads.length := (List.getElem?_eq_some_iff.1 hth).1
  have hget : ∀ j, s'.threads[j]? = if t = j then some th' else s.threads[j]? := by
    intro j; rw [hthreads, List.getElem?_set]; split <;> simp_all
  refine ⟨by rw [hfull]; exact hP.keysF, by rw [hcells]; exact hP.cellF, ?_, ?_, ?_, ?_, hP.fifo, hP.wrW, hP.sentW, hP.tkGot⟩
  · intro e he
    obtain ⟨hc, j, thj, hj, hr⟩ := hP.cellW e he
    refine ⟨by rw [hcells]; exact hc, ?_⟩
    by_cases hjt : t = j
    · subst hjt
      rw [hth] at hj; injection hj with hj; subst hj
      exact ⟨t, th', by rw [hget t]; simp, (hw e.1).2 hr⟩
    · exact ⟨j, thj, by rw [hget j]; simp [hjt, hj], hr⟩
  · intro e he
    obtain ⟨hc, j, thj, hj, hr⟩ := hP.cellT e he
    refine ⟨by rw [hcells]; exact hc, ?_⟩
    by_cases hjt : t = j
    · subst hjt
      rw [hth] at hj; injection hj with hj; subst hj
      exact ⟨t, th', by rw [hget t]; simp, (htk e.1).2 hr⟩
    · exact ⟨j, thj, by rw [hget j]; simp [hjt, hj], hr⟩
  · intro j thj idx hj hr
    rw [hget j] at hj
    split at hj
    · injection hj with hj; subst hj
      exact hP.ownW t th idx hth ((hw idx).1 hr)
    · exact hP.ownW j thj idx hj hr
  · intro j thj idx hj hr
    rw [hget j] at hj
    split at hj
    · injection hj with hj; subst hj
      exact hP.ownT t th idx hth ((htk idx).1 hr)
    · exact hP.ownT j thj idx hj hr

theorem not_fullEnq_of {pc : Pc} (h : ∀ q idx r, pc ≠ .enqLoad q idx r) (h2 : ∀ q idx r cur, pc ≠ .enqCas q idx r cur)
    (idx : Nat) : ¬ isFullEnq pc idx := by
  rintro (⟨r, e⟩ | ⟨r, cur, e⟩)
  · exact h _ _ _ e
  · exact h2 _ _ _ _ e

theorem threads_after {s0 : Sys} {t : Nat} {th' : Thread} (j : Nat) (ht : t < s0.threads.length) :
    (setTh s0 t th').threads[j]? = if t = j then some th' else s0.threads[j]? := by
  simp only [setTh, List.getElem?_set]
  split
  · simp [ht]
  · rfl

theorem no_role {pc : Pc} (h : pc.owns = none) : (∀ idx, ¬ isFullEnq pc idx) ∧ ∀ idx, pc ≠ .take idx := by
  constructor
  · intro idx hr; rw [isFullEnq_owns hr] at h; cases h
  · intro idx e; rw [e] at h; cases h

/-- `pinv_frame` for a thread that owns nothing before and after -/
theorem pinv_frame0 {s s' : Sys} {g : Gh} {t : Nat} {th th' : Thread} (hth : s.threads[t]? = some th) (hP : PInv s g)
    (hfull : s'.full = s.full) (hcells : s'.cells = s.cells) (hthreads : s'.threads = s.threads.set t th')
    (h0 : th.pc.owns = none) (h1 : th'.pc.owns = none) : PInv s' g :=
  pinv_frame hth hP hfull hcells hthreads
    (fun idx => ⟨fun h => absurd h ((no_role h1).1 idx), fun h => absurd h ((no_role h0).1 idx)⟩)
    (fun idx => ⟨fun h => absurd h ((no_role h1).2 idx), fun h => absurd h ((no_role h0).2 idx)⟩)

/-- the payload invariant is kept by every step (given the index-level invariant and that the step did not
panic, which `inv_step` provides) -/
theorem pinv_step {o : Orders} {s s' : Sys} {g : Gh} {t : Nat} {th : Thread} {c : Choice} {out : Out}
    (hI : Inv s) (hP : PInv s g) (hth : s.threads[t]? = some th) (h : CStep o s t th c s' out)
    (hnp : out.panic = none) : PInv s' (g.next s th.pc out.obs) := by
  have hlt : t < s.threads.length := (List.getElem?_eq_some_iff.1 hth).1
  have hPc := hI.pcs t th hth
  cases h with
  | startNone q tag rest hpc hsc hz =>
    have hg : g.next s th.pc (Obs.load q (rdVal s q th c)) = g := by simp [Gh.next, hpc]
    rw [hg]
    exact pinv_frame0 hth hP rfl rfl rfl (by rw [hpc]; rfl) rfl
  | startGo q tag rest hpc hsc hz =>
    have hg : g.next s th.pc (Obs.load q (rdVal s q th c)) = g := by simp [Gh.next, hpc]
    rw [hg]
    exact pinv_frame0 hth hP rfl rfl rfl (by rw [hpc]; rfl) rfl
  | deqFailNone q tag cur hpc hcs hz =>
    have hg : g.next s th.pc (Obs.cas q cur (cur >>> Gen.BITS) false (rdVal s q th c)) = g := by
      cases q <;> simp [Gh.next, hpc]
    rw [hg]
    exact pinv_frame0 hth hP rfl rfl rfl (by rw [hpc]; rfl) rfl
  | deqFailRetry q tag cur hpc hcs hz =>
    have hg : g.next s th.pc (Obs.cas q cur (cur >>> Gen.BITS) false (rdVal s q th c)) = g := by
      cases q <;> simp [Gh.next, hpc]
    rw [hg]
    exact pinv_frame0 hth hP rfl rfl rfl (by rw [hpc]; rfl) rfl
  | enqLoad q idx ret hpc =>
    have hg : g.next s th.pc (Obs.load q (rdVal s q th c)) = g := by simp [Gh.next, hpc]
    rw [hg]
    refine pinv_frame hth hP rfl rfl rfl ?_ (fun i => ⟨fun h => (by cases h), fun h => (by rw [hpc] at h; cases h)⟩)
    intro i
    rw [hpc]
    constructor
    · rintro (⟨r, e⟩ | ⟨r, cur, e⟩)
      · cases e
      · injection e with e1 e2 e3 e4; subst e1 e2 e3; exact Or.inl ⟨_, rfl⟩
    · rintro (⟨r, e⟩ | ⟨r, cur, e⟩)
      · injection e with e1 e2 e3; subst e1 e2 e3; exact Or.inr ⟨_, _, rfl⟩
      · cases e
  | enqFail q idx ret cur new hpc he hcs =>
    have hg : g.next s th.pc (Obs.cas q cur new false (rdVal s q th c)) = g := by
      cases q <;> simp [Gh.next, hpc]
    rw [hg]
    refine pinv_frame hth hP rfl rfl rfl ?_ (fun i => ⟨fun h => (by cases h), fun h => (by rw [hpc] at h; cases h)⟩)
    intro i
    rw [hpc]
    constructor
    · rintro (⟨r, e⟩ | ⟨r, cur', e⟩)
      · cases e
      · injection e with e1 e2 e3 e4; subst e1 e2 e3; exact Or.inr ⟨_, _, rfl⟩
    · rintro (⟨r, e⟩ | ⟨r, cur', e⟩)
      · cases e
      · injection e with e1 e2 e3 e4; subst e1 e2 e3; exact Or.inr ⟨_, _, rfl⟩
  | enqPanic q idx ret cur hpc he => simp at hnp
  | takeNone idx hpc hc => simp at hnp
  | deqOk q tag cur hpc hcs =>
    unfold PcOk at hPc; rw [hpc] at hPc; simp only at hPc
    obtain ⟨hnz, htag1, htag2⟩ := hPc
    have hown : th.pc.owns = none := by rw [hpc]; rfl
    cases q with
    | empty =>
      -- a `send` reserving a slot: the `full` queue and the cells are untouched
      cases tag with
      | none => have := htag2 rfl; cases this
      | some tg =>
        have hg : g.next s th.pc (Obs.cas Loc.empty cur (cur >>> Gen.BITS) true cur) = g := by simp [Gh.next, hpc]
        rw [hg]
        refine pinv_frame hth hP rfl rfl rfl ?_ ?_
        · intro i
          exact ⟨fun h => (by rcases h with ⟨r, e⟩ | ⟨r, cu, e⟩ <;> cases e), fun h => absurd h ((no_role hown).1 i)⟩
        · intro i
          exact ⟨fun h => (by cases h), fun h => absurd h ((no_role hown).2 i)⟩
    | full =>
      have htn : tag = none := by
        cases tag with
        | none => rfl
        | some tg => have := htag1 rfl; cases this
      subst htn
      -- the value of `full` that is replaced, as a list
      have hval := canSucceed_val hcs
      have hvm := hI.valid .full _ (lastMsg_mem (hI.ne .full))
      rw [hist_full] at hval
      have hl : LQ (lastMsg s.full) ∈ validLists := hvm.1
      have hcur : cur = pack (LQ (lastMsg s.full)) := by rw [← hval]; exact hvm.2
      have hlne : LQ (lastMsg s.full) ≠ [] := by
        intro e
        have := tbl_zero _ hl
        rw [← hcur] at this
        exact hnz (by rw [this]; exact e)
      obtain ⟨hhead, htail, htailv, hheadm, _⟩ := tbl_head _ hl hlne
      rw [← hcur] at hhead htail
      -- the history variables: the oldest pair leaves the queue
      cases hfq : g.fq with
      | nil => have := hP.keysF; rw [hfq] at this; exact absurd this.symm hlne
      | cons e0 rest =>
        obtain ⟨i0, tg0⟩ := e0
        have hkeys := hP.keysF; rw [hfq] at hkeys
        simp only [List.map_cons] at hkeys
        have hi0 : (LQ (lastMsg s.full)).headD 0 = i0 := by rw [← hkeys]; rfl
        have hrest : rest.map (·.1) = (LQ (lastMsg s.full)).tail := by rw [← hkeys]; rfl
        have hidx' : idxOf (cur &&& MASK) = i0 := by rw [hhead, hi0]
        have hg : g.next s th.pc (Obs.cas Loc.full cur (cur >>> Gen.BITS) true cur) =
            { g with got := g.got ++ [tg0], fq := rest, tk := (i0, tg0) :: dropKey i0 g.tk } := by
          simp [Gh.next, hpc, hfq]
        rw [hg, hidx']
        have hmem0 : (i0, tg0) ∈ g.fq := by rw [hfq]; exact List.mem_cons_self
        have hget : ∀ j, (setTh (s.setHist .full (s.hist .full ++ [{ val := cur >>> Gen.BITS, view := casMsgView o.deqSucc s .full th }])) t
            { th with pc := afterDeq none i0, view := casView o.deqSucc s .full th }).threads[j]? =
            if t = j then some { th with pc := afterDeq none i0, view := casView o.deqSucc s .full th } else s.threads[j]? := by
          intro j; exact threads_after j hlt
        refine ⟨?_, ?_, ?_, ?_, ?_, ?_, ?_, hP.wrW, hP.sentW, ?_⟩
        rotate_left 7
        · intro e he
          rcases List.mem_cons.1 he with rfl | he
          · exact List.mem_append_right _ (by simp)
          · exact List.mem_append_left _ (hP.tkGot e ((mem_dropKey _ _ _).1 he).1)
        · show rest.map (·.1) = LQ (lastMsg (s.full ++ [_]))
          rw [lastMsg_append, hrest]
          show _ = unpack (cur >>> Gen.BITS)
          rw [htail, tbl_unpack _ htailv]
        · intro e he
          exact hP.cellF e (by rw [hfq]; exact List.mem_cons_of_mem _ he)
        · intro e he
          obtain ⟨hc, j, thj, hj, hr⟩ := hP.cellW e he
          have hjt : j ≠ t := by
            intro e2; subst e2; rw [hth] at hj; injection hj with hj; subst hj
            exact (no_role hown).1 _ hr
          exact ⟨hc, j, thj, by rw [hget j]; simp [Ne.symm hjt, hj], hr⟩
        · intro e he
          rcases List.mem_cons.1 he with rfl | he
          · exact ⟨hP.cellF _ hmem0, t, { th with pc := afterDeq none i0, view := casView o.deqSucc s .full th },
              by rw [hget t]; simp, rfl⟩
          · obtain ⟨he1, hne⟩ := (mem_dropKey _ _ _).1 he
            obtain ⟨hc, j, thj, hj, hr⟩ := hP.cellT e he1
            have hjt : j ≠ t := by
              intro e2; subst e2; rw [hth] at hj; injection hj with hj; subst hj
              exact (no_role hown).2 _ hr
            exact ⟨hc, j, thj, by rw [hget j]; simp [Ne.symm hjt, hj], hr⟩
        · intro j thj i hj hr
          rw [hget j] at hj
          split at hj
          · injection hj with hj; subst hj
            rcases hr with ⟨r, h⟩ | ⟨r, cu, h⟩ <;> cases h
          · exact hP.ownW j thj i hj hr
        · intro j thj i hj hr
          rw [hget j] at hj
          split at hj
          · injection hj with hj; subst hj
            simp only [afterDeq] at hr; injection hr with hr; subst hr
            exact ⟨tg0, List.mem_cons_self⟩
          · obtain ⟨tg, hm⟩ := hP.ownT j thj i hj hr
            have hne : i ≠ i0 := by
              intro e1; subst e1
              have hoj : thj.pc.owns = some i := by rw [hr]; rfl
              have hik := owns_idx_mem (hI.pcs j thj hj) hoj
              have := owner_not_in_q hI hj hik hoj .full
              rw [hist_full, fq_key_contains hP hmem0] at this; cases this
            exact ⟨tg, List.mem_cons_of_mem _ ((mem_dropKey _ _ _).2 ⟨hm, hne⟩)⟩
        · show g.sent = (g.got ++ [tg0]) ++ rest.map (·.2)
          rw [hP.fifo, hfq]; simp
  | write idx tag hpc =>
    unfold PcOk at hPc; rw [hpc] at hPc; simp only at hPc
    have hidx : idx ∈ idxs := hPc.1
    have hown : th.pc.owns = some idx := by rw [hpc]; rfl
    have hi5 : idx - 1 < s.cells.length := by rw [hI.lens.2, slots5]; rw [idxs_iff] at hidx; omega
    have hg : g.next s th.pc (Obs.cellWrite idx) = { g with wr := (idx, tag) :: dropKey idx g.wr, wrote := g.wrote ++ [tag] } := by
      simp [Gh.next, hpc]
    rw [hg]
    have hget : ∀ j, (setTh { cellSys s idx with cells := s.cells.set (idx - 1) (some tag) } t
        { th with pc := .enqLoad .full idx none, view := cellView s th idx }).threads[j]? =
        if t = j then some { th with pc := .enqLoad .full idx none, view := cellView s th idx } else s.threads[j]? := by
      intro j; exact threads_after j (by simpa [cellSys] using hlt)
    -- a cell of another index is untouched
    have hother : ∀ k, k ∈ idxs → k ≠ idx → (s.cells.set (idx - 1) (some tag)).getD (k - 1) none = s.cells.getD (k - 1) none := by
      intro k hk hne
      exact cells_set_other _ _ _ _ (idx_pred_ne hidx hk (Ne.symm hne))
    refine ⟨hP.keysF, ?_, ?_, ?_, ?_, ?_, hP.fifo, ?_, ?_, hP.tkGot⟩
    rotate_left 5
    · intro e he
      rcases List.mem_cons.1 he with rfl | he
      · exact List.mem_append_right _ (by simp)
      · exact List.mem_append_left _ (hP.wrW e ((mem_dropKey _ _ _).1 he).1)
    · intro x hx; exact List.mem_append_left _ (hP.sentW x hx)
    · intro e he
      have hne : e.1 ≠ idx := by
        intro e1
        have := owner_not_in_q hI hth hidx hown .full
        rw [hist_full, ← e1, fq_key_contains hP he] at this; cases this
      show (s.cells.set (idx - 1) (some tag)).getD (e.1 - 1) none = some e.2
      rw [hother e.1 (fq_key_mem hI hP he) hne]; exact hP.cellF e he
    · intro e he
      rcases List.mem_cons.1 he with rfl | he
      · refine ⟨?_, t, { th with pc := .enqLoad .full idx none, view := cellView s th idx }, by rw [hget t]; simp, Or.inl ⟨none, rfl⟩⟩
        show (s.cells.set (idx - 1) (some tag)).getD (idx - 1) none = some tag
        rw [getD_set _ _ _ _ _ hi5]; simp
      · obtain ⟨he1, hne⟩ := (mem_dropKey _ _ _).1 he
        obtain ⟨hc, j, thj, hj, hr⟩ := hP.cellW e he1
        have hjt : j ≠ t := by
          intro e2; subst e2; rw [hth] at hj; injection hj with hj; subst hj
          rw [isFullEnq_owns hr] at hown; injection hown with h; exact hne h
        have hek : e.1 ∈ idxs := owns_idx_mem (hI.pcs j thj hj) (isFullEnq_owns hr)
        refine ⟨?_, j, thj, by rw [hget j]; simp [Ne.symm hjt, hj], hr⟩
        show (s.cells.set (idx - 1) (some tag)).getD (e.1 - 1) none = some e.2
        rw [hother e.1 hek hne]; exact hc
    · intro e he
      obtain ⟨hc, j, thj, hj, hr⟩ := hP.cellT e he
      have hoj : thj.pc.owns = some e.1 := by rw [hr]; rfl
      have hjt : j ≠ t := by
        intro e2; subst e2; rw [hth] at hj; injection hj with hj; subst hj
        rw [hpc] at hr; cases hr
      have hne : e.1 ≠ idx := by
        intro e1; rw [e1] at hoj; exact hjt (owner_unique hI hth hj hown hoj)
      have hek : e.1 ∈ idxs := owns_idx_mem (hI.pcs j thj hj) hoj
      refine ⟨?_, j, thj, by rw [hget j]; simp [Ne.symm hjt, hj], hr⟩
      show (s.cells.set (idx - 1) (some tag)).getD (e.1 - 1) none = some e.2
      rw [hother e.1 hek hne]; exact hc
    · intro j thj i hj hr
      rw [hget j] at hj
      split at hj
      · injection hj with hj; subst hj
        have : i = idx := by
          have := isFullEnq_owns hr; simp only [Pc.owns] at this; injection this with this; exact this.symm
        subst this
        exact ⟨tag, List.mem_cons_self⟩
      · rename_i hjt
        obtain ⟨tg, hm⟩ := hP.ownW j thj i hj hr
        have hne : i ≠ idx := by
          intro e1; subst e1
          exact hjt (owner_unique hI hth hj hown (isFullEnq_owns hr)).symm
        exact ⟨tg, List.mem_cons_of_mem _ ((mem_dropKey _ _ _).2 ⟨hm, hne⟩)⟩
    · intro j thj i hj hr
      rw [hget j] at hj
      split at hj
      · injection hj with hj; subst hj; cases hr
      · exact hP.ownT j thj i hj hr
  | takeSome idx tag hpc hc =>
    unfold PcOk at hPc; rw [hpc] at hPc; simp only at hPc
    have hidx : idx ∈ idxs := hPc.1.1
    have hown : th.pc.owns = some idx := by rw [hpc]; rfl
    have hg : g.next s th.pc (Obs.cellTake idx) = { g with tk := dropKey idx g.tk } := by
      simp [Gh.next, hpc]
    rw [hg]
    have hget : ∀ j, (setTh { cellSys s idx with cells := s.cells.set (idx - 1) none } t
        { th with pc := .enqLoad .empty idx (some tag), view := cellView s th idx }).threads[j]? =
        if t = j then some { th with pc := .enqLoad .empty idx (some tag), view := cellView s th idx } else s.threads[j]? := by
      intro j; exact threads_after j (by simpa [cellSys] using hlt)
    have hother : ∀ k, k ∈ idxs → k ≠ idx → (s.cells.set (idx - 1) none).getD (k - 1) none = s.cells.getD (k - 1) none := by
      intro k hk hne
      exact cells_set_other _ _ _ _ (idx_pred_ne hidx hk (Ne.symm hne))
    refine ⟨hP.keysF, ?_, ?_, ?_, ?_, ?_, hP.fifo, hP.wrW, hP.sentW, fun e he => hP.tkGot e ((mem_dropKey _ _ _).1 he).1⟩
    · intro e he
      have hne : e.1 ≠ idx := by
        intro e1
        have := owner_not_in_q hI hth hidx hown .full
        rw [hist_full, ← e1, fq_key_contains hP he] at this; cases this
      show (s.cells.set (idx - 1) none).getD (e.1 - 1) none = some e.2
      rw [hother e.1 (fq_key_mem hI hP he) hne]; exact hP.cellF e he
    · intro e he
      obtain ⟨hc', j, thj, hj, hr⟩ := hP.cellW e he
      have hoj := isFullEnq_owns hr
      have hjt : j ≠ t := by
        intro e2; subst e2; rw [hth] at hj; injection hj with hj; subst hj
        rcases hr with ⟨r, h⟩ | ⟨r, cur, h⟩ <;> (rw [hpc] at h; cases h)
      have hne : e.1 ≠ idx := by
        intro e1; rw [e1] at hoj; exact hjt (owner_unique hI hth hj hown hoj)
      have hek : e.1 ∈ idxs := owns_idx_mem (hI.pcs j thj hj) hoj
      refine ⟨?_, j, thj, by rw [hget j]; simp [Ne.symm hjt, hj], hr⟩
      show (s.cells.set (idx - 1) none).getD (e.1 - 1) none = some e.2
      rw [hother e.1 hek hne]; exact hc'
    · intro e he
      obtain ⟨he1, hne⟩ := (mem_dropKey _ _ _).1 he
      obtain ⟨hc', j, thj, hj, hr⟩ := hP.cellT e he1
      have hoj : thj.pc.owns = some e.1 := by rw [hr]; rfl
      have hjt : j ≠ t := by
        intro e2; subst e2; rw [hth] at hj; injection hj with hj; subst hj
        rw [hpc] at hr; injection hr with hr; exact hne hr.symm
      have hek : e.1 ∈ idxs := owns_idx_mem (hI.pcs j thj hj) hoj
      refine ⟨?_, j, thj, by rw [hget j]; simp [Ne.symm hjt, hj], hr⟩
      show (s.cells.set (idx - 1) none).getD (e.1 - 1) none = some e.2
      rw [hother e.1 hek hne]; exact hc'
    · intro j thj i hj hr
      rw [hget j] at hj
      split at hj
      · injection hj with hj; subst hj
        rcases hr with ⟨r, h⟩ | ⟨r, cur, h⟩ <;> cases h
      · exact hP.ownW j thj i hj hr
    · intro j thj i hj hr
      rw [hget j] at hj
      split at hj
      · injection hj with hj; subst hj; cases hr
      · rename_i hjt
        obtain ⟨tg, hm⟩ := hP.ownT j thj i hj hr
        have hne : i ≠ idx := by
          intro e1; subst e1
          exact hjt (owner_unique hI hth hj hown (by rw [hr]; rfl)).symm
        exact ⟨tg, (mem_dropKey _ _ _).2 ⟨hm, hne⟩⟩
  | enqOk q idx ret cur new hpc he hcs =>
    unfold PcOk at hPc; rw [hpc] at hPc; simp only at hPc
    obtain ⟨hOwn, hcell, l, hl, hcurl, hnc⟩ := hPc
    have hidx : idx ∈ idxs := hOwn.1
    have hown : th.pc.owns = some idx := by rw [hpc]; rfl
    cases q with
    | empty =>
      -- a `recv` giving its slot back: the `full` queue and the cells are untouched
      have hg : g.next s th.pc (Obs.cas Loc.empty cur new true cur) = g := by simp [Gh.next, hpc]
      rw [hg]
      refine pinv_frame hth hP rfl rfl rfl ?_ ?_
      · intro i
        exact ⟨fun h => (by rcases h with ⟨r, e⟩ | ⟨r, cu, e⟩ <;> cases e),
               fun h => (by rw [hpc] at h; rcases h with ⟨r, e⟩ | ⟨r, cu, e⟩ <;> cases e)⟩
      · intro i
        exact ⟨fun h => (by cases h), fun h => (by rw [hpc] at h; cases h)⟩
    | full =>
      have hval := canSucceed_val hcs
      rw [hist_full] at hval
      have hLQ : LQ (lastMsg s.full) = l := by
        show unpack (lastMsg s.full).val = l
        rw [hval, hcurl, tbl_unpack _ hl]
      have hnc' : ¬ l.contains idx = true := hnc
      obtain ⟨henq, hlv⟩ := tbl_enq l hl idx hidx hnc'
      rw [← hcurl, he] at henq
      injection henq with hnew
      have hsome := hcell rfl
      have hcellv : s.cells.getD (idx - 1) none = some ((s.cells.getD (idx - 1) none).getD 0) := by
        cases h : s.cells.getD (idx - 1) none with
        | none => rw [h] at hsome; cases hsome
        | some v => rfl
      have hg : g.next s th.pc (Obs.cas Loc.full cur new true cur) =
          { g with sent := g.sent ++ [(s.cells.getD (idx - 1) none).getD 0],
                   fq := g.fq ++ [(idx, (s.cells.getD (idx - 1) none).getD 0)], wr := dropKey idx g.wr } := by
        simp [Gh.next, hpc]
      rw [hg]
      have hget : ∀ j, (setTh (s.setHist .full (s.hist .full ++ [{ val := new, view := casMsgView o.enqSucc s .full th }])) t
          { th with pc := .idle, view := casView o.enqSucc s .full th }).threads[j]? =
          if t = j then some { th with pc := .idle, view := casView o.enqSucc s .full th } else s.threads[j]? := by
        intro j; exact threads_after j hlt
      refine ⟨?_, ?_, ?_, ?_, ?_, ?_, ?_, fun e he => hP.wrW e ((mem_dropKey _ _ _).1 he).1, ?_, hP.tkGot⟩
      rotate_left 7
      · intro x hx
        rcases List.mem_append.1 hx with h | h
        · exact hP.sentW x h
        · simp only [List.mem_singleton] at h; subst h
          obtain ⟨tg', hm⟩ := hP.ownW t th idx hth (by rw [hpc]; exact Or.inr ⟨_, _, rfl⟩)
          have hc' := (hP.cellW _ hm).1
          simp only at hc'
          rw [hc']
          exact hP.wrW _ hm
      · show (g.fq ++ [(idx, (s.cells.getD (idx - 1) none).getD 0)]).map (fun e : Nat × Nat => e.1) = LQ (lastMsg (s.full ++ [_]))
        rw [lastMsg_append, List.map_append, hP.keysF, hLQ]
        show l ++ [idx] = unpack new
        rw [hnew, tbl_unpack _ hlv]
      · intro e he'
        rcases List.mem_append.1 he' with h | h
        · exact hP.cellF e h
        · simp only [List.mem_singleton] at h; subst h; exact hcellv
      · intro e he'
        obtain ⟨he1, hne⟩ := (mem_dropKey _ _ _).1 he'
        obtain ⟨hc, j, thj, hj, hr⟩ := hP.cellW e he1
        have hjt : j ≠ t := by
          intro e2; subst e2; rw [hth] at hj; injection hj with hj; subst hj
          rw [isFullEnq_owns hr] at hown; injection hown with h; exact hne h
        exact ⟨hc, j, thj, by rw [hget j]; simp [Ne.symm hjt, hj], hr⟩
      · intro e he'
        obtain ⟨hc, j, thj, hj, hr⟩ := hP.cellT e he'
        have hjt : j ≠ t := by
          intro e2; subst e2; rw [hth] at hj; injection hj with hj; subst hj
          rw [hpc] at hr; cases hr
        exact ⟨hc, j, thj, by rw [hget j]; simp [Ne.symm hjt, hj], hr⟩
      · intro j thj i hj hr
        rw [hget j] at hj
        split at hj
        · injection hj with hj; subst hj
          rcases hr with ⟨r, h⟩ | ⟨r, cu, h⟩ <;> cases h
        · rename_i hjt
          obtain ⟨tg, hm⟩ := hP.ownW j thj i hj hr
          have hne : i ≠ idx := by
            intro e1; subst e1
            exact hjt (owner_unique hI hth hj hown (isFullEnq_owns hr)).symm
          exact ⟨tg, (mem_dropKey _ _ _).2 ⟨hm, hne⟩⟩
      · intro j thj i hj hr
        rw [hget j] at hj
        split at hj
        · injection hj with hj; subst hj; cases hr
        · exact hP.ownT j thj i hj hr
      · show g.sent ++ [_] = g.got ++ (g.fq ++ [(idx, (s.cells.getD (idx - 1) none).getD 0)]).map (fun e : Nat × Nat => e.2)
        rw [hP.fifo]; simp

end SigHook.Channel
