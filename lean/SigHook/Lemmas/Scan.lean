import SigHook.Model.Scan
/-! ## Queueing exfiltrators: the scan hands out everything that is queued

With `WithRawSiginfo` / `WithOrigin` a slot is a channel and several records of one signal can be
queued when `pending()` has just drained the self-pipe. The wake-up bytes of all of them are gone
at that point, so the scan has to hand out all of them: `Pending::next` stays on a slot until it is
empty (`Model/Scan.lean`). -/
namespace SigHook.Scan

theorem next_none (done rest : List (List Nat)) (s' : St) (h : next true done rest = (none, s')) :
    rest.flatten = [] ∧ s'.rest = [] := by
  induction rest generalizing done with
  | nil => simp [next] at h; subst h; simp
  | cons q tl ih =>
    cases q with
    | nil => simp only [next] at h; simpa using ih _ h
    | cons r q' => simp [next] at h

theorem next_some (done rest : List (List Nat)) (r : Nat) (s' : St) (h : next true done rest = (some r, s')) :
    rest.flatten = r :: s'.rest.flatten := by
  induction rest generalizing done with
  | nil => simp [next] at h
  | cons q tl ih =>
    cases q with
    | nil => simp only [next] at h; simpa using ih _ h
    | cons r' q' =>
      simp only [next, if_true, Prod.mk.injEq, Option.some.injEq] at h
      obtain ⟨rfl, rfl⟩ := h
      simp

/-- **C09.scan_hands_out_everything** — draining the iterator yields exactly the records that were
queued in the slots from its position on, each once, slot by slot and oldest first within a slot
(given enough calls: one per record plus the final `None`). -/
theorem scan_hands_out_everything (fuel : Nat) (s : St) (hf : (queued s).length < fuel) :
    (drain true fuel s).1 = queued s := by
  induction fuel generalizing s with
  | zero => omega
  | succ n ih =>
    simp only [drain]
    cases hn : next true s.done s.rest with
    | mk o s' =>
      cases o with
      | none =>
        simp only
        have := (next_none _ _ _ hn).1
        simp [queued, this]
      | some r =>
        simp only
        have h1 := next_some _ _ _ _ hn
        have hq : queued s = r :: queued s' := h1
        rw [hq] at hf ⊢
        rw [ih s' (by simpa using hf)]

/-- the shape of the source is the one the theorem is about (regenerated on every run) -/
theorem scan_shape_current : staysOnHit = true := by decide

/-- with the other shape (position advanced on a hit too) records are left behind: two records of
one signal queued, only the first is handed out - and their wake-up bytes are gone -/
theorem scan_advancing_on_hit_strands :
    (drain false 10 { done := [], rest := [[], [7, 8], []] }).1 = [7] ∧
    (drain true 10 { done := [], rest := [[], [7, 8], []] }).1 = [7, 8] := by decide

end SigHook.Scan
