import SigHook.Lemmas.Channel
/-! The channel invariant and its preservation by every step (see `Lemmas/Channel.lean`). -/
namespace SigHook.Channel
open SigHook SigHook.Packed

def LQ (m : Msg) : List Nat := unpack m.val

def Pc.owns : Pc → Option Nat
  | .write idx _ | .take idx | .enqLoad _ idx _ | .enqCas _ idx _ _ => some idx
  | _ => none

def ownsB (idx : Nat) (th : Thread) : Bool := th.pc.owns == some idx

def b2n (b : Bool) : Nat := if b then 1 else 0

/-- number of holders of slot index `idx`: the two queues' latest values and the threads -/
def holders (s : Sys) (idx : Nat) : Nat :=
  b2n ((LQ (lastMsg s.empty)).contains idx) + b2n ((LQ (lastMsg s.full)).contains idx) +
    s.threads.countP (ownsB idx)

def other : Loc → Loc
  | .empty => .full
  | .full => .empty

/-- from the view's position on, no message of `q`'s history contains `idx` -/
def Clean (s : Sys) (v : View) (idx : Nat) (q : Loc) : Prop :=
  ∀ k, v.at q ≤ k → k < (s.hist q).length → ¬ (LQ (msgAt (s.hist q) k)).contains idx

def ViewOk (s : Sys) (v : View) : Prop :=
  v.vf < s.full.length ∧ v.ve < s.empty.length ∧ v.cells.length = Gen.SLOTS ∧
    ∀ i, i < Gen.SLOTS → v.cells.getD i 0 ≤ s.cnt.getD i 0

def ValidMsg (m : Msg) : Prop := LQ m ∈ validLists ∧ m.val = pack (LQ m)

/-- what the owner of `idx` knows -/
def OwnOk (s : Sys) (v : View) (idx : Nat) : Prop :=
  idx ∈ idxs ∧ Clean s v idx .empty ∧ Clean s v idx .full ∧ v.cells.getD (idx - 1) 0 = s.cnt.getD (idx - 1) 0

def PcOk (s : Sys) (th : Thread) : Prop :=
  match th.pc with
  | .idle => True
  | .deqCas q tag cur => cur &&& MASK ≠ 0 ∧ (tag.isSome = true → q = .empty) ∧ (tag = none → q = .full)
  | .write idx _ => OwnOk s th.view idx
  | .take idx => OwnOk s th.view idx ∧ (s.cells.getD (idx - 1) none).isSome = true
  | .enqLoad q idx _ => OwnOk s th.view idx ∧ (q = .full → (s.cells.getD (idx - 1) none).isSome = true)
  | .enqCas q idx _ cur => OwnOk s th.view idx ∧ (q = .full → (s.cells.getD (idx - 1) none).isSome = true) ∧
      ∃ l ∈ validLists, cur = pack l ∧ ¬ l.contains idx

structure Inv (s : Sys) : Prop where
  ne : ∀ q, s.hist q ≠ []
  valid : ∀ q, ∀ m ∈ s.hist q, ValidMsg m
  hold : ∀ idx ∈ idxs, holders s idx = 1
  lens : s.cnt.length = Gen.SLOTS ∧ s.cells.length = Gen.SLOTS
  thView : ∀ (t : Nat) (th : Thread), s.threads[t]? = some th → ViewOk s th.view
  msgView : ∀ q, ∀ m ∈ s.hist q, ViewOk s m.view
  pcs : ∀ (t : Nat) (th : Thread), s.threads[t]? = some th → PcOk s th
  lastOk : ∀ q, ∀ idx, (LQ (lastMsg (s.hist q))).contains idx = true →
    Clean s (lastMsg (s.hist q)).view idx (other q) ∧
    (lastMsg (s.hist q)).view.cells.getD (idx - 1) 0 = s.cnt.getD (idx - 1) 0
  fullCells : ∀ idx, (LQ (lastMsg s.full)).contains idx = true → (s.cells.getD (idx - 1) none).isSome = true

/-! ## small facts -/

@[simp] theorem hist_setTh (s : Sys) (t : Nat) (th : Thread) (q : Loc) : (setTh s t th).hist q = s.hist q := by
  cases q <;> rfl

@[simp] theorem hist_setHist_same (s : Sys) (q : Loc) (h : List Msg) : (s.setHist q h).hist q = h := by
  cases q <;> rfl

theorem hist_setHist_other (s : Sys) (q q' : Loc) (h : List Msg) (hne : q' ≠ q) : (s.setHist q h).hist q' = s.hist q' := by
  cases q <;> cases q' <;> first | rfl | exact absurd rfl hne

theorem other_ne (q : Loc) : other q ≠ q := by cases q <;> simp [other]

theorem hist_empty (s : Sys) : s.hist .empty = s.empty := rfl
theorem hist_full (s : Sys) : s.hist .full = s.full := rfl

theorem getD_of_lt {α} (l : List α) (k : Nat) (d : α) (h : k < l.length) : l.getD k d = l[k] := by
  simp [List.getD, h]

theorem lastMsg_mem {h : List Msg} (hne : h ≠ []) : lastMsg h ∈ h := by
  unfold lastMsg msgAt lastK
  have : h.length - 1 < h.length := by
    cases h with
    | nil => exact absurd rfl hne
    | cons a t => simp
  rw [getD_of_lt _ _ _ this]
  exact List.getElem_mem this

theorem msgAt_mem {h : List Msg} {k : Nat} (hk : k < h.length) : msgAt h k ∈ h := by
  unfold msgAt; rw [getD_of_lt _ _ _ hk]; exact List.getElem_mem hk

theorem lastMsg_append (h : List Msg) (m : Msg) : lastMsg (h ++ [m]) = m := by
  unfold lastMsg msgAt lastK
  simp

theorem msgAt_append_lt (h : List Msg) (m : Msg) {k : Nat} (hk : k < h.length) : msgAt (h ++ [m]) k = msgAt h k := by
  unfold msgAt
  rw [getD_of_lt _ _ _ (by simp; omega), getD_of_lt _ _ _ hk, List.getElem_append_left hk]

theorem msgAt_append_eq (h : List Msg) (m : Msg) : msgAt (h ++ [m]) h.length = m := by
  unfold msgAt; simp

theorem readIdx_bounds (h : List Msg) (lo : Nat) (c : Choice) (hlo : lo < h.length) :
    lo ≤ readIdx h lo c ∧ readIdx h lo c < h.length := by
  unfold readIdx
  cases c.read with
  | none => simp only; omega
  | some k => simp only; omega

theorem countP_set_b2n {α} (p : α → Bool) (l : List α) (t : Nat) (x : α) (ht : t < l.length) :
    List.countP p (l.set t x) + b2n (p l[t]) = List.countP p l + b2n (p x) := by
  rw [List.countP_set ht]
  have hpos : p l[t] = true → 0 < List.countP p l := fun h =>
    List.countP_pos_iff.2 ⟨l[t], List.getElem_mem ht, h⟩
  unfold b2n
  by_cases h1 : p l[t] = true <;> by_cases h2 : p x = true <;> simp [h1, h2]
  · have := hpos h1; omega
  · have := hpos h1; omega

theorem view_at_setAt_same (v : View) (q : Loc) (k : Nat) : (v.setAt q k).at q = k := by cases q <;> rfl
theorem view_at_setAt_other (v : View) (q q' : Loc) (k : Nat) (h : q' ≠ q) : (v.setAt q k).at q' = v.at q' := by
  cases q <;> cases q' <;> first | rfl | exact absurd rfl h
theorem view_cells_setAt (v : View) (q : Loc) (k : Nat) : (v.setAt q k).cells = v.cells := by cases q <;> rfl


/-! ## views -/

theorem zipMax_length (a b : List Nat) (h : a.length = b.length) : (zipMax a b).length = a.length := by
  induction a generalizing b with
  | nil => cases b <;> simp_all [zipMax]
  | cons x xs ih =>
    cases b with
    | nil => simp at h
    | cons y ys => simp only [zipMax, List.length_cons]; rw [ih ys (by simpa using h)]

theorem zipMax_getD (a b : List Nat) (i : Nat) (h : a.length = b.length) :
    (zipMax a b).getD i 0 = max (a.getD i 0) (b.getD i 0) := by
  induction a generalizing b i with
  | nil => cases b <;> simp_all [zipMax]
  | cons x xs ih =>
    cases b with
    | nil => simp at h
    | cons y ys =>
      cases i with
      | zero => simp [zipMax]
      | succ j =>
        simp only [zipMax, List.getD_cons_succ]
        exact ih ys j (by simpa using h)

theorem join_at (a b : View) (q : Loc) : (a.join b).at q = max (a.at q) (b.at q) := by cases q <;> rfl

theorem view_at_lt {s : Sys} {v : View} (h : ViewOk s v) (q : Loc) : v.at q < (s.hist q).length := by
  cases q
  · exact h.2.1
  · exact h.1

theorem clean_mono {s : Sys} {v v' : View} {idx : Nat} {q : Loc} (h : Clean s v idx q) (hle : v.at q ≤ v'.at q) :
    Clean s v' idx q := fun k hk hlt => h k (Nat.le_trans hle hk) hlt

theorem viewOk_join {s : Sys} {a b : View} (ha : ViewOk s a) (hb : ViewOk s b) : ViewOk s (a.join b) := by
  obtain ⟨a1, a2, a3, a4⟩ := ha
  obtain ⟨b1, b2, b3, b4⟩ := hb
  refine ⟨?_, ?_, ?_, ?_⟩
  · show max a.vf b.vf < _; omega
  · show max a.ve b.ve < _; omega
  · show (zipMax a.cells b.cells).length = _; rw [zipMax_length _ _ (by rw [a3, b3])]; exact a3
  · intro i hi
    show (zipMax a.cells b.cells).getD i 0 ≤ _
    rw [zipMax_getD _ _ _ (by rw [a3, b3])]
    have := a4 i hi; have := b4 i hi; omega

theorem join_cells_getD {s : Sys} {a b : View} (ha : ViewOk s a) (hb : ViewOk s b) (i : Nat) :
    (a.join b).cells.getD i 0 = max (a.cells.getD i 0) (b.cells.getD i 0) := by
  show (zipMax a.cells b.cells).getD i 0 = _
  exact zipMax_getD _ _ _ (by rw [ha.2.2.1, hb.2.2.1])

/-- at most one thread owns an index, and then neither queue holds it -/
theorem owner_facts {s : Sys} (hI : Inv s) {t : Nat} {th : Thread} (hth : s.threads[t]? = some th) {idx : Nat}
    (hidx : idx ∈ idxs) (ho : th.pc.owns = some idx) :
    (LQ (lastMsg s.empty)).contains idx = false ∧ (LQ (lastMsg s.full)).contains idx = false ∧
    ∀ (j : Nat) (thj : Thread), s.threads[j]? = some thj → j ≠ t → thj.pc.owns ≠ some idx := by
  have h1 := hI.hold idx hidx
  unfold holders at h1
  obtain ⟨ht, rfl⟩ := List.getElem?_eq_some_iff.1 hth
  have hpos : 0 < s.threads.countP (ownsB idx) :=
    List.countP_pos_iff.2 ⟨s.threads[t], List.getElem_mem ht, by simp [ownsB, ho]⟩
  have hc1 : s.threads.countP (ownsB idx) = 1 := by
    unfold b2n at h1; split at h1 <;> split at h1 <;> omega
  refine ⟨?_, ?_, ?_⟩
  · cases h : (LQ (lastMsg s.empty)).contains idx with
    | false => rfl
    | true => rw [h] at h1; simp [b2n] at h1; omega
  · cases h : (LQ (lastMsg s.full)).contains idx with
    | false => rfl
    | true => rw [h] at h1; simp [b2n] at h1; omega
  · intro j thj hj hne ho'
    obtain ⟨hjl, rfl⟩ := List.getElem?_eq_some_iff.1 hj
    -- two distinct positions satisfying the predicate: count ≥ 2
    generalize hx : (⟨[], Pc.idle, View.bot⟩ : Thread) = x
    have := countP_set_b2n (ownsB idx) s.threads t x ht
    have e1 : ownsB idx s.threads[t] = true := by simp [ownsB, ho]
    have e2 : ownsB idx x = false := by subst hx; simp [ownsB, Pc.owns]
    rw [e1, e2] at this
    simp only [b2n, if_true, Bool.false_eq_true, if_false] at this
    have hpos' : 0 < (s.threads.set t x).countP (ownsB idx) := by
      apply List.countP_pos_iff.2
      refine ⟨s.threads[j], ?_, by simp [ownsB, ho']⟩
      rw [List.mem_iff_getElem]
      exact ⟨j, by simpa using hjl, by rw [List.getElem_set]; simp [Ne.symm hne]⟩
    omega


theorem setTh_get (s : Sys) (t : Nat) (th' : Thread) (ht : t < s.threads.length) :
    (setTh s t th').threads[t]? = some th' := by simp [setTh, ht]

theorem setTh_get_ne (s : Sys) (t j : Nat) (th' : Thread) (hj : j ≠ t) :
    (setTh s t th').threads[j]? = s.threads[j]? := by simp [setTh, List.getElem?_set, Ne.symm hj]

theorem holders_setTh (s : Sys) (t : Nat) (th th' : Thread) (hth : s.threads[t]? = some th) (idx : Nat) :
    holders (setTh s t th') idx + b2n (ownsB idx th) = holders s idx + b2n (ownsB idx th') := by
  obtain ⟨ht, rfl⟩ := List.getElem?_eq_some_iff.1 hth
  have := countP_set_b2n (ownsB idx) s.threads t th' ht
  unfold holders
  show _ + _ + (s.threads.set t th').countP (ownsB idx) + _ = _
  show b2n ((LQ (lastMsg s.empty)).contains idx) + b2n ((LQ (lastMsg s.full)).contains idx) +
    (s.threads.set t th').countP (ownsB idx) + b2n (ownsB idx s.threads[t]) = _
  omega

/-- a step that only moves the stepping thread (program counter, view forward on one queue) -/
theorem inv_viewonly {s : Sys} (hI : Inv s) {t : Nat} {th th' : Thread} (hth : s.threads[t]? = some th)
    (hown : th'.pc.owns = th.pc.owns)
    (hv : th'.view = th.view ∨ ∃ q k, th'.view = th.view.setAt q k ∧ k < (s.hist q).length)
    (hpc : PcOk s th') : Inv (setTh s t th') := by
  have ht := (List.getElem?_eq_some_iff.1 hth).1
  have hvok : ViewOk s th'.view := by
    have h0 := hI.thView t th hth
    rcases hv with e | ⟨q, k, e, hk⟩
    · rw [e]; exact h0
    · rw [e]
      obtain ⟨a1, a2, a3, a4⟩ := h0
      cases q
      · exact ⟨a1, hk, a3, a4⟩
      · exact ⟨hk, a2, a3, a4⟩
  refine ⟨fun q => by rw [hist_setTh]; exact hI.ne q, fun q => by rw [hist_setTh]; exact hI.valid q, ?_,
    hI.lens, ?_, fun q => by rw [hist_setTh]; exact hI.msgView q, ?_, ?_, hI.fullCells⟩
  · intro idx hidx
    have := holders_setTh s t th th' hth idx
    have e : ownsB idx th' = ownsB idx th := by simp [ownsB, hown]
    rw [e] at this
    have := hI.hold idx hidx
    omega
  · intro j x hx
    by_cases hj : j = t
    · subst hj; rw [setTh_get _ _ _ ht] at hx; injection hx with hx; subst hx; exact hvok
    · rw [setTh_get_ne _ _ _ _ hj] at hx; exact hI.thView j x hx
  · intro j x hx
    by_cases hj : j = t
    · subst hj; rw [setTh_get _ _ _ ht] at hx; injection hx with hx; subst hx; exact hpc
    · rw [setTh_get_ne _ _ _ _ hj] at hx; exact hI.pcs j x hx
  · intro q idx h
    rw [hist_setTh] at h ⊢
    exact hI.lastOk q idx h


theorem rdK_bounds {s : Sys} (hI : Inv s) {t : Nat} {th : Thread} (hth : s.threads[t]? = some th) (q : Loc) (c : Choice) :
    th.view.at q ≤ rdK s q th c ∧ rdK s q th c < (s.hist q).length :=
  readIdx_bounds _ _ _ (view_at_lt (hI.thView t th hth) q)

theorem ownOk_setAt {s : Sys} {v : View} {idx : Nat} (h : OwnOk s v idx) (q : Loc) (k : Nat) (hk : v.at q ≤ k) :
    OwnOk s (v.setAt q k) idx := by
  obtain ⟨h1, h2, h3, h4⟩ := h
  refine ⟨h1, ?_, ?_, by rw [view_cells_setAt]; exact h4⟩
  · apply clean_mono h2
    cases q
    · rw [view_at_setAt_same]; exact hk
    · rw [view_at_setAt_other _ _ _ _ (by intro h; cases h)]; exact Nat.le_refl _
  · apply clean_mono h3
    cases q
    · rw [view_at_setAt_other _ _ _ _ (by intro h; cases h)]; exact Nat.le_refl _
    · rw [view_at_setAt_same]; exact hk

/-- what an owner reads from a queue (even a stale value) does not contain its index -/
theorem read_without_own {s : Sys} (hI : Inv s) {v : View} {idx : Nat} (ho : OwnOk s v idx) (q : Loc) {k : Nat}
    (hk : v.at q ≤ k) (hlt : k < (s.hist q).length) :
    ∃ l ∈ validLists, (msgAt (s.hist q) k).val = pack l ∧ ¬ l.contains idx := by
  have hv := hI.valid q _ (msgAt_mem hlt)
  refine ⟨LQ (msgAt (s.hist q) k), hv.1, hv.2, ?_⟩
  cases q
  · exact ho.2.1 k hk hlt
  · exact ho.2.2.1 k hk hlt

theorem inv_step_viewonly {o : Orders} {s s' : Sys} {t : Nat} {th : Thread} {c : Choice} {out : Out}
    (hI : Inv s) (hth : s.threads[t]? = some th) (h : CStep o s t th c s' out) :
    (∀ idx tag, th.pc ≠ .write idx tag) → (∀ idx, th.pc ≠ .take idx) →
    (∀ q tag cur, th.pc = .deqCas q tag cur → canSucceed s q th c cur = false) →
    (∀ q idx ret cur, th.pc = .enqCas q idx ret cur → canSucceed s q th c cur = false) →
    Inv s' ∧ out.panic = none ∧ out.race = false := by
  intro hw htk hdq henq
  have hP := hI.pcs t th hth
  cases h with
  | startNone q tag rest hpc hsc hz =>
    refine ⟨inv_viewonly hI hth (by rw [hpc]) (Or.inr ⟨q, _, rfl, (rdK_bounds hI hth q c).2⟩) ?_, rfl, rfl⟩
    simp [PcOk]
  | startGo q tag rest hpc hsc hz =>
    refine ⟨inv_viewonly hI hth (by rw [hpc]; rfl) (Or.inr ⟨q, _, rfl, (rdK_bounds hI hth q c).2⟩) ?_, rfl, rfl⟩
    simp only [PcOk]
    refine ⟨hz, ?_, ?_⟩
    · intro hs
      rcases hsc with ⟨tg, _, hq, _⟩ | ⟨_, _, ht⟩
      · exact hq
      · rw [ht] at hs; cases hs
    · intro hn
      rcases hsc with ⟨tg, _, _, ht⟩ | ⟨_, hq, _⟩
      · rw [ht] at hn; cases hn
      · exact hq
  | deqOk q tag cur hpc hcs => rw [hdq q tag cur hpc] at hcs; cases hcs
  | deqFailNone q tag cur hpc hcs hz =>
    refine ⟨inv_viewonly hI hth (by rw [hpc]; rfl) (Or.inr ⟨q, _, rfl, (rdK_bounds hI hth q c).2⟩) ?_, rfl, rfl⟩
    simp [PcOk]
  | deqFailRetry q tag cur hpc hcs hz =>
    refine ⟨inv_viewonly hI hth (by rw [hpc]; rfl) (Or.inr ⟨q, _, rfl, (rdK_bounds hI hth q c).2⟩) ?_, rfl, rfl⟩
    simp only [PcOk, hpc] at hP ⊢
    exact ⟨hz, hP.2.1, hP.2.2⟩
  | write idx tag hpc => exact absurd hpc (hw idx tag)
  | takeSome idx tag hpc hv => exact absurd hpc (htk idx)
  | takeNone idx hpc hv => exact absurd hpc (htk idx)
  | enqLoad q idx ret hpc =>
    simp only [PcOk, hpc] at hP
    obtain ⟨hb1, hb2⟩ := rdK_bounds hI hth q c
    refine ⟨inv_viewonly hI hth (by rw [hpc]; rfl) (Or.inr ⟨q, _, rfl, hb2⟩) ?_, rfl, rfl⟩
    simp only [PcOk]
    exact ⟨ownOk_setAt hP.1 q _ hb1, hP.2, read_without_own hI hP.1 q hb1 hb2⟩
  | enqPanic q idx ret cur hpc he =>
    exfalso
    simp only [PcOk, hpc] at hP
    obtain ⟨ho, _, l, hl, hcur, hni⟩ := hP
    have := (tbl_enq l hl idx ho.1 hni).1
    rw [hcur] at he; rw [this] at he; cases he
  | enqOk q idx ret cur new hpc he hcs => rw [henq q idx ret cur hpc] at hcs; cases hcs
  | enqFail q idx ret cur new hpc he hcs =>
    simp only [PcOk, hpc] at hP
    obtain ⟨hb1, hb2⟩ := rdK_bounds hI hth q c
    refine ⟨inv_viewonly hI hth (by rw [hpc]; rfl) (Or.inr ⟨q, _, rfl, hb2⟩) ?_, rfl, rfl⟩
    simp only [PcOk]
    exact ⟨ownOk_setAt hP.1 q _ hb1, hP.2.1, read_without_own hI hP.1 q hb1 hb2⟩


/-! ## cell accesses -/

theorem slots5 : Gen.SLOTS = 5 := by decide

theorem getD_set {α} (l : List α) (i j : Nat) (x d : α) (hi : i < l.length) :
    (l.set i x).getD j d = if i = j then x else l.getD j d := by
  simp only [List.getD, List.getElem?_set]
  by_cases h : i = j
  · subst h; simp [hi]
  · simp [h]

/-- the shared state after the owner of `idx` accessed its cell, leaving `cv` in it -/
def cellSys' (s : Sys) (idx : Nat) (cv : Option Nat) : Sys :=
  { cellSys s idx with cells := s.cells.set (idx - 1) cv }

theorem cellSys'_hist (s : Sys) (idx : Nat) (cv : Option Nat) (q : Loc) : (cellSys' s idx cv).hist q = s.hist q := by
  cases q <;> rfl

theorem cnt_cell (s : Sys) (hI : Inv s) (idx : Nat) (hidx : idx ∈ idxs) (cv : Option Nat) (j : Nat) :
    (cellSys' s idx cv).cnt.getD j 0 = if idx - 1 = j then s.cnt.getD (idx - 1) 0 + 1 else s.cnt.getD j 0 := by
  have h5 := slots5
  have := (idxs_iff idx).1 hidx
  show (s.cnt.set (idx - 1) (s.cnt.getD (idx - 1) 0 + 1)).getD j 0 = _
  rw [getD_set _ _ _ _ _ (by rw [hI.lens.1]; omega)]

theorem cells_cell (s : Sys) (hI : Inv s) (idx : Nat) (hidx : idx ∈ idxs) (cv : Option Nat) (j : Nat) :
    (cellSys' s idx cv).cells.getD j none = if idx - 1 = j then cv else s.cells.getD j none := by
  have h5 := slots5
  have := (idxs_iff idx).1 hidx
  show (s.cells.set (idx - 1) cv).getD j none = _
  rw [getD_set _ _ _ _ _ (by rw [hI.lens.2]; omega)]

theorem viewOk_cell {s : Sys} (hI : Inv s) {idx : Nat} (hidx : idx ∈ idxs) (cv : Option Nat) {v : View}
    (h : ViewOk s v) : ViewOk (cellSys' s idx cv) v := by
  obtain ⟨a1, a2, a3, a4⟩ := h
  refine ⟨a1, a2, a3, ?_⟩
  intro i hi
  rw [cnt_cell s hI idx hidx cv i]
  have := a4 i hi
  split
  · rename_i e; subst e; omega
  · exact this

theorem clean_cell {s : Sys} (idx : Nat) (cv : Option Nat) {v : View} {i : Nat} {q : Loc} :
    Clean (cellSys' s idx cv) v i q ↔ Clean s v i q := by
  unfold Clean; rw [cellSys'_hist]

theorem ownOk_cell_other {s : Sys} (hI : Inv s) {idx : Nat} (hidx : idx ∈ idxs) (cv : Option Nat) {v : View} {i : Nat}
    (h : OwnOk s v i) (hne : i ≠ idx) : OwnOk (cellSys' s idx cv) v i := by
  obtain ⟨h1, h2, h3, h4⟩ := h
  refine ⟨h1, (clean_cell idx cv).2 h2, (clean_cell idx cv).2 h3, ?_⟩
  rw [cnt_cell s hI idx hidx cv]
  have := (idxs_iff idx).1 hidx
  have := (idxs_iff i).1 h1
  rw [if_neg (by omega)]; exact h4

theorem pcOk_cell_other {s : Sys} (hI : Inv s) {idx : Nat} (hidx : idx ∈ idxs) (cv : Option Nat) {th : Thread}
    (h : PcOk s th) (hne : th.pc.owns ≠ some idx) : PcOk (cellSys' s idx cv) th := by
  have hi := (idxs_iff idx).1 hidx
  unfold PcOk at h ⊢
  cases hpc : th.pc with
  | idle => trivial
  | deqCas q tag cur => rw [hpc] at h; exact h
  | write i tg =>
    rw [hpc] at h hne
    exact ownOk_cell_other hI hidx cv h (by intro e; subst e; exact hne rfl)
  | take i =>
    rw [hpc] at h hne
    have hne' : i ≠ idx := by intro e; subst e; exact hne rfl
    have hii := (idxs_iff i).1 h.1.1
    refine ⟨ownOk_cell_other hI hidx cv h.1 hne', ?_⟩
    rw [cells_cell s hI idx hidx cv, if_neg (by omega)]; exact h.2
  | enqLoad q i ret =>
    rw [hpc] at h hne
    have hne' : i ≠ idx := by intro e; subst e; exact hne rfl
    have hii := (idxs_iff i).1 h.1.1
    refine ⟨ownOk_cell_other hI hidx cv h.1 hne', ?_⟩
    intro hq
    rw [cells_cell s hI idx hidx cv, if_neg (by omega)]; exact h.2 hq
  | enqCas q i ret cur =>
    rw [hpc] at h hne
    have hne' : i ≠ idx := by intro e; subst e; exact hne rfl
    have hii := (idxs_iff i).1 h.1.1
    refine ⟨ownOk_cell_other hI hidx cv h.1 hne', ?_, h.2.2⟩
    intro hq
    rw [cells_cell s hI idx hidx cv, if_neg (by omega)]; exact h.2.1 hq

/-- the owner of `idx` accesses its cell -/
theorem inv_cell {s : Sys} (hI : Inv s) {t : Nat} {th th' : Thread} (hth : s.threads[t]? = some th) {idx : Nat}
    (hown : th.pc.owns = some idx) (hO : OwnOk s th.view idx) (cv : Option Nat)
    (hown' : th'.pc.owns = some idx) (hv : th'.view = cellView s th idx)
    (hpc' : PcOk (cellSys' s idx cv) th') : Inv (setTh (cellSys' s idx cv) t th') := by
  have ht := (List.getElem?_eq_some_iff.1 hth).1
  have hidx := hO.1
  have hi := (idxs_iff idx).1 hidx
  have h5 := slots5
  obtain ⟨hnE, hnF, hothers⟩ := owner_facts hI hth hidx hown
  have hvok : ViewOk (cellSys' s idx cv) th'.view := by
    rw [hv]
    obtain ⟨a1, a2, a3, a4⟩ := hI.thView t th hth
    refine ⟨a1, a2, by show (th.view.cells.set _ _).length = _; simpa using a3, ?_⟩
    intro i hi'
    show (th.view.cells.set (idx - 1) (s.cnt.getD (idx - 1) 0 + 1)).getD i 0 ≤ _
    rw [getD_set _ _ _ _ _ (by rw [a3]; omega), cnt_cell s hI idx hidx cv i]
    split
    · exact Nat.le_refl _
    · exact a4 i hi'
  refine ⟨fun q => by rw [hist_setTh, cellSys'_hist]; exact hI.ne q,
    fun q => by rw [hist_setTh, cellSys'_hist]; exact hI.valid q, ?_, ?_, ?_, ?_, ?_, ?_, ?_⟩
  · intro i hi'
    have := holders_setTh (cellSys' s idx cv) t th th' hth i
    have e : ownsB i th' = ownsB i th := by simp [ownsB, hown, hown']
    rw [e] at this
    have h1 := hI.hold i hi'
    have e2 : holders (cellSys' s idx cv) i = holders s i := rfl
    omega
  · exact ⟨by show (s.cnt.set _ _).length = _; simpa using hI.lens.1,
      by show (s.cells.set _ _).length = _; simpa using hI.lens.2⟩
  · intro j x hx
    by_cases hj : j = t
    · subst hj; rw [setTh_get (cellSys' s idx cv) _ _ ht] at hx; injection hx with hx; subst hx; exact hvok
    · rw [setTh_get_ne _ _ _ _ hj] at hx; exact viewOk_cell hI hidx cv (hI.thView j x hx)
  · intro q m hm
    rw [hist_setTh, cellSys'_hist] at hm
    exact viewOk_cell hI hidx cv (hI.msgView q m hm)
  · intro j x hx
    by_cases hj : j = t
    · subst hj; rw [setTh_get (cellSys' s idx cv) _ _ ht] at hx; injection hx with hx; subst hx; exact hpc'
    · rw [setTh_get_ne _ _ _ _ hj] at hx
      exact pcOk_cell_other hI hidx cv (hI.pcs j x hx) (hothers j x hx hj)
  · intro q i hc
    rw [hist_setTh, cellSys'_hist] at hc ⊢
    obtain ⟨c1, c2⟩ := hI.lastOk q i hc
    have hne : i ≠ idx := by
      intro e; subst e
      cases q
      · rw [hist_empty] at hc; rw [hc] at hnE; cases hnE
      · rw [hist_full] at hc; rw [hc] at hnF; cases hnF
    have hiv := hI.valid q _ (lastMsg_mem (hI.ne q))
    have hii := (idxs_iff i).1 (tbl_mem _ hiv.1 i (by simpa using hc))
    refine ⟨(clean_cell idx cv).2 c1, ?_⟩
    show _ = (cellSys' s idx cv).cnt.getD (i - 1) 0
    rw [cnt_cell s hI idx hidx cv, if_neg (by omega)]; exact c2
  · intro i hc0
    have hc : (LQ (lastMsg s.full)).contains i = true := hc0
    clear hc0
    have hne : i ≠ idx := by intro e; subst e; rw [hc] at hnF; cases hnF
    have hiv := hI.valid .full _ (lastMsg_mem (hI.ne .full))
    have hii := (idxs_iff i).1 (tbl_mem _ hiv.1 i (by simpa [hist_full] using hc))
    show ((cellSys' s idx cv).cells.getD (i - 1) none).isSome = true
    rw [cells_cell s hI idx hidx cv, if_neg (by omega)]
    exact hI.fullCells i hc


/-! ## appending a message to a queue's history (a successful compare-exchange) -/

def appSys (s : Sys) (q : Loc) (m : Msg) : Sys := s.setHist q (s.hist q ++ [m])

theorem appSys_hist_same (s : Sys) (q : Loc) (m : Msg) : (appSys s q m).hist q = s.hist q ++ [m] := by
  unfold appSys; exact hist_setHist_same _ _ _

theorem appSys_hist_other (s : Sys) (q q' : Loc) (m : Msg) (h : q' ≠ q) : (appSys s q m).hist q' = s.hist q' := by
  unfold appSys; exact hist_setHist_other _ _ _ _ h

theorem appSys_cnt (s : Sys) (q : Loc) (m : Msg) : (appSys s q m).cnt = s.cnt := by cases q <;> rfl
theorem appSys_cells (s : Sys) (q : Loc) (m : Msg) : (appSys s q m).cells = s.cells := by cases q <;> rfl
theorem appSys_threads (s : Sys) (q : Loc) (m : Msg) : (appSys s q m).threads = s.threads := by cases q <;> rfl

theorem hist_len_app (s : Sys) (q q' : Loc) (m : Msg) : (s.hist q').length ≤ ((appSys s q m).hist q').length := by
  by_cases h : q' = q
  · subst h; rw [appSys_hist_same]; simp
  · rw [appSys_hist_other _ _ _ _ h]; exact Nat.le_refl _

theorem viewOk_app {s : Sys} (q : Loc) (m : Msg) {v : View} (h : ViewOk s v) : ViewOk (appSys s q m) v := by
  obtain ⟨a1, a2, a3, a4⟩ := h
  refine ⟨Nat.lt_of_lt_of_le a1 (hist_len_app s q .full m), Nat.lt_of_lt_of_le a2 (hist_len_app s q .empty m), a3, ?_⟩
  rw [appSys_cnt]; exact a4

theorem clean_app {s : Sys} (q : Loc) (m : Msg) {v : View} {idx : Nat} {q' : Loc} (h : Clean s v idx q')
    (hm : q' = q → ¬ (LQ m).contains idx) : Clean (appSys s q m) v idx q' := by
  intro k hk hlt
  by_cases hq : q' = q
  · subst hq
    rw [appSys_hist_same] at hlt ⊢
    by_cases hkl : k < (s.hist q').length
    · rw [msgAt_append_lt _ _ hkl]; exact h k hk hkl
    · have : k = (s.hist q').length := by simp at hlt; omega
      subst this
      rw [msgAt_append_eq]; exact hm rfl
  · rw [appSys_hist_other _ _ _ _ hq] at hlt ⊢
    exact h k hk hlt

theorem ownOk_app {s : Sys} (q : Loc) (m : Msg) {v : View} {idx : Nat} (h : OwnOk s v idx)
    (hm : ¬ (LQ m).contains idx) : OwnOk (appSys s q m) v idx := by
  obtain ⟨h1, h2, h3, h4⟩ := h
  exact ⟨h1, clean_app q m h2 (fun _ => hm), clean_app q m h3 (fun _ => hm), by rw [appSys_cnt]; exact h4⟩

theorem pcOk_app_other {s : Sys} (q : Loc) (m : Msg) {th : Thread} (h : PcOk s th)
    (hm : ∀ idx, th.pc.owns = some idx → ¬ (LQ m).contains idx) : PcOk (appSys s q m) th := by
  unfold PcOk at h ⊢
  cases hpc : th.pc with
  | idle => trivial
  | deqCas q' tag cur => rw [hpc] at h; exact h
  | write i tg => rw [hpc] at h hm; exact ownOk_app q m h (hm i rfl)
  | take i => rw [hpc] at h hm; exact ⟨ownOk_app q m h.1 (hm i rfl), by rw [appSys_cells]; exact h.2⟩
  | enqLoad q' i ret =>
    rw [hpc] at h hm; exact ⟨ownOk_app q m h.1 (hm i rfl), by rw [appSys_cells]; exact h.2⟩
  | enqCas q' i ret cur =>
    rw [hpc] at h hm; exact ⟨ownOk_app q m h.1 (hm i rfl), by rw [appSys_cells]; exact h.2.1, h.2.2⟩

/-- assembling the invariant after a successful compare-exchange of thread `t` on queue `q` -/
theorem inv_append {s : Sys} (hI : Inv s) {t : Nat} {th th' : Thread} (hth : s.threads[t]? = some th)
    (q : Loc) (m : Msg)
    (a1 : ValidMsg m) (a1v : ViewOk (appSys s q m) m.view) (a2 : ViewOk (appSys s q m) th'.view)
    (a3 : ∀ idx ∈ idxs, holders (setTh (appSys s q m) t th') idx = 1)
    (a4 : PcOk (appSys s q m) th')
    (a5 : ∀ (j : Nat) (thj : Thread) (i : Nat), s.threads[j]? = some thj → j ≠ t → thj.pc.owns = some i →
      ¬ (LQ m).contains i)
    (a6 : ∀ idx, (LQ m).contains idx = true → Clean (appSys s q m) m.view idx (other q) ∧
      m.view.cells.getD (idx - 1) 0 = s.cnt.getD (idx - 1) 0)
    (a7 : ∀ idx, (LQ (lastMsg (s.hist (other q)))).contains idx = true → ¬ (LQ m).contains idx)
    (a8 : q = .full → ∀ idx, (LQ m).contains idx = true → (s.cells.getD (idx - 1) none).isSome = true) :
    Inv (setTh (appSys s q m) t th') := by
  have ht := (List.getElem?_eq_some_iff.1 hth).1
  have ht' : t < (appSys s q m).threads.length := by rw [appSys_threads]; exact ht
  have hlast : lastMsg ((appSys s q m).hist q) = m := by rw [appSys_hist_same]; exact lastMsg_append _ _
  have hlastO : lastMsg ((appSys s q m).hist (other q)) = lastMsg (s.hist (other q)) := by
    rw [appSys_hist_other _ _ _ _ (other_ne q)]
  refine ⟨?_, ?_, a3, ?_, ?_, ?_, ?_, ?_, ?_⟩
  · intro q'
    rw [hist_setTh]
    by_cases h : q' = q
    · subst h; rw [appSys_hist_same]; simp
    · rw [appSys_hist_other _ _ _ _ h]; exact hI.ne q'
  · intro q' m' hm'
    rw [hist_setTh] at hm'
    by_cases h : q' = q
    · subst h; rw [appSys_hist_same] at hm'
      rcases List.mem_append.1 hm' with h | h
      · exact hI.valid q' m' h
      · simp at h; subst h; exact a1
    · rw [appSys_hist_other _ _ _ _ h] at hm'; exact hI.valid q' m' hm'
  · show (appSys s q m).cnt.length = _ ∧ (appSys s q m).cells.length = _
    rw [appSys_cnt, appSys_cells]; exact hI.lens
  · intro j x hx
    by_cases hj : j = t
    · subst hj; rw [setTh_get _ _ _ ht'] at hx; injection hx with hx; subst hx; exact a2
    · rw [setTh_get_ne _ _ _ _ hj, appSys_threads] at hx; exact viewOk_app q m (hI.thView j x hx)
  · intro q' m' hm'
    rw [hist_setTh] at hm'
    by_cases h : q' = q
    · subst h; rw [appSys_hist_same] at hm'
      rcases List.mem_append.1 hm' with h | h
      · exact viewOk_app q' m (hI.msgView q' m' h)
      · simp at h; subst h; exact a1v
    · rw [appSys_hist_other _ _ _ _ h] at hm'; exact viewOk_app q m (hI.msgView q' m' hm')
  · intro j x hx
    by_cases hj : j = t
    · subst hj; rw [setTh_get _ _ _ ht'] at hx; injection hx with hx; subst hx; exact a4
    · rw [setTh_get_ne _ _ _ _ hj, appSys_threads] at hx
      exact pcOk_app_other q m (hI.pcs j x hx) (fun i hi => a5 j x i hx hj hi)
  · intro q' idx hc
    rw [hist_setTh] at hc ⊢
    by_cases h : q' = q
    · subst h
      rw [hlast] at hc ⊢
      obtain ⟨c1, c2⟩ := a6 idx hc
      exact ⟨c1, by show _ = (appSys s q' m).cnt.getD _ 0; rw [appSys_cnt]; exact c2⟩
    · have hq' : q' = other q := by cases q <;> cases q' <;> first | rfl | exact absurd rfl h
      subst hq'
      rw [hlastO] at hc ⊢
      obtain ⟨c1, c2⟩ := hI.lastOk (other q) idx hc
      refine ⟨clean_app q m c1 (fun _ => a7 idx hc), ?_⟩
      show _ = (appSys s q m).cnt.getD _ 0
      rw [appSys_cnt]; exact c2
  · intro idx hc
    show ((appSys s q m).cells.getD (idx - 1) none).isSome = true
    rw [appSys_cells]
    have hc' : (LQ (lastMsg ((appSys s q m).hist .full))).contains idx = true := hc
    by_cases h : q = .full
    · subst h; rw [hlast] at hc'; exact a8 rfl idx hc'
    · rw [appSys_hist_other _ _ _ _ (Ne.symm h)] at hc'
      exact hI.fullCells idx hc'


theorem canSucceed_val {s : Sys} {q : Loc} {th : Thread} {c : Choice} {cur : Q} (h : canSucceed s q th c cur = true) :
    (lastMsg (s.hist q)).val = cur := by
  unfold canSucceed at h
  simp only [Bool.and_eq_true, beq_iff_eq] at h
  exact h.1.1

theorem lastK_succ {h : List Msg} (hne : h ≠ []) : lastK h + 1 = h.length := by
  unfold lastK
  cases h with
  | nil => exact absurd rfl hne
  | cons a t => simp

/-- the view of the thread after a successful compare-exchange is well-formed in the new state -/
theorem viewOk_casView {s : Sys} (hI : Inv s) {t : Nat} {th : Thread} (hth : s.threads[t]? = some th)
    (ord : Ord) (q : Loc) (m : Msg) : ViewOk (appSys s q m) (casView ord s q th) := by
  have hb : ViewOk s (if ord.hasAcquire then th.view.join (lastMsg (s.hist q)).view else th.view) := by
    split
    · exact viewOk_join (hI.thView t th hth) (hI.msgView q _ (lastMsg_mem (hI.ne q)))
    · exact hI.thView t th hth
  obtain ⟨b1, b2, b3, b4⟩ := viewOk_app q m hb
  unfold casView
  have hl := lastK_succ (hI.ne q)
  cases q
  · refine ⟨b1, ?_, b3, b4⟩
    show lastK (s.hist .empty) + 1 < ((appSys s .empty m).hist .empty).length
    rw [appSys_hist_same, hl]; simp
  · refine ⟨?_, b2, b3, b4⟩
    show lastK (s.hist .full) + 1 < ((appSys s .full m).hist .full).length
    rw [appSys_hist_same, hl]; simp

theorem viewOk_casMsgView {s : Sys} (hI : Inv s) {t : Nat} {th : Thread} (hth : s.threads[t]? = some th)
    (ord : Ord) (q : Loc) (m : Msg) : ViewOk (appSys s q m) (casMsgView ord s q th) := by
  unfold casMsgView
  have hr := viewOk_app q m (hI.msgView q _ (lastMsg_mem (hI.ne q)))
  split
  · exact viewOk_join hr (viewOk_casView hI hth ord q m)
  · exact hr

theorem casView_at_same (ord : Ord) (s : Sys) (q : Loc) (th : Thread) :
    (casView ord s q th).at q = lastK (s.hist q) + 1 := by
  unfold casView; exact view_at_setAt_same _ _ _

theorem casView_at_other_ge (ord : Ord) (s : Sys) (q : Loc) (th : Thread) :
    th.view.at (other q) ≤ (casView ord s q th).at (other q) := by
  unfold casView
  rw [view_at_setAt_other _ _ _ _ (other_ne q)]
  split
  · rw [join_at]; omega
  · exact Nat.le_refl _

theorem casView_at_other_acq {ord : Ord} (hacq : ord.hasAcquire = true) (s : Sys) (q : Loc) (th : Thread) :
    (lastMsg (s.hist q)).view.at (other q) ≤ (casView ord s q th).at (other q) := by
  unfold casView
  rw [view_at_setAt_other _ _ _ _ (other_ne q), if_pos hacq, join_at]; omega

theorem casMsgView_at_ge (ord : Ord) (s : Sys) (q q' : Loc) (th : Thread) :
    (lastMsg (s.hist q)).view.at q' ≤ (casMsgView ord s q th).at q' := by
  unfold casMsgView
  split
  · rw [join_at]; omega
  · exact Nat.le_refl _

theorem casMsgView_at_rel {ord : Ord} (hrel : ord.hasRelease = true) (s : Sys) (q q' : Loc) (th : Thread) :
    (casView ord s q th).at q' ≤ (casMsgView ord s q th).at q' := by
  unfold casMsgView
  rw [if_pos hrel, join_at]; omega

theorem casView_cells (ord : Ord) (s : Sys) (q : Loc) (th : Thread) :
    (casView ord s q th).cells = (if ord.hasAcquire then th.view.join (lastMsg (s.hist q)).view else th.view).cells := by
  unfold casView; exact view_cells_setAt _ _ _

/-- the two queues' latest values share no index -/
theorem queues_disjoint {s : Sys} (hI : Inv s) {idx : Nat} (h1 : (LQ (lastMsg s.empty)).contains idx = true)
    (h2 : (LQ (lastMsg s.full)).contains idx = true) : False := by
  have hv := hI.valid .empty _ (lastMsg_mem (hI.ne .empty))
  have hidx := tbl_mem _ hv.1 idx (by simpa [hist_empty] using h1)
  have := hI.hold idx hidx
  unfold holders at this
  rw [h1, h2] at this
  simp [b2n] at this
  omega

theorem in_q_not_other {s : Sys} (hI : Inv s) (q : Loc) {idx : Nat}
    (h : (LQ (lastMsg (s.hist (other q)))).contains idx = true) : (LQ (lastMsg (s.hist q))).contains idx = false := by
  cases hc : (LQ (lastMsg (s.hist q))).contains idx with
  | false => rfl
  | true =>
    exfalso
    cases q
    · exact queues_disjoint hI hc h
    · exact queues_disjoint hI h hc

theorem owner_not_in_q {s : Sys} (hI : Inv s) {t : Nat} {th : Thread} (hth : s.threads[t]? = some th) {idx : Nat}
    (hidx : idx ∈ idxs) (ho : th.pc.owns = some idx) (q : Loc) : (LQ (lastMsg (s.hist q))).contains idx = false := by
  obtain ⟨h1, h2, _⟩ := owner_facts hI hth hidx ho
  cases q
  · exact h1
  · exact h2

theorem owns_idx_mem {s : Sys} {th : Thread} (h : PcOk s th) {i : Nat} (ho : th.pc.owns = some i) : i ∈ idxs := by
  unfold PcOk at h
  cases hpc : th.pc with
  | idle => rw [hpc] at ho; cases ho
  | deqCas q tag cur => rw [hpc] at ho; cases ho
  | write j tg => rw [hpc] at h ho; simp only [Pc.owns] at ho; injection ho with ho; subst ho; exact h.1
  | take j => rw [hpc] at h ho; simp only [Pc.owns] at ho; injection ho with ho; subst ho; exact h.1.1
  | enqLoad q j r => rw [hpc] at h ho; simp only [Pc.owns] at ho; injection ho with ho; subst ho; exact h.1.1
  | enqCas q j r c => rw [hpc] at h ho; simp only [Pc.owns] at ho; injection ho with ho; subst ho; exact h.1.1


theorem b2n_true : b2n true = 1 := rfl
theorem b2n_false : b2n false = 0 := rfl

theorem contains_head {l : List Nat} (hne : l ≠ []) : l.contains (l.headD 0) = true := by
  cases l with
  | nil => exact absurd rfl hne
  | cons a t => simp

theorem holders_app_setTh (s : Sys) (q : Loc) (m : Msg) (t : Nat) (th th' : Thread) (hth : s.threads[t]? = some th)
    (idx : Nat) :
    holders (setTh (appSys s q m) t th') idx + b2n (ownsB idx th) =
      b2n ((LQ (lastMsg ((appSys s q m).hist .empty))).contains idx) +
      b2n ((LQ (lastMsg ((appSys s q m).hist .full))).contains idx) +
      s.threads.countP (ownsB idx) + b2n (ownsB idx th') := by
  have := holders_setTh (appSys s q m) t th th' (by rw [appSys_threads]; exact hth) idx
  rw [this]
  unfold holders
  rw [appSys_threads]; rfl

/-- the successful compare-exchange of `dequeue` -/
theorem inv_deqOk {o : Orders} (hacq : o.deqSucc.hasAcquire = true) {s : Sys} (hI : Inv s) {t : Nat} {th : Thread}
    (hth : s.threads[t]? = some th) {c : Choice} {q : Loc} {tag : Option Nat} {cur : Q}
    (hpc : th.pc = .deqCas q tag cur) (hcs : canSucceed s q th c cur = true) :
    Inv (setTh (appSys s q { val := cur >>> Gen.BITS, view := casMsgView o.deqSucc s q th }) t
      { th with pc := afterDeq tag (idxOf (cur &&& MASK)), view := casView o.deqSucc s q th }) := by
  have hP := hI.pcs t th hth
  simp only [PcOk, hpc] at hP
  obtain ⟨hnz, htagE, htagF⟩ := hP
  have hval := canSucceed_val hcs
  have hrdmem := lastMsg_mem (hI.ne q)
  have hrdv := hI.valid q _ hrdmem
  -- the list in the queue
  obtain ⟨hlv, hpack⟩ := hrdv
  rw [hval] at hpack
  generalize hl : LQ (lastMsg (s.hist q)) = l at hlv hpack
  have hlne : l ≠ [] := by
    intro e
    have := tbl_zero l hlv
    rw [← hpack] at this
    rw [e] at this; simp at this; exact hnz this
  obtain ⟨hhead, hshift, htailv, hdidx, hdnot⟩ := tbl_head l hlv hlne
  rw [← hpack] at hhead hshift
  generalize hd : l.headD 0 = d at hhead hdidx hdnot
  have hdin : l.contains d = true := by rw [← hd]; exact contains_head hlne
  -- the new message
  generalize hm : ({ val := cur >>> Gen.BITS, view := casMsgView o.deqSucc s q th } : Msg) = m
  have hmval : m.val = pack l.tail := by rw [← hm]; exact hshift
  have hmview : m.view = casMsgView o.deqSucc s q th := by rw [← hm]
  have hLm : LQ m = l.tail := by unfold LQ; rw [hmval]; exact tbl_unpack _ htailv
  have htail : ∀ i ∈ idxs, l.tail.contains i = (l.contains i && (i != d)) := by
    intro i hi; rw [tbl_tail_mem l hlv i hi, hd]
  have hvrd := hI.msgView q _ hrdmem
  have hvth := hI.thView t th hth
  rw [hhead]
  -- the new thread record
  generalize hth' : (⟨th.script, afterDeq tag d, casView o.deqSucc s q th⟩ : Thread) = th'
  have hown' : th'.pc.owns = some d := by rw [← hth']; cases tag <;> rfl
  have hview' : th'.view = casView o.deqSucc s q th := by rw [← hth']
  -- what the last message of `q` knows about `d`
  obtain ⟨hcleanRd, hcellRd⟩ := hI.lastOk q d (by rw [hl]; exact hdin)
  have hdi := (idxs_iff d).1 hdidx
  have hcells_d : (casView o.deqSucc s q th).cells.getD (d - 1) 0 = s.cnt.getD (d - 1) 0 := by
    rw [casView_cells, if_pos hacq, join_cells_getD hvth hvrd, hcellRd]
    have := hvth.2.2.2 (d - 1) (by rw [slots5]; omega)
    omega
  have hOwn : OwnOk (appSys s q m) (casView o.deqSucc s q th) d := by
    have hsame : Clean (appSys s q m) (casView o.deqSucc s q th) d q := by
      intro k hk hlt
      rw [casView_at_same, lastK_succ (hI.ne q)] at hk
      rw [appSys_hist_same] at hlt ⊢
      have : k = (s.hist q).length := by simp at hlt; omega
      subst this
      rw [msgAt_append_eq, hLm]; simpa using hdnot
    have hoth : Clean (appSys s q m) (casView o.deqSucc s q th) d (other q) := by
      apply clean_app q m (clean_mono hcleanRd (casView_at_other_acq hacq s q th))
      intro e; exact absurd e (other_ne q)
    refine ⟨hdidx, ?_, ?_, by rw [appSys_cnt]; exact hcells_d⟩
    · cases q
      · exact hsame
      · exact hoth
    · cases q
      · exact hoth
      · exact hsame
  apply inv_append hI hth q m
  · exact ⟨by rw [hLm]; exact htailv, by rw [hLm]; exact hmval⟩
  · rw [hmview]; exact viewOk_casMsgView hI hth _ q m
  · rw [hview']; exact viewOk_casView hI hth _ q m
  · -- holders
    intro i hi
    have h0 := hI.hold i hi
    have h1 := holders_app_setTh s q m t th th' hth i
    have e1 : ownsB i th = false := by simp [ownsB, hpc, Pc.owns]
    have e2 : ownsB i th' = (d == i) := by simp [ownsB, hown']
    rw [e1, e2, b2n_false] at h1
    unfold holders at h0
    have key : ∀ (A B : Bool) (C H : Nat), b2n A + b2n B + C = 1 ∨ b2n B + b2n A + C = 1 →
        (i = d → A = true) →
        (H + 0 = b2n (A && (i != d)) + b2n B + C + b2n (d == i) ∨ H + 0 = b2n B + b2n (A && (i != d)) + C + b2n (d == i)) →
        H = 1 := by
      intro A B C H hh hA hH
      by_cases hid : i = d
      · subst hid
        rw [hA rfl] at hh hH
        simp only [bne_self_eq_false, Bool.and_false, beq_self_eq_true, b2n_true, b2n_false] at hh hH
        omega
      · have x1 : (d == i) = false := by simpa using fun h => hid h.symm
        have x2 : (i != d) = true := by simpa using hid
        rw [x1, x2, Bool.and_true, b2n_false] at hH
        omega
    cases q
    · rw [appSys_hist_same, lastMsg_append, appSys_hist_other _ _ _ _ (by intro h; cases h), hLm, htail i hi] at h1
      rw [hist_empty] at hl; rw [hl] at h0
      exact key _ _ _ _ (Or.inl h0) (fun e => by rw [e]; exact hdin) (Or.inl h1)
    · rw [appSys_hist_same, lastMsg_append, appSys_hist_other _ _ _ _ (by intro h; cases h), hLm, htail i hi] at h1
      rw [hist_full] at hl; rw [hl] at h0
      exact key _ _ _ _ (Or.inr h0) (fun e => by rw [e]; exact hdin) (Or.inr h1)
  · -- the stepping thread's new program counter
    rw [← hth']
    cases tag with
    | some tg => simp only [PcOk, afterDeq]; exact hOwn
    | none =>
      simp only [PcOk, afterDeq]
      refine ⟨hOwn, ?_⟩
      rw [appSys_cells]
      have hq := htagF rfl; subst hq
      exact hI.fullCells d (by rw [hist_full] at hl; rw [hl]; exact hdin)
  · -- other owners' indices are not in the new value
    intro j thj i hj hne ho
    have hi := owns_idx_mem (hI.pcs j thj hj) ho
    have := owner_not_in_q hI hj hi ho q
    rw [hl] at this
    rw [hLm, htail i hi, this]; simp
  · -- what the new message knows
    intro i hc
    rw [hLm] at hc
    have hi : i ∈ idxs := tbl_mem _ htailv i (by simpa using hc)
    have hil : l.contains i = true := by rw [htail i hi] at hc; simp at hc; simpa using hc.1
    obtain ⟨c1, c2⟩ := hI.lastOk q i (by rw [hl]; exact hil)
    have hii := (idxs_iff i).1 hi
    refine ⟨?_, ?_⟩
    · apply clean_app q m (clean_mono c1 (by rw [hmview]; exact casMsgView_at_ge _ s q _ th))
      intro e; exact absurd e (other_ne q)
    · rw [hmview]; unfold casMsgView
      split
      · have hvc := viewOk_casView hI hth o.deqSucc q m
        have hvr := viewOk_app q m hvrd
        rw [join_cells_getD hvr hvc, c2]
        have := hvc.2.2.2 (i - 1) (by rw [slots5]; omega)
        rw [appSys_cnt] at this
        omega
      · exact c2
  · -- the other queue's indices are not in the new value
    intro i hc
    have := in_q_not_other hI q hc
    rw [hl] at this
    have hv2 := hI.valid (other q) _ (lastMsg_mem (hI.ne (other q)))
    have hi : i ∈ idxs := tbl_mem _ hv2.1 i (by simpa using hc)
    rw [hLm, htail i hi, this]; simp
  · intro hq i hc
    subst hq
    rw [hLm] at hc
    have hi : i ∈ idxs := tbl_mem _ htailv i (by simpa using hc)
    have hil : l.contains i = true := by rw [htail i hi] at hc; simp at hc; simpa using hc.1
    exact hI.fullCells i (by rw [hist_full] at hl; rw [hl]; exact hil)


theorem contains_append_single (l : List Nat) (d i : Nat) : (l ++ [d]).contains i = (l.contains i || (i == d)) := by
  induction l with
  | nil =>
    rw [List.nil_append, List.contains_cons]
    show (i == d || ([] : List Nat).contains i) = (([] : List Nat).contains i || i == d)
    rw [Bool.or_comm]
  | cons a t ih =>
    rw [List.cons_append, List.contains_cons, List.contains_cons, ih, Bool.or_assoc]

/-- the successful compare-exchange of `enqueue` -/
theorem inv_enqOk {o : Orders} (hrel : o.enqSucc.hasRelease = true) {s : Sys} (hI : Inv s) {t : Nat} {th : Thread}
    (hth : s.threads[t]? = some th) {c : Choice} {q : Loc} {idx : Nat} {ret : Option Nat} {cur new : Q}
    (hpc : th.pc = .enqCas q idx ret cur) (he : enqueueStep cur (BitVec.ofNat 16 idx) = some new)
    (hcs : canSucceed s q th c cur = true) :
    Inv (setTh (appSys s q { val := new, view := casMsgView o.enqSucc s q th }) t
      { th with pc := .idle, view := casView o.enqSucc s q th }) := by
  have hP := hI.pcs t th hth
  simp only [PcOk, hpc] at hP
  obtain ⟨hOwn, hcellq, l, hlv, hcur, hnotin⟩ := hP
  obtain ⟨hidx, hclE, hclF, hcellTh⟩ := hOwn
  have hval := canSucceed_val hcs
  have hrdmem := lastMsg_mem (hI.ne q)
  have hl : LQ (lastMsg (s.hist q)) = l := by unfold LQ; rw [hval, hcur]; exact tbl_unpack l hlv
  obtain ⟨henq, happv⟩ := tbl_enq l hlv idx hidx hnotin
  have hnew : new = pack (l ++ [idx]) := by rw [hcur, henq] at he; injection he with he; exact he.symm
  generalize hm : ({ val := new, view := casMsgView o.enqSucc s q th } : Msg) = m
  have hmval : m.val = pack (l ++ [idx]) := by rw [← hm]; exact hnew
  have hmview : m.view = casMsgView o.enqSucc s q th := by rw [← hm]
  have hLm : LQ m = l ++ [idx] := by unfold LQ; rw [hmval]; exact tbl_unpack _ happv
  have hvrd := hI.msgView q _ hrdmem
  have hvth := hI.thView t th hth
  have hown : th.pc.owns = some idx := by rw [hpc]; rfl
  have hii := (idxs_iff idx).1 hidx
  generalize hth' : (⟨th.script, Pc.idle, casView o.enqSucc s q th⟩ : Thread) = th'
  have hview' : th'.view = casView o.enqSucc s q th := by rw [← hth']
  have hclean_other : Clean s th.view idx (other q) := by cases q <;> assumption
  apply inv_append hI hth q m
  · exact ⟨by rw [hLm]; exact happv, by rw [hLm]; exact hmval⟩
  · rw [hmview]; exact viewOk_casMsgView hI hth _ q m
  · rw [hview']; exact viewOk_casView hI hth _ q m
  · intro i hi
    have h0 := hI.hold i hi
    have h1 := holders_app_setTh s q m t th th' hth i
    have e1 : ownsB i th = (idx == i) := by simp [ownsB, hown]
    have e2 : ownsB i th' = false := by rw [← hth']; simp [ownsB, Pc.owns]
    rw [e1, e2, b2n_false] at h1
    unfold holders at h0
    have key : ∀ (A B : Bool) (C H : Nat), b2n A + b2n B + C = 1 ∨ b2n B + b2n A + C = 1 →
        (i = idx → A = false) →
        (H + b2n (idx == i) = b2n (A || (i == idx)) + b2n B + C + 0 ∨
          H + b2n (idx == i) = b2n B + b2n (A || (i == idx)) + C + 0) → H = 1 := by
      intro A B C H hh hA hH
      by_cases hid : i = idx
      · subst hid
        rw [hA rfl] at hh hH
        simp only [beq_self_eq_true, Bool.or_true, b2n_true, b2n_false] at hh hH
        omega
      · have x1 : (idx == i) = false := by simpa using fun h => hid h.symm
        have x2 : (i == idx) = false := by simpa using hid
        rw [x1, x2, Bool.or_false, b2n_false] at hH
        omega
    cases q
    · rw [appSys_hist_same, lastMsg_append, appSys_hist_other _ _ _ _ (by intro h; cases h), hLm,
        contains_append_single] at h1
      rw [hist_empty] at hl; rw [hl] at h0
      exact key _ _ _ _ (Or.inl h0) (fun e => by rw [e]; simpa using hnotin) (Or.inl h1)
    · rw [appSys_hist_same, lastMsg_append, appSys_hist_other _ _ _ _ (by intro h; cases h), hLm,
        contains_append_single] at h1
      rw [hist_full] at hl; rw [hl] at h0
      exact key _ _ _ _ (Or.inr h0) (fun e => by rw [e]; simpa using hnotin) (Or.inr h1)
  · rw [← hth']; simp [PcOk]
  · intro j thj i hj hne ho
    have hi := owns_idx_mem (hI.pcs j thj hj) ho
    have h1 := owner_not_in_q hI hj hi ho q
    rw [hl] at h1
    have h2 : i ≠ idx := by
      intro e; subst e
      exact (owner_facts hI hth hidx hown).2.2 j thj hj hne ho
    rw [hLm, contains_append_single, h1]; simpa using h2
  · intro i hc
    rw [hLm, contains_append_single] at hc
    have hvc := viewOk_casView hI hth o.enqSucc q m
    have hvr := viewOk_app q m hvrd
    by_cases hil : l.contains i = true
    · obtain ⟨c1, c2⟩ := hI.lastOk q i (by rw [hl]; exact hil)
      have hi : i ∈ idxs := tbl_mem _ hlv i (by simpa using hil)
      have hi' := (idxs_iff i).1 hi
      refine ⟨?_, ?_⟩
      · apply clean_app q m (clean_mono c1 (by rw [hmview]; exact casMsgView_at_ge _ s q _ th))
        intro e; exact absurd e (other_ne q)
      · rw [hmview]; unfold casMsgView
        rw [if_pos hrel, join_cells_getD hvr hvc, c2]
        have := hvc.2.2.2 (i - 1) (by rw [slots5]; omega)
        rw [appSys_cnt] at this
        omega
    · have hie : i = idx := by
        rw [Bool.or_eq_true] at hc
        rcases hc with h | h
        · exact absurd h hil
        · simpa using h
      subst hie
      refine ⟨?_, ?_⟩
      · apply clean_app q m _ (by intro e; exact absurd e (other_ne q))
        apply clean_mono hclean_other
        rw [hmview]
        exact Nat.le_trans (casView_at_other_ge _ s q th) (casMsgView_at_rel hrel s q (other q) th)
      · rw [hmview]; unfold casMsgView
        rw [if_pos hrel, join_cells_getD hvr hvc, casView_cells]
        have hrd := hvrd.2.2.2 (i - 1) (by rw [slots5]; omega)
        split
        · rw [join_cells_getD hvth hvrd, hcellTh]; omega
        · rw [hcellTh]; omega
  · intro i hc
    have h1 := in_q_not_other hI q hc
    rw [hl] at h1
    have h2 : i ≠ idx := by
      intro e; subst e
      have := owner_not_in_q hI hth hidx hown (other q)
      rw [this] at hc; cases hc
    rw [hLm, contains_append_single, h1]; simpa using h2
  · intro hq i hc
    subst hq
    rw [hLm, contains_append_single] at hc
    by_cases hil : l.contains i = true
    · exact hI.fullCells i (by rw [hist_full] at hl; rw [hl]; exact hil)
    · have hie : i = idx := by
        rw [Bool.or_eq_true] at hc
        rcases hc with h | h
        · exact absurd h hil
        · simpa using h
      subst hie
      exact hcellq rfl


/-! ## every step, every reachable state -/

/-- **preservation**: under orderings whose successful enqueue releases and successful dequeue
acquires, every step (any environment choice) keeps the invariant, reports no data race and does
not panic. -/
theorem inv_step {o : Orders} (hrel : o.enqSucc.hasRelease = true) (hacq : o.deqSucc.hasAcquire = true)
    {s s' : Sys} {t : Nat} {c : Choice} {out : Out} (hI : Inv s) (hs : step o s t c = some (s', out)) :
    Inv s' ∧ out.panic = none ∧ out.race = false := by
  cases hth : s.threads[t]? with
  | none => unfold step at hs; simp [hth] at hs
  | some th =>
    have h := cstep_of hth hs
    have hP := hI.pcs t th hth
    cases h with
    | startNone q tag rest hpc hsc hz =>
      exact inv_step_viewonly (o := o) hI hth (.startNone q tag rest hpc hsc hz)
        (by intro a b h; rw [hpc] at h; cases h) (by intro a h; rw [hpc] at h; cases h)
        (by intro a b d h; rw [hpc] at h; cases h) (by intro a b d e h; rw [hpc] at h; cases h)
    | startGo q tag rest hpc hsc hz =>
      exact inv_step_viewonly (o := o) hI hth (.startGo q tag rest hpc hsc hz)
        (by intro a b h; rw [hpc] at h; cases h) (by intro a h; rw [hpc] at h; cases h)
        (by intro a b d h; rw [hpc] at h; cases h) (by intro a b d e h; rw [hpc] at h; cases h)
    | deqOk q tag cur hpc hcs => exact ⟨inv_deqOk hacq hI hth hpc hcs, rfl, rfl⟩
    | deqFailNone q tag cur hpc hcs hz =>
      exact inv_step_viewonly (o := o) hI hth (.deqFailNone q tag cur hpc hcs hz)
        (by intro a b h; rw [hpc] at h; cases h) (by intro a h; rw [hpc] at h; cases h)
        (by intro a b d h; rw [hpc] at h; injection h with h1 h2 h3; subst h1; subst h2; subst h3; exact hcs)
        (by intro a b d e h; rw [hpc] at h; cases h)
    | deqFailRetry q tag cur hpc hcs hz =>
      exact inv_step_viewonly (o := o) hI hth (.deqFailRetry q tag cur hpc hcs hz)
        (by intro a b h; rw [hpc] at h; cases h) (by intro a h; rw [hpc] at h; cases h)
        (by intro a b d h; rw [hpc] at h; injection h with h1 h2 h3; subst h1; subst h2; subst h3; exact hcs)
        (by intro a b d e h; rw [hpc] at h; cases h)
    | write idx tag hpc =>
      simp only [PcOk, hpc] at hP
      have hi := (idxs_iff idx).1 hP.1
      have hrace : cellRace s th idx = false := by unfold cellRace; rw [hP.2.2.2]; exact bne_self_eq_false _
      refine ⟨?_, rfl, hrace⟩
      apply inv_cell hI hth (by rw [hpc]; rfl) hP (some tag) rfl rfl
      simp only [PcOk]
      refine ⟨⟨hP.1, (clean_cell idx _).2 hP.2.1, (clean_cell idx _).2 hP.2.2.1, ?_⟩, ?_⟩
      · show (th.view.cells.set (idx - 1) _).getD (idx - 1) 0 = _
        rw [getD_set _ _ _ _ _ (by rw [(hI.thView t th hth).2.2.1, slots5]; omega), cnt_cell s hI idx hP.1]
        simp
      · intro _; rw [cells_cell s hI idx hP.1]; simp
    | takeSome idx tag hpc hv =>
      simp only [PcOk, hpc] at hP
      obtain ⟨hO, _⟩ := hP
      have hi := (idxs_iff idx).1 hO.1
      have hrace : cellRace s th idx = false := by unfold cellRace; rw [hO.2.2.2]; exact bne_self_eq_false _
      refine ⟨?_, rfl, hrace⟩
      apply inv_cell hI hth (by rw [hpc]; rfl) hO none rfl rfl
      simp only [PcOk]
      refine ⟨⟨hO.1, (clean_cell idx _).2 hO.2.1, (clean_cell idx _).2 hO.2.2.1, ?_⟩, ?_⟩
      · show (th.view.cells.set (idx - 1) _).getD (idx - 1) 0 = _
        rw [getD_set _ _ _ _ _ (by rw [(hI.thView t th hth).2.2.1, slots5]; omega), cnt_cell s hI idx hO.1]
        simp
      · intro h; cases h
    | takeNone idx hpc hv =>
      exfalso
      simp only [PcOk, hpc] at hP
      rw [hv] at hP; exact absurd hP.2 (by simp)
    | enqLoad q idx ret hpc =>
      exact inv_step_viewonly (o := o) hI hth (.enqLoad q idx ret hpc)
        (by intro a b h; rw [hpc] at h; cases h) (by intro a h; rw [hpc] at h; cases h)
        (by intro a b d h; rw [hpc] at h; cases h) (by intro a b d e h; rw [hpc] at h; cases h)
    | enqPanic q idx ret cur hpc he =>
      exfalso
      simp only [PcOk, hpc] at hP
      obtain ⟨ho, _, l, hl, hcur, hni⟩ := hP
      have := (tbl_enq l hl idx ho.1 hni).1
      rw [hcur] at he; rw [this] at he; cases he
    | enqOk q idx ret cur new hpc he hcs => exact ⟨inv_enqOk hrel hI hth hpc he hcs, rfl, rfl⟩
    | enqFail q idx ret cur new hpc he hcs =>
      exact inv_step_viewonly (o := o) hI hth (.enqFail q idx ret cur new hpc he hcs)
        (by intro a b h; rw [hpc] at h; cases h) (by intro a h; rw [hpc] at h; cases h)
        (by intro a b d h; rw [hpc] at h; cases h)
        (by intro a b d e h; rw [hpc] at h; injection h with h1 h2 h3 h4; subst h1; subst h2; subst h3; subst h4; exact hcs)


/-- reachability by any schedule and any environment choices -/
inductive Reachable (o : Orders) (scripts : List (List Cmd)) : Sys → Prop where
  | init : Reachable o scripts (Sys.init scripts)
  | step {s s' : Sys} {t : Nat} {c : Choice} {out : Out} :
      Reachable o scripts s → step o s t c = some (s', out) → Reachable o scripts s'

def v0 : View := { View.bot with ve := initEmptyHist.length - 1 }

theorem init_threads (scripts : List (List Cmd)) (t : Nat) (th : Thread)
    (h : (Sys.init scripts).threads[t]? = some th) : th.pc = .idle ∧ th.view = v0 := by
  simp only [Sys.init, List.getElem?_map] at h
  cases hs : scripts[t]? with
  | none => simp [hs] at h
  | some sc => simp [hs] at h; subst h; exact ⟨rfl, rfl⟩

instance (m : Msg) : Decidable (ValidMsg m) := by unfold ValidMsg; infer_instance

theorem init_empty_valid : ∀ m ∈ initEmptyHist, ValidMsg m ∧ m.view = View.bot := by decide +kernel

theorem init_last_empty : LQ (lastMsg initEmptyHist) = [1, 2, 3, 4, 5] := by decide +kernel

theorem init_full_LQ : LQ (lastMsg [({ val := 0, view := View.bot } : Msg)]) = [] := by decide +kernel

theorem viewOk_bot (scripts : List (List Cmd)) : ViewOk (Sys.init scripts) View.bot := by
  refine ⟨(by show 0 < [({ val := 0, view := View.bot } : Msg)].length; decide),
    (by show 0 < initEmptyHist.length; decide), by decide, ?_⟩
  intro i hi
  show (List.replicate Gen.SLOTS 0).getD i 0 ≤ (List.replicate Gen.SLOTS 0).getD i 0
  exact Nat.le_refl _

theorem viewOk_v0 (scripts : List (List Cmd)) : ViewOk (Sys.init scripts) v0 := by
  refine ⟨(by show 0 < [({ val := 0, view := View.bot } : Msg)].length; decide),
    (by show initEmptyHist.length - 1 < initEmptyHist.length; decide), by decide, ?_⟩
  intro i hi
  show (List.replicate Gen.SLOTS 0).getD i 0 ≤ (List.replicate Gen.SLOTS 0).getD i 0
  exact Nat.le_refl _

theorem inv_init (scripts : List (List Cmd)) : Inv (Sys.init scripts) := by
  have hE : (Sys.init scripts).empty = initEmptyHist := rfl
  have hF : (Sys.init scripts).full = [{ val := 0, view := View.bot }] := rfl
  refine ⟨?_, ?_, ?_, ⟨by simp [Sys.init], by simp [Sys.init]⟩, ?_, ?_, ?_, ?_, ?_⟩
  · intro q; cases q
    · rw [hist_empty, hE]; decide
    · rw [hist_full, hF]; simp
  · intro q m hm; cases q
    · rw [hist_empty, hE] at hm; exact (init_empty_valid m hm).1
    · rw [hist_full, hF] at hm; simp at hm; subst hm; decide +kernel
  · intro idx hidx
    unfold holders
    rw [hE, hF, init_last_empty, init_full_LQ]
    have hc : (Sys.init scripts).threads.countP (ownsB idx) = 0 := by
      rw [List.countP_eq_zero]
      intro th hth
      obtain ⟨t, ht, rfl⟩ := List.mem_iff_getElem.1 hth
      have := (init_threads scripts t _ (List.getElem?_eq_getElem ht)).1
      simp [ownsB, this, Pc.owns]
    rw [hc]
    simp only [idxs, List.mem_cons, List.not_mem_nil, or_false] at hidx
    rcases hidx with rfl | rfl | rfl | rfl | rfl <;> decide
  · intro t th hth
    rw [(init_threads scripts t th hth).2]; exact viewOk_v0 scripts
  · intro q m hm; cases q
    · rw [hist_empty, hE] at hm; rw [(init_empty_valid m hm).2]; exact viewOk_bot scripts
    · rw [hist_full, hF] at hm; simp at hm; subst hm; exact viewOk_bot scripts
  · intro t th hth
    unfold PcOk; rw [(init_threads scripts t th hth).1]; trivial
  · intro q idx hc
    cases q
    · rw [hist_empty, hE] at hc ⊢
      have hv : (lastMsg initEmptyHist).view = View.bot := (init_empty_valid _ (lastMsg_mem (by decide))).2
      rw [hv]
      refine ⟨?_, rfl⟩
      intro k _ hk
      change k < ((Sys.init scripts).hist .full).length at hk
      show ¬ (LQ (msgAt ((Sys.init scripts).hist .full) k)).contains idx = true
      rw [hist_full, hF] at hk ⊢
      simp at hk; subst hk
      have : LQ (msgAt [({ val := 0, view := View.bot } : Msg)] 0) = [] := by decide +kernel
      rw [this]; simp
    · rw [hist_full, hF, init_full_LQ] at hc; simp at hc
  · intro idx hc
    rw [hF, init_full_LQ] at hc; simp at hc

theorem inv_reachable {o : Orders} (hrel : o.enqSucc.hasRelease = true) (hacq : o.deqSucc.hasAcquire = true)
    {scripts : List (List Cmd)} {s : Sys} (h : Reachable o scripts s) : Inv s := by
  induction h with
  | init => exact inv_init scripts
  | step _ hs ih => exact (inv_step hrel hacq ih hs).1

end SigHook.Channel
