import SigHook.Model.Channel
import SigHook.Props.Packed
/-!
The channel step machine (L1+L2) as an explicit transition relation `CStep`, and the invariant
that makes the channel work under the view-based memory model, for any number of threads, any
scripts and every environment choice (stale reads, spurious CAS failures):

* every message of both queue histories is a well-formed queue value; every slot index 1..5 has
  exactly one holder (one of the two queues' latest values, or one thread);
* a thread that owns an index can only read queue values that do not contain it (its view is past
  the point where the index left each queue) - so `enqueue` always finds room although its loads
  are relaxed;
* the latest message of a queue carries, for each index it contains, a view that is past the
  point where the index left the other queue, and that has seen every access to the index's cell;
  an owner has seen every access to its cell - so no cell access races.
-/
namespace SigHook.Channel
open SigHook SigHook.Packed

def lastK (h : List Msg) : Nat := h.length - 1
def lastMsg (h : List Msg) : Msg := msgAt h (lastK h)

/-- the view a thread has after a successful compare-exchange on `q` -/
def casView (ord : Ord) (s : Sys) (q : Loc) (th : Thread) : View :=
  (if ord.hasAcquire then th.view.join (lastMsg (s.hist q)).view else th.view).setAt q (lastK (s.hist q) + 1)

/-- the view the message written by a successful compare-exchange carries -/
def casMsgView (ord : Ord) (s : Sys) (q : Loc) (th : Thread) : View :=
  if ord.hasRelease then (lastMsg (s.hist q)).view.join (casView ord s q th) else (lastMsg (s.hist q)).view

def canSucceed (s : Sys) (q : Loc) (th : Thread) (c : Choice) (cur : Q) : Bool :=
  (lastMsg (s.hist q)).val == cur && !c.spurious &&
    (c.read.isNone || readIdx (s.hist q) (th.view.at q) c == lastK (s.hist q))

def rdK (s : Sys) (q : Loc) (th : Thread) (c : Choice) : Nat := readIdx (s.hist q) (th.view.at q) c
def rdVal (s : Sys) (q : Loc) (th : Thread) (c : Choice) : Q := (msgAt (s.hist q) (rdK s q th c)).val

/-- the state after `accessCell` -/
def cellSys (s : Sys) (idx : Nat) : Sys := { s with cnt := s.cnt.set (idx - 1) (s.cnt.getD (idx - 1) 0 + 1) }
def cellView (s : Sys) (th : Thread) (idx : Nat) : View :=
  { th.view with cells := th.view.cells.set (idx - 1) (s.cnt.getD (idx - 1) 0 + 1) }
def cellRace (s : Sys) (th : Thread) (idx : Nat) : Bool := th.view.cells.getD (idx - 1) 0 != s.cnt.getD (idx - 1) 0

/-- where a successful `dequeue` continues: `send` writes the payload, `recv` takes it -/
def afterDeq (tag : Option Nat) (idx : Nat) : Pc :=
  match tag with
  | some tg => .write idx tg
  | none => .take idx

inductive CStep (o : Orders) (s : Sys) (t : Nat) (th : Thread) (c : Choice) : Sys → Out → Prop
  | startNone (q : Loc) (tag : Option Nat) (rest : List Cmd) :
      th.pc = .idle →
      ((∃ tg, th.script = .send tg :: rest ∧ q = .empty ∧ tag = some tg) ∨ (th.script = .recv :: rest ∧ q = .full ∧ tag = none)) →
      rdVal s q th c &&& MASK = 0 →
      CStep o s t th c (setTh s t { script := rest, pc := .idle, view := th.view.setAt q (rdK s q th c) })
        { obs := .load q (rdVal s q th c), ret := some none, dropped := tag }
  | startGo (q : Loc) (tag : Option Nat) (rest : List Cmd) :
      th.pc = .idle →
      ((∃ tg, th.script = .send tg :: rest ∧ q = .empty ∧ tag = some tg) ∨ (th.script = .recv :: rest ∧ q = .full ∧ tag = none)) →
      rdVal s q th c &&& MASK ≠ 0 →
      CStep o s t th c
        (setTh s t { script := rest, pc := .deqCas q tag (rdVal s q th c), view := th.view.setAt q (rdK s q th c) })
        { obs := .load q (rdVal s q th c) }
  | deqOk (q : Loc) (tag : Option Nat) (cur : Q) :
      th.pc = .deqCas q tag cur → canSucceed s q th c cur = true →
      CStep o s t th c
        (setTh (s.setHist q (s.hist q ++ [{ val := cur >>> Gen.BITS, view := casMsgView o.deqSucc s q th }])) t
          { th with pc := afterDeq tag (idxOf (cur &&& MASK)), view := casView o.deqSucc s q th })
        { obs := .cas q cur (cur >>> Gen.BITS) true cur }
  | deqFailNone (q : Loc) (tag : Option Nat) (cur : Q) :
      th.pc = .deqCas q tag cur → canSucceed s q th c cur = false → rdVal s q th c &&& MASK = 0 →
      CStep o s t th c (setTh s t { th with pc := .idle, view := th.view.setAt q (rdK s q th c) })
        { obs := .cas q cur (cur >>> Gen.BITS) false (rdVal s q th c), ret := some none, dropped := tag }
  | deqFailRetry (q : Loc) (tag : Option Nat) (cur : Q) :
      th.pc = .deqCas q tag cur → canSucceed s q th c cur = false → rdVal s q th c &&& MASK ≠ 0 →
      CStep o s t th c
        (setTh s t { th with pc := .deqCas q tag (rdVal s q th c), view := th.view.setAt q (rdK s q th c) })
        { obs := .cas q cur (cur >>> Gen.BITS) false (rdVal s q th c) }
  | write (idx tag : Nat) :
      th.pc = .write idx tag →
      CStep o s t th c
        (setTh { cellSys s idx with cells := s.cells.set (idx - 1) (some tag) } t
          { th with pc := .enqLoad .full idx none, view := cellView s th idx })
        { obs := .cellWrite idx, race := cellRace s th idx }
  | takeSome (idx tag : Nat) :
      th.pc = .take idx → s.cells.getD (idx - 1) none = some tag →
      CStep o s t th c
        (setTh { cellSys s idx with cells := s.cells.set (idx - 1) none } t
          { th with pc := .enqLoad .empty idx (some tag), view := cellView s th idx })
        { obs := .cellTake idx, race := cellRace s th idx }
  | takeNone (idx : Nat) :
      th.pc = .take idx → s.cells.getD (idx - 1) none = none →
      CStep o s t th c
        (setTh { cellSys s idx with cells := s.cells.set (idx - 1) none } t
          { th with pc := .idle, view := cellView s th idx })
        { obs := .cellTake idx, race := cellRace s th idx, panic := some "Full slot with nothing in it" }
  | enqLoad (q : Loc) (idx : Nat) (ret : Option Nat) :
      th.pc = .enqLoad q idx ret →
      CStep o s t th c
        (setTh s t { th with pc := .enqCas q idx ret (rdVal s q th c), view := th.view.setAt q (rdK s q th c) })
        { obs := .load q (rdVal s q th c) }
  | enqPanic (q : Loc) (idx : Nat) (ret : Option Nat) (cur : Q) :
      th.pc = .enqCas q idx ret cur → enqueueStep cur (BitVec.ofNat 16 idx) = none →
      CStep o s t th c (setTh s t { th with pc := .idle })
        { obs := .cas q cur cur false cur, panic := some "No empty slot available" }
  | enqOk (q : Loc) (idx : Nat) (ret : Option Nat) (cur new : Q) :
      th.pc = .enqCas q idx ret cur → enqueueStep cur (BitVec.ofNat 16 idx) = some new →
      canSucceed s q th c cur = true →
      CStep o s t th c
        (setTh (s.setHist q (s.hist q ++ [{ val := new, view := casMsgView o.enqSucc s q th }])) t
          { th with pc := .idle, view := casView o.enqSucc s q th })
        { obs := .cas q cur new true cur, ret := some ret }
  | enqFail (q : Loc) (idx : Nat) (ret : Option Nat) (cur new : Q) :
      th.pc = .enqCas q idx ret cur → enqueueStep cur (BitVec.ofNat 16 idx) = some new →
      canSucceed s q th c cur = false →
      CStep o s t th c
        (setTh s t { th with pc := .enqCas q idx ret (rdVal s q th c), view := th.view.setAt q (rdK s q th c) })
        { obs := .cas q cur new false (rdVal s q th c) }

theorem cstep_of {o : Orders} {s s' : Sys} {t : Nat} {th : Thread} {c : Choice} {out : Out}
    (hth : s.threads[t]? = some th) (hs : step o s t c = some (s', out)) : CStep o s t th c s' out := by
  unfold step at hs
  simp only [hth] at hs
  cases hpc : th.pc with
  | idle =>
    simp only [hpc] at hs
    cases hsc : th.script with
    | nil => simp [hsc] at hs
    | cons cmd rest =>
      cases cmd with
      | send tg =>
        simp only [hsc, step.stepLoad] at hs
        split at hs
        · rename_i hz
          simp only [Option.some.injEq, Prod.mk.injEq] at hs; obtain ⟨rfl, rfl⟩ := hs
          exact .startNone .empty (some tg) rest hpc (Or.inl ⟨tg, hsc, rfl, rfl⟩) (by simpa [rdVal, rdK] using hz)
        · rename_i hz
          simp only [Option.some.injEq, Prod.mk.injEq] at hs; obtain ⟨rfl, rfl⟩ := hs
          exact .startGo .empty (some tg) rest hpc (Or.inl ⟨tg, hsc, rfl, rfl⟩) (by simpa [rdVal, rdK] using hz)
      | recv =>
        simp only [hsc, step.stepLoad] at hs
        split at hs
        · rename_i hz
          simp only [Option.some.injEq, Prod.mk.injEq] at hs; obtain ⟨rfl, rfl⟩ := hs
          exact .startNone .full none rest hpc (Or.inr ⟨hsc, rfl, rfl⟩) (by simpa [rdVal, rdK] using hz)
        · rename_i hz
          simp only [Option.some.injEq, Prod.mk.injEq] at hs; obtain ⟨rfl, rfl⟩ := hs
          exact .startGo .full none rest hpc (Or.inr ⟨hsc, rfl, rfl⟩) (by simpa [rdVal, rdK] using hz)
  | deqCas q tag cur =>
    simp only [hpc] at hs
    split at hs
    · rename_i hcs
      simp only [Option.some.injEq, Prod.mk.injEq] at hs; obtain ⟨rfl, rfl⟩ := hs
      exact .deqOk q tag cur hpc hcs
    · rename_i hcs
      split at hs
      · rename_i hz
        simp only [Option.some.injEq, Prod.mk.injEq] at hs; obtain ⟨rfl, rfl⟩ := hs
        exact .deqFailNone q tag cur hpc (Bool.eq_false_iff.2 hcs) (by simpa [rdVal, rdK] using hz)
      · rename_i hz
        simp only [Option.some.injEq, Prod.mk.injEq] at hs; obtain ⟨rfl, rfl⟩ := hs
        exact .deqFailRetry q tag cur hpc (Bool.eq_false_iff.2 hcs) (by simpa [rdVal, rdK] using hz)
  | write idx tag =>
    simp only [hpc, accessCell, Option.some.injEq, Prod.mk.injEq] at hs; obtain ⟨rfl, rfl⟩ := hs
    exact .write idx tag hpc
  | take idx =>
    simp only [hpc, accessCell] at hs
    split at hs
    · rename_i tag hv
      simp only [Option.some.injEq, Prod.mk.injEq] at hs; obtain ⟨rfl, rfl⟩ := hs
      exact .takeSome idx tag hpc hv
    · rename_i hv
      simp only [Option.some.injEq, Prod.mk.injEq] at hs; obtain ⟨rfl, rfl⟩ := hs
      exact .takeNone idx hpc hv
  | enqLoad q idx ret =>
    simp only [hpc, Option.some.injEq, Prod.mk.injEq] at hs; obtain ⟨rfl, rfl⟩ := hs
    exact .enqLoad q idx ret hpc
  | enqCas q idx ret cur =>
    simp only [hpc] at hs
    split at hs
    · rename_i he
      simp only [Option.some.injEq, Prod.mk.injEq] at hs; obtain ⟨rfl, rfl⟩ := hs
      exact .enqPanic q idx ret cur hpc he
    · rename_i new he
      split at hs
      · rename_i hcs
        simp only [Option.some.injEq, Prod.mk.injEq] at hs; obtain ⟨rfl, rfl⟩ := hs
        exact .enqOk q idx ret cur new hpc he hcs
      · rename_i hcs
        simp only [Option.some.injEq, Prod.mk.injEq] at hs; obtain ⟨rfl, rfl⟩ := hs
        exact .enqFail q idx ret cur new hpc he (Bool.eq_false_iff.2 hcs)


/-! ## tables over the 326 well-formed queue values -/

def idxs : List Nat := [1, 2, 3, 4, 5]

theorem tbl_unpack : ∀ l ∈ validLists, unpack (pack l) = l := unpack_pack

theorem tbl_head : ∀ l ∈ validLists, l ≠ [] →
    idxOf (pack l &&& MASK) = l.headD 0 ∧ (pack l >>> Gen.BITS) = pack l.tail ∧ l.tail ∈ validLists ∧
    l.headD 0 ∈ idxs ∧ ¬ l.tail.contains (l.headD 0) := by decide +kernel

theorem tbl_zero : ∀ l ∈ validLists, ((pack l &&& MASK) = 0) = (l = []) := by decide +kernel

theorem tbl_enq : ∀ l ∈ validLists, ∀ d ∈ idxs, ¬ l.contains d →
    enqueueStep (pack l) (BitVec.ofNat 16 d) = some (pack (l ++ [d])) ∧ (l ++ [d]) ∈ validLists := by
  decide +kernel

theorem tbl_mem : ∀ l ∈ validLists, ∀ x ∈ l, x ∈ idxs := by decide +kernel

theorem tbl_tail_mem : ∀ l ∈ validLists, ∀ d ∈ idxs, l.tail.contains d = (l.contains d && (d != l.headD 0)) := by
  decide +kernel

theorem idxs_iff (d : Nat) : d ∈ idxs ↔ 1 ≤ d ∧ d ≤ 5 := by
  simp only [idxs, List.mem_cons, List.not_mem_nil, or_false]; omega

end SigHook.Channel
