import SigHook.Lemmas.ChannelPay
/-!
Conservation of values in the channel: on top of `Inv` (indexes) and `PInv` (which value sits where), the
history variables satisfy a *counting* invariant `KInv`: the values written into cells so far are, as a
multiset, exactly the values still waiting to be queued (`wr`) plus the values that have entered the `full`
queue (`sent`) - and `PInv.fifo` splits the latter into the values handed out (`got`) and the values still
queued (`fq`). Nothing is duplicated and nothing is lost, in any interleaving.
-/
namespace SigHook.Channel
open SigHook SigHook.Packed

structure KInv (g : Gh) : Prop where
  keysW : (g.wr.map (fun e : Nat × Nat => e.1)).Nodup
  perm : g.wrote.Perm (g.wr.map (fun e : Nat × Nat => e.2) ++ g.sent)

theorem kinv_of_eq {g g' : Gh} (h1 : g'.wr = g.wr) (h2 : g'.sent = g.sent) (h3 : g'.wrote = g.wrote) (h : KInv g) :
    KInv g' := by
  refine ⟨?_, ?_⟩
  · rw [h1]; exact h.keysW
  · rw [h1, h2, h3]; exact h.perm

theorem dropKey_none (k : Nat) (l : List (Nat × Nat)) (h : ∀ e ∈ l, e.1 ≠ k) : dropKey k l = l := by
  unfold dropKey
  apply List.filter_eq_self.2
  intro e he
  simpa using h e he

theorem dropKey_keys_nodup (k : Nat) (l : List (Nat × Nat)) (h : (l.map (fun e : Nat × Nat => e.1)).Nodup) :
    ((dropKey k l).map (fun e : Nat × Nat => e.1)).Nodup := by
  unfold dropKey
  exact List.Pairwise.sublist (List.Sublist.map _ List.filter_sublist) h

/-- with distinct keys, removing key `k` removes exactly the one pair that has it -/
theorem perm_dropKey (k v : Nat) : ∀ (l : List (Nat × Nat)), (l.map (fun e : Nat × Nat => e.1)).Nodup → (k, v) ∈ l →
    (l.map (fun e : Nat × Nat => e.2)).Perm (v :: (dropKey k l).map (fun e : Nat × Nat => e.2)) := by
  intro l
  induction l with
  | nil => intro _ h; cases h
  | cons e rest ih =>
    intro hnd hm
    simp only [List.map_cons, List.nodup_cons] at hnd
    obtain ⟨hnot, hnd'⟩ := hnd
    rcases List.mem_cons.1 hm with h | h
    · subst h
      have : dropKey k ((k, v) :: rest) = rest := by
        have hr : dropKey k rest = rest := dropKey_none k rest (by
          intro e he e1
          apply hnot
          show k ∈ rest.map (fun e : Nat × Nat => e.1)
          rw [← e1]; exact List.mem_map_of_mem (f := fun e : Nat × Nat => e.1) he)
        simp [dropKey] at hr ⊢
        exact hr
      rw [this]
      exact List.Perm.refl _
    · have hne : e.1 ≠ k := by
        intro e1
        apply hnot
        have := List.mem_map_of_mem (f := fun e : Nat × Nat => e.1) h
        simpa [e1] using this
      have : dropKey k (e :: rest) = e :: dropKey k rest := by simp [dropKey, hne]
      rw [this]
      simp only [List.map_cons]
      exact (List.Perm.cons _ (ih hnd' h)).trans (List.Perm.swap _ _ _)

theorem kinv_init : KInv {} := ⟨List.Pairwise.nil, List.Perm.refl _⟩

/-- every step keeps the counting invariant -/
theorem kinv_step {o : Orders} {s s' : Sys} {g : Gh} {t : Nat} {th : Thread} {c : Choice} {out : Out}
    (hI : Inv s) (hP : PInv s g) (hK : KInv g) (hth : s.threads[t]? = some th) (h : CStep o s t th c s' out) :
    KInv (g.next s th.pc out.obs) := by
  cases h with
  | startNone q tag rest hpc hsc hz => exact kinv_of_eq (by simp [Gh.next, hpc]) (by simp [Gh.next, hpc]) (by simp [Gh.next, hpc]) hK
  | startGo q tag rest hpc hsc hz => exact kinv_of_eq (by simp [Gh.next, hpc]) (by simp [Gh.next, hpc]) (by simp [Gh.next, hpc]) hK
  | deqFailNone q tag cur hpc hcs hz =>
    have hg : g.next s th.pc (Obs.cas q cur (cur >>> Gen.BITS) false (rdVal s q th c)) = g := by
      cases q <;> simp [Gh.next, hpc]
    rw [hg]; exact hK
  | deqFailRetry q tag cur hpc hcs hz =>
    have hg : g.next s th.pc (Obs.cas q cur (cur >>> Gen.BITS) false (rdVal s q th c)) = g := by
      cases q <;> simp [Gh.next, hpc]
    rw [hg]; exact hK
  | enqLoad q idx ret hpc => exact kinv_of_eq (by simp [Gh.next, hpc]) (by simp [Gh.next, hpc]) (by simp [Gh.next, hpc]) hK
  | enqFail q idx ret cur new hpc he hcs =>
    have hg : g.next s th.pc (Obs.cas q cur new false (rdVal s q th c)) = g := by
      cases q <;> simp [Gh.next, hpc]
    rw [hg]; exact hK
  | enqPanic q idx ret cur hpc he =>
    have hg : g.next s th.pc (Obs.cas q cur cur false cur) = g := by
      cases q <;> simp [Gh.next, hpc]
    rw [hg]; exact hK
  | takeNone idx hpc hc => exact kinv_of_eq (by simp [Gh.next, hpc]) (by simp [Gh.next, hpc]) (by simp [Gh.next, hpc]) hK
  | takeSome idx tag hpc hc => exact kinv_of_eq (by simp [Gh.next, hpc]) (by simp [Gh.next, hpc]) (by simp [Gh.next, hpc]) hK
  | deqOk q tag cur hpc hcs =>
    cases q with
    | empty => exact kinv_of_eq (by simp [Gh.next, hpc]) (by simp [Gh.next, hpc]) (by simp [Gh.next, hpc]) hK
    | full =>
      cases hfq : g.fq with
      | nil => exact kinv_of_eq (by simp [Gh.next, hpc, hfq]) (by simp [Gh.next, hpc, hfq]) (by simp [Gh.next, hpc, hfq]) hK
      | cons e rest =>
        exact kinv_of_eq (by simp [Gh.next, hpc, hfq]) (by simp [Gh.next, hpc, hfq]) (by simp [Gh.next, hpc, hfq]) hK
  | write idx tag hpc =>
    have hown : th.pc.owns = some idx := by rw [hpc]; rfl
    have hg : g.next s th.pc (Obs.cellWrite idx) = { g with wr := (idx, tag) :: dropKey idx g.wr, wrote := g.wrote ++ [tag] } := by
      simp [Gh.next, hpc]
    rw [hg]
    -- nobody else is about to queue index `idx`: its owner is this thread, which is only now writing
    have hfresh : ∀ e ∈ g.wr, e.1 ≠ idx := by
      intro e he e1
      obtain ⟨_, j, thj, hj, hr⟩ := hP.cellW e he
      have hoj := isFullEnq_owns hr
      rw [e1] at hoj
      have hjt := owner_unique hI hth hj hown hoj
      subst hjt
      rw [hth] at hj; injection hj with hj; subst hj
      rcases hr with ⟨r, h⟩ | ⟨r, cu, h⟩ <;> (rw [hpc] at h; cases h)
    have hdk := dropKey_none idx g.wr hfresh
    refine ⟨?_, ?_⟩
    · show (((idx, tag) :: dropKey idx g.wr).map (fun e : Nat × Nat => e.1)).Nodup
      rw [hdk]
      simp only [List.map_cons, List.nodup_cons]
      refine ⟨?_, hK.keysW⟩
      intro hm
      obtain ⟨e, he, e1⟩ := List.mem_map.1 hm
      exact hfresh e he e1
    · show (g.wrote ++ [tag]).Perm ((((idx, tag) :: dropKey idx g.wr).map (fun e : Nat × Nat => e.2)) ++ g.sent)
      rw [hdk]
      simp only [List.map_cons, List.cons_append]
      exact List.perm_append_singleton _ _ |>.trans (List.Perm.cons _ hK.perm)
  | enqOk q idx ret cur new hpc he hcs =>
    cases q with
    | empty => exact kinv_of_eq (by simp [Gh.next, hpc]) (by simp [Gh.next, hpc]) (by simp [Gh.next, hpc]) hK
    | full =>
      have hg : g.next s th.pc (Obs.cas Loc.full cur new true cur) =
          { g with sent := g.sent ++ [(s.cells.getD (idx - 1) none).getD 0],
                   fq := g.fq ++ [(idx, (s.cells.getD (idx - 1) none).getD 0)], wr := dropKey idx g.wr } := by
        simp [Gh.next, hpc]
      rw [hg]
      obtain ⟨tg', hm⟩ := hP.ownW t th idx hth (by rw [hpc]; exact Or.inr ⟨_, _, rfl⟩)
      have hc' := (hP.cellW _ hm).1
      simp only at hc'
      rw [hc']
      refine ⟨dropKey_keys_nodup idx g.wr hK.keysW, ?_⟩
      show g.wrote.Perm ((dropKey idx g.wr).map (fun e : Nat × Nat => e.2) ++ (g.sent ++ [tg']))
      have h1 := perm_dropKey idx tg' g.wr hK.keysW hm
      have h2 : (g.wr.map (fun e : Nat × Nat => e.2) ++ g.sent).Perm
          ((tg' :: (dropKey idx g.wr).map (fun e : Nat × Nat => e.2)) ++ g.sent) := List.Perm.append_right _ h1
      refine hK.perm.trans (h2.trans ?_)
      simp only [List.cons_append]
      rw [← List.append_assoc]
      exact (List.perm_append_singleton _ _).symm

end SigHook.Channel
