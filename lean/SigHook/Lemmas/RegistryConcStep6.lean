import SigHook.Lemmas.RegistryConcStep
/-!
The L6 step function as an explicit transition relation.

`Step6 env s t th s' out` lists, for a state that satisfies `Inv6`, every way thread `t` (whose
record is `th`) can move: the successor `s'` is written out in terms of `s`, and an embedded
half-lock step is summarised by `HMv` (phases of `t` before and after, other threads untouched,
effect on the published pointer, the live set and the mutex). `step6_of` proves that `step` makes
no other moves. All further L6 invariants and the property theorems are proved by cases on this
relation, without unfolding `step` or the half-lock machine again.
-/
namespace SigHook.RegConc
open SigHook.Registry (Disp Slot Env lookup update btInsert btRemove prevCalled)
open SigHook.HalfLock (Phase phaseAt pcAt PhaseTr Eff NoScripts Obs)

/-- summary of one step of thread `t` inside an embedded half-lock -/
structure HMv (h h' : HalfLock.Sys) (t : Nat) (p p' : Phase) (o : Obs) : Prop where
  before : phaseAt h t = p
  after : phaseAt h' t = p'
  others : ∀ j, j ≠ t → phaseAt h' j = phaseAt h j
  data : h'.data = o.newData h.data
  live : h'.live = o.newLive h.live
  owner : h'.mutexOwner = o.newOwner t h.mutexOwner
  /-- every step of `read()` brings the pin one step closer -/
  pre : (p = .idle ∨ ∃ u, p = .rPre u) → ((∃ u, p' = .rPre u) ∨ ∃ q u, p' = .rHold q u) →
    HalfLock.preA (pcAt h' t) + 1 = HalfLock.preA (pcAt h t)
  /-- with both reader slots idle, a writer's step keeps them idle and uses up one unit of `rem` -/
  quiet : h.lock0 = 0 → h.lock1 = 0 → (Phase.crit p = true ∨ ∃ b, o = .mutexLock b) →
    h'.lock0 = 0 ∧ h'.lock1 = 0 ∧ (Phase.crit p = true → HalfLock.rem (pcAt h' t) + 1 = HalfLock.rem (pcAt h t))

/-- the dispatcher's plan from the contents of the two pinned snapshots -/
def planOf (dp : SigData) (fp : Option (Int × Disp)) (sig : Int) : Option Disp × List Nat :=
  match lookup sig dp.signals with
  | some slot => (prevCalled slot.prev, slot.actions.map (·.2))
  | none =>
    match fp with
    | some (fsig, prev) => if fsig = sig then (prevCalled prev, []) else (none, [])
    | none => (none, [])

/-- the contents a first registration publishes: its slot added -/
def withSlot (new : SigData) (sig : Int) (prev : Disp) (id tag : Nat) : SigData :=
  { new with signals := update sig { prev := prev, actions := [(id, tag)] } new.signals }

/-- observations of a wait-loop step of `write_barrier` -/
def Obs.benign : Obs → Prop
  | .load l _ => l ≠ "data"
  | .fetchAdd l _ => l = "generation"
  | .spin | .yield => True
  | _ => False

inductive Step6 (env : Env) (s : Sys) (t : Nat) (th : Thread) : Sys → StepOut → Prop
  -- ------------------------------------------------------------------ calls
  | callOurs (sig : Int) (rest : List Op) (f : Nat) :
      th.pc = .idle → th.script = .deliver sig :: rest → dispOf s sig = .lib f →
      Step6 env s t th (setT s t { script := rest, pc := .dFb sig }) { ev := .call (.deliver sig) }
  | callNotOurs (sig : Int) (rest : List Op) (d : Disp) :
      th.pc = .idle → th.script = .deliver sig :: rest → dispOf s sig = d → (∀ f, d ≠ .lib f) →
      Step6 env s t th (setT s t { script := rest, pc := .idle })
        { ev := .call (.deliver sig), ret := some (.notOurs d) }
  | callPanic (sig : Int) (tag : Nat) (rest : List Op) :
      th.pc = .idle → th.script = .register true sig tag :: rest → env.forbidden.contains sig = true →
      Step6 env s t th (setT s t { script := rest, pc := .idle })
        { ev := .call (.register true sig tag), dropped := [tag], ret := some .panic }
  | callMut (op : Op) (rest : List Op) :
      th.pc = .idle → th.script = op :: rest → (∀ sig, op ≠ .deliver sig) →
      Step6 env s t th (setT s t { script := rest, pc := .mLockD op }) { ev := .call op }
  -- ------------------------------------------------------------------ delivery
  | fbStep (sig : Int) (hf' : HalfLock.Sys) (p : Phase) (o : Obs) :
      th.pc = .dFb sig → HMv s.hf hf' t p (.rPre 0) o → (p = .idle ∨ p = .rPre 0) →
      ((∃ v, o = .load "generation" v) ∨ ∃ l v, o = .fetchAdd l v) →
      Step6 env s t th (setT { s with hf := hf' } t { th with pc := .dFb sig }) { ev := .hf o }
  | fbPin (sig : Int) (hf' : HalfLock.Sys) :
      th.pc = .dFb sig → HMv s.hf hf' t (.rPre 0) (.rHold s.hf.data 0) (.load "data" s.hf.data) →
      Step6 env s t th (setT { s with hf := hf' } t { th with pc := .dData sig })
        { ev := .hf (.load "data" s.hf.data) }
  | dataStep (sig : Int) (hd' : HalfLock.Sys) (p : Phase) (o : Obs) (pf : Nat) :
      th.pc = .dData sig → phaseAt s.hf t = .rHold pf 0 → HMv s.hd hd' t p (.rPre 0) o →
      (p = .idle ∨ p = .rPre 0) → ((∃ v, o = .load "generation" v) ∨ ∃ l v, o = .fetchAdd l v) →
      Step6 env s t th (setT { s with hd := hd' } t { th with pc := .dData sig }) { ev := .hd o }
  | dataPin (sig : Int) (hd' : HalfLock.Sys) (pf : Nat) :
      th.pc = .dData sig → phaseAt s.hf t = .rHold pf 0 →
      HMv s.hd hd' t (.rPre 0) (.rHold s.hd.data 0) (.load "data" s.hd.data) →
      Step6 env s t th
        (setT { s with hd := hd' } t
          { th with pc := .dPlan sig (planOf (cur s) ((lookupN pf s.cf).getD none) sig).1
                                     (planOf (cur s) ((lookupN pf s.cf).getD none) sig).2 })
        { ev := .hd (.load "data" s.hd.data) }
  | prev (sig : Int) (d : Disp) (tags : List Nat) :
      th.pc = .dPlan sig (some d) tags →
      Step6 env s t th (setT s t { th with pc := .dPlan sig none tags }) { ev := .prev d }
  | run (sig : Int) (tag : Nat) (rest : List Nat) :
      th.pc = .dPlan sig none (tag :: rest) →
      Step6 env s t th (setT s t { th with pc := .dPlan sig none rest }) { ev := .run tag }
  | relD (sig : Int) (hd' : HalfLock.Sys) (p : Nat) (l : String) (v : Nat) :
      th.pc = .dPlan sig none [] → HMv s.hd hd' t (.rHold p 0) .idle (.fetchSub l v) →
      Step6 env s t th (setT { s with hd := hd' } t { th with pc := .dRelF sig }) { ev := .hd (.fetchSub l v) }
  | relF (sig : Int) (hf' : HalfLock.Sys) (p : Nat) (l : String) (v : Nat) :
      th.pc = .dRelF sig → HMv s.hf hf' t (.rHold p 0) .idle (.fetchSub l v) →
      Step6 env s t th (setT { s with hf := hf' } t { th with pc := .idle })
        { ev := .hf (.fetchSub l v), ret := some .delivered }
  -- ------------------------------------------------------------------ mutators: `data`
  | lockD (op : Op) (hd' : HalfLock.Sys) (b : Bool) :
      th.pc = .mLockD op → s.hd.mutexOwner = none →
      HMv s.hd hd' t .idle (.wLoad (willStore env (cur s) op)) (.mutexLock b) →
      Step6 env s t th (setT { s with hd := hd' } t { th with pc := .mLoadD op }) { ev := .hd (.mutexLock b) }
  | loadDNone (op : Op) (res : Ret) (first : Bool) (hd' : HalfLock.Sys) :
      th.pc = .mLoadD op → plan env (cur s) op = (none, res, first) →
      HMv s.hd hd' t (.wLoad false) .wUnlock (.load "data" s.hd.data) →
      Step6 env s t th (setT { s with hd := hd' } t { th with pc := .mUnlockD res [] })
        { ev := .hd (.load "data" s.hd.data) }
  | loadDPub (op : Op) (new : SigData) (res : Ret) (hd' : HalfLock.Sys) :
      th.pc = .mLoadD op → plan env (cur s) op = (some new, res, false) →
      HMv s.hd hd' t (.wLoad true) .wAlloc (.load "data" s.hd.data) →
      Step6 env s t th (setT { s with hd := hd' } t { th with pc := .mRunD (some new) res })
        { ev := .hd (.load "data" s.hd.data) }
  | loadDFirst (chk : Bool) (sig : Int) (tag : Nat) (new : SigData) (res : Ret) (hd' : HalfLock.Sys) :
      th.pc = .mLoadD (.register chk sig tag) → plan env (cur s) (.register chk sig tag) = (some new, res, true) →
      HMv s.hd hd' t (.wLoad (wsF env sig)) (stPhase (wsF env sig)) (.load "data" s.hd.data) →
      Step6 env s t th (setT { s with hd := hd' } t { th with pc := .mLockF sig tag new res })
        { ev := .hd (.load "data" s.hd.data) }
  | runDAlloc (v : SigData) (res : Ret) (hd' : HalfLock.Sys) :
      th.pc = .mRunD (some v) res → HMv s.hd hd' t .wAlloc (.wSwap s.nextAlloc) (.alloc s.nextAlloc) →
      Step6 env s t th
        (setT { s with hd := hd', cd := (s.nextAlloc, v) :: s.cd, nextAlloc := s.nextAlloc + 1 } t
          { th with pc := .mRunD none res })
        { ev := .hd (.alloc s.nextAlloc) }
  | runDSwap (n : Nat) (res : Ret) (hd' : HalfLock.Sys) :
      th.pc = .mRunD none res → HMv s.hd hd' t (.wSwap n) (.wWait s.hd.data) (.swap "data" n s.hd.data) →
      Step6 env s t th (setT { s with hd := hd' } t { th with pc := .mRunD none res })
        { ev := .hd (.swap "data" n s.hd.data) }
  | runDWait (old : Nat) (res : Ret) (hd' : HalfLock.Sys) (p' : Phase) (o : Obs) :
      th.pc = .mRunD none res → HMv s.hd hd' t (.wWait old) p' o → (p' = .wWait old ∨ p' = .wFree old) →
      Obs.benign o →
      Step6 env s t th (setT { s with hd := hd' } t { th with pc := .mRunD none res }) { ev := .hd o }
  | runDFree (old : Nat) (res : Ret) (hd' : HalfLock.Sys) :
      th.pc = .mRunD none res → HMv s.hd hd' t (.wFree old) .wUnlock (.free old) →
      Step6 env s t th (setT { s with hd := hd' } t { th with pc := .mRunD none res })
        { ev := .hd (.free old), dropped := droppedAt s old }
  | runDUnlock (res : Ret) (hd' : HalfLock.Sys) (b : Bool) :
      th.pc = .mRunD none res → HMv s.hd hd' t .wUnlock .idle (.mutexUnlock b) →
      Step6 env s t th (setT { s with hd := hd' } t { th with pc := .idle })
        { ev := .hd (.mutexUnlock b), ret := some res }
  | unlockD (res : Ret) (drops : List Nat) (hd' : HalfLock.Sys) (b : Bool) :
      th.pc = .mUnlockD res drops → HMv s.hd hd' t .wUnlock .idle (.mutexUnlock b) →
      Step6 env s t th (setT { s with hd := hd' } t { th with pc := .idle })
        { ev := .hd (.mutexUnlock b), dropped := drops, ret := some res }
  -- ------------------------------------------------------------------ mutators: first registration
  | lockF (sig : Int) (tag : Nat) (new : SigData) (res : Ret) (hf' : HalfLock.Sys) (b : Bool) :
      th.pc = .mLockF sig tag new res → s.hf.mutexOwner = none →
      HMv s.hf hf' t .idle (.wLoad (!(env.rejectsQuery sig))) (.mutexLock b) →
      Step6 env s t th (setT { s with hf := hf' } t { th with pc := .mLoadF sig tag new res })
        { ev := .hf (.mutexLock b) }
  | loadF (sig : Int) (tag : Nat) (new : SigData) (res : Ret) (hf' : HalfLock.Sys) :
      th.pc = .mLoadF sig tag new res →
      HMv s.hf hf' t (.wLoad (!(env.rejectsQuery sig))) (stPhase (!(env.rejectsQuery sig))) (.load "data" s.hf.data) →
      Step6 env s t th (setT { s with hf := hf' } t { th with pc := .mQuery sig tag new res })
        { ev := .hf (.load "data" s.hf.data) }
  | queryRej (sig : Int) (tag : Nat) (new : SigData) (res : Ret) :
      th.pc = .mQuery sig tag new res → env.rejectsQuery sig = true →
      Step6 env s t th (setT s t { th with pc := .mUnlockF .err [tag] }) { ev := .sigaction sig false false }
  | queryOk (sig : Int) (tag : Nat) (new : SigData) (res : Ret) :
      th.pc = .mQuery sig tag new res → env.rejectsQuery sig = false →
      Step6 env s t th (setT s t { th with pc := .mRunF sig tag (some (some (sig, dispOf s sig))) new res })
        { ev := .sigaction sig false true }
  | runFAlloc (sig : Int) (tag : Nat) (v : Option (Int × Disp)) (new : SigData) (res : Ret) (hf' : HalfLock.Sys) :
      th.pc = .mRunF sig tag (some v) new res →
      HMv s.hf hf' t .wAlloc (.wSwap s.nextAlloc) (.alloc s.nextAlloc) →
      Step6 env s t th
        (setT { s with hf := hf', cf := (s.nextAlloc, v) :: s.cf, nextAlloc := s.nextAlloc + 1 } t
          { th with pc := .mRunF sig tag none new res })
        { ev := .hf (.alloc s.nextAlloc) }
  | runFSwap (sig : Int) (tag : Nat) (new : SigData) (res : Ret) (n : Nat) (hf' : HalfLock.Sys) :
      th.pc = .mRunF sig tag none new res →
      HMv s.hf hf' t (.wSwap n) (.wWait s.hf.data) (.swap "data" n s.hf.data) →
      Step6 env s t th (setT { s with hf := hf' } t { th with pc := .mRunF sig tag none new res })
        { ev := .hf (.swap "data" n s.hf.data) }
  | runFWait (sig : Int) (tag : Nat) (new : SigData) (res : Ret) (old : Nat) (hf' : HalfLock.Sys) (p' : Phase) (o : Obs) :
      th.pc = .mRunF sig tag none new res → HMv s.hf hf' t (.wWait old) p' o →
      (p' = .wWait old ∨ p' = .wFree old) → Obs.benign o →
      Step6 env s t th (setT { s with hf := hf' } t { th with pc := .mRunF sig tag none new res }) { ev := .hf o }
  | runFFree (sig : Int) (tag : Nat) (new : SigData) (res : Ret) (old : Nat) (hf' : HalfLock.Sys) :
      th.pc = .mRunF sig tag none new res → HMv s.hf hf' t (.wFree old) .wUnlock (.free old) →
      Step6 env s t th (setT { s with hf := hf' } t { th with pc := .mRunF sig tag none new res })
        { ev := .hf (.free old) }
  | runFUnlock (sig : Int) (tag : Nat) (new : SigData) (res : Ret) (hf' : HalfLock.Sys) (b : Bool) :
      th.pc = .mRunF sig tag none new res → HMv s.hf hf' t .wUnlock .idle (.mutexUnlock b) →
      Step6 env s t th (setT { s with hf := hf' } t { th with pc := .mSet sig tag new res })
        { ev := .hf (.mutexUnlock b) }
  | unlockF (res : Ret) (drops : List Nat) (hf' : HalfLock.Sys) (b : Bool) :
      th.pc = .mUnlockF res drops → HMv s.hf hf' t .wUnlock .idle (.mutexUnlock b) →
      Step6 env s t th (setT { s with hf := hf' } t { th with pc := .mUnlockD res drops })
        { ev := .hf (.mutexUnlock b) }
  | setRej (sig : Int) (tag : Nat) (new : SigData) (res : Ret) :
      th.pc = .mSet sig tag new res → env.rejectsSet sig = true →
      Step6 env s t th (setT s t { th with pc := .mUnlockD .err [tag] }) { ev := .sigaction sig true false }
  | setOk (sig : Int) (tag : Nat) (new : SigData) (res : Ret) :
      th.pc = .mSet sig tag new res → env.rejectsSet sig = false →
      Step6 env s t th
        (setT { s with disp := update sig (.lib env.libFlags) s.disp } t
          { th with pc := .mRunD (some (withSlot new sig (dispOf s sig) res.idOr0 tag)) res })
        { ev := .sigaction sig true true }

/-- an `Mv` as an `HMv` -/
theorem hmv_of {h0 h h' : HalfLock.Sys} {t : Nat} {cmd : Option HalfLock.Cmd} {o : Obs} {p p' : Phase}
    (mv : Mv h0 h' t cmd o) (e0 : h0.data = h.data) (e1 : h0.live = h.live) (e2 : h0.mutexOwner = h.mutexOwner)
    (e3 : h0.threads = h.threads) (hp : phaseAt h t = p) (hp' : phaseAt h' t = p')
    (e4 : h0.lock0 = h.lock0 := by rfl) (e5 : h0.lock1 = h.lock1 := by rfl) : HMv h h' t p p' o :=
  ⟨hp, hp', fun j hj => by rw [mv.others j hj]; simp [phaseAt, pcAt, e3],
   by rw [mv.eff.data, e0], by rw [mv.eff.live, e1], by rw [mv.eff.mutex, e2],
   fun h1 h2 => by
     have hph : phaseAt h0 t = phaseAt h t := by simp [phaseAt, pcAt, e3]
     have := mv.pre (by rw [hph, hp]; exact h1) (by rw [hp']; exact h2)
     rw [this]; simp [pcAt, e3],
   fun q0 q1 hc => by
     have hph : phaseAt h0 t = phaseAt h t := by simp [phaseAt, pcAt, e3]
     have hpa : pcAt h0 t = pcAt h t := by simp [pcAt, e3]
     have := mv.quiet (by rw [e4]; exact q0) (by rw [e5]; exact q1) (by rw [hph, hp]; exact hc)
     rw [hph, hp, hpa] at this
     exact this⟩

theorem dispatchPlan_eq (s : Sys) (t : Nat) (sig : Int) (p pf u u' : Nat)
    (hd : phaseAt s.hd t = .rHold p u) (hf : phaseAt s.hf t = .rHold pf u') :
    dispatchPlan s t sig = planOf ((lookupN p s.cd).getD SigData.empty) ((lookupN pf s.cf).getD none) sig := by
  obtain ⟨sl, e1⟩ := (phase_rHold _ _ _).1 hd
  obtain ⟨sl', e2⟩ := (phase_rHold _ _ _).1 hf
  simp only [dispatchPlan, hlPc_eq, e1, e2, planOf]
  cases lookup sig ((lookupN p s.cd).getD SigData.empty).signals with
  | some slot => rfl
  | none =>
    cases (lookupN pf s.cf).getD none with
    | none => rfl
    | some q => rfl


/-! ## `step` makes exactly these moves -/

section
variable {env : Env} {ye : Nat} {s s' : Sys} {t : Nat} {th : Thread} {out : StepOut}

theorem s6_idle (hth : s.threads[t]? = some th) (hpc : th.pc = .idle)
    (hs : step env ye s t = some (s', out)) : Step6 env s t th s' out := by
  unfold step at hs; simp only [hth, hpc] at hs
  cases hsc : th.script with
  | nil => simp [hsc] at hs
  | cons op rest =>
    simp only [hsc] at hs
    cases op with
    | deliver sig =>
      simp only at hs
      cases hd : dispOf s sig with
      | lib f =>
        simp only [hd, Option.some.injEq, Prod.mk.injEq] at hs; obtain ⟨rfl, rfl⟩ := hs
        exact .callOurs sig rest f hpc hsc hd
      | dfl =>
        simp only [hd, Option.some.injEq, Prod.mk.injEq] at hs; obtain ⟨rfl, rfl⟩ := hs
        exact .callNotOurs sig rest _ hpc hsc hd (by intro f h; cases h)
      | ign =>
        simp only [hd, Option.some.injEq, Prod.mk.injEq] at hs; obtain ⟨rfl, rfl⟩ := hs
        exact .callNotOurs sig rest _ hpc hsc hd (by intro f h; cases h)
      | h1 g =>
        simp only [hd, Option.some.injEq, Prod.mk.injEq] at hs; obtain ⟨rfl, rfl⟩ := hs
        exact .callNotOurs sig rest _ hpc hsc hd (by intro f h; cases h)
      | h3 g =>
        simp only [hd, Option.some.injEq, Prod.mk.injEq] at hs; obtain ⟨rfl, rfl⟩ := hs
        exact .callNotOurs sig rest _ hpc hsc hd (by intro f h; cases h)
    | register chk sig tag =>
      simp only at hs
      split at hs
      · rename_i hf
        simp only [Option.some.injEq, Prod.mk.injEq] at hs; obtain ⟨rfl, rfl⟩ := hs
        simp only [Bool.and_eq_true] at hf
        obtain ⟨hc, hf⟩ := hf; subst hc
        exact .callPanic sig tag rest hpc hsc hf
      · simp only [Option.some.injEq, Prod.mk.injEq] at hs; obtain ⟨rfl, rfl⟩ := hs
        exact .callMut _ rest hpc hsc (by intro sg h; cases h)
    | unregister sig id =>
      simp only [Option.some.injEq, Prod.mk.injEq] at hs; obtain ⟨rfl, rfl⟩ := hs
      exact .callMut _ rest hpc hsc (by intro sg h; cases h)
    | unregisterSignal sig =>
      simp only [Option.some.injEq, Prod.mk.injEq] at hs; obtain ⟨rfl, rfl⟩ := hs
      exact .callMut _ rest hpc hsc (by intro sg h; cases h)

theorem s6_dFb {sig : Int} (hI : Inv6 env s) (hth : s.threads[t]? = some th) (hpc : th.pc = .dFb sig)
    (hs : step env ye s t = some (s', out)) : Step6 env s t th s' out := by
  have hc := hI.coh t th hth; rw [hpc] at hc; simp only [CohT] at hc
  obtain ⟨hcD, hcF⟩ := hc
  unfold step at hs; simp only [hth, hpc] at hs
  rcases hcF with hidle | hpre
  · have hpi := (hlPc_idle_iff s.hf t).2 hidle
    simp only [hpi, beq_self_eq_true, if_true] at hs
    cases hb : hlBegin ye s.hf t (.read 0) with
    | none => simp [hb] at hs
    | some r =>
      obtain ⟨hf', o⟩ := r
      have mv := mv_begin hI.emb.hf hI.emb.nsF hidle hb
      have tr := mv.tr; rw [hidle] at tr; simp [PhaseTr] at tr
      obtain ⟨hp', ho⟩ := tr
      have hnh := not_isHold_of_phase hp' (by intro p u h; cases h)
      simp only [hb, hnh, Bool.false_eq_true, if_false, Option.some.injEq, Prod.mk.injEq] at hs
      obtain ⟨rfl, rfl⟩ := hs
      exact .fbStep sig hf' _ o hpc (hmv_of mv rfl rfl rfl rfl hidle hp') (Or.inl rfl) (Or.inl ⟨_, ho⟩)
  · have hpi := not_idle_of_phase hpre (by intro h; cases h)
    simp only [hpi, Bool.false_eq_true, if_false] at hs
    cases hb : HalfLock.step ye s.hf t with
    | none => simp [hb] at hs
    | some r =>
      obtain ⟨hf', o⟩ := r
      have mv := mv_step hI.emb.hf hI.emb.nsF hb
      have tr := mv.tr; rw [hpre] at tr; simp [PhaseTr] at tr
      rcases tr with ⟨hp', l, v, ho⟩ | ⟨hp', ho⟩
      · have hnh := not_isHold_of_phase hp' (by intro p u h; cases h)
        simp only [hb, hnh, Bool.false_eq_true, if_false, Option.some.injEq, Prod.mk.injEq] at hs
        obtain ⟨rfl, rfl⟩ := hs
        exact .fbStep sig hf' _ o hpc (hmv_of mv rfl rfl rfl rfl hpre hp') (Or.inr rfl) (Or.inr ⟨l, v, ho⟩)
      · have hh : isHold (hlPc hf' t) = true := (isHold_phaseAt _ _).2 ⟨_, _, hp'⟩
        simp only [hb, hh, if_true, Option.some.injEq, Prod.mk.injEq] at hs
        obtain ⟨rfl, rfl⟩ := hs
        subst ho
        exact .fbPin sig hf' hpc (hmv_of mv rfl rfl rfl rfl hpre hp')

theorem s6_dData {sig : Int} (hI : Inv6 env s) (hth : s.threads[t]? = some th) (hpc : th.pc = .dData sig)
    (hs : step env ye s t = some (s', out)) : Step6 env s t th s' out := by
  have hc := hI.coh t th hth; rw [hpc] at hc; simp only [CohT] at hc
  obtain ⟨hcD, pf, hcF⟩ := hc
  unfold step at hs; simp only [hth, hpc] at hs
  rcases hcD with hidle | hpre
  · have hpi := (hlPc_idle_iff s.hd t).2 hidle
    simp only [hpi, beq_self_eq_true, if_true] at hs
    cases hb : hlBegin ye s.hd t (.read 0) with
    | none => simp [hb] at hs
    | some r =>
      obtain ⟨hd', o⟩ := r
      have mv := mv_begin hI.emb.hd hI.emb.nsD hidle hb
      have tr := mv.tr; rw [hidle] at tr; simp [PhaseTr] at tr
      obtain ⟨hp', ho⟩ := tr
      have hnh := not_isHold_of_phase hp' (by intro p u h; cases h)
      simp only [hb, hnh, Bool.false_eq_true, if_false, Option.some.injEq, Prod.mk.injEq] at hs
      obtain ⟨rfl, rfl⟩ := hs
      exact .dataStep sig hd' _ o pf hpc hcF (hmv_of mv rfl rfl rfl rfl hidle hp') (Or.inl rfl) (Or.inl ⟨_, ho⟩)
  · have hpi := not_idle_of_phase hpre (by intro h; cases h)
    simp only [hpi, Bool.false_eq_true, if_false] at hs
    cases hb : HalfLock.step ye s.hd t with
    | none => simp [hb] at hs
    | some r =>
      obtain ⟨hd', o⟩ := r
      have mv := mv_step hI.emb.hd hI.emb.nsD hb
      have tr := mv.tr; rw [hpre] at tr; simp [PhaseTr] at tr
      rcases tr with ⟨hp', l, v, ho⟩ | ⟨hp', ho⟩
      · have hnh := not_isHold_of_phase hp' (by intro p u h; cases h)
        simp only [hb, hnh, Bool.false_eq_true, if_false, Option.some.injEq, Prod.mk.injEq] at hs
        obtain ⟨rfl, rfl⟩ := hs
        exact .dataStep sig hd' _ o pf hpc hcF (hmv_of mv rfl rfl rfl rfl hpre hp') (Or.inr rfl) (Or.inr ⟨l, v, ho⟩)
      · have hh : isHold (hlPc hd' t) = true := (isHold_phaseAt _ _).2 ⟨_, _, hp'⟩
        simp only [hb, hh, if_true, Option.some.injEq, Prod.mk.injEq] at hs
        obtain ⟨rfl, rfl⟩ := hs
        subst ho
        have hdp' : dispatchPlan { s with hd := hd' } t sig = planOf (cur s) ((lookupN pf s.cf).getD none) sig := by
          rw [dispatchPlan_eq { s with hd := hd' } t sig s.hd.data pf 0 0 hp' hcF]; rfl
        rw [hdp']
        exact .dataPin sig hd' pf hpc hcF (hmv_of mv rfl rfl rfl rfl hpre hp')


theorem s6_dPlan {sig : Int} {pv : Option Disp} {tags : List Nat}
    (hI : Inv6 env s) (hth : s.threads[t]? = some th) (hpc : th.pc = .dPlan sig pv tags)
    (hs : step env ye s t = some (s', out)) : Step6 env s t th s' out := by
  have hc := hI.coh t th hth; rw [hpc] at hc; simp only [CohT] at hc
  obtain ⟨⟨pd, hcD⟩, hcF⟩ := hc
  unfold step at hs; simp only [hth, hpc] at hs
  cases pv with
  | some d =>
    simp only [Option.some.injEq, Prod.mk.injEq] at hs; obtain ⟨rfl, rfl⟩ := hs
    exact .prev sig d tags hpc
  | none =>
    cases tags with
    | cons tag rest =>
      simp only [Option.some.injEq, Prod.mk.injEq] at hs; obtain ⟨rfl, rfl⟩ := hs
      exact .run sig tag rest hpc
    | nil =>
      simp only at hs
      cases hb : HalfLock.step ye s.hd t with
      | none => simp [hb] at hs
      | some r =>
        obtain ⟨hd', o⟩ := r
        have mv := mv_step hI.emb.hd hI.emb.nsD hb
        have tr := mv.tr; rw [hcD] at tr; simp [PhaseTr] at tr
        obtain ⟨hp', l, v, ho⟩ := tr
        simp only [hb, Option.some.injEq, Prod.mk.injEq] at hs
        obtain ⟨rfl, rfl⟩ := hs
        subst ho
        exact .relD sig hd' pd l v hpc (hmv_of mv rfl rfl rfl rfl hcD hp')

theorem s6_dRelF {sig : Int} (hI : Inv6 env s) (hth : s.threads[t]? = some th) (hpc : th.pc = .dRelF sig)
    (hs : step env ye s t = some (s', out)) : Step6 env s t th s' out := by
  have hc := hI.coh t th hth; rw [hpc] at hc; simp only [CohT] at hc
  obtain ⟨hcD, pf, hcF⟩ := hc
  unfold step at hs; simp only [hth, hpc] at hs
  cases hb : HalfLock.step ye s.hf t with
  | none => simp [hb] at hs
  | some r =>
    obtain ⟨hf', o⟩ := r
    have mv := mv_step hI.emb.hf hI.emb.nsF hb
    have tr := mv.tr; rw [hcF] at tr; simp [PhaseTr] at tr
    obtain ⟨hp', l, v, ho⟩ := tr
    simp only [hb, Option.some.injEq, Prod.mk.injEq] at hs
    obtain ⟨rfl, rfl⟩ := hs
    subst ho
    exact .relF sig hf' pf l v hpc (hmv_of mv rfl rfl rfl rfl hcF hp')

theorem s6_mLockD {op : Op} (hI : Inv6 env s) (hth : s.threads[t]? = some th) (hpc : th.pc = .mLockD op)
    (hs : step env ye s t = some (s', out)) : Step6 env s t th s' out := by
  have hc := hI.coh t th hth; rw [hpc] at hc; simp only [CohT] at hc
  obtain ⟨hcD, hcF⟩ := hc
  unfold step at hs; simp only [hth, hpc, cur_def] at hs
  cases hb : hlBegin ye s.hd t (.write (willStore env (cur s) op) false) with
  | none => simp [hb] at hs
  | some r =>
    obtain ⟨hd', o⟩ := r
    have mv := mv_begin hI.emb.hd hI.emb.nsD hcD hb
    have tr := mv.tr; rw [hcD] at tr
    obtain ⟨hp', ho, hmo⟩ := tr_begin_write tr
    simp only [hb, Option.some.injEq, Prod.mk.injEq] at hs
    obtain ⟨rfl, rfl⟩ := hs
    subst ho
    exact .lockD op hd' _ hpc hmo (hmv_of mv rfl rfl rfl rfl hcD hp')

theorem s6_mLoadD {op : Op} (hI : Inv6 env s) (hth : s.threads[t]? = some th) (hpc : th.pc = .mLoadD op)
    (hs : step env ye s t = some (s', out)) : Step6 env s t th s' out := by
  have hc := hI.coh t th hth; rw [hpc] at hc; simp only [CohT] at hc
  obtain ⟨hcD, hcF⟩ := hc
  unfold step at hs; simp only [hth, hpc, cur_def] at hs
  cases hb : HalfLock.step ye s.hd t with
  | none => simp [hb] at hs
  | some r =>
    obtain ⟨hd', o⟩ := r
    have mv := mv_step hI.emb.hd hI.emb.nsD hb
    have tr := mv.tr; rw [hcD] at tr; simp only [PhaseTr] at tr
    obtain ⟨hp', ho⟩ := tr
    subst ho
    simp only [hb] at hs
    rcases hp : plan env (cur s) op with ⟨_ | new, res, first⟩
    · simp only [hp, Option.some.injEq, Prod.mk.injEq] at hs
      obtain ⟨rfl, rfl⟩ := hs
      have hw : willStore env (cur s) op = false := by simp [willStore, hp]
      rw [hw] at hp' hcD
      exact .loadDNone op res first hd' hpc hp (hmv_of mv rfl rfl rfl rfl hcD hp')
    · cases first with
      | false =>
        simp only [hp, Option.some.injEq, Prod.mk.injEq] at hs
        obtain ⟨rfl, rfl⟩ := hs
        have hw : willStore env (cur s) op = true := by simp [willStore, hp]
        rw [hw] at hp' hcD
        exact .loadDPub op new res hd' hpc hp (hmv_of mv rfl rfl rfl rfl hcD hp')
      | true =>
        obtain ⟨chk, sig, tag, rfl, hl, hnew, hres⟩ := plan_first env (cur s) op new res hp
        simp only [hp, Option.some.injEq, Prod.mk.injEq] at hs
        obtain ⟨rfl, rfl⟩ := hs
        have hw : willStore env (cur s) (.register chk sig tag) = wsF env sig := by simp [willStore, hp, wsF]
        rw [hw] at hp' hcD
        exact .loadDFirst chk sig tag new res hd' hpc hp (hmv_of mv rfl rfl rfl rfl hcD hp')

theorem s6_mUnlockD {res : Ret} {drops : List Nat}
    (hI : Inv6 env s) (hth : s.threads[t]? = some th) (hpc : th.pc = .mUnlockD res drops)
    (hs : step env ye s t = some (s', out)) : Step6 env s t th s' out := by
  have hc := hI.coh t th hth; rw [hpc] at hc; simp only [CohT] at hc
  obtain ⟨hcD, hcF⟩ := hc
  unfold step at hs; simp only [hth, hpc] at hs
  cases hb : HalfLock.step ye s.hd t with
  | none => simp [hb] at hs
  | some r =>
    obtain ⟨hd', o⟩ := r
    have mv := mv_step hI.emb.hd hI.emb.nsD hb
    have tr := mv.tr; rw [hcD] at tr; simp only [PhaseTr] at tr
    obtain ⟨hp', b, ho⟩ := tr
    simp only [hb, Option.some.injEq, Prod.mk.injEq] at hs
    obtain ⟨rfl, rfl⟩ := hs
    subst ho
    exact .unlockD res drops hd' b hpc (hmv_of mv rfl rfl rfl rfl hcD hp')

theorem s6_mLockF {sig : Int} {tag : Nat} {new : SigData} {res : Ret}
    (hI : Inv6 env s) (hth : s.threads[t]? = some th) (hpc : th.pc = .mLockF sig tag new res)
    (hs : step env ye s t = some (s', out)) : Step6 env s t th s' out := by
  have hc := hI.coh t th hth; rw [hpc] at hc; simp only [CohT] at hc
  obtain ⟨hfirst, hcD, hcF⟩ := hc
  unfold step at hs; simp only [hth, hpc] at hs
  cases hb : hlBegin ye s.hf t (.write (!(env.rejectsQuery sig)) false) with
  | none => simp [hb] at hs
  | some r =>
    obtain ⟨hf', o⟩ := r
    have mv := mv_begin hI.emb.hf hI.emb.nsF hcF hb
    have tr := mv.tr; rw [hcF] at tr
    obtain ⟨hp', ho, hmo⟩ := tr_begin_write tr
    simp only [hb, Option.some.injEq, Prod.mk.injEq] at hs
    obtain ⟨rfl, rfl⟩ := hs
    subst ho
    exact .lockF sig tag new res hf' _ hpc hmo (hmv_of mv rfl rfl rfl rfl hcF hp')

theorem s6_mLoadF {sig : Int} {tag : Nat} {new : SigData} {res : Ret}
    (hI : Inv6 env s) (hth : s.threads[t]? = some th) (hpc : th.pc = .mLoadF sig tag new res)
    (hs : step env ye s t = some (s', out)) : Step6 env s t th s' out := by
  have hc := hI.coh t th hth; rw [hpc] at hc; simp only [CohT] at hc
  obtain ⟨hfirst, hcD, hcF⟩ := hc
  unfold step at hs; simp only [hth, hpc] at hs
  cases hb : HalfLock.step ye s.hf t with
  | none => simp [hb] at hs
  | some r =>
    obtain ⟨hf', o⟩ := r
    have mv := mv_step hI.emb.hf hI.emb.nsF hb
    have tr := mv.tr; rw [hcF] at tr; simp only [PhaseTr] at tr
    obtain ⟨hp', ho⟩ := tr
    simp only [hb, Option.some.injEq, Prod.mk.injEq] at hs
    obtain ⟨rfl, rfl⟩ := hs
    subst ho
    exact .loadF sig tag new res hf' hpc (hmv_of mv rfl rfl rfl rfl hcF hp')

theorem s6_mQuery {sig : Int} {tag : Nat} {new : SigData} {res : Ret}
    (hth : s.threads[t]? = some th) (hpc : th.pc = .mQuery sig tag new res)
    (hs : step env ye s t = some (s', out)) : Step6 env s t th s' out := by
  unfold step at hs; simp only [hth, hpc] at hs
  cases hq : env.rejectsQuery sig with
  | true =>
    simp only [hq, if_true, Option.some.injEq, Prod.mk.injEq] at hs
    obtain ⟨rfl, rfl⟩ := hs
    exact .queryRej sig tag new res hpc hq
  | false =>
    simp only [hq, Bool.false_eq_true, if_false, Option.some.injEq, Prod.mk.injEq] at hs
    obtain ⟨rfl, rfl⟩ := hs
    exact .queryOk sig tag new res hpc hq

theorem s6_mUnlockF {res : Ret} {drops : List Nat}
    (hI : Inv6 env s) (hth : s.threads[t]? = some th) (hpc : th.pc = .mUnlockF res drops)
    (hs : step env ye s t = some (s', out)) : Step6 env s t th s' out := by
  have hc := hI.coh t th hth; rw [hpc] at hc; simp only [CohT] at hc
  obtain ⟨hcD, hcF⟩ := hc
  unfold step at hs; simp only [hth, hpc] at hs
  cases hb : HalfLock.step ye s.hf t with
  | none => simp [hb] at hs
  | some r =>
    obtain ⟨hf', o⟩ := r
    have mv := mv_step hI.emb.hf hI.emb.nsF hb
    have tr := mv.tr; rw [hcF] at tr; simp only [PhaseTr] at tr
    obtain ⟨hp', b, ho⟩ := tr
    simp only [hb, Option.some.injEq, Prod.mk.injEq] at hs
    obtain ⟨rfl, rfl⟩ := hs
    subst ho
    exact .unlockF res drops hf' b hpc (hmv_of mv rfl rfl rfl rfl hcF hp')

theorem s6_mSet {sig : Int} {tag : Nat} {new : SigData} {res : Ret}
    (hth : s.threads[t]? = some th) (hpc : th.pc = .mSet sig tag new res)
    (hs : step env ye s t = some (s', out)) : Step6 env s t th s' out := by
  unfold step at hs; simp only [hth, hpc] at hs
  cases hr : env.rejectsSet sig with
  | true =>
    simp only [hr, if_true, Option.some.injEq, Prod.mk.injEq] at hs
    obtain ⟨rfl, rfl⟩ := hs
    exact .setRej sig tag new res hpc hr
  | false =>
    simp only [hr, Bool.false_eq_true, if_false, Option.some.injEq, Prod.mk.injEq] at hs
    obtain ⟨rfl, rfl⟩ := hs
    exact .setOk sig tag new res hpc hr

theorem benign_of_wait {h : HalfLock.Sys} {old : Nat} {p' : Phase} {o : Obs}
    (tr : PhaseTr h none (.wWait old) p' o) : (p' = .wWait old ∨ p' = .wFree old) ∧ Obs.benign o := by
  simp only [PhaseTr] at tr
  refine ⟨tr.1, ?_⟩
  rcases tr.2 with ⟨l, v, rfl, hl⟩ | ⟨v, rfl⟩ | rfl | rfl
  · exact hl
  · rfl
  · trivial
  · trivial

theorem s6_mRunF {sig : Int} {tag : Nat} {fb : Option (Option (Int × Disp))} {new : SigData} {res : Ret}
    (hI : Inv6 env s) (hth : s.threads[t]? = some th) (hpc : th.pc = .mRunF sig tag fb new res)
    (hs : step env ye s t = some (s', out)) : Step6 env s t th s' out := by
  have hc := hI.coh t th hth; rw [hpc] at hc; simp only [CohT] at hc
  obtain ⟨hfirst, hq, hcD, hrun⟩ := hc
  unfold step at hs; simp only [hth, hpc] at hs
  cases hb : HalfLock.step ye { s.hf with nextSnap := s.nextAlloc } t with
  | none => simp [hb] at hs
  | some r =>
    obtain ⟨hf', o⟩ := r
    have mv := mv_alloc hI.emb.hf hI.emb.nsF hI.emb.naF hb
    have tr := mv.tr
    rw [show phaseAt { s.hf with nextSnap := s.nextAlloc } t = phaseAt s.hf t from rfl] at tr
    simp only [hb] at hs
    cases hph : phaseAt s.hf t <;> rw [hph] at hrun tr <;> simp only [RunF] at hrun
    case wAlloc =>
      obtain ⟨v, rfl⟩ := hrun
      simp only [PhaseTr] at tr
      obtain ⟨hp', ho⟩ := tr
      subst ho
      have hi := not_idle_of_phase hp' (by intro h; cases h)
      simp only [hi, recordAlloc, Bool.false_eq_true, if_false, Option.some.injEq, Prod.mk.injEq] at hs
      obtain ⟨rfl, rfl⟩ := hs
      exact .runFAlloc sig tag v new res hf' hpc (hmv_of mv rfl rfl rfl rfl hph hp')
    case wSwap n =>
      subst hrun
      simp only [PhaseTr] at tr
      obtain ⟨hp', ho⟩ := tr
      subst ho
      have hi := not_idle_of_phase hp' (by intro h; cases h)
      simp only [hi, recordAlloc_none, Bool.false_eq_true, if_false, Option.some.injEq, Prod.mk.injEq] at hs
      obtain ⟨rfl, rfl⟩ := hs
      exact .runFSwap sig tag new res n hf' hpc (hmv_of mv rfl rfl rfl rfl hph hp')
    case wWait old =>
      subst hrun
      obtain ⟨hp', hben⟩ := benign_of_wait tr
      have hi : (hlPc hf' t == .idle) = false := by
        rcases hp' with h | h
        · exact not_idle_of_phase h (by intro h; cases h)
        · exact not_idle_of_phase h (by intro h; cases h)
      simp only [hi, recordAlloc_none, Bool.false_eq_true, if_false, Option.some.injEq, Prod.mk.injEq] at hs
      obtain ⟨rfl, rfl⟩ := hs
      exact .runFWait sig tag new res old hf' _ o hpc (hmv_of mv rfl rfl rfl rfl hph rfl) hp' hben
    case wFree old =>
      subst hrun
      simp only [PhaseTr] at tr
      obtain ⟨hp', ho⟩ := tr
      subst ho
      have hi := not_idle_of_phase hp' (by intro h; cases h)
      simp only [hi, recordAlloc_none, Bool.false_eq_true, if_false, Option.some.injEq, Prod.mk.injEq] at hs
      obtain ⟨rfl, rfl⟩ := hs
      exact .runFFree sig tag new res old hf' hpc (hmv_of mv rfl rfl rfl rfl hph hp')
    case wUnlock =>
      subst hrun
      simp only [PhaseTr] at tr
      obtain ⟨hp', b, ho⟩ := tr
      subst ho
      have hi := (hlPc_idle_iff hf' t).2 hp'
      simp only [hi, recordAlloc_none, beq_self_eq_true, if_true, Option.some.injEq, Prod.mk.injEq] at hs
      obtain ⟨rfl, rfl⟩ := hs
      exact .runFUnlock sig tag new res hf' b hpc (hmv_of mv rfl rfl rfl rfl hph hp')

theorem s6_mRunD {new : Option SigData} {res : Ret}
    (hI : Inv6 env s) (hth : s.threads[t]? = some th) (hpc : th.pc = .mRunD new res)
    (hs : step env ye s t = some (s', out)) : Step6 env s t th s' out := by
  have hc := hI.coh t th hth; rw [hpc] at hc; simp only [CohT] at hc
  obtain ⟨hrun, hcF⟩ := hc
  unfold step at hs; simp only [hth, hpc] at hs
  cases hb : HalfLock.step ye { s.hd with nextSnap := s.nextAlloc } t with
  | none => simp [hb] at hs
  | some r =>
    obtain ⟨hd', o⟩ := r
    have mv := mv_alloc hI.emb.hd hI.emb.nsD hI.emb.naD hb
    have tr := mv.tr
    rw [show phaseAt { s.hd with nextSnap := s.nextAlloc } t = phaseAt s.hd t from rfl] at tr
    simp only [hb] at hs
    cases hph : phaseAt s.hd t <;> rw [hph] at hrun tr <;> simp only [RunD] at hrun
    case wAlloc =>
      obtain ⟨v, rfl, hpub⟩ := hrun
      simp only [PhaseTr] at tr
      obtain ⟨hp', ho⟩ := tr
      subst ho
      have hi := not_idle_of_phase hp' (by intro h; cases h)
      simp only [hi, recordAlloc, dropsOf, Bool.false_eq_true, if_false, Option.some.injEq, Prod.mk.injEq] at hs
      obtain ⟨rfl, rfl⟩ := hs
      exact .runDAlloc v res hd' hpc (hmv_of mv rfl rfl rfl rfl hph hp')
    case wSwap n =>
      obtain ⟨rfl, _⟩ := hrun
      simp only [PhaseTr] at tr
      obtain ⟨hp', ho⟩ := tr
      subst ho
      have hi := not_idle_of_phase hp' (by intro h; cases h)
      simp only [hi, recordAlloc_none, dropsOf, Bool.false_eq_true, if_false, Option.some.injEq, Prod.mk.injEq] at hs
      obtain ⟨rfl, rfl⟩ := hs
      exact .runDSwap n res hd' hpc (hmv_of mv rfl rfl rfl rfl hph hp')
    case wWait old =>
      subst hrun
      obtain ⟨hp', hben⟩ := benign_of_wait tr
      have hi : (hlPc hd' t == .idle) = false := by
        rcases hp' with h | h
        · exact not_idle_of_phase h (by intro h; cases h)
        · exact not_idle_of_phase h (by intro h; cases h)
      have hdr : dropsOf s o = [] := by
        cases o <;> simp [Obs.benign] at hben <;> rfl
      simp only [hi, hdr, recordAlloc_none, Bool.false_eq_true, if_false, Option.some.injEq, Prod.mk.injEq] at hs
      obtain ⟨rfl, rfl⟩ := hs
      exact .runDWait old res hd' _ o hpc (hmv_of mv rfl rfl rfl rfl hph rfl) hp' hben
    case wFree old =>
      subst hrun
      simp only [PhaseTr] at tr
      obtain ⟨hp', ho⟩ := tr
      subst ho
      have hi := not_idle_of_phase hp' (by intro h; cases h)
      simp only [hi, recordAlloc_none, dropsOf, Bool.false_eq_true, if_false, Option.some.injEq, Prod.mk.injEq] at hs
      obtain ⟨rfl, rfl⟩ := hs
      exact .runDFree old res hd' hpc (hmv_of mv rfl rfl rfl rfl hph hp')
    case wUnlock =>
      subst hrun
      simp only [PhaseTr] at tr
      obtain ⟨hp', b, ho⟩ := tr
      subst ho
      have hi := (hlPc_idle_iff hd' t).2 hp'
      simp only [hi, recordAlloc_none, dropsOf, beq_self_eq_true, if_true, Option.some.injEq, Prod.mk.injEq] at hs
      obtain ⟨rfl, rfl⟩ := hs
      exact .runDUnlock res hd' b hpc (hmv_of mv rfl rfl rfl rfl hph hp')

/-- **every step of the model is one of the listed moves** -/
theorem step6_of (hI : Inv6 env s) (hth : s.threads[t]? = some th)
    (hs : step env ye s t = some (s', out)) : Step6 env s t th s' out := by
  cases hpc : th.pc with
  | idle => exact s6_idle hth hpc hs
  | dFb sig => exact s6_dFb hI hth hpc hs
  | dData sig => exact s6_dData hI hth hpc hs
  | dPlan sig pv tags => exact s6_dPlan hI hth hpc hs
  | dRelF sig => exact s6_dRelF hI hth hpc hs
  | mLockD op => exact s6_mLockD hI hth hpc hs
  | mLoadD op => exact s6_mLoadD hI hth hpc hs
  | mRunD new res => exact s6_mRunD hI hth hpc hs
  | mUnlockD res drops => exact s6_mUnlockD hI hth hpc hs
  | mLockF sig tag new res => exact s6_mLockF hI hth hpc hs
  | mLoadF sig tag new res => exact s6_mLoadF hI hth hpc hs
  | mQuery sig tag new res => exact s6_mQuery hth hpc hs
  | mRunF sig tag fb new res => exact s6_mRunF hI hth hpc hs
  | mUnlockF res drops => exact s6_mUnlockF hI hth hpc hs
  | mSet sig tag new res => exact s6_mSet hth hpc hs

end
end SigHook.RegConc
