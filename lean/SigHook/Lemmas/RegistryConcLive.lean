import SigHook.Lemmas.RegistryConcHand
/-! Enabledness: which steps of the concurrent registry can ever be refused. -/
namespace SigHook.RegConc
open SigHook.Registry (Disp Slot Env lookup update btInsert btRemove prevCalled)
open SigHook.HalfLock (Phase phaseAt pcAt Obs)

theorem hl_enabled_nonidle (ye : Nat) (h : HalfLock.Sys) (t : Nat) (hp : phaseAt h t ≠ .idle) :
    ∃ h' o, HalfLock.step ye h t = some (h', o) := by
  unfold phaseAt pcAt at hp
  cases hth : h.threads[t]? with
  | none => simp [hth, HalfLock.Pc.phase] at hp
  | some th =>
    simp only [hth] at hp
    exact HalfLock.step_enabled ye h t th hth (Or.inl (fun e => hp (by rw [e]; rfl)))

theorem hl_enabled_nonidle_ns (ye : Nat) (h : HalfLock.Sys) (t na : Nat) (hp : phaseAt h t ≠ .idle) :
    ∃ h' o, HalfLock.step ye { h with nextSnap := na } t = some (h', o) :=
  hl_enabled_nonidle ye { h with nextSnap := na } t hp

theorem hlBegin_read_enabled (ye : Nat) (h : HalfLock.Sys) (t : Nat) (ht : t < h.threads.length) (u : Nat) :
    ∃ h' o, hlBegin ye h t (.read u) = some (h', o) := by
  unfold hlBegin
  have : h.threads[t]? = some h.threads[t] := List.getElem?_eq_getElem ht
  simp only [this]
  apply HalfLock.step_enabled ye _ t { h.threads[t] with script := [.read u] } (by simp [ht])
  exact Or.inr (Or.inl ⟨u, [], rfl⟩)

theorem hlBegin_write_enabled (ye : Nat) (h : HalfLock.Sys) (t : Nat) (ht : t < h.threads.length) (st b : Bool)
    (hm : h.mutexOwner = none) : ∃ h' o, hlBegin ye h t (.write st b) = some (h', o) := by
  unfold hlBegin
  have : h.threads[t]? = some h.threads[t] := List.getElem?_eq_getElem ht
  simp only [this]
  apply HalfLock.step_enabled ye _ t { h.threads[t] with script := [.write st b] } (by simp [ht])
  exact Or.inr (Or.inr ⟨st, b, [], rfl, hm⟩)

/-- whoever is inside `race_fallback`'s writer section is also inside `data`'s: the lock order -/
theorem hf_crit_hd_crit {env : Env} {s : Sys} (hI : Inv6 env s) {j : Nat} {thj : Thread}
    (hj : s.threads[j]? = some thj) (hc : Phase.crit (phaseAt s.hf j) = true) :
    Phase.crit (phaseAt s.hd j) = true := by
  have h := hI.coh j thj hj
  cases hpc : thj.pc <;> rw [hpc] at h <;> simp only [CohT] at h
  case idle => rw [h.2] at hc; cases hc
  case dFb => rcases h.2 with e | e <;> (rw [e] at hc; cases hc)
  case dData => obtain ⟨_, p, e⟩ := h; rw [e] at hc; cases hc
  case dPlan => obtain ⟨_, p, e⟩ := h; rw [e] at hc; cases hc
  case dRelF => obtain ⟨_, p, e⟩ := h; rw [e] at hc; cases hc
  case mLockD => rw [h.2] at hc; cases hc
  case mLoadD => rw [h.2] at hc; cases hc
  case mRunD => rw [h.2] at hc; cases hc
  case mUnlockD => rw [h.2] at hc; cases hc
  case mLockF => rw [h.2.2] at hc; cases hc
  case mLoadF => rw [h.2.1]; exact stPhase_crit _
  case mQuery => rw [h.2.1]; exact stPhase_crit _
  case mRunF => rw [h.2.2.1]; exact stPhase_crit _
  case mUnlockF => rw [h.1]; rfl
  case mSet => rw [h.2.2.2] at hc; cases hc

/-- the owner recorded for a writer mutex is one of the threads -/
def OwnOk (s : Sys) (n : Nat) : Prop :=
  (∀ j, s.hd.mutexOwner = some j → j < n) ∧ (∀ j, s.hf.mutexOwner = some j → j < n)

theorem own_mv {h h' : HalfLock.Sys} {t n : Nat} {p p' : Phase} {o : Obs} (mv : HMv h h' t p p' o) (ht : t < n)
    (ok : ∀ j, h.mutexOwner = some j → j < n) : ∀ j, h'.mutexOwner = some j → j < n := by
  intro j hj
  rw [mv.owner] at hj
  cases o <;> simp only [Obs.newOwner] at hj <;> first | exact ok j hj | (injection hj with hj; omega) | cases hj

theorem ownok_step {env : Env} {s s' : Sys} {t n : Nat} {th : Thread} {out : StepOut}
    (h6 : Step6 env s t th s' out) (ht : t < n) (ok : OwnOk s n) : OwnOk s' n := by
  cases h6 <;> first
    | exact ok
    | exact ⟨own_mv (by assumption) ht ok.1, ok.2⟩
    | exact ⟨ok.1, own_mv (by assumption) ht ok.2⟩

theorem ownok_reachable {env : Env} {ye : Nat} {disp : List (Int × Disp)} {scripts : List (List Op)} {s : Sys}
    (h : Reachable env ye disp scripts s) : OwnOk s scripts.length ∧ s.threads.length = scripts.length := by
  induction h with
  | init => exact ⟨⟨(by intro j h; cases h), (by intro j h; cases h)⟩, (by simp [Sys.init])⟩
  | @step s0 s1 t out hr hs ih =>
    have hI := inv6_reachable hr
    cases hth : s0.threads[t]? with
    | none => unfold step at hs; simp [hth] at hs
    | some th =>
      have ht := (List.getElem?_eq_some_iff.1 hth).1
      have h6 := step6_of hI hth hs
      refine ⟨ownok_step h6 (by rw [← ih.2]; exact ht) ih.1, ?_⟩
      obtain ⟨th', e⟩ := (step6_frame h6).threads
      rw [e]; simp [ih.2]

/-- `race_fallback`'s writer mutex is always free when a first registration asks for it: it is
only ever taken inside `data`'s writer section (the lock order) -/
theorem hf_mutex_free {env : Env} {s : Sys} (hI : Inv6 env s) (ok : OwnOk s s.threads.length) {t : Nat} {th : Thread}
    (hth : s.threads[t]? = some th) {sig : Int} {tag : Nat} {new : SigData} {res : Ret}
    (hpc : th.pc = .mLockF sig tag new res) : s.hf.mutexOwner = none := by
  cases hm : s.hf.mutexOwner with
  | none => rfl
  | some j =>
    exfalso
    have hjlt : j < s.threads.length := ok.2 j hm
    have hjltF : j < s.hf.threads.length := by rw [hI.emb.lenF]; exact hjlt
    have hjc : Phase.crit (phaseAt s.hf j) = true := by
      unfold phaseAt pcAt
      rw [List.getElem?_eq_getElem hjltF]
      simp only
      rw [← crit_phase]
      exact (hI.emb.hf.mutex j hjltF).2 hm
    have hthj : s.threads[j]? = some s.threads[j] := List.getElem?_eq_getElem hjlt
    have hjd := hf_crit_hd_crit hI hthj hjc
    have htd := crit_of_pc hI hth (by rw [hpc]; rfl)
    have := crit_unique hI.emb.hd hjd htd
    subst this
    have hc := hI.coh j th hth; rw [hpc] at hc; simp only [CohT] at hc
    rw [hc.2.2] at hjc; cases hjc


theorem ne_idle_of_eq {h : HalfLock.Sys} {t : Nat} {p : Phase} (e : phaseAt h t = p) (hp : p ≠ .idle) :
    phaseAt h t ≠ .idle := by rw [e]; exact hp

/-- **the only step of the registry that can ever be refused is taking `data`'s writer mutex**
(and an idle thread with an empty script has nothing to do): deliveries, and mutators everywhere
else — including the wait loop of `write_barrier` and the nested `race_fallback` lock — can always
take their next step, whatever all other threads are doing. -/
theorem step_enabled6 {env : Env} {ye : Nat} {s : Sys} (hI : Inv6 env s) (ok : OwnOk s s.threads.length)
    {t : Nat} {th : Thread} (hth : s.threads[t]? = some th)
    (hne : th.pc ≠ .idle ∨ th.script ≠ [])
    (hl : ∀ op, th.pc = .mLockD op → s.hd.mutexOwner = none) :
    ∃ s' out, step env ye s t = some (s', out) := by
  have ht := (List.getElem?_eq_some_iff.1 hth).1
  have htD : t < s.hd.threads.length := by rw [hI.emb.lenD]; exact ht
  have htF : t < s.hf.threads.length := by rw [hI.emb.lenF]; exact ht
  have hc := hI.coh t th hth
  cases hpc : th.pc with
  | idle =>
    rcases hne with h | h
    · exact absurd hpc h
    · cases hsc : th.script with
      | nil => exact absurd hsc h
      | cons op rest =>
        unfold step; simp only [hth, hpc, hsc]
        cases op with
        | deliver sig => simp only; cases dispOf s sig <;> exact ⟨_, _, rfl⟩
        | register chk sig tag => simp only; split <;> exact ⟨_, _, rfl⟩
        | unregister sig id => exact ⟨_, _, rfl⟩
        | unregisterSignal sig => exact ⟨_, _, rfl⟩
  | dFb sig =>
    rw [hpc] at hc; simp only [CohT] at hc
    unfold step; simp only [hth, hpc]
    rcases hc.2 with hi | hp
    · obtain ⟨h', o, e⟩ := hlBegin_read_enabled ye s.hf t htF 0
      simp only [(hlPc_idle_iff s.hf t).2 hi, beq_self_eq_true, if_true, e]
      exact ⟨_, _, rfl⟩
    · obtain ⟨h', o, e⟩ := hl_enabled_nonidle ye s.hf t (ne_idle_of_eq hp (by intro h; cases h))
      simp only [not_idle_of_phase hp (by intro h; cases h), Bool.false_eq_true, if_false, e]
      exact ⟨_, _, rfl⟩
  | dData sig =>
    rw [hpc] at hc; simp only [CohT] at hc
    unfold step; simp only [hth, hpc]
    rcases hc.1 with hi | hp
    · obtain ⟨h', o, e⟩ := hlBegin_read_enabled ye s.hd t htD 0
      simp only [(hlPc_idle_iff s.hd t).2 hi, beq_self_eq_true, if_true, e]
      split <;> exact ⟨_, _, rfl⟩
    · obtain ⟨h', o, e⟩ := hl_enabled_nonidle ye s.hd t (ne_idle_of_eq hp (by intro h; cases h))
      simp only [not_idle_of_phase hp (by intro h; cases h), Bool.false_eq_true, if_false, e]
      split <;> exact ⟨_, _, rfl⟩
  | dPlan sig pv tags =>
    rw [hpc] at hc; simp only [CohT] at hc
    obtain ⟨⟨p, hp⟩, _⟩ := hc
    unfold step; simp only [hth, hpc]
    cases pv with
    | some d => exact ⟨_, _, rfl⟩
    | none =>
      cases tags with
      | cons tag rest => exact ⟨_, _, rfl⟩
      | nil =>
        obtain ⟨h', o, e⟩ := hl_enabled_nonidle ye s.hd t (ne_idle_of_eq hp (by intro h; cases h))
        simp only [e]; exact ⟨_, _, rfl⟩
  | dRelF sig =>
    rw [hpc] at hc; simp only [CohT] at hc
    obtain ⟨_, p, hp⟩ := hc
    unfold step; simp only [hth, hpc]
    obtain ⟨h', o, e⟩ := hl_enabled_nonidle ye s.hf t (ne_idle_of_eq hp (by intro h; cases h))
    simp only [e]; exact ⟨_, _, rfl⟩
  | mLockD op =>
    unfold step; simp only [hth, hpc]
    obtain ⟨h', o, e⟩ := hlBegin_write_enabled ye s.hd t htD
      (willStore env ((lookupN s.hd.data s.cd).getD SigData.empty) op) false (hl op hpc)
    simp only [e]; exact ⟨_, _, rfl⟩
  | mLoadD op =>
    rw [hpc] at hc; simp only [CohT] at hc
    unfold step; simp only [hth, hpc]
    obtain ⟨h', o, e⟩ := hl_enabled_nonidle ye s.hd t (ne_idle_of_eq hc.1 (by intro h; cases h))
    simp only [e]
    rcases plan env ((lookupN s.hd.data s.cd).getD SigData.empty) op with ⟨_ | new, res, _ | _⟩
    · exact ⟨_, _, rfl⟩
    · exact ⟨_, _, rfl⟩
    · exact ⟨_, _, rfl⟩
    · cases op <;> exact ⟨_, _, rfl⟩
  | mRunD new res =>
    rw [hpc] at hc; simp only [CohT] at hc
    have hni : phaseAt s.hd t ≠ .idle := by
      intro h; rw [h] at hc; exact hc.1
    unfold step; simp only [hth, hpc]
    obtain ⟨h', o, e⟩ := hl_enabled_nonidle_ns ye s.hd t s.nextAlloc hni
    simp only [e]; split <;> exact ⟨_, _, rfl⟩
  | mUnlockD res drops =>
    rw [hpc] at hc; simp only [CohT] at hc
    unfold step; simp only [hth, hpc]
    obtain ⟨h', o, e⟩ := hl_enabled_nonidle ye s.hd t (ne_idle_of_eq hc.1 (by intro h; cases h))
    simp only [e]; exact ⟨_, _, rfl⟩
  | mLockF sig tag new res =>
    unfold step; simp only [hth, hpc]
    obtain ⟨h', o, e⟩ := hlBegin_write_enabled ye s.hf t htF (!(env.rejectsQuery sig)) false
      (hf_mutex_free hI ok hth hpc)
    simp only [e]; exact ⟨_, _, rfl⟩
  | mLoadF sig tag new res =>
    rw [hpc] at hc; simp only [CohT] at hc
    unfold step; simp only [hth, hpc]
    obtain ⟨h', o, e⟩ := hl_enabled_nonidle ye s.hf t (ne_idle_of_eq hc.2.2 (by intro h; cases h))
    simp only [e]; exact ⟨_, _, rfl⟩
  | mQuery sig tag new res =>
    unfold step; simp only [hth, hpc]
    split <;> exact ⟨_, _, rfl⟩
  | mRunF sig tag fb new res =>
    rw [hpc] at hc; simp only [CohT] at hc
    have hni : phaseAt s.hf t ≠ .idle := by
      intro h; rw [h] at hc; exact hc.2.2.2
    unfold step; simp only [hth, hpc]
    obtain ⟨h', o, e⟩ := hl_enabled_nonidle_ns ye s.hf t s.nextAlloc hni
    simp only [e]; split <;> exact ⟨_, _, rfl⟩
  | mUnlockF res drops =>
    rw [hpc] at hc; simp only [CohT] at hc
    unfold step; simp only [hth, hpc]
    obtain ⟨h', o, e⟩ := hl_enabled_nonidle ye s.hf t (ne_idle_of_eq hc.2 (by intro h; cases h))
    simp only [e]; exact ⟨_, _, rfl⟩
  | mSet sig tag new res =>
    unfold step; simp only [hth, hpc]
    split <;> exact ⟨_, _, rfl⟩


/-- whoever holds `data`'s writer mutex is a mutator between its lock and its unlock -/
theorem hd_crit_pc {env : Env} {s : Sys} (hI : Inv6 env s) {j : Nat} {thj : Thread}
    (hj : s.threads[j]? = some thj) (hc : Phase.crit (phaseAt s.hd j) = true) : critPc thj.pc = true := by
  have h := hI.coh j thj hj
  cases hpc : thj.pc <;> rw [hpc] at h <;> simp only [CohT] at h <;> try rfl
  case idle => rw [h.1] at hc; cases hc
  case dFb => rw [h.1] at hc; cases hc
  case dData => rcases h.1 with e | e <;> (rw [e] at hc; cases hc)
  case dPlan => obtain ⟨⟨p, e⟩, _⟩ := h; rw [e] at hc; cases hc
  case dRelF => rw [h.1] at hc; cases hc
  case mLockD => rw [h.1] at hc; cases hc

/-- **no deadlock at registry level**: in every reachable state in which some thread still has
something to do, some thread can take a step. -/
theorem no_deadlock6 {env : Env} {ye : Nat} {s : Sys} (hI : Inv6 env s) (ok : OwnOk s s.threads.length)
    {t : Nat} {th : Thread} (hth : s.threads[t]? = some th) (hne : th.pc ≠ .idle ∨ th.script ≠ []) :
    ∃ t' s' out, step env ye s t' = some (s', out) := by
  by_cases hl : ∀ op, th.pc = .mLockD op → s.hd.mutexOwner = none
  · obtain ⟨s', out, e⟩ := step_enabled6 (ye := ye) hI ok hth hne hl
    exact ⟨t, s', out, e⟩
  · -- `t` waits for `data`'s mutex: its owner can move
    have : ∃ op, th.pc = .mLockD op ∧ s.hd.mutexOwner ≠ none := by
      apply Classical.byContradiction
      intro hno
      apply hl
      intro op hop
      apply Classical.byContradiction
      intro hm
      exact hno ⟨op, hop, hm⟩
    obtain ⟨op, _, hm⟩ := this
    cases hmo : s.hd.mutexOwner with
    | none => exact absurd hmo hm
    | some j =>
      have hjlt : j < s.threads.length := ok.1 j hmo
      have hjltD : j < s.hd.threads.length := by rw [hI.emb.lenD]; exact hjlt
      have hjc : Phase.crit (phaseAt s.hd j) = true := by
        unfold phaseAt pcAt
        rw [List.getElem?_eq_getElem hjltD]
        simp only
        rw [← crit_phase]
        exact (hI.emb.hd.mutex j hjltD).2 hmo
      have hthj : s.threads[j]? = some s.threads[j] := List.getElem?_eq_getElem hjlt
      have hcp := hd_crit_pc hI hthj hjc
      obtain ⟨s', out, e⟩ := step_enabled6 (ye := ye) hI ok hthj
        (Or.inl (by intro h; rw [h] at hcp; cases hcp))
        (by intro op' h; rw [h] at hcp; cases hcp)
      exact ⟨j, s', out, e⟩

end SigHook.RegConc
