import SigHook.Lemmas.RegistryConcPlan
/-! Handover of a pre-existing handler (C04): the disposition the library replaced is recorded —
first in `race_fallback`, then in the signal's slot — from the instant the library's handler is
installed, and every delivery chains exactly that one. -/
namespace SigHook.RegConc
open SigHook.Registry (Disp Slot Env lookup update btInsert btRemove prevCalled)
open SigHook.HalfLock (Phase phaseAt pcAt Obs)

theorem curF_hf {s : Sys} {hf' : HalfLock.Sys} {t : Nat} {th' : Thread} (e : hf'.data = s.hf.data) :
    curF (setT { s with hf := hf' } t th') = curF s := by
  show (lookupN hf'.data s.cf).getD none = curF s
  rw [e]; rfl

/-- `race_fallback`'s current contents change only at the swap of a first registration's store -/
theorem curF_step {env : Env} {s s' : Sys} {t : Nat} {th : Thread} {out : StepOut}
    (hI : Inv6 env s) (h6 : Step6 env s t th s' out) :
    curF s' = curF s ∨
    (∃ sig tag new res n, th.pc = .mRunF sig tag none new res ∧ phaseAt s.hf t = .wSwap n ∧
      curF s' = (lookupN n s.cf).getD none) := by
  cases h6 with
  | runFSwap sig tag new res n hf' hpc mv =>
    right
    refine ⟨sig, tag, new, res, n, hpc, mv.before, ?_⟩
    show (lookupN hf'.data s.cf).getD none = _
    rw [mv.data]; rfl
  | runFAlloc sig tag v new res hf' hpc mv =>
    left
    have hdl := hI.emb.hf.fresh _ hI.emb.hf.dataLive
    have hna := hI.emb.naF
    show (lookupN hf'.data ((s.nextAlloc, v) :: s.cf)).getD none = curF s
    rw [mv.data]
    show (lookupN s.hf.data ((s.nextAlloc, v) :: s.cf)).getD none = curF s
    rw [lookupN_cons_ne _ _ _ _ (by omega)]; rfl
  | runFWait sig tag new res old hf' p' o hpc mv hp' hben =>
    left; exact curF_hf (by rw [mv.data]; exact benign_not_swap hben _)
  | fbStep sig hf' p o hpc mv hp ho =>
    left
    rcases ho with ⟨v, rfl⟩ | ⟨l, v, rfl⟩
    · exact curF_hf (by rw [mv.data]; rfl)
    · exact curF_hf (by rw [mv.data]; rfl)
  | fbPin sig hf' hpc mv => left; exact curF_hf (by rw [mv.data]; rfl)
  | relF sig hf' p l v hpc mv => left; exact curF_hf (by rw [mv.data]; rfl)
  | lockF sig tag new res hf' b hpc hmo mv => left; exact curF_hf (by rw [mv.data]; rfl)
  | loadF sig tag new res hf' hpc mv => left; exact curF_hf (by rw [mv.data]; rfl)
  | runFFree sig tag new res old hf' hpc mv => left; exact curF_hf (by rw [mv.data]; rfl)
  | runFUnlock sig tag new res hf' b hpc mv => left; exact curF_hf (by rw [mv.data]; rfl)
  | unlockF res drops hf' b hpc mv => left; exact curF_hf (by rw [mv.data]; rfl)
  | _ => left; rfl

/-- the disposition table changes only when a first registration installs the library's handler -/
theorem disp_step {env : Env} {s s' : Sys} {t : Nat} {th : Thread} {out : StepOut}
    (h6 : Step6 env s t th s' out) :
    s'.disp = s.disp ∨ (∃ sig tag new res, th.pc = .mSet sig tag new res ∧ env.rejectsSet sig = false ∧
      s'.disp = update sig (.lib env.libFlags) s.disp) := by
  cases h6 with
  | setOk sig tag new res hpc hr => right; exact ⟨sig, tag, new, res, hpc, hr, rfl⟩
  | _ => left; rfl

/-- one step of the sequential specification never removes a slot nor changes its recorded
previous disposition -/
theorem pub_keeps {env : Env} {c v : SigData} {res : Ret} (hp : Pub env c v res) {sig : Int} {slot : Slot}
    (hs : lookup sig c.signals = some slot) :
    ∃ slot', lookup sig v.signals = some slot' ∧ slot'.prev = slot.prev := by
  rcases hp with ⟨op, hp⟩ | ⟨chk, sg, tag, prev, hp, _, _, rfl⟩
  · cases op with
    | register chk sg tag =>
      simp only [plan] at hp
      cases hl : lookup sg c.signals with
      | none => simp [hl] at hp
      | some sl =>
        simp only [hl] at hp
        split at hp
        · cases hp
        · simp only [Prod.mk.injEq, Option.some.injEq] at hp
          obtain ⟨rfl, _⟩ := hp
          simp only [Registry.lookup_update]
          split
          · rename_i he; subst he; rw [hl] at hs; injection hs with hs; subst hs; exact ⟨_, rfl, rfl⟩
          · exact ⟨slot, hs, rfl⟩
    | unregister sg id =>
      simp only [plan] at hp
      cases hl : lookup sg c.signals with
      | none => simp [hl] at hp
      | some sl =>
        simp only [hl] at hp
        split at hp
        · simp only [Prod.mk.injEq, Option.some.injEq] at hp
          obtain ⟨rfl, _⟩ := hp
          simp only [Registry.lookup_update]
          split
          · rename_i he; subst he; rw [hl] at hs; injection hs with hs; subst hs; exact ⟨_, rfl, rfl⟩
          · exact ⟨slot, hs, rfl⟩
        · cases hp
    | unregisterSignal sg =>
      simp only [plan] at hp
      cases hl : lookup sg c.signals with
      | none => simp [hl] at hp
      | some sl =>
        simp only [hl] at hp
        split at hp
        · cases hp
        · simp only [Prod.mk.injEq, Option.some.injEq] at hp
          obtain ⟨rfl, _⟩ := hp
          simp only [Registry.lookup_update]
          split
          · rename_i he; subst he; rw [hl] at hs; injection hs with hs; subst hs; exact ⟨_, rfl, rfl⟩
          · exact ⟨slot, hs, rfl⟩
    | deliver sg => simp [plan] at hp
  · -- first registration of `sg`: it has no slot in `c`, so `sig ≠ sg`
    have hne : sg ≠ sig := by
      intro he; subst he
      simp only [plan] at hp
      cases hl : lookup sg c.signals with
      | none => rw [hl] at hs; cases hs
      | some sl => simp only [hl] at hp; split at hp <;> simp at hp
    refine ⟨slot, ?_, rfl⟩
    simp only [Registry.lookup_update, hne, if_false]
    exact hs


/-- the disposition recorded as "what the library replaced" for `sig`: the slot's `prev`, or,
while the first registration has not published the slot yet, what `race_fallback` holds -/
def origDisp (s : Sys) (sig : Int) : Option Disp :=
  match lookup sig (cur s).signals with
  | some slot => some slot.prev
  | none =>
    match curF s with
    | some (sg, P) => if sg = sig then some P else none
    | none => none

/-- the contents a storing mutator is about to publish -/
def PendVal (s : Sys) (t : Nat) (new : Option SigData) : Option SigData :=
  match phaseAt s.hd t with
  | .wAlloc => new
  | .wSwap n => lookupN n s.cd
  | _ => none

/-- `sig`'s slot is on its way: a first registration has stored the fallback and installed the
handler and is about to publish contents that include the slot -/
def Pending (s : Sys) (sig : Int) : Prop :=
  ∃ (t : Nat) (th : Thread) (new : Option SigData) (res : Ret) (v : SigData) (slot : Slot),
    s.threads[t]? = some th ∧ th.pc = .mRunD new res ∧ PendVal s t new = some v ∧
    lookup sig v.signals = some slot ∧ curF s = some (sig, slot.prev)

def HandF (s : Sys) (sig : Int) (fb : Option (Option (Int × Disp))) : Phase → Prop
  | .wAlloc => fb = some (some (sig, dispOf s sig))
  | .wSwap n => lookupN n s.cf = some (some (sig, dispOf s sig))
  | _ => curF s = some (sig, dispOf s sig)

def HandT (s : Sys) (t : Nat) : Pc → Prop
  | .mRunF sig _ fb _ _ => HandF s sig fb (phaseAt s.hf t)
  | .mSet sig _ _ _ => curF s = some (sig, dispOf s sig)
  | .dData sig => ∃ pf, phaseAt s.hf t = .rHold pf 0 ∧
      ((lookup sig (cur s).signals).isSome = true ∨ lookupN pf s.cf = some (curF s))
  | .dPlan sig pv _ => pv = none ∨ pv = (origDisp s sig).bind prevCalled
  | _ => True

structure Inv7b (s : Sys) : Prop where
  hand : ∀ (t : Nat) (th : Thread), s.threads[t]? = some th → HandT s t th.pc
  over : ∀ (sig : Int) (f : Nat), dispOf s sig = .lib f →
    (lookup sig (cur s).signals).isSome = true ∨ Pending s sig

/-- L6 program counters of a thread inside the writer section of `data` -/
def critPc : Pc → Bool
  | .mLoadD _ | .mRunD .. | .mUnlockD .. | .mLockF .. | .mLoadF .. | .mQuery .. | .mRunF .. | .mUnlockF ..
  | .mSet .. => true
  | _ => false

theorem crit_of_pc {env : Env} {s : Sys} (hI : Inv6 env s) {t : Nat} {th : Thread}
    (hth : s.threads[t]? = some th) (hc : critPc th.pc = true) : Phase.crit (phaseAt s.hd t) = true := by
  have h := hI.coh t th hth
  cases hpc : th.pc <;> rw [hpc] at h hc <;> simp only [critPc] at hc <;> simp only [CohT] at h <;>
    try (cases hc)
  · rw [h.1]; rfl
  · obtain ⟨hr, _⟩ := h
    cases hp : phaseAt s.hd t <;> rw [hp] at hr <;> simp only [RunD] at hr <;> first | rfl | exact hr.elim
  · rw [h.1]; rfl
  · rw [h.2.1]; exact stPhase_crit _
  · rw [h.2.1]; exact stPhase_crit _
  · rw [h.2.1]; exact stPhase_crit _
  · rw [h.2.2.1]; exact stPhase_crit _
  · rw [h.1]; rfl
  · rw [h.2.2.1]; exact stPhase_crit _

/-- a pending slot belongs to the one thread inside `data`'s writer section -/
theorem pending_owner {env : Env} {s : Sys} (hI : Inv6 env s) {sig : Int} (hp : Pending s sig)
    {t : Nat} (ht : Phase.crit (phaseAt s.hd t) = true) :
    ∃ th new res v slot, s.threads[t]? = some th ∧ th.pc = .mRunD new res ∧ PendVal s t new = some v ∧
      lookup sig v.signals = some slot ∧ curF s = some (sig, slot.prev) := by
  obtain ⟨j, thj, new, res, v, slot, h1, h2, h3, h4, h5⟩ := hp
  have hcj : Phase.crit (phaseAt s.hd j) = true := crit_of_pc hI h1 (by rw [h2]; rfl)
  have := crit_unique hI.emb.hd hcj ht
  subst this
  exact ⟨thj, new, res, v, slot, h1, h2, h3, h4, h5⟩

theorem origDisp_slot {s : Sys} {sig : Int} {slot : Slot} (h : lookup sig (cur s).signals = some slot) :
    origDisp s sig = some slot.prev := by simp [origDisp, h]

theorem origDisp_pending {s : Sys} {sig : Int} {P : Disp} (h1 : lookup sig (cur s).signals = none)
    (h2 : curF s = some (sig, P)) : origDisp s sig = some P := by simp [origDisp, h1, h2]

theorem isSome_iff_exists {α} (o : Option α) : o.isSome = true ↔ ∃ x, o = some x := by
  cases o <;> simp


theorem slot_stable {env : Env} {s s' : Sys} {t : Nat} {th : Thread} {out : StepOut}
    (hI : Inv6 env s) (hth : s.threads[t]? = some th) (h6 : Step6 env s t th s' out) {sig : Int} {slot : Slot}
    (hs : lookup sig (cur s).signals = some slot) :
    ∃ slot', lookup sig (cur s').signals = some slot' ∧ slot'.prev = slot.prev := by
  rcases cur_step hI hth h6 with ⟨e, _⟩ | ⟨n, res, _, _, hpub, _, _⟩
  · rw [e]; exact ⟨slot, hs, rfl⟩
  · exact pub_keeps hpub hs

/-- the moves of a thread that is storing to `data` -/
theorem step6_inv_mRunD {env : Env} {s s' : Sys} {t : Nat} {th : Thread} {out : StepOut}
    (h6 : Step6 env s t th s' out) {new : Option SigData} {res : Ret} (hpc : th.pc = .mRunD new res) :
    (∃ v hd', new = some v ∧ HMv s.hd hd' t .wAlloc (.wSwap s.nextAlloc) (.alloc s.nextAlloc) ∧
      s' = setT { s with hd := hd', cd := (s.nextAlloc, v) :: s.cd, nextAlloc := s.nextAlloc + 1 } t
        { th with pc := .mRunD none res }) ∨
    (∃ n hd', new = none ∧ HMv s.hd hd' t (.wSwap n) (.wWait s.hd.data) (.swap "data" n s.hd.data) ∧
      s' = setT { s with hd := hd' } t { th with pc := .mRunD none res }) ∨
    (∃ hd' p p' o, new = none ∧ HMv s.hd hd' t p p' o ∧ (∀ n, p ≠ .wSwap n) ∧ p ≠ .wAlloc ∧
      hd'.data = s.hd.data ∧ s'.hf = s.hf ∧ s'.cd = s.cd ∧ s'.cf = s.cf ∧ s'.disp = s.disp ∧ s'.hd = hd') := by
  cases h6 with
  | runDAlloc v res' hd' hpc' mv =>
    rw [hpc] at hpc'; injection hpc' with h1 h2; subst h1; subst h2
    exact Or.inl ⟨v, hd', rfl, mv, rfl⟩
  | runDSwap n res' hd' hpc' mv =>
    rw [hpc] at hpc'; injection hpc' with h1 h2; subst h1; subst h2
    exact Or.inr (Or.inl ⟨n, hd', rfl, mv, rfl⟩)
  | runDWait old res' hd' p' o hpc' mv hp' hben =>
    rw [hpc] at hpc'; injection hpc' with h1 h2; subst h1; subst h2
    exact Or.inr (Or.inr ⟨hd', _, _, _, rfl, mv, (by intro n h; cases h), (by intro h; cases h),
      (by rw [mv.data]; exact benign_not_swap hben _), rfl, rfl, rfl, rfl, rfl⟩)
  | runDFree old res' hd' hpc' mv =>
    rw [hpc] at hpc'; injection hpc' with h1 h2; subst h1; subst h2
    exact Or.inr (Or.inr ⟨hd', _, _, _, rfl, mv, (by intro n h; cases h), (by intro h; cases h),
      (by rw [mv.data]; rfl), rfl, rfl, rfl, rfl, rfl⟩)
  | runDUnlock res' hd' b hpc' mv =>
    rw [hpc] at hpc'; injection hpc' with h1 h2; subst h1; subst h2
    exact Or.inr (Or.inr ⟨hd', _, _, _, rfl, mv, (by intro n h; cases h), (by intro h; cases h),
      (by rw [mv.data]; rfl), rfl, rfl, rfl, rfl, rfl⟩)
  | _ => simp_all


/-- a step of a thread outside `data`'s writer section publishes nothing and records nothing -/
theorem quiet_of_noncrit {env : Env} {s s' : Sys} {t : Nat} {th : Thread} {out : StepOut}
    (hI : Inv6 env s) (hth : s.threads[t]? = some th) (h6 : Step6 env s t th s' out)
    (hn : critPc th.pc = false) :
    cur s' = cur s ∧ curF s' = curF s ∧ s'.disp = s.disp ∧ s'.cd = s.cd ∧ s'.cf = s.cf := by
  refine ⟨?_, ?_, ?_, ?_⟩
  · rcases cur_step hI hth h6 with ⟨e, _⟩ | ⟨n, res, _, hpc, _⟩
    · exact e
    · rw [hpc] at hn; cases hn
  · rcases curF_step hI h6 with e | ⟨sig, tag, new, res, n, hpc, _⟩
    · exact e
    · rw [hpc] at hn; cases hn
  · rcases disp_step h6 with e | ⟨sig, tag, new, res, hpc, _⟩
    · exact e
    · rw [hpc] at hn; cases hn
  · cases h6 <;> first | exact ⟨rfl, rfl⟩ | (simp_all [critPc])

theorem noncrit_of_other {env : Env} {s : Sys} (hI : Inv6 env s) {t j : Nat} {th : Thread}
    (hth : s.threads[t]? = some th) (hj : Phase.crit (phaseAt s.hd j) = true) (hne : j ≠ t) :
    critPc th.pc = false := by
  cases h : critPc th.pc with
  | false => rfl
  | true => exact absurd (crit_unique hI.emb.hd hj (crit_of_pc hI hth h)) hne

theorem dispOf_congr {s s' : Sys} (h : s'.disp = s.disp) (sig : Int) : dispOf s' sig = dispOf s sig := by
  unfold dispOf; rw [h]

/-- **handover, global part**: a signal whose disposition is the library's handler has its slot
published or on its way -/
theorem over_step {env : Env} {s s' : Sys} {t : Nat} {th : Thread} {out : StepOut}
    (hI : Inv6 env s) (h7b : Inv7b s) (hth : s.threads[t]? = some th) (h6 : Step6 env s t th s' out)
    (sig : Int) (f : Nat) (hl' : dispOf s' sig = .lib f) :
    (lookup sig (cur s').signals).isSome = true ∨ Pending s' sig := by
  have ht := (List.getElem?_eq_some_iff.1 hth).1
  have fr := step6_frame h6
  -- what held before for a signal that already had the library's handler
  have old : ∀ f0, dispOf s sig = .lib f0 →
      (lookup sig (cur s').signals).isSome = true ∨ Pending s' sig := by
    intro f0 hl
    rcases h7b.over sig f0 hl with hs | hp
    · left
      obtain ⟨slot, hs⟩ := (isSome_iff_exists _).1 hs
      obtain ⟨slot', h, _⟩ := slot_stable hI hth h6 hs
      rw [h]; rfl
    · obtain ⟨j, thj, new, res, v, slot, h1, h2, h3, h4, h5⟩ := hp
      have hcj : Phase.crit (phaseAt s.hd j) = true := crit_of_pc hI h1 (by rw [h2]; rfl)
      by_cases hj : j = t
      · subst hj
        rw [hth] at h1; injection h1 with h1; subst h1
        rcases step6_inv_mRunD h6 h2 with ⟨v', hd', rfl, mv, rfl⟩ | ⟨n, hd', rfl, mv, rfl⟩ |
          ⟨hd', p, p', o, rfl, mv, hp1, hp2, _⟩
        · -- allocation: still pending, now recorded
          right
          have hv : v' = v := by
            simp only [PendVal, mv.before] at h3; injection h3
          subst hv
          refine ⟨j, _, none, res, v', slot, setT_get _ _ _ (by simpa using ht), rfl, ?_, h4, h5⟩
          show PendVal _ j none = some v'
          have : phaseAt (setT { s with hd := hd', cd := (s.nextAlloc, v') :: s.cd, nextAlloc := s.nextAlloc + 1 } j
              { th with pc := .mRunD none res }).hd j = .wSwap s.nextAlloc := mv.after
          simp only [PendVal, this]
          exact lookupN_cons_self _ _ _
        · -- publication: the slot is current now
          left
          have hv : lookupN n s.cd = some v := by
            simp only [PendVal, mv.before] at h3; exact h3
          have : cur (setT { s with hd := hd' } j { th with pc := .mRunD none res }) = v := by
            show (lookupN hd'.data s.cd).getD SigData.empty = v
            rw [mv.data]; simp [Obs.newData, hv]
          rw [this, h4]; rfl
        · -- past the swap there is nothing pending
          exfalso
          simp only [PendVal, mv.before] at h3
          cases p <;> simp at h3 <;> first | exact hp2 rfl | exact hp1 _ rfl
      · -- another thread's step: it is outside the writer section, everything stays
        have hn := noncrit_of_other hI hth hcj hj
        obtain ⟨e1, e2, e3, e4, e5⟩ := quiet_of_noncrit hI hth h6 hn
        right
        refine ⟨j, thj, new, res, v, slot, by rw [fr.other hj]; exact h1, h2, ?_, h4, by rw [e2]; exact h5⟩
        simp only [PendVal] at h3 ⊢
        rw [fr.phD j hj, e4]; exact h3
  rcases disp_step h6 with hd | ⟨sig0, tag, new, res, hpc, hr, hd⟩
  · exact old f (by rw [← dispOf_congr hd]; exact hl')
  · -- the library's handler is being installed for `sig0` by `t`
    by_cases he : sig0 = sig
    · subst he
      right
      cases h6 with
      | setOk sg tag' new' res' hpc' hr' =>
        rw [hpc] at hpc'; injection hpc' with a b c d; subst a; subst b; subst c; subst d
        have hc := hI.coh t th hth; rw [hpc] at hc; simp only [CohT] at hc
        obtain ⟨hfirst, hq, hcD, hcF⟩ := hc
        have hF := h7b.hand t th hth; rw [hpc] at hF; simp only [HandT] at hF
        simp only [wsF, hq, hr, Bool.not_false, Bool.and_self, stPhase, if_true] at hcD
        refine ⟨t, _, _, res, withSlot new sig0 (dispOf s sig0) res.idOr0 tag,
          { prev := dispOf s sig0, actions := [(res.idOr0, tag)] }, setT_get _ _ _ (by simpa using ht), rfl, ?_, ?_, hF⟩
        · show PendVal _ t _ = _
          have : phaseAt (setT { s with disp := update sig0 (.lib env.libFlags) s.disp } t
              { th with pc := .mRunD (some (withSlot new sig0 (dispOf s sig0) res.idOr0 tag)) res }).hd t = .wAlloc := hcD
          simp only [PendVal, this]
        · simp [withSlot, Registry.lookup_update_self]
      | _ => simp_all
    · have hl : dispOf s sig = .lib f := by
        have := dispOf_update s sig0 sig (.lib env.libFlags) s' hd
        rw [this] at hl'; simpa [he] using hl'
      exact old f hl


/-- **the recorded original disposition never changes** once the library's handler is installed -/
theorem origDisp_stable {env : Env} {s s' : Sys} {t : Nat} {th : Thread} {out : StepOut}
    (hI : Inv6 env s) (h7b : Inv7b s) (hth : s.threads[t]? = some th) (h6 : Step6 env s t th s' out)
    (sig : Int) (f : Nat) (hl : dispOf s sig = .lib f) : origDisp s' sig = origDisp s sig := by
  cases hs : lookup sig (cur s).signals with
  | some slot =>
    obtain ⟨slot', h, hp⟩ := slot_stable hI hth h6 hs
    rw [origDisp_slot h, origDisp_slot hs, hp]
  | none =>
    rcases h7b.over sig f hl with h | hp
    · rw [hs] at h; cases h
    · obtain ⟨j, thj, new, res, v, slot, h1, h2, h3, h4, h5⟩ := hp
      have hcj : Phase.crit (phaseAt s.hd j) = true := crit_of_pc hI h1 (by rw [h2]; rfl)
      rw [origDisp_pending hs h5]
      rcases cur_step hI hth h6 with ⟨e, _⟩ | ⟨n, res', _, hpc, _, hph, hv⟩
      · -- nothing published: the fallback is unchanged too
        have hF : curF s' = curF s := by
          rcases curF_step hI h6 with e | ⟨sg, tag, nw, rs, n, hpc, _⟩
          · exact e
          · exfalso
            have hct := crit_of_pc hI hth (by rw [hpc]; rfl)
            have := crit_unique hI.emb.hd hcj hct
            subst this
            rw [hth] at h1; injection h1 with h1; subst h1
            rw [hpc] at h2; cases h2
        exact origDisp_pending (by rw [e]; exact hs) (by rw [hF]; exact h5)
      · -- the pending contents are published
        have hct := crit_of_pc hI hth (by rw [hpc]; rfl)
        have := crit_unique hI.emb.hd hcj hct
        subst this
        simp only [PendVal, hph] at h3
        rw [h3] at hv; injection hv with hv
        exact origDisp_slot (by rw [← hv]; exact h4)

theorem planOf_fst_orig (s : Sys) (sig : Int) : (planOf (cur s) (curF s) sig).1 = (origDisp s sig).bind prevCalled := by
  unfold planOf origDisp
  cases lookup sig (cur s).signals with
  | some slot => rfl
  | none =>
    cases curF s with
    | none => rfl
    | some q =>
      obtain ⟨a, b⟩ := q
      simp only
      split <;> rfl

theorem planOf_fst_slot (d : SigData) (fp fp' : Option (Int × Disp)) (sig : Int)
    (h : (lookup sig d.signals).isSome = true) : (planOf d fp sig).1 = (planOf d fp' sig).1 := by
  unfold planOf
  cases hl : lookup sig d.signals with
  | some slot => rfl
  | none => rw [hl] at h; cases h


theorem lookup_getD_cur {env : Env} {s : Sys} (hI : Inv6 env s) : lookupN s.hf.data s.cf = some (curF s) := by
  have hsome := hI.emb.hasF _ hI.emb.hf.dataLive
  unfold curF
  cases hl : lookupN s.hf.data s.cf with
  | none => rw [hl] at hsome; cases hsome
  | some v => rfl

/-- handover, own thread: what the stepping thread's new program counter needs -/
theorem hand_self {env : Env} {s s' : Sys} {t : Nat} {th : Thread} {out : StepOut}
    (hI : Inv6 env s) (h7b : Inv7b s) (hth : s.threads[t]? = some th) (h6 : Step6 env s t th s' out)
    (x : Thread) (hx : s'.threads[t]? = some x) : HandT s' t x.pc := by
  have ht := (List.getElem?_eq_some_iff.1 hth).1
  have hT := h7b.hand t th hth
  cases h6 with
  | fbPin sig hf' hpc mv =>
    rw [setT_get _ _ _ (by simpa using ht)] at hx; injection hx with hx; subst hx
    simp only [HandT]
    refine ⟨s.hf.data, mv.after, Or.inr ?_⟩
    rw [curF_hf (by rw [mv.data]; rfl)]
    exact lookup_getD_cur hI
  | dataStep sig hd' p o pf hpc hcF mv hp ho =>
    rw [setT_get _ _ _ (by simpa using ht)] at hx; injection hx with hx; subst hx
    rw [hpc] at hT; simp only [HandT] at hT ⊢
    have hcur : cur (setT { s with hd := hd' } t { th with pc := .dData sig }) = cur s := by
      rcases ho with ⟨v, rfl⟩ | ⟨l, v, rfl⟩ <;> exact cur_hd (by rw [mv.data]; rfl)
    rw [hcur]; exact hT
  | dataPin sig hd' pf hpc hcF mv =>
    rw [setT_get _ _ _ (by simpa using ht)] at hx; injection hx with hx; subst hx
    rw [hpc] at hT; simp only [HandT] at hT ⊢
    obtain ⟨pf', hpf, hdis⟩ := hT
    rw [hcF] at hpf; injection hpf with hpf; subst hpf
    right
    have horig : origDisp (setT { s with hd := hd' } t
        { th with pc := .dPlan sig (planOf (cur s) ((lookupN pf s.cf).getD none) sig).1
                                  (planOf (cur s) ((lookupN pf s.cf).getD none) sig).2 }) sig = origDisp s sig := by
      have hcur : cur (setT { s with hd := hd' } t
        { th with pc := .dPlan sig (planOf (cur s) ((lookupN pf s.cf).getD none) sig).1
                                  (planOf (cur s) ((lookupN pf s.cf).getD none) sig).2 }) = cur s :=
        cur_hd (by rw [mv.data]; rfl)
      unfold origDisp; rw [hcur]; rfl
    rw [horig, ← planOf_fst_orig]
    rcases hdis with h | h
    · exact planOf_fst_slot _ _ _ _ h
    · rw [h]; rfl
  | prev sig d tags hpc =>
    rw [setT_get _ _ _ ht] at hx; injection hx with hx; subst hx
    simp only [HandT]; exact Or.inl trivial
  | run sig tag rest hpc =>
    rw [setT_get _ _ _ ht] at hx; injection hx with hx; subst hx
    simp only [HandT]; exact Or.inl trivial
  | queryOk sig tag new res hpc hq =>
    rw [setT_get _ _ _ ht] at hx; injection hx with hx; subst hx
    have hc := hI.coh t th hth; rw [hpc] at hc; simp only [CohT] at hc
    obtain ⟨_, _, hcF⟩ := hc
    simp only [hq, Bool.not_false, stPhase, if_true] at hcF
    simp only [HandT]
    show HandF _ sig _ (phaseAt s.hf t)
    rw [hcF]; rfl
  | runFAlloc sig tag v new res hf' hpc mv =>
    rw [setT_get _ _ _ (by simpa using ht)] at hx; injection hx with hx; subst hx
    rw [hpc] at hT; simp only [HandT, mv.before, HandF] at hT
    injection hT with hT; subst hT
    simp only [HandT]
    show HandF _ sig none (phaseAt hf' t)
    rw [mv.after]; simp only [HandF]
    exact lookupN_cons_self _ _ _
  | runFSwap sig tag new res n hf' hpc mv =>
    rw [setT_get _ _ _ (by simpa using ht)] at hx; injection hx with hx; subst hx
    rw [hpc] at hT; simp only [HandT, mv.before, HandF] at hT
    simp only [HandT]
    show HandF _ sig none (phaseAt hf' t)
    rw [mv.after]; simp only [HandF]
    show (lookupN hf'.data s.cf).getD none = _
    rw [mv.data]; simp [Obs.newData, hT]; rfl
  | runFWait sig tag new res old hf' p' o hpc mv hp' hben =>
    rw [setT_get _ _ _ (by simpa using ht)] at hx; injection hx with hx; subst hx
    rw [hpc] at hT; simp only [HandT, mv.before, HandF] at hT
    simp only [HandT]
    have hcF : curF (setT { s with hf := hf' } t { th with pc := .mRunF sig tag none new res }) = curF s :=
      curF_hf (by rw [mv.data]; exact benign_not_swap hben _)
    show HandF _ sig none (phaseAt hf' t)
    rw [mv.after]
    rcases hp' with rfl | rfl <;> (simp only [HandF]; rw [hcF]; exact hT)
  | runFFree sig tag new res old hf' hpc mv =>
    rw [setT_get _ _ _ (by simpa using ht)] at hx; injection hx with hx; subst hx
    rw [hpc] at hT; simp only [HandT, mv.before, HandF] at hT
    simp only [HandT]
    show HandF _ sig none (phaseAt hf' t)
    rw [mv.after]; simp only [HandF]
    rw [curF_hf (by rw [mv.data]; rfl)]; exact hT
  | runFUnlock sig tag new res hf' b hpc mv =>
    rw [setT_get _ _ _ (by simpa using ht)] at hx; injection hx with hx; subst hx
    rw [hpc] at hT; simp only [HandT, mv.before, HandF] at hT
    simp only [HandT]
    rw [curF_hf (by rw [mv.data]; rfl)]; exact hT
  | _ =>
    rw [setT_get _ _ _ (by simpa using ht)] at hx; injection hx with hx; subst hx
    trivial


/-- handover, other threads -/
theorem hand_other {env : Env} {s s' : Sys} {t : Nat} {th : Thread} {out : StepOut}
    (hI : Inv6 env s) (h7a : Inv7a s) (h7b : Inv7b s) (hth : s.threads[t]? = some th)
    (h6 : Step6 env s t th s' out) (j : Nat) (hj : j ≠ t) (x : Thread) (hx : s.threads[j]? = some x) :
    HandT s' j x.pc := by
  have fr := step6_frame h6
  have hT := h7b.hand j x hx
  have quiet : critPc x.pc = true →
      cur s' = cur s ∧ curF s' = curF s ∧ s'.disp = s.disp ∧ s'.cd = s.cd ∧ s'.cf = s.cf := fun hc =>
    quiet_of_noncrit hI hth h6 (noncrit_of_other hI hth (crit_of_pc hI hx hc) hj)
  cases hpc : x.pc with
  | mRunF sig tag fb new res =>
    obtain ⟨_, e2, e3, _, e5⟩ := quiet (by rw [hpc]; rfl)
    rw [hpc] at hT; simp only [HandT] at hT ⊢
    rw [fr.phF j hj]
    cases hp : phaseAt s.hf j <;> rw [hp] at hT <;> simp only [HandF] at hT ⊢ <;>
      first
        | (rw [dispOf_congr e3]; exact hT)
        | (rw [e5, dispOf_congr e3]; exact hT)
        | (rw [e2, dispOf_congr e3]; exact hT)
  | mSet sig tag new res =>
    obtain ⟨_, e2, e3, _, _⟩ := quiet (by rw [hpc]; rfl)
    rw [hpc] at hT; simp only [HandT] at hT ⊢
    rw [e2, dispOf_congr e3]; exact hT
  | dData sig =>
    rw [hpc] at hT; simp only [HandT] at hT ⊢
    obtain ⟨pf, hpf, hdis⟩ := hT
    refine ⟨pf, by rw [fr.phF j hj]; exact hpf, ?_⟩
    have keep : (lookup sig (cur s).signals).isSome = true → (lookup sig (cur s').signals).isSome = true := by
      intro h
      obtain ⟨slot, hs⟩ := (isSome_iff_exists _).1 h
      obtain ⟨slot', h', _⟩ := slot_stable hI hth h6 hs
      rw [h']; rfl
    rcases hdis with h | h
    · exact Or.inl (keep h)
    · rcases curF_step hI h6 with e | ⟨sg, tag, nw, rs, n, hpct, _⟩
      · right; rw [e, fr.cf_live hI (hold_live hI.emb.hf hpf)]; exact h
      · -- a new fallback is being published: the writer of it is inside `data`'s section, so no
        -- slot is pending, so ours is published already
        left
        obtain ⟨f, hl⟩ := h7a.lib j x sig hx (by rw [hpc]; rfl)
        rcases h7b.over sig f hl with hs | hp
        · exact keep hs
        · exfalso
          obtain ⟨th0, new0, res0, v0, slot0, h1, h2, _⟩ :=
            pending_owner hI hp (crit_of_pc hI hth (by rw [hpct]; rfl))
          rw [hth] at h1; injection h1 with h1; subst h1
          rw [hpct] at h2; cases h2
  | dPlan sig pv tags =>
    rw [hpc] at hT; simp only [HandT] at hT ⊢
    obtain ⟨f, hl⟩ := h7a.lib j x sig hx (by rw [hpc]; rfl)
    rw [origDisp_stable hI h7b hth h6 sig f hl]; exact hT
  | _ => trivial

theorem inv7b_step {env : Env} {s s' : Sys} {t : Nat} {th : Thread} {out : StepOut}
    (hI : Inv6 env s) (h7a : Inv7a s) (h7b : Inv7b s) (hth : s.threads[t]? = some th)
    (h6 : Step6 env s t th s' out) : Inv7b s' := by
  refine ⟨?_, over_step hI h7b hth h6⟩
  intro j x hx
  by_cases hj : j = t
  · subst hj; exact hand_self hI h7b hth h6 x hx
  · rw [(step6_frame h6).other hj] at hx
    exact hand_other hI h7a h7b hth h6 j hj x hx

theorem lookup_mem_none {β} (k : Int) (l : List (Int × β)) (h : ∀ e ∈ l, e.1 ≠ k) : lookup k l = none := by
  induction l with
  | nil => rfl
  | cons e rest ih =>
    obtain ⟨k', v'⟩ := e
    simp only [lookup]
    have := h (k', v') List.mem_cons_self
    simp only at this
    simp [this]
    exact ih (fun e he => h e (List.mem_cons_of_mem _ he))

theorem lookup_some_mem {β} (k : Int) (l : List (Int × β)) (v : β) (h : lookup k l = some v) : (k, v) ∈ l :=
  lookup_mem k l v h

/-- the handover invariant holds at start when no disposition is the library's handler yet -/
theorem inv7b_init (disp : List (Int × Disp)) (scripts : List (List Op))
    (hd : ∀ e ∈ disp, ∀ f, e.2 ≠ .lib f) : Inv7b (Sys.init disp scripts) := by
  have hidle : ∀ (t : Nat) (th : Thread), (Sys.init disp scripts).threads[t]? = some th → th.pc = .idle := by
    intro t th hth
    simp only [Sys.init, List.getElem?_map] at hth
    cases hsc : scripts[t]? with
    | none => simp [hsc] at hth
    | some sc => simp [hsc] at hth; subst hth; rfl
  refine ⟨?_, ?_⟩
  · intro t th hth; rw [hidle t th hth]; trivial
  · intro sig f hl
    exfalso
    unfold dispOf at hl
    cases hlk : lookup sig (Sys.init disp scripts).disp with
    | none => rw [hlk] at hl; cases hl
    | some d =>
      rw [hlk] at hl; simp at hl; subst hl
      exact hd _ (lookup_mem _ _ _ hlk) f rfl

theorem inv7b_reachable {env : Env} {ye : Nat} {disp : List (Int × Disp)} {scripts : List (List Op)} {s : Sys}
    (hd : ∀ e ∈ disp, ∀ f, e.2 ≠ .lib f) (h : Reachable env ye disp scripts s) : Inv7b s := by
  induction h with
  | init => exact inv7b_init disp scripts hd
  | @step s0 s1 t out hr hs ih =>
    have hI := inv6_reachable hr
    cases hth : s0.threads[t]? with
    | none => unfold step at hs; simp [hth] at hs
    | some th => exact inv7b_step hI (inv7a_reachable hr) ih hth (step6_of hI hth hs)

end SigHook.RegConc
