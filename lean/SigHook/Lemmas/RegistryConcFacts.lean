import SigHook.Lemmas.RegistryConcStep6
/-! Per-step facts of the concurrent registry, by cases on `Step6`. -/
namespace SigHook.RegConc
open SigHook.Registry (Disp Slot Env lookup update btInsert btRemove prevCalled)
open SigHook.HalfLock (Phase phaseAt pcAt Obs)

theorem cur_hd {s : Sys} {hd' : HalfLock.Sys} {t : Nat} {th' : Thread} (e : hd'.data = s.hd.data) :
    cur (setT { s with hd := hd' } t th') = cur s := cur_congr e rfl

theorem benign_not_swap {o : Obs} (h : Obs.benign o) (d : Nat) : o.newData d = d := by
  cases o <;> simp [Obs.benign] at h <;> rfl

/-- **the current registry contents change only at a publication, and then by exactly one step of
the sequential specification** -/
theorem cur_step {env : Env} {s s' : Sys} {t : Nat} {th : Thread} {out : StepOut}
    (hI : Inv6 env s) (hth : s.threads[t]? = some th) (h6 : Step6 env s t th s' out) :
    (cur s' = cur s ∧ ∀ l n old, out.ev ≠ .hd (.swap l n old)) ∨
    (∃ n res, out.ev = .hd (.swap "data" n s.hd.data) ∧ th.pc = .mRunD none res ∧ Pub env (cur s) (cur s') res ∧
      phaseAt s.hd t = .wSwap n ∧ lookupN n s.cd = some (cur s')) := by
  cases h6 with
  | runDSwap n res hd' hpc mv =>
    right
    have hc := hI.coh t th hth; rw [hpc] at hc; simp only [CohT] at hc
    obtain ⟨hrun, _⟩ := hc
    rw [mv.before] at hrun; simp only [RunD] at hrun
    obtain ⟨_, v, hv, hpub⟩ := hrun
    have : cur (setT { s with hd := hd' } t { th with pc := .mRunD none res }) = v := by
      show (lookupN hd'.data s.cd).getD SigData.empty = v
      rw [mv.data]; simp [Obs.newData, hv]
    refine ⟨n, res, rfl, hpc, ?_, mv.before, ?_⟩
    · rw [this]; exact hpub
    · rw [this]; exact hv
  | runDAlloc v res hd' hpc mv =>
    left
    refine ⟨?_, by intro l n old h; cases h⟩
    have hdl := hI.emb.hd.fresh _ hI.emb.hd.dataLive
    have hna := hI.emb.naD
    show (lookupN hd'.data ((s.nextAlloc, v) :: s.cd)).getD SigData.empty = cur s
    rw [mv.data]
    show (lookupN s.hd.data ((s.nextAlloc, v) :: s.cd)).getD SigData.empty = cur s
    rw [lookupN_cons_ne _ _ _ _ (by omega)]; rfl
  | runDWait old res hd' p' o hpc mv hp' hben =>
    left
    refine ⟨cur_hd (by rw [mv.data]; exact benign_not_swap hben _), ?_⟩
    intro l n old' h; injection h with h; subst h; simp [Obs.benign] at hben
  | dataStep sig hd' p o pf hpc hcF mv hp ho =>
    left
    rcases ho with ⟨v, rfl⟩ | ⟨l, v, rfl⟩
    · exact ⟨cur_hd (by rw [mv.data]; rfl), by intro l n old h; cases h⟩
    · exact ⟨cur_hd (by rw [mv.data]; rfl), by intro l n old h; cases h⟩
  | dataPin sig hd' pf hpc hcF mv => left; exact ⟨cur_hd (by rw [mv.data]; rfl), by intro l n old h; cases h⟩
  | relD sig hd' p l v hpc mv => left; exact ⟨cur_hd (by rw [mv.data]; rfl), by intro l n old h; cases h⟩
  | lockD op hd' b hpc hmo mv => left; exact ⟨cur_hd (by rw [mv.data]; rfl), by intro l n old h; cases h⟩
  | loadDNone op res first hd' hpc hp mv => left; exact ⟨cur_hd (by rw [mv.data]; rfl), by intro l n old h; cases h⟩
  | loadDPub op new res hd' hpc hp mv => left; exact ⟨cur_hd (by rw [mv.data]; rfl), by intro l n old h; cases h⟩
  | loadDFirst chk sig tag new res hd' hpc hp mv =>
    left; exact ⟨cur_hd (by rw [mv.data]; rfl), by intro l n old h; cases h⟩
  | runDFree old res hd' hpc mv => left; exact ⟨cur_hd (by rw [mv.data]; rfl), by intro l n old h; cases h⟩
  | runDUnlock res hd' b hpc mv => left; exact ⟨cur_hd (by rw [mv.data]; rfl), by intro l n old h; cases h⟩
  | unlockD res drops hd' b hpc mv => left; exact ⟨cur_hd (by rw [mv.data]; rfl), by intro l n old h; cases h⟩
  | _ => left; exact ⟨rfl, by intro l n old h; cases h⟩


/-! ## frame: what a step leaves alone -/

structure Frame (s s' : Sys) (t : Nat) : Prop where
  threads : ∃ th', s'.threads = s.threads.set t th'
  phD : ∀ j, j ≠ t → phaseAt s'.hd j = phaseAt s.hd j
  phF : ∀ j, j ≠ t → phaseAt s'.hf j = phaseAt s.hf j
  cd : s'.cd = s.cd ∨ ∃ v, s'.cd = (s.nextAlloc, v) :: s.cd
  cf : s'.cf = s.cf ∨ ∃ v, s'.cf = (s.nextAlloc, v) :: s.cf

theorem step6_frame {env : Env} {s s' : Sys} {t : Nat} {th : Thread} {out : StepOut}
    (h6 : Step6 env s t th s' out) : Frame s s' t := by
  cases h6 with
  | fbStep sig hf' p o hpc mv hp ho => exact ⟨⟨_, rfl⟩, fun _ _ => rfl, mv.others, Or.inl rfl, Or.inl rfl⟩
  | fbPin sig hf' hpc mv => exact ⟨⟨_, rfl⟩, fun _ _ => rfl, mv.others, Or.inl rfl, Or.inl rfl⟩
  | relF sig hf' p l v hpc mv => exact ⟨⟨_, rfl⟩, fun _ _ => rfl, mv.others, Or.inl rfl, Or.inl rfl⟩
  | lockF sig tag new res hf' b hpc hmo mv => exact ⟨⟨_, rfl⟩, fun _ _ => rfl, mv.others, Or.inl rfl, Or.inl rfl⟩
  | loadF sig tag new res hf' hpc mv => exact ⟨⟨_, rfl⟩, fun _ _ => rfl, mv.others, Or.inl rfl, Or.inl rfl⟩
  | runFAlloc sig tag v new res hf' hpc mv =>
    exact ⟨⟨_, rfl⟩, fun _ _ => rfl, mv.others, Or.inl rfl, Or.inr ⟨v, rfl⟩⟩
  | runFSwap sig tag new res n hf' hpc mv => exact ⟨⟨_, rfl⟩, fun _ _ => rfl, mv.others, Or.inl rfl, Or.inl rfl⟩
  | runFWait sig tag new res old hf' p' o hpc mv hp' hben =>
    exact ⟨⟨_, rfl⟩, fun _ _ => rfl, mv.others, Or.inl rfl, Or.inl rfl⟩
  | runFFree sig tag new res old hf' hpc mv => exact ⟨⟨_, rfl⟩, fun _ _ => rfl, mv.others, Or.inl rfl, Or.inl rfl⟩
  | runFUnlock sig tag new res hf' b hpc mv => exact ⟨⟨_, rfl⟩, fun _ _ => rfl, mv.others, Or.inl rfl, Or.inl rfl⟩
  | unlockF res drops hf' b hpc mv => exact ⟨⟨_, rfl⟩, fun _ _ => rfl, mv.others, Or.inl rfl, Or.inl rfl⟩
  | dataStep sig hd' p o pf hpc hcF mv hp ho => exact ⟨⟨_, rfl⟩, mv.others, fun _ _ => rfl, Or.inl rfl, Or.inl rfl⟩
  | dataPin sig hd' pf hpc hcF mv => exact ⟨⟨_, rfl⟩, mv.others, fun _ _ => rfl, Or.inl rfl, Or.inl rfl⟩
  | relD sig hd' p l v hpc mv => exact ⟨⟨_, rfl⟩, mv.others, fun _ _ => rfl, Or.inl rfl, Or.inl rfl⟩
  | lockD op hd' b hpc hmo mv => exact ⟨⟨_, rfl⟩, mv.others, fun _ _ => rfl, Or.inl rfl, Or.inl rfl⟩
  | loadDNone op res first hd' hpc hp mv => exact ⟨⟨_, rfl⟩, mv.others, fun _ _ => rfl, Or.inl rfl, Or.inl rfl⟩
  | loadDPub op new res hd' hpc hp mv => exact ⟨⟨_, rfl⟩, mv.others, fun _ _ => rfl, Or.inl rfl, Or.inl rfl⟩
  | loadDFirst chk sig tag new res hd' hpc hp mv =>
    exact ⟨⟨_, rfl⟩, mv.others, fun _ _ => rfl, Or.inl rfl, Or.inl rfl⟩
  | runDAlloc v res hd' hpc mv => exact ⟨⟨_, rfl⟩, mv.others, fun _ _ => rfl, Or.inr ⟨v, rfl⟩, Or.inl rfl⟩
  | runDSwap n res hd' hpc mv => exact ⟨⟨_, rfl⟩, mv.others, fun _ _ => rfl, Or.inl rfl, Or.inl rfl⟩
  | runDWait old res hd' p' o hpc mv hp' hben => exact ⟨⟨_, rfl⟩, mv.others, fun _ _ => rfl, Or.inl rfl, Or.inl rfl⟩
  | runDFree old res hd' hpc mv => exact ⟨⟨_, rfl⟩, mv.others, fun _ _ => rfl, Or.inl rfl, Or.inl rfl⟩
  | runDUnlock res hd' b hpc mv => exact ⟨⟨_, rfl⟩, mv.others, fun _ _ => rfl, Or.inl rfl, Or.inl rfl⟩
  | unlockD res drops hd' b hpc mv => exact ⟨⟨_, rfl⟩, mv.others, fun _ _ => rfl, Or.inl rfl, Or.inl rfl⟩
  | _ => exact ⟨⟨_, rfl⟩, fun _ _ => rfl, fun _ _ => rfl, Or.inl rfl, Or.inl rfl⟩

theorem Frame.other {s s' : Sys} {t j : Nat} (fr : Frame s s' t) (hj : j ≠ t) :
    s'.threads[j]? = s.threads[j]? := by
  obtain ⟨th', e⟩ := fr.threads
  rw [e, List.getElem?_set]; simp [Ne.symm hj]

/-- the recorded contents of a live snapshot never change -/
theorem Frame.cd_live {env : Env} {s s' : Sys} {t : Nat} (fr : Frame s s' t) (hI : Inv6 env s) {x : Nat}
    (hx : x ∈ s.hd.live) : lookupN x s'.cd = lookupN x s.cd := by
  rcases fr.cd with e | ⟨v, e⟩
  · rw [e]
  · rw [e]
    have h1 := hI.emb.hd.fresh x hx
    have h2 := hI.emb.naD
    exact lookupN_cons_ne _ _ _ _ (by omega)

theorem Frame.cf_live {env : Env} {s s' : Sys} {t : Nat} (fr : Frame s s' t) (hI : Inv6 env s) {x : Nat}
    (hx : x ∈ s.hf.live) : lookupN x s'.cf = lookupN x s.cf := by
  rcases fr.cf with e | ⟨v, e⟩
  · rw [e]
  · rw [e]
    have h1 := hI.emb.hf.fresh x hx
    have h2 := hI.emb.naF
    exact lookupN_cons_ne _ _ _ _ (by omega)

/-- a pinned snapshot is live -/
theorem hold_live {h : HalfLock.Sys} (hinv : HalfLock.Inv h) {j p u : Nat} (hp : phaseAt h j = .rHold p u) :
    p ∈ h.live := by
  unfold phaseAt pcAt at hp
  cases hth : h.threads[j]? with
  | none => simp [hth, HalfLock.Pc.phase] at hp
  | some th =>
    obtain ⟨hlt, rfl⟩ := List.getElem?_eq_some_iff.1 hth
    simp only [hth] at hp
    obtain ⟨sl, e⟩ := (phase_rHold _ _ _).1 hp
    exact hinv.holdLive j hlt p (by rw [e]; rfl)

/-- the snapshot a writer has allocated and not yet published is live -/
theorem pending_live {h : HalfLock.Sys} (hinv : HalfLock.Inv h) {j n : Nat} (hp : phaseAt h j = .wSwap n) :
    n ∈ h.live ∧ n ≠ h.data := by
  unfold phaseAt pcAt at hp
  cases hth : h.threads[j]? with
  | none => simp [hth, HalfLock.Pc.phase] at hp
  | some th =>
    obtain ⟨hlt, rfl⟩ := List.getElem?_eq_some_iff.1 hth
    simp only [hth] at hp
    have e : (h.threads[j]).pc = .wSwap n := by
      cases hpc : (h.threads[j]).pc <;> rw [hpc] at hp <;> simp [HalfLock.Pc.phase] at hp
      rw [hp]
    exact hinv.pending j hlt n (by rw [e]; rfl)

end SigHook.RegConc
