import SigHook.Lemmas.RegistryConc
/-! Preservation of the L6 invariant `Inv6` by every step (one lemma per program counter). -/
namespace SigHook.RegConc
open SigHook.Registry (Disp Slot Env lookup update btInsert btRemove prevCalled)
open SigHook.HalfLock (Phase phaseAt pcAt PhaseTr Eff NoScripts Obs)

theorem newLive_sub {o : Obs} {l : List Nat} {x : Nat} (hno : ∀ n, o ≠ .alloc n) (hx : x ∈ o.newLive l) : x ∈ l := by
  cases o <;> simp [Obs.newLive] at hx ⊢ <;> try exact hx
  · exact absurd rfl (hno _)
  · exact List.mem_of_mem_erase hx

theorem newNext_keep {o : Obs} {n : Nat} (hno : ∀ k, o ≠ .alloc k) : o.newNext n = n := by
  cases o <;> simp [Obs.newNext]
  exact absurd rfl (hno _)

theorem newData_keep {o : Obs} {d : Nat} (hno : ∀ l n old, o ≠ .swap l n old) : o.newData d = d := by
  cases o <;> simp [Obs.newData]
  exact absurd rfl (hno _ _ _)

/-- `Emb` after a move of `data`'s half-lock that allocates nothing -/
theorem emb_hd_keep {s s' : Sys} {h0 : HalfLock.Sys} {t : Nat} {cmd : Option HalfLock.Cmd} {o : Obs} (hE : Emb s)
    (e1 : h0.live = s.hd.live) (e2 : h0.nextSnap ≤ s.nextAlloc) (e3 : h0.threads.length = s.hd.threads.length)
    (mv : Mv h0 s'.hd t cmd o) (hno : ∀ n, o ≠ .alloc n)
    (hf : s'.hf = s.hf) (hcd : s'.cd = s.cd) (hcf : s'.cf = s.cf) (hna : s'.nextAlloc = s.nextAlloc)
    (hlen : s'.threads.length = s.threads.length) : Emb s' := by
  refine ⟨mv.inv, hf ▸ hE.hf, ?_, ?_, mv.ns, hf ▸ hE.nsF, ?_, ?_, ?_, ?_⟩
  · rw [mv.len, e3, hE.lenD, hlen]
  · rw [hf, hE.lenF, hlen]
  · rw [mv.eff.nextSnap, newNext_keep hno, hna]; exact e2
  · rw [hf, hna]; exact hE.naF
  · intro x hx
    rw [mv.eff.live] at hx
    have := newLive_sub hno hx
    rw [e1] at this; rw [hcd]; exact hE.hasD x this
  · rw [hf, hcf]; exact hE.hasF

/-- `Emb` after the allocation step of a `data.store` -/
theorem emb_hd_alloc {s s' : Sys} {h0 : HalfLock.Sys} {t n : Nat} {cmd : Option HalfLock.Cmd} {v : SigData} (hE : Emb s)
    (e1 : h0.live = s.hd.live) (e2 : h0.nextSnap = s.nextAlloc) (e3 : h0.threads.length = s.hd.threads.length)
    (mv : Mv h0 s'.hd t cmd (.alloc n))
    (hf : s'.hf = s.hf) (hcd : s'.cd = (n, v) :: s.cd) (hcf : s'.cf = s.cf) (hna : s'.nextAlloc = s.nextAlloc + 1)
    (hlen : s'.threads.length = s.threads.length) : Emb s' := by
  have hn : n = s.nextAlloc := by rw [← e2]; exact mv.eff.allocId n rfl
  refine ⟨mv.inv, hf ▸ hE.hf, ?_, ?_, mv.ns, hf ▸ hE.nsF, ?_, ?_, ?_, ?_⟩
  · rw [mv.len, e3, hE.lenD, hlen]
  · rw [hf, hE.lenF, hlen]
  · rw [mv.eff.nextSnap, hna, hn]; simp [Obs.newNext]
  · rw [hf, hna]; have := hE.naF; omega
  · intro x hx
    rw [mv.eff.live] at hx
    simp only [Obs.newLive, List.mem_cons] at hx
    rw [hcd]
    rcases hx with rfl | hx
    · simp [lookupN]
    · rw [e1] at hx
      have h1 := hE.hd.fresh x hx
      have h2 := hE.naD
      rw [lookupN_cons_ne _ _ _ _ (by omega)]
      exact hE.hasD x hx
  · rw [hf, hcf]; exact hE.hasF

/-- `Emb` after a move of `race_fallback`'s half-lock that allocates nothing -/
theorem emb_hf_keep {s s' : Sys} {h0 : HalfLock.Sys} {t : Nat} {cmd : Option HalfLock.Cmd} {o : Obs} (hE : Emb s)
    (e1 : h0.live = s.hf.live) (e2 : h0.nextSnap ≤ s.nextAlloc) (e3 : h0.threads.length = s.hf.threads.length)
    (mv : Mv h0 s'.hf t cmd o) (hno : ∀ n, o ≠ .alloc n)
    (hd : s'.hd = s.hd) (hcd : s'.cd = s.cd) (hcf : s'.cf = s.cf) (hna : s'.nextAlloc = s.nextAlloc)
    (hlen : s'.threads.length = s.threads.length) : Emb s' := by
  refine ⟨hd ▸ hE.hd, mv.inv, ?_, ?_, hd ▸ hE.nsD, mv.ns, ?_, ?_, ?_, ?_⟩
  · rw [hd, hE.lenD, hlen]
  · rw [mv.len, e3, hE.lenF, hlen]
  · rw [hd, hna]; exact hE.naD
  · rw [mv.eff.nextSnap, newNext_keep hno, hna]; exact e2
  · rw [hd, hcd]; exact hE.hasD
  · intro x hx
    rw [mv.eff.live] at hx
    have := newLive_sub hno hx
    rw [e1] at this; rw [hcf]; exact hE.hasF x this

theorem emb_hf_alloc {s s' : Sys} {h0 : HalfLock.Sys} {t n : Nat} {cmd : Option HalfLock.Cmd}
    {v : Option (Int × Disp)} (hE : Emb s)
    (e1 : h0.live = s.hf.live) (e2 : h0.nextSnap = s.nextAlloc) (e3 : h0.threads.length = s.hf.threads.length)
    (mv : Mv h0 s'.hf t cmd (.alloc n))
    (hd : s'.hd = s.hd) (hcd : s'.cd = s.cd) (hcf : s'.cf = (n, v) :: s.cf) (hna : s'.nextAlloc = s.nextAlloc + 1)
    (hlen : s'.threads.length = s.threads.length) : Emb s' := by
  have hn : n = s.nextAlloc := by rw [← e2]; exact mv.eff.allocId n rfl
  refine ⟨hd ▸ hE.hd, mv.inv, ?_, ?_, hd ▸ hE.nsD, mv.ns, ?_, ?_, ?_, ?_⟩
  · rw [hd, hE.lenD, hlen]
  · rw [mv.len, e3, hE.lenF, hlen]
  · rw [hd, hna]; have := hE.naD; omega
  · rw [mv.eff.nextSnap, hna, hn]; simp [Obs.newNext]
  · rw [hd, hcd]; exact hE.hasD
  · intro x hx
    rw [mv.eff.live] at hx
    simp only [Obs.newLive, List.mem_cons] at hx
    rw [hcf]
    rcases hx with rfl | hx
    · simp [lookupN]
    · rw [e1] at hx
      have h1 := hE.hf.fresh x hx
      have h2 := hE.naF
      rw [lookupN_cons_ne _ _ _ _ (by omega)]
      exact hE.hasF x hx

/-- `Emb` when neither half-lock moves -/
theorem emb_same {s s' : Sys} (hE : Emb s) (hd : s'.hd = s.hd) (hf : s'.hf = s.hf) (hcd : s'.cd = s.cd)
    (hcf : s'.cf = s.cf) (hna : s'.nextAlloc = s.nextAlloc) (hlen : s'.threads.length = s.threads.length) : Emb s' := by
  refine ⟨hd ▸ hE.hd, hf ▸ hE.hf, ?_, ?_, hd ▸ hE.nsD, hf ▸ hE.nsF, ?_, ?_, ?_, ?_⟩
  · rw [hd, hE.lenD, hlen]
  · rw [hf, hE.lenF, hlen]
  · rw [hd, hna]; exact hE.naD
  · rw [hf, hna]; exact hE.naF
  · rw [hd, hcd]; exact hE.hasD
  · rw [hf, hcf]; exact hE.hasF


theorem tr_swap {h : HalfLock.Sys} {cmd : Option HalfLock.Cmd} {p p' : Phase} {l : String} {n old : Nat}
    (tr : PhaseTr h cmd p p' (.swap l n old)) : p = .wSwap n := by
  cases p <;> simp [PhaseTr] at tr
  · rename_i u; cases u <;> simp at tr
  · rw [tr.2.2.1]

theorem tr_alloc {h : HalfLock.Sys} {cmd : Option HalfLock.Cmd} {p p' : Phase} {n : Nat}
    (tr : PhaseTr h cmd p p' (.alloc n)) : p = .wAlloc := by
  cases p <;> simp [PhaseTr] at tr
  · rename_i u; cases u <;> simp at tr
  · rfl

theorem isHold_phase (pc : HalfLock.Pc) : isHold pc = true ↔ ∃ p u, pc.phase = .rHold p u := by
  cases pc <;> simp [isHold, HalfLock.Pc.phase]

theorem cur_congr {s s' : Sys} (h1 : s'.hd.data = s.hd.data) (h2 : s'.cd = s.cd) : cur s' = cur s := by
  unfold cur; rw [h1, h2]

/-- a step that moves neither half-lock and records nothing -/
theorem inv6_local {env : Env} {s s' : Sys} {t : Nat} {th' : Thread} (hI : Inv6 env s) (ht : t < s.threads.length)
    (hthreads : s'.threads = s.threads.set t th')
    (hd : s'.hd = s.hd) (hf : s'.hf = s.hf) (hcd : s'.cd = s.cd) (hcf : s'.cf = s.cf)
    (hna : s'.nextAlloc = s.nextAlloc) (hcoh : CohT env s t th'.pc) : Inv6 env s' := by
  have hcur : cur s' = cur s := cur_congr (by rw [hd]) hcd
  apply inv6_of hI hthreads ht
  · exact emb_same hI.emb hd hf hcd hcf hna (by rw [hthreads]; simp)
  · exact cohT_frame env s s' t _ (by rw [hd]) (by rw [hf]) (fun _ => ⟨hcur, by rw [hcd]; exact fun _ _ h => h⟩) hcoh
  · intro j _; rw [hd]
  · intro j _; rw [hf]
  · intro _; exact ⟨hcur, by rw [hcd]; exact fun _ _ h => h⟩

/-- a step that moves `race_fallback`'s half-lock without allocating -/
theorem inv6_hf_move {env : Env} {s s' : Sys} {h0 : HalfLock.Sys} {t : Nat} {th' : Thread}
    {cmd : Option HalfLock.Cmd} {o : Obs}
    (hI : Inv6 env s) (ht : t < s.threads.length) (hthreads : s'.threads = s.threads.set t th')
    (e1 : h0.live = s.hf.live) (e2 : h0.nextSnap ≤ s.nextAlloc) (e3 : h0.threads = s.hf.threads)
    (mv : Mv h0 s'.hf t cmd o) (hno : ∀ n, o ≠ .alloc n)
    (hd : s'.hd = s.hd) (hcd : s'.cd = s.cd) (hcf : s'.cf = s.cf) (hna : s'.nextAlloc = s.nextAlloc)
    (hcoh : CohT env s' t th'.pc) : Inv6 env s' := by
  have hcur : cur s' = cur s := cur_congr (by rw [hd]) hcd
  apply inv6_of hI hthreads ht
  · exact emb_hf_keep hI.emb e1 e2 (by rw [e3]) mv hno hd hcd hcf hna (by rw [hthreads]; simp)
  · exact hcoh
  · intro j _; rw [hd]
  · intro j hj; rw [mv.others j hj]; simp [phaseAt, pcAt, e3]
  · intro _; exact ⟨hcur, by rw [hcd]; exact fun _ _ h => h⟩

/-- a step that moves `data`'s half-lock without allocating -/
theorem inv6_hd_move {env : Env} {s s' : Sys} {h0 : HalfLock.Sys} {t : Nat} {th' : Thread}
    {cmd : Option HalfLock.Cmd} {o : Obs}
    (hI : Inv6 env s) (ht : t < s.threads.length) (hthreads : s'.threads = s.threads.set t th')
    (e0 : h0.data = s.hd.data) (e1 : h0.live = s.hd.live) (e2 : h0.nextSnap ≤ s.nextAlloc) (e3 : h0.threads = s.hd.threads)
    (mv : Mv h0 s'.hd t cmd o) (hno : ∀ n, o ≠ .alloc n)
    (hf : s'.hf = s.hf) (hcd : s'.cd = s.cd) (hcf : s'.cf = s.cf) (hna : s'.nextAlloc = s.nextAlloc)
    (hcoh : CohT env s' t th'.pc) : Inv6 env s' := by
  have hph : phaseAt h0 t = phaseAt s.hd t := by simp [phaseAt, pcAt, e3]
  apply inv6_of hI hthreads ht
  · exact emb_hd_keep hI.emb e1 e2 (by rw [e3]) mv hno hf hcd hcf hna (by rw [hthreads]; simp)
  · exact hcoh
  · intro j hj; rw [mv.others j hj]; simp [phaseAt, pcAt, e3]
  · intro j _; rw [hf]
  · intro hnc
    have hdata : s'.hd.data = s.hd.data := by
      rw [mv.eff.data, ← e0]
      apply newData_keep
      intro l n old ho
      have tr := mv.tr
      rw [ho] at tr
      have := tr_swap tr
      rw [hph] at this; rw [this] at hnc; simp [Phase.crit] at hnc
    exact ⟨cur_congr hdata hcd, by rw [hcd]; exact fun _ _ h => h⟩


theorem hlPc_idle_iff (h : HalfLock.Sys) (t : Nat) : hlPc h t = .idle ↔ phaseAt h t = .idle := by
  rw [hlPc_eq]; exact (phase_idle _).symm

theorem isHold_phaseAt (h : HalfLock.Sys) (t : Nat) : isHold (hlPc h t) = true ↔ ∃ p u, phaseAt h t = .rHold p u := by
  rw [hlPc_eq]; exact isHold_phase _

/-! ## per program counter -/

theorem inv6_idle {env : Env} {ye : Nat} {s s' : Sys} {t : Nat} {th : Thread} {out : StepOut}
    (hI : Inv6 env s) (hth : s.threads[t]? = some th) (hpc : th.pc = .idle)
    (hs : step env ye s t = some (s', out)) : Inv6 env s' := by
  have ht := (List.getElem?_eq_some_iff.1 hth).1
  have hc := hI.coh t th hth; rw [hpc] at hc; simp only [CohT] at hc
  unfold step at hs; simp only [hth, hpc] at hs
  cases hsc : th.script with
  | nil => simp [hsc] at hs
  | cons op rest =>
    simp only [hsc] at hs
    cases op with
    | deliver sig =>
      simp only at hs
      cases hd : dispOf s sig <;> simp only [hd, Option.some.injEq, Prod.mk.injEq] at hs <;>
        obtain ⟨rfl, rfl⟩ := hs
      all_goals first
        | exact inv6_local hI ht rfl rfl rfl rfl rfl rfl (by simp only [CohT]; exact hc)
        | exact inv6_local hI ht rfl rfl rfl rfl rfl rfl (by simp only [CohT]; exact ⟨hc.1, Or.inl hc.2⟩)
    | register chk sig tag =>
      simp only at hs
      split at hs <;> simp only [Option.some.injEq, Prod.mk.injEq] at hs <;> obtain ⟨rfl, rfl⟩ := hs <;>
        exact inv6_local hI ht rfl rfl rfl rfl rfl rfl (by simp only [CohT]; exact hc)
    | unregister sig id =>
      simp only [Option.some.injEq, Prod.mk.injEq] at hs; obtain ⟨rfl, rfl⟩ := hs
      exact inv6_local hI ht rfl rfl rfl rfl rfl rfl (by simp only [CohT]; exact hc)
    | unregisterSignal sig =>
      simp only [Option.some.injEq, Prod.mk.injEq] at hs; obtain ⟨rfl, rfl⟩ := hs
      exact inv6_local hI ht rfl rfl rfl rfl rfl rfl (by simp only [CohT]; exact hc)

theorem inv6_dFb {env : Env} {ye : Nat} {s s' : Sys} {t : Nat} {th : Thread} {out : StepOut} {sig : Int}
    (hI : Inv6 env s) (hth : s.threads[t]? = some th) (hpc : th.pc = .dFb sig)
    (hs : step env ye s t = some (s', out)) : Inv6 env s' := by
  have ht := (List.getElem?_eq_some_iff.1 hth).1
  have hc := hI.coh t th hth; rw [hpc] at hc; simp only [CohT] at hc
  obtain ⟨hcD, hcF⟩ := hc
  unfold step at hs; simp only [hth, hpc] at hs
  rcases hcF with hidle | hpre
  · have hpi := (hlPc_idle_iff s.hf t).2 hidle
    simp only [hpi, beq_self_eq_true, if_true] at hs
    cases hb : hlBegin ye s.hf t (.read 0) with
    | none => simp [hb] at hs
    | some r =>
      obtain ⟨hf', o⟩ := r
      have mv := mv_begin hI.emb.hf hI.emb.nsF hidle hb
      have tr := mv.tr; rw [hidle] at tr; simp [PhaseTr] at tr
      obtain ⟨hp', ho⟩ := tr
      have hnh : isHold (hlPc hf' t) = false := by
        cases h : isHold (hlPc hf' t) with
        | false => rfl
        | true => obtain ⟨p, u, e⟩ := (isHold_phaseAt _ _).1 h; rw [hp'] at e; cases e
      simp only [hb, hnh, Option.some.injEq, Prod.mk.injEq] at hs
      obtain ⟨rfl, rfl⟩ := hs
      refine inv6_hf_move hI ht rfl rfl hI.emb.naF rfl mv (by rw [ho]; intro n h; cases h) rfl rfl rfl rfl ?_
      simp only [CohT, Bool.false_eq_true, if_false]
      exact ⟨hcD, Or.inr hp'⟩
  · have hpi : (hlPc s.hf t == .idle) = false := by
      cases h : (hlPc s.hf t == .idle) with
      | false => rfl
      | true => have := (hlPc_idle_iff s.hf t).1 (by simpa using h); rw [hpre] at this; cases this
    simp only [hpi, Bool.false_eq_true, if_false] at hs
    cases hb : HalfLock.step ye s.hf t with
    | none => simp [hb] at hs
    | some r =>
      obtain ⟨hf', o⟩ := r
      have mv := mv_step hI.emb.hf hI.emb.nsF hb
      have tr := mv.tr; rw [hpre] at tr; simp [PhaseTr] at tr
      rcases tr with ⟨hp', l, v, ho⟩ | ⟨hp', ho⟩
      · have hnh : isHold (hlPc hf' t) = false := by
          cases h : isHold (hlPc hf' t) with
          | false => rfl
          | true => obtain ⟨p, u, e⟩ := (isHold_phaseAt _ _).1 h; rw [hp'] at e; cases e
        simp only [hb, hnh, Option.some.injEq, Prod.mk.injEq] at hs
        obtain ⟨rfl, rfl⟩ := hs
        refine inv6_hf_move hI ht rfl rfl hI.emb.naF rfl mv (by rw [ho]; intro n h; cases h) rfl rfl rfl rfl ?_
        simp only [CohT, Bool.false_eq_true, if_false]
        exact ⟨hcD, Or.inr hp'⟩
      · have hh : isHold (hlPc hf' t) = true := (isHold_phaseAt _ _).2 ⟨_, _, hp'⟩
        simp only [hb, hh, if_true, Option.some.injEq, Prod.mk.injEq] at hs
        obtain ⟨rfl, rfl⟩ := hs
        refine inv6_hf_move hI ht rfl rfl hI.emb.naF rfl mv (by rw [ho]; intro n h; cases h) rfl rfl rfl rfl ?_
        simp only [CohT]
        exact ⟨Or.inl hcD, _, hp'⟩


theorem not_isHold_of_phase {h : HalfLock.Sys} {t : Nat} {ph : Phase} (hp : phaseAt h t = ph)
    (hn : ∀ p u, ph ≠ .rHold p u) : isHold (hlPc h t) = false := by
  cases hh : isHold (hlPc h t) with
  | false => rfl
  | true => obtain ⟨p, u, e⟩ := (isHold_phaseAt _ _).1 hh; rw [hp] at e; exact absurd e (hn p u)

theorem not_idle_of_phase {h : HalfLock.Sys} {t : Nat} {ph : Phase} (hp : phaseAt h t = ph)
    (hn : ph ≠ .idle) : (hlPc h t == .idle) = false := by
  cases hh : (hlPc h t == .idle) with
  | false => rfl
  | true => have := (hlPc_idle_iff h t).1 (by simpa using hh); rw [hp] at this; exact absurd this hn

theorem inv6_dData {env : Env} {ye : Nat} {s s' : Sys} {t : Nat} {th : Thread} {out : StepOut} {sig : Int}
    (hI : Inv6 env s) (hth : s.threads[t]? = some th) (hpc : th.pc = .dData sig)
    (hs : step env ye s t = some (s', out)) : Inv6 env s' := by
  have ht := (List.getElem?_eq_some_iff.1 hth).1
  have hc := hI.coh t th hth; rw [hpc] at hc; simp only [CohT] at hc
  obtain ⟨hcD, hcF⟩ := hc
  unfold step at hs; simp only [hth, hpc] at hs
  rcases hcD with hidle | hpre
  · have hpi := (hlPc_idle_iff s.hd t).2 hidle
    simp only [hpi, beq_self_eq_true, if_true] at hs
    cases hb : hlBegin ye s.hd t (.read 0) with
    | none => simp [hb] at hs
    | some r =>
      obtain ⟨hd', o⟩ := r
      have mv := mv_begin hI.emb.hd hI.emb.nsD hidle hb
      have tr := mv.tr; rw [hidle] at tr; simp [PhaseTr] at tr
      obtain ⟨hp', ho⟩ := tr
      have hnh := not_isHold_of_phase hp' (by intro p u h; cases h)
      simp only [hb, hnh, Bool.false_eq_true, if_false, Option.some.injEq, Prod.mk.injEq] at hs
      obtain ⟨rfl, rfl⟩ := hs
      refine inv6_hd_move hI ht rfl rfl rfl hI.emb.naD rfl mv (by rw [ho]; intro n h; cases h) rfl rfl rfl rfl ?_
      simp only [CohT]
      exact ⟨Or.inr hp', hcF⟩
  · have hpi := not_idle_of_phase hpre (by intro h; cases h)
    simp only [hpi, Bool.false_eq_true, if_false] at hs
    cases hb : HalfLock.step ye s.hd t with
    | none => simp [hb] at hs
    | some r =>
      obtain ⟨hd', o⟩ := r
      have mv := mv_step hI.emb.hd hI.emb.nsD hb
      have tr := mv.tr; rw [hpre] at tr; simp [PhaseTr] at tr
      rcases tr with ⟨hp', l, v, ho⟩ | ⟨hp', ho⟩
      · have hnh := not_isHold_of_phase hp' (by intro p u h; cases h)
        simp only [hb, hnh, Bool.false_eq_true, if_false, Option.some.injEq, Prod.mk.injEq] at hs
        obtain ⟨rfl, rfl⟩ := hs
        refine inv6_hd_move hI ht rfl rfl rfl hI.emb.naD rfl mv (by rw [ho]; intro n h; cases h) rfl rfl rfl rfl ?_
        simp only [CohT]
        exact ⟨Or.inr hp', hcF⟩
      · have hh : isHold (hlPc hd' t) = true := (isHold_phaseAt _ _).2 ⟨_, _, hp'⟩
        simp only [hb, hh, if_true, Option.some.injEq, Prod.mk.injEq] at hs
        obtain ⟨rfl, rfl⟩ := hs
        refine inv6_hd_move hI ht rfl rfl rfl hI.emb.naD rfl mv (by rw [ho]; intro n h; cases h) rfl rfl rfl rfl ?_
        simp only [CohT]
        exact ⟨⟨_, hp'⟩, hcF⟩

theorem inv6_dPlan {env : Env} {ye : Nat} {s s' : Sys} {t : Nat} {th : Thread} {out : StepOut} {sig : Int}
    {pv : Option Disp} {tags : List Nat}
    (hI : Inv6 env s) (hth : s.threads[t]? = some th) (hpc : th.pc = .dPlan sig pv tags)
    (hs : step env ye s t = some (s', out)) : Inv6 env s' := by
  have ht := (List.getElem?_eq_some_iff.1 hth).1
  have hc := hI.coh t th hth; rw [hpc] at hc; simp only [CohT] at hc
  obtain ⟨⟨pd, hcD⟩, hcF⟩ := hc
  unfold step at hs; simp only [hth, hpc] at hs
  cases pv with
  | some d =>
    simp only [Option.some.injEq, Prod.mk.injEq] at hs; obtain ⟨rfl, rfl⟩ := hs
    exact inv6_local hI ht rfl rfl rfl rfl rfl rfl (by simp only [CohT]; exact ⟨⟨pd, hcD⟩, hcF⟩)
  | none =>
    cases tags with
    | cons tag rest =>
      simp only [Option.some.injEq, Prod.mk.injEq] at hs; obtain ⟨rfl, rfl⟩ := hs
      exact inv6_local hI ht rfl rfl rfl rfl rfl rfl (by simp only [CohT]; exact ⟨⟨pd, hcD⟩, hcF⟩)
    | nil =>
      simp only at hs
      cases hb : HalfLock.step ye s.hd t with
      | none => simp [hb] at hs
      | some r =>
        obtain ⟨hd', o⟩ := r
        have mv := mv_step hI.emb.hd hI.emb.nsD hb
        have tr := mv.tr; rw [hcD] at tr; simp [PhaseTr] at tr
        obtain ⟨hp', l, v, ho⟩ := tr
        simp only [hb, Option.some.injEq, Prod.mk.injEq] at hs
        obtain ⟨rfl, rfl⟩ := hs
        refine inv6_hd_move hI ht rfl rfl rfl hI.emb.naD rfl mv (by rw [ho]; intro n h; cases h) rfl rfl rfl rfl ?_
        simp only [CohT]
        exact ⟨hp', hcF⟩

theorem inv6_dRelF {env : Env} {ye : Nat} {s s' : Sys} {t : Nat} {th : Thread} {out : StepOut} {sig : Int}
    (hI : Inv6 env s) (hth : s.threads[t]? = some th) (hpc : th.pc = .dRelF sig)
    (hs : step env ye s t = some (s', out)) : Inv6 env s' := by
  have ht := (List.getElem?_eq_some_iff.1 hth).1
  have hc := hI.coh t th hth; rw [hpc] at hc; simp only [CohT] at hc
  obtain ⟨hcD, pf, hcF⟩ := hc
  unfold step at hs; simp only [hth, hpc] at hs
  cases hb : HalfLock.step ye s.hf t with
  | none => simp [hb] at hs
  | some r =>
    obtain ⟨hf', o⟩ := r
    have mv := mv_step hI.emb.hf hI.emb.nsF hb
    have tr := mv.tr; rw [hcF] at tr; simp [PhaseTr] at tr
    obtain ⟨hp', l, v, ho⟩ := tr
    simp only [hb, Option.some.injEq, Prod.mk.injEq] at hs
    obtain ⟨rfl, rfl⟩ := hs
    refine inv6_hf_move hI ht rfl rfl hI.emb.naF rfl mv (by rw [ho]; intro n h; cases h) rfl rfl rfl rfl ?_
    simp only [CohT]
    exact ⟨hcD, hp'⟩


/-- the allocation step of `data.store` -/
theorem inv6_hd_alloc {env : Env} {s s' : Sys} {h0 : HalfLock.Sys} {t n : Nat} {th' : Thread}
    {cmd : Option HalfLock.Cmd} {v : SigData}
    (hI : Inv6 env s) (ht : t < s.threads.length) (hthreads : s'.threads = s.threads.set t th')
    (e1 : h0.live = s.hd.live) (e2 : h0.nextSnap = s.nextAlloc) (e3 : h0.threads = s.hd.threads)
    (mv : Mv h0 s'.hd t cmd (.alloc n))
    (hf : s'.hf = s.hf) (hcd : s'.cd = (n, v) :: s.cd) (hcf : s'.cf = s.cf) (hna : s'.nextAlloc = s.nextAlloc + 1)
    (hcoh : CohT env s' t th'.pc) : Inv6 env s' := by
  have hph : phaseAt h0 t = phaseAt s.hd t := by simp [phaseAt, pcAt, e3]
  apply inv6_of hI hthreads ht
  · exact emb_hd_alloc hI.emb e1 e2 (by rw [e3]) mv hf hcd hcf hna (by rw [hthreads]; simp)
  · exact hcoh
  · intro j hj; rw [mv.others j hj]; simp [phaseAt, pcAt, e3]
  · intro j _; rw [hf]
  · intro hnc
    have := tr_alloc mv.tr
    rw [hph] at this; rw [this] at hnc; simp [Phase.crit] at hnc

/-- the allocation step of `race_fallback.store` -/
theorem inv6_hf_alloc {env : Env} {s s' : Sys} {h0 : HalfLock.Sys} {t n : Nat} {th' : Thread}
    {cmd : Option HalfLock.Cmd} {v : Option (Int × Disp)}
    (hI : Inv6 env s) (ht : t < s.threads.length) (hthreads : s'.threads = s.threads.set t th')
    (e1 : h0.live = s.hf.live) (e2 : h0.nextSnap = s.nextAlloc) (e3 : h0.threads = s.hf.threads)
    (mv : Mv h0 s'.hf t cmd (.alloc n))
    (hd : s'.hd = s.hd) (hcd : s'.cd = s.cd) (hcf : s'.cf = (n, v) :: s.cf) (hna : s'.nextAlloc = s.nextAlloc + 1)
    (hcoh : CohT env s' t th'.pc) : Inv6 env s' := by
  have hcur : cur s' = cur s := cur_congr (by rw [hd]) hcd
  apply inv6_of hI hthreads ht
  · exact emb_hf_alloc hI.emb e1 e2 (by rw [e3]) mv hd hcd hcf hna (by rw [hthreads]; simp)
  · exact hcoh
  · intro j _; rw [hd]
  · intro j hj; rw [mv.others j hj]; simp [phaseAt, pcAt, e3]
  · intro _; exact ⟨hcur, by rw [hcd]; exact fun _ _ h => h⟩

theorem cur_def (s : Sys) : (lookupN s.hd.data s.cd).getD SigData.empty = cur s := rfl

theorem recordAlloc_none {β} (o : Obs) (c : List (Nat × β)) (na : Nat) :
    recordAlloc o (none : Option β) c na = (c, na, none) := by
  cases o <;> rfl

theorem recordAlloc_noalloc {β} (o : Obs) (p : Option β) (c : List (Nat × β)) (na : Nat) (hno : ∀ n, o ≠ .alloc n) :
    recordAlloc o p c na = (c, na, p) := by
  cases o <;> try rfl
  exact absurd rfl (hno _)

theorem inv6_mLockD {env : Env} {ye : Nat} {s s' : Sys} {t : Nat} {th : Thread} {out : StepOut} {op : Op}
    (hI : Inv6 env s) (hth : s.threads[t]? = some th) (hpc : th.pc = .mLockD op)
    (hs : step env ye s t = some (s', out)) : Inv6 env s' := by
  have ht := (List.getElem?_eq_some_iff.1 hth).1
  have hc := hI.coh t th hth; rw [hpc] at hc; simp only [CohT] at hc
  obtain ⟨hcD, hcF⟩ := hc
  unfold step at hs; simp only [hth, hpc, cur_def] at hs
  cases hb : hlBegin ye s.hd t (.write (willStore env (cur s) op) false) with
  | none => simp [hb] at hs
  | some r =>
    obtain ⟨hd', o⟩ := r
    have mv := mv_begin hI.emb.hd hI.emb.nsD hcD hb
    have tr := mv.tr; rw [hcD] at tr; simp [PhaseTr] at tr
    obtain ⟨hp', ho, _⟩ := tr
    simp only [hb, Option.some.injEq, Prod.mk.injEq] at hs
    obtain ⟨rfl, rfl⟩ := hs
    refine inv6_hd_move hI ht rfl rfl rfl hI.emb.naD rfl mv (by rw [ho]; intro n h; cases h) rfl rfl rfl rfl ?_
    have hcur : cur (setT { s with hd := hd' } t { th with pc := .mLoadD op }) = cur s :=
      cur_congr (by show hd'.data = s.hd.data; rw [mv.eff.data, ho]; rfl) rfl
    simp only [CohT]
    rw [hcur]
    exact ⟨hp', hcF⟩


theorem inv6_mLoadD {env : Env} {ye : Nat} {s s' : Sys} {t : Nat} {th : Thread} {out : StepOut} {op : Op}
    (hI : Inv6 env s) (hth : s.threads[t]? = some th) (hpc : th.pc = .mLoadD op)
    (hs : step env ye s t = some (s', out)) : Inv6 env s' := by
  have ht := (List.getElem?_eq_some_iff.1 hth).1
  have hc := hI.coh t th hth; rw [hpc] at hc; simp only [CohT] at hc
  obtain ⟨hcD, hcF⟩ := hc
  unfold step at hs; simp only [hth, hpc, cur_def] at hs
  cases hb : HalfLock.step ye s.hd t with
  | none => simp [hb] at hs
  | some r =>
    obtain ⟨hd', o⟩ := r
    have mv := mv_step hI.emb.hd hI.emb.nsD hb
    have tr := mv.tr; rw [hcD] at tr; simp only [PhaseTr] at tr
    obtain ⟨hp', ho⟩ := tr
    have hno : ∀ n, o ≠ .alloc n := by rw [ho]; intro n h; cases h
    have hcur : ∀ th', cur (setT { s with hd := hd' } t th') = cur s := fun th' =>
      cur_congr (by show hd'.data = s.hd.data; rw [mv.eff.data, ho]; rfl) rfl
    simp only [hb] at hs
    rcases hp : plan env (cur s) op with ⟨_ | new, res, first⟩
    · -- nothing to publish
      simp only [hp, Option.some.injEq, Prod.mk.injEq] at hs
      obtain ⟨rfl, rfl⟩ := hs
      refine inv6_hd_move hI ht rfl rfl rfl hI.emb.naD rfl mv hno rfl rfl rfl rfl ?_
      simp only [CohT]
      have hw : willStore env (cur s) op = false := by simp [willStore, hp]
      rw [hw] at hp'
      exact ⟨hp', hcF⟩
    · cases first with
      | false =>
        simp only [hp, Option.some.injEq, Prod.mk.injEq] at hs
        obtain ⟨rfl, rfl⟩ := hs
        refine inv6_hd_move hI ht rfl rfl rfl hI.emb.naD rfl mv hno rfl rfl rfl rfl ?_
        simp only [CohT]
        have hw : willStore env (cur s) op = true := by simp [willStore, hp]
        rw [hw] at hp'
        refine ⟨?_, hcF⟩
        rw [show phaseAt (setT { s with hd := hd' } t { th with pc := .mRunD (some new) res }).hd t = .wAlloc from hp']
        simp only [RunD]
        rw [hcur]
        exact ⟨new, rfl, Or.inl ⟨op, hp⟩⟩
      | true =>
        obtain ⟨chk, sig, tag, rfl, hl, hnew, hres⟩ := plan_first env (cur s) op new res hp
        simp only [hp, Option.some.injEq, Prod.mk.injEq] at hs
        obtain ⟨rfl, rfl⟩ := hs
        refine inv6_hd_move hI ht rfl rfl rfl hI.emb.naD rfl mv hno rfl rfl rfl rfl ?_
        simp only [CohT, First]
        rw [hcur]
        have hw : willStore env (cur s) (.register chk sig tag) = wsF env sig := by simp [willStore, hp, wsF]
        rw [hw] at hp'
        exact ⟨⟨hl, hnew, hres⟩, hp', hcF⟩


theorem tr_begin_write {h : HalfLock.Sys} {ws b : Bool} {p' : Phase} {o : Obs}
    (tr : PhaseTr h (some (.write ws b)) .idle p' o) :
    p' = .wLoad ws ∧ o = .mutexLock h.poisoned ∧ h.mutexOwner = none := by
  simp only [PhaseTr] at tr
  rcases tr with ⟨u, hc, _⟩ | ⟨st, b', hc, hp, ho, hm⟩
  · cases hc
  · cases hc; exact ⟨hp, ho, hm⟩

theorem inv6_mLockF {env : Env} {ye : Nat} {s s' : Sys} {t : Nat} {th : Thread} {out : StepOut}
    {sig : Int} {tag : Nat} {new : SigData} {res : Ret}
    (hI : Inv6 env s) (hth : s.threads[t]? = some th) (hpc : th.pc = .mLockF sig tag new res)
    (hs : step env ye s t = some (s', out)) : Inv6 env s' := by
  have ht := (List.getElem?_eq_some_iff.1 hth).1
  have hc := hI.coh t th hth; rw [hpc] at hc; simp only [CohT] at hc
  obtain ⟨hfirst, hcD, hcF⟩ := hc
  unfold step at hs; simp only [hth, hpc] at hs
  cases hb : hlBegin ye s.hf t (.write (!(env.rejectsQuery sig)) false) with
  | none => simp [hb] at hs
  | some r =>
    obtain ⟨hf', o⟩ := r
    have mv := mv_begin hI.emb.hf hI.emb.nsF hcF hb
    have tr := mv.tr; rw [hcF] at tr
    obtain ⟨hp', ho, _⟩ := tr_begin_write tr
    simp only [hb, Option.some.injEq, Prod.mk.injEq] at hs
    obtain ⟨rfl, rfl⟩ := hs
    refine inv6_hf_move hI ht rfl rfl hI.emb.naF rfl mv (by rw [ho]; intro n h; cases h) rfl rfl rfl rfl ?_
    simp only [CohT]
    exact ⟨hfirst, hcD, hp'⟩

theorem inv6_mLoadF {env : Env} {ye : Nat} {s s' : Sys} {t : Nat} {th : Thread} {out : StepOut}
    {sig : Int} {tag : Nat} {new : SigData} {res : Ret}
    (hI : Inv6 env s) (hth : s.threads[t]? = some th) (hpc : th.pc = .mLoadF sig tag new res)
    (hs : step env ye s t = some (s', out)) : Inv6 env s' := by
  have ht := (List.getElem?_eq_some_iff.1 hth).1
  have hc := hI.coh t th hth; rw [hpc] at hc; simp only [CohT] at hc
  obtain ⟨hfirst, hcD, hcF⟩ := hc
  unfold step at hs; simp only [hth, hpc] at hs
  cases hb : HalfLock.step ye s.hf t with
  | none => simp [hb] at hs
  | some r =>
    obtain ⟨hf', o⟩ := r
    have mv := mv_step hI.emb.hf hI.emb.nsF hb
    have tr := mv.tr; rw [hcF] at tr; simp only [PhaseTr] at tr
    obtain ⟨hp', ho⟩ := tr
    simp only [hb, Option.some.injEq, Prod.mk.injEq] at hs
    obtain ⟨rfl, rfl⟩ := hs
    refine inv6_hf_move hI ht rfl rfl hI.emb.naF rfl mv (by rw [ho]; intro n h; cases h) rfl rfl rfl rfl ?_
    simp only [CohT]
    exact ⟨hfirst, hcD, hp'⟩

theorem inv6_mQuery {env : Env} {ye : Nat} {s s' : Sys} {t : Nat} {th : Thread} {out : StepOut}
    {sig : Int} {tag : Nat} {new : SigData} {res : Ret}
    (hI : Inv6 env s) (hth : s.threads[t]? = some th) (hpc : th.pc = .mQuery sig tag new res)
    (hs : step env ye s t = some (s', out)) : Inv6 env s' := by
  have ht := (List.getElem?_eq_some_iff.1 hth).1
  have hc := hI.coh t th hth; rw [hpc] at hc; simp only [CohT] at hc
  obtain ⟨hfirst, hcD, hcF⟩ := hc
  unfold step at hs; simp only [hth, hpc] at hs
  cases hq : env.rejectsQuery sig with
  | true =>
    simp only [hq, if_true, Option.some.injEq, Prod.mk.injEq] at hs
    obtain ⟨rfl, rfl⟩ := hs
    refine inv6_local hI ht rfl rfl rfl rfl rfl rfl ?_
    simp only [CohT]
    simp only [wsF, hq, Bool.not_true, Bool.false_and, stPhase, Bool.false_eq_true, if_false] at hcD hcF
    exact ⟨hcD, hcF⟩
  | false =>
    simp only [hq, Bool.false_eq_true, if_false, Option.some.injEq, Prod.mk.injEq] at hs
    obtain ⟨rfl, rfl⟩ := hs
    refine inv6_local hI ht rfl rfl rfl rfl rfl rfl ?_
    simp only [CohT]
    simp only [hq, Bool.not_false, stPhase, if_true] at hcF
    refine ⟨hfirst, hq, hcD, ?_⟩
    rw [hcF]; exact ⟨_, rfl⟩

theorem inv6_mUnlockF {env : Env} {ye : Nat} {s s' : Sys} {t : Nat} {th : Thread} {out : StepOut}
    {res : Ret} {drops : List Nat}
    (hI : Inv6 env s) (hth : s.threads[t]? = some th) (hpc : th.pc = .mUnlockF res drops)
    (hs : step env ye s t = some (s', out)) : Inv6 env s' := by
  have ht := (List.getElem?_eq_some_iff.1 hth).1
  have hc := hI.coh t th hth; rw [hpc] at hc; simp only [CohT] at hc
  obtain ⟨hcD, hcF⟩ := hc
  unfold step at hs; simp only [hth, hpc] at hs
  cases hb : HalfLock.step ye s.hf t with
  | none => simp [hb] at hs
  | some r =>
    obtain ⟨hf', o⟩ := r
    have mv := mv_step hI.emb.hf hI.emb.nsF hb
    have tr := mv.tr; rw [hcF] at tr; simp only [PhaseTr] at tr
    obtain ⟨hp', b, ho⟩ := tr
    simp only [hb, Option.some.injEq, Prod.mk.injEq] at hs
    obtain ⟨rfl, rfl⟩ := hs
    refine inv6_hf_move hI ht rfl rfl hI.emb.naF rfl mv (by rw [ho]; intro n h; cases h) rfl rfl rfl rfl ?_
    simp only [CohT]
    exact ⟨hcD, hp'⟩

theorem inv6_mUnlockD {env : Env} {ye : Nat} {s s' : Sys} {t : Nat} {th : Thread} {out : StepOut}
    {res : Ret} {drops : List Nat}
    (hI : Inv6 env s) (hth : s.threads[t]? = some th) (hpc : th.pc = .mUnlockD res drops)
    (hs : step env ye s t = some (s', out)) : Inv6 env s' := by
  have ht := (List.getElem?_eq_some_iff.1 hth).1
  have hc := hI.coh t th hth; rw [hpc] at hc; simp only [CohT] at hc
  obtain ⟨hcD, hcF⟩ := hc
  unfold step at hs; simp only [hth, hpc] at hs
  cases hb : HalfLock.step ye s.hd t with
  | none => simp [hb] at hs
  | some r =>
    obtain ⟨hd', o⟩ := r
    have mv := mv_step hI.emb.hd hI.emb.nsD hb
    have tr := mv.tr; rw [hcD] at tr; simp only [PhaseTr] at tr
    obtain ⟨hp', b, ho⟩ := tr
    simp only [hb, Option.some.injEq, Prod.mk.injEq] at hs
    obtain ⟨rfl, rfl⟩ := hs
    refine inv6_hd_move hI ht rfl rfl rfl hI.emb.naD rfl mv (by rw [ho]; intro n h; cases h) rfl rfl rfl rfl ?_
    simp only [CohT]
    exact ⟨hp', hcF⟩

theorem inv6_mSet {env : Env} {ye : Nat} {s s' : Sys} {t : Nat} {th : Thread} {out : StepOut}
    {sig : Int} {tag : Nat} {new : SigData} {res : Ret}
    (hI : Inv6 env s) (hth : s.threads[t]? = some th) (hpc : th.pc = .mSet sig tag new res)
    (hs : step env ye s t = some (s', out)) : Inv6 env s' := by
  have ht := (List.getElem?_eq_some_iff.1 hth).1
  have hc := hI.coh t th hth; rw [hpc] at hc; simp only [CohT] at hc
  obtain ⟨hfirst, hq, hcD, hcF⟩ := hc
  unfold step at hs; simp only [hth, hpc] at hs
  cases hr : env.rejectsSet sig with
  | true =>
    simp only [hr, if_true, Option.some.injEq, Prod.mk.injEq] at hs
    obtain ⟨rfl, rfl⟩ := hs
    refine inv6_local hI ht rfl rfl rfl rfl rfl rfl ?_
    simp only [CohT]
    simp only [wsF, hr, Bool.not_true, Bool.and_false, stPhase, Bool.false_eq_true, if_false] at hcD
    exact ⟨hcD, hcF⟩
  | false =>
    simp only [hr, Bool.false_eq_true, if_false, Option.some.injEq, Prod.mk.injEq] at hs
    obtain ⟨rfl, rfl⟩ := hs
    refine inv6_local hI ht rfl rfl rfl rfl rfl rfl ?_
    simp only [CohT]
    simp only [wsF, hq, hr, Bool.not_false, Bool.and_self, stPhase, if_true] at hcD
    refine ⟨?_, hcF⟩
    rw [hcD]
    simp only [RunD]
    obtain ⟨hl, hnew, hres⟩ := hfirst
    refine ⟨_, rfl, Or.inr ⟨true, sig, tag, dispOf s sig, ?_, hq, hr, ?_⟩⟩
    · simp [plan, hl, hres]
    · rw [hnew, hres]; rfl


theorem tr_noalloc {h : HalfLock.Sys} {cmd : Option HalfLock.Cmd} {p p' : Phase} {o : Obs}
    (tr : PhaseTr h cmd p p' o) (hp : p ≠ .wAlloc) : ∀ n, o ≠ .alloc n := by
  intro n ho; rw [ho] at tr; exact hp (tr_alloc tr)

theorem inv6_mRunF {env : Env} {ye : Nat} {s s' : Sys} {t : Nat} {th : Thread} {out : StepOut}
    {sig : Int} {tag : Nat} {fb : Option (Option (Int × Disp))} {new : SigData} {res : Ret}
    (hI : Inv6 env s) (hth : s.threads[t]? = some th) (hpc : th.pc = .mRunF sig tag fb new res)
    (hs : step env ye s t = some (s', out)) : Inv6 env s' := by
  have ht := (List.getElem?_eq_some_iff.1 hth).1
  have hc := hI.coh t th hth; rw [hpc] at hc; simp only [CohT] at hc
  obtain ⟨hfirst, hq, hcD, hrun⟩ := hc
  unfold step at hs; simp only [hth, hpc] at hs
  cases hb : HalfLock.step ye { s.hf with nextSnap := s.nextAlloc } t with
  | none => simp [hb] at hs
  | some r =>
    obtain ⟨hf', o⟩ := r
    have mv := mv_alloc hI.emb.hf hI.emb.nsF hI.emb.naF hb
    have tr := mv.tr
    rw [show phaseAt { s.hf with nextSnap := s.nextAlloc } t = phaseAt s.hf t from rfl] at tr
    simp only [hb] at hs
    -- every step but the allocation
    have fin : (∀ n, o ≠ .alloc n) → fb = none →
        (phaseAt hf' t = .idle ∨ (phaseAt hf' t ≠ .idle ∧ RunF none (phaseAt hf' t))) → Inv6 env s' := by
      intro hno hfb hcase
      subst hfb
      simp only [recordAlloc_none] at hs
      rcases hcase with hidle | ⟨hni, hr'⟩
      · have hi := (hlPc_idle_iff hf' t).2 hidle
        simp only [hi, beq_self_eq_true, if_true, Option.some.injEq, Prod.mk.injEq] at hs
        obtain ⟨rfl, rfl⟩ := hs
        refine inv6_hf_move (h0 := { s.hf with nextSnap := s.nextAlloc }) hI ht rfl rfl (Nat.le_refl _) rfl mv hno rfl rfl rfl rfl ?_
        simp only [CohT]
        exact ⟨hfirst, hq, hcD, hidle⟩
      · have hi := not_idle_of_phase rfl hni
        simp only [hi, Bool.false_eq_true, if_false, Option.some.injEq, Prod.mk.injEq] at hs
        obtain ⟨rfl, rfl⟩ := hs
        refine inv6_hf_move (h0 := { s.hf with nextSnap := s.nextAlloc }) hI ht rfl rfl (Nat.le_refl _) rfl mv hno rfl rfl rfl rfl ?_
        simp only [CohT]
        exact ⟨hfirst, hq, hcD, hr'⟩
    cases hph : phaseAt s.hf t <;> rw [hph] at hrun tr <;> simp only [RunF] at hrun
    case wAlloc =>
      obtain ⟨v, rfl⟩ := hrun
      simp only [PhaseTr] at tr
      obtain ⟨hp', ho⟩ := tr
      subst ho
      have hi := not_idle_of_phase hp' (by intro h; cases h)
      simp only [hi, recordAlloc, Bool.false_eq_true, if_false, Option.some.injEq, Prod.mk.injEq] at hs
      obtain ⟨rfl, rfl⟩ := hs
      refine inv6_hf_alloc (h0 := { s.hf with nextSnap := s.nextAlloc }) hI ht rfl rfl rfl rfl mv rfl rfl rfl rfl ?_
      simp only [CohT]
      refine ⟨hfirst, hq, hcD, ?_⟩
      rw [show phaseAt (setT { s with hf := hf', cf := (s.nextAlloc, v) :: s.cf, nextAlloc := s.nextAlloc + 1 } t
        { th with pc := .mRunF sig tag none new res }).hf t = .wSwap s.nextAlloc from hp']
      rfl
    case wSwap n =>
      have hno := tr_noalloc tr (by intro h; cases h)
      simp only [PhaseTr] at tr
      exact fin hno hrun (Or.inr ⟨(by rw [tr.1]; intro h; cases h), (by rw [tr.1]; rfl)⟩)
    case wWait old =>
      have hno := tr_noalloc tr (by intro h; cases h)
      simp only [PhaseTr] at tr
      rcases tr.1 with h | h
      · exact fin hno hrun (Or.inr ⟨(by rw [h]; intro h; cases h), (by rw [h]; rfl)⟩)
      · exact fin hno hrun (Or.inr ⟨(by rw [h]; intro h; cases h), (by rw [h]; rfl)⟩)
    case wFree old =>
      have hno := tr_noalloc tr (by intro h; cases h)
      simp only [PhaseTr] at tr
      exact fin hno hrun (Or.inr ⟨(by rw [tr.1]; intro h; cases h), (by rw [tr.1]; rfl)⟩)
    case wUnlock =>
      have hno := tr_noalloc tr (by intro h; cases h)
      simp only [PhaseTr] at tr
      exact fin hno hrun (Or.inl tr.1)


theorem inv6_mRunD {env : Env} {ye : Nat} {s s' : Sys} {t : Nat} {th : Thread} {out : StepOut}
    {new : Option SigData} {res : Ret}
    (hI : Inv6 env s) (hth : s.threads[t]? = some th) (hpc : th.pc = .mRunD new res)
    (hs : step env ye s t = some (s', out)) : Inv6 env s' := by
  have ht := (List.getElem?_eq_some_iff.1 hth).1
  have hc := hI.coh t th hth; rw [hpc] at hc; simp only [CohT] at hc
  obtain ⟨hrun, hcF⟩ := hc
  unfold step at hs; simp only [hth, hpc] at hs
  cases hb : HalfLock.step ye { s.hd with nextSnap := s.nextAlloc } t with
  | none => simp [hb] at hs
  | some r =>
    obtain ⟨hd', o⟩ := r
    have mv := mv_alloc hI.emb.hd hI.emb.nsD hI.emb.naD hb
    have tr := mv.tr
    rw [show phaseAt { s.hd with nextSnap := s.nextAlloc } t = phaseAt s.hd t from rfl] at tr
    simp only [hb] at hs
    have fin : (∀ n, o ≠ .alloc n) → new = none →
        (phaseAt hd' t = .idle ∨ (phaseAt hd' t ≠ .idle ∧ ∀ s'', RunD env s'' none res (phaseAt hd' t))) →
        Inv6 env s' := by
      intro hno hnew hcase
      subst hnew
      simp only [recordAlloc_none] at hs
      rcases hcase with hidle | ⟨hni, hr'⟩
      · have hi := (hlPc_idle_iff hd' t).2 hidle
        simp only [hi, beq_self_eq_true, if_true, Option.some.injEq, Prod.mk.injEq] at hs
        obtain ⟨rfl, rfl⟩ := hs
        refine inv6_hd_move (h0 := { s.hd with nextSnap := s.nextAlloc }) hI ht rfl rfl rfl (Nat.le_refl _) rfl mv hno
          rfl rfl rfl rfl ?_
        simp only [CohT]
        exact ⟨hidle, hcF⟩
      · have hi := not_idle_of_phase rfl hni
        simp only [hi, Bool.false_eq_true, if_false, Option.some.injEq, Prod.mk.injEq] at hs
        obtain ⟨rfl, rfl⟩ := hs
        refine inv6_hd_move (h0 := { s.hd with nextSnap := s.nextAlloc }) hI ht rfl rfl rfl (Nat.le_refl _) rfl mv hno
          rfl rfl rfl rfl ?_
        simp only [CohT]
        exact ⟨hr' _, hcF⟩
    cases hph : phaseAt s.hd t <;> rw [hph] at hrun tr <;> simp only [RunD] at hrun
    case wAlloc =>
      obtain ⟨v, rfl, hpub⟩ := hrun
      simp only [PhaseTr] at tr
      obtain ⟨hp', ho⟩ := tr
      subst ho
      have hi := not_idle_of_phase hp' (by intro h; cases h)
      simp only [hi, recordAlloc, Bool.false_eq_true, if_false, Option.some.injEq, Prod.mk.injEq] at hs
      obtain ⟨rfl, rfl⟩ := hs
      refine inv6_hd_alloc (h0 := { s.hd with nextSnap := s.nextAlloc }) hI ht rfl rfl rfl rfl mv rfl rfl rfl rfl ?_
      simp only [CohT]
      refine ⟨?_, hcF⟩
      rw [show phaseAt (setT { s with hd := hd', cd := (s.nextAlloc, v) :: s.cd, nextAlloc := s.nextAlloc + 1 } t
        { th with pc := .mRunD none res }).hd t = .wSwap s.nextAlloc from hp']
      simp only [RunD]
      have hdl := hI.emb.hd.fresh _ hI.emb.hd.dataLive
      have hna := hI.emb.naD
      have hcur : cur (setT { s with hd := hd', cd := (s.nextAlloc, v) :: s.cd, nextAlloc := s.nextAlloc + 1 } t
          { th with pc := .mRunD none res }) = cur s := by
        show (lookupN hd'.data ((s.nextAlloc, v) :: s.cd)).getD SigData.empty = cur s
        rw [mv.eff.data]
        show (lookupN s.hd.data ((s.nextAlloc, v) :: s.cd)).getD SigData.empty = cur s
        rw [lookupN_cons_ne _ _ _ _ (by omega)]; rfl
      rw [hcur]
      exact ⟨trivial, v, lookupN_cons_self _ _ _, hpub⟩
    case wSwap n =>
      have hno := tr_noalloc tr (by intro h; cases h)
      simp only [PhaseTr] at tr
      exact fin hno hrun.1 (Or.inr ⟨(by rw [tr.1]; intro h; cases h), (by rw [tr.1]; intro _; rfl)⟩)
    case wWait old =>
      have hno := tr_noalloc tr (by intro h; cases h)
      simp only [PhaseTr] at tr
      rcases tr.1 with h | h
      · exact fin hno hrun (Or.inr ⟨(by rw [h]; intro h; cases h), (by rw [h]; intro _; rfl)⟩)
      · exact fin hno hrun (Or.inr ⟨(by rw [h]; intro h; cases h), (by rw [h]; intro _; rfl)⟩)
    case wFree old =>
      have hno := tr_noalloc tr (by intro h; cases h)
      simp only [PhaseTr] at tr
      exact fin hno hrun (Or.inr ⟨(by rw [tr.1]; intro h; cases h), (by rw [tr.1]; intro _; rfl)⟩)
    case wUnlock =>
      have hno := tr_noalloc tr (by intro h; cases h)
      simp only [PhaseTr] at tr
      exact fin hno hrun (Or.inl tr.1)

/-! ## all steps, all reachable states -/

theorem inv6_step {env : Env} {ye : Nat} {s s' : Sys} {t : Nat} {out : StepOut}
    (hI : Inv6 env s) (hs : step env ye s t = some (s', out)) : Inv6 env s' := by
  cases hth : s.threads[t]? with
  | none => unfold step at hs; simp [hth] at hs
  | some th =>
    cases hpc : th.pc with
    | idle => exact inv6_idle hI hth hpc hs
    | dFb sig => exact inv6_dFb hI hth hpc hs
    | dData sig => exact inv6_dData hI hth hpc hs
    | dPlan sig pv tags => exact inv6_dPlan hI hth hpc hs
    | dRelF sig => exact inv6_dRelF hI hth hpc hs
    | mLockD op => exact inv6_mLockD hI hth hpc hs
    | mLoadD op => exact inv6_mLoadD hI hth hpc hs
    | mRunD new res => exact inv6_mRunD hI hth hpc hs
    | mUnlockD res drops => exact inv6_mUnlockD hI hth hpc hs
    | mLockF sig tag new res => exact inv6_mLockF hI hth hpc hs
    | mLoadF sig tag new res => exact inv6_mLoadF hI hth hpc hs
    | mQuery sig tag new res => exact inv6_mQuery hI hth hpc hs
    | mRunF sig tag fb new res => exact inv6_mRunF hI hth hpc hs
    | mUnlockF res drops => exact inv6_mUnlockF hI hth hpc hs
    | mSet sig tag new res => exact inv6_mSet hI hth hpc hs

/-- reachability by any schedule -/
inductive Reachable (env : Env) (ye : Nat) (disp : List (Int × Disp)) (scripts : List (List Op)) : Sys → Prop where
  | init : Reachable env ye disp scripts (Sys.init disp scripts)
  | step {s s' : Sys} {t : Nat} {out : StepOut} :
      Reachable env ye disp scripts s → step env ye s t = some (s', out) → Reachable env ye disp scripts s'

/-- an embedded half-lock at start: snapshot `d` published, `n` idle threads -/
def hl0 (d n : Nat) : HalfLock.Sys :=
  { data := d, gen := 0, lock0 := 0, lock1 := 0, mutexOwner := none, poisoned := false, bombs := [],
    nextSnap := 2, live := [d], freed := [], threads := idleThreads n }

theorem hl0_idle (d n j : Nat) : phaseAt (hl0 d n) j = .idle := by
  simp only [phaseAt, pcAt, hl0, idleThreads]
  by_cases hj : j < n <;> simp [List.getElem?_replicate, hj, HalfLock.Pc.phase]

theorem hl0_inv (d n : Nat) (hd : d < 2) : HalfLock.Inv (hl0 d n) := by
  have hpc : ∀ i (h : i < (hl0 d n).threads.length), ((hl0 d n).threads[i]).pc = .idle := by
    intro i h; simp [hl0, idleThreads]
  constructor
  · symm; show List.countP _ _ = 0; rw [List.countP_eq_zero]
    intro th hth; simp only [hl0, idleThreads, List.mem_replicate] at hth; rw [hth.2]; simp [HalfLock.Pc.slot0]
  · symm; show List.countP _ _ = 0; rw [List.countP_eq_zero]
    intro th hth; simp only [hl0, idleThreads, List.mem_replicate] at hth; rw [hth.2]; simp [HalfLock.Pc.slot1]
  · simp [hl0]
  · intro i h p hp; rw [hpc i h] at hp; simp [HalfLock.Pc.holds] at hp
  · intro i h old z0 z1 hp; rw [hpc i h] at hp; simp [HalfLock.Pc.post] at hp
  · intro x hx; simp [hl0] at hx ⊢; omega
  · intro i h new hp; rw [hpc i h] at hp; simp [HalfLock.Pc.pendingNew] at hp
  · intro i h; rw [hpc i h]; simp [HalfLock.Pc.crit, hl0]
  · simp [hl0]
  · simp [hl0]
  · simp [hl0]
  · simp [hl0]

theorem hl0_ns (d n : Nat) : NoScripts (hl0 d n) := by
  intro j th hth
  simp only [hl0, idleThreads, List.getElem?_replicate] at hth
  split at hth
  · injection hth with hth; rw [← hth]
  · cases hth

theorem init_hd (disp : List (Int × Disp)) (scripts : List (List Op)) :
    (Sys.init disp scripts).hd = hl0 0 scripts.length := rfl
theorem init_hf (disp : List (Int × Disp)) (scripts : List (List Op)) :
    (Sys.init disp scripts).hf = hl0 1 scripts.length := rfl

theorem inv6_init (env : Env) (disp : List (Int × Disp)) (scripts : List (List Op)) :
    Inv6 env (Sys.init disp scripts) := by
  refine ⟨⟨?_, ?_, ?_, ?_, ?_, ?_, Nat.le_refl _, Nat.le_refl _, ?_, ?_⟩, ?_⟩
  · rw [init_hd]; exact hl0_inv 0 _ (by omega)
  · rw [init_hf]; exact hl0_inv 1 _ (by omega)
  · simp [Sys.init, idleThreads]
  · simp [Sys.init, idleThreads]
  · rw [init_hd]; exact hl0_ns _ _
  · rw [init_hf]; exact hl0_ns _ _
  · intro x hx; simp [Sys.init] at hx; subst hx; simp [Sys.init, lookupN]
  · intro x hx; simp [Sys.init] at hx; subst hx; simp [Sys.init, lookupN]
  · intro t th hth
    simp only [Sys.init, List.getElem?_map] at hth
    cases hsc : scripts[t]? with
    | none => simp [hsc] at hth
    | some sc =>
      simp [hsc] at hth; subst hth
      simp only [CohT]
      rw [init_hd, init_hf]
      exact ⟨hl0_idle _ _ _, hl0_idle _ _ _⟩

theorem inv6_reachable {env : Env} {ye : Nat} {disp : List (Int × Disp)} {scripts : List (List Op)} {s : Sys}
    (h : Reachable env ye disp scripts s) : Inv6 env s := by
  induction h with
  | init => exact inv6_init env disp scripts
  | step _ hs ih => exact inv6_step ih hs

end SigHook.RegConc
