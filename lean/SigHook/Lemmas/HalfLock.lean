import SigHook.Model.HalfLock
/-! Invariants of the half-lock step machine (L3) and their preservation by every step. -/
namespace SigHook.HalfLock

/-- the thread has incremented `lock[0]` and not yet decremented it -/
def Pc.slot0 : Pc → Bool
  | .rData s _ => s == 0
  | .rUse s _ _ => s == 0
  | _ => false

/-- the thread has incremented `lock[1]` and not yet decremented it -/
def Pc.slot1 : Pc → Bool
  | .rData s _ => s != 0
  | .rUse s _ _ => s != 0
  | _ => false

/-- the snapshot a reader has pinned (it holds a `&T` into it) -/
def Pc.holds : Pc → Option Nat
  | .rUse _ p _ => some p
  | _ => none

/-- the thread holds the writer mutex -/
def Pc.crit : Pc → Bool
  | .wLoad .. | .wAlloc _ | .wSwap _ | .wSeen0 _ | .wSeen1 .. | .wFlip .. | .wHint .. | .wLoop0 ..
  | .wLoop1 .. | .wFree _ | .wUnlock _ => true
  | _ => false

/-- a writer after its swap: the snapshot it swapped out and which slots it has seen idle since -/
def Pc.post : Pc → Option (Nat × Bool × Bool)
  | .wSeen0 old => some (old, false, false)
  | .wSeen1 old z0 => some (old, z0, false)
  | .wFlip old z0 z1 => some (old, z0, z1)
  | .wHint old z0 z1 _ => some (old, z0, z1)
  | .wLoop0 old _ z1 _ => some (old, false, z1)
  | .wLoop1 old z0 _ _ => some (old, z0, false)
  | .wFree old => some (old, true, true)
  | _ => none

/-- a writer that has allocated the new snapshot and not yet published it -/
def Pc.pendingNew : Pc → Option Nat
  | .wSwap new => some new
  | _ => none

structure Inv (s : Sys) : Prop where
  count0 : s.lock0 = s.threads.countP (fun th => th.pc.slot0)
  count1 : s.lock1 = s.threads.countP (fun th => th.pc.slot1)
  dataLive : s.data ∈ s.live
  holdLive : ∀ i (h : i < s.threads.length) p, (s.threads[i]).pc.holds = some p → p ∈ s.live
  post : ∀ i (h : i < s.threads.length) old z0 z1, (s.threads[i]).pc.post = some (old, z0, z1) →
    old ∈ s.live ∧ old ≠ s.data ∧
    (z0 = true → ∀ j (hj : j < s.threads.length), (s.threads[j]).pc.slot0 = true → (s.threads[j]).pc.holds ≠ some old) ∧
    (z1 = true → ∀ j (hj : j < s.threads.length), (s.threads[j]).pc.slot1 = true → (s.threads[j]).pc.holds ≠ some old)
  fresh : ∀ x ∈ s.live, x < s.nextSnap
  pending : ∀ i (h : i < s.threads.length) new, (s.threads[i]).pc.pendingNew = some new →
    new ∈ s.live ∧ new ≠ s.data
  mutex : ∀ i (h : i < s.threads.length), (s.threads[i]).pc.crit = true ↔ s.mutexOwner = some i
  liveNodup : s.live.Nodup
  freedNotLive : ∀ x ∈ s.freed, x.1 ∉ s.live
  freedNodup : (s.freed.map (·.1)).Nodup
  freedFresh : ∀ x ∈ s.freed, x.1 < s.nextSnap

theorem inv_init (scripts : List (List Cmd)) : Inv (Sys.init scripts) := by
  have hidle : ∀ i (h : i < (Sys.init scripts).threads.length), ((Sys.init scripts).threads[i]).pc = .idle := by
    intro i h; simp [Sys.init]
  constructor
  · symm; show List.countP _ _ = 0; rw [List.countP_eq_zero]
    intro th hth; simp only [Sys.init, List.mem_map] at hth
    obtain ⟨sc, _, rfl⟩ := hth; simp [Pc.slot0]
  · symm; show List.countP _ _ = 0; rw [List.countP_eq_zero]
    intro th hth; simp only [Sys.init, List.mem_map] at hth
    obtain ⟨sc, _, rfl⟩ := hth; simp [Pc.slot1]
  · simp [Sys.init]
  · intro i h p hp; rw [hidle i h] at hp; simp [Pc.holds] at hp
  · intro i h old z0 z1 hp; rw [hidle i h] at hp; simp [Pc.post] at hp
  · simp [Sys.init]
  · intro i h new hp; rw [hidle i h] at hp; simp [Pc.pendingNew] at hp
  · intro i h; rw [hidle i h]; simp [Pc.crit, Sys.init]
  · simp [Sys.init]
  · simp [Sys.init]
  · simp [Sys.init]
  · simp [Sys.init]

end SigHook.HalfLock

namespace SigHook.HalfLock

def b2n (b : Bool) : Nat := if b then 1 else 0

theorem countP_set_b2n (p : Thread → Bool) (l : List Thread) (t : Nat) (th' : Thread)
    (ht : t < l.length) :
    List.countP p (l.set t th') + b2n (p l[t]) = List.countP p l + b2n (p th') := by
  rw [List.countP_set ht]
  have hpos : p l[t] = true → 0 < List.countP p l := fun h =>
    List.countP_pos_iff.2 ⟨l[t], List.getElem_mem ht, h⟩
  unfold b2n
  by_cases h1 : p l[t] = true <;> by_cases h2 : p th' = true <;> simp [h1, h2]
  · have := hpos h1; omega
  · have := hpos h1; omega

theorem countP_zero_none (p : Thread → Bool) (l : List Thread) (h : List.countP p l = 0)
    (j : Nat) (hj : j < l.length) : p l[j] = false := by
  rw [List.countP_eq_zero] at h
  have := h l[j] (List.getElem_mem hj)
  simpa using this

/-- a pinned snapshot is pinned from inside one of the two slots -/
theorem holds_in_slot (pc : Pc) (p : Nat) (h : pc.holds = some p) : pc.slot0 = true ∨ pc.slot1 = true := by
  cases pc <;> simp [Pc.holds] at h
  rename_i slot _ _
  by_cases hs : slot = 0 <;> simp [Pc.slot0, Pc.slot1, hs]

theorem post_crit (pc : Pc) (x : Nat × Bool × Bool) (h : pc.post = some x) : pc.crit = true := by
  cases pc <;> simp [Pc.post] at h <;> rfl

theorem post_no_slot (pc : Pc) (x : Nat × Bool × Bool) (h : pc.post = some x) :
    pc.slot0 = false ∧ pc.slot1 = false := by
  cases pc <;> simp [Pc.post] at h <;> exact ⟨rfl, rfl⟩

theorem pending_crit (pc : Pc) (x : Nat) (h : pc.pendingNew = some x) : pc.crit = true := by
  cases pc <;> simp [Pc.pendingNew] at h <;> rfl

/-- How one step may change the state, in terms of the stepping thread's old and new program
counters only. Every step except the `free` step satisfies this; it implies the invariant is
preserved (`inv_update`). -/
structure Side (s s' : Sys) (t : Nat) (ht : t < s.threads.length) (th' : Thread) : Prop where
  threads : s'.threads = s.threads.set t th'
  freed : s'.freed = s.freed
  c0 : s'.lock0 + b2n (s.threads[t]).pc.slot0 = s.lock0 + b2n th'.pc.slot0
  c1 : s'.lock1 + b2n (s.threads[t]).pc.slot1 = s.lock1 + b2n th'.pc.slot1
  dataLive : s'.data ∈ s'.live
  liveSub : ∀ x ∈ s.live, x ∈ s'.live
  liveNodup : s'.live.Nodup
  fresh : ∀ x ∈ s'.live, x < s'.nextSnap
  freshMono : s.nextSnap ≤ s'.nextSnap
  liveNew : ∀ x ∈ s'.live, x ∈ s.live ∨ s.nextSnap ≤ x
  dataCh : s'.data = s.data ∨ (s.threads[t]).pc.crit = true
  hold : th'.pc.holds = none ∨ (th'.pc.holds = some s.data ∧ s'.data = s.data) ∨
    (th'.pc.holds = (s.threads[t]).pc.holds ∧ (th'.pc.slot0 = true → (s.threads[t]).pc.slot0 = true) ∧
      (th'.pc.slot1 = true → (s.threads[t]).pc.slot1 = true))
  post : ∀ old z0 z1, th'.pc.post = some (old, z0, z1) →
    (∃ y0 y1, (s.threads[t]).pc.post = some (old, y0, y1) ∧ s'.data = s.data ∧
      (z0 = true → y0 = true ∨ s.lock0 = 0) ∧ (z1 = true → y1 = true ∨ s.lock1 = 0)) ∨
    ((s.threads[t]).pc.pendingNew = some s'.data ∧ old = s.data ∧ z0 = false ∧ z1 = false)
  pending : ∀ new, th'.pc.pendingNew = some new → new ∈ s'.live ∧ new ≠ s'.data
  mutex : (th'.pc.crit = (s.threads[t]).pc.crit ∧ s'.mutexOwner = s.mutexOwner) ∨
    ((s.threads[t]).pc.crit = false ∧ s.mutexOwner = none ∧ th'.pc.crit = true ∧ s'.mutexOwner = some t) ∨
    ((s.threads[t]).pc.crit = true ∧ th'.pc.crit = false ∧ s'.mutexOwner = none)

end SigHook.HalfLock

namespace SigHook.HalfLock

theorem inv_update (s s' : Sys) (t : Nat) (ht : t < s.threads.length) (th' : Thread)
    (hinv : Inv s) (sd : Side s s' t ht th') : Inv s' := by
  have hlen : s'.threads.length = s.threads.length := by rw [sd.threads]; simp
  have hget : ∀ i (h : i < s'.threads.length),
      s'.threads[i] = if t = i then th' else s.threads[i]'(by omega) := by
    intro i h
    have : s'.threads[i] = (s.threads.set t th')[i]'(by simpa using (hlen ▸ h)) := by
      congr 1; exact sd.threads
    rw [this, List.getElem_set]
  -- a thread other than `t` that is critical contradicts `t` being critical
  have hexcl : ∀ j (hj : j < s.threads.length), (s.threads[t]).pc.crit = true →
      (s.threads[j]).pc.crit = true → j = t := by
    intro j hj h1 h2
    have a := (hinv.mutex t ht).1 h1
    have b := (hinv.mutex j hj).1 h2
    rw [a] at b; injection b with b; exact b.symm
  constructor
  · -- count0
    have := countP_set_b2n (fun th => th.pc.slot0) s.threads t th' ht
    rw [sd.threads]; have h0 := hinv.count0; have := sd.c0; omega
  · have := countP_set_b2n (fun th => th.pc.slot1) s.threads t th' ht
    rw [sd.threads]; have h0 := hinv.count1; have := sd.c1; omega
  · exact sd.dataLive
  · -- holdLive
    intro i h p hp
    rw [hget i h] at hp
    split at hp
    · rcases sd.hold with hh | ⟨hh, _⟩ | ⟨hh, _, _⟩
      · rw [hh] at hp; cases hp
      · rw [hh] at hp; injection hp with hp; subst hp; exact sd.liveSub _ hinv.dataLive
      · rw [hh] at hp; exact sd.liveSub _ (hinv.holdLive t ht p hp)
    · exact sd.liveSub _ (hinv.holdLive i (by omega) p hp)
  · -- post
    intro i h old z0 z1 hp
    rw [hget i h] at hp
    -- the new thread never pins `old` from inside a slot that was seen idle
    have hnew : ∀ (y0 y1 : Bool) (hpost : ∃ k, ∃ (hk : k < s.threads.length), (s.threads[k]).pc.post = some (old, y0, y1))
        (hd : s'.data = s.data),
        (y0 = true → th'.pc.slot0 = true → th'.pc.holds ≠ some old) ∧
        (y1 = true → th'.pc.slot1 = true → th'.pc.holds ≠ some old) := by
      intro y0 y1 ⟨k, hk, hpk⟩ hd
      obtain ⟨_, hne, hz0, hz1⟩ := hinv.post k hk old y0 y1 hpk
      rcases sd.hold with hh | ⟨hh, _⟩ | ⟨hh, hs0, hs1⟩
      · rw [hh]; exact ⟨(fun _ _ h => by cases h), (fun _ _ h => by cases h)⟩
      · rw [hh]; exact ⟨fun _ _ h => hne (by injection h with h; exact h.symm),
                        fun _ _ h => hne (by injection h with h; exact h.symm)⟩
      · rw [hh]; exact ⟨fun a b => hz0 a t ht (hs0 b), fun a b => hz1 a t ht (hs1 b)⟩
    split at hp
    · -- the stepping thread itself
      rename_i hti
      rcases sd.post old z0 z1 hp with ⟨y0, y1, hpo, hd, h0, h1⟩ | ⟨hpn, hold, hz0, hz1⟩
      · obtain ⟨hl, hne, hz0, hz1⟩ := hinv.post t ht old y0 y1 hpo
        refine ⟨sd.liveSub _ hl, by rw [hd]; exact hne, ?_, ?_⟩
        · intro hz j hj hs
          rw [hget j hj] at hs ⊢
          split at hs
          · -- j = t : th' is a writer pc (it has a post), so it is in no slot
            rw [(post_no_slot _ _ hp).1] at hs; cases hs
          · rename_i hne'; simp only [hne', if_false]
            rcases h0 hz with hy | hzero
            · exact hz0 hy j (by omega) hs
            · have hc := hinv.count0; rw [hzero] at hc
              have := countP_zero_none (fun th => th.pc.slot0) s.threads hc.symm j (by omega)
              rw [this] at hs; cases hs
        · intro hz j hj hs
          rw [hget j hj] at hs ⊢
          split at hs
          · rw [(post_no_slot _ _ hp).2] at hs; cases hs
          · rename_i hne'; simp only [hne', if_false]
            rcases h1 hz with hy | hzero
            · exact hz1 hy j (by omega) hs
            · have hc := hinv.count1; rw [hzero] at hc
              have := countP_zero_none (fun th => th.pc.slot1) s.threads hc.symm j (by omega)
              rw [this] at hs; cases hs
      · subst hold hz0 hz1
        obtain ⟨hnl, hnd⟩ := hinv.pending t ht _ hpn
        exact ⟨sd.liveSub _ hinv.dataLive, fun h => hnd h.symm, (fun h => by cases h), (fun h => by cases h)⟩
    · -- another thread that is post-swap: then `t` is not critical, so data is unchanged
      rename_i hne
      have hi : i < s.threads.length := by omega
      have hcrit_i := post_crit _ _ hp
      have hd : s'.data = s.data := by
        rcases sd.dataCh with hd | hc
        · exact hd
        · exact absurd (hexcl i hi hc hcrit_i) (fun h => hne h.symm)
      obtain ⟨hl, hne', hz0, hz1⟩ := hinv.post i hi old z0 z1 hp
      obtain ⟨hn0, hn1⟩ := hnew z0 z1 ⟨i, hi, hp⟩ hd
      refine ⟨sd.liveSub _ hl, by rw [hd]; exact hne', ?_, ?_⟩
      · intro hz j hj hs
        rw [hget j hj] at hs ⊢
        split at hs
        · rename_i htj; simp only [htj, if_true]; exact hn0 hz hs
        · rename_i htj; simp only [htj, if_false]; exact hz0 hz j (by omega) hs
      · intro hz j hj hs
        rw [hget j hj] at hs ⊢
        split at hs
        · rename_i htj; simp only [htj, if_true]; exact hn1 hz hs
        · rename_i htj; simp only [htj, if_false]; exact hz1 hz j (by omega) hs
  · exact sd.fresh
  · -- pending
    intro i h new hp
    rw [hget i h] at hp
    split at hp
    · exact sd.pending new hp
    · rename_i hne
      have hi : i < s.threads.length := by omega
      have hcrit_i := pending_crit _ _ hp
      have hd : s'.data = s.data := by
        rcases sd.dataCh with hd | hc
        · exact hd
        · exact absurd (hexcl i hi hc hcrit_i) (fun h => hne h.symm)
      obtain ⟨a, b⟩ := hinv.pending i hi new hp
      exact ⟨sd.liveSub _ a, by rw [hd]; exact b⟩
  · -- mutex
    intro i h
    rw [hget i h]
    have hi : i < s.threads.length := by omega
    rcases sd.mutex with ⟨hc, ho⟩ | ⟨hc, ho, hc', ho'⟩ | ⟨hc, hc', ho'⟩
    · rw [ho]
      split
      · rename_i hti; subst hti; rw [hc]; exact hinv.mutex t ht
      · exact hinv.mutex i hi
    · rw [ho']
      split
      · rename_i hti; subst hti; simp [hc']
      · rename_i hti
        constructor
        · intro hci; have := (hinv.mutex i hi).1 hci; rw [ho] at this; cases this
        · intro h; injection h with h; exact absurd h hti
    · rw [ho']
      split
      · rename_i hti; subst hti; simp [hc']
      · rename_i hti
        constructor
        · intro hci; exact absurd (hexcl i hi hc hci) (fun h => hti h.symm)
        · intro h; cases h
  · exact sd.liveNodup
  · -- freedNotLive
    intro x hx hl
    rw [sd.freed] at hx
    rcases sd.liveNew _ hl with h | h
    · exact hinv.freedNotLive x hx h
    · have := hinv.freedFresh x hx; omega
  · rw [sd.freed]; exact hinv.freedNodup
  · intro x hx; rw [sd.freed] at hx; have := hinv.freedFresh x hx; have := sd.freshMono; omega

end SigHook.HalfLock

namespace SigHook.HalfLock

macro "hl_simp" : tactic => `(tactic|
  simp (config := {failIfUnchanged := false}) [Pc.slot0, Pc.slot1, Pc.holds, Pc.post, Pc.crit, Pc.pendingNew, b2n, Sys.setLock, Sys.lockOf, afterLoop, *])

macro "hl_fin" : tactic => `(tactic| first
  | done
  | assumption
  | (intro x hx; exact Or.inl hx)
  | (intro x hx; exact Or.inr hx)
  | omega
  | (split <;> omega)
  | (split <;> split <;> omega))

macro "hl_side" : tactic => `(tactic|
  (refine ⟨rfl, rfl, ?_, ?_, ?_, ?_, ?_, ?_, ?_, ?_, ?_, ?_, ?_, ?_, ?_⟩ <;> hl_simp <;> hl_fin))

set_option maxRecDepth 4000 in
theorem inv_step (ye : Nat) (s s' : Sys) (t : Nat) (o : Obs) (hinv : Inv s)
    (hstep : step ye s t = some (s', o)) : Inv s' := by
  unfold step at hstep
  cases hth : s.threads[t]? with
  | none => simp [hth] at hstep
  | some th =>
    obtain ⟨ht, hthe⟩ := List.getElem?_eq_some_iff.1 hth
    subst hthe
    simp only [hth] at hstep
    have hdl := hinv.dataLive
    have hnd := hinv.liveNodup
    have hfr := hinv.fresh
    cases hpc : (s.threads[t]).pc with
    | wFree old =>
      simp only [hpc, Option.some.injEq, Prod.mk.injEq] at hstep
      obtain ⟨rfl, rfl⟩ := hstep
      obtain ⟨holdLive, holdNe, hz0, hz1⟩ := hinv.post t ht old true true (by simp [hpc, Pc.post])
      have hcrit : (s.threads[t]).pc.crit = true := by simp [hpc, Pc.crit]
      have hexcl : ∀ j (hj : j < s.threads.length), (s.threads[j]).pc.crit = true → j = t := by
        intro j hj h2
        have a := (hinv.mutex t ht).1 hcrit
        have b := (hinv.mutex j hj).1 h2
        rw [a] at b; injection b with b; exact b.symm
      have hget : ∀ i (h : i < (s.threads.set t { script := (s.threads[t]).script, pc := Pc.wUnlock (s.bombs.contains old) }).length),
          (s.threads.set t { script := (s.threads[t]).script, pc := Pc.wUnlock (s.bombs.contains old) })[i] =
            if t = i then { script := (s.threads[t]).script, pc := Pc.wUnlock (s.bombs.contains old) } else s.threads[i]'(by simpa using h) := by
        intro i h; rw [List.getElem_set]
      constructor
      · have := countP_set_b2n (fun th => th.pc.slot0) s.threads t { script := (s.threads[t]).script, pc := Pc.wUnlock (s.bombs.contains old) } ht
        have h0 := hinv.count0
        have e1 : (s.threads[t]).pc.slot0 = false := by rw [hpc]; rfl
        have e2 : Pc.slot0 (.wUnlock (s.bombs.contains old)) = false := rfl
        simp only [e1, e2, b2n] at this
        simp only; omega
      · have := countP_set_b2n (fun th => th.pc.slot1) s.threads t { script := (s.threads[t]).script, pc := Pc.wUnlock (s.bombs.contains old) } ht
        have h0 := hinv.count1
        have e1 : (s.threads[t]).pc.slot1 = false := by rw [hpc]; rfl
        have e2 : Pc.slot1 (.wUnlock (s.bombs.contains old)) = false := rfl
        simp only [e1, e2, b2n] at this
        simp only; omega
      · exact (List.mem_erase_of_ne (fun h => holdNe h.symm)).2 hdl
      · intro i h p hp
        rw [hget i h] at hp
        split at hp
        · simp [Pc.holds] at hp
        · have hi : i < s.threads.length := by simpa using h
          have hpl := hinv.holdLive i hi p hp
          have hne : p ≠ old := by
            intro he; subst he
            rcases holds_in_slot _ _ hp with h0 | h1
            · exact hz0 rfl i hi h0 hp
            · exact hz1 rfl i hi h1 hp
          exact (List.mem_erase_of_ne hne).2 hpl
      · intro i h o z0 z1 hp
        rw [hget i h] at hp
        split at hp
        · simp [Pc.post] at hp
        · rename_i hne
          have hi : i < s.threads.length := by simpa using h
          exact absurd (hexcl i hi (post_crit _ _ hp)) (fun h => hne h.symm)
      · intro x hx; exact hfr x (List.mem_of_mem_erase hx)
      · intro i h new hp
        rw [hget i h] at hp
        split at hp
        · simp [Pc.pendingNew] at hp
        · rename_i hne
          have hi : i < s.threads.length := by simpa using h
          exact absurd (hexcl i hi (pending_crit _ _ hp)) (fun h => hne h.symm)
      · intro i h
        rw [hget i h]
        have hi : i < s.threads.length := by simpa using h
        split
        · rename_i hti; subst hti
          have := hinv.mutex t ht
          rw [hcrit] at this
          simpa [Pc.crit] using this
        · exact hinv.mutex i hi
      · exact hnd.erase old
      · intro x hx hl
        simp only [List.mem_cons] at hx
        rcases hx with hx | hx
        · subst hx; exact (hnd.mem_erase_iff.1 hl).1 rfl
        · exact hinv.freedNotLive x hx (List.mem_of_mem_erase hl)
      · simp only [List.map_cons, List.nodup_cons]
        refine ⟨?_, hinv.freedNodup⟩
        intro hm
        obtain ⟨x, hx, hxe⟩ := List.mem_map.1 hm
        exact hinv.freedNotLive x hx (by rw [hxe]; exact holdLive)
      · intro x hx
        simp only [List.mem_cons] at hx
        rcases hx with hx | hx
        · subst hx; exact hfr old holdLive
        · exact hinv.freedFresh x hx
    | idle =>
      simp only [hpc] at hstep
      cases hsc : (s.threads[t]).script with
      | nil => simp [hsc] at hstep
      | cons c rest =>
        cases c with
        | read uses =>
          simp only [hsc, Option.some.injEq, Prod.mk.injEq] at hstep
          obtain ⟨rfl, rfl⟩ := hstep
          apply inv_update s _ t ht _ hinv
          hl_side
        | write st bomb =>
          simp only [hsc] at hstep
          cases hmo : s.mutexOwner with
          | some w => simp [hmo] at hstep
          | none =>
            simp only [hmo, Option.some.injEq, Prod.mk.injEq] at hstep
            obtain ⟨rfl, rfl⟩ := hstep
            apply inv_update s _ t ht _ hinv
            hl_side
    | rUse slot p uses =>
      cases uses with
      | zero =>
        simp only [hpc, Option.some.injEq, Prod.mk.injEq] at hstep
        obtain ⟨rfl, rfl⟩ := hstep
        apply inv_update s _ t ht _ hinv
        have hpos0 : slot = 0 → 0 < s.lock0 := by
          intro h0; rw [hinv.count0]; apply List.countP_pos_iff.2
          exact ⟨s.threads[t], List.getElem_mem ht, by simp [hpc, Pc.slot0, h0]⟩
        have hpos1 : slot ≠ 0 → 0 < s.lock1 := by
          intro h0; rw [hinv.count1]; apply List.countP_pos_iff.2
          exact ⟨s.threads[t], List.getElem_mem ht, by simp [hpc, Pc.slot1, h0]⟩
        by_cases h0 : slot = 0
        · have := hpos0 h0; subst h0; hl_side
        · have := hpos1 h0; hl_side
      | succ n =>
        simp only [hpc, Option.some.injEq, Prod.mk.injEq] at hstep
        obtain ⟨rfl, rfl⟩ := hstep
        apply inv_update s _ t ht _ hinv
        hl_side
    | rInc g uses =>
      simp only [hpc, Option.some.injEq, Prod.mk.injEq] at hstep
      obtain ⟨rfl, rfl⟩ := hstep
      apply inv_update s _ t ht _ hinv
      by_cases h0 : g % 2 = 0
      · hl_side
      · have : g % 2 = 1 := by omega
        hl_side
    | rData slot uses =>
      simp only [hpc, Option.some.injEq, Prod.mk.injEq] at hstep
      obtain ⟨rfl, rfl⟩ := hstep
      apply inv_update s _ t ht _ hinv
      hl_side
    | wLoad st bomb =>
      cases st <;>
      · simp only [hpc, Option.some.injEq, Prod.mk.injEq] at hstep
        obtain ⟨rfl, rfl⟩ := hstep
        apply inv_update s _ t ht _ hinv
        hl_side
    | wAlloc bomb =>
      simp only [hpc, Option.some.injEq, Prod.mk.injEq] at hstep
      obtain ⟨rfl, rfl⟩ := hstep
      apply inv_update s _ t ht _ hinv
      have h1 : ¬ s.nextSnap ∈ s.live := by intro h; have := hfr _ h; omega
      have h2 : ∀ a ∈ s.live, a < s.nextSnap + 1 := by intro a ha; have := hfr a ha; omega
      have h3 : ¬ s.nextSnap = s.data := by intro h; have := hfr _ hdl; omega
      hl_side
    | wSwap new =>
      simp only [hpc, Option.some.injEq, Prod.mk.injEq] at hstep
      obtain ⟨rfl, rfl⟩ := hstep
      apply inv_update s _ t ht _ hinv
      obtain ⟨h1, h2⟩ := hinv.pending t ht new (by simp [hpc, Pc.pendingNew])
      hl_side
    | wSeen0 old =>
      simp only [hpc, Option.some.injEq, Prod.mk.injEq] at hstep
      obtain ⟨rfl, rfl⟩ := hstep
      apply inv_update s _ t ht _ hinv
      hl_side
    | wSeen1 old z0 =>
      cases z0 <;>
      · simp only [hpc, Option.some.injEq, Prod.mk.injEq] at hstep
        obtain ⟨rfl, rfl⟩ := hstep
        apply inv_update s _ t ht _ hinv
        hl_side
    | wFlip old z0 z1 =>
      cases z0 <;> cases z1 <;>
      · simp only [hpc, Option.some.injEq, Prod.mk.injEq] at hstep
        obtain ⟨rfl, rfl⟩ := hstep
        apply inv_update s _ t ht _ hinv
        hl_side
    | wHint old z0 z1 iter =>
      cases z0 <;> cases z1 <;>
      · simp only [hpc, Option.some.injEq, Prod.mk.injEq] at hstep
        obtain ⟨rfl, rfl⟩ := hstep
        apply inv_update s _ t ht _ hinv
        hl_side
    | wLoop0 old z0 z1 iter =>
      cases z0 <;> cases z1 <;> by_cases hz : s.lock0 = 0 <;>
      · simp only [hpc, Option.some.injEq, Prod.mk.injEq] at hstep
        obtain ⟨rfl, rfl⟩ := hstep
        apply inv_update s _ t ht _ hinv
        hl_side
    | wLoop1 old z0 z1 iter =>
      cases z0 <;> cases z1 <;> by_cases hz : s.lock1 = 0 <;>
      · simp only [hpc, Option.some.injEq, Prod.mk.injEq] at hstep
        obtain ⟨rfl, rfl⟩ := hstep
        apply inv_update s _ t ht _ hinv
        hl_side
    | wUnlock pk =>
      simp only [hpc, Option.some.injEq, Prod.mk.injEq] at hstep
      obtain ⟨rfl, rfl⟩ := hstep
      apply inv_update s _ t ht _ hinv
      hl_side

theorem inv_reachable {ye : Nat} {scripts : List (List Cmd)} {s : Sys}
    (h : Reachable ye scripts s) : Inv s := by
  induction h with
  | init => exact inv_init scripts
  | step _ hs ih => exact inv_step _ _ _ _ _ ih hs

end SigHook.HalfLock
