import SigHook.Model.RegistrySeq
/-! Helper lemmas about the sequential registry model (association lists, BTreeMap lists,
    the well-formedness invariant). -/
namespace SigHook.Registry
local notation "Sig" => Int
local notation "Tag" => Nat
local notation "ActionId" => Nat

theorem lookup_update {β} (k k' : Sig) (v : β) (l : List (Sig × β)) :
    lookup k' (update k v l) = if k = k' then some v else lookup k' l := by
  induction l with
  | nil => simp [update, lookup]
  | cons hd tl ih =>
    obtain ⟨a, b⟩ := hd
    by_cases h : a = k
    · subst h
      by_cases h2 : a = k' <;> simp [update, lookup, h2]
    · by_cases h2 : a = k'
      · subst h2
        simp [update, lookup, h, Ne.symm h]
      · simp [update, lookup, h, h2, ih]

theorem lookup_update_self {β} (k : Sig) (v : β) (l : List (Sig × β)) :
    lookup k (update k v l) = some v := by simp [lookup_update]

theorem lookup_update_ne {β} (k k' : Sig) (v : β) (l : List (Sig × β)) (h : k ≠ k') :
    lookup k' (update k v l) = lookup k' l := by simp [lookup_update, h]

/-- all keys of a BTreeMap list are below `n` -/
def KeysBelow (n : Nat) (l : List (ActionId × Tag)) : Prop := ∀ e ∈ l, e.1 < n

theorem btInsert_fresh (id : ActionId) (t : Tag) (l : List (ActionId × Tag))
    (h : KeysBelow id l) : btInsert id t l = (l ++ [(id, t)], false) := by
  induction l with
  | nil => rfl
  | cons hd tl ih =>
    obtain ⟨k, v⟩ := hd
    have hk : k < id := h (k, v) (by simp)
    have htl : KeysBelow id tl := fun e he => h e (by simp [he])
    have h1 : ¬ id < k := by omega
    have h2 : ¬ id = k := by omega
    simp [btInsert, h1, h2, ih htl]

theorem btRemove_snd (id : ActionId) (l : List (ActionId × Tag)) :
    (btRemove id l).2 = l.any (fun e => e.1 == id) := by
  induction l with
  | nil => rfl
  | cons hd tl ih =>
    obtain ⟨k, v⟩ := hd
    by_cases h : k = id <;> simp [btRemove, h, ih]

theorem btRemove_false (id : ActionId) (l : List (ActionId × Tag))
    (h : (btRemove id l).2 = false) : (btRemove id l).1 = l := by
  induction l with
  | nil => rfl
  | cons hd tl ih =>
    obtain ⟨k, v⟩ := hd
    by_cases hk : k = id
    · simp [btRemove, hk] at h
    · simp [btRemove, hk] at h ⊢
      exact ih h

theorem btRemove_mem (id : ActionId) (l : List (ActionId × Tag)) (e : ActionId × Tag)
    (h : e ∈ (btRemove id l).1) : e ∈ l := by
  induction l with
  | nil => simp [btRemove] at h
  | cons hd tl ih =>
    obtain ⟨k, v⟩ := hd
    by_cases hk : k = id
    · simp [btRemove, hk] at h; simp [h]
    · simp [btRemove, hk] at h
      rcases h with h | h
      · simp [h]
      · simp [ih h]

/-- entries with another key survive `btRemove`, and keep their relative order (the result is
    the input with one entry erased) -/
theorem btRemove_keeps (id : ActionId) (l : List (ActionId × Tag)) (e : ActionId × Tag)
    (he : e ∈ l) (hne : e.1 ≠ id) : e ∈ (btRemove id l).1 := by
  induction l with
  | nil => simp at he
  | cons hd tl ih =>
    obtain ⟨k, v⟩ := hd
    by_cases hk : k = id
    · simp [btRemove, hk]
      rcases List.mem_cons.1 he with h | h
      · subst h; simp at hne; omega
      · exact h
    · simp [btRemove, hk]
      rcases List.mem_cons.1 he with h | h
      · left; exact h
      · right; exact ih h

theorem btRemove_sublist (id : ActionId) (l : List (ActionId × Tag)) :
    List.Sublist (btRemove id l).1 l := by
  induction l with
  | nil => simp [btRemove]
  | cons hd tl ih =>
    obtain ⟨k, v⟩ := hd
    by_cases hk : k = id
    · simp [btRemove, hk]
    · simp [btRemove, hk]; exact ih

/-- with distinct keys, `btRemove` is exactly "filter out that key" -/
theorem btRemove_eq_filter (id : ActionId) (l : List (ActionId × Tag))
    (hs : l.Pairwise (fun a b => a.1 < b.1)) :
    (btRemove id l).1 = l.filter (fun e => e.1 != id) := by
  induction l with
  | nil => rfl
  | cons hd tl ih =>
    obtain ⟨k, v⟩ := hd
    rw [List.pairwise_cons] at hs
    by_cases hk : k = id
    · subst hk
      simp [btRemove]
      symm
      apply List.filter_eq_self.2
      intro e he
      have := hs.1 e he
      simp at this ⊢; omega
    · simp [btRemove, hk, ih hs.2]

/-- Well-formedness of a registry state. -/
structure WF (env : Env) (s : State) : Prop where
  /-- ids inside every slot are below the counter and strictly increasing -/
  below : ∀ sig slot, lookup sig s.signals = some slot → KeysBelow s.nextId slot.actions
  sorted : ∀ sig slot, lookup sig s.signals = some slot →
    slot.actions.Pairwise (fun a b => a.1 < b.1)
  /-- a signal has a slot exactly when the kernel dispatches it to the library -/
  takenLib : ∀ sig, taken s sig = true → dispOf s sig = .lib env.libFlags
  libTaken : ∀ sig f, dispOf s sig = .lib f → taken s sig = true
  pos : 1 ≤ s.nextId

theorem WF.init (env : Env) : WF env State.init := by
  constructor <;> simp [State.init, lookup, taken, dispOf]

/-- environment hypothesis on a single operation: nobody outside the library changes the
    disposition of a signal the library has taken over, and nobody else installs the library's
    dispatcher. -/
def Admissible (s : State) : Op → Prop
  | .foreign sig d => taken s sig = false ∧ ∀ f, d ≠ .lib f
  | _ => True

theorem dispOf_update (s : State) (sig sig' : Sig) (d : Disp) :
    dispOf { s with disp := update sig d s.disp } sig' = if sig = sig' then d else dispOf s sig' := by
  unfold dispOf
  simp [lookup_update]
  split <;> rfl

theorem KeysBelow.mono {n m : Nat} {l} (h : KeysBelow n l) (hnm : n ≤ m) : KeysBelow m l :=
  fun e he => Nat.lt_of_lt_of_le (h e he) hnm

theorem pairwise_append_fresh (l : List (ActionId × Tag)) (id : ActionId) (t : Tag)
    (hs : l.Pairwise (fun a b => a.1 < b.1)) (hb : KeysBelow id l) :
    (l ++ [(id, t)]).Pairwise (fun a b => a.1 < b.1) := by
  rw [List.pairwise_append]
  refine ⟨hs, by simp, ?_⟩
  intro a ha b hb'
  simp at hb'
  subst hb'
  exact hb a ha

end SigHook.Registry

namespace SigHook.Registry
local notation "Sig" => Int

@[simp] theorem actionsOf_signals_update (s : State) (sig sig' : Sig) (slot : Slot) (n : Nat)
    (fb : Option (Sig × Disp)) (d : List (Sig × Disp)) :
    actionsOf { signals := update sig slot s.signals, nextId := n, fallback := fb, disp := d } sig'
      = if sig = sig' then slot.actions else actionsOf s sig' := by
  simp only [actionsOf, lookup_update]
  split <;> simp

@[simp] theorem taken_signals_update (s : State) (sig sig' : Sig) (slot : Slot) (n : Nat)
    (fb : Option (Sig × Disp)) (d : List (Sig × Disp)) :
    taken { signals := update sig slot s.signals, nextId := n, fallback := fb, disp := d } sig'
      = (decide (sig = sig') || taken s sig') := by
  simp only [taken, lookup_update]
  split <;> simp [*]

@[simp] theorem dispOf_disp_update (sg : List (Sig × Slot)) (sig sig' : Sig) (dd : Disp) (n : Nat)
    (fb : Option (Sig × Disp)) (d : List (Sig × Disp)) :
    dispOf { signals := sg, nextId := n, fallback := fb, disp := update sig dd d } sig'
      = if sig = sig' then dd else (lookup sig' d).getD .dfl := by
  simp only [dispOf, lookup_update]
  split <;> rfl

theorem taken_iff (s : State) (sig : Sig) : taken s sig = true ↔ ∃ slot, lookup sig s.signals = some slot := by
  simp [taken, Option.isSome_iff_exists]

theorem taken_false_iff (s : State) (sig : Sig) : taken s sig = false ↔ lookup sig s.signals = none := by
  simp [taken]

end SigHook.Registry
