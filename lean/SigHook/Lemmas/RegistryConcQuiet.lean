import SigHook.Lemmas.RegistryConcLive
/-!
Quiescent completion at registry level: a mutator (register / unregister / unregister_signal, including a
first registration with its nested `race_fallback` write and its two `sigaction` calls) that is anywhere
inside its operation while no delivery is inside a read section of either half-lock finishes *alone*, in
a bounded number of its own steps. The measure is the registry-level work left after the current
half-lock operation (`weight`) plus what the two embedded half-locks still need (`HalfLock.rem`).
-/
namespace SigHook.RegConc
open SigHook.Registry (Disp Slot Env lookup update btInsert btRemove prevCalled)
open SigHook.HalfLock (Phase phaseAt pcAt Obs)

/-- registry-level steps still to come after the half-lock operation in progress, generously -/
def weight : Pc → Nat
  | .mLockD _ => 20
  | .mLoadD _ => 11
  | .mLockF .. => 11
  | .mLoadF .. => 2
  | .mQuery .. => 2
  | .mRunF .. => 1
  | .mSet .. => 1
  | _ => 0

/-- inside a mutating operation -/
def isMut : Pc → Bool
  | .mLockD _ | .mLoadD _ | .mRunD .. | .mUnlockD .. | .mLockF .. | .mLoadF .. | .mQuery .. | .mRunF ..
  | .mUnlockF .. | .mSet .. => true
  | _ => false

def meas (s : Sys) (t : Nat) (pc : Pc) : Nat :=
  weight pc + HalfLock.rem (pcAt s.hd t) + HalfLock.rem (pcAt s.hf t)

/-- no delivery is inside a read section of either half-lock -/
structure Quiet (s : Sys) : Prop where
  d0 : s.hd.lock0 = 0
  d1 : s.hd.lock1 = 0
  f0 : s.hf.lock0 = 0
  f1 : s.hf.lock1 = 0

theorem meas_le (s : Sys) (t : Nat) (pc : Pc) : meas s t pc ≤ 36 := by
  have a := HalfLock.rem_le (pcAt s.hd t)
  have b := HalfLock.rem_le (pcAt s.hf t)
  have c : weight pc ≤ 20 := by cases pc <;> simp [weight]
  unfold meas; omega

/-- one step of a mutator in a quiet state: the state stays quiet, the thread stays inside its operation
or has finished it, its script is untouched, and the measure drops -/
theorem quiet_step {env : Env} {s s' : Sys} {t : Nat} {th : Thread} {out : StepOut}
    (h6 : Step6 env s t th s' out) (hm : isMut th.pc = true) (hq : Quiet s) (ht : t < s.threads.length) :
    Quiet s' ∧ ∃ th', s'.threads[t]? = some th' ∧ meas s' t th'.pc + 1 ≤ meas s t th.pc ∧
      (isMut th'.pc = true ∨ th'.pc = .idle) ∧ th'.script = th.script := by
  cases h6 with
  | callOurs sig rest f hpc => rw [hpc] at hm; cases hm
  | callNotOurs sig rest d hpc => rw [hpc] at hm; cases hm
  | callPanic sig tag rest hpc => rw [hpc] at hm; cases hm
  | callMut op rest hpc => rw [hpc] at hm; cases hm
  | fbStep sig hf' p o hpc => rw [hpc] at hm; cases hm
  | fbPin sig hf' hpc => rw [hpc] at hm; cases hm
  | dataStep sig hd' p o pf hpc => rw [hpc] at hm; cases hm
  | dataPin sig hd' pf hpc => rw [hpc] at hm; cases hm
  | prev sig d tags hpc => rw [hpc] at hm; cases hm
  | run sig tag rest hpc => rw [hpc] at hm; cases hm
  | relD sig hd' p l v hpc => rw [hpc] at hm; cases hm
  | relF sig hf' p l v hpc => rw [hpc] at hm; cases hm
  | lockD op hd' b hpc hmo mv =>
    obtain ⟨a, b', _⟩ := mv.quiet hq.d0 hq.d1 (Or.inr ⟨_, rfl⟩)
    refine ⟨⟨a, b', hq.f0, hq.f1⟩, _, setT_get _ t _ ht, ?_, Or.inl rfl, rfl⟩
    have := HalfLock.rem_le (pcAt hd' t)
    simp only [meas, hpc, weight, setT]; omega
  | loadDNone op res first hd' hpc hp mv =>
    obtain ⟨a, b, c⟩ := mv.quiet hq.d0 hq.d1 (Or.inl rfl)
    refine ⟨⟨a, b, hq.f0, hq.f1⟩, _, setT_get _ t _ ht, ?_, Or.inl rfl, rfl⟩
    have := c rfl
    simp only [meas, hpc, weight, setT]; omega
  | loadDPub op new res hd' hpc hp mv =>
    obtain ⟨a, b, c⟩ := mv.quiet hq.d0 hq.d1 (Or.inl rfl)
    refine ⟨⟨a, b, hq.f0, hq.f1⟩, _, setT_get _ t _ ht, ?_, Or.inl rfl, rfl⟩
    have := c rfl
    simp only [meas, hpc, weight, setT]; omega
  | loadDFirst chk sig tag new res hd' hpc hp mv =>
    obtain ⟨a, b, c⟩ := mv.quiet hq.d0 hq.d1 (Or.inl rfl)
    refine ⟨⟨a, b, hq.f0, hq.f1⟩, _, setT_get _ t _ ht, ?_, Or.inl rfl, rfl⟩
    have := c rfl
    simp only [meas, hpc, weight, setT]; omega
  | runDAlloc v res hd' hpc mv =>
    obtain ⟨a, b, c⟩ := mv.quiet hq.d0 hq.d1 (Or.inl rfl)
    refine ⟨⟨a, b, hq.f0, hq.f1⟩, _, setT_get _ t _ ht, ?_, Or.inl rfl, rfl⟩
    have := c rfl
    simp only [meas, hpc, weight, setT]; omega
  | runDSwap n res hd' hpc mv =>
    obtain ⟨a, b, c⟩ := mv.quiet hq.d0 hq.d1 (Or.inl rfl)
    refine ⟨⟨a, b, hq.f0, hq.f1⟩, _, setT_get _ t _ ht, ?_, Or.inl rfl, rfl⟩
    have := c rfl
    simp only [meas, hpc, weight, setT]; omega
  | runDWait old res hd' p' o hpc mv hp' hben =>
    obtain ⟨a, b, c⟩ := mv.quiet hq.d0 hq.d1 (Or.inl rfl)
    refine ⟨⟨a, b, hq.f0, hq.f1⟩, _, setT_get _ t _ ht, ?_, Or.inl rfl, rfl⟩
    have := c rfl
    simp only [meas, hpc, weight, setT]; omega
  | runDFree old res hd' hpc mv =>
    obtain ⟨a, b, c⟩ := mv.quiet hq.d0 hq.d1 (Or.inl rfl)
    refine ⟨⟨a, b, hq.f0, hq.f1⟩, _, setT_get _ t _ ht, ?_, Or.inl rfl, rfl⟩
    have := c rfl
    simp only [meas, hpc, weight, setT]; omega
  | runDUnlock res hd' b hpc mv =>
    obtain ⟨a, b', c⟩ := mv.quiet hq.d0 hq.d1 (Or.inl rfl)
    refine ⟨⟨a, b', hq.f0, hq.f1⟩, _, setT_get _ t _ ht, ?_, Or.inr rfl, rfl⟩
    have := c rfl
    simp only [meas, hpc, weight, setT]; omega
  | unlockD res drops hd' b hpc mv =>
    obtain ⟨a, b', c⟩ := mv.quiet hq.d0 hq.d1 (Or.inl rfl)
    refine ⟨⟨a, b', hq.f0, hq.f1⟩, _, setT_get _ t _ ht, ?_, Or.inr rfl, rfl⟩
    have := c rfl
    simp only [meas, hpc, weight, setT]; omega
  | lockF sig tag new res hf' b hpc hmo mv =>
    obtain ⟨a, b', _⟩ := mv.quiet hq.f0 hq.f1 (Or.inr ⟨_, rfl⟩)
    refine ⟨⟨hq.d0, hq.d1, a, b'⟩, _, setT_get _ t _ ht, ?_, Or.inl rfl, rfl⟩
    have := HalfLock.rem_le (pcAt hf' t)
    simp only [meas, hpc, weight, setT]; omega
  | loadF sig tag new res hf' hpc mv =>
    obtain ⟨a, b, c⟩ := mv.quiet hq.f0 hq.f1 (Or.inl rfl)
    refine ⟨⟨hq.d0, hq.d1, a, b⟩, _, setT_get _ t _ ht, ?_, Or.inl rfl, rfl⟩
    have := c rfl
    simp only [meas, hpc, weight, setT]; omega
  | queryRej sig tag new res hpc hr =>
    refine ⟨⟨hq.d0, hq.d1, hq.f0, hq.f1⟩, _, setT_get _ t _ ht, ?_, Or.inl rfl, rfl⟩
    simp only [meas, hpc, weight, setT]; omega
  | queryOk sig tag new res hpc hr =>
    refine ⟨⟨hq.d0, hq.d1, hq.f0, hq.f1⟩, _, setT_get _ t _ ht, ?_, Or.inl rfl, rfl⟩
    simp only [meas, hpc, weight, setT]; omega
  | runFAlloc sig tag v new res hf' hpc mv =>
    obtain ⟨a, b, c⟩ := mv.quiet hq.f0 hq.f1 (Or.inl rfl)
    refine ⟨⟨hq.d0, hq.d1, a, b⟩, _, setT_get _ t _ ht, ?_, Or.inl rfl, rfl⟩
    have := c rfl
    simp only [meas, hpc, weight, setT]; omega
  | runFSwap sig tag new res n hf' hpc mv =>
    obtain ⟨a, b, c⟩ := mv.quiet hq.f0 hq.f1 (Or.inl rfl)
    refine ⟨⟨hq.d0, hq.d1, a, b⟩, _, setT_get _ t _ ht, ?_, Or.inl rfl, rfl⟩
    have := c rfl
    simp only [meas, hpc, weight, setT]; omega
  | runFWait sig tag new res old hf' p' o hpc mv hp' hben =>
    obtain ⟨a, b, c⟩ := mv.quiet hq.f0 hq.f1 (Or.inl rfl)
    refine ⟨⟨hq.d0, hq.d1, a, b⟩, _, setT_get _ t _ ht, ?_, Or.inl rfl, rfl⟩
    have := c rfl
    simp only [meas, hpc, weight, setT]; omega
  | runFFree sig tag new res old hf' hpc mv =>
    obtain ⟨a, b, c⟩ := mv.quiet hq.f0 hq.f1 (Or.inl rfl)
    refine ⟨⟨hq.d0, hq.d1, a, b⟩, _, setT_get _ t _ ht, ?_, Or.inl rfl, rfl⟩
    have := c rfl
    simp only [meas, hpc, weight, setT]; omega
  | runFUnlock sig tag new res hf' b hpc mv =>
    obtain ⟨a, b', c⟩ := mv.quiet hq.f0 hq.f1 (Or.inl rfl)
    refine ⟨⟨hq.d0, hq.d1, a, b'⟩, _, setT_get _ t _ ht, ?_, Or.inl rfl, rfl⟩
    have := c rfl
    simp only [meas, hpc, weight, setT]; omega
  | unlockF res drops hf' b hpc mv =>
    obtain ⟨a, b', c⟩ := mv.quiet hq.f0 hq.f1 (Or.inl rfl)
    refine ⟨⟨hq.d0, hq.d1, a, b'⟩, _, setT_get _ t _ ht, ?_, Or.inl rfl, rfl⟩
    have := c rfl
    simp only [meas, hpc, weight, setT]; omega
  | setRej sig tag new res hpc hr =>
    refine ⟨⟨hq.d0, hq.d1, hq.f0, hq.f1⟩, _, setT_get _ t _ ht, ?_, Or.inl rfl, rfl⟩
    simp only [meas, hpc, weight, setT]; omega
  | setOk sig tag new res hpc hr =>
    refine ⟨⟨hq.d0, hq.d1, hq.f0, hq.f1⟩, _, setT_get _ t _ ht, ?_, Or.inl rfl, rfl⟩
    simp only [meas, hpc, weight, setT]; omega

/-- run thread `t` alone for `n` steps -/
def solo6 (env : Env) (ye : Nat) (s : Sys) (t : Nat) : Nat → Sys
  | 0 => s
  | n + 1 => match step env ye s t with
    | some (s', _) => solo6 env ye s' t n
    | none => s

/-- who holds `data`'s writer mutex after a step of `t`, if before it was nobody or `t` itself -/
theorem own_step {env : Env} {s s' : Sys} {t : Nat} {th : Thread} {out : StepOut}
    (h6 : Step6 env s t th s' out) (ho : s.hd.mutexOwner = none ∨ s.hd.mutexOwner = some t) :
    s'.hd.mutexOwner = none ∨ s'.hd.mutexOwner = some t := by
  have key : ∀ {hd' : HalfLock.Sys} {p p' : Phase} {o : Obs}, HMv s.hd hd' t p p' o →
      hd'.mutexOwner = none ∨ hd'.mutexOwner = some t := by
    intro hd' p p' o mv
    rw [mv.owner]
    cases o <;> first | exact ho | simp [Obs.newOwner]
  cases h6 <;> first
    | exact ho
    | exact key (by assumption)

/-- **quiescent completion at registry level** — from any reachable state in which thread `t` is anywhere
inside a mutating operation, no delivery is inside a read section of either half-lock, and `data`'s writer
mutex is free or `t`'s: `t` alone finishes the operation within 36 of its own steps. -/
theorem quiescent_completion6 {env : Env} {ye : Nat} {disp : List (Int × Disp)} {scripts : List (List Op)} :
    ∀ (k : Nat) (s : Sys), Reachable env ye disp scripts s → ∀ (t : Nat) (th : Thread),
      s.threads[t]? = some th → isMut th.pc = true → Quiet s →
      (s.hd.mutexOwner = none ∨ s.hd.mutexOwner = some t) → meas s t th.pc ≤ k →
      ∃ n, n ≤ k ∧ ∃ th', (solo6 env ye s t n).threads[t]? = some th' ∧ th'.pc = .idle ∧ th'.script = th.script := by
  intro k
  induction k with
  | zero =>
    intro s hr t th hth hm hq ho hk
    -- measure 0 is impossible inside an operation: the step below would have to lower it
    have hI := inv6_reachable hr
    obtain ⟨ok, hlen⟩ := ownok_reachable hr
    have ht := (List.getElem?_eq_some_iff.1 hth).1
    have hl : ∀ op, th.pc = .mLockD op → s.hd.mutexOwner = none := by
      intro op hpc
      rcases ho with h | h
      · exact h
      · exfalso
        have htD : t < s.hd.threads.length := by rw [hI.emb.lenD]; exact ht
        have hc := (hI.emb.hd.mutex t htD).1
        have hco := hI.coh t th hth; rw [hpc] at hco; simp only [CohT] at hco
        have : (s.hd.threads[t]).pc.crit = true := by
          have := (hI.emb.hd.mutex t htD).2 h; exact this
        have hph : phaseAt s.hd t = .idle := hco.1
        simp only [phaseAt, pcAt, List.getElem?_eq_getElem htD] at hph
        rw [(phase_idle _).1 hph] at this; cases this
    obtain ⟨s', out, hs⟩ := step_enabled6 (ye := ye) hI (by rw [hlen]; exact ok) hth
      (Or.inl (by intro h; rw [h] at hm; cases hm)) hl
    have h6 := step6_of hI hth hs
    obtain ⟨_, th', _, hlt, _⟩ := quiet_step h6 hm hq ht
    omega
  | succ k ih =>
    intro s hr t th hth hm hq ho hk
    have hI := inv6_reachable hr
    obtain ⟨ok, hlen⟩ := ownok_reachable hr
    have ht := (List.getElem?_eq_some_iff.1 hth).1
    have hl : ∀ op, th.pc = .mLockD op → s.hd.mutexOwner = none := by
      intro op hpc
      rcases ho with h | h
      · exact h
      · exfalso
        have htD : t < s.hd.threads.length := by rw [hI.emb.lenD]; exact ht
        have hco := hI.coh t th hth; rw [hpc] at hco; simp only [CohT] at hco
        have : (s.hd.threads[t]).pc.crit = true := (hI.emb.hd.mutex t htD).2 h
        have hph : phaseAt s.hd t = .idle := hco.1
        simp only [phaseAt, pcAt, List.getElem?_eq_getElem htD] at hph
        rw [(phase_idle _).1 hph] at this; cases this
    obtain ⟨s', out, hs⟩ := step_enabled6 (ye := ye) hI (by rw [hlen]; exact ok) hth
      (Or.inl (by intro h; rw [h] at hm; cases hm)) hl
    have h6 := step6_of hI hth hs
    obtain ⟨hq', th', hth', hlt, hnext, hscr⟩ := quiet_step h6 hm hq ht
    have hr' : Reachable env ye disp scripts s' := Reachable.step hr hs
    rcases hnext with hm' | hidle
    · obtain ⟨n, hn, th2, h2, hi2, hs2⟩ := ih s' hr' t th' hth' hm' hq' (own_step h6 ho) (by omega)
      exact ⟨n + 1, by omega, th2, by simpa [solo6, hs] using h2, hi2, hs2.trans hscr⟩
    · exact ⟨1, by omega, th', by simpa [solo6, hs] using hth', hidle, hscr⟩

end SigHook.RegConc
