import SigHook.Model.RegistryConc
import SigHook.Lemmas.HalfLockEmbed
import SigHook.Lemmas.RegistrySeq
/-!
Invariants of the concurrent registry (L6): the two embedded half-lock machines keep their own
(L3) invariant, each L6 program counter determines the phase of its thread in both machines
(coherence), and a mutator that holds the writer mutex of `data` carries a value that is exactly
one step of the sequential specification away from the snapshot that is current.

Everything here holds for any number of threads, any scripts and every interleaving
(`Reachable`).
-/
namespace SigHook.RegConc
open SigHook.Registry (Disp Slot Env lookup update btInsert btRemove prevCalled)
open SigHook.HalfLock (Phase phaseAt pcAt PhaseTr Eff NoScripts)

theorem hlPc_eq (h : HalfLock.Sys) (t : Nat) : hlPc h t = pcAt h t := rfl

/-- the registry contents that are current -/
def cur (s : Sys) : SigData := (lookupN s.hd.data s.cd).getD SigData.empty

/-- the `race_fallback` contents that are current -/
def curF (s : Sys) : Option (Int × Disp) := (lookupN s.hf.data s.cf).getD none

def wsF (env : Env) (sig : Int) : Bool := !(env.rejectsQuery sig) && !(env.rejectsSet sig)

def stPhase (b : Bool) : Phase := if b then .wAlloc else .wUnlock

/-- **one step of the sequential specification**: `v` (with result `res`) is what the operation
of a mutator makes of the registry contents `c` -/
def Pub (env : Env) (c v : SigData) (res : Ret) : Prop :=
  (∃ op, plan env c op = (some v, res, false)) ∨
  (∃ chk sig tag prev, plan env c (.register chk sig tag) = (some ⟨c.signals, c.nextId + 1⟩, res, true) ∧
      env.rejectsQuery sig = false ∧ env.rejectsSet sig = false ∧
      v = ⟨update sig { prev := prev, actions := [(c.nextId, tag)] } c.signals, c.nextId + 1⟩)

/-- a first registration in progress: what it computed from the current contents -/
def First (s : Sys) (sig : Int) (new : SigData) (res : Ret) : Prop :=
  lookup sig (cur s).signals = none ∧ new = ⟨(cur s).signals, (cur s).nextId + 1⟩ ∧
    res = .id sig (cur s).nextId

/-- the `store` part of a mutator of `data` -/
def RunD (env : Env) (s : Sys) (new : Option SigData) (res : Ret) : Phase → Prop
  | .wAlloc => ∃ v, new = some v ∧ Pub env (cur s) v res
  | .wSwap n => new = none ∧ ∃ v, lookupN n s.cd = some v ∧ Pub env (cur s) v res
  | .wWait _ | .wFree _ | .wUnlock => new = none
  | _ => False

/-- the `store` part of the `race_fallback` update -/
def RunF (fb : Option (Option (Int × Disp))) : Phase → Prop
  | .wAlloc => ∃ v, fb = some v
  | .wSwap _ | .wWait _ | .wFree _ | .wUnlock => fb = none
  | _ => False

/-- coherence of one thread: its L6 program counter against its phases in the two half-locks -/
def CohT (env : Env) (s : Sys) (t : Nat) : Pc → Prop
  | .idle => phaseAt s.hd t = .idle ∧ phaseAt s.hf t = .idle
  | .dFb _ => phaseAt s.hd t = .idle ∧ (phaseAt s.hf t = .idle ∨ phaseAt s.hf t = .rPre 0)
  | .dData _ => (phaseAt s.hd t = .idle ∨ phaseAt s.hd t = .rPre 0) ∧ ∃ p, phaseAt s.hf t = .rHold p 0
  | .dPlan _ _ _ => (∃ p, phaseAt s.hd t = .rHold p 0) ∧ ∃ p, phaseAt s.hf t = .rHold p 0
  | .dRelF _ => phaseAt s.hd t = .idle ∧ ∃ p, phaseAt s.hf t = .rHold p 0
  | .mLockD _ => phaseAt s.hd t = .idle ∧ phaseAt s.hf t = .idle
  | .mLoadD op => phaseAt s.hd t = .wLoad (willStore env (cur s) op) ∧ phaseAt s.hf t = .idle
  | .mRunD new res => RunD env s new res (phaseAt s.hd t) ∧ phaseAt s.hf t = .idle
  | .mUnlockD _ _ => phaseAt s.hd t = .wUnlock ∧ phaseAt s.hf t = .idle
  | .mLockF sig _ new res => First s sig new res ∧ phaseAt s.hd t = stPhase (wsF env sig) ∧ phaseAt s.hf t = .idle
  | .mLoadF sig _ new res => First s sig new res ∧ phaseAt s.hd t = stPhase (wsF env sig) ∧
      phaseAt s.hf t = .wLoad (!(env.rejectsQuery sig))
  | .mQuery sig _ new res => First s sig new res ∧ phaseAt s.hd t = stPhase (wsF env sig) ∧
      phaseAt s.hf t = stPhase (!(env.rejectsQuery sig))
  | .mRunF sig _ fb new res => First s sig new res ∧ env.rejectsQuery sig = false ∧
      phaseAt s.hd t = stPhase (wsF env sig) ∧ RunF fb (phaseAt s.hf t)
  | .mUnlockF _ _ => phaseAt s.hd t = .wUnlock ∧ phaseAt s.hf t = .wUnlock
  | .mSet sig _ new res => First s sig new res ∧ env.rejectsQuery sig = false ∧
      phaseAt s.hd t = stPhase (wsF env sig) ∧ phaseAt s.hf t = .idle

/-- the embedded machines are well-formed -/
structure Emb (s : Sys) : Prop where
  hd : HalfLock.Inv s.hd
  hf : HalfLock.Inv s.hf
  lenD : s.hd.threads.length = s.threads.length
  lenF : s.hf.threads.length = s.threads.length
  nsD : NoScripts s.hd
  nsF : NoScripts s.hf
  naD : s.hd.nextSnap ≤ s.nextAlloc
  naF : s.hf.nextSnap ≤ s.nextAlloc
  /-- every live snapshot has recorded contents (the `getD` defaults of the model are never used) -/
  hasD : ∀ x ∈ s.hd.live, (lookupN x s.cd).isSome = true
  hasF : ∀ x ∈ s.hf.live, (lookupN x s.cf).isSome = true

structure Inv6 (env : Env) (s : Sys) : Prop where
  emb : Emb s
  coh : ∀ t th, s.threads[t]? = some th → CohT env s t th.pc

/-! ## small facts -/

theorem phase_idle (pc : HalfLock.Pc) : pc.phase = .idle ↔ pc = .idle := by
  cases pc <;> simp [HalfLock.Pc.phase]

theorem phase_rHold (pc : HalfLock.Pc) (p u : Nat) : pc.phase = .rHold p u ↔ ∃ sl, pc = .rUse sl p u := by
  cases pc <;> simp [HalfLock.Pc.phase]

def Phase.crit : Phase → Bool
  | .wLoad _ | .wAlloc | .wSwap _ | .wWait _ | .wFree _ | .wUnlock => true
  | _ => false

theorem crit_phase (pc : HalfLock.Pc) : pc.crit = Phase.crit pc.phase := by
  cases pc <;> rfl

theorem stPhase_crit (b : Bool) : Phase.crit (stPhase b) = true := by cases b <;> rfl

theorem lookupN_cons_ne {β} (k n : Nat) (v : β) (l : List (Nat × β)) (h : n ≠ k) :
    lookupN k ((n, v) :: l) = lookupN k l := by
  simp [lookupN, h]

theorem lookupN_cons_self {β} (n : Nat) (v : β) (l : List (Nat × β)) :
    lookupN n ((n, v) :: l) = some v := by
  simp [lookupN]

/-- at most one thread is inside the writer-mutex section of a half-lock -/
theorem crit_unique {h : HalfLock.Sys} (hinv : HalfLock.Inv h) {i j : Nat}
    (hi : Phase.crit (phaseAt h i) = true) (hj : Phase.crit (phaseAt h j) = true) : i = j := by
  have key : ∀ k, Phase.crit (phaseAt h k) = true → h.mutexOwner = some k := by
    intro k hk
    unfold phaseAt pcAt at hk
    cases hth : h.threads[k]? with
    | none => simp [hth, HalfLock.Pc.phase, Phase.crit] at hk
    | some th =>
      obtain ⟨hlt, rfl⟩ := List.getElem?_eq_some_iff.1 hth
      simp only [hth] at hk
      exact (hinv.mutex k hlt).1 (by rw [crit_phase]; exact hk)
  have a := key i hi
  have b := key j hj
  rw [a] at b
  injection b

/-- only `register` can meet a signal without a slot -/
theorem plan_first (env : Env) (c : SigData) (op : Op) (new : SigData) (res : Ret)
    (h : plan env c op = (some new, res, true)) :
    ∃ chk sig tag, op = .register chk sig tag ∧ lookup sig c.signals = none ∧
      new = ⟨c.signals, c.nextId + 1⟩ ∧ res = .id sig c.nextId := by
  cases op with
  | register chk sig tag =>
    refine ⟨chk, sig, tag, rfl, ?_⟩
    unfold plan at h
    cases hl : lookup sig c.signals with
    | none => simp [hl] at h; obtain ⟨h1, h2⟩ := h; exact ⟨rfl, h1.symm, h2.symm⟩
    | some slot =>
      simp only [hl] at h
      split at h <;> simp at h
  | unregister sig id =>
    unfold plan at h
    cases hl : lookup sig c.signals with
    | none => simp [hl] at h
    | some slot => simp only [hl] at h; split at h <;> simp at h
  | unregisterSignal sig =>
    unfold plan at h
    cases hl : lookup sig c.signals with
    | none => simp [hl] at h
    | some slot => simp only [hl] at h; split at h <;> simp at h
  | deliver sig => simp [plan] at h


/-! ## one move of an embedded half-lock -/

structure Mv (h h' : HalfLock.Sys) (t : Nat) (cmd : Option HalfLock.Cmd) (o : HalfLock.Obs) : Prop where
  inv : HalfLock.Inv h'
  ns : NoScripts h'
  len : h'.threads.length = h.threads.length
  others : ∀ j, j ≠ t → phaseAt h' j = phaseAt h j
  eff : Eff h h' t o
  tr : PhaseTr h cmd (phaseAt h t) (phaseAt h' t) o
  pre : (phaseAt h t = .idle ∨ ∃ u, phaseAt h t = .rPre u) →
    ((∃ u, phaseAt h' t = .rPre u) ∨ ∃ q u, phaseAt h' t = .rHold q u) →
    HalfLock.preA (pcAt h' t) + 1 = HalfLock.preA (pcAt h t)
  /-- with both reader slots idle, a writer's step keeps them idle and uses up one unit of `rem` -/
  quiet : h.lock0 = 0 → h.lock1 = 0 → (Phase.crit (phaseAt h t) = true ∨ ∃ b, o = .mutexLock b) →
    h'.lock0 = 0 ∧ h'.lock1 = 0 ∧
      (Phase.crit (phaseAt h t) = true → HalfLock.rem (pcAt h' t) + 1 = HalfLock.rem (pcAt h t))

theorem mv_step {ye : Nat} {h h' : HalfLock.Sys} {t : Nat} {o : HalfLock.Obs}
    (hinv : HalfLock.Inv h) (hns : NoScripts h) (hs : HalfLock.step ye h t = some (h', o)) :
    Mv h h' t none o := by
  refine ⟨HalfLock.inv_step _ _ _ _ _ hinv hs, ?_, HalfLock.step_len hs, ?_, HalfLock.step_eff hs, ?_,
    fun hp hp' => HalfLock.step_preA hs hp hp', ?_⟩
  rotate_left 3
  · intro h0 h1 hc
    have := HalfLock.step_qrem hs h0 h1 (by simpa [phaseAt, ← crit_phase] using hc)
    simpa [phaseAt, ← crit_phase] using this
  · apply HalfLock.step_noScripts hs
    · intro j th _ hj; exact hns j th hj
    · intro th hth; rw [hns t th hth]; simp
  · intro j hj; unfold phaseAt; rw [HalfLock.step_pcAt_other hs hj]
  · obtain ⟨th, hth, htr⟩ := HalfLock.step_phase hs
    rw [hns t th hth] at htr
    simpa [phaseAt, pcAt, hth] using htr

theorem mv_begin {ye : Nat} {h h' : HalfLock.Sys} {t : Nat} {o : HalfLock.Obs} {c : HalfLock.Cmd}
    (hinv : HalfLock.Inv h) (hns : NoScripts h) (hidle : phaseAt h t = .idle)
    (hs : hlBegin ye h t c = some (h', o)) : Mv h h' t (some c) o := by
  unfold hlBegin at hs
  cases hth : h.threads[t]? with
  | none => simp [hth] at hs
  | some th =>
    obtain ⟨hlt, rfl⟩ := List.getElem?_eq_some_iff.1 hth
    simp only [hth] at hs
    have hpc : (h.threads[t]).pc = .idle := by
      have := hidle; simp only [phaseAt, pcAt, hth] at this; exact (phase_idle _).1 this
    have hinv0 := HalfLock.inv_setScript h t hlt [c] hinv
    have hget0 : ({ h with threads := h.threads.set t { h.threads[t] with script := [c] } } : HalfLock.Sys).threads[t]? =
        some { h.threads[t] with script := [c] } := by simp [hlt]
    have e := HalfLock.step_eff hs
    have hpre : (phaseAt h t = .idle ∨ ∃ u, phaseAt h t = .rPre u) →
        ((∃ u, phaseAt h' t = .rPre u) ∨ ∃ q u, phaseAt h' t = .rHold q u) →
        HalfLock.preA (pcAt h' t) + 1 = HalfLock.preA (pcAt h t) := by
      intro hp hp'
      have := HalfLock.step_preA hs (Or.inl (by simp [phaseAt, pcAt, hlt, hpc, HalfLock.Pc.phase])) hp'
      rw [this]; simp [pcAt, hlt, hth]
    have hquiet : h.lock0 = 0 → h.lock1 = 0 → (Phase.crit (phaseAt h t) = true ∨ ∃ b, o = .mutexLock b) →
        h'.lock0 = 0 ∧ h'.lock1 = 0 ∧
          (Phase.crit (phaseAt h t) = true → HalfLock.rem (pcAt h' t) + 1 = HalfLock.rem (pcAt h t)) := by
      intro h0 h1 hc
      have hb : ∃ b, o = .mutexLock b := by
        rcases hc with hc | hc
        · rw [hidle] at hc; cases hc
        · exact hc
      obtain ⟨a, b, _⟩ := HalfLock.step_qrem hs h0 h1 (Or.inr hb)
      exact ⟨a, b, fun hcr => by rw [hidle] at hcr; cases hcr⟩
    refine ⟨HalfLock.inv_step _ _ _ _ _ hinv0 hs, ?_, ?_, ?_,
      ⟨e.data, e.live, e.freed, e.nextSnap, e.mutex, e.allocId, e.swapOld, e.loadData⟩, ?_, hpre, hquiet⟩
    · apply HalfLock.step_noScripts hs
      · intro j x hj hx
        simp only [List.getElem?_set, hj.symm, if_false] at hx
        exact hns j x hx
      · intro x hx
        rw [hget0] at hx; injection hx with hx; subst hx
        simp [hpc]
    · rw [HalfLock.step_len hs]; simp
    · intro j hj
      unfold phaseAt; rw [HalfLock.step_pcAt_other hs hj]
      simp [pcAt, hj.symm]
    · obtain ⟨x, hx, htr⟩ := HalfLock.step_phase hs
      rw [hget0] at hx; injection hx with hx; subst hx
      simp only [hpc, HalfLock.Pc.phase, List.head?_cons] at htr
      rw [hidle]
      exact htr

theorem mv_alloc {ye : Nat} {h h' : HalfLock.Sys} {t na : Nat} {o : HalfLock.Obs}
    (hinv : HalfLock.Inv h) (hns : NoScripts h) (hna : h.nextSnap ≤ na)
    (hs : HalfLock.step ye { h with nextSnap := na } t = some (h', o)) :
    Mv { h with nextSnap := na } h' t none o :=
  mv_step (HalfLock.inv_setNextSnap h na hna hinv) hns hs

/-! ## frame: what a step of another thread cannot disturb -/

theorem cohT_frame (env : Env) (s s' : Sys) (j : Nat) (pc : Pc)
    (hD : phaseAt s'.hd j = phaseAt s.hd j) (hF : phaseAt s'.hf j = phaseAt s.hf j)
    (hst : Phase.crit (phaseAt s.hd j) = true →
      cur s' = cur s ∧ ∀ n v, lookupN n s.cd = some v → lookupN n s'.cd = some v)
    (h : CohT env s j pc) : CohT env s' j pc := by
  cases pc with
  | mLoadD op =>
    simp only [CohT] at h ⊢
    obtain ⟨h1, h2⟩ := h
    have := hst (by rw [h1]; rfl)
    rw [hD, hF, this.1]; exact ⟨h1, h2⟩
  | mRunD new res =>
    simp only [CohT] at h ⊢
    obtain ⟨h1, h2⟩ := h
    rw [hD, hF]; refine ⟨?_, h2⟩
    cases hp : phaseAt s.hd j <;> rw [hp] at h1 <;> simp only [RunD] at h1 ⊢ <;> try exact h1
    · have := hst (by rw [hp]; rfl)
      rw [this.1]; exact h1
    · have := hst (by rw [hp]; rfl)
      obtain ⟨e, v, hv, hpub⟩ := h1
      rw [this.1]; exact ⟨e, v, this.2 _ _ hv, hpub⟩
  | mLockF sig tag new res =>
    simp only [CohT, First] at h ⊢
    obtain ⟨h0, h1, h2⟩ := h
    have := hst (by rw [h1]; exact stPhase_crit _)
    rw [hD, hF, this.1]; exact ⟨h0, h1, h2⟩
  | mLoadF sig tag new res =>
    simp only [CohT, First] at h ⊢
    obtain ⟨h0, h1, h2⟩ := h
    have := hst (by rw [h1]; exact stPhase_crit _)
    rw [hD, hF, this.1]; exact ⟨h0, h1, h2⟩
  | mQuery sig tag new res =>
    simp only [CohT, First] at h ⊢
    obtain ⟨h0, h1, h2⟩ := h
    have := hst (by rw [h1]; exact stPhase_crit _)
    rw [hD, hF, this.1]; exact ⟨h0, h1, h2⟩
  | mRunF sig tag fb new res =>
    simp only [CohT, First] at h ⊢
    obtain ⟨h0, hq, h1, h2⟩ := h
    have := hst (by rw [h1]; exact stPhase_crit _)
    rw [hD, hF, this.1]; exact ⟨h0, hq, h1, h2⟩
  | mSet sig tag new res =>
    simp only [CohT, First] at h ⊢
    obtain ⟨h0, hq, h1, h2⟩ := h
    have := hst (by rw [h1]; exact stPhase_crit _)
    rw [hD, hF, this.1]; exact ⟨h0, hq, h1, h2⟩
  | _ => simp only [CohT] at h ⊢; rw [hD, hF]; exact h

/-- assembling the invariant after a step of thread `t` -/
theorem inv6_of {env : Env} {s s' : Sys} {t : Nat} {th' : Thread}
    (hI : Inv6 env s) (hthreads : s'.threads = s.threads.set t th') (ht : t < s.threads.length)
    (hemb : Emb s') (hcoh : CohT env s' t th'.pc)
    (hoD : ∀ j, j ≠ t → phaseAt s'.hd j = phaseAt s.hd j)
    (hoF : ∀ j, j ≠ t → phaseAt s'.hf j = phaseAt s.hf j)
    (hstab : Phase.crit (phaseAt s.hd t) = false →
      cur s' = cur s ∧ ∀ n v, lookupN n s.cd = some v → lookupN n s'.cd = some v) :
    Inv6 env s' := by
  refine ⟨hemb, ?_⟩
  intro j x hx
  rw [hthreads, List.getElem?_set] at hx
  by_cases hj : t = j
  · subst hj; simp [ht] at hx; subst hx; exact hcoh
  · simp only [hj, if_false] at hx
    apply cohT_frame env s s' j x.pc (hoD j (Ne.symm hj)) (hoF j (Ne.symm hj)) _ (hI.coh j x hx)
    intro hc
    apply hstab
    cases hct : Phase.crit (phaseAt s.hd t) with
    | false => rfl
    | true => exact absurd (crit_unique hI.emb.hd hct hc) hj

end SigHook.RegConc
