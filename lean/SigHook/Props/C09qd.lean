import SigHook.Props.C09qc
/-!
# C09 for the queueing exfiltrators (continued) — `wait()` / `pending()` obtain a queued record

The batch front ends over the model with per-signal queues (L8q), as `Props/C09d.lean` has it for the flag
exfiltrator: a consumer about to call, or inside, `wait()` / `pending()` for which a record of `sig` is due - one
is queued, and the consumer will reach the slot without blocking, in this batch or, its scan having passed the
slot, in the next call - hands a record of `sig` out within `aqcost` own steps, running alone and draining its
batch (two steps per record: the channel's `recv` has two).
-/
namespace SigHook.IterQ
open SigHook
open SigHook.Iter (Cmd Mode)

/-- the next call of the script is a batch call that will not block -/
def callOk (s : Sys) (script : List Cmd) : Prop :=
  match script with
  | .wait :: _ => s.closed = true ∨ 0 < s.pipe
  | .pending :: _ => True
  | _ => False

def adueQ (s : Sys) (th : Thread) (sig : Nat) : Prop :=
  match th.pc with
  | .idle => callOk s th.script
  | .ppCallback .wait => 0 < s.pipe
  | .flush .wait | .flush .pending => True
  | .scan _ pos => pos ≤ sig ∨ callOk s th.script
  | .scanFin _ pos _ => pos ≤ sig ∨ callOk s th.script
  | _ => False

/-- a record of `sig` is in the consumer's hands (next step: hand it out) -/
def inHandA (th : Thread) (sig : Nat) : Prop := ∃ m id, th.pc = .scanFin m sig id

structure DueAQ (s : Sys) (th : Thread) (sig : Nat) : Prop where
  lt : sig < maxSig
  due : inHandA th sig ∨ ((∃ r ∈ s.q, r.1 = sig) ∧ adueQ s th sig)

def aqcost (s : Sys) (th : Thread) (sig : Nat) : Nat :=
  let near := 3 * s.q.length + sig + 3
  let idleC := flushCostQ s.pipe + near + 3
  match th.pc with
  | .idle => idleC
  | .ppCallback _ => flushCostQ s.pipe + near + 2
  | .flush _ => flushCostQ s.pipe + near
  | .scan _ pos => if pos ≤ sig then 3 * s.q.length + (sig - pos) + 2
                   else 3 * s.q.length + (maxSig - pos) + 1 + idleC
  | .scanFin _ pos _ => if pos = sig then 1
                        else if pos ≤ sig then 3 * s.q.length + (sig - pos) + 3
                        else 3 * s.q.length + (maxSig - pos) + 2 + idleC
  | _ => 0

theorem callOk_congr {s s' : Sys} (script : List Cmd) (hc : s'.closed = s.closed) (hp : s'.pipe = s.pipe) :
    callOk s' script ↔ callOk s script := by
  unfold callOk; split <;> simp [hc, hp]

/-- one step of the batch consumer while a record of `sig` is due -/
theorem adueq_step (rc : Bool) (s : Sys) (t : Nat) (th : Thread) (sig : Nat) (hth : s.threads[t]? = some th)
    (hd : DueAQ s th sig) :
    ∃ s' o th', step rc s t = some (s', o) ∧ s'.threads[t]? = some th' ∧
      ((∃ r, o.yielded = some r ∧ r.1 = sig) ∨ (DueAQ s' th' sig ∧ aqcost s' th' sig + 1 ≤ aqcost s th sig)) := by
  have hlt : t < s.threads.length := (List.getElem?_eq_some_iff.1 hth).1
  have get : ∀ (s0 : Sys) (th' : Thread), s0.threads = s.threads → (setT s0 t th').threads[t]? = some th' := by
    intro s0 th' e; simp [setT, e, hlt]
  obtain ⟨hsl, hdue⟩ := hd
  have hfm := flushCostQ_mono s.pipe
  unfold step
  simp only [hth]
  -- outside `scanFin` nothing is in hand
  have notHand : (∀ m p i, th.pc ≠ .scanFin m p i) → (∃ r ∈ s.q, r.1 = sig) ∧ adueQ s th sig := by
    intro h
    rcases hdue with ⟨m, id, e⟩ | h'
    · exact absurd e (h m sig id)
    · exact h'
  cases hpc : th.pc with
  | dEnq sg i => have := (notHand (by rw [hpc]; intro m p i h; cases h)).2; simp [adueQ, hpc] at this
  | dWake sg i => have := (notHand (by rw [hpc]; intro m p i h; cases h)).2; simp [adueQ, hpc] at this
  | cWake => have := (notHand (by rw [hpc]; intro m p i h; cases h)).2; simp [adueQ, hpc] at this
  | psClosed m => have := (notHand (by rw [hpc]; intro m p i h; cases h)).2; simp [adueQ, hpc] at this
  | psNext m => have := (notHand (by rw [hpc]; intro m p i h; cases h)).2; simp [adueQ, hpc] at this
  | psFin m i => have := (notHand (by rw [hpc]; intro m p i h; cases h)).2; simp [adueQ, hpc] at this
  | ppClosed m => have := (notHand (by rw [hpc]; intro m p i h; cases h)).2; simp [adueQ, hpc] at this
  | psRecheck m => have := (notHand (by rw [hpc]; intro m p i h; cases h)).2; simp [adueQ, hpc] at this
  | idle =>
    obtain ⟨hq, hann⟩ := notHand (by rw [hpc]; intro m p i h; cases h)
    simp only [adueQ, hpc] at hann
    cases hsc : th.script with
    | nil => simp [hsc, callOk] at hann
    | cons cmd rest =>
      cases cmd with
      | deliver sg => simp [hsc, callOk] at hann
      | close => simp [hsc, callOk] at hann
      | poll => simp [hsc, callOk] at hann
      | forever => simp [hsc, callOk] at hann
      | wait =>
        simp only [hsc, callOk] at hann
        cases hcl : s.closed with
        | true =>
          simp only [if_true]
          refine ⟨_, _, _, rfl, get _ _ rfl, Or.inr ⟨⟨hsl, Or.inr ⟨hq, by simp [adueQ]⟩⟩, ?_⟩⟩
          simp only [aqcost, hpc, setT]; omega
        | false =>
          have hp : 0 < s.pipe := by
            rcases hann with h | h
            · rw [hcl] at h; cases h
            · exact h
          simp only [Bool.false_eq_true, if_false]
          refine ⟨_, _, _, rfl, get _ _ rfl, Or.inr ⟨⟨hsl, Or.inr ⟨hq, (by simp only [adueQ, setT]; exact hp)⟩⟩, ?_⟩⟩
          simp only [aqcost, hpc, setT]; omega
      | pending =>
        simp only [step.stepFlush]
        by_cases hp : s.pipe > 0
        · simp only [hp, if_true]
          refine ⟨_, _, _, rfl, get _ _ rfl, Or.inr ⟨⟨hsl, Or.inr ⟨hq, by simp [adueQ]⟩⟩, ?_⟩⟩
          have := flushCostQ_step s.pipe hp
          simp only [aqcost, hpc, setT]; omega
        · simp only [hp, if_false]
          have hp0 : s.pipe = 0 := by omega
          refine ⟨_, _, _, rfl, get _ _ rfl, Or.inr ⟨⟨hsl, Or.inr ⟨hq, by simp [adueQ]⟩⟩, ?_⟩⟩
          simp only [aqcost, hpc, setT, hp0, flushCostQ, Nat.zero_le, if_true]; omega
  | ppCallback m =>
    obtain ⟨hq, hann⟩ := notHand (by rw [hpc]; intro m p i h; cases h)
    cases m with
    | pending => simp [adueQ, hpc] at hann
    | poll => simp [adueQ, hpc] at hann
    | forever => simp [adueQ, hpc] at hann
    | wait =>
      have hp : 0 < s.pipe := by simpa [adueQ, hpc] using hann
      have hp0 : ¬ s.pipe = 0 := by omega
      simp only [blocking, if_true, hp0, if_false]
      refine ⟨_, _, _, rfl, get _ _ rfl, Or.inr ⟨⟨hsl, Or.inr ⟨hq, by simp [adueQ]⟩⟩, ?_⟩⟩
      simp only [aqcost, hpc, setT]; omega
  | flush m =>
    obtain ⟨hq, hann⟩ := notHand (by rw [hpc]; intro m p i h; cases h)
    have hm : m = .wait ∨ m = .pending := by
      cases m <;> simp [adueQ, hpc] at hann <;> simp
    simp only [step.stepFlush]
    by_cases hp : s.pipe > 0
    · simp only [hp, if_true]
      refine ⟨_, _, _, rfl, get _ _ rfl, Or.inr ⟨⟨hsl, Or.inr ⟨hq, by rcases hm with rfl | rfl <;> simp [adueQ]⟩⟩, ?_⟩⟩
      have := flushCostQ_step s.pipe hp
      simp only [aqcost, hpc, setT]; omega
    · simp only [hp, if_false]
      have hp0 : s.pipe = 0 := by omega
      rcases hm with rfl | rfl
      · refine ⟨_, _, _, rfl, get _ _ rfl, Or.inr ⟨⟨hsl, Or.inr ⟨hq, by simp [adueQ]⟩⟩, ?_⟩⟩
        simp only [aqcost, hpc, setT, hp0, flushCostQ, Nat.zero_le, if_true]; omega
      · refine ⟨_, _, _, rfl, get _ _ rfl, Or.inr ⟨⟨hsl, Or.inr ⟨hq, by simp [adueQ]⟩⟩, ?_⟩⟩
        simp only [aqcost, hpc, setT, hp0, flushCostQ, Nat.zero_le, if_true]; omega
  | scanFin m pos id =>
    simp only
    by_cases heq : pos = sig
    · exact ⟨_, _, _, rfl, get _ _ rfl, Or.inl ⟨_, rfl, heq⟩⟩
    · obtain ⟨hq, hann⟩ : (∃ r ∈ s.q, r.1 = sig) ∧ adueQ s th sig := by
        rcases hdue with ⟨m', id', e⟩ | h
        · rw [hpc] at e; injection e with _ e2 _; exact absurd e2 heq
        · exact h
      have hann' : pos ≤ sig ∨ callOk s th.script := by simpa [adueQ, hpc] using hann
      refine ⟨_, _, _, rfl, get _ _ rfl, Or.inr ⟨⟨hsl, Or.inr ⟨hq, ?_⟩⟩, ?_⟩⟩
      · simp only [adueQ, setT]
        rcases hann' with h | h
        · exact Or.inl h
        · exact Or.inr ((callOk_congr th.script rfl rfl).2 h)
      · simp only [aqcost, hpc, setT, heq, if_false]
        by_cases hc : pos ≤ sig
        · simp only [hc, if_true]; omega
        · simp only [hc, if_false]; omega
  | scan m pos =>
    obtain ⟨⟨r1, hr1, hr1s⟩, hann⟩ := notHand (by rw [hpc]; intro m p i h; cases h)
    have hann' : pos ≤ sig ∨ callOk s th.script := by simpa [adueQ, hpc] using hann
    by_cases hl : pos < maxSig
    · simp only [hl, if_true]
      cases hh : headOf s.q pos with
      | some r0 =>
        simp only
        obtain ⟨h0s, h0m, _⟩ := head_erase s.q pos r0 hh
        have hlen := length_erase_rec s.q r0 h0m
        by_cases heq : pos = sig
        · refine ⟨_, _, _, rfl, get _ _ rfl, Or.inr ⟨⟨hsl, Or.inl ⟨m, r0.2, by rw [heq]⟩⟩, ?_⟩⟩
          simp only [aqcost, hpc, setT, heq, Nat.le_refl, if_true]; omega
        · have hkeep : ∃ r ∈ s.q.erase r0, r.1 = sig := by
            refine ⟨r1, (List.mem_erase_of_ne ?_).2 hr1, hr1s⟩
            intro e; rw [e, h0s] at hr1s; exact heq hr1s
          refine ⟨_, _, _, rfl, get _ _ rfl, Or.inr ⟨⟨hsl, Or.inr ⟨hkeep, ?_⟩⟩, ?_⟩⟩
          · simp only [adueQ, setT]
            rcases hann' with h | h
            · exact Or.inl h
            · exact Or.inr ((callOk_congr th.script rfl rfl).2 h)
          · simp only [aqcost, hpc, setT, heq, if_false]
            by_cases hc : pos ≤ sig
            · simp only [hc, if_true]; omega
            · simp only [hc, if_false]; omega
      | none =>
        simp only
        have hne : pos ≠ sig := by
          intro e; exact head_none_ne s.q pos r1 hh hr1 (by rw [hr1s, e])
        by_cases hc : pos ≤ sig
        · have hc' : pos + 1 ≤ sig := by omega
          have hnl : ¬ (pos + 1 == maxSig) = true := by simp; omega
          refine ⟨_, _, _, rfl, get _ _ rfl, Or.inr ⟨⟨hsl, Or.inr ⟨⟨r1, hr1, hr1s⟩, by simp [adueQ, hnl, hc']⟩⟩, ?_⟩⟩
          simp only [aqcost, hpc, setT, hnl, hc, if_true]
          simp [hc']; omega
        · have hcall : callOk s th.script := by
            rcases hann' with h | h
            · exact absurd h hc
            · exact h
          by_cases hlast : (pos + 1 == maxSig) = true
          · simp only [hlast, if_true]
            refine ⟨_, _, _, rfl, get _ _ rfl, Or.inr ⟨⟨hsl, Or.inr ⟨⟨r1, hr1, hr1s⟩, ?_⟩⟩, ?_⟩⟩
            · simp only [adueQ, setT]; exact (callOk_congr th.script rfl rfl).2 hcall
            · simp only [aqcost, hpc, setT, hc, if_false]; omega
          · simp only [hlast]
            have hc' : ¬ pos + 1 ≤ sig := by omega
            refine ⟨_, _, _, rfl, get _ _ rfl, Or.inr ⟨⟨hsl, Or.inr ⟨⟨r1, hr1, hr1s⟩, ?_⟩⟩, ?_⟩⟩
            · simp only [adueQ, setT]; exact Or.inr ((callOk_congr th.script rfl rfl).2 hcall)
            · simp only [aqcost, hpc, setT, hc, if_false]
              simp [hc']; omega
    · simp only [hl, if_false]
      have hc : ¬ pos ≤ sig := by omega
      have hcall : callOk s th.script := by
        rcases hann' with h | h
        · exact absurd h hc
        · exact h
      refine ⟨_, _, _, rfl, get _ _ rfl, Or.inr ⟨⟨hsl, Or.inr ⟨⟨r1, hr1, hr1s⟩, ?_⟩⟩, ?_⟩⟩
      · simp only [adueQ, setT]; exact (callOk_congr th.script rfl rfl).2 hcall
      · simp only [aqcost, hpc, setT, hc, if_false]; omega

/-- **C09.queue_batch_obtains** — a consumer about to call or inside `wait()` / `pending()` for which a record of
`sig` is due hands a record of `sig` out within `aqcost` own steps, running alone. -/
theorem C09_queue_batch_obtains (rc : Bool) :
    ∀ (k : Nat) (s : Sys) (t : Nat) (th : Thread) (sig : Nat), s.threads[t]? = some th → DueAQ s th sig →
      aqcost s th sig ≤ k → ∃ n, n ≤ k + 1 ∧ ∃ r ∈ soloYieldsQ rc s t n, r.1 = sig := by
  intro k
  induction k with
  | zero =>
    intro s t th sig hth hd hk
    obtain ⟨s', o, th', hs, _, hres⟩ := adueq_step rc s t th sig hth hd
    rcases hres with ⟨r, hy, hr⟩ | ⟨_, hlt⟩
    · exact ⟨1, by omega, r, by simp [soloYieldsQ, hs, hy], hr⟩
    · omega
  | succ k ih =>
    intro s t th sig hth hd hk
    obtain ⟨s', o, th', hs, hth', hres⟩ := adueq_step rc s t th sig hth hd
    rcases hres with ⟨r, hy, hr⟩ | ⟨hd', hlt⟩
    · exact ⟨1, by omega, r, by simp [soloYieldsQ, hs, hy], hr⟩
    · obtain ⟨n, hn, r, hmem, hr⟩ := ih s' t th' sig hth' hd' (by omega)
      exact ⟨n + 1, by omega, r, by simp only [soloYieldsQ, hs]; exact List.mem_append_right _ hmem, hr⟩

/-- `DueAQ` is what `WakeQ` provides for every reachable state: a queued record whose delivery has completed its
wake-up, an open instance, a consumer of the batch family that keeps calling -/
theorem C09_queue_batch_obtains_reachable {rc : Bool} {c : Nat} {w : List Nat} {cap pipe : Nat}
    {scripts : List (List Cmd)} {s : Sys} (hg : GoodScripts c .A scripts) (hcap : 0 < cap)
    (hr : Reachable rc w cap pipe scripts s) (th : Thread) (hth : s.threads[c]? = some th)
    (hmore : th.script ≠ []) (hopen : s.closed = false) (r : Rec) (hq : r ∈ s.q) (hw : r.2 ∈ s.woken) :
    ∃ n, n ≤ aqcost s th r.1 + 1 ∧ ∃ r' ∈ soloYieldsQ rc s c n, r'.1 = r.1 := by
  have hinv := wakeq_reachable hg hcap hr
  have hlt := hinv.inRange r hq
  obtain ⟨hsc, hpcs⟩ := hinv.consumer th hth
  have hann : 0 < s.pipe ∨ covers th r.1 = true := by
    rcases hinv.announced r hq hw with h | h | ⟨th', hth', hc⟩
    · rw [hopen] at h; cases h
    · exact Or.inl h
    · rw [hth] at hth'; injection hth' with e; subst e; exact Or.inr hc
  have hcall : 0 < s.pipe → callOk s th.script := by
    intro hp
    cases hscr : th.script with
    | nil => exact absurd hscr hmore
    | cons cmd rest =>
      have hst := hsc cmd (by rw [hscr]; exact List.mem_cons_self)
      cases cmd <;> simp [cmdIn] at hst <;> simp [callOk, hp]
  have hnotB : th.styleB = false := by
    cases hscr : th.script with
    | nil => exact absurd hscr hmore
    | cons cmd rest =>
      have hst := hsc cmd (by rw [hscr]; exact List.mem_cons_self)
      cases cmd <;> simp [cmdIn] at hst <;> simp [Thread.styleB, hscr]
  have hd : adueQ s th r.1 := by
    cases hpc : th.pc with
    | idle =>
      simp only [adueQ, hpc]
      rcases hann with h | h
      · exact hcall h
      · simp [covers, hpc, hnotB] at h
    | dEnq sg i => rw [hpc] at hpcs; simp [Pc.inStyle] at hpcs
    | dWake sg i => rw [hpc] at hpcs; simp [Pc.inStyle] at hpcs
    | cWake => rw [hpc] at hpcs; simp [Pc.inStyle] at hpcs
    | psClosed m => rw [hpc] at hpcs; simp [Pc.inStyle] at hpcs
    | psNext m => rw [hpc] at hpcs; simp [Pc.inStyle] at hpcs
    | psFin m i => rw [hpc] at hpcs; simp [Pc.inStyle] at hpcs
    | ppClosed m => rw [hpc] at hpcs; simp [Pc.inStyle] at hpcs
    | psRecheck m => rw [hpc] at hpcs; simp [Pc.inStyle] at hpcs
    | flush m =>
      rw [hpc] at hpcs
      cases m <;> simp [Pc.inStyle, modeIn] at hpcs <;> simp [adueQ, hpc]
    | ppCallback m =>
      rw [hpc] at hpcs
      cases m <;> simp [Pc.inStyle, modeIn] at hpcs
      simp only [adueQ, hpc]
      rcases hann with h | h
      · exact h
      · simp [covers, hpc] at h
    | scan m pos =>
      simp only [adueQ, hpc]
      rcases hann with h | h
      · exact Or.inr (hcall h)
      · exact Or.inl (by simpa [covers, hpc] using h)
    | scanFin m pos i =>
      simp only [adueQ, hpc]
      rcases hann with h | h
      · exact Or.inr (hcall h)
      · exact Or.inl (by simpa [covers, hpc] using h)
  exact C09_queue_batch_obtains rc (aqcost s th r.1) s c th r.1 hth ⟨hlt, Or.inr ⟨⟨r, hq, rfl⟩, hd⟩⟩ (Nat.le_refl _)

/-! ## non-vacuity: two deliveries of the same signal land while the consumer sits in `wait()`'s blocking read;
the batch hands out both records, in order -/
example :
    let run := fun (s : Sys) (sched : List Nat) => sched.foldl (fun s t => match step true s t with | some (s', _) => s' | none => s) s
    let s := run (Sys.init [10] 278 0 [[.deliver 10, .deliver 10], [.wait]]) [1, 0, 0, 0, 0, 0, 0]
    (s.threads[1]?.map (fun th => th.pc)) = some (.ppCallback .wait) ∧ s.pipe = 2 ∧ s.q = [(10, 1), (10, 2)] ∧
      soloYieldsQ true s 1 60 = [(10, 1), (10, 2)] := by
  decide +kernel

end SigHook.IterQ
