import SigHook.Lemmas.RegistrySeq
import SigHook.Gen.Consts
import SigHook.Gen.Platform
import SigHook.Model.Env
import SigHook.Model.Skel
/-!
# C05 — Registry behaves as independent per-signal ordered multisets with unique ids

> For any sequence of registrations, removals and deliveries across any set of signals, the
> registry is indistinguishable from a simple model: each registration yields an id never handed
> out before; unregister(id) returns true exactly when that action is still registered and then
> removes only it; removal of one action or of all actions of one signal never changes what other
> actions or other signals do. Once the library has taken a signal over, its handler stays the
> process's disposition (with system-call restart and kernel info enabled) for the rest of the
> process, even with zero actions left.

The theorems quantify over *every* finite history (`List Op`), every environment `env`
(which numbers the OS rejects, the forbidden list, the installed flags) and every signal number.
-/
namespace SigHook.Registry
local notation "Sig" => Int
local notation "Tag" => Nat
local notation "ActionId" => Nat

/-! ## The simple model the registry must be indistinguishable from -/

/-- Abstract state: per signal an ordered list of `(id, action)`, the disposition that was in
force when the signal was taken over (`none` = not taken), the kernel's table, the id counter.
No hash map, no sorted map, no fallback slot, no copy-on-write. -/
structure Spec where
  acts : Sig → List (ActionId × Tag)
  prev : Sig → Option Disp
  disp : Sig → Disp
  next : Nat

def Spec.init : Spec :=
  { acts := fun _ => [], prev := fun _ => none, disp := fun _ => .dfl, next := 1 }

def Spec.setActs (sp : Spec) (sig : Sig) (l : List (ActionId × Tag)) : Spec :=
  { sp with acts := fun x => if sig = x then l else sp.acts x }

def Spec.registerUnchecked (env : Env) (sp : Spec) (sig : Sig) (tag : Tag) : Spec × Out :=
  match sp.prev sig with
  | some _ => ({ sp.setActs sig (sp.acts sig ++ [(sp.next, tag)]) with next := sp.next + 1 },
               .id sig sp.next)
  | none =>
    if env.rejectsQuery sig || env.rejectsSet sig then (sp, .err)
    else
      ({ sp.setActs sig [(sp.next, tag)] with
          next := sp.next + 1,
          prev := fun x => if sig = x then some (sp.disp sig) else sp.prev x,
          disp := fun x => if sig = x then .lib env.libFlags else sp.disp x },
       .id sig sp.next)

def Spec.step (env : Env) (sp : Spec) : Op → Spec × Out
  | .register sig tag =>
    if env.forbidden.contains sig then (sp, .panic) else sp.registerUnchecked env sig tag
  | .registerUnchecked sig tag => sp.registerUnchecked env sig tag
  | .unregister sig id =>
    if (sp.acts sig).any (fun e => e.1 == id) then
      (sp.setActs sig ((sp.acts sig).filter (fun e => e.1 != id)), .bool true)
    else (sp, .bool false)
  | .unregisterSignal sig =>
    if (sp.acts sig).isEmpty then (sp, .bool false) else (sp.setActs sig [], .bool true)
  | .deliver sig =>
    match sp.prev sig with
    | some prev => (sp, .ran (prevCalled prev) ((sp.acts sig).map (·.2)))
    | none => (sp, .notOurs (sp.disp sig))
  | .foreign sig d => ({ sp with disp := fun x => if sig = x then d else sp.disp x }, .bool true)

def Spec.run (env : Env) : Spec → List Op → Spec × List Out
  | sp, [] => (sp, [])
  | sp, op :: ops =>
    let r := sp.step env op
    let rest := Spec.run env r.1 ops
    (rest.1, r.2 :: rest.2)

/-- The abstraction function: what of the concrete state is observable. The fallback slot and
the shape of the maps are forgotten. -/
def abs (s : State) : Spec :=
  { acts := actionsOf s, prev := fun sig => (lookup sig s.signals).map (·.prev),
    disp := dispOf s, next := s.nextId }

/-- every operation of a history respects the environment hypothesis (`Admissible`) -/
def AdmissibleRun (env : Env) : State → List Op → Prop
  | _, [] => True
  | s, op :: ops => Admissible s op ∧ AdmissibleRun env (step env s op).1 ops

/-! ## One-step lemmas -/

theorem wf_registerUnchecked (env : Env) (s : State) (sig : Sig) (tag : Tag) (h : WF env s) :
    WF env (registerUnchecked env s sig tag).1 := by
  unfold registerUnchecked
  cases hl : lookup sig s.signals with
  | some slot =>
    simp only
    rw [btInsert_fresh _ _ _ (h.below sig slot hl)]
    simp only [Bool.false_eq_true, if_false]
    constructor
    · intro sig' slot' hs'
      simp only [lookup_update] at hs'
      split at hs'
      · cases hs'
        intro e he
        simp at he
        rcases he with he | he
        · have := h.below sig slot hl e he; show e.1 < s.nextId + 1; omega
        · subst he; simp
      · exact (h.below sig' slot' hs').mono (by simp)
    · intro sig' slot' hs'
      simp only [lookup_update] at hs'
      split at hs'
      · cases hs'
        exact pairwise_append_fresh _ _ _ (h.sorted sig slot hl) (h.below sig slot hl)
      · exact h.sorted sig' slot' hs'
    · intro sig' ht
      have : taken s sig' = true := by
        simp only [taken, lookup_update] at ht
        split at ht
        · rename_i heq; subst heq; simp [taken, hl]
        · exact ht
      have := h.takenLib sig' this
      simpa [dispOf] using this
    · intro sig' f hd
      have : taken s sig' = true := h.libTaken sig' f (by simpa [dispOf] using hd)
      simp only [taken, lookup_update]
      split
      · rfl
      · exact this
    · simp
  | none =>
    simp only
    split
    · exact h
    · split
      · -- only the fallback changed
        constructor
        · exact h.below
        · exact h.sorted
        · exact h.takenLib
        · exact h.libTaken
        · exact h.pos
      · constructor
        · intro sig' slot' hs'
          simp only [lookup_update] at hs'
          split at hs'
          · cases hs'; intro e he; simp at he; subst he; simp
          · exact (h.below sig' slot' hs').mono (by simp)
        · intro sig' slot' hs'
          simp only [lookup_update] at hs'
          split at hs'
          · cases hs'; simp
          · exact h.sorted sig' slot' hs'
        · intro sig' ht
          simp only [taken, lookup_update] at ht
          simp only [dispOf, lookup_update]
          split
          · rfl
          · rename_i hne
            simp only [hne, if_false] at ht
            have := h.takenLib sig' (by simpa [taken] using ht)
            simpa [dispOf] using this
        · intro sig' f hd
          simp only [taken, lookup_update]
          split
          · rfl
          · rename_i hne
            simp only [dispOf, lookup_update, hne, if_false] at hd
            exact h.libTaken sig' f (by simpa [dispOf] using hd)
        · simp

theorem wf_step (env : Env) (s : State) (op : Op) (h : WF env s) (ha : Admissible s op) :
    WF env (step env s op).1 := by
  cases op with
  | register sig tag =>
    simp only [step, register]
    split
    · exact h
    · exact wf_registerUnchecked env s sig tag h
  | registerUnchecked sig tag => exact wf_registerUnchecked env s sig tag h
  | unregister sig id =>
    simp only [step, unregister]
    cases hl : lookup sig s.signals with
    | none => exact h
    | some slot =>
      simp only
      split
      · constructor
        · intro sig' slot' hs'
          simp only [lookup_update] at hs'
          split at hs'
          · cases hs'
            intro e he
            exact h.below sig slot hl e (btRemove_mem _ _ _ he)
          · exact h.below sig' slot' hs'
        · intro sig' slot' hs'
          simp only [lookup_update] at hs'
          split at hs'
          · cases hs'
            exact (h.sorted sig slot hl).sublist (btRemove_sublist _ _)
          · exact h.sorted sig' slot' hs'
        · intro sig' ht
          have : taken s sig' = true := by
            simp only [taken, lookup_update] at ht
            split at ht
            · rename_i heq; subst heq; simp [taken, hl]
            · exact ht
          simpa [dispOf] using h.takenLib sig' this
        · intro sig' f hd
          have : taken s sig' = true := h.libTaken sig' f (by simpa [dispOf] using hd)
          simp only [taken, lookup_update]
          split
          · rfl
          · exact this
        · exact h.pos
      · exact h
  | unregisterSignal sig =>
    simp only [step, unregisterSignal]
    cases hl : lookup sig s.signals with
    | none => exact h
    | some slot =>
      simp only
      split
      · exact h
      · constructor
        · intro sig' slot' hs'
          simp only [lookup_update] at hs'
          split at hs'
          · cases hs'; intro e he; simp at he
          · exact h.below sig' slot' hs'
        · intro sig' slot' hs'
          simp only [lookup_update] at hs'
          split at hs'
          · cases hs'; simp
          · exact h.sorted sig' slot' hs'
        · intro sig' ht
          have : taken s sig' = true := by
            simp only [taken, lookup_update] at ht
            split at ht
            · rename_i heq; subst heq; simp [taken, hl]
            · exact ht
          simpa [dispOf] using h.takenLib sig' this
        · intro sig' f hd
          have : taken s sig' = true := h.libTaken sig' f (by simpa [dispOf] using hd)
          simp only [taken, lookup_update]
          split
          · rfl
          · exact this
        · exact h.pos
  | deliver sig => exact h
  | foreign sig d =>
    obtain ⟨hnt, hnl⟩ := ha
    simp only [step]
    constructor
    · exact h.below
    · exact h.sorted
    · intro sig' ht
      have ht' : taken s sig' = true := ht
      have hne : sig ≠ sig' := by
        intro heq; subst heq; rw [hnt] at ht'; cases ht'
      rw [dispOf_update]; simp only [hne, if_false]
      exact h.takenLib sig' ht'
    · intro sig' f hd
      rw [dispOf_update] at hd
      split at hd
      · exact absurd hd (hnl f)
      · exact h.libTaken sig' f hd
    · exact h.pos

theorem wf_run (env : Env) (s : State) (ops : List Op) (h : WF env s)
    (ha : AdmissibleRun env s ops) : WF env (runState env s ops) := by
  induction ops generalizing s with
  | nil => exact h
  | cons op ops ih =>
    simp only [runState, run]
    exact ih _ (wf_step env s op h ha.1) ha.2

theorem regU_refines (env : Env) (s : State) (sig : Sig) (tag : Tag) (hwf : WF env s) :
    (registerUnchecked env s sig tag).2 = ((abs s).registerUnchecked env sig tag).2 ∧
    abs (registerUnchecked env s sig tag).1 = ((abs s).registerUnchecked env sig tag).1 := by
  unfold registerUnchecked Spec.registerUnchecked
  cases hl : lookup sig s.signals with
  | some slot =>
    have hb := btInsert_fresh s.nextId tag _ (hwf.below sig slot hl)
    simp only [abs, hl, Option.map, hb]
    refine ⟨rfl, ?_⟩
    simp [Spec.setActs]
    refine ⟨?_, ?_, ?_⟩ <;> funext x
    · by_cases h : sig = x <;> simp [actionsOf, hl, lookup_update, h]
      subst h; simp [hl]
    · by_cases h : sig = x <;> simp [lookup_update, h]
      subst h; simp [hl]
    · simp [dispOf]
  | none =>
    simp only [abs, hl, Option.map]
    by_cases hq : env.rejectsQuery sig = true
    · simp [hq]
    · by_cases hs : env.rejectsSet sig = true
      · simp [hq, hs]
        exact ⟨rfl, rfl⟩
      · simp [hq, hs]
        refine ⟨?_, ?_, ?_⟩ <;> funext x
        · by_cases h : sig = x <;> simp [Spec.setActs, actionsOf, lookup_update, h]
        · by_cases h : sig = x <;> simp [lookup_update, h]
        · by_cases h : sig = x <;> simp [dispOf, lookup_update, h]

/-- **One concrete step is matched by one step of the simple model**: same result, and the
abstraction commutes. -/
theorem step_refines (env : Env) (s : State) (op : Op) (hwf : WF env s) (ha : Admissible s op) :
    (step env s op).2 = ((abs s).step env op).2 ∧
    abs (step env s op).1 = ((abs s).step env op).1 := by
  cases op with
  | register sig tag =>
    simp only [step, Spec.step, register]
    split
    · exact ⟨rfl, rfl⟩
    · exact regU_refines env s sig tag hwf
  | registerUnchecked sig tag => exact regU_refines env s sig tag hwf
  | unregister sig id =>
    simp only [step, Spec.step, unregister]
    cases hl : lookup sig s.signals with
    | none => simp [abs, actionsOf, hl]
    | some slot =>
      have hf := btRemove_eq_filter id _ (hwf.sorted sig slot hl)
      simp only [btRemove_snd, abs, actionsOf, hl, Option.map, Option.getD]
      split
      · refine ⟨rfl, ?_⟩
        simp [Spec.setActs]
        refine ⟨?_, ?_, ?_⟩ <;> funext x
        · by_cases h : sig = x <;> simp [actionsOf, lookup_update, h, hf]
        · by_cases h : sig = x <;> simp [lookup_update, h]
          subst h; simp [hl]
        · simp [dispOf]
      · exact ⟨rfl, rfl⟩
  | unregisterSignal sig =>
    simp only [step, Spec.step, unregisterSignal]
    cases hl : lookup sig s.signals with
    | none => simp [abs, actionsOf, hl]
    | some slot =>
      simp only [abs, actionsOf, hl, Option.map, Option.getD]
      split
      · exact ⟨rfl, rfl⟩
      · refine ⟨rfl, ?_⟩
        simp [Spec.setActs]
        refine ⟨?_, ?_, ?_⟩ <;> funext x
        · by_cases h : sig = x <;> simp [actionsOf, lookup_update, h]
        · by_cases h : sig = x <;> simp [lookup_update, h]
          subst h; simp [hl]
        · simp [dispOf]
  | deliver sig =>
    simp only [step, Spec.step, deliver]
    cases hl : lookup sig s.signals with
    | some slot =>
      have ht : taken s sig = true := by simp [taken, hl]
      rw [hwf.takenLib sig ht]
      simp [abs, handler, hl, actionsOf]
    | none =>
      have ht : taken s sig = false := by simp [taken, hl]
      cases hdd : dispOf s sig with
      | lib f => have := hwf.libTaken sig f hdd; rw [ht] at this; cases this
      | dfl => simp [abs, hl, hdd]
      | ign => simp [abs, hl, hdd]
      | h1 f => simp [abs, hl, hdd]
      | h3 f => simp [abs, hl, hdd]
  | foreign sig d =>
    simp only [step, Spec.step]
    refine ⟨by trivial, ?_⟩
    simp [abs]
    refine ⟨rfl, ?_⟩
    funext x
    by_cases h : sig = x <;> simp [dispOf, lookup_update, h]

theorem abs_init : abs State.init = Spec.init := by
  simp [abs, State.init, Spec.init, lookup]
  refine ⟨?_, ?_⟩ <;> funext x <;> simp [actionsOf, dispOf, lookup]

/-! ## Property theorems -/

/-- **C05.refines_spec** — every finite admissible history, run from any well-formed state,
produces exactly the results of the simple model, and the abstraction of the final state is the
simple model's final state. -/
theorem C05_refines_spec (env : Env) (s : State) (ops : List Op)
    (hwf : WF env s) (ha : AdmissibleRun env s ops) :
    runOuts env s ops = (Spec.run env (abs s) ops).2 ∧
    abs (runState env s ops) = (Spec.run env (abs s) ops).1 := by
  induction ops generalizing s with
  | nil => exact ⟨rfl, rfl⟩
  | cons op ops ih =>
    obtain ⟨h1, h2⟩ := step_refines env s op hwf ha.1
    obtain ⟨h3, h4⟩ := ih _ (wf_step env s op hwf ha.1) ha.2
    simp only [runOuts, runState, run, Spec.run] at *
    rw [h2] at h3 h4
    exact ⟨by rw [h1, h3], h4⟩

/-- the same from the initial state of a process -/
theorem C05_refines_spec_init (env : Env) (ops : List Op)
    (ha : AdmissibleRun env State.init ops) :
    runOuts env State.init ops = (Spec.run env Spec.init ops).2 := by
  rw [← abs_init]; exact (C05_refines_spec env _ ops (WF.init env) ha).1

/-- ids handed out by a list of results -/
def idsOf : List Out → List Nat
  | [] => []
  | .id _ i :: rest => i :: idsOf rest
  | _ :: rest => idsOf rest

theorem step_ids (env : Env) (s : State) (op : Op) :
    (∀ sig i, (step env s op).2 = .id sig i → i = s.nextId ∧ (step env s op).1.nextId = s.nextId + 1) ∧
    s.nextId ≤ (step env s op).1.nextId ∧ (step env s op).1.nextId ≤ s.nextId + 1 := by
  have regU : ∀ sig tag,
      (∀ sg i, (registerUnchecked env s sig tag).2 = .id sg i →
        i = s.nextId ∧ (registerUnchecked env s sig tag).1.nextId = s.nextId + 1) ∧
      s.nextId ≤ (registerUnchecked env s sig tag).1.nextId ∧
      (registerUnchecked env s sig tag).1.nextId ≤ s.nextId + 1 := by
    intro sig tag
    unfold registerUnchecked
    cases lookup sig s.signals with
    | some slot =>
      simp only
      split
      · exact ⟨(by intro _ _ h; cases h), Nat.le_refl _, by simp⟩
      · exact ⟨(by intro _ _ h; cases h; exact ⟨rfl, rfl⟩), by simp, by simp⟩
    | none =>
      simp only
      split
      · exact ⟨(by intro _ _ h; cases h), Nat.le_refl _, by simp⟩
      · split
        · exact ⟨(by intro _ _ h; cases h), Nat.le_refl _, by simp⟩
        · exact ⟨(by intro _ _ h; cases h; exact ⟨rfl, rfl⟩), by simp, by simp⟩
  cases op with
  | register sig tag =>
    simp only [step, register]
    split
    · exact ⟨(by intro _ _ h; cases h), Nat.le_refl _, by simp⟩
    · exact regU sig tag
  | registerUnchecked sig tag => exact regU sig tag
  | unregister sig id =>
    simp only [step, unregister]
    cases lookup sig s.signals with
    | none => exact ⟨(by intro _ _ h; cases h), Nat.le_refl _, by simp⟩
    | some slot =>
      simp only
      split <;> exact ⟨(by intro _ _ h; cases h), Nat.le_refl _, by simp⟩
  | unregisterSignal sig =>
    simp only [step, unregisterSignal]
    cases lookup sig s.signals with
    | none => exact ⟨(by intro _ _ h; cases h), Nat.le_refl _, by simp⟩
    | some slot =>
      simp only
      split <;> exact ⟨(by intro _ _ h; cases h), Nat.le_refl _, by simp⟩
  | deliver sig =>
    refine ⟨?_, Nat.le_refl _, by simp [step]⟩
    intro sg i h
    simp only [step, deliver] at h
    split at h
    · simp only [handler] at h
      split at h
      · cases h
      · split at h
        · split at h <;> cases h
        · cases h
    · cases h
  | foreign sig d => exact ⟨(by intro _ _ h; cases h), Nat.le_refl _, by simp [step]⟩

theorem ids_run (env : Env) (s : State) (ops : List Op) :
    (idsOf (runOuts env s ops)).Pairwise (· < ·) ∧
    (∀ i ∈ idsOf (runOuts env s ops), s.nextId ≤ i ∧ i < (runState env s ops).nextId) ∧
    s.nextId ≤ (runState env s ops).nextId ∧
    (runState env s ops).nextId ≤ s.nextId + ops.length := by
  induction ops generalizing s with
  | nil => simp [runOuts, runState, run, idsOf]
  | cons op ops ih =>
    obtain ⟨hp, hb, hm, hl⟩ := ih (step env s op).1
    obtain ⟨hid, hmono, hle⟩ := step_ids env s op
    simp only [runOuts, runState, run] at *
    cases hout : (step env s op).2 with
    | id sg i =>
      obtain ⟨hi, hn⟩ := hid sg i hout
      simp only [idsOf, List.pairwise_cons, List.mem_cons, List.length_cons]
      refine ⟨⟨?_, hp⟩, ?_, by omega, by omega⟩
      · intro j hj; have := (hb j hj).1; omega
      · intro j hj
        rcases hj with hj | hj
        · subst hj; omega
        · have := hb j hj; omega
    | _ =>
      simp only [idsOf, List.length_cons]
      refine ⟨hp, ?_, by omega, by omega⟩
      intro j hj; have := hb j hj; omega

/-- **C05.ids_unique** — along any history the ids handed out are strictly increasing (hence
pairwise distinct, never reused), and the counter grows by at most one per operation, so the
`u128` counter cannot wrap before `2^128 - 1` operations. -/
theorem C05_ids_unique (env : Env) (ops : List Op) :
    (idsOf (runOuts env State.init ops)).Pairwise (· < ·) ∧
    (runState env State.init ops).nextId ≤ 1 + ops.length := by
  obtain ⟨h1, _, _, h4⟩ := ids_run env State.init ops
  exact ⟨h1, by simpa [State.init] using h4⟩

theorem C05_no_u128_wrap (env : Env) (ops : List Op) (h : ops.length < 2^128 - 1) :
    (runState env State.init ops).nextId < 2^128 := by
  have := (C05_ids_unique env ops).2; omega

/-- the signal an operation is addressed to -/
def opSig : Op → Sig
  | .register s _ | .registerUnchecked s _ | .unregister s _ | .unregisterSignal s
  | .deliver s | .foreign s _ => s

/-- **C05.frame** — an operation addressed to signal `s` (or to an id of `s`) leaves the
actions of every other signal untouched, whatever the state. -/
theorem C05_frame (env : Env) (s : State) (op : Op) (sig' : Sig) (h : opSig op ≠ sig') :
    actionsOf (step env s op).1 sig' = actionsOf s sig' ∧
    taken (step env s op).1 sig' = taken s sig' := by
  have regU : ∀ sig tag, sig ≠ sig' →
      actionsOf (registerUnchecked env s sig tag).1 sig' = actionsOf s sig' ∧
      taken (registerUnchecked env s sig tag).1 sig' = taken s sig' := by
    intro sig tag hne
    unfold registerUnchecked
    cases lookup sig s.signals with
    | some slot =>
      simp only
      split
      · exact ⟨rfl, rfl⟩
      · simp [actionsOf, taken, lookup_update, hne]
    | none =>
      simp only
      split
      · exact ⟨rfl, rfl⟩
      · split
        · exact ⟨rfl, rfl⟩
        · simp [actionsOf, taken, lookup_update, hne]
  cases op with
  | register sig tag =>
    simp only [step, register]
    split
    · exact ⟨rfl, rfl⟩
    · exact regU sig tag h
  | registerUnchecked sig tag => exact regU sig tag h
  | unregister sig id =>
    have hne : sig ≠ sig' := h
    simp only [step, unregister]
    cases lookup sig s.signals with
    | none => exact ⟨rfl, rfl⟩
    | some slot =>
      simp only
      split
      · simp [actionsOf, taken, lookup_update, hne]
      · exact ⟨rfl, rfl⟩
  | unregisterSignal sig =>
    have hne : sig ≠ sig' := h
    simp only [step, unregisterSignal]
    cases lookup sig s.signals with
    | none => exact ⟨rfl, rfl⟩
    | some slot =>
      simp only
      split
      · exact ⟨rfl, rfl⟩
      · simp [actionsOf, taken, lookup_update, hne]
  | deliver sig => exact ⟨rfl, rfl⟩
  | foreign sig d => exact ⟨rfl, rfl⟩

/-- **C05.unregister_only_it** — `unregister (sig, id)` returns `true` exactly when `id` is
currently registered for `sig`; it then removes that entry and keeps every other entry of `sig`,
in the same order. -/
theorem C05_unregister_only_it (env : Env) (s : State) (sig : Sig) (id : ActionId)
    (hwf : WF env s) :
    ((unregister s sig id).2 = .bool ((actionsOf s sig).any (fun e => e.1 == id))) ∧
    actionsOf (unregister s sig id).1 sig = (actionsOf s sig).filter (fun e => e.1 != id) := by
  unfold unregister
  cases hl : lookup sig s.signals with
  | none => simp [actionsOf, hl]
  | some slot =>
    have hf := btRemove_eq_filter id _ (hwf.sorted sig slot hl)
    simp only [btRemove_snd]
    split
    · rename_i hany
      simp [actionsOf, hl, lookup_update_self, hany, hf]
    · rename_i hany
      simp only [actionsOf, hl, Option.map, Option.getD]
      simp only [List.any_eq_true, not_exists, not_and] at hany
      refine ⟨?_, ?_⟩
      · congr 1; symm; simp only [Bool.eq_false_iff, ne_eq, List.any_eq_true, not_exists, not_and]; exact hany
      symm
      apply List.filter_eq_self.2
      intro e he
      have := hany e he
      simpa using this

/-- **C05.disposition_sticky** — once the library has taken a signal over, the kernel's
disposition for it is the library's dispatcher with exactly the generated flags
(`SA_RESTART | SA_SIGINFO`) after every later admissible history — also with zero actions left. -/
theorem C05_disposition_sticky (env : Env) (s : State) (ops : List Op) (sig : Sig)
    (hwf : WF env s) (ha : AdmissibleRun env s ops) (ht : taken s sig = true) :
    taken (runState env s ops) sig = true ∧
    dispOf (runState env s ops) sig = .lib env.libFlags := by
  have key : taken (runState env s ops) sig = true := by
    induction ops generalizing s with
    | nil => exact ht
    | cons op ops ih =>
      simp only [runState, run]
      apply ih _ (wf_step env s op hwf ha.1) ha.2
      -- slots are never removed
      by_cases hs : opSig op = sig
      · cases op with
        | register sg tag =>
          simp only [opSig] at hs; subst hs
          simp only [step, register]
          split
          · exact ht
          · simp only [registerUnchecked]
            simp only [taken] at ht
            cases hl : lookup sg s.signals with
            | none => simp [hl] at ht
            | some slot => simp only; split <;> simp [taken, lookup_update, hl]
        | registerUnchecked sg tag =>
          simp only [opSig] at hs; subst hs
          simp only [step, registerUnchecked]
          simp only [taken] at ht
          cases hl : lookup sg s.signals with
          | none => simp [hl] at ht
          | some slot => simp only; split <;> simp [taken, lookup_update, hl]
        | unregister sg id =>
          simp only [opSig] at hs; subst hs
          simp only [step, unregister]
          cases hl : lookup sg s.signals with
          | none => exact ht
          | some slot => simp only; split <;> simp [taken, lookup_update, hl]
        | unregisterSignal sg =>
          simp only [opSig] at hs; subst hs
          simp only [step, unregisterSignal]
          cases hl : lookup sg s.signals with
          | none => exact ht
          | some slot => simp only; split <;> simp [taken, lookup_update, hl]
        | deliver sg => exact ht
        | foreign sg d => exact ht
      · rw [(C05_frame env s op sig hs).2]; exact ht
  exact ⟨key, (wf_run env s ops hwf ha).takenLib sig key⟩

/-- deliveries of a taken signal run exactly its current list, in order, whatever happened to
other signals (corollary of `step_refines`, stated on the concrete model) -/
theorem C05_deliver_runs_list (env : Env) (s : State) (sig : Sig) (hwf : WF env s)
    (ht : taken s sig = true) :
    ∃ p, deliver s sig = .ran p ((actionsOf s sig).map (·.2)) := by
  simp only [taken] at ht
  cases hl : lookup sig s.signals with
  | none => simp [hl] at ht
  | some slot =>
    have := hwf.takenLib sig (by simp [taken, hl])
    exact ⟨prevCalled slot.prev, by simp [deliver, this, handler, hl, actionsOf]⟩

/-! ## Non-vacuity: concrete non-trivial histories meeting the hypotheses -/

def envLinux : Env :=
  { rejectsQuery := fun n => n < 1 || n > 64 || n == 32 || n == 33
    rejectsSet := fun n => n < 1 || n > 64 || n == 32 || n == 33 || n == 9 || n == 19
    forbidden := [9, 19, 4, 8, 11]
    libFlags := 0x10000004 }

def sampleOps : List Op :=
  [.foreign 10 (.h3 7), .register 10 100, .register 12 101, .register 10 102, .deliver 10,
   .unregister 10 1, .unregister 10 1, .deliver 10, .unregisterSignal 10, .deliver 10,
   .register 9 5, .registerUnchecked 9 5, .register 200 6, .deliver 12]

example : AdmissibleRun envLinux State.init sampleOps := by
  simp [sampleOps, AdmissibleRun, Admissible, taken, lookup, State.init]

example : runOuts envLinux State.init sampleOps =
    [.bool true, .id 10 1, .id 12 2, .id 10 3, .ran (some (.h3 7)) [100, 102],
     .bool true, .bool false, .ran (some (.h3 7)) [102], .bool true, .ran (some (.h3 7)) [],
     .panic, .err, .err, .ran none [101]] := by decide

example : taken (runState envLinux State.init sampleOps) 10 = true ∧
    actionsOf (runState envLinux State.init sampleOps) 10 = [] := by decide


/-! ## Tie to the generated constants (re-checked against `/repo` on every run) -/

/-- the environment the driver runs the model with: generated `FORBIDDEN`, generated flags -/
def genEnv : Env :=
  { rejectsQuery := Gen.osRejectsQuery, rejectsSet := Gen.osRejectsSet,
    forbidden := Gen.forbidden, libFlags := Gen.libFlags }

/-- the model's initial id counter is the one in `GlobalData::ensure` -/
theorem C05_initial_next_id : State.init.nextId = Gen.initialNextId := by decide

/-- the flags `Slot::new` installs are exactly system-call restart + kernel info -/
theorem C05_flags_restart_siginfo :
    Gen.libFlags = Gen.SA_RESTART.toNat ||| Gen.SA_SIGINFO.toNat ∧ Gen.SA_RESTART ≠ 0 ∧ Gen.SA_SIGINFO ≠ 0 := by
  decide

/-- **C05.container_shape** — tie to the source (regenerated): an id is a `u128` compared numerically
(`derive(Ord)` on the one-field tuple struct), the actions of a signal live in a `BTreeMap` keyed by it, the
signals in a `HashMap`, the counter is a `u128`. This is what the model's "list of (id, action) in registration
order; removing one entry leaves the others where they are" stands for: a map ordered by an id that is handed out
in increasing order iterates in registration order, and removal of a key does not move other keys. -/
theorem C05_container_shape :
    Gen.registryTypes = [("ActionId", "u128"), ("ActionId.derives.Ord", "true"),
      ("Slot.actions", "BTreeMap<ActionId,Arc<Action>>"), ("SignalData.signals", "HashMap<c_int,Slot>"),
      ("SignalData.next_id", "u128"), ("SigId.action", "ActionId")] := by decide

/-- **C05.slot_new_skeleton** — tie to the source (regenerated): the disposition the library installs is built
from a zeroed `sigaction` - its own handler, its own flags (`C05_flags_restart_siginfo`), and therefore an empty
mask: nothing of the predecessor's (not its flags, not its `sa_mask`) lives on in it. The predecessor is only
what the installing `sigaction` call hands back. -/
theorem C05_slot_new_skeleton :
    SigHook.skelOf "signal-hook-registry/src/lib.rs" "new@SA_RESTART" = ["new.zeroed", "handler", "flags", "install"] := by decide

end SigHook.Registry
