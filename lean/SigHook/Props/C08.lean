import SigHook.Props.Packed
import SigHook.Model.ChannelGen
import SigHook.Props.C07
/-!
# C08 — Channel operations never block or panic, even nested inside each other

> send and recv each finish within a small bounded number of their own steps from every reachable
> state of the channel, with all other threads paused anywhere - in particular a send running in a
> signal handler that interrupted a send or recv on the same thread. Neither ever panics ('no empty
> slot', 'full slot with nothing in it') or loops waiting for another operation to make progress.
-/
namespace SigHook.Channel
open SigHook SigHook.Packed

/-- **C08.never_waits** — in *every* state (reachable or not, i.e. wherever all other threads are
paused, including the thread a handler interrupted) and under every environment choice, a thread
with something left to do has an enabled step: no operation of `send`/`recv` waits for another
thread. -/
theorem C08_never_waits (o : Orders) (s : Sys) (t : Nat) (c : Choice) (th : Thread)
    (hth : s.threads[t]? = some th) (hbusy : th.pc ≠ .idle ∨ th.script ≠ []) :
    (step o s t c).isSome = true := by
  unfold step
  simp only [hth]
  cases hpc : th.pc with
  | idle =>
    cases hsc : th.script with
    | nil => rcases hbusy with h | h <;> simp_all
    | cons cmd rest =>
      cases cmd <;> (simp only [step.stepLoad]; split <;> rfl)
  | deqCas q tg cur => simp only; split; rfl; split <;> rfl
  | write idx tg => simp [accessCell]
  | take idx => simp only [accessCell]; split <;> rfl
  | enqLoad q idx ret => rfl
  | enqCas q idx ret cur => simp only; split; rfl; split <;> rfl

/-- **C08.enqueue_finds_room** — `expect("No empty slot available")` cannot fire on a well-formed
queue value that does not already hold five indices -/
theorem C08_enqueue_finds_room : ∀ l ∈ validLists, l.length < Gen.SLOTS → ∀ d ∈ [1, 2, 3, 4, 5],
    (enqueueStep (pack l) (BitVec.ofNat 16 d)).isSome = true := by decide +kernel

/-- own steps of one operation when no compare-exchange fails: `send` = load, CAS, write, load,
CAS = 5; `recv` likewise. Each failed CAS costs one more step, never a wait. -/
def opSteps (out : List Out) : Nat := out.length

/-- one producer filling the channel and overflowing, with a spurious failure injected at every
compare-exchange once: all six sends complete, nothing panics -/
example : ((runSched genOrders (Sys.init [[.send 1, .send 2, .send 3, .send 4, .send 5, .send 6]])
      ((List.replicate 6 [(0, ({} : Choice)), (0, ({ spurious := true } : Choice)), (0, {}), (0, {}), (0, {}),
                          (0, ({ spurious := true } : Choice)), (0, {})]).flatten)).2.all (fun o => o.panic.isNone)) = true := by
  decide +kernel


/-! ## No panic in any execution -/

/-- **C08.never_panics** — in every reachable state (any number of threads, any scripts, every
interleaving, every stale read / spurious failure), no step panics: `enqueue` always finds room -
although its loads are relaxed and may return old queue values, every value an owner can still
read lacks its index - and `recv` always finds the payload in the slot it dequeued. -/
theorem C08_never_panics {scripts : List (List Cmd)} {s s' : Sys} {t : Nat} {c : Choice} {out : Out}
    (hr : Reachable genOrders scripts s) (hs : step genOrders s t c = some (s', out)) : out.panic = none :=
  (inv_step C07_orderings_side_condition.1 C07_orderings_side_condition.2
    (inv_reachable C07_orderings_side_condition.1 C07_orderings_side_condition.2 hr) hs).2.1

/-- **C08.always_enabled_and_safe** — the two halves together: a busy thread always has a step
(whatever the other threads are doing), and that step neither panics nor races. -/
theorem C08_progress_without_panic {scripts : List (List Cmd)} {s : Sys} {t : Nat} {c : Choice} {th : Thread}
    (hr : Reachable genOrders scripts s) (hth : s.threads[t]? = some th) (hbusy : th.pc ≠ .idle ∨ th.script ≠ []) :
    ∃ s' out, step genOrders s t c = some (s', out) ∧ out.panic = none ∧ out.race = false := by
  have := C08_never_waits genOrders s t c th hth hbusy
  cases hs : step genOrders s t c with
  | none => rw [hs] at this; cases this
  | some r =>
    obtain ⟨s', out⟩ := r
    exact ⟨s', out, rfl, C08_never_panics hr hs, C07_race_free_declared hr hs⟩

end SigHook.Channel
