import SigHook.Model.Packed
/-! Facts about the packed queues, by complete enumeration of the 326 well-formed queue states
(lists of distinct slot indices 1..5, at most five of them). These are finite tables, so
`decide +kernel` over the whole table is a proof (no `native_decide`). -/
namespace SigHook.Packed

theorem validLists_length : validLists.length = 326 := by decide +kernel

/-- `unpack` inverts `pack` on every well-formed state -/
theorem unpack_pack : ∀ l ∈ validLists, unpack (pack l) = l := by decide +kernel

/-- `pack` is injective on well-formed states -/
theorem pack_injective : (validLists.map pack).Nodup := by decide +kernel

/-- **dequeue** on a well-formed state is `List` head/tail: empty iff the list is empty -/
theorem dequeue_spec : ∀ l ∈ validLists,
    dequeueStep (pack l) = match l with
      | [] => none
      | d :: rest => some (BitVec.ofNat 16 d, pack rest) := by decide +kernel

/-- **enqueue** on a well-formed state with room appends at the tail and never panics -/
theorem enqueue_spec : ∀ l ∈ validLists, l.length < Gen.SLOTS →
    ∀ d ∈ [1, 2, 3, 4, 5], enqueueStep (pack l) (BitVec.ofNat 16 d) = some (pack (l ++ [d])) := by
  decide +kernel

/-- a full queue (five entries) is the only well-formed state in which `enqueue` would panic -/
theorem enqueue_panics_iff_full : ∀ l ∈ validLists,
    (enqueueStep (pack l) 1 = none) = (l.length = Gen.SLOTS) := by decide +kernel

/-- well-formed states are closed under dequeue / enqueue of an absent index -/
theorem valid_closed :
    (∀ l ∈ validLists, l.tail ∈ validLists) ∧
    (∀ l ∈ validLists, l.length < Gen.SLOTS → ∀ d ∈ [1, 2, 3, 4, 5], ¬ l.contains d → (l ++ [d]) ∈ validLists) := by
  decide +kernel

/-- the constants the source declares are the ones the layout needs: 5 slots of 3 bits fit in 16
bits, and every slot index fits under the mask -/
theorem consts_consistent : Gen.SLOTS * Gen.BITS ≤ 16 ∧ Gen.SLOTS ≤ Gen.MASK ∧ Gen.MASK + 1 = 2 ^ Gen.BITS := by
  decide

end SigHook.Packed
