/-!
# C11 (continued) — why `close()` wakes unconditionally

`C11_close_and_poll_skeleton` pins `close()` to "store the flag, wake" with no condition in between
(`conditional` token). This file says what the condition would cost, on the smallest system that has the race:
one blocking consumer (look at `closed`; announce itself; block on the pipe) and one `close()` that writes its byte
only if somebody has announced itself. `wakes = .always` is the source's `close()`.

* `C11_unconditional_wake_never_strands`: with `.always`, in every reachable state in which `close()` has returned,
  the consumer is not blocked (its next step is enabled or it is done);
* `C11_conditional_wake_strands`: with `.ifWaiting` there is a reachable state in which `close()` has returned and the
  consumer sits in its blocking read on an empty pipe - and no step is enabled any more.

The full model's version of the first statement is `C11_close_unblocks` (`Props/C11b.lean`).
-/
namespace SigHook.CloseRace

inductive Wakes | always | ifWaiting
deriving DecidableEq, Repr

inductive CPc | look | announce | read | done
deriving DecidableEq, Repr

inductive KPc | store | wake | done
deriving DecidableEq, Repr

structure St where
  closed : Bool := false
  waiting : Bool := false
  pipe : Nat := 0
  c : CPc := .look
  k : KPc := .store
deriving DecidableEq, Repr

/-- one step of the consumer (`true`) or of `close()` (`false`); `none` = not enabled -/
def step (w : Wakes) (s : St) : Bool → Option St
  | true => match s.c with
    | .look => some { s with c := if s.closed then .done else .announce }
    | .announce => some { s with waiting := true, c := .read }
    | .read => if 0 < s.pipe then some { s with pipe := s.pipe - 1, waiting := false, c := .done } else none
    | .done => none
  | false => match s.k with
    | .store => some { s with closed := true, k := .wake }
    | .wake => match w with
      | .always => some { s with pipe := s.pipe + 1, k := .done }
      | .ifWaiting => some { s with pipe := if s.waiting then s.pipe + 1 else s.pipe, waiting := false, k := .done }
    | .done => none

def run (w : Wakes) : St → List Bool → Option St
  | s, [] => some s
  | s, b :: bs => match step w s b with
    | some s' => run w s' bs
    | none => none

inductive Reach (w : Wakes) : St → Prop
  | init : Reach w {}
  | step (s s' : St) (b : Bool) : Reach w s → step w s b = some s' → Reach w s'

/-- the invariant of the unconditional `close()` -/
def Inv (s : St) : Prop :=
  (s.k = .store → s.closed = false ∧ s.pipe = 0) ∧
  (s.k ≠ .store → s.closed = true) ∧
  (s.k = .done → s.c = .done ∨ s.c = .look ∨ 0 < s.pipe) ∧
  (s.k = .wake → s.pipe = 0)

theorem inv_init : Inv {} := by simp [Inv]

theorem inv_step (s s' : St) (b : Bool) (hi : Inv s) (h : step .always s b = some s') : Inv s' := by
  obtain ⟨h1, h2, h3, h4⟩ := hi
  cases b
  · -- close()
    simp only [step] at h
    cases hk : s.k <;> simp only [hk] at h <;> simp at h <;> subst h <;> simp_all [Inv]
  · -- the consumer
    simp only [step] at h
    cases hc : s.c <;> simp only [hc] at h
    · simp at h; subst h
      refine ⟨by simpa using h1, by simpa using h2, ?_, by simpa using h4⟩
      intro hk; simp at hk
      have hcl := h2 (by rw [hk]; simp)
      simp [hcl]
    · simp at h; subst h
      refine ⟨by simpa using h1, by simpa using h2, ?_, by simpa using h4⟩
      intro hk; simp at hk
      rcases h3 hk with h | h | h
      · simp [hc] at h
      · simp [hc] at h
      · exact Or.inr (Or.inr h)
    · split at h
      · simp at h; subst h
        refine ⟨?_, by simpa using h2, by intro _; exact Or.inl rfl, ?_⟩
        · intro hk; have := (h1 (by simpa using hk)).2; omega
        · intro hk; have := h4 (by simpa using hk); omega
      · simp at h
    · simp at h

theorem inv_reach (s : St) (h : Reach .always s) : Inv s := by
  induction h with
  | init => exact inv_init
  | step s s' b _ hs ih => exact inv_step s s' b ih hs

/-- **C11.unconditional_wake_never_strands** — the source's `close()`: in every reachable state in which it has
returned, the consumer is done or its next step is enabled -/
theorem C11_unconditional_wake_never_strands (s : St) (h : Reach .always s) (hk : s.k = .done) :
    s.c = .done ∨ (step .always s true).isSome = true := by
  obtain ⟨_, _, h3, _⟩ := inv_reach s h
  rcases h3 hk with h | h | h
  · exact Or.inl h
  · right; simp [step, h]
  · cases hc : s.c
    · right; simp [step, hc]
    · right; simp [step, hc]
    · right; simp [step, hc, h]
    · exact Or.inl rfl

theorem reach_run (w : Wakes) (s s' : St) (bs : List Bool) (h : Reach w s) (hr : run w s bs = some s') : Reach w s' := by
  induction bs generalizing s with
  | nil => simp [run] at hr; subst hr; exact h
  | cons b bs ih =>
    simp only [run] at hr
    cases hs : step w s b with
    | none => simp [hs] at hr
    | some s1 => simp only [hs] at hr; exact ih s1 (Reach.step s s1 b h hs) hr

/-- **C11.conditional_wake_strands** — a `close()` that wakes only a consumer that has announced itself: the consumer
looks at the flag, `close()` runs entirely (nobody has announced itself: no byte), the consumer announces itself and
blocks - `close()` has returned, the pipe is empty, nothing is enabled any more -/
theorem C11_conditional_wake_strands :
    ∃ s, Reach .ifWaiting s ∧ s.k = .done ∧ s.c = .read ∧ s.pipe = 0 ∧
      step .ifWaiting s true = none ∧ step .ifWaiting s false = none := by
  refine ⟨{ closed := true, waiting := true, pipe := 0, c := .read, k := .done }, ?_, rfl, rfl, rfl, by decide, by decide⟩
  exact reach_run .ifWaiting {} _ [true, false, false, true] Reach.init (by decide)

/-- the same schedule under the source's `close()` ends with the byte in the pipe and the consumer's read enabled -/
example : (run .always {} [true, false, false, true]).map (fun s => (s.pipe, (step .always s true).isSome)) = some (1, true) := by decide

end SigHook.CloseRace
