import SigHook.Lemmas.IterQ
/-!
# C10 for the queueing exfiltrators (`WithRawSiginfo`, `WithOrigin`) — model L8q

> C10: … With the info-carrying exfiltrators each yielded record is a faithful copy of the information of
> one actual delivery, each delivery yields at most one record, and records of one signal come out in
> delivery order.

`Model/IterQ.lean` is the iterator back end with one `SLOTS`-deep channel per signal; `send` and
`recv` are two steps each. Everything below is for every reachable state: any number of delivery and
`close` threads, one consumer of either front-end family, every interleaving, bursts of any length.
The executable model is run in lock-step with the real `SignalDelivery<_, WithRawSiginfo>` /
`SignalIterator` (verifkit/itq.py: every decisive load / CAS of the channels, the closed flag, the pipe
calls and the callbacks, under the deterministic scheduler).
-/
namespace SigHook.IterQ
open SigHook
open SigHook.Iter (Cmd Mode)

/-! ## C10: records -/

theorem mem_qOf (l : List Rec) (r : Rec) : r ∈ l ↔ r ∈ qOf l r.1 := by
  simp [qOf]

/-- **C10.queue_records_in_order** — per signal, the records handed out so far are an initial segment of
the records queued so far, in queueing order: nothing is handed out twice, out of order, or invented. -/
theorem C10_queue_records_in_order {rc : Bool} {c : Nat} {w : List Nat} {cap pipe : Nat} {scripts : List (List Cmd)}
    {s : Sys} (hc : c < scripts.length)
    (hp : ∀ (t : Nat) (sc : List Cmd), t ≠ c → scripts[t]? = some sc → ∀ cmd ∈ sc, cmd = .close ∨ ∃ sg, cmd = .deliver sg)
    (hr : Reachable rc w cap pipe scripts s) (sig : Nat) :
    qOf s.yields sig <+: qOf s.sent sig := by
  have hinv := fifo_reachable hc hp hr
  obtain ⟨th, hth⟩ := hinv.cons
  have := hinv.fifo th hth sig
  rw [List.append_assoc, qOf_append] at this
  exact ⟨_, this⟩

/-- **C10.queue_records_are_deliveries** — every record handed out is the record of a delivery that
began (`begun` is extended exactly when a delivery's `send` starts), and was queued by it. -/
theorem C10_queue_records_are_deliveries {rc : Bool} {c : Nat} {w : List Nat} {cap pipe : Nat}
    {scripts : List (List Cmd)} {s : Sys} (hc : c < scripts.length)
    (hp : ∀ (t : Nat) (sc : List Cmd), t ≠ c → scripts[t]? = some sc → ∀ cmd ∈ sc, cmd = .close ∨ ∃ sg, cmd = .deliver sg)
    (hr : Reachable rc w cap pipe scripts s) (r : Rec) (hy : r ∈ s.yields) : r ∈ s.sent ∧ r ∈ s.begun := by
  have hpre := C10_queue_records_in_order hc hp hr r.1
  have h1 : r ∈ qOf s.sent r.1 := hpre.subset ((mem_qOf _ r).1 hy)
  have h2 : r ∈ s.sent := (mem_qOf _ r).2 h1
  exact ⟨h2, (ids_reachable hr).sentBegun r h2⟩

theorem nodup_of_filters (l : List Rec) (h : ∀ sig, (qOf l sig).Nodup) : l.Nodup := by
  rw [List.nodup_iff_count]
  intro a
  have := List.nodup_iff_count.1 (h a.1) a
  rwa [qOf, List.count_filter (by simp)] at this

/-- **C10.queue_each_once** — no record is handed out twice, and no two deliveries share one. -/
theorem C10_queue_each_once {rc : Bool} {c : Nat} {w : List Nat} {cap pipe : Nat} {scripts : List (List Cmd)}
    {s : Sys} (hc : c < scripts.length)
    (hp : ∀ (t : Nat) (sc : List Cmd), t ≠ c → scripts[t]? = some sc → ∀ cmd ∈ sc, cmd = .close ∨ ∃ sg, cmd = .deliver sg)
    (hr : Reachable rc w cap pipe scripts s) : s.yields.Nodup ∧ (s.begun.map (·.2)).Nodup := by
  have hids := ids_reachable hr
  refine ⟨nodup_of_filters _ ?_, hids.distinct⟩
  intro sig
  have hpre := C10_queue_records_in_order hc hp hr sig
  have hs : (qOf s.sent sig).Nodup := List.Nodup.sublist List.filter_sublist hids.sentNodup
  exact List.Nodup.sublist hpre.sublist hs

/-- **C10.queue_capacity** — a channel never has more than `SLOTS` of its indexes queued or held … -/
theorem C10_queue_capacity {rc : Bool} {w : List Nat} {cap pipe : Nat} {scripts : List (List Cmd)} {s : Sys}
    (hr : Reachable rc w cap pipe scripts s) (sig : Nat) : busy s sig ≤ slots :=
  cap_reachable hr sig

/-- … and a record of a watched signal is dropped only when all of them are (**C10.drop_only_when_full**):
"bursts longer than the per-signal buffer" lose the newest records, never a queued one. -/
theorem C10_drop_only_when_full {rc : Bool} {w : List Nat} {cap pipe : Nat} {scripts : List (List Cmd)} {s s' : Sys}
    (hr : Reachable rc w cap pipe scripts s) (t : Nat) (sig : Nat) (o : Out)
    (hs : step rc s t = some (s', o)) (ho : o.obs = .sendBegin sig false) (hw : sig ∈ s.watched) :
    busy s sig = slots ∧ s'.q = s.q := by
  have hcap := cap_reachable hr sig
  unfold step at hs
  cases hth : s.threads[t]? with
  | none => simp [hth] at hs
  | some th =>
    simp only [hth] at hs
    cases hpc : th.pc with
    | idle =>
      simp only [hpc] at hs
      cases hsc : th.script with
      | nil => simp [hsc] at hs
      | cons cmd rest =>
        cases cmd with
        | deliver sg =>
          simp only [hsc] at hs
          split at hs
          · simp only [Option.some.injEq, Prod.mk.injEq] at hs; obtain ⟨_, rfl⟩ := hs; simp at ho
          · rename_i hg
            simp only [Option.some.injEq, Prod.mk.injEq] at hs; obtain ⟨rfl, rfl⟩ := hs
            simp only [Obs.sendBegin.injEq] at ho
            obtain ⟨rfl, _⟩ := ho
            have hwc : s.watched.contains sg = true := by simpa using hw
            simp only [hwc, Bool.true_and, decide_eq_true_eq] at hg
            exact ⟨by omega, rfl⟩
        | close => simp only [hsc, Option.some.injEq, Prod.mk.injEq] at hs; obtain ⟨_, rfl⟩ := hs; simp at ho
        | pending =>
          simp only [hsc, step.stepFlush] at hs
          split at hs <;> (try split at hs) <;>
            (simp only [Option.some.injEq, Prod.mk.injEq] at hs; obtain ⟨_, rfl⟩ := hs; simp at ho)
        | wait => simp only [hsc, Option.some.injEq, Prod.mk.injEq] at hs; obtain ⟨_, rfl⟩ := hs; simp at ho
        | poll =>
          simp only [hsc, step.stepPsClosed] at hs
          split at hs <;> (simp only [Option.some.injEq, Prod.mk.injEq] at hs; obtain ⟨_, rfl⟩ := hs; simp at ho)
        | forever =>
          simp only [hsc, step.stepPsClosed] at hs
          split at hs <;> (simp only [Option.some.injEq, Prod.mk.injEq] at hs; obtain ⟨_, rfl⟩ := hs; simp at ho)
    | dEnq sg i => simp only [hpc, Option.some.injEq, Prod.mk.injEq] at hs; obtain ⟨_, rfl⟩ := hs; simp at ho
    | dWake sg i => simp only [hpc, Option.some.injEq, Prod.mk.injEq] at hs; obtain ⟨_, rfl⟩ := hs; simp at ho
    | cWake => simp only [hpc, Option.some.injEq, Prod.mk.injEq] at hs; obtain ⟨_, rfl⟩ := hs; simp at ho
    | flush m =>
      simp only [hpc, step.stepFlush] at hs
      split at hs
      · simp only [Option.some.injEq, Prod.mk.injEq] at hs; obtain ⟨_, rfl⟩ := hs; simp at ho
      · cases m <;> (simp only [Option.some.injEq, Prod.mk.injEq] at hs; obtain ⟨_, rfl⟩ := hs; simp at ho)
    | scan m pos =>
      simp only [hpc] at hs
      split at hs
      · cases hh : headOf s.q pos <;>
          (simp only [hh, Option.some.injEq, Prod.mk.injEq] at hs; obtain ⟨_, rfl⟩ := hs; simp at ho)
      · simp only [Option.some.injEq, Prod.mk.injEq] at hs; obtain ⟨_, rfl⟩ := hs; simp at ho
    | scanFin m pos i => simp only [hpc, Option.some.injEq, Prod.mk.injEq] at hs; obtain ⟨_, rfl⟩ := hs; simp at ho
    | psClosed m =>
      simp only [hpc, step.stepPsClosed] at hs
      split at hs <;> (simp only [Option.some.injEq, Prod.mk.injEq] at hs; obtain ⟨_, rfl⟩ := hs; simp at ho)
    | psNext m =>
      simp only [hpc] at hs
      cases hh : headOf s.q th.iterPos <;>
        (simp only [hh, Option.some.injEq, Prod.mk.injEq] at hs; obtain ⟨_, rfl⟩ := hs; simp at ho)
    | psFin m i =>
      simp only [hpc] at hs
      cases m <;> (simp only [Option.some.injEq, Prod.mk.injEq] at hs; obtain ⟨_, rfl⟩ := hs; simp at ho)
    | ppClosed m =>
      simp only [hpc] at hs
      split at hs
      · split at hs
        · simp only [Option.some.injEq, Prod.mk.injEq] at hs; obtain ⟨_, rfl⟩ := hs; simp at ho
        · cases m <;> (simp only [Option.some.injEq, Prod.mk.injEq] at hs; obtain ⟨_, rfl⟩ := hs; simp at ho)
      · simp only [Option.some.injEq, Prod.mk.injEq] at hs; obtain ⟨_, rfl⟩ := hs; simp at ho
    | psRecheck m =>
      simp only [hpc] at hs
      split at hs
      · simp only [Option.some.injEq, Prod.mk.injEq] at hs; obtain ⟨_, rfl⟩ := hs; simp at ho
      · cases m <;> (simp only [Option.some.injEq, Prod.mk.injEq] at hs; obtain ⟨_, rfl⟩ := hs; simp at ho)
    | ppCallback m =>
      simp only [hpc] at hs
      split at hs
      · split at hs
        · simp at hs
        · simp only [Option.some.injEq, Prod.mk.injEq] at hs; obtain ⟨_, rfl⟩ := hs; simp at ho
      · split at hs
        · split at hs <;> (simp only [Option.some.injEq, Prod.mk.injEq] at hs; obtain ⟨_, rfl⟩ := hs; simp at ho)
        · simp only [Option.some.injEq, Prod.mk.injEq] at hs; obtain ⟨_, rfl⟩ := hs; simp at ho

/-! ## non-vacuity: a burst of seven deliveries of one signal, drained by `pending` -/
example :
    let s := Sys.init [10] 278 0 [[.deliver 10, .deliver 10, .deliver 10, .deliver 10, .deliver 10, .deliver 10, .deliver 10], [.pending]]
    let run := fun (s : Sys) (sched : List Nat) => sched.foldl (fun s t => match step true s t with | some (s', _) => s' | none => s) s
    let s1 := run s (List.replicate 19 0)
    (s1.sent.length = 5 ∧ s1.dropped.length = 2 ∧ busy s1 10 = 5) := by decide

end SigHook.IterQ
