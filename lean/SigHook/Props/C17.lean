import SigHook.Model.Origin
import SigHook.Gen.Platform
import SigHook.Model.Skel
/-!
# C17 — Reported signal origin equals the kernel's facts, and is absent when unknown

> For a delivery caused by kill, thread-directed kill/raise, sigqueue, a child's state change or
> the kernel itself, the origin reported through the origin exfiltrator or extracted by hand
> carries the delivered signal number, the cause class matching how it was sent, and - exactly when
> the kernel supplies them - the sender's (or child's) process id and user id; when the kernel does
> not supply a process, none is reported rather than stale or overlapping memory.

All theorems quantify over **every** `(si_signo, si_code) : Int × Int` and every content of the
pid/uid bytes — not a sample. The tables are regenerated from `extract.c` / `siginfo.rs` on every
run; the `SI_*` / `CLD_*` / `SIGCHLD` numbers come from the system headers (`Gen.Platform`).
-/
namespace SigHook.Origin
open SigHook.Gen

/-- the numeric cause code as a chain of tests (what the generated table computes) -/
theorem causeCode_cases (signo code : Int) :
    causeCode Gen.causeRows signo code =
      if code = Gen.SI_KERNEL then 1
      else if code = Gen.SI_USER then 2
      else if code = Gen.SI_TKILL then 3
      else if code = Gen.SI_QUEUE then 4
      else if code = Gen.SI_MESGQ then 5
      else if signo = Gen.SIGCHLD then
        if code = Gen.CLD_EXITED then 6
        else if code = Gen.CLD_KILLED then 7
        else if code = Gen.CLD_DUMPED then 8
        else if code = Gen.CLD_TRAPPED then 9
        else if code = Gen.CLD_STOPPED then 10
        else if code = Gen.CLD_CONTINUED then 11
        else 0
      else 0 := by
  simp only [Gen.SI_KERNEL, Gen.SI_USER, Gen.SI_TKILL, Gen.SI_QUEUE,
    Gen.SI_MESGQ, Gen.SIGCHLD, Gen.CLD_EXITED, Gen.CLD_KILLED, Gen.CLD_DUMPED, Gen.CLD_TRAPPED,
    Gen.CLD_STOPPED, Gen.CLD_CONTINUED]
  by_cases h1 : code = 128
  · subst h1; simp [causeCode, Gen.causeRows]
  by_cases h2 : code = 0
  · subst h2; simp [causeCode, Gen.causeRows]
  by_cases h3 : code = -6
  · subst h3; simp [causeCode, Gen.causeRows]
  by_cases h4 : code = -1
  · subst h4; simp [causeCode, Gen.causeRows]
  by_cases h5 : code = -3
  · subst h5; simp [causeCode, Gen.causeRows]
  have e1 : ((128:Int) == code) = false := by simp; omega
  have e2 : ((0:Int) == code) = false := by simp; omega
  have e3 : ((-6:Int) == code) = false := by simp; omega
  have e4 : ((-1:Int) == code) = false := by simp; omega
  have e5 : ((-3:Int) == code) = false := by simp; omega
  simp only [h1, h2, h3, h4, h5, if_false]
  by_cases hs : signo = 17
  · subst hs
    by_cases c1 : code = 1
    · subst c1; simp [causeCode, Gen.causeRows]
    by_cases c2 : code = 2
    · subst c2; simp [causeCode, Gen.causeRows]
    by_cases c3 : code = 3
    · subst c3; simp [causeCode, Gen.causeRows]
    by_cases c4 : code = 4
    · subst c4; simp [causeCode, Gen.causeRows]
    by_cases c5 : code = 5
    · subst c5; simp [causeCode, Gen.causeRows]
    by_cases c6 : code = 6
    · subst c6; simp [causeCode, Gen.causeRows]
    have f1 : ((1:Int) == code) = false := by simp; omega
    have f2 : ((2:Int) == code) = false := by simp; omega
    have f3 : ((3:Int) == code) = false := by simp; omega
    have f4 : ((4:Int) == code) = false := by simp; omega
    have f5 : ((5:Int) == code) = false := by simp; omega
    have f6 : ((6:Int) == code) = false := by simp; omega
    simp [causeCode, Gen.causeRows, List.find?, e1, e2, e3, e4, e5, f1, f2, f3, f4, f5, f6, c1, c2, c3, c4, c5, c6]
  · have g : ((17:Int) == signo) = false := by simp; omega
    simp [causeCode, Gen.causeRows, List.find?, e1, e2, e3, e4, e5, g, hs]

/-- **C17.cause_correct** — for every signal number and every `si_code`, the reported cause
class is the intended one; SIGCHLD codes are recognised only for SIGCHLD. -/
theorem C17_cause_correct (info : SigInfo) :
    (extract info).cause = specCause info.signo info.code := by
  simp only [extract, causeCode_cases, specCause,
    apply_ite (toCause Gen.toCauseTable Gen.toCauseDefault)]
  rfl

/-- **C17.process_iff_kernel_fills** — a process is reported exactly when the kernel supplies
one, it is then exactly `(si_pid, si_uid)`, and the signal is `si_signo`. -/
theorem C17_process_iff_kernel_fills (info : SigInfo) :
    (extract info).signal = info.signo ∧
    (extract info).process =
      if kernelFills info.signo info.code then some (info.pidField, info.uidField) else none := by
  refine ⟨rfl, ?_⟩
  have hp : hasProcess Gen.hasProcessTable (causeCode Gen.causeRows info.signo info.code)
      = kernelFills info.signo info.code := by
    simp only [causeCode_cases, apply_ite (hasProcess Gen.hasProcessTable), kernelFills,
      Gen.SI_KERNEL, Gen.SI_USER, Gen.SI_TKILL, Gen.SI_QUEUE, Gen.SI_MESGQ, Gen.SIGCHLD,
      Gen.CLD_EXITED, Gen.CLD_KILLED, Gen.CLD_DUMPED, Gen.CLD_TRAPPED, Gen.CLD_STOPPED,
      Gen.CLD_CONTINUED]
    have hv : ∀ k, hasProcess Gen.hasProcessTable k =
        (k == 2 || k == 3 || k == 4 || k == 5 || k == 6 || k == 7 || k == 8 || k == 9 || k == 10 || k == 11) := by
      intro k
      by_cases hk : k < 12
      · have : k = 0 ∨ k = 1 ∨ k = 2 ∨ k = 3 ∨ k = 4 ∨ k = 5 ∨ k = 6 ∨ k = 7 ∨ k = 8 ∨ k = 9 ∨ k = 10 ∨ k = 11 := by omega
        rcases this with h | h | h | h | h | h | h | h | h | h | h | h <;> subst h <;> decide
      · have h1 : ∀ j, j < 12 → ¬ (j = k) := by intro j hj; omega
        simp [hasProcess, lookupNat, Gen.hasProcessTable, h1]
        omega
    simp only [hv]
    by_cases h1 : info.code = 128
    · simp [h1]
    by_cases h2 : info.code = 0
    · simp [h2]
    by_cases h3 : info.code = -6
    · simp [h3]
    by_cases h4 : info.code = -1
    · simp [h4]
    by_cases h5 : info.code = -3
    · simp [h5]
    by_cases hs : info.signo = 17
    · by_cases c1 : info.code = 1
      · simp [c1, hs]
      by_cases c2 : info.code = 2
      · simp [c2, hs]
      by_cases c3 : info.code = 3
      · simp [c3, hs]
      by_cases c4 : info.code = 4
      · simp [c4, hs]
      by_cases c5 : info.code = 5
      · simp [c5, hs]
      by_cases c6 : info.code = 6
      · simp [c6, hs]
      simp [h1, h2, h3, h4, h5, hs, c1, c2, c3, c4, c5, c6]
    · simp [h1, h2, h3, h4, h5, hs]
  simp only [extract, hp]

/-- **C17.tables_in_sync** — every `translated` byte the C table can return is a discriminant of
`ICause` (so the `repr(u8)` enum is never given an invalid value), 0 is `Unknown`, and every
`ICause` other than `Unknown` is produced by some row. -/
theorem C17_tables_in_sync :
    (∀ r ∈ Gen.causeRows, r.2.2 ∈ Gen.icause.map (·.2)) ∧
    (("Unknown", 0) ∈ Gen.icause) ∧
    (∀ d ∈ Gen.icause, d.2 = 0 ∨ d.2 ∈ Gen.causeRows.map (·.2.2)) ∧
    (Gen.icause.map (·.2)).Nodup ∧
    (∀ d ∈ Gen.icause, (lookupNat d.2 Gen.hasProcessTable).isSome ∧
                        (lookupNat d.2 Gen.toCauseTable).isSome) := by decide

/-- does `v` fit an integer field of `bits` bits -/
def fitsField (bits : Nat) (signed : Bool) (v : Int) : Bool :=
  if signed then decide (-(2 ^ (bits - 1) : Int) ≤ v) && decide (v < 2 ^ (bits - 1)) else decide (0 ≤ v) && decide (v < 2 ^ bits)

def fieldOf (name : String) : Nat × Bool :=
  match Gen.constFields.find? (fun f => f.1 == name) with
  | some f => f.2
  | none => (0, false)

/-- **C17.table_fields_fit** — tie to the source (regenerated): every constant of every enabled row of
`consts[]` fits the integer type of the `struct Const` field that holds it, so the C compiler stores the table
as written (the constants expand from system-header macros: a field too narrow for one of them - `SI_KERNEL` is
0x80 - truncates it without a warning and the row never matches). `si_code` / `si_signo` are `int`: a field at
least that wide compares exactly. -/
theorem C17_table_fields_fit :
    (∀ r ∈ Gen.causeRows, fitsField (fieldOf "native").1 (fieldOf "native").2 r.1 = true ∧
                           fitsField (fieldOf "signal").1 (fieldOf "signal").2 r.2.1 = true ∧
                           fitsField (fieldOf "translated").1 (fieldOf "translated").2 r.2.2 = true) ∧
    (fieldOf "native").2 = true ∧ (fieldOf "signal").2 = true := by decide

/-- **C17.extract_meets_spec** — the three facts together: for every kernel record, the model
of `Origin::extract` returns exactly what the property demands (`specOrigin`, the monitor the
harness applies to the real code). -/
theorem C17_extract_meets_spec (info : SigInfo) : extract info = specOrigin info := by
  have h1 := C17_cause_correct info
  have h2 := C17_process_iff_kernel_fills info
  cases he : extract info with
  | mk sg pr ca =>
    rw [he] at h1 h2
    simp only [specOrigin]
    simp only at h1 h2
    rw [h1, h2.1, h2.2]

/-! ## Round sixteen: non-interference ("rather than stale or overlapping memory")

`si_pid` / `si_uid` live in a union: for a timer, a fault or a kernel-generated signal the same bytes hold something
else. The strongest reading of the last clause is that, when the kernel supplies no process, the *whole* reported
origin is a function of `(si_signo, si_code)` alone - whatever those bytes contain. -/

/-- **C17.no_stale_memory** — for every signal number and cause code for which the kernel supplies no process, and
every two contents of the bytes at the pid / uid offsets, the reported origins are equal. -/
theorem C17_no_stale_memory (signo code p u p' u' : Int) (h : kernelFills signo code = false) :
    extract ⟨signo, code, p, u⟩ = extract ⟨signo, code, p', u'⟩ := by
  rw [C17_extract_meets_spec, C17_extract_meets_spec]
  simp [specOrigin, h]

/-- **C17.cause_ignores_payload** — the signal number and the cause class never depend on those bytes, supplied or
not. -/
theorem C17_cause_ignores_payload (signo code p u p' u' : Int) :
    (extract ⟨signo, code, p, u⟩).signal = (extract ⟨signo, code, p', u'⟩).signal ∧
    (extract ⟨signo, code, p, u⟩).cause = (extract ⟨signo, code, p', u'⟩).cause := by
  rw [C17_extract_meets_spec, C17_extract_meets_spec]
  exact ⟨rfl, rfl⟩

/-- **C17.process_verbatim** — and when the kernel does supply them, the reported pair is those two fields, verbatim
(zeros included), for every record. -/
theorem C17_process_verbatim (signo code p u : Int) (h : kernelFills signo code = true) :
    (extract ⟨signo, code, p, u⟩).process = some (p, u) := by
  rw [C17_extract_meets_spec]
  simp [specOrigin, h]

example : kernelFills 14 (-2) = false ∧ kernelFills 10 0 = true := by decide

/-! ## non-vacuity -/
example : extract ⟨10, 0, 4242, 1000⟩ = ⟨10, some (4242, 1000), .sentUser⟩ := by decide
example : extract ⟨14, 128, 4242, 1000⟩ = ⟨14, none, .kernel⟩ := by decide
example : extract ⟨17, 1, 77, 1000⟩ = ⟨17, some (77, 1000), .chldExited⟩ := by decide
example : extract ⟨10, 1, 77, 1000⟩ = ⟨10, none, .unknown⟩ := by decide   -- CLD code, not SIGCHLD
example : extract ⟨14, -2, 77, 1000⟩ = ⟨14, none, .unknown⟩ := by decide  -- SI_TIMER

/-- **C17.extract_skeleton** — tie to the source (regenerated): `Origin::extract` classifies the record, reads the
process fields iff the cause has one, and the one exception ("all zero means none") is guarded by the macOS
`cfg!`: on Linux, zeros the kernel filled in are reported as zeros. The signal number is `si_signo`. -/
theorem C17_extract_skeleton :
    SigHook.skelOf "src/low_level/siginfo.rs" "extract@sighook_signal_cause" =
      ["cause", "has_process", "process.extract", "macos.guard", "signo"] := by decide

end SigHook.Origin
