import SigHook.Model.HalfLock
/-!
# C18 (continued) — a slot the writer has seen empty cannot hold it again

`write_barrier` keeps one flag per slot, "this slot has been seen empty since I published", and the
flags are sticky. The theorems below say, for every reachable state of the half-lock model (any number
of threads, any scripts, any schedule):

* a slot whose flag is set is never loaded again by that barrier (`C18_seen_slot_not_reloaded`),
* a flag that is set stays set until the barrier ends (`C18_seen_flags_sticky`),
* the barrier ends with the very load that sets the second flag (`C18_barrier_ends_when_both_seen`).

So a delivery that enters a slot after the writer has seen *that slot* empty is never waited for: a
continuous stream of deliveries into it cannot hold the writer. (A writer that demanded to find both
slots empty *in the same pass* would wait for ever under such a stream.) The correspondence check
holds the real `write_barrier` to the same statement on its own traces (verifkit/c18.py). What this does
not say - that the writer waits only for deliveries in flight when it published - is not true of the
algorithm; see `C18_first_look_can_find_both_slots_busy` below.
-/
namespace SigHook.HalfLock

/-- the `seen_zero` flags held in a program counter inside the waiting loop -/
def Pc.seen : Pc → Option (Bool × Bool)
  | .wSeen1 _ z0 => some (z0, false)
  | .wFlip _ z0 z1 => some (z0, z1)
  | .wHint _ z0 z1 _ => some (z0, z1)
  | .wLoop0 _ z0 z1 _ => some (z0, z1)
  | .wLoop1 _ z0 z1 _ => some (z0, z1)
  | _ => none

/-- inside the loop: not both flags are set; the slot about to be loaded has its flag clear -/
def Pc.barrierOk : Pc → Prop
  | .wHint _ z0 z1 _ => (z0 && z1) = false
  | .wLoop0 _ z0 _ _ => z0 = false
  | .wLoop1 _ _ z1 _ => z1 = false
  | _ => True

theorem afterLoop_ok (old : Nat) (z0 z1 : Bool) (iter : Nat) : (afterLoop old z0 z1 iter).barrierOk := by
  unfold afterLoop
  cases z0 <;> cases z1 <;> simp [Pc.barrierOk]

/-- what a step does to the thread list: only the stepping thread's entry is replaced, and the
loop invariant of its program counter is kept -/
theorem step_barrierOk (ye : Nat) (s s' : Sys) (t : Nat) (o : Obs) (th : Thread)
    (hth : s.threads[t]? = some th) (hok : th.pc.barrierOk)
    (h : step ye s t = some (s', o)) :
    ∃ th', s'.threads = s.threads.set t th' ∧ th'.pc.barrierOk := by
  unfold step at h
  simp only [hth] at h
  cases hpc : th.pc with
  | idle =>
    simp only [hpc] at h
    cases hsc : th.script with
    | nil => simp [hsc] at h
    | cons c rest =>
      cases c with
      | read uses => simp [hsc] at h; obtain ⟨rfl, _⟩ := h; exact ⟨_, rfl, trivial⟩
      | write st bomb =>
        simp only [hsc] at h
        cases hmo : s.mutexOwner with
        | some w => simp [hmo] at h
        | none => simp [hmo] at h; obtain ⟨rfl, _⟩ := h; exact ⟨_, rfl, trivial⟩
  | rUse slot p uses =>
    cases uses with
    | zero => simp [hpc] at h; obtain ⟨rfl, _⟩ := h; exact ⟨{ th with pc := .idle }, by simp [Sys.setLock], trivial⟩
    | succ u => simp [hpc] at h; obtain ⟨rfl, _⟩ := h; exact ⟨{ th with pc := .rUse slot p u }, by simp, trivial⟩
  | rInc g uses =>
    simp [hpc] at h; obtain ⟨rfl, _⟩ := h
    exact ⟨{ th with pc := .rData (g % 2) uses }, by simp [Sys.setLock], trivial⟩
  | rData slot uses => simp [hpc] at h; obtain ⟨rfl, _⟩ := h; exact ⟨_, rfl, trivial⟩
  | wLoad st bomb =>
    simp [hpc] at h; obtain ⟨rfl, _⟩ := h
    refine ⟨_, rfl, ?_⟩
    cases st <;> simp [Pc.barrierOk]
  | wAlloc bomb => simp [hpc] at h; obtain ⟨rfl, _⟩ := h; exact ⟨_, rfl, trivial⟩
  | wSwap new => simp [hpc] at h; obtain ⟨rfl, _⟩ := h; exact ⟨_, rfl, trivial⟩
  | wSeen0 old => simp [hpc] at h; obtain ⟨rfl, _⟩ := h; exact ⟨_, rfl, trivial⟩
  | wSeen1 old z0 => simp [hpc] at h; obtain ⟨rfl, _⟩ := h; exact ⟨_, rfl, trivial⟩
  | wFlip old z0 z1 =>
    simp [hpc] at h; obtain ⟨rfl, _⟩ := h
    refine ⟨_, rfl, ?_⟩
    cases z0 <;> cases z1 <;> simp [Pc.barrierOk]
  | wHint old z0 z1 iter =>
    rw [hpc] at hok
    simp [hpc] at h; obtain ⟨rfl, _⟩ := h
    refine ⟨_, rfl, ?_⟩
    cases z0 <;> cases z1 <;> simp_all [Pc.barrierOk]
  | wLoop0 old z0 z1 iter =>
    simp [hpc] at h; obtain ⟨rfl, _⟩ := h
    refine ⟨_, rfl, ?_⟩
    cases z1
    · simp [Pc.barrierOk]
    · simpa using afterLoop_ok old (s.lock0 == 0) true iter
  | wLoop1 old z0 z1 iter =>
    simp [hpc] at h; obtain ⟨rfl, _⟩ := h
    exact ⟨_, rfl, afterLoop_ok _ _ _ _⟩
  | wFree old => simp [hpc] at h; obtain ⟨rfl, _⟩ := h; exact ⟨_, rfl, trivial⟩
  | wUnlock p => simp [hpc] at h; obtain ⟨rfl, _⟩ := h; exact ⟨_, rfl, trivial⟩

/-- the loop invariant holds for every thread of every reachable state -/
theorem barrierOk_reachable {ye : Nat} {scripts : List (List Cmd)} {s : Sys}
    (hr : Reachable ye scripts s) : ∀ (i : Nat) (th : Thread), s.threads[i]? = some th → th.pc.barrierOk := by
  induction hr with
  | init =>
    intro i th h
    simp only [Sys.init, List.getElem?_map] at h
    cases hs : scripts[i]? with
    | none => simp [hs] at h
    | some sc => simp [hs] at h; subst h; trivial
  | @step s s' t o _ hs ih =>
    intro i th' hi
    cases hth : s.threads[t]? with
    | none => simp [step, hth] at hs
    | some th =>
      obtain ⟨th2, hset, hok⟩ := step_barrierOk ye s s' t o th hth (ih t th hth) hs
      rw [hset] at hi
      by_cases hit : i = t
      · subst hit
        have hlt : i < s.threads.length := by
          rcases Nat.lt_or_ge i s.threads.length with h | h
          · exact h
          · rw [List.getElem?_eq_none (by simpa using h)] at hth; cases hth
        rw [List.getElem?_set_self hlt] at hi
        injection hi with hi; subst hi; exact hok
      · rw [List.getElem?_set_ne (Ne.symm hit)] at hi
        exact ih i th' hi

/-- **C18.seen_slot_not_reloaded** — in every reachable state, a writer that is about to load a
slot inside the waiting loop has not yet seen that slot empty since it published: a slot seen empty
once is never waited for again, whoever enters it afterwards. -/
theorem C18_seen_slot_not_reloaded {ye : Nat} {scripts : List (List Cmd)} {s : Sys}
    (hr : Reachable ye scripts s) (t : Nat) (th : Thread) (hth : s.threads[t]? = some th) :
    (∀ old z0 z1 it, th.pc = .wLoop0 old z0 z1 it → z0 = false) ∧
    (∀ old z0 z1 it, th.pc = .wLoop1 old z0 z1 it → z1 = false) ∧
    (∀ old z0 z1 it, th.pc = .wHint old z0 z1 it → (z0 && z1) = false) := by
  have h := barrierOk_reachable hr t th hth
  refine ⟨?_, ?_, ?_⟩ <;> (intro old z0 z1 it hpc; rw [hpc] at h; exact h)

/-- flag order: `a` implies `b` -/
def le2 (a b : Bool × Bool) : Prop := (a.1 = true → b.1 = true) ∧ (a.2 = true → b.2 = true)

/-- **C18.seen_flags_sticky** — a step of a writer inside the barrier either keeps it inside with
every flag that was set still set, or ends the barrier (the next operation releases the old value). -/
theorem C18_seen_flags_sticky (ye : Nat) (s s' : Sys) (t : Nat) (o : Obs) (th : Thread) (f : Bool × Bool)
    (hth : s.threads[t]? = some th) (hok : th.pc.barrierOk) (hf : th.pc.seen = some f)
    (h : step ye s t = some (s', o)) :
    ∃ th', s'.threads[t]? = some th' ∧
      ((∃ f', th'.pc.seen = some f' ∧ le2 f f') ∨ ∃ old, th'.pc = .wFree old) := by
  have hlt : t < s.threads.length := by
    rcases Nat.lt_or_ge t s.threads.length with h | h
    · exact h
    · rw [List.getElem?_eq_none (by simpa using h)] at hth; cases hth
  unfold step at h
  simp only [hth] at h
  cases hpc : th.pc with
  | wSeen1 old z0 =>
    simp [hpc] at h; obtain ⟨rfl, _⟩ := h
    simp [hpc, Pc.seen] at hf; subst hf
    exact ⟨_, List.getElem?_set_self hlt, .inl ⟨_, rfl, by simp [le2]⟩⟩
  | wFlip old z0 z1 =>
    simp [hpc] at h; obtain ⟨rfl, _⟩ := h
    simp [hpc, Pc.seen] at hf; subst hf
    refine ⟨_, List.getElem?_set_self hlt, ?_⟩
    cases z0 <;> cases z1 <;> simp [Pc.seen, le2]
  | wHint old z0 z1 iter =>
    simp [hpc] at h; obtain ⟨rfl, _⟩ := h
    simp [hpc, Pc.seen] at hf; subst hf
    refine ⟨_, List.getElem?_set_self hlt, ?_⟩
    cases z0 <;> simp [Pc.seen, le2]
  | wLoop0 old z0 z1 iter =>
    simp [hpc] at h; obtain ⟨rfl, _⟩ := h
    simp [hpc, Pc.seen] at hf; subst hf
    rw [hpc] at hok
    simp only [Pc.barrierOk] at hok; subst hok
    refine ⟨_, List.getElem?_set_self hlt, ?_⟩
    cases z1 <;> cases (s.lock0 == 0) <;> simp [Pc.seen, le2, afterLoop]
  | wLoop1 old z0 z1 iter =>
    simp [hpc] at h; obtain ⟨rfl, _⟩ := h
    simp [hpc, Pc.seen] at hf; subst hf
    rw [hpc] at hok
    simp only [Pc.barrierOk] at hok; subst hok
    refine ⟨_, List.getElem?_set_self hlt, ?_⟩
    cases z0 <;> cases (s.lock1 == 0) <;> simp [Pc.seen, le2, afterLoop]
  | _ => simp [hpc, Pc.seen] at hf

/-- **C18.barrier_ends_when_both_seen** — the load that finds the last missing slot empty is the
barrier's last operation: the next one releases the old value (no further look at the slots, whoever
has entered them meanwhile). -/
theorem C18_barrier_ends_when_both_seen (ye : Nat) (s s' : Sys) (t : Nat) (o : Obs) (th : Thread)
    (hth : s.threads[t]? = some th) (h : step ye s t = some (s', o)) :
    (∀ old z0 it, th.pc = .wLoop0 old z0 true it → s.lock0 = 0 →
        ∃ th', s'.threads[t]? = some th' ∧ th'.pc = .wFree old) ∧
    (∀ old z1 it, th.pc = .wLoop1 old true z1 it → s.lock1 = 0 →
        ∃ th', s'.threads[t]? = some th' ∧ th'.pc = .wFree old) := by
  have hlt : t < s.threads.length := by
    rcases Nat.lt_or_ge t s.threads.length with h | h
    · exact h
    · rw [List.getElem?_eq_none (by simpa using h)] at hth; cases hth
  unfold step at h
  simp only [hth] at h
  refine ⟨?_, ?_⟩
  · intro old z0 it hpc hz
    simp [hpc] at h; obtain ⟨rfl, _⟩ := h
    exact ⟨_, List.getElem?_set_self hlt, by simp [afterLoop, hz]⟩
  · intro old z1 it hpc hz
    simp [hpc] at h; obtain ⟨rfl, _⟩ := h
    exact ⟨_, List.getElem?_set_self hlt, by simp [afterLoop, hz]⟩

/-! ## what the barrier does *not* promise

The source says of the first look: "At least one of them should be zero by now, due to having drained the
generation before leaving the previous writer." That is not so. The first look is sticky: writer W1 looks at slot 0,
finds it empty, and only then a reader R1 enters slot 0 (still the current slot) and stays; W1 switches and leaves.
A reader R2 enters slot 1. The next writer W2 finds *both* slots busy at its first look - without any stale entry,
every reader entered the slot that was current when it read the generation. W2 switches to slot 0, R1 and R2 leave,
and a reader R3 that began after the switch sits in slot 0: W2, which has seen slot 1 empty but never slot 0, is
now waiting for a delivery that began after it published and after it switched. Each such wait ends when that
delivery ends (`C18_barrier_ends_when_both_seen`, `C18_quiescent_completion`), so with finitely many deliveries
every call returns; a bound in terms of "the deliveries in flight at the publication" does not exist, and an
unbroken relay of deliveries could hold W2 for as long as it lasts. -/
theorem C18_first_look_can_find_both_slots_busy :
    let sc : List (List Cmd) := [[.write true false], [.read 3], [.write true false], [.read 1], [.read 1]]
    let sched1 : List Nat := [0,0,0,0, 0,0, 1,1, 0,0,0, 2,2,2,2, 3,3, 2,2]
    let s1 := (runSchedule 16 (Sys.init sc) sched1).1
    let s2 := (runSchedule 16 (Sys.init sc) (sched1 ++ [3,3,3, 2, 1,1,1,1,1, 4,4, 2,2,2])).1
    -- W2 (thread 2) has looked at both slots and found R1 in slot 0, R2 in slot 1
    (s1.threads.map (·.pc)) = [.idle, .rData 0 3, .wFlip 1 false false, .rData 1 1, .idle] ∧
      (s1.gen, s1.lock0, s1.lock1) = (1, 1, 1) ∧
    -- after the switch R1 and R2 are gone; W2 still waits - for R3 (thread 4), which began after the switch
    (s2.threads.map (·.pc)) = [.idle, .idle, .wHint 1 false true 2, .idle, .rData 0 1] ∧
      (s2.gen, s2.lock0, s2.lock1) = (2, 1, 0) := by
  decide

/-! ## non-vacuity: a writer that saw slot 1 empty before it switched the generation is about to find
slot 0 empty while a later reader sits in slot 1: its barrier ends with that load -/
example :
    let s0 := (runSchedule 16 (Sys.init [[.write true false], [.read 1], [.read 2]])
      [1, 1, 0, 0, 0, 0, 0, 0, 0, 1, 1, 1, 2, 2, 0]).1
    (s0.threads[0]?.map (·.pc)) = some (.wLoop0 0 false true 1) ∧ s0.lock0 = 0 ∧ s0.lock1 = 1 := by
  decide

end SigHook.HalfLock
