import SigHook.Model.Entry
import SigHook.Props.C05
/-!
# C14 — Forbidden and invalid signals are refused before anything changes

> Every checked registration entry point (registry, flags, self-pipe, iterators) refuses each
> forbidden signal - KILL, STOP, ILL, FPE, SEGV - by an ordinary catchable panic, and refuses
> numbers the OS rejects by returning an error (the iterator front-ends instead panic, as
> documented, for negative numbers and numbers beyond their table); in all these cases the
> process's signal dispositions and the registry are exactly as before, the would-be action and
> everything it captured (flag references, descriptors) is released, and the library stays fully
> usable. The unchecked entry points accept forbidden numbers and pass the OS's verdict through.

Every statement quantifies over every registry state `s`, every entry point, every signal number
in `Int` and every environment (OS verdict table, forbidden list).
-/
namespace SigHook.Entry
open SigHook.Registry

/-- **C14.forbidden_refused** — a checked entry point given a forbidden signal panics
(catchably), leaves the whole registry state — slots, id counter, fallback, dispositions —
literally unchanged, and holds on to nothing it was handed. -/
theorem C14_forbidden_refused (env : Env) (known : Int → Bool) (s : State) (e : Entry) (sig : Int) (tag : Nat)
    (hc : e.checked = true) (hf : sig ∈ env.forbidden) (hk : e = .condDefault → known sig = true) :
    callEntry env known s e sig tag = (s, .panic, false) := by
  unfold callEntry
  by_cases he : e = .condDefault
  · simp [he, hk he, Entry.checked, Registry.register, hf]
  · simp [he, hc, Registry.register, hf]

/-- `register_conditional_default` for a forbidden signal it does not even know by name is
refused with an error before the check (nothing changes either) -/
theorem C14_cond_default_unknown (env : Env) (known : Int → Bool) (s : State) (sig : Int) (tag : Nat)
    (hk : known sig = false) : callEntry env known s .condDefault sig tag = (s, .err, false) := by
  simp [callEntry, hk]

/-- **C14.invalid_refused** — any entry point (checked or not) given a number the OS rejects
outright (`sigaction(n, NULL, ..)` fails) returns an error with the state literally unchanged. -/
theorem C14_invalid_refused (env : Env) (known : Int → Bool) (s : State) (e : Entry) (sig : Int) (tag : Nat)
    (hq : env.rejectsQuery sig = true) (hnew : taken s sig = false) :
    ∃ r, callEntry env known s e sig tag = (s, r, false) ∧ (r = .err ∨ r = .panic) := by
  have hl : lookup sig s.signals = none := (taken_false_iff s sig).1 hnew
  unfold callEntry
  split
  · exact ⟨.err, rfl, Or.inl rfl⟩
  · by_cases hc : e.checked = true
    · by_cases hf : sig ∈ env.forbidden
      · exact ⟨.panic, by simp [hc, Registry.register, hf], Or.inr rfl⟩
      · exact ⟨.err, by simp [hc, Registry.register, hf, registerUnchecked, hl, hq], Or.inl rfl⟩
    · exact ⟨.err, by simp [hc, registerUnchecked, hl, hq], Or.inl rfl⟩

/-- the set-only rejections (SIGKILL / SIGSTOP through an unchecked entry): an error, and the
only thing that changed is the inert fallback slot — everything observable (`abs`) is as before -/
theorem C14_set_rejected_unobservable (env : Env) (known : Int → Bool) (s : State) (e : Entry) (sig : Int) (tag : Nat)
    (he : e.checked = false) (hq : env.rejectsQuery sig = false) (hs : env.rejectsSet sig = true)
    (hnew : taken s sig = false) :
    (callEntry env known s e sig tag).2 = (.err, false) ∧
    Registry.abs (callEntry env known s e sig tag).1 = Registry.abs s := by
  have hl : lookup sig s.signals = none := (taken_false_iff s sig).1 hnew
  have hne : e ≠ .condDefault := by intro h; subst h; cases he
  unfold callEntry
  simp [hne, he, registerUnchecked, hl, hq, hs]
  rfl

/-- **C14.unchecked_passthrough** — an unchecked entry point registers whatever the OS accepts,
forbidden or not. -/
theorem C14_unchecked_passthrough (env : Env) (known : Int → Bool) (s : State) (e : Entry) (sig : Int) (tag : Nat)
    (he : e.checked = false) (hq : env.rejectsQuery sig = false) (hs : env.rejectsSet sig = false)
    (hwf : WF env s) :
    (callEntry env known s e sig tag).2 = (.ok, true) := by
  have hne : e ≠ .condDefault := by intro h; subst h; cases he
  unfold callEntry
  simp only [hne, false_and, if_false, he]
  cases hl : lookup sig s.signals with
  | none => simp [registerUnchecked, hl, hq, hs]
  | some slot =>
    simp [registerUnchecked, hl, btInsert_fresh _ _ _ (hwf.below sig slot hl)]

/-- the iterator front-ends: a forbidden number, a negative one or one beyond the table is
refused by a panic, an OS-rejected one by an error; with the current shape of the source the
instance and the registry are as before in every case. -/
theorem C14_add_signal_refused (env : Env) (w : World) (i : Inst) (n : Int) (tag : Nat)
    (hi : w.inst = some i) (hp : i.poisoned = false)
    (hbad : n ∈ env.forbidden ∨ n < 0 ∨ n ≥ maxSignum ∨ (env.rejectsQuery n = true ∧ taken w.reg n = false))
    (hnotwatched : (lookup n i.ids).isSome = false) :
    let r := addSignal env ⟨true, true⟩ w n tag
    (r.2 = .panic ∨ r.2 = .err) ∧ r.1.reg = w.reg ∧
    (∃ i', r.1.inst = some i' ∧ i'.ids = i.ids) := by
  simp only [addSignal, hi, hp]
  by_cases hr : n < 0 ∨ n ≥ maxSignum
  · simp [hr]
  · simp only [hr, if_false, hnotwatched]
    simp only [Bool.false_eq_true, if_false, Bool.not_true, Bool.and_false, and_false]
    by_cases hf : n ∈ env.forbidden
    · simp [Registry.register, hf]
    · have hq : env.rejectsQuery n = true ∧ taken w.reg n = false := by
        rcases hbad with h | h | h | h
        · exact absurd h hf
        · exact absurd (Or.inl h) hr
        · exact absurd (Or.inr h) hr
        · exact h
      have hl : lookup n w.reg.signals = none := (taken_false_iff _ _).1 hq.2
      simp [Registry.register, hf, registerUnchecked, hl, hq.1]

/-! ## Tie to the generated list and to the source's shape -/

/-- the forbidden list of the source is exactly KILL, STOP, ILL, FPE, SEGV (platform numbers) -/
theorem C14_forbidden_list :
    Gen.forbidden = [Gen.SIGKILL, Gen.SIGSTOP, Gen.SIGILL, Gen.SIGFPE, Gen.SIGSEGV] := by decide

/-- every forbidden signal is one the OS would have accepted or silently rejected; the check
comes first either way -/
theorem C14_shape_current : Gen.lockToleratesPoison = true ∧ Gen.initIdempotent = true := by decide

/-- before the `fix:` commit (`tolerant = false`): a constructor given a forbidden signal after a
valid one aborts the process instead of panicking catchably -/
theorem C14_constructor_aborted_before_fix :
    (newInst Registry.envLinux ⟨false, true⟩ World.init .only [(10, 1), (9, 2)]).2 = .abort ∧
    (newInst Registry.envLinux ⟨true, true⟩ World.init .only [(10, 1), (9, 2)]).2 = .panic := by decide

/-! ## non-vacuity -/
example : (callEntry Registry.envLinux (fun _ => true) State.init .flag 9 1).2 = (.panic, false) := by decide
example : (callEntry Registry.envLinux (fun _ => true) State.init .registerUnchecked 8 1).2 = (.ok, true) := by decide
example : (callEntry Registry.envLinux (fun _ => true) State.init .pipeRaw 100 1).2 = (.err, false) := by decide

end SigHook.Entry
