import SigHook.Model.Entry
import SigHook.Props.C05
/-!
# C14 — Forbidden and invalid signals are refused before anything changes

> Every checked registration entry point (registry, flags, self-pipe, iterators) refuses each
> forbidden signal - KILL, STOP, ILL, FPE, SEGV - by an ordinary catchable panic, and refuses
> numbers the OS rejects by returning an error (the iterator front-ends instead panic, as
> documented, for negative numbers and numbers beyond their table); in all these cases the
> process's signal dispositions and the registry are exactly as before, the would-be action and
> everything it captured (flag references, descriptors) is released, and the library stays fully
> usable. The unchecked entry points accept forbidden numbers and pass the OS's verdict through.

Every statement quantifies over every registry state `s`, every entry point, every signal number
in `Int` and every environment (OS verdict table, forbidden list).
-/
namespace SigHook.Entry
open SigHook.Registry

/-- **C14.forbidden_refused** — a checked entry point given a forbidden signal panics
(catchably), leaves the whole registry state — slots, id counter, fallback, dispositions —
literally unchanged, and holds on to nothing it was handed. -/
theorem C14_forbidden_refused (env : Env) (known : Int → Bool) (s : State) (e : Entry) (sig : Int) (tag : Nat)
    (hc : e.checked = true) (hf : sig ∈ env.forbidden) (hk : e = .condDefault → known sig = true) :
    callEntry env known s e sig tag = (s, .panic, false) := by
  unfold callEntry
  by_cases he : e = .condDefault
  · simp [he, hk he, Entry.checked, Registry.register, hf]
  · simp [he, hc, Registry.register, hf]

/-- `register_conditional_default` for a forbidden signal it does not even know by name is
refused with an error before the check (nothing changes either) -/
theorem C14_cond_default_unknown (env : Env) (known : Int → Bool) (s : State) (sig : Int) (tag : Nat)
    (hk : known sig = false) : callEntry env known s .condDefault sig tag = (s, .err, false) := by
  simp [callEntry, hk]

/-- **C14.invalid_refused** — any entry point (checked or not) given a number the OS rejects
outright (`sigaction(n, NULL, ..)` fails) returns an error with the state literally unchanged. -/
theorem C14_invalid_refused (env : Env) (known : Int → Bool) (s : State) (e : Entry) (sig : Int) (tag : Nat)
    (hq : env.rejectsQuery sig = true) (hnew : taken s sig = false) :
    ∃ r, callEntry env known s e sig tag = (s, r, false) ∧ (r = .err ∨ r = .panic) := by
  have hl : lookup sig s.signals = none := (taken_false_iff s sig).1 hnew
  unfold callEntry
  split
  · exact ⟨.err, rfl, Or.inl rfl⟩
  · by_cases hc : e.checked = true
    · by_cases hf : sig ∈ env.forbidden
      · exact ⟨.panic, by simp [hc, Registry.register, hf], Or.inr rfl⟩
      · exact ⟨.err, by simp [hc, Registry.register, hf, registerUnchecked, hl, hq], Or.inl rfl⟩
    · exact ⟨.err, by simp [hc, registerUnchecked, hl, hq], Or.inl rfl⟩

/-- the set-only rejections (SIGKILL / SIGSTOP through an unchecked entry): an error, and the
only thing that changed is the inert fallback slot — everything observable (`abs`) is as before -/
theorem C14_set_rejected_unobservable (env : Env) (known : Int → Bool) (s : State) (e : Entry) (sig : Int) (tag : Nat)
    (he : e.checked = false) (hq : env.rejectsQuery sig = false) (hs : env.rejectsSet sig = true)
    (hnew : taken s sig = false) :
    (callEntry env known s e sig tag).2 = (.err, false) ∧
    Registry.abs (callEntry env known s e sig tag).1 = Registry.abs s := by
  have hl : lookup sig s.signals = none := (taken_false_iff s sig).1 hnew
  have hne : e ≠ .condDefault := by intro h; subst h; cases he
  unfold callEntry
  simp [hne, he, registerUnchecked, hl, hq, hs]
  rfl

/-- **C14.unchecked_passthrough** — an unchecked entry point registers whatever the OS accepts,
forbidden or not. -/
theorem C14_unchecked_passthrough (env : Env) (known : Int → Bool) (s : State) (e : Entry) (sig : Int) (tag : Nat)
    (he : e.checked = false) (hq : env.rejectsQuery sig = false) (hs : env.rejectsSet sig = false)
    (hwf : WF env s) :
    (callEntry env known s e sig tag).2 = (.ok, true) := by
  have hne : e ≠ .condDefault := by intro h; subst h; cases he
  unfold callEntry
  simp only [hne, false_and, if_false, he]
  cases hl : lookup sig s.signals with
  | none => simp [registerUnchecked, hl, hq, hs]
  | some slot =>
    simp [registerUnchecked, hl, btInsert_fresh _ _ _ (hwf.below sig slot hl)]

/-- the iterator front-ends: a forbidden number, a negative one or one beyond the table is
refused by a panic, an OS-rejected one by an error; with the current shape of the source the
instance and the registry are as before in every case. -/
theorem C14_add_signal_refused (env : Env) (w : World) (i : Inst) (n : Int) (tag : Nat)
    (hi : w.inst = some i) (hp : i.poisoned = false)
    (hbad : n ∈ env.forbidden ∨ n < 0 ∨ n ≥ maxSignum ∨ (env.rejectsQuery n = true ∧ taken w.reg n = false))
    (hnotwatched : (lookup n i.ids).isSome = false) :
    let r := addSignal env ⟨true, true⟩ w n tag
    (r.2 = .panic ∨ r.2 = .err) ∧ r.1.reg = w.reg ∧
    (∃ i', r.1.inst = some i' ∧ i'.ids = i.ids) := by
  simp only [addSignal, hi, hp]
  by_cases hr : n < 0 ∨ n ≥ maxSignum
  · simp [hr]
  · simp only [hr, if_false, hnotwatched]
    simp only [Bool.false_eq_true, if_false, Bool.not_true, Bool.and_false, and_false]
    by_cases hf : n ∈ env.forbidden
    · simp [Registry.register, hf]
    · have hq : env.rejectsQuery n = true ∧ taken w.reg n = false := by
        rcases hbad with h | h | h | h
        · exact absurd h hf
        · exact absurd (Or.inl h) hr
        · exact absurd (Or.inr h) hr
        · exact h
      have hl : lookup n w.reg.signals = none := (taken_false_iff _ _).1 hq.2
      simp [Registry.register, hf, registerUnchecked, hl, hq.1]

/-! ## Round sixteen: "the library stays fully usable" over whole histories

The one-call theorems above say a refused call leaves the state literally unchanged. The statement a user relies on is
about histories: however many refused calls are mixed into a sequence of registrations, at whatever positions, every
other call returns what it would have returned without them and the registry ends in the same state. -/

abbrev Call := Entry × Int × Nat

/-- a call the checked entry points must refuse -/
def forbiddenCall (env : Env) (c : Call) : Bool := c.1.checked && decide (c.2.1 ∈ env.forbidden)

/-- run a history of entry-point calls from `s`: final state and, per call, its result and whether the library
kept what it was handed -/
def runCalls (env : Env) (known : Int → Bool) : State → List Call → State × List (Call × Res × Bool)
  | s, [] => (s, [])
  | s, c :: cs =>
    let r := callEntry env known s c.1 c.2.1 c.2.2
    let rest := runCalls env known r.1 cs
    (rest.1, (c, r.2) :: rest.2)

/-- a forbidden call changes nothing, keeps nothing, and answers with a panic or (conditional default of a number
without a name) an error - without the side condition of `C14_forbidden_refused` -/
theorem callEntry_forbidden (env : Env) (known : Int → Bool) (s : State) (c : Call)
    (h : forbiddenCall env c = true) :
    (callEntry env known s c.1 c.2.1 c.2.2).1 = s ∧
    ((callEntry env known s c.1 c.2.1 c.2.2).2 = (.panic, false) ∨
     (callEntry env known s c.1 c.2.1 c.2.2).2 = (.err, false)) := by
  obtain ⟨e, sig, tag⟩ := c
  simp only [forbiddenCall, Bool.and_eq_true, decide_eq_true_eq] at h
  obtain ⟨hc, hf⟩ := h
  by_cases hk : e = .condDefault ∧ known sig = false
  · obtain ⟨he, hk⟩ := hk
    subst he
    rw [C14_cond_default_unknown env known s sig tag hk]
    exact ⟨rfl, Or.inr rfl⟩
  · have hk' : e = .condDefault → known sig = true := by
      intro he
      cases hks : known sig with
      | true => rfl
      | false => exact absurd ⟨he, hks⟩ hk
    rw [C14_forbidden_refused env known s e sig tag hc hf hk']
    exact ⟨rfl, Or.inl rfl⟩

/-- **C14.refusals_erasable** — for every history of calls from every registry state: deleting the forbidden calls
changes neither the final state nor the result of any remaining call. -/
theorem C14_refusals_erasable (env : Env) (known : Int → Bool) (s : State) (cs : List Call) :
    (runCalls env known s cs).1 = (runCalls env known s (cs.filter (fun c => !forbiddenCall env c))).1 ∧
    (runCalls env known s cs).2.filter (fun p => !forbiddenCall env p.1) =
      (runCalls env known s (cs.filter (fun c => !forbiddenCall env c))).2 := by
  induction cs generalizing s with
  | nil => exact ⟨rfl, rfl⟩
  | cons c cs ih =>
    by_cases hf : forbiddenCall env c = true
    · have hs := (callEntry_forbidden env known s c hf).1
      simp only [runCalls, List.filter_cons, hf, Bool.not_true, Bool.false_eq_true, if_false, hs]
      exact ih s
    · have hf' : forbiddenCall env c = false := by simpa using hf
      simp only [runCalls, List.filter_cons, hf', Bool.not_false, if_true]
      have := ih (callEntry env known s c.1 c.2.1 c.2.2).1
      exact ⟨this.1, by rw [this.2]⟩

/-- **C14.refusals_release** — in every history every forbidden call is answered by a panic or an error and the
library holds on to nothing it was handed by it. -/
theorem C14_refusals_release (env : Env) (known : Int → Bool) (s : State) (cs : List Call) :
    ∀ p ∈ (runCalls env known s cs).2, forbiddenCall env p.1 = true →
      p.2 = (.panic, false) ∨ p.2 = (.err, false) := by
  induction cs generalizing s with
  | nil => intro p hp; cases hp
  | cons c cs ih =>
    intro p hp hf
    simp only [runCalls, List.mem_cons] at hp
    rcases hp with rfl | hp
    · exact (callEntry_forbidden env known s c hf).2
    · exact ih _ p hp hf

/-- non-vacuity: a history with refused calls in the middle, evaluated -/
example :
    let cs : List Call := [(.flag, 10, 1), (.pipe, 9, 2), (.register, 12, 3), (.condDefault, 11, 4), (.flag, 10, 5)]
    ((runCalls Registry.envLinux (fun _ => true) State.init cs).2.map (·.2)) =
      [(.ok, true), (.panic, false), (.ok, true), (.panic, false), (.ok, true)] := by decide

/-! ## Tie to the generated list and to the source's shape -/

/-- the forbidden list of the source is exactly KILL, STOP, ILL, FPE, SEGV (platform numbers) -/
theorem C14_forbidden_list :
    Gen.forbidden = [Gen.SIGKILL, Gen.SIGSTOP, Gen.SIGILL, Gen.SIGFPE, Gen.SIGSEGV] := by decide

/-- every forbidden signal is one the OS would have accepted or silently rejected; the check
comes first either way -/
theorem C14_shape_current : Gen.lockToleratesPoison = true ∧ Gen.initIdempotent = true := by decide

/-- before the `fix:` commit (`tolerant = false`): a constructor given a forbidden signal after a
valid one aborts the process instead of panicking catchably -/
theorem C14_constructor_aborted_before_fix :
    (newInst Registry.envLinux ⟨false, true⟩ World.init .only [(10, 1), (9, 2)]).2 = .abort ∧
    (newInst Registry.envLinux ⟨true, true⟩ World.init .only [(10, 1), (9, 2)]).2 = .panic := by decide

/-! ## non-vacuity -/
example : (callEntry Registry.envLinux (fun _ => true) State.init .flag 9 1).2 = (.panic, false) := by decide
example : (callEntry Registry.envLinux (fun _ => true) State.init .registerUnchecked 8 1).2 = (.ok, true) := by decide
example : (callEntry Registry.envLinux (fun _ => true) State.init .pipeRaw 100 1).2 = (.err, false) := by decide

end SigHook.Entry
