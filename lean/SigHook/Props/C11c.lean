import SigHook.Model.Iterator
/-!
# C11 (continued) — after `close()`, every call of the consumer returns within a bound

> Once close has been called … every wait/forever/poll that is blocked or starts later returns after a
> bounded number of steps, and the infinite iterator ends.

`C11_close_unblocks` (Props/C11b.lean) says the consumer can always take its next step once `close()`
has returned. Here is the number: with the flag set, the consumer running *alone* finishes the call it is
in within `cost` steps - the recv's needed to drain the self-pipe (1024 bytes each), one pass over the
slots (a set slot costs one extra step, it is handed out) and a constant - whatever front end it uses and
whichever shape `poll_signal` has. Nobody else has to act; other threads' steps cannot un-set the flag
(`C11_sticky`).
-/
namespace SigHook.Iter

/-- run thread `t` alone for `n` steps -/
def soloIt (rc : Bool) (s : Sys) (t : Nat) : Nat → Sys
  | 0 => s
  | n + 1 => match step rc s t with
    | some (s', _) => soloIt rc s' t n
    | none => s

/-- recv's needed to find the pipe empty -/
def flushCost (pipe : Nat) : Nat := (pipe + 1023) / 1024 + 1

/-- one pass over the slots from `pos` on: one step per position, one more per set slot, one to end -/
def scanCost (set : List Nat) (pos : Nat) : Nat := (maxSig - pos) + set.countP (fun x => pos ≤ x) + 1

def afterFlush (s : Sys) : Mode → Nat
  | .pending | .wait => scanCost s.set 0
  | _ => 2

/-- own steps the consumer still needs to finish its current call, once the instance is closed -/
def cost (s : Sys) (th : Thread) : Nat :=
  match th.pc with
  | .idle => 0
  | .flush m => flushCost s.pipe + afterFlush s m
  | .scan _ pos => scanCost s.set pos
  | .psClosed _ => 1
  | .psNext _ => (maxSig - th.iterPos) + 4
  | .ppClosed _ => 3
  | .psRecheck _ => 1
  | .ppCallback m => flushCost s.pipe + afterFlush s m + 2
  | .dWake _ | .cWake => 0

theorem flushCost_step (pipe : Nat) (h : 0 < pipe) : flushCost (pipe - min pipe 1024) + 1 = flushCost pipe := by
  unfold flushCost
  by_cases hp : pipe ≤ 1024
  · have : min pipe 1024 = pipe := Nat.min_eq_left hp
    rw [this]
    have a : (pipe - pipe + 1023) / 1024 = 0 := by simp
    have b : (pipe + 1023) / 1024 = 1 := by omega
    omega
  · have : min pipe 1024 = 1024 := Nat.min_eq_right (by omega)
    rw [this]
    omega

theorem flushCost_mono (pipe : Nat) : flushCost (pipe - 1) ≤ flushCost pipe := by
  unfold flushCost; omega

theorem countP_erase_le (l : List Nat) (pos : Nat) (h : pos ∈ l) :
    (l.erase pos).countP (fun x => pos ≤ x) + 1 = l.countP (fun x => pos ≤ x) := by
  induction l with
  | nil => cases h
  | cons x xs ih =>
    by_cases hx : x = pos
    · subst hx; simp
    · have hm : pos ∈ xs := by
        rcases List.mem_cons.1 h with h | h
        · exact absurd h.symm hx
        · exact h
      rw [List.erase_cons_tail (by simpa using hx)]
      simp only [List.countP_cons]
      have := ih hm
      omega

theorem countP_succ_le (l : List Nat) (pos : Nat) :
    l.countP (fun x => pos + 1 ≤ x) ≤ l.countP (fun x => pos ≤ x) := by
  apply List.countP_mono_left
  intro x _ hx
  simp only [decide_eq_true_eq] at hx ⊢
  omega

/-- a consumer program counter (not the tail of a delivery or of a `close`) -/
def Pc.consumer : Pc → Bool
  | .dWake _ | .cWake => false
  | _ => true

/-- one step of the consumer with the flag set: enabled unless it sits in a blocking read on an empty pipe,
keeps the flag, leaves the script alone, and lowers `cost` -/
theorem closed_step (rc : Bool) (s : Sys) (t : Nat) (th : Thread) (hth : s.threads[t]? = some th)
    (hcl : s.closed = true) (hne : th.pc ≠ .idle) (hcons : th.pc.consumer = true)
    (hen : ∀ m, th.pc = .ppCallback m → blocking m = true → 0 < s.pipe) :
    ∃ s' o th', step rc s t = some (s', o) ∧ s'.closed = true ∧ s'.threads[t]? = some th' ∧
      th'.script = th.script ∧ th'.pc.consumer = true ∧ cost s' th' + 1 ≤ cost s th ∧
      (∀ m, th'.pc ≠ .ppCallback m) := by
  have hlt : t < s.threads.length := (List.getElem?_eq_some_iff.1 hth).1
  have get : ∀ (s0 : Sys) (th' : Thread), s0.threads = s.threads → (setT s0 t th').threads[t]? = some th' := by
    intro s0 th' e; simp [setT, e, hlt]
  unfold step
  simp only [hth]
  cases hpc : th.pc with
  | idle => exact absurd hpc hne
  | dWake sg => rw [hpc] at hcons; cases hcons
  | cWake => rw [hpc] at hcons; cases hcons
  | flush m =>
    simp only [step.stepFlush]
    by_cases hp : s.pipe > 0
    · simp only [hp, if_true]
      refine ⟨_, _, _, rfl, hcl, get _ _ rfl, rfl, rfl, ?_, by intro m' h; cases h⟩
      have := flushCost_step s.pipe hp
      simp only [cost, hpc, setT, afterFlush]
      cases m <;> simp only [afterFlush] <;> omega
    · simp only [hp, if_false]
      have hp0 : s.pipe = 0 := by omega
      cases m with
      | pending =>
        refine ⟨_, _, _, rfl, hcl, get _ _ rfl, rfl, rfl, ?_, by intro m' h; cases h⟩
        simp only [cost, hpc, setT, afterFlush, flushCost, hp0]; omega
      | wait =>
        refine ⟨_, _, _, rfl, hcl, get _ _ rfl, rfl, rfl, ?_, by intro m' h; cases h⟩
        simp only [cost, hpc, setT, afterFlush, flushCost, hp0]; omega
      | poll =>
        refine ⟨_, _, _, rfl, hcl, get _ _ rfl, rfl, rfl, ?_, by intro m' h; cases h⟩
        simp [cost, hpc, setT, afterFlush, flushCost, hp0]
      | forever =>
        refine ⟨_, _, _, rfl, hcl, get _ _ rfl, rfl, rfl, ?_, by intro m' h; cases h⟩
        simp [cost, hpc, setT, afterFlush, flushCost, hp0]
  | scan m pos =>
    by_cases hlt2 : pos < maxSig
    · simp only [hlt2, if_true]
      by_cases hin : s.set.contains pos = true
      · simp only [hin, if_true]
        refine ⟨_, _, _, rfl, hcl, get _ _ rfl, rfl, rfl, ?_, by intro m' h; cases h⟩
        have := countP_erase_le s.set pos (by simpa using hin)
        simp only [cost, hpc, setT, scanCost]; omega
      · simp only [hin]
        by_cases hlast : pos + 1 = maxSig
        · refine ⟨_, _, _, rfl, hcl, get _ _ rfl, rfl, by simp [hlast, Pc.consumer], ?_, by intro m' h; simp [hlast] at h⟩
          simp [cost, hpc, setT, scanCost, hlast]
        · refine ⟨_, _, _, rfl, hcl, get _ _ rfl, rfl, by simp [hlast, Pc.consumer], ?_, by intro m' h; simp [hlast] at h⟩
          have := countP_succ_le s.set pos
          simp only [cost, hpc, setT, scanCost, hlast, beq_iff_eq, if_false]
          omega
    · simp only [hlt2, if_false]
      refine ⟨_, _, _, rfl, hcl, get _ _ rfl, rfl, rfl, ?_, by intro m' h; cases h⟩
      simp [cost, hpc, setT, scanCost]
  | psClosed m =>
    simp only [step.stepPsClosed, hcl, if_true]
    refine ⟨_, _, _, rfl, hcl, get _ _ rfl, rfl, rfl, ?_, by intro m' h; cases h⟩
    simp [cost, hpc, setT]
  | psNext m =>
    by_cases hin : s.set.contains th.iterPos = true
    · simp only [hin, if_true]
      cases m with
      | forever =>
        refine ⟨_, _, _, rfl, hcl, get _ _ rfl, rfl, rfl, ?_, by intro m' h; cases h⟩
        simp only [cost, hpc, setT]; omega
      | pending =>
        refine ⟨_, _, _, rfl, hcl, get _ _ rfl, rfl, rfl, ?_, by intro m' h; cases h⟩
        simp only [cost, hpc, setT]; omega
      | wait =>
        refine ⟨_, _, _, rfl, hcl, get _ _ rfl, rfl, rfl, ?_, by intro m' h; cases h⟩
        simp only [cost, hpc, setT]; omega
      | poll =>
        refine ⟨_, _, _, rfl, hcl, get _ _ rfl, rfl, rfl, ?_, by intro m' h; cases h⟩
        simp only [cost, hpc, setT]; omega
    · simp only [hin]
      by_cases hnx : th.iterPos + 1 < maxSig
      · refine ⟨_, _, _, rfl, hcl, get _ _ rfl, rfl, by simp [hnx, Pc.consumer], ?_, by intro m' h; simp [hnx] at h⟩
        simp only [cost, hpc, setT, hnx, if_true]; omega
      · refine ⟨_, _, _, rfl, hcl, get _ _ rfl, rfl, by simp [hnx, Pc.consumer], ?_, by intro m' h; simp [hnx] at h⟩
        simp only [cost, hpc, setT, hnx, if_false]; omega
  | ppClosed m =>
    simp only [hcl, if_true]
    cases rc with
    | true =>
      refine ⟨_, _, _, rfl, hcl, get _ _ rfl, rfl, rfl, ?_, by intro m' h; cases h⟩
      simp [cost, hpc, setT]
    | false =>
      cases m with
      | forever =>
        refine ⟨_, _, _, rfl, hcl, get _ _ rfl, rfl, rfl, ?_, by intro m' h; cases h⟩
        simp [cost, hpc, setT]
      | pending =>
        refine ⟨_, _, _, rfl, hcl, get _ _ rfl, rfl, rfl, ?_, by intro m' h; cases h⟩
        simp [cost, hpc, setT]
      | wait =>
        refine ⟨_, _, _, rfl, hcl, get _ _ rfl, rfl, rfl, ?_, by intro m' h; cases h⟩
        simp [cost, hpc, setT]
      | poll =>
        refine ⟨_, _, _, rfl, hcl, get _ _ rfl, rfl, rfl, ?_, by intro m' h; cases h⟩
        simp [cost, hpc, setT]
  | psRecheck m =>
    simp only [hcl, if_true]
    refine ⟨_, _, _, rfl, hcl, get _ _ rfl, rfl, rfl, ?_, by intro m' h; cases h⟩
    simp [cost, hpc, setT]
  | ppCallback m =>
    by_cases hb : blocking m = true
    · have hp := hen m hpc hb
      have hp0 : ¬ s.pipe = 0 := by omega
      simp only [hb, if_true, hp0, if_false]
      refine ⟨_, _, _, rfl, hcl, get _ _ rfl, rfl, rfl, ?_, by intro m' h; cases h⟩
      have := flushCost_mono s.pipe
      simp only [cost, hpc, setT, afterFlush]
      cases m <;> simp only [afterFlush] <;> omega
    · simp only [hb]
      by_cases hp0 : s.pipe = 0
      · simp only [hp0, if_true]
        cases rc with
        | true =>
          refine ⟨_, _, _, rfl, hcl, get _ _ rfl, rfl, rfl, ?_, by intro m' h; cases h⟩
          simp only [cost, hpc, setT, flushCost]; omega
        | false =>
          refine ⟨_, _, _, rfl, hcl, get _ _ rfl, rfl, rfl, ?_, by intro m' h; cases h⟩
          simp only [cost, hpc, setT, flushCost]; omega
      · simp only [hp0, if_false]
        refine ⟨_, _, _, rfl, hcl, get _ _ rfl, rfl, rfl, ?_, by intro m' h; cases h⟩
        have := flushCost_mono s.pipe
        simp only [cost, hpc, setT, afterFlush]
        cases m <;> simp only [afterFlush] <;> omega

/-- **C11.close_bounded** — with the closed flag set, a consumer that is anywhere inside a call of
`pending` / `wait` / `poll_signal` / `forever` (and, if it sits in the blocking read, has a byte to read:
`C11_close_unblocks`) finishes that call *alone* within `cost` steps, for either shape of `poll_signal`. -/
theorem C11_close_bounded (rc : Bool) :
    ∀ (k : Nat) (s : Sys) (t : Nat) (th : Thread), s.threads[t]? = some th → s.closed = true →
      th.pc.consumer = true → (∀ m, th.pc = .ppCallback m → blocking m = true → 0 < s.pipe) → cost s th ≤ k →
      ∃ n, n ≤ k ∧ ∃ th', (soloIt rc s t n).threads[t]? = some th' ∧ th'.pc = .idle ∧ th'.script = th.script := by
  intro k
  induction k with
  | zero =>
    intro s t th hth hcl hcons hen hk
    by_cases hi : th.pc = .idle
    · exact ⟨0, Nat.le_refl _, th, hth, hi, rfl⟩
    · obtain ⟨s', o, th', _, _, _, _, _, hlt, _⟩ := closed_step rc s t th hth hcl hi hcons hen
      omega
  | succ k ih =>
    intro s t th hth hcl hcons hen hk
    by_cases hi : th.pc = .idle
    · exact ⟨0, Nat.zero_le _, th, hth, hi, rfl⟩
    · obtain ⟨s', o, th', hs, hcl', hth', hscr, hcons', hlt, hnc⟩ := closed_step rc s t th hth hcl hi hcons hen
      obtain ⟨n, hn, th2, h2, hi2, hs2⟩ := ih s' t th' hth' hcl' hcons' (fun m h => absurd h (hnc m)) (by omega)
      exact ⟨n + 1, by omega, th2, by simpa [soloIt, hs] using h2, hi2, hs2.trans hscr⟩

/-- the bound in closed form: recv's for the bytes in the pipe, one pass over the slots with one extra step
per set slot, and a constant -/
theorem cost_le (s : Sys) (th : Thread) : cost s th ≤ s.pipe / 1024 + maxSig + s.set.length + 6 := by
  have hm : 1 ≤ maxSig := by decide
  have hf : flushCost s.pipe ≤ s.pipe / 1024 + 2 := by unfold flushCost; omega
  have hs : ∀ pos, scanCost s.set pos ≤ maxSig + s.set.length + 1 := by
    intro pos
    have := List.countP_le_length (p := fun x => decide (pos ≤ x)) (l := s.set)
    unfold scanCost; omega
  have ha : ∀ m, afterFlush s m ≤ maxSig + s.set.length + 1 := by
    intro m; cases m <;> simp only [afterFlush] <;> first | exact hs 0 | omega
  unfold cost
  cases th.pc with
  | idle => simp only; omega
  | flush m => have := ha m; simp only; omega
  | scan m pos => have := hs pos; simp only; omega
  | psClosed m => simp only; omega
  | psNext m => simp only; omega
  | ppClosed m => simp only; omega
  | psRecheck m => simp only; omega
  | ppCallback m => have := ha m; simp only; omega
  | dWake sg => simp only; omega
  | cWake => simp only; omega

/-- non-vacuity: `close()` lands while a `forever()` consumer sits in its blocking read; from then on it is
alone and ends the iterator -/
example :
    let s0 := Sys.init [10] 278 0 [[.deliver 10, .close], [.forever]]
    let run := fun (s : Sys) (sched : List Nat) => sched.foldl (fun s t => match step true s t with | some (s', _) => s' | none => s) s
    let s := run s0 ([1] ++ List.replicate 129 1 ++ [0, 0, 0, 0])
    s.closed = true ∧ (s.threads[1]?.map (fun th => th.pc)) = some (.ppCallback .forever) ∧ 0 < s.pipe ∧
      ((soloIt true s 1 (cost s (s.threads[1]?.getD { script := [], pc := .idle }))).threads[1]?.map (fun th => th.pc)) = some .idle := by
  decide +kernel

end SigHook.Iter
