import SigHook.Lemmas.HalfLock
import SigHook.Lemmas.RegistryConcPlan
import SigHook.Gen.Orderings
import SigHook.Model.Skel
/-!
# C01 — Removing an action is quiescent: never runs again, freed outside any handler

> When removal of an action (by id, by signal, or by dropping the object that owns it) returns, no
> invocation of that action is still in progress on any thread and none will ever start again;
> everything the action captured has been released exactly once, by the removing thread and not
> inside a signal handler. No signal delivery, on any thread and at any moment, ever touches an
> action or registry snapshot that has already been released.

This file proves the half-lock part (L3): for **any number of threads**, each running **any
finite script** of `read` (= a delivery's read section) and `write`/`store` (= a mutator's
copy-modify-publish), under **every interleaving** (`Reachable`), the snapshot a reader has pinned
is never released, every snapshot is released at most once, only by the writer that swapped it
out, only after its barrier, never by a reader (a delivery). A delivery nested on the thread that
is mid-removal is one of the interleavings already quantified over (the host simply does not
move while the nested reader runs).
-/
namespace SigHook.HalfLock

/-- **C01.pinned_not_freed** — in every reachable state, a snapshot pinned by a reader is live
and has not been released. -/
theorem C01_pinned_not_freed {ye : Nat} {scripts : List (List Cmd)} {s : Sys}
    (hr : Reachable ye scripts s) (i : Nat) (h : i < s.threads.length) (p : Nat)
    (hp : (s.threads[i]).pc.holds = some p) :
    p ∈ s.live ∧ p ∉ s.freed.map (·.1) := by
  have hinv := inv_reachable hr
  have hl := hinv.holdLive i h p hp
  refine ⟨hl, ?_⟩
  intro hm
  obtain ⟨x, hx, hxe⟩ := List.mem_map.1 hm
  exact hinv.freedNotLive x hx (by rw [hxe]; exact hl)

/-- the value currently published is never a released one either -/
theorem C01_current_not_freed {ye : Nat} {scripts : List (List Cmd)} {s : Sys}
    (hr : Reachable ye scripts s) : s.data ∈ s.live ∧ s.data ∉ s.freed.map (·.1) := by
  have hinv := inv_reachable hr
  refine ⟨hinv.dataLive, ?_⟩
  intro hm
  obtain ⟨x, hx, hxe⟩ := List.mem_map.1 hm
  exact hinv.freedNotLive x hx (by rw [hxe]; exact hinv.dataLive)

/-- **C01.freed_once** — every snapshot is released at most once. -/
theorem C01_freed_once {ye : Nat} {scripts : List (List Cmd)} {s : Sys}
    (hr : Reachable ye scripts s) : (s.freed.map (·.1)).Nodup :=
  (inv_reachable hr).freedNodup

/-- **C01.free_by_remover_after_barrier** — a release step is only ever performed by a thread
that holds the writer mutex, has swapped exactly that snapshot out and has since seen both reader
slots idle (never by a reader, i.e. never inside a delivery); and at that moment no reader has it
pinned. -/
theorem C01_free_by_remover_after_barrier {ye : Nat} {scripts : List (List Cmd)} {s s' : Sys}
    (hr : Reachable ye scripts s) (t x : Nat) (hstep : step ye s t = some (s', .free x)) :
    ∃ ht : t < s.threads.length, (s.threads[t]).pc = .wFree x ∧ s.mutexOwner = some t ∧ x ≠ s.data ∧
      ∀ j (hj : j < s.threads.length), (s.threads[j]).pc.holds ≠ some x := by
  have hinv := inv_reachable hr
  unfold step at hstep
  cases hth : s.threads[t]? with
  | none => simp [hth] at hstep
  | some th =>
    obtain ⟨ht, hthe⟩ := List.getElem?_eq_some_iff.1 hth
    subst hthe
    simp only [hth] at hstep
    refine ⟨ht, ?_⟩
    cases hpc : (s.threads[t]).pc with
    | wFree old =>
      simp only [hpc, Option.some.injEq, Prod.mk.injEq, Obs.free.injEq] at hstep
      obtain ⟨_, rfl⟩ := hstep
      obtain ⟨_, hne, hz0, hz1⟩ := hinv.post t ht old true true (by simp [hpc, Pc.post])
      refine ⟨rfl, (hinv.mutex t ht).1 (by simp [hpc, Pc.crit]), hne, ?_⟩
      intro j hj hh
      rcases holds_in_slot _ _ hh with h0 | h1
      · exact hz0 rfl j hj h0 hh
      · exact hz1 rfl j hj h1 hh
    | idle =>
      simp only [hpc] at hstep
      cases hsc : (s.threads[t]).script with
      | nil => simp [hsc] at hstep
      | cons c rest =>
        cases c with
        | read uses => simp [hsc] at hstep
        | write st bomb =>
          simp only [hsc] at hstep
          cases hmo : s.mutexOwner <;> simp [hmo] at hstep
    | rUse slot p uses => cases uses <;> simp [hpc] at hstep
    | wHint old z0 z1 iter =>
      simp only [hpc, Option.some.injEq, Prod.mk.injEq] at hstep
      obtain ⟨_, h⟩ := hstep
      split at h <;> cases h
    | _ => simp [hpc] at hstep

/-- the snapshot a reader obtains is the one that was current at its `data.load()` step:
**one consistent snapshot per read section** (used by C02) -/
theorem C01_read_gets_current {ye : Nat} {s s' : Sys} (t v : Nat)
    (hstep : step ye s t = some (s', .load "data" v)) : v = s.data := by
  unfold step at hstep
  cases hth : s.threads[t]? with
  | none => simp [hth] at hstep
  | some th =>
    simp only [hth] at hstep
    cases hpc : th.pc with
    | idle =>
      simp only [hpc] at hstep
      cases hsc : th.script with
      | nil => simp [hsc] at hstep
      | cons c rest =>
        cases c with
        | read uses => simp [hsc] at hstep
        | write st bomb =>
          simp only [hsc] at hstep
          cases hmo : s.mutexOwner <;> simp [hmo] at hstep
    | rUse slot p uses => cases uses <;> simp [hpc] at hstep
    | rData slot uses => simp [hpc] at hstep; exact hstep.2.symm
    | wLoad st bomb => simp [hpc] at hstep; exact hstep.2.symm
    | wHint old z0 z1 iter =>
      simp only [hpc, Option.some.injEq, Prod.mk.injEq] at hstep
      obtain ⟨_, h⟩ := hstep
      split at h <;> cases h
    | rInc g uses => simp [hpc, lockName] at hstep
    | _ => simp [hpc] at hstep

/-! ## Tie to the source: the model is an SC model, so every half-lock atomic must be SeqCst -/

/-- **C01.halflock_all_seqcst** — every atomic call site of `half_lock.rs` (regenerated from the
source each run) declares `SeqCst`, the side condition for analysing the half-lock under SC. -/
theorem C01_halflock_all_seqcst :
    ∀ r ∈ Gen.orderings, r.1 = "signal-hook-registry/src/half_lock.rs" → ∀ o ∈ r.2.2.2.2, o = Ord.seqCst := by
  decide

/-- the model has exactly the atomic call sites the source has: read (3), ReadGuard::drop (1),
store (1), update_seen (1), write_barrier (1), write (1), HalfLock::drop (1) -/
theorem C01_halflock_sites :
    (Gen.orderings.filter (fun r => r.1 == "signal-hook-registry/src/half_lock.rs")).map
        (fun r => (r.2.1, r.2.2.1, r.2.2.2.1)) =
      [("drop", 1, "fetch_sub"), ("store", 1, "swap"), ("read", 1, "load"), ("read", 2, "fetch_add"),
       ("read", 3, "load"), ("update_seen", 1, "load"), ("write_barrier", 1, "fetch_add"),
       ("write", 1, "load"), ("drop", 2, "load")] := by decide

/-! ## Non-vacuity: a concrete interleaving in which a reader is inside its read section while a
writer swaps, waits for it, and only then frees -/

def demoScripts : List (List Cmd) := [[.read 1], [.write true false]]
def demoSchedule : List Nat := [0, 0, 0, 1, 1, 1, 1, 1, 1, 1, 1, 1, 0, 0, 1, 1, 1, 1]

example : ((runSchedule 16 (Sys.init demoScripts) demoSchedule).2.map (·.2)) =
    [.load "generation" 0, .fetchAdd "lock0" 0, .load "data" 0,
     .mutexLock false, .load "data" 0, .alloc 1, .swap "data" 1 0, .load "lock0" 1, .load "lock1" 0,
     .fetchAdd "generation" 0, .spin, .load "lock0" 1,
     .use 0, .fetchSub "lock0" 1,
     .spin, .load "lock0" 0, .free 0, .mutexUnlock false] := by decide

end SigHook.HalfLock

/-!
## Registry level (L6): actions, not just snapshots

The concurrent registry model embeds two half-lock machines; `Lemmas/RegistryConc*.lean` prove
that in every reachable state (any number of threads, any scripts, every interleaving) both
satisfy the invariant above, and that a delivery which has pinned `data` executes a suffix of the
action list recorded for the snapshot it pinned (`Inv7a.plan`). The theorems below are the
property at the level of *actions*: an action is released only when no live snapshot - hence no
delivery in progress on any thread - refers to it any more, only by a mutator, never by a
delivery.
-/
namespace SigHook.RegConc
open SigHook.Registry (Disp Env)
open SigHook.HalfLock (phaseAt)

/-- **C01.registry_release_unreferenced** — when a mutator's `store` releases snapshot `old`, an
action it drops (`tag ∈ out.dropped`) is in the remaining list of no delivery in progress on any
thread, and after the step no live snapshot refers to it: no invocation is in progress and none
can start from any snapshot a later delivery could pin. -/
theorem C01_registry_release_unreferenced {env : Env} {ye : Nat} {disp : List (Int × Disp)}
    {scripts : List (List Op)} {s s' : Sys} {t old tag : Nat} {out : StepOut}
    (hr : Reachable env ye disp scripts s) (hs : step env ye s t = some (s', out))
    (hev : out.ev = .hd (.free old)) (htag : tag ∈ out.dropped) :
    (∀ (j : Nat) (thj : Thread) (sig : Int) (pv : Option Disp) (tags : List Nat),
      s.threads[j]? = some thj → thj.pc = .dPlan sig pv tags → tag ∉ tags) ∧
    (∀ x ∈ s'.hd.live, ∀ d, lookupN x s'.cd = some d → tag ∉ tagsOfData d) := by
  have hI := inv6_reachable hr
  have h7 := inv7a_reachable hr
  cases hth : s.threads[t]? with
  | none => unfold step at hs; simp [hth] at hs
  | some th =>
    have h6 := step6_of hI hth hs
    cases h6 with
    | runDFree old' res hd' hpc mv =>
      simp only at htag
      refine ⟨?_, ?_⟩
      · intro j thj sig pv tags hj hpcj
        exact dropped_not_planned hI h7 mv.before htag hj hpcj
      · intro x hx d hl
        have hx' : x ∈ s.hd.live.erase old' := by
          have := mv.live; simp only [HalfLock.Obs.newLive] at this
          have hx2 : x ∈ hd'.live := hx
          rw [this] at hx2; exact hx2
        exact dropped_not_live hI htag hx' hl
    | _ => first | (simp at hev; done) | (simp at htag)

/-- **C01.registry_delivery_never_releases** — no step of a delivery releases anything: whatever
is dropped is dropped by a mutator (the removing thread), outside any signal handler. -/
theorem C01_registry_delivery_never_releases {env : Env} {ye : Nat} {disp : List (Int × Disp)}
    {scripts : List (List Op)} {s s' : Sys} {t : Nat} {th : Thread} {out : StepOut} {sig : Int}
    (hr : Reachable env ye disp scripts s) (hth : s.threads[t]? = some th)
    (hd : deliverySig th.pc = some sig) (hs : step env ye s t = some (s', out)) : out.dropped = [] := by
  have hI := inv6_reachable hr
  have h6 := step6_of hI hth hs
  cases h6 <;> first | rfl | (simp_all [deliverySig])

/-- **C01.registry_pinned_contents_fixed** — what a delivery executes is a suffix of the action
list recorded for the snapshot it has pinned; that snapshot is live (never released while pinned,
`C01_pinned_not_freed`) and its recorded contents are never modified. -/
theorem C01_registry_runs_pinned {env : Env} {ye : Nat} {disp : List (Int × Disp)}
    {scripts : List (List Op)} {s : Sys} {t : Nat} {th : Thread} {sig : Int} {pv : Option Disp} {tags : List Nat}
    (hr : Reachable env ye disp scripts s) (hth : s.threads[t]? = some th) (hpc : th.pc = .dPlan sig pv tags) :
    ∃ p d pre, phaseAt s.hd t = .rHold p 0 ∧ p ∈ s.hd.live ∧ lookupN p s.cd = some d ∧
      pre ++ tags = tagsFor d sig := by
  have hI := inv6_reachable hr
  have := (inv7a_reachable hr).plan t th hth
  rw [hpc] at this; simp only [PlanT] at this
  obtain ⟨p, d, h1, h2, pre, h3⟩ := this
  exact ⟨p, d, pre, h1, hold_live hI.emb.hd h1, h2, h3⟩

/-- **C01.action_owns_what_it_uses** — tie to the source (regenerated): the iterator's action stores into its
slot and wakes the self-pipe through references it *owns* (nothing is downgraded when the closure is built,
nothing upgraded inside it): whatever a delivery touches stays alive until the registry lets go of the action,
which only the removing thread does (`C01_registry_delivery_never_releases`), and a delivery never becomes the
last owner of anything. -/
theorem C01_action_owns_what_it_uses :
    SigHook.skelOf "src/iterator/backend.rs" "add_signal@wake_readers" = ["store", "wake", "register"] := by decide

end SigHook.RegConc
