import SigHook.Model.RegistryConc
import SigHook.Lemmas.RegistryConcLive
import SigHook.Props.C18
import SigHook.Props.C01
/-!
# C03 — Dispatch is async-signal-safe: bounded steps, no lock, no wait, no alloc/free

> A signal delivery, up to and including every built-in action (flag, self-pipe wake, iterator
> exfiltration, conditional shutdown), completes in a bounded number of its own steps no matter
> where every other thread - or the interrupted thread itself, even in the middle of a register or
> unregister call - is paused. It never acquires a lock, never spins or yields waiting for another
> thread, never panics, and never allocates or frees heap memory.

A delivery is `fallback.read(); data.read(); [chained handler]; actions; drop; drop`
(L6, `Model/RegistryConc.lean`), its half-lock parts being read sections of L3.
-/
namespace SigHook.HalfLock

/-- the operations a signal handler may perform on the half-lock -/
def Obs.handlerSafe : Obs → Bool
  | .load .. | .fetchAdd .. | .fetchSub .. | .use _ => true
  | _ => false

def Pc.reader : Pc → Bool
  | .rInc .. | .rData .. | .rUse .. => true
  | _ => false

/-- **C03.read_section_ops** — whatever the state of all other threads (any `s`, reachable or
not), a thread inside a read section performs only atomic loads / fetch_add / fetch_sub: no
mutex, no allocation, no release, no spin, no yield. -/
theorem C03_read_section_ops (ye : Nat) (s s' : Sys) (t : Nat) (o : Obs) (th : Thread)
    (hth : s.threads[t]? = some th) (hr : th.pc.reader = true) (hs : step ye s t = some (s', o)) :
    o.handlerSafe = true := by
  unfold step at hs
  simp only [hth] at hs
  cases hpc : th.pc with
  | rInc g u => simp [hpc] at hs; obtain ⟨_, rfl⟩ := hs; rfl
  | rData sl u => simp [hpc] at hs; obtain ⟨_, rfl⟩ := hs; rfl
  | rUse sl p u => cases u <;> (simp [hpc] at hs; obtain ⟨_, rfl⟩ := hs; rfl)
  | _ => rw [hpc] at hr; cases hr

/-- the first operation of `read()` is a load as well -/
theorem C03_read_begin_op (ye : Nat) (s s' : Sys) (t : Nat) (o : Obs) (th : Thread) (u : Nat) (rest : List Cmd)
    (hth : s.threads[t]? = some th) (hpc : th.pc = .idle) (hsc : th.script = .read u :: rest)
    (hs : step ye s t = some (s', o)) : o.handlerSafe = true := by
  unfold step at hs
  simp [hth, hpc, hsc] at hs
  obtain ⟨_, rfl⟩ := hs; rfl

/-- own steps left in a read section -/
def readRem : Pc → Nat
  | .rInc _ u => 3 + u
  | .rData _ u => 2 + u
  | .rUse _ _ u => 1 + u
  | _ => 0

/-- **C03.read_section_bounded** — every step of a read section is enabled in *every* state of
the rest of the system and strictly decreases the number of own steps left; `read()` followed by
`uses` uses and the guard drop is exactly `4 + uses` own steps, never waiting for anybody. -/
theorem C03_read_section_bounded (ye : Nat) (s : Sys) (t : Nat) (th : Thread)
    (hth : s.threads[t]? = some th) (hr : th.pc.reader = true) :
    ∃ s' o, step ye s t = some (s', o) ∧ ∃ th', s'.threads[t]? = some th' ∧
      readRem th'.pc + 1 = readRem th.pc ∧ (th'.pc.reader = true ∨ th'.pc = .idle) := by
  have ht : t < s.threads.length := (List.getElem?_eq_some_iff.1 hth).1
  unfold step
  simp only [hth]
  cases hpc : th.pc with
  | rInc g u => simp [ht, readRem, Pc.reader, Sys.setLock]; omega
  | rData sl u => simp [ht, readRem, Pc.reader]; omega
  | rUse sl p u =>
    cases u with
    | zero => simp [ht, readRem, Pc.reader, Sys.setLock]
    | succ n => simp [ht, readRem, Pc.reader]; omega
  | _ => rw [hpc] at hr; cases hr

/-- the release of a snapshot is never performed from inside a read section: deliveries do not
free (corollary of `C01_free_by_remover_after_barrier`) -/
theorem C03_reader_never_frees {ye : Nat} {scripts : List (List Cmd)} {s s' : Sys}
    (hr : Reachable ye scripts s) (t x : Nat) (hstep : step ye s t = some (s', .free x)) :
    ∃ ht : t < s.threads.length, (s.threads[t]).pc.reader = false := by
  obtain ⟨ht, hpc, _⟩ := C01_free_by_remover_after_barrier hr t x hstep
  exact ⟨ht, by rw [hpc]; rfl⟩

end SigHook.HalfLock

namespace SigHook.RegConc

/-- events a delivery may produce -/
def Ev.handlerSafe : Ev → Bool
  | .hd o | .hf o => o.handlerSafe
  | .prev _ | .run _ => true
  | _ => false

/-- **C03.dispatch_plan_ops** — between pinning the snapshot and dropping the guards the
dispatcher only calls the chained handler and the actions; it releases nothing
(`dropped = []`), whatever the rest of the system is doing. -/
theorem C03_dispatch_plan_ops (env : Registry.Env) (ye : Nat) (s s' : Sys) (t : Nat) (th : Thread)
    (out : StepOut) (sig : Int) (pv : Option Registry.Disp) (tags : List Nat)
    (hth : s.threads[t]? = some th) (hpc : th.pc = .dPlan sig pv tags)
    (hne : pv.isSome = true ∨ tags ≠ []) (hs : step env ye s t = some (s', out)) :
    out.ev.handlerSafe = true ∧ out.dropped = [] := by
  unfold step at hs
  simp only [hth, hpc] at hs
  cases pv with
  | some d => simp at hs; obtain ⟨_, rfl⟩ := hs; exact ⟨rfl, rfl⟩
  | none =>
    cases tags with
    | nil => simp at hne
    | cons tag rest => simp at hs; obtain ⟨_, rfl⟩ := hs; exact ⟨rfl, rfl⟩

/-- bound on a delivery's own steps: 3 + 3 to pin both snapshots, the chained handler, one step
per action, 2 to unpin -/
def deliveryBound (pv : Option Registry.Disp) (tags : List Nat) : Nat :=
  8 + (if pv.isSome then 1 else 0) + tags.length


/-! ## The whole delivery, in every reachable state of the concurrent registry -/

open SigHook.Registry (Disp Env)

/-- **C03.registry_delivery_step** — in every reachable state (any number of threads, whatever
they are in the middle of), a thread inside a delivery can take its next step; that step is an
atomic load / fetch_add / fetch_sub, the call of the chained handler or of an action - never a
lock, a spin, a yield, an allocation or a release (`dropped = []`) - and leaves the thread inside
the same delivery or finished with it. -/
theorem C03_registry_delivery_step {env : Env} {ye : Nat} {disp : List (Int × Disp)}
    {scripts : List (List Op)} {s : Sys} {t : Nat} {th : Thread} {sig : Int}
    (hr : Reachable env ye disp scripts s) (hth : s.threads[t]? = some th)
    (hd : deliverySig th.pc = some sig) :
    ∃ s' out, step env ye s t = some (s', out) ∧ out.ev.handlerSafe = true ∧ out.dropped = [] ∧
      ∃ th', s'.threads[t]? = some th' ∧ (deliverySig th'.pc = some sig ∨ th'.pc = .idle) := by
  have hI := inv6_reachable hr
  have ok := ownok_reachable hr
  have ht := (List.getElem?_eq_some_iff.1 hth).1
  have hne : th.pc ≠ .idle := by intro h; rw [h] at hd; cases hd
  obtain ⟨s', out, hs⟩ := step_enabled6 (ye := ye) hI (by rw [ok.2]; exact ok.1) hth (Or.inl hne)
    (by intro op h; rw [h] at hd; cases hd)
  refine ⟨s', out, hs, ?_⟩
  have h6 := step6_of hI hth hs
  cases h6 with
  | fbStep sg hf' p o hpc mv hp ho =>
    rw [hpc] at hd; injection hd with hd; subst hd
    refine ⟨?_, rfl, _, setT_get _ _ _ (by simpa using ht), Or.inl rfl⟩
    rcases ho with ⟨v, rfl⟩ | ⟨l, v, rfl⟩ <;> rfl
  | fbPin sg hf' hpc mv =>
    rw [hpc] at hd; injection hd with hd; subst hd
    exact ⟨rfl, rfl, _, setT_get _ _ _ (by simpa using ht), Or.inl rfl⟩
  | dataStep sg hd' p o pf hpc hcF mv hp ho =>
    rw [hpc] at hd; injection hd with hd; subst hd
    refine ⟨?_, rfl, _, setT_get _ _ _ (by simpa using ht), Or.inl rfl⟩
    rcases ho with ⟨v, rfl⟩ | ⟨l, v, rfl⟩ <;> rfl
  | dataPin sg hd' pf hpc hcF mv =>
    rw [hpc] at hd; injection hd with hd; subst hd
    exact ⟨rfl, rfl, _, setT_get _ _ _ (by simpa using ht), Or.inl rfl⟩
  | prev sg d tags hpc =>
    rw [hpc] at hd; injection hd with hd; subst hd
    exact ⟨rfl, rfl, _, setT_get _ _ _ ht, Or.inl rfl⟩
  | run sg tag rest hpc =>
    rw [hpc] at hd; injection hd with hd; subst hd
    exact ⟨rfl, rfl, _, setT_get _ _ _ ht, Or.inl rfl⟩
  | relD sg hd' p l v hpc mv =>
    rw [hpc] at hd; injection hd with hd; subst hd
    exact ⟨rfl, rfl, _, setT_get _ _ _ (by simpa using ht), Or.inl rfl⟩
  | relF sg hf' p l v hpc mv =>
    rw [hpc] at hd; injection hd with hd; subst hd
    exact ⟨rfl, rfl, _, setT_get _ _ _ (by simpa using ht), Or.inr rfl⟩
  | _ => simp_all [deliverySig]


/-- own steps until the delivery has both snapshots pinned (at most 6) -/
def preSteps (s : Sys) (t : Nat) : Pc → Nat
  | .dFb _ => HalfLock.preA (HalfLock.pcAt s.hf t) + 3
  | .dData _ => HalfLock.preA (HalfLock.pcAt s.hd t)
  | _ => 0

/-- own steps left once the plan is fixed: the chained handler, one per action, two guard drops -/
def postSteps : Pc → Nat
  | .dPlan _ pv tags => (if pv.isSome then 1 else 0) + tags.length + 2
  | .dRelF _ => 1
  | _ => 0

theorem preA_le (pc : HalfLock.Pc) : HalfLock.preA pc ≤ 3 := by cases pc <;> simp [HalfLock.preA]

theorem preA_hold {h : HalfLock.Sys} {t p u : Nat} (hp : HalfLock.phaseAt h t = .rHold p u) :
    HalfLock.preA (HalfLock.pcAt h t) = 0 := by
  obtain ⟨sl, e⟩ := (phase_rHold _ _ _).1 hp
  rw [e]; rfl

theorem preA_idle {h : HalfLock.Sys} {t : Nat} (hp : HalfLock.phaseAt h t = .idle) :
    HalfLock.preA (HalfLock.pcAt h t) = 3 := by
  rw [(phase_idle _).1 hp]; rfl

/-- **C03.registry_delivery_bounded** — the exact count. In every reachable state each own step of
a delivery decreases, by exactly one, first the number of steps until both snapshots are pinned
(`preSteps ≤ 6`), then - the plan being fixed at the pin - the number of steps left
(`postSteps` = chained handler + actions of the pinned list + 2). No other thread's step can
change either number (they depend on this thread's program counters only). A delivery therefore
completes in exactly `6 + postSteps(plan)` own steps, wherever every other thread is paused. -/
theorem C03_registry_delivery_bounded {env : Env} {ye : Nat} {disp : List (Int × Disp)}
    {scripts : List (List Op)} {s s' : Sys} {t : Nat} {th th' : Thread} {out : StepOut} {sig : Int}
    (hr : Reachable env ye disp scripts s) (hth : s.threads[t]? = some th)
    (hd : deliverySig th.pc = some sig) (hs : step env ye s t = some (s', out))
    (hth' : s'.threads[t]? = some th') :
    preSteps s t th.pc ≤ 6 ∧
    ((0 < preSteps s t th.pc ∧ preSteps s' t th'.pc + 1 = preSteps s t th.pc) ∨
     (preSteps s t th.pc = 0 ∧ preSteps s' t th'.pc = 0 ∧ postSteps th'.pc + 1 = postSteps th.pc)) := by
  have hI := inv6_reachable hr
  have ht := (List.getElem?_eq_some_iff.1 hth).1
  have hc := hI.coh t th hth
  have h6 := step6_of hI hth hs
  cases h6 with
  | fbStep sg hf' p o hpc mv hp ho =>
    rw [setT_get _ _ _ (by simpa using ht)] at hth'; injection hth' with hth'; subst hth'
    rw [hpc]
    have := mv.pre (by rcases hp with h | h; exact Or.inl h; exact Or.inr ⟨0, h⟩) (Or.inl ⟨0, rfl⟩)
    have hle := preA_le (HalfLock.pcAt s.hf t)
    refine ⟨by simp only [preSteps]; omega, Or.inl ⟨by simp only [preSteps]; omega, ?_⟩⟩
    show HalfLock.preA (HalfLock.pcAt hf' t) + 3 + 1 = HalfLock.preA (HalfLock.pcAt s.hf t) + 3
    omega
  | fbPin sg hf' hpc mv =>
    rw [setT_get _ _ _ (by simpa using ht)] at hth'; injection hth' with hth'; subst hth'
    rw [hpc] at hc ⊢; simp only [CohT] at hc
    have := mv.pre (Or.inr ⟨0, rfl⟩) (Or.inr ⟨_, 0, rfl⟩)
    have h0 := preA_hold mv.after
    have h3 := preA_idle hc.1
    have hle := preA_le (HalfLock.pcAt s.hf t)
    refine ⟨by simp only [preSteps]; omega, Or.inl ⟨by simp only [preSteps]; omega, ?_⟩⟩
    show HalfLock.preA (HalfLock.pcAt s.hd t) + 1 = HalfLock.preA (HalfLock.pcAt s.hf t) + 3
    omega
  | dataStep sg hd' p o pf hpc hcF mv hp ho =>
    rw [setT_get _ _ _ (by simpa using ht)] at hth'; injection hth' with hth'; subst hth'
    rw [hpc]
    have := mv.pre (by rcases hp with h | h; exact Or.inl h; exact Or.inr ⟨0, h⟩) (Or.inl ⟨0, rfl⟩)
    have hle := preA_le (HalfLock.pcAt s.hd t)
    refine ⟨by simp only [preSteps]; omega, Or.inl ⟨by simp only [preSteps]; omega, ?_⟩⟩
    show HalfLock.preA (HalfLock.pcAt hd' t) + 1 = HalfLock.preA (HalfLock.pcAt s.hd t)
    omega
  | dataPin sg hd' pf hpc hcF mv =>
    rw [setT_get _ _ _ (by simpa using ht)] at hth'; injection hth' with hth'; subst hth'
    rw [hpc]
    have := mv.pre (Or.inr ⟨0, rfl⟩) (Or.inr ⟨_, 0, rfl⟩)
    have h0 := preA_hold mv.after
    have hle := preA_le (HalfLock.pcAt s.hd t)
    refine ⟨by simp only [preSteps]; omega, Or.inl ⟨by simp only [preSteps]; omega, ?_⟩⟩
    show 0 + 1 = HalfLock.preA (HalfLock.pcAt s.hd t)
    omega
  | prev sg d tags hpc =>
    rw [setT_get _ _ _ ht] at hth'; injection hth' with hth'; subst hth'
    rw [hpc]
    exact ⟨by simp [preSteps], Or.inr ⟨rfl, rfl, by simp [postSteps]; omega⟩⟩
  | run sg tag rest hpc =>
    rw [setT_get _ _ _ ht] at hth'; injection hth' with hth'; subst hth'
    rw [hpc]
    exact ⟨by simp [preSteps], Or.inr ⟨rfl, rfl, by simp [postSteps]⟩⟩
  | relD sg hd' p l v hpc mv =>
    rw [setT_get _ _ _ (by simpa using ht)] at hth'; injection hth' with hth'; subst hth'
    rw [hpc]
    exact ⟨by simp [preSteps], Or.inr ⟨rfl, rfl, by simp [postSteps]⟩⟩
  | relF sg hf' p l v hpc mv =>
    rw [setT_get _ _ _ (by simpa using ht)] at hth'; injection hth' with hth'; subst hth'
    rw [hpc]
    exact ⟨by simp [preSteps], Or.inr ⟨rfl, rfl, by simp [postSteps]⟩⟩
  | _ => simp_all [deliverySig]

/-- **C03.handler_skeleton** — tie to the source (regenerated): everything the dispatcher does is what the L6
delivery does - pin `race_fallback`, pin `data`, chain, run the actions - plus one thing the model leaves out: a
NULL `info` ends the process with `libc::write(2, …)` and `libc::abort()`. Nothing of std's I/O, formatting,
locking or panicking machinery appears in it (`io::stderr()` takes a process-wide lock; `format!` allocates). -/
theorem C03_handler_skeleton :
    SigHook.skelOf SigHook.regFile "handler" =
      ["fallback.read", "data.read", "prev.execute", "null.write", "null.abort", "action", "prev.execute"] := by decide

end SigHook.RegConc
