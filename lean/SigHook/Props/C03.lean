import SigHook.Model.RegistryConc
import SigHook.Props.C18
import SigHook.Props.C01
/-!
# C03 — Dispatch is async-signal-safe: bounded steps, no lock, no wait, no alloc/free

> A signal delivery, up to and including every built-in action (flag, self-pipe wake, iterator
> exfiltration, conditional shutdown), completes in a bounded number of its own steps no matter
> where every other thread - or the interrupted thread itself, even in the middle of a register or
> unregister call - is paused. It never acquires a lock, never spins or yields waiting for another
> thread, never panics, and never allocates or frees heap memory.

A delivery is `fallback.read(); data.read(); [chained handler]; actions; drop; drop`
(L6, `Model/RegistryConc.lean`), its half-lock parts being read sections of L3.
-/
namespace SigHook.HalfLock

/-- the operations a signal handler may perform on the half-lock -/
def Obs.handlerSafe : Obs → Bool
  | .load .. | .fetchAdd .. | .fetchSub .. | .use _ => true
  | _ => false

def Pc.reader : Pc → Bool
  | .rInc .. | .rData .. | .rUse .. => true
  | _ => false

/-- **C03.read_section_ops** — whatever the state of all other threads (any `s`, reachable or
not), a thread inside a read section performs only atomic loads / fetch_add / fetch_sub: no
mutex, no allocation, no release, no spin, no yield. -/
theorem C03_read_section_ops (ye : Nat) (s s' : Sys) (t : Nat) (o : Obs) (th : Thread)
    (hth : s.threads[t]? = some th) (hr : th.pc.reader = true) (hs : step ye s t = some (s', o)) :
    o.handlerSafe = true := by
  unfold step at hs
  simp only [hth] at hs
  cases hpc : th.pc with
  | rInc g u => simp [hpc] at hs; obtain ⟨_, rfl⟩ := hs; rfl
  | rData sl u => simp [hpc] at hs; obtain ⟨_, rfl⟩ := hs; rfl
  | rUse sl p u => cases u <;> (simp [hpc] at hs; obtain ⟨_, rfl⟩ := hs; rfl)
  | _ => rw [hpc] at hr; cases hr

/-- the first operation of `read()` is a load as well -/
theorem C03_read_begin_op (ye : Nat) (s s' : Sys) (t : Nat) (o : Obs) (th : Thread) (u : Nat) (rest : List Cmd)
    (hth : s.threads[t]? = some th) (hpc : th.pc = .idle) (hsc : th.script = .read u :: rest)
    (hs : step ye s t = some (s', o)) : o.handlerSafe = true := by
  unfold step at hs
  simp [hth, hpc, hsc] at hs
  obtain ⟨_, rfl⟩ := hs; rfl

/-- own steps left in a read section -/
def readRem : Pc → Nat
  | .rInc _ u => 3 + u
  | .rData _ u => 2 + u
  | .rUse _ _ u => 1 + u
  | _ => 0

/-- **C03.read_section_bounded** — every step of a read section is enabled in *every* state of
the rest of the system and strictly decreases the number of own steps left; `read()` followed by
`uses` uses and the guard drop is exactly `4 + uses` own steps, never waiting for anybody. -/
theorem C03_read_section_bounded (ye : Nat) (s : Sys) (t : Nat) (th : Thread)
    (hth : s.threads[t]? = some th) (hr : th.pc.reader = true) :
    ∃ s' o, step ye s t = some (s', o) ∧ ∃ th', s'.threads[t]? = some th' ∧
      readRem th'.pc + 1 = readRem th.pc ∧ (th'.pc.reader = true ∨ th'.pc = .idle) := by
  have ht : t < s.threads.length := (List.getElem?_eq_some_iff.1 hth).1
  unfold step
  simp only [hth]
  cases hpc : th.pc with
  | rInc g u => simp [ht, readRem, Pc.reader, Sys.setLock]; omega
  | rData sl u => simp [ht, readRem, Pc.reader]; omega
  | rUse sl p u =>
    cases u with
    | zero => simp [ht, readRem, Pc.reader, Sys.setLock]
    | succ n => simp [ht, readRem, Pc.reader]; omega
  | _ => rw [hpc] at hr; cases hr

/-- the release of a snapshot is never performed from inside a read section: deliveries do not
free (corollary of `C01_free_by_remover_after_barrier`) -/
theorem C03_reader_never_frees {ye : Nat} {scripts : List (List Cmd)} {s s' : Sys}
    (hr : Reachable ye scripts s) (t x : Nat) (hstep : step ye s t = some (s', .free x)) :
    ∃ ht : t < s.threads.length, (s.threads[t]).pc.reader = false := by
  obtain ⟨ht, hpc, _⟩ := C01_free_by_remover_after_barrier hr t x hstep
  exact ⟨ht, by rw [hpc]; rfl⟩

end SigHook.HalfLock

namespace SigHook.RegConc

/-- events a delivery may produce -/
def Ev.handlerSafe : Ev → Bool
  | .hd o | .hf o => o.handlerSafe
  | .prev _ | .run _ => true
  | _ => false

/-- **C03.dispatch_plan_ops** — between pinning the snapshot and dropping the guards the
dispatcher only calls the chained handler and the actions; it releases nothing
(`dropped = []`), whatever the rest of the system is doing. -/
theorem C03_dispatch_plan_ops (env : Registry.Env) (ye : Nat) (s s' : Sys) (t : Nat) (th : Thread)
    (out : StepOut) (sig : Int) (pv : Option Registry.Disp) (tags : List Nat)
    (hth : s.threads[t]? = some th) (hpc : th.pc = .dPlan sig pv tags)
    (hne : pv.isSome = true ∨ tags ≠ []) (hs : step env ye s t = some (s', out)) :
    out.ev.handlerSafe = true ∧ out.dropped = [] := by
  unfold step at hs
  simp only [hth, hpc] at hs
  cases pv with
  | some d => simp at hs; obtain ⟨_, rfl⟩ := hs; exact ⟨rfl, rfl⟩
  | none =>
    cases tags with
    | nil => simp at hne
    | cons tag rest => simp at hs; obtain ⟨_, rfl⟩ := hs; exact ⟨rfl, rfl⟩

/-- bound on a delivery's own steps: 3 + 3 to pin both snapshots, the chained handler, one step
per action, 2 to unpin -/
def deliveryBound (pv : Option Registry.Disp) (tags : List Nat) : Nat :=
  8 + (if pv.isSome then 1 else 0) + tags.length

end SigHook.RegConc
