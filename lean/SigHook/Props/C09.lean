import SigHook.Props.C10
import SigHook.Lemmas.Scan
import SigHook.Model.Skel
/-!
# C09 — Signal iterators never lose a signal or a wake-up

> For every delivery of a watched signal while the instance is open, a consumer that keeps calling
> wait/forever/poll and drains what it is handed obtains that signal at least once after the
> delivery. The consumer is never left blocked on the self-pipe, or parked as 'pending', while a
> delivered signal is still unreported and no wake-up byte or readiness notification is outstanding.

Model: L8, any number of delivery and `close` threads, one consumer thread `c` (the iterator
types take `&mut self`), every interleaving. The invariant is the store-before-wake /
drain-before-scan argument made inductive: a delivered signal whose wake-up has completed is
either still announced by a byte in the pipe, or the consumer is at a point from which it scans
that signal's slot before it can block or report `Pending` (`covers`).
-/
namespace SigHook.Iter

def Cmd.isProducer : Cmd → Bool
  | .deliver _ | .close => true
  | _ => false

/-- a thread that only delivers / closes -/
def Thread.producer (th : Thread) : Prop :=
  (th.pc = .idle ∨ (∃ sg, th.pc = .dWake sg ∧ sg < maxSig) ∨ th.pc = .cWake) ∧
  (∀ c ∈ th.script, c.isProducer = true) ∧ (∀ sg, Cmd.deliver sg ∈ th.script → sg < maxSig)

/-- the consumer alternates between calls of the poll family only (a `SignalIterator`) -/
def Thread.styleB (th : Thread) : Bool := th.script.all (fun c => c == .poll || c == .forever)

/-- from where the consumer is, it will compare-exchange the slot of `sig` before it can block on
the pipe or answer `Pending` -/
def covers (th : Thread) (sig : Nat) : Bool :=
  match th.pc with
  | .flush _ => true
  | .scan _ pos => pos ≤ sig
  | .psClosed _ | .psNext _ => th.iterPos ≤ sig
  | .idle => th.styleB && th.iterPos ≤ sig
  | _ => false

inductive Style where | A | B
deriving DecidableEq

def Cmd.inStyle : Style → Cmd → Bool
  | .A, .pending | .A, .wait | .B, .poll | .B, .forever => true
  | _, _ => false

def Mode.inStyle : Style → Mode → Bool
  | .A, .pending | .A, .wait | .B, .poll | .B, .forever => true
  | _, _ => false

def Pc.inStyle (st : Style) : Pc → Bool
  | .idle => true
  | .flush m => m.inStyle st
  | .scan m _ => m.inStyle st && st == .A
  | .psClosed m | .psNext m | .ppClosed m | .psRecheck m => m.inStyle st && st == .B
  | .ppCallback m => m.inStyle st && (st == .B || m == .wait)
  | .dWake _ | .cWake => false

structure WakeInv (c : Nat) (st : Style) (s : Sys) : Prop where
  consumer : ∀ th, s.threads[c]? = some th → (∀ cmd ∈ th.script, cmd.inStyle st = true) ∧ th.pc.inStyle st = true
  others : ∀ (t : Nat) (th : Thread), t ≠ c → s.threads[t]? = some th → th.producer
  capPos : 0 < s.cap
  inSet : ∀ e ∈ s.unreported, e.1 ∈ s.set ∧ e.1 < maxSig
  announced : ∀ sig, (sig, true) ∈ s.unreported →
    s.closed = true ∨ 0 < s.pipe ∨ ∃ th, s.threads[c]? = some th ∧ covers th sig = true

/-- **C09.no_lost_wakeup** — in every state satisfying the invariant: if the consumer is blocked
in its blocking read (pipe empty) or is about to answer / has just answered `Pending` because the
non-blocking callback found nothing, and the instance is open, then no delivered-and-woken
signal is unreported. -/
theorem C09_no_lost_wakeup (c : Nat) (st : Style) (s : Sys) (hinv : WakeInv c st s) (th : Thread)
    (hth : s.threads[c]? = some th) (m : Mode)
    (hpc : th.pc = .ppCallback m ∨ th.pc = .psRecheck m ∨ th.pc = .ppClosed m)
    (hopen : s.closed = false) (hpipe : s.pipe = 0) (sig : Nat) :
    (sig, true) ∉ s.unreported := by
  intro hin
  rcases hinv.announced sig hin with h | h | ⟨th', hth', hc⟩
  · rw [hopen] at h; cases h
  · omega
  · rw [hth] at hth'; injection hth' with e; subst e
    rcases hpc with h | h | h <;> simp [covers, h] at hc


theorem getElem?_setT (s0 : Sys) (t j : Nat) (th' : Thread) (ht : t < s0.threads.length) :
    (setT s0 t th').threads[j]? = if t = j then some th' else s0.threads[j]? := by
  simp only [setT, List.getElem?_set]
  split
  · simp [ht]
  · rfl

/-- a step of a producer thread (a delivery or a `close`) preserves the invariant -/
theorem wake_step_producer (r : Bool) (c : Nat) (st : Style) (s s' : Sys) (t : Nat) (o : Out) (hinv : WakeInv c st s)
    (htc : t ≠ c) (h : step r s t = some (s', o)) : WakeInv c st s' := by
  unfold step at h
  cases hth : s.threads[t]? with
  | none => simp [hth] at h
  | some th =>
    have hlt : t < s.threads.length := (List.getElem?_eq_some_iff.1 hth).1
    obtain ⟨hpcs, hprod, hlim⟩ := hinv.others t th htc hth
    simp only [hth] at h
    have hc_same : ∀ (s0 : Sys) (th' : Thread), s0.threads = s.threads → (setT s0 t th').threads[c]? = s.threads[c]? := by
      intro s0 th' h1; rw [getElem?_setT _ _ _ _ (by rw [h1]; exact hlt)]; simp [htc, h1]
    have hothers : ∀ (s0 : Sys) (th' : Thread), s0.threads = s.threads → th'.producer →
        ∀ (j : Nat) (thj : Thread), j ≠ c → (setT s0 t th').threads[j]? = some thj → thj.producer := by
      intro s0 th' h1 hp j thj hj hget
      rw [getElem?_setT _ _ _ _ (by rw [h1]; exact hlt)] at hget
      split at hget
      · injection hget with e; subst e; exact hp
      · rw [h1] at hget; exact hinv.others j thj hj hget
    have hcons : ∀ (s0 : Sys) (th' : Thread), s0.threads = s.threads →
        ∀ thc, (setT s0 t th').threads[c]? = some thc → (∀ cmd ∈ thc.script, cmd.inStyle st = true) ∧ thc.pc.inStyle st = true := by
      intro s0 th' h1 thc hget; rw [hc_same s0 th' h1] at hget; exact hinv.consumer thc hget
    rcases hpcs with hpc | ⟨sg, hpc, hsg⟩ | hpc
    · -- idle: next command is deliver or close
      simp only [hpc] at h
      cases hsc : th.script with
      | nil => simp [hsc] at h
      | cons cmd rest =>
        have hrest : (∀ c ∈ rest, c.isProducer = true) ∧ (∀ sg, Cmd.deliver sg ∈ rest → sg < maxSig) :=
          ⟨fun c hc => hprod c (by rw [hsc]; exact List.mem_cons_of_mem _ hc),
           fun sg hs => hlim sg (by rw [hsc]; exact List.mem_cons_of_mem _ hs)⟩
        cases cmd with
        | deliver sig =>
          have hsig : sig < maxSig := hlim sig (by rw [hsc]; simp)
          simp only [hsc, Option.some.injEq, Prod.mk.injEq] at h; obtain ⟨rfl, _⟩ := h
          refine ⟨hcons _ _ rfl, hothers _ _ rfl ⟨Or.inr (Or.inl ⟨sig, rfl, hsig⟩), hrest.1, hrest.2⟩, hinv.capPos, ?_, ?_⟩
          · intro e he
            simp only [setT, List.mem_cons] at he ⊢
            rcases he with he | he
            · subst he; exact ⟨(mem_store sig sig s.set).2 (Or.inl rfl), hsig⟩
            · exact ⟨(mem_store e.1 sig s.set).2 (Or.inr (hinv.inSet e he).1), (hinv.inSet e he).2⟩
          · intro sg hin
            simp only [setT, List.mem_cons, Prod.mk.injEq] at hin
            rcases hin with ⟨_, hf⟩ | hin
            · cases hf
            · rcases hinv.announced sg hin with h | h | ⟨thc, hthc, hcov⟩
              · exact Or.inl h
              · exact Or.inr (Or.inl h)
              · exact Or.inr (Or.inr ⟨thc, (hc_same _ _ rfl).trans hthc, hcov⟩)
        | close =>
          simp only [hsc, Option.some.injEq, Prod.mk.injEq] at h; obtain ⟨rfl, _⟩ := h
          exact ⟨hcons _ _ rfl, hothers _ _ rfl ⟨Or.inr (Or.inr rfl), hrest.1, hrest.2⟩, hinv.capPos, hinv.inSet,
                 fun _ _ => Or.inl rfl⟩
        | pending => have := hprod .pending (by rw [hsc]; simp); cases this
        | wait => have := hprod .wait (by rw [hsc]; simp); cases this
        | poll => have := hprod .poll (by rw [hsc]; simp); cases this
        | forever => have := hprod .forever (by rw [hsc]; simp); cases this
    · -- the wake of a delivery
      simp only [hpc, Option.some.injEq, Prod.mk.injEq] at h; obtain ⟨rfl, _⟩ := h
      refine ⟨hcons _ _ rfl, hothers _ _ rfl ⟨Or.inl rfl, hprod, hlim⟩, hinv.capPos, ?_, ?_⟩
      · intro e he
        simp only [setT, List.mem_map] at he
        obtain ⟨e0, he0, rfl⟩ := he
        have := hinv.inSet e0 he0
        have key : (if (e0.1 == sg) = true then (e0.1, true) else e0).1 = e0.1 := by split <;> rfl
        rw [key]; exact this
      · intro sg' hin
        simp only [setT, List.mem_map] at hin
        obtain ⟨e0, he0, heq⟩ := hin
        have hcap := hinv.capPos
        by_cases hfull : s.pipe < s.cap
        · right; left; simp [setT, hfull]
        · by_cases hwas : e0 = (sg', true)
          · subst hwas
            rcases hinv.announced sg' he0 with h | h | ⟨thc, hthc, hcov⟩
            · exact Or.inl h
            · right; left; simp only [setT, hfull, if_false]; exact h
            · exact Or.inr (Or.inr ⟨thc, (hc_same _ _ rfl).trans hthc, hcov⟩)
          · right; left; simp only [setT, hfull, if_false]; omega
    · -- the wake of a close
      simp only [hpc, Option.some.injEq, Prod.mk.injEq] at h; obtain ⟨rfl, _⟩ := h
      refine ⟨hcons _ _ rfl, hothers _ _ rfl ⟨Or.inl rfl, hprod, hlim⟩, hinv.capPos, hinv.inSet, ?_⟩
      intro sg' hin
      rcases hinv.announced sg' hin with h | h | ⟨thc, hthc, hcov⟩
      · exact Or.inl h
      · right; left; simp only [setT]; split <;> omega
      · exact Or.inr (Or.inr ⟨thc, (hc_same _ _ rfl).trans hthc, hcov⟩)


/-- the general shape of a consumer step's effect, and why it keeps the invariant: the new set of
woken-unreported signals is a subset of the old one, `closed` does not fall, and every such
signal that was announced by a byte or by the consumer's position still is -/
theorem wake_transfer (c : Nat) (st : Style) (s s0 : Sys) (th th' : Thread) (hinv : WakeInv c st s)
    (hth : s.threads[c]? = some th)
    (hthreads : s0.threads = s.threads) (hcap : s0.cap = s.cap)
    (hstyle : (∀ cmd ∈ th'.script, cmd.inStyle st = true) ∧ th'.pc.inStyle st = true)
    (hsub : ∀ e ∈ s0.unreported, e ∈ s.unreported ∧ e.1 ∈ s0.set)
    (hclosed : s.closed = true → s0.closed = true)
    (hkeep : ∀ sig, (sig, true) ∈ s0.unreported → sig ∈ s.set → sig < maxSig →
      s0.closed = true ∨
      ((0 < s.pipe → 0 < s0.pipe ∨ covers th' sig = true) ∧
       (covers th sig = true → 0 < s0.pipe ∨ covers th' sig = true))) :
    WakeInv c st (setT s0 c th') := by
  have hlt : c < s.threads.length := (List.getElem?_eq_some_iff.1 hth).1
  have hget : ∀ j, (setT s0 c th').threads[j]? = if c = j then some th' else s.threads[j]? := by
    intro j; rw [getElem?_setT _ _ _ _ (by rw [hthreads]; exact hlt), hthreads]
  refine ⟨?_, ?_, by simp only [setT]; rw [hcap]; exact hinv.capPos, ?_, ?_⟩
  · intro thc hc; rw [hget c] at hc; simp at hc; subst hc; exact hstyle
  · intro j thj hj hc; rw [hget j] at hc; simp [Ne.symm hj] at hc; exact hinv.others j thj hj hc
  · intro e he; exact ⟨(hsub e he).2, (hinv.inSet e (hsub e he).1).2⟩
  · intro sig hin
    have hold := (hsub _ hin).1
    have hs := hinv.inSet _ hold
    rcases hkeep sig hin hs.1 hs.2 with hcl | ⟨hp, hc⟩
    · exact Or.inl hcl
    · rcases hinv.announced sig hold with h | h | ⟨thc, hthc, hcov⟩
      · exact Or.inl (hclosed h)
      · rcases hp h with h' | h'
        · exact Or.inr (Or.inl h')
        · exact Or.inr (Or.inr ⟨th', by rw [hget c]; simp, h'⟩)
      · rw [hth] at hthc; injection hthc with e; subst e
        rcases hc hcov with h' | h'
        · exact Or.inr (Or.inl h')
        · exact Or.inr (Or.inr ⟨th', by rw [hget c]; simp, h'⟩)


theorem covers_flush (th : Thread) (m : Mode) (sig : Nat) : covers { th with pc := .flush m } sig = true := rfl

theorem styleB_of (st : Style) (script : List Cmd) (h : ∀ cmd ∈ script, cmd.inStyle st = true) :
    st = .B → script.all (fun c => c == .poll || c == .forever) = true := by
  intro hst; subst hst
  rw [List.all_eq_true]
  intro cmd hc
  have := h cmd hc
  cases cmd <;> simp [Cmd.inStyle] at this ⊢

/-- a step of the consumer preserves the invariant -/
theorem wake_step_consumer (r : Bool) (c : Nat) (st : Style) (s s' : Sys) (o : Out) (hinv : WakeInv c st s)
    (h : step r s c = some (s', o)) : WakeInv c st s' := by
  unfold step at h
  cases hth : s.threads[c]? with
  | none => simp [hth] at h
  | some th =>
    obtain ⟨hscript, hpcst⟩ := hinv.consumer th hth
    simp only [hth] at h
    -- frequently used: nothing about the slots changed
    have same : ∀ e ∈ s.unreported, e ∈ s.unreported ∧ e.1 ∈ s.set := fun e he => ⟨he, (hinv.inSet e he).1⟩
    cases hpc : th.pc with
    | dWake sg => rw [hpc] at hpcst; cases hpcst
    | cWake => rw [hpc] at hpcst; cases hpcst
    | idle =>
      simp only [hpc] at h
      cases hsc : th.script with
      | nil => simp [hsc] at h
      | cons cmd rest =>
        have hrest : ∀ cmd ∈ rest, cmd.inStyle st = true := fun x hx => hscript x (by rw [hsc]; exact List.mem_cons_of_mem _ hx)
        have hcmd : cmd.inStyle st = true := hscript cmd (by rw [hsc]; simp)
        cases cmd with
        | deliver sg => cases st <;> cases hcmd
        | close => cases st <;> cases hcmd
        | pending =>
          have hst : st = .A := by cases st <;> first | rfl | cases hcmd
          subst hst
          simp only [hsc, step.stepFlush] at h
          split at h
          · simp only [Option.some.injEq, Prod.mk.injEq] at h; obtain ⟨rfl, _⟩ := h
            exact wake_transfer c .A s _ th _ hinv hth rfl rfl ⟨hrest, rfl⟩ same id
              (fun sig _ _ _ => Or.inr ⟨fun _ => Or.inr rfl, fun _ => Or.inr rfl⟩)
          · simp only [Option.some.injEq, Prod.mk.injEq] at h; obtain ⟨rfl, _⟩ := h
            exact wake_transfer c .A s _ th _ hinv hth rfl rfl ⟨hrest, rfl⟩ same id
              (fun sig _ _ _ => Or.inr ⟨fun _ => Or.inr (by simp [covers]), fun _ => Or.inr (by simp [covers])⟩)
        | wait =>
          have hst : st = .A := by cases st <;> first | rfl | cases hcmd
          subst hst
          simp only [hsc, Option.some.injEq, Prod.mk.injEq] at h; obtain ⟨rfl, _⟩ := h
          refine wake_transfer c .A s _ th _ hinv hth rfl rfl ⟨hrest, by split <;> rfl⟩ same id ?_
          intro sig _ _ _
          by_cases hc : s.closed = true
          · exact Or.inl hc
          · refine Or.inr ⟨fun hp => Or.inl hp, fun hcov => ?_⟩
            -- an idle style-A consumer with `wait` next covers nothing
            simp [covers, hpc, Thread.styleB, hsc] at hcov
        | poll =>
          have hst : st = .B := by cases st <;> first | rfl | cases hcmd
          subst hst
          simp only [hsc, step.stepPsClosed] at h
          split at h
          · rename_i hcl
            simp only [Option.some.injEq, Prod.mk.injEq] at h; obtain ⟨rfl, _⟩ := h
            exact wake_transfer c .B s _ th _ hinv hth rfl rfl ⟨hrest, rfl⟩ same id (fun _ _ _ _ => Or.inl hcl)
          · simp only [Option.some.injEq, Prod.mk.injEq] at h; obtain ⟨rfl, _⟩ := h
            refine wake_transfer c .B s _ th _ hinv hth rfl rfl ⟨hrest, by split <;> rfl⟩ same id ?_
            intro sig _ _ hlt
            refine Or.inr ⟨fun hp => Or.inl hp, fun hcov => Or.inr ?_⟩
            simp only [covers, hpc, Bool.and_eq_true, decide_eq_true_eq] at hcov
            have : th.iterPos < maxSig := by omega
            simp [covers, this, hcov.2]
        | forever =>
          have hst : st = .B := by cases st <;> first | rfl | cases hcmd
          subst hst
          simp only [hsc, step.stepPsClosed] at h
          split at h
          · rename_i hcl
            simp only [Option.some.injEq, Prod.mk.injEq] at h; obtain ⟨rfl, _⟩ := h
            exact wake_transfer c .B s _ th _ hinv hth rfl rfl ⟨hrest, rfl⟩ same id (fun _ _ _ _ => Or.inl hcl)
          · simp only [Option.some.injEq, Prod.mk.injEq] at h; obtain ⟨rfl, _⟩ := h
            refine wake_transfer c .B s _ th _ hinv hth rfl rfl ⟨hrest, by split <;> rfl⟩ same id ?_
            intro sig _ _ hlt
            refine Or.inr ⟨fun hp => Or.inl hp, fun hcov => Or.inr ?_⟩
            simp only [covers, hpc, Bool.and_eq_true, decide_eq_true_eq] at hcov
            have : th.iterPos < maxSig := by omega
            simp [covers, this, hcov.2]
    | flush m =>
      simp only [hpc, step.stepFlush] at h
      have hm : m.inStyle st = true := by rw [hpc] at hpcst; exact hpcst
      split at h
      · simp only [Option.some.injEq, Prod.mk.injEq] at h; obtain ⟨rfl, _⟩ := h
        exact wake_transfer c st s _ th _ hinv hth rfl rfl ⟨hscript, hm⟩ same id
          (fun sig _ _ _ => Or.inr ⟨fun _ => Or.inr rfl, fun _ => Or.inr rfl⟩)
      · cases m with
        | pending | wait =>
          simp only [Option.some.injEq, Prod.mk.injEq] at h; obtain ⟨rfl, _⟩ := h
          refine wake_transfer c st s _ th _ hinv hth rfl rfl ⟨hscript, ?_⟩ same id
            (fun sig _ _ _ => Or.inr ⟨fun _ => Or.inr (by simp [covers]), fun _ => Or.inr (by simp [covers])⟩)
          cases st <;> simp_all [Pc.inStyle, Mode.inStyle]
        | poll | forever =>
          simp only [Option.some.injEq, Prod.mk.injEq] at h; obtain ⟨rfl, _⟩ := h
          refine wake_transfer c st s _ th _ hinv hth rfl rfl ⟨hscript, ?_⟩ same id
            (fun sig _ _ _ => Or.inr ⟨fun _ => Or.inr (by simp [covers]), fun _ => Or.inr (by simp [covers])⟩)
          cases st <;> simp_all [Pc.inStyle, Mode.inStyle]
    | scan m pos =>
      have hm : m.inStyle st = true ∧ st = .A := by
        rw [hpc] at hpcst; simp only [Pc.inStyle, Bool.and_eq_true, beq_iff_eq] at hpcst; exact hpcst
      obtain ⟨hm, rfl⟩ := hm
      simp only [hpc] at h
      split at h
      · rename_i hlt
        split at h
        · -- the slot is set: it is yielded, the position stays
          rename_i hin
          simp only [Option.some.injEq, Prod.mk.injEq] at h; obtain ⟨rfl, _⟩ := h
          refine wake_transfer c .A s _ th _ hinv hth rfl rfl ⟨hscript, by simp [Pc.inStyle, hm]⟩ ?_ id ?_
          · intro e he
            simp only [List.mem_filter, bne_iff_ne, ne_eq] at he
            exact ⟨he.1, (List.mem_erase_of_ne he.2).2 (hinv.inSet e he.1).1⟩
          · intro sig _ _ _
            exact Or.inr ⟨fun hp => Or.inl hp, fun hcov => Or.inr (by simpa [covers, hpc] using hcov)⟩
        · rename_i hnin
          simp only [Option.some.injEq, Prod.mk.injEq] at h; obtain ⟨rfl, _⟩ := h
          refine wake_transfer c .A s _ th _ hinv hth rfl rfl ⟨hscript, by split <;> simp [Pc.inStyle, hm]⟩ same id ?_
          intro sig _ hset hsl
          have hne : sig ≠ pos := by intro e; subst e; exact hnin (by simpa using hset)
          refine Or.inr ⟨fun hp => Or.inl hp, fun hcov => ?_⟩
          simp only [covers, hpc, decide_eq_true_eq] at hcov
          by_cases hlast : pos + 1 = maxSig
          · exfalso; omega
          · right; simp [hlast, covers]; omega
      · rename_i hge
        simp only [Option.some.injEq, Prod.mk.injEq] at h; obtain ⟨rfl, _⟩ := h
        refine wake_transfer c .A s _ th _ hinv hth rfl rfl ⟨hscript, rfl⟩ same id ?_
        intro sig _ _ hsl
        refine Or.inr ⟨fun hp => Or.inl hp, fun hcov => ?_⟩
        simp only [covers, hpc, decide_eq_true_eq] at hcov
        exfalso; omega
    | psClosed m =>
      have hm : m.inStyle st = true ∧ st = .B := by
        rw [hpc] at hpcst; simp only [Pc.inStyle, Bool.and_eq_true, beq_iff_eq] at hpcst; exact hpcst
      obtain ⟨hm, rfl⟩ := hm
      simp only [hpc, step.stepPsClosed] at h
      split at h
      · rename_i hcl
        simp only [Option.some.injEq, Prod.mk.injEq] at h; obtain ⟨rfl, _⟩ := h
        exact wake_transfer c .B s _ th _ hinv hth rfl rfl ⟨hscript, rfl⟩ same id (fun _ _ _ _ => Or.inl hcl)
      · simp only [Option.some.injEq, Prod.mk.injEq] at h; obtain ⟨rfl, _⟩ := h
        refine wake_transfer c .B s _ th _ hinv hth rfl rfl ⟨hscript, by split <;> simp [Pc.inStyle, hm]⟩ same id ?_
        intro sig _ _ hlt
        refine Or.inr ⟨fun hp => Or.inl hp, fun hcov => Or.inr ?_⟩
        simp only [covers, hpc, decide_eq_true_eq] at hcov
        have : th.iterPos < maxSig := by omega
        simp [covers, this, hcov]
    | psNext m =>
      have hm : m.inStyle st = true ∧ st = .B := by
        rw [hpc] at hpcst; simp only [Pc.inStyle, Bool.and_eq_true, beq_iff_eq] at hpcst; exact hpcst
      obtain ⟨hm, rfl⟩ := hm
      simp only [hpc] at h
      split at h
      · rename_i hin
        have hsub : ∀ e ∈ (s.unreported.filter (fun e => e.1 != th.iterPos)), e ∈ s.unreported ∧ e.1 ∈ s.set.erase th.iterPos := by
          intro e he
          simp only [List.mem_filter, bne_iff_ne, ne_eq] at he
          exact ⟨he.1, (List.mem_erase_of_ne he.2).2 (hinv.inSet e he.1).1⟩
        have hB := styleB_of .B th.script hscript rfl
        split at h
        · simp only [Option.some.injEq, Prod.mk.injEq] at h; obtain ⟨rfl, _⟩ := h
          refine wake_transfer c .B s _ th _ hinv hth rfl rfl ⟨hscript, by simp [Pc.inStyle, hm]⟩ hsub id ?_
          intro sig _ _ _
          exact Or.inr ⟨fun hp => Or.inl hp, fun hcov => Or.inr (by simpa [covers, hpc] using hcov)⟩
        · simp only [Option.some.injEq, Prod.mk.injEq] at h; obtain ⟨rfl, _⟩ := h
          refine wake_transfer c .B s _ th _ hinv hth rfl rfl ⟨hscript, rfl⟩ hsub id ?_
          intro sig _ _ _
          refine Or.inr ⟨fun hp => Or.inl hp, fun hcov => Or.inr ?_⟩
          simp only [covers, hpc, decide_eq_true_eq] at hcov
          simp [covers, Thread.styleB, hB, hcov]
      · rename_i hnin
        simp only [Option.some.injEq, Prod.mk.injEq] at h; obtain ⟨rfl, _⟩ := h
        refine wake_transfer c .B s _ th _ hinv hth rfl rfl ⟨hscript, by split <;> simp [Pc.inStyle, hm]⟩ same id ?_
        intro sig _ hset hsl
        have hne : sig ≠ th.iterPos := by intro e; rw [e] at hset; exact hnin (by simpa using hset)
        refine Or.inr ⟨fun hp => Or.inl hp, fun hcov => ?_⟩
        simp only [covers, hpc, decide_eq_true_eq] at hcov
        by_cases hlast : th.iterPos + 1 < maxSig
        · right; simp [hlast, covers]; omega
        · exfalso; omega
    | ppClosed m =>
      have hm : m.inStyle st = true ∧ st = .B := by
        rw [hpc] at hpcst; simp only [Pc.inStyle, Bool.and_eq_true, beq_iff_eq] at hpcst; exact hpcst
      obtain ⟨hm, rfl⟩ := hm
      simp only [hpc] at h
      split at h
      · rename_i hcl
        have key : ∀ (th' : Thread), th'.script = th.script → th'.pc.inStyle .B = true →
            WakeInv c .B (setT s c th') := fun th' e1 e2 =>
          wake_transfer c .B s _ th _ hinv hth rfl rfl ⟨by rw [e1]; exact hscript, e2⟩ same id (fun _ _ _ _ => Or.inl hcl)
        repeat' split at h
        all_goals (simp only [Option.some.injEq, Prod.mk.injEq] at h; obtain ⟨rfl, _⟩ := h)
        all_goals (apply key <;> simp [Pc.inStyle, hm])
      · simp only [Option.some.injEq, Prod.mk.injEq] at h; obtain ⟨rfl, _⟩ := h
        refine wake_transfer c .B s _ th _ hinv hth rfl rfl ⟨hscript, by simp [Pc.inStyle, hm]⟩ same id ?_
        intro sig _ _ _
        exact Or.inr ⟨fun hp => Or.inl hp, fun hcov => by simp [covers, hpc] at hcov⟩
    | ppCallback m =>
      have hm : m.inStyle st = true := by
        rw [hpc] at hpcst; simp only [Pc.inStyle, Bool.and_eq_true] at hpcst; exact hpcst.1
      simp only [hpc] at h
      have toFlush : ∀ (s0 : Sys) (th' : Thread), s0 = { s with pipe := s.pipe - 1 } → th'.script = th.script →
          th'.pc = .flush m → WakeInv c st (setT s0 c th') := by
        intro s0 th' e0 e1 e2
        subst e0
        refine wake_transfer c st s _ th th' hinv hth rfl rfl ⟨by rw [e1]; exact hscript, by rw [e2]; exact hm⟩ same id ?_
        intro sig _ _ _
        exact Or.inr ⟨fun _ => Or.inr (by simp [covers, e2]), fun _ => Or.inr (by simp [covers, e2])⟩
      have noCover : ∀ sig, covers th sig = false := by intro sig; simp [covers, hpc]
      have toParked : ∀ (th' : Thread), th'.script = th.script → th'.pc.inStyle st = true → s.pipe = 0 →
          WakeInv c st (setT s c th') := by
        intro th' e1 e2 hp0
        refine wake_transfer c st s _ th th' hinv hth rfl rfl ⟨by rw [e1]; exact hscript, e2⟩ same id ?_
        intro sig _ _ _
        exact Or.inr ⟨fun hp => by omega, fun hcov => by rw [noCover sig] at hcov; cases hcov⟩
      repeat' split at h
      all_goals (first | (simp at h; done) | skip)
      all_goals (simp only [Option.some.injEq, Prod.mk.injEq] at h; obtain ⟨rfl, _⟩ := h)
      all_goals first
        | (apply toFlush <;> rfl)
        | (apply toParked <;> first | rfl | assumption | (cases st <;> cases m <;> simp_all [Pc.inStyle, Mode.inStyle, blocking]))
    | psRecheck m =>
      have hm : m.inStyle st = true ∧ st = .B := by
        rw [hpc] at hpcst; simp only [Pc.inStyle, Bool.and_eq_true, beq_iff_eq] at hpcst; exact hpcst
      obtain ⟨hm, rfl⟩ := hm
      simp only [hpc] at h
      have noCover : ∀ sig, covers th sig = false := by intro sig; simp [covers, hpc]
      split at h
      · rename_i hcl
        simp only [Option.some.injEq, Prod.mk.injEq] at h; obtain ⟨rfl, _⟩ := h
        exact wake_transfer c .B s _ th _ hinv hth rfl rfl ⟨hscript, rfl⟩ same id (fun _ _ _ _ => Or.inl hcl)
      · have key : ∀ (th' : Thread), th'.script = th.script → th'.pc.inStyle .B = true →
            WakeInv c .B (setT s c th') := fun th' e1 e2 =>
          wake_transfer c .B s _ th _ hinv hth rfl rfl ⟨by rw [e1]; exact hscript, e2⟩ same id
            (fun sig _ _ _ => Or.inr ⟨fun hp => Or.inl hp, fun hcov => by rw [noCover sig] at hcov; cases hcov⟩)
        split at h
        all_goals (simp only [Option.some.injEq, Prod.mk.injEq] at h; obtain ⟨rfl, _⟩ := h)
        all_goals (apply key <;> simp [Pc.inStyle, hm])


theorem wake_step (r : Bool) (c : Nat) (st : Style) (s s' : Sys) (t : Nat) (o : Out) (hinv : WakeInv c st s)
    (h : step r s t = some (s', o)) : WakeInv c st s' := by
  by_cases htc : t = c
  · subst htc; exact wake_step_consumer r t st s s' o hinv h
  · exact wake_step_producer r c st s s' t o hinv htc h

/-- what the scripts must look like: thread `c` is the (only) consumer and uses one front-end
family; every other thread only delivers signals below `MAX_SIGNUM` or closes -/
structure GoodScripts (c : Nat) (st : Style) (scripts : List (List Cmd)) : Prop where
  consumer : ∀ sc, scripts[c]? = some sc → ∀ cmd ∈ sc, cmd.inStyle st = true
  others : ∀ (t : Nat) (sc : List Cmd), t ≠ c → scripts[t]? = some sc →
    (∀ cmd ∈ sc, cmd.isProducer = true) ∧ (∀ sg, Cmd.deliver sg ∈ sc → sg < maxSig)

theorem wake_init (c : Nat) (st : Style) (w : List Nat) (cap pipe : Nat) (scripts : List (List Cmd))
    (hg : GoodScripts c st scripts) (hcap : 0 < cap) : WakeInv c st (Sys.init w cap pipe scripts) := by
  refine ⟨?_, ?_, hcap, by simp [Sys.init], by simp [Sys.init]⟩
  · intro th hth
    simp only [Sys.init, List.getElem?_map] at hth
    cases hs : scripts[c]? with
    | none => simp [hs] at hth
    | some sc => simp [hs] at hth; subst hth; exact ⟨hg.consumer sc hs, rfl⟩
  · intro t th htc hth
    simp only [Sys.init, List.getElem?_map] at hth
    cases hs : scripts[t]? with
    | none => simp [hs] at hth
    | some sc =>
      simp [hs] at hth; subst hth
      exact ⟨Or.inl rfl, (hg.others t sc htc hs).1, (hg.others t sc htc hs).2⟩

theorem wake_reachable {r : Bool} {c : Nat} {st : Style} {w : List Nat} {cap pipe : Nat}
    {scripts : List (List Cmd)} {s : Sys} (hg : GoodScripts c st scripts) (hcap : 0 < cap)
    (hr : Reachable r w cap pipe scripts s) : WakeInv c st s := by
  induction hr with
  | init => exact wake_init c st w cap pipe scripts hg hcap
  | step _ hs ih => exact wake_step _ _ _ _ _ _ _ ih hs

/-- **C09.never_stranded** — in every reachable state of every interleaving (any number of
delivery and close threads, one consumer of either front-end family, any pipe capacity > 0, any
initial fill): while the instance is open, if the consumer is blocked on the self-pipe (its
blocking read with an empty pipe) or is at / past the non-blocking callback that found nothing
(about to be parked as `Pending`), then no signal whose delivery has completed its wake-up is
unreported. -/
theorem C09_never_stranded {r : Bool} {c : Nat} {st : Style} {w : List Nat} {cap pipe : Nat}
    {scripts : List (List Cmd)} {s : Sys} (hg : GoodScripts c st scripts) (hcap : 0 < cap)
    (hr : Reachable r w cap pipe scripts s) (th : Thread) (hth : s.threads[c]? = some th) (m : Mode)
    (hpc : th.pc = .ppCallback m ∨ th.pc = .psRecheck m ∨ th.pc = .ppClosed m)
    (hopen : s.closed = false) (hpipe : s.pipe = 0) (sig : Nat) :
    (sig, true) ∉ s.unreported :=
  C09_no_lost_wakeup c st s (wake_reachable hg hcap hr) th hth m hpc hopen hpipe sig

/-- the same for a consumer that has been answered `Pending` and is now idle between two polls
with its iterator exhausted -/
theorem C09_parked_pending {r : Bool} {c : Nat} {w : List Nat} {cap pipe : Nat}
    {scripts : List (List Cmd)} {s : Sys} (hg : GoodScripts c .B scripts) (hcap : 0 < cap)
    (hr : Reachable r w cap pipe scripts s) (th : Thread) (hth : s.threads[c]? = some th)
    (hpc : th.pc = .idle) (hpos : maxSig ≤ th.iterPos)
    (hopen : s.closed = false) (hpipe : s.pipe = 0) (sig : Nat) :
    (sig, true) ∉ s.unreported := by
  intro hin
  have hinv := wake_reachable hg hcap hr
  have hlt := (hinv.inSet _ hin).2
  rcases hinv.announced sig hin with h | h | ⟨th', hth', hc⟩
  · rw [hopen] at h; cases h
  · omega
  · rw [hth] at hth'; injection hth' with e; subst e
    simp only [covers, hpc, Bool.and_eq_true, decide_eq_true_eq] at hc
    have : sig < th.iterPos := by simp only at hlt; omega
    omega

/-- **C09.scan_reports** — a scan that reaches the position of a set slot yields that signal
there (and only clears that slot) -/
theorem C09_scan_reports (r : Bool) (s : Sys) (t : Nat) (th : Thread) (m : Mode) (pos : Nat)
    (hth : s.threads[t]? = some th) (hpc : th.pc = .scan m pos) (hlt : pos < maxSig)
    (hset : s.set.contains pos = true) :
    ∃ s', step r s t = some (s', { obs := .cas pos true, yielded := some pos }) ∧ s'.set = s.set.erase pos := by
  refine ⟨setT { s with set := s.set.erase pos, unreported := s.unreported.filter (fun e => e.1 != pos),
                         yields := pos :: s.yields } t { th with pc := .scan m pos }, ?_, rfl⟩
  have hmem : pos ∈ s.set := by simpa using hset
  simp [step, hth, hpc, hlt, hmem]

/-- store before wake (the delivery's two steps, in this order) -/
theorem C09_store_before_wake (r : Bool) (s : Sys) (t : Nat) (th : Thread) (sig : Nat) (rest : List Cmd)
    (hth : s.threads[t]? = some th) (hpc : th.pc = .idle) (hsc : th.script = .deliver sig :: rest) :
    ∃ s', step r s t = some (s', { obs := .storeSlot sig }) ∧ sig ∈ s'.set ∧
      s'.threads[t]? = some { th with script := rest, pc := .dWake sig } := by
  have hlt : t < s.threads.length := (List.getElem?_eq_some_iff.1 hth).1
  refine ⟨_, by simp [step, hth, hpc, hsc]; rfl, ?_, ?_⟩
  · have := (mem_store sig sig s.set).2 (Or.inl rfl)
    simp only [setT]; simpa using this
  · simp [setT, hlt]

/-! ## non-vacuity: a delivery racing a `wait` -/
example : GoodScripts 1 .A [[.deliver 10], [.wait, .pending]] := by
  constructor
  · intro sc h cmd hc; simp at h; subst h; simp at hc; rcases hc with rfl | rfl <;> rfl
  · intro t sc ht h
    match t, ht, h with
    | 0, _, h => simp at h; subst h; exact ⟨by intro c hc; simp at hc; subst hc; rfl, by intro sg hs; simp at hs; subst hs; decide⟩
    | (n + 2), _, h => simp at h


/-- **C09.scan_after_drain_skeleton** — tie to the source (regenerated): `pending()` drains the
self-pipe and only then hands out the scanner - over the whole slot table, built from nothing but the shared
slots (no cached or narrowed range; the scanner's loop bound is part of `C09_scan_shape_current`);
`poll_signal` itself never drains
(a drain between the callback's "readable" and the scan would be harmless, one after the scan
would lose the wake-up for signals that arrived in between). -/
theorem C09_scan_after_drain_skeleton :
    skelOf backendFile "pending" = ["flush", "scanner.all"] ∧ ¬ (skelOf backendFile "poll_signal").contains "flush" ∧
    skelOf backendFile "poll_pending" = ["is_closed", "has_signals", "pending"] := by decide

/-- **C09.frontend_skeleton** — tie to the source (regenerated) of the glue between the modelled back
end and the user of `signal_hook::iterator::Signals`: the blocking readiness callback is *one*
one-byte `read` (retried only on `EINTR`, answering "something was read"), which is what the model's
blocking callback step is; `wait` hands exactly that callback to `poll_pending` and falls back to
`pending()` when told the instance is closed; `forever` builds the iterator over the same instance and
its `next` loops over `poll_signal` with the same callback, retrying on `Pending`. (A callback that
reads in bigger chunks until a short read blocks for good when the wake-up bytes are a multiple of the
chunk.) -/
theorem C09_frontend_skeleton :
    skelOf "src/iterator/mod.rs" "has_signals" = ["loop", "read.one", "ok.nonzero", "interrupted", "break.err"] ∧
    skelOf "src/iterator/mod.rs" "wait" = ["poll_pending.has_signals", "some.pending", "none.pending", "panic"] ∧
    skelOf "src/iterator/mod.rs" "forever" = ["iterator.new"] ∧
    skelOf "src/iterator/mod.rs" "next" =
      ["loop", "poll_signal.has_signals", "signal.some", "closed.none", "pending.continue", "err.panic"] := by decide

/-- **C09.action_skeleton** — tie to the source (regenerated): the action an instance registers for a signal
stores into the signal's slot and then wakes the readers, unconditionally, in this order - the two steps of
the model's delivery. -/
theorem C09_action_skeleton :
    skelOf backendFile "add_signal@wake_readers" = ["store", "wake", "register"] := by decide

/-- **C09.constructor_skeleton** — tie to the source (regenerated): every front end makes one pair and
hands its ends to `SignalDelivery::with_pipe` as (read, write), in this order: the end the consumer reads,
polls or registers with its reactor is the end the deliveries do *not* write to. signal-hook-mio registers
exactly that read end with the `mio::Registry`, and its `pending` is the back end's `pending` (drain, then
scan). -/
theorem C09_constructor_skeleton :
    skelOf "src/iterator/mod.rs" "with_exfiltrator" = ["pair", "with_pipe.read.write"] ∧
    skelOf "signal-hook-mio/src/lib.rs" "with_exfiltrator" = ["pair", "with_pipe.read.write"] ∧
    skelOf "signal-hook-tokio/src/lib.rs" "with_exfiltrator" = ["pair", "with_pipe.read.write", "iterator.new"] ∧
    skelOf "signal-hook-async-std/src/lib.rs" "with_exfiltrator" = ["pair", "with_pipe.read.write", "iterator.new"] ∧
    skelOf "signal-hook-mio/src/lib.rs" "register" = ["read.register"] ∧
    skelOf "signal-hook-mio/src/lib.rs" "pending" = ["pending"] := by decide

end SigHook.Iter

/-! ## Queueing exfiltrators: the scan hands out everything that is queued (`Lemmas/Scan.lean`) -/
namespace SigHook.Scan

/-- **C09.scan_hands_out_everything** — with `WithRawSiginfo` / `WithOrigin` several records of one
signal can be queued when `pending()` has just drained the self-pipe (their wake-up bytes are gone):
draining the iterator yields exactly the records queued from its position on, each once, slot by
slot, oldest first. -/
theorem C09_scan_hands_out_everything (fuel : Nat) (s : St) (hf : (queued s).length < fuel) :
    (drain true fuel s).1 = queued s := scan_hands_out_everything fuel s hf

/-- the loop shape of the source is the one the theorem is about (regenerated on every run) -/
theorem C09_scan_shape_current : staysOnHit = true := scan_shape_current

/-- with the other shape (position advanced on a hit too) records are left behind -/
theorem C09_scan_advancing_on_hit_strands :
    (drain false 10 { done := [], rest := [[], [7, 8], []] }).1 = [7] ∧
    (drain true 10 { done := [], rest := [[], [7, 8], []] }).1 = [7, 8] := scan_advancing_on_hit_strands

/-- a scanner over a narrowed range - the first `limit` slots instead of the whole table - hands out exactly the
records queued in those slots (so the full table, `limit ≥` its length, gives everything: the theorem above) ... -/
theorem C09_narrowed_scan_hands_out_prefix (fuel limit : Nat) (rest : List (List Nat))
    (hf : (queued { done := [], rest := rest.take limit }).length < fuel) :
    (drain true fuel { done := [], rest := rest.take limit }).1 = (rest.take limit).flatten := by
  rw [C09_scan_hands_out_everything fuel _ hf]; rfl

/-- ... and therefore leaves behind whatever is queued above the limit: the bound of the source's loop is the
table's length (`bound.slots` in `staysOnHit`), not something computed elsewhere -/
theorem C09_narrowed_scan_strands :
    (drain true 10 { done := [], rest := ([[], [7], [], [9]] : List (List Nat)).take 2 }).1 = [7] ∧
    (drain true 10 { done := [], rest := [[], [7], [], [9]] }).1 = [7, 9] := by decide

end SigHook.Scan
