import SigHook.Model.Iterator
import SigHook.Model.Skel
/-!
# C11 — close() is sticky, unblocks every consumer, and never strands an async poller

> Once close has been called, is_closed is true forever, every wait/forever/poll that is blocked or
> starts later returns after a bounded number of steps, and the infinite iterator ends. The
> non-blocking poll interface reports 'pending' only if, during that same call, its readiness
> callback was consulted and answered 'nothing available' (so the caller has an armed wake-up);
> otherwise it reports a signal or 'closed'.

Model: L8 (`Model/Iterator.lean`), any number of delivery / close threads and consumers, every
interleaving. `recheck` is the shape of `poll_signal` (generated from the source as
`Gen.pollRechecksClosed`): `true` after the `fix:` commit, `false` before it.
-/
namespace SigHook.Iter

inductive Reachable (recheck : Bool) (watched : List Nat) (cap pipe : Nat) (scripts : List (List Cmd)) : Sys → Prop where
  | init : Reachable recheck watched cap pipe scripts (Sys.init watched cap pipe scripts)
  | step {s s' : Sys} {t : Nat} {o : Out} :
      Reachable recheck watched cap pipe scripts s → step recheck s t = some (s', o) →
      Reachable recheck watched cap pipe scripts s'

/-- a single step never resets `closed`, and leaves every other thread exactly as it was -/
theorem step_frame (recheck : Bool) (s s' : Sys) (t : Nat) (o : Out) (h : step recheck s t = some (s', o)) :
    (s.closed = true → s'.closed = true) ∧ s'.threads.length = s.threads.length ∧
    (∀ j, j ≠ t → s'.threads[j]? = s.threads[j]?) := by
  unfold step at h
  cases hth : s.threads[t]? with
  | none => simp [hth] at h
  | some th =>
    simp only [hth] at h
    have key : ∀ (s0 : Sys) (th' : Thread), s0.threads = s.threads → s0.closed = (s.closed || s0.closed) →
        (s.closed = true → (setT s0 t th').closed = true) ∧ (setT s0 t th').threads.length = s.threads.length ∧
        (∀ j, j ≠ t → (setT s0 t th').threads[j]? = s.threads[j]?) := by
      intro s0 th' h1 h2
      refine ⟨?_, by simp [setT, h1], ?_⟩
      · intro hc; simp only [setT]; rw [h2, hc]; rfl
      · intro j hj; simp only [setT, h1]; rw [List.getElem?_set_ne (Ne.symm hj)]
    cases hpc : th.pc with
    | idle =>
      simp only [hpc] at h
      cases hsc : th.script with
      | nil => simp [hsc] at h
      | cons c rest =>
        cases c <;> simp only [hsc, step.stepFlush, step.stepPsClosed] at h
        all_goals (repeat' split at h)
        all_goals (simp only [Option.some.injEq, Prod.mk.injEq] at h; obtain ⟨rfl, _⟩ := h)
        all_goals (apply key <;> simp)
    | _ =>
      simp only [hpc, step.stepFlush, step.stepPsClosed] at h
      repeat' split at h
      all_goals (first | (simp at h; done) | skip)
      all_goals (simp only [Option.some.injEq, Prod.mk.injEq] at h; obtain ⟨rfl, _⟩ := h)
      all_goals (apply key <;> simp)

/-- **C11.sticky** — in every execution, once `closed` is set it stays set. -/
theorem C11_sticky (recheck : Bool) (s s' : Sys) (t : Nat) (o : Out)
    (h : step recheck s t = some (s', o)) (hc : s.closed = true) : s'.closed = true :=
  (step_frame recheck s s' t o h).1 hc

/-- what a consumer that is about to decide between `Pending` and `Closed` knows -/
def ArmedInv (s : Sys) : Prop :=
  ∀ (t : Nat) (th : Thread) (m : Mode), s.threads[t]? = some th → th.pc = .psRecheck m →
    s.closed = true ∨ th.consulted = some false

theorem armed_init (w : List Nat) (cap pipe : Nat) (scripts : List (List Cmd)) :
    ArmedInv (Sys.init w cap pipe scripts) := by
  intro t th m hth hpc
  simp only [Sys.init, List.getElem?_map] at hth
  cases hs : scripts[t]? with
  | none => simp [hs] at hth
  | some sc => simp [hs] at hth; subst hth; simp at hpc

theorem armed_step (s s' : Sys) (t : Nat) (o : Out) (hinv : ArmedInv s)
    (h : step true s t = some (s', o)) : ArmedInv s' := by
  intro j thj m hj hpcj
  obtain ⟨hcl, _, hother⟩ := step_frame true s s' t o h
  by_cases hjt : j = t
  · subst hjt
    -- the stepping thread: it reaches `psRecheck` only from `ppClosed` (closed) or a `false` callback
    unfold step at h
    cases hth : s.threads[j]? with
    | none => simp [hth] at h
    | some th =>
      have hlt : j < s.threads.length := (List.getElem?_eq_some_iff.1 hth).1
      simp only [hth] at h
      have getT : ∀ (s0 : Sys) (th' : Thread), s0.threads = s.threads → (setT s0 j th').threads[j]? = some th' := by
        intro s0 th' h1; simp [setT, h1, hlt]
      cases hpc : th.pc with
      | idle =>
        simp only [hpc] at h
        cases hsc : th.script with
        | nil => simp [hsc] at h
        | cons c rest =>
          cases c <;> simp only [hsc, step.stepFlush, step.stepPsClosed] at h
          all_goals (repeat' split at h)
          all_goals (simp only [Option.some.injEq, Prod.mk.injEq] at h; obtain ⟨rfl, _⟩ := h)
          all_goals (rw [getT _ _ (by simp)] at hj; injection hj with hj; subst hj; simp at hpcj)
      | ppClosed m' =>
        simp only [hpc] at h
        split at h
        · rename_i hc
          simp only [if_true] at h
          simp only [Option.some.injEq, Prod.mk.injEq] at h; obtain ⟨rfl, _⟩ := h
          left; simpa [setT] using hc
        · simp only [Option.some.injEq, Prod.mk.injEq] at h; obtain ⟨rfl, _⟩ := h
          rw [getT _ _ rfl] at hj; injection hj with hj; subst hj; simp at hpcj
      | ppCallback m' =>
        simp only [hpc] at h
        repeat' split at h
        all_goals (first | (simp at h; done) | skip)
        all_goals (simp only [Option.some.injEq, Prod.mk.injEq] at h; obtain ⟨rfl, _⟩ := h)
        all_goals (rw [getT _ _ (by simp)] at hj; injection hj with hj; subst hj)
        all_goals (first | (simp at hpcj; done) | (right; rfl))
      | psRecheck m' =>
        simp only [hpc] at h
        repeat' split at h
        all_goals (simp only [Option.some.injEq, Prod.mk.injEq] at h; obtain ⟨rfl, _⟩ := h)
        all_goals (rw [getT _ _ (by simp)] at hj; injection hj with hj; subst hj; simp at hpcj)
      | _ =>
        simp only [hpc, step.stepFlush, step.stepPsClosed] at h
        repeat' split at h
        all_goals (first | (simp at h; done) | skip)
        all_goals (simp only [Option.some.injEq, Prod.mk.injEq] at h; obtain ⟨rfl, _⟩ := h)
        all_goals (rw [getT _ _ (by simp)] at hj; injection hj with hj; subst hj; simp at hpcj)
  · rw [hother j hjt] at hj
    rcases hinv j thj m hj hpcj with hc | hc
    · exact Or.inl (hcl hc)
    · exact Or.inr hc

theorem armed_reachable {w : List Nat} {cap pipe : Nat} {scripts : List (List Cmd)} {s : Sys}
    (hr : Reachable true w cap pipe scripts s) : ArmedInv s := by
  induction hr with
  | init => exact armed_init w cap pipe scripts
  | step _ hs ih => exact armed_step _ _ _ _ ih hs

/-- **C11.pending_means_armed** (code after the `fix:` commit) — in every reachable state of
every interleaving: whenever a non-blocking `poll_signal` returns `Pending`, its readiness
callback was consulted during that very call and its last answer was "nothing available". -/
theorem C11_pending_means_armed {w : List Nat} {cap pipe : Nat} {scripts : List (List Cmd)} {s s' : Sys}
    (hr : Reachable true w cap pipe scripts s) (t : Nat) (th : Thread) (o : Out)
    (hth : s.threads[t]? = some th) (hs : step true s t = some (s', o)) (hret : o.ret = some .pollPending) :
    th.consulted = some false := by
  have hinv := armed_reachable hr
  unfold step at hs
  simp only [hth] at hs
  cases hpc : th.pc with
  | psRecheck m =>
    rcases hinv t th m hth hpc with hc | hc
    · simp [hpc, hc] at hs; obtain ⟨_, rfl⟩ := hs; simp at hret
    · exact hc
  | idle =>
    simp only [hpc] at hs
    cases hsc : th.script with
    | nil => simp [hsc] at hs
    | cons c rest =>
      cases c <;> simp only [hsc, step.stepFlush, step.stepPsClosed] at hs
      all_goals (repeat' split at hs)
      all_goals (simp only [Option.some.injEq, Prod.mk.injEq] at hs; obtain ⟨_, rfl⟩ := hs; simp at hret)
  | _ =>
    simp only [hpc, step.stepFlush, step.stepPsClosed, ↓reduceIte] at hs
    repeat' split at hs
    all_goals (first | (simp at hs; done) | skip)
    all_goals (simp only [Option.some.injEq, Prod.mk.injEq] at hs; obtain ⟨_, rfl⟩ := hs; simp at hret)

/-! ## The defect of the code before the fix, as a theorem about the old shape of `poll_signal` -/

def runSched (recheck : Bool) : Sys → List Nat → Sys × List Out
  | s, [] => (s, [])
  | s, t :: rest => match step recheck s t with
    | none => (s, [])
    | some (s', o) => let r := runSched recheck s' rest; (r.1, o :: r.2)

/-- one poller (its iterator exhausted), one `close()` -/
def strandScripts : List (List Cmd) := [[.poll], [.close]]
def strandInit : Sys :=
  let s := Sys.init [10] 278 0 strandScripts
  { s with threads := s.threads.map (fun th => { th with iterPos := maxSig }) }

/-- **C11.pending_without_callback_before_fix** — with the old `poll_signal` (no re-check):
the poller reads `closed = false`, `close()` sets the flag, `poll_pending` reads `closed = true`
and returns `None` without consulting the callback, and `poll_signal` answers `Pending`:
3 steps, callback never consulted. -/
theorem C11_pending_without_callback_before_fix :
    let r := runSched false strandInit [0, 1, 0]
    (r.2.map (·.ret)) = [none, none, some .pollPending] ∧
    (r.1.threads[0]?.map (·.consulted)) = some none := by decide

/-- the same schedule on the fixed shape answers `Closed` -/
theorem C11_same_schedule_after_fix :
    ((runSched true strandInit [0, 1, 0, 0]).2.map (·.ret)) = [none, none, none, some .pollClosed] := by decide

/-- tie: the source currently has the fixed shape -/
theorem C11_source_rechecks : Gen.pollRechecksClosed = true := by decide


/-- **C11.close_and_poll_skeleton** — tie to the source (regenerated): `close()` stores the flag
and then wakes; `poll_pending` checks the flag before asking the callback; `poll_signal` checks it
before each round and again after a `None` from `poll_pending`. -/
theorem C11_close_and_poll_skeleton :
    skelOf backendFile "close" = ["closed.store", "wake"] ∧
    skelOf backendFile "poll_pending" = ["is_closed", "has_signals", "pending"] ∧
    skelOf backendFile "poll_signal" = ["is_closed", "iter.next", "poll_pending", "is_closed"] := by decide

/-- **C11.adapter_skeleton** — tie to the source (regenerated) of the async adapters: `poll_next` of
signal-hook-tokio and signal-hook-async-std is one `poll_signal` whose readiness callback is one
`poll_read` of one byte *with the task's context* (so that an answer of "nothing" has registered the
task's waker with the reactor) and maps Signal / Closed / Pending to Ready(Some) / Ready(None) / Pending
with nothing in between - no cached answer, no early return. Together with `C11_pending_means_armed`
(Pending only after the callback answered "nothing" in this very call) this is why a `Pending` stream is
woken by the next signal or by `close()`. -/
theorem C11_adapter_skeleton :
    skelOf "signal-hook-tokio/src/lib.rs" "has_signals" = ["poll_read", "pending.false", "ready.true", "ready.err"] ∧
    skelOf "signal-hook-async-std/src/lib.rs" "has_signals" = ["poll_read", "pending.false", "ready.true", "ready.err"] ∧
    skelOf "signal-hook-tokio/src/lib.rs" "poll_next" =
      ["poll_signal.has_signals", "signal.some", "closed.none", "pending.pending", "err.panic"] ∧
    skelOf "signal-hook-async-std/src/lib.rs" "poll_next" =
      ["poll_signal.has_signals", "signal.some", "closed.none", "pending.pending", "err.panic"] := by decide

end SigHook.Iter
