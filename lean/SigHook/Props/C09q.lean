import SigHook.Lemmas.IterQ
/-!
# C09 for the queueing exfiltrators (`WithRawSiginfo`, `WithOrigin`) — model L8q

> … The consumer is never left blocked on the self-pipe, or parked as 'pending', while a delivered
> signal is still unreported and no wake-up byte or readiness notification is outstanding.

The invariant of `Props/C09.lean` carried over to per-signal queues: a *queued record* whose delivery
has completed its wake-up is announced by a byte in the pipe, or the instance is closed, or the
consumer is at a point from which it will `recv` on that record's slot before it can block or answer
`Pending` (`covers`). Any number of delivery and `close` threads, one consumer of either family,
every interleaving, bursts of any length.
-/
namespace SigHook.IterQ
open SigHook
open SigHook.Iter (Cmd Mode)

inductive Style where | A | B
deriving DecidableEq

def cmdIn : Style → Cmd → Bool
  | .A, .pending | .A, .wait | .B, .poll | .B, .forever => true
  | _, _ => false

def modeIn : Style → Mode → Bool
  | .A, .pending | .A, .wait | .B, .poll | .B, .forever => true
  | _, _ => false

def Pc.inStyle (st : Style) : Pc → Bool
  | .idle => true
  | .flush m => modeIn st m
  | .scan m _ | .scanFin m _ _ => modeIn st m && st == .A
  | .psClosed m | .psNext m | .psFin m _ | .ppClosed m | .psRecheck m => modeIn st m && st == .B
  | .ppCallback m => modeIn st m && (st == .B || m == .wait)
  | .dEnq _ _ | .dWake _ _ | .cWake => false

def Thread.styleB (th : Thread) : Bool := th.script.all (fun c => c == .poll || c == .forever)

/-- from where the consumer is, it will `recv` on the slot of `sig` before it can block on the pipe or
answer `Pending` -/
def covers (th : Thread) (sig : Nat) : Bool :=
  match th.pc with
  | .flush _ => true
  | .scan _ pos => pos ≤ sig
  | .scanFin _ pos _ => pos ≤ sig
  | .psClosed _ | .psNext _ | .psFin _ _ => th.iterPos ≤ sig
  | .idle => th.styleB && th.iterPos ≤ sig
  | _ => false

/-- a producer whose deliveries are of signals below `MAX_SIGNUM` -/
def Thread.prodOk (th : Thread) : Prop :=
  th.producer ∧ (∀ sg, Cmd.deliver sg ∈ th.script → sg < maxSig) ∧ (∀ sg i, th.pc = .dEnq sg i → sg < maxSig)

structure WakeQ (c : Nat) (st : Style) (s : Sys) : Prop where
  consumer : ∀ th, s.threads[c]? = some th → (∀ cmd ∈ th.script, cmdIn st cmd = true) ∧ th.pc.inStyle st = true
  others : ∀ (t : Nat) (th : Thread), t ≠ c → s.threads[t]? = some th → th.prodOk
  capPos : 0 < s.cap
  inRange : ∀ r ∈ s.q, r.1 < maxSig
  announced : ∀ r ∈ s.q, r.2 ∈ s.woken →
    s.closed = true ∨ 0 < s.pipe ∨ ∃ th, s.threads[c]? = some th ∧ covers th r.1 = true

/-- **C09.queue_no_lost_wakeup** — in every state satisfying the invariant: if the consumer is blocked in
its blocking read (pipe empty) or is about to answer / has just answered `Pending` because the
non-blocking callback found nothing, and the instance is open, then no record whose delivery has
completed its wake-up is still queued. -/
theorem C09_queue_no_lost_wakeup (c : Nat) (st : Style) (s : Sys) (hinv : WakeQ c st s) (th : Thread)
    (hth : s.threads[c]? = some th) (m : Mode)
    (hpc : th.pc = .ppCallback m ∨ th.pc = .psRecheck m ∨ th.pc = .ppClosed m)
    (hopen : s.closed = false) (hpipe : s.pipe = 0) (r : Rec) (hq : r ∈ s.q) : r.2 ∉ s.woken := by
  intro hin
  rcases hinv.announced r hq hin with h | h | ⟨th', hth', hc⟩
  · rw [hopen] at h; cases h
  · omega
  · rw [hth] at hth'; injection hth' with e; subst e
    rcases hpc with h | h | h <;> simp [covers, h] at hc

theorem getElem?_setT (s0 : Sys) (t j : Nat) (th' : Thread) (ht : t < s0.threads.length) :
    (setT s0 t th').threads[j]? = if t = j then some th' else s0.threads[j]? := by
  simp only [setT, List.getElem?_set]
  split
  · simp [ht]
  · rfl

theorem wake_pos (pipe cap : Nat) (h : 0 < cap) : 0 < (if pipe < cap then pipe + 1 else pipe) := by
  split <;> omega

theorem head_none_ne (q : List Rec) (sig : Nat) (r : Rec) (h : headOf q sig = none) (hr : r ∈ q) : r.1 ≠ sig := by
  intro e
  have := head_none q sig h
  have hm : r ∈ qOf q sig := by simp [qOf, hr, e]
  rw [this] at hm; cases hm

/-- a step of a producer thread (a delivery or a `close`) preserves the invariant -/
theorem wakeq_step_producer (rc : Bool) (c : Nat) (st : Style) (s s' : Sys) (t : Nat) (o : Out) (hinv : WakeQ c st s)
    (hcar : CarryInv s) (htc : t ≠ c) (h : step rc s t = some (s', o)) : WakeQ c st s' := by
  unfold step at h
  cases hth : s.threads[t]? with
  | none => simp [hth] at h
  | some th =>
    have hlt : t < s.threads.length := (List.getElem?_eq_some_iff.1 hth).1
    obtain ⟨⟨hpcs, hprod⟩, hlim, hlim2⟩ := hinv.others t th htc hth
    simp only [hth] at h
    have hc_same : ∀ (s0 : Sys) (th' : Thread), s0.threads = s.threads → (setT s0 t th').threads[c]? = s.threads[c]? := by
      intro s0 th' h1; rw [getElem?_setT _ _ _ _ (by rw [h1]; exact hlt)]; simp [htc, h1]
    have hothers : ∀ (s0 : Sys) (th' : Thread), s0.threads = s.threads → th'.prodOk →
        ∀ (j : Nat) (thj : Thread), j ≠ c → (setT s0 t th').threads[j]? = some thj → thj.prodOk := by
      intro s0 th' h1 hp j thj hj hget
      rw [getElem?_setT _ _ _ _ (by rw [h1]; exact hlt)] at hget
      split at hget
      · injection hget with e; subst e; exact hp
      · rw [h1] at hget; exact hinv.others j thj hj hget
    have hcons : ∀ (s0 : Sys) (th' : Thread), s0.threads = s.threads →
        ∀ thc, (setT s0 t th').threads[c]? = some thc → (∀ cmd ∈ thc.script, cmdIn st cmd = true) ∧ thc.pc.inStyle st = true := by
      intro s0 th' h1 thc hget; rw [hc_same s0 th' h1] at hget; exact hinv.consumer thc hget
    -- the announcements survive when the queue, the woken ids, the pipe and the flag do
    have keepAnn : ∀ (s0 : Sys) (th' : Thread), s0.threads = s.threads → s0.q = s.q → s0.woken = s.woken →
        s0.pipe = s.pipe → (s.closed = true → s0.closed = true) →
        ∀ r ∈ (setT s0 t th').q, r.2 ∈ (setT s0 t th').woken →
          (setT s0 t th').closed = true ∨ 0 < (setT s0 t th').pipe ∨
            ∃ thc, (setT s0 t th').threads[c]? = some thc ∧ covers thc r.1 = true := by
      intro s0 th' h1 h2 h3 h4 h5 r hr hw
      simp only [setT] at hr hw ⊢
      rw [h2] at hr; rw [h3] at hw
      rcases hinv.announced r hr hw with ha | ha | ⟨thc, hthc, hcov⟩
      · exact Or.inl (h5 ha)
      · exact Or.inr (Or.inl (by rw [h4]; exact ha))
      · exact Or.inr (Or.inr ⟨thc, (hc_same s0 th' h1).trans hthc, hcov⟩)
    rcases hpcs with hpc | ⟨sg, i, hpc⟩ | ⟨sg, i, hpc⟩ | hpc
    · -- idle: next command is deliver or close
      simp only [hpc] at h
      cases hsc : th.script with
      | nil => simp [hsc] at h
      | cons cmd rest =>
        have hrest : (∀ c ∈ rest, c = Cmd.close ∨ ∃ sg, c = Cmd.deliver sg) ∧ (∀ sg, Cmd.deliver sg ∈ rest → sg < maxSig) :=
          ⟨fun c hc => hprod c (by rw [hsc]; exact List.mem_cons_of_mem _ hc),
           fun sg hs => hlim sg (by rw [hsc]; exact List.mem_cons_of_mem _ hs)⟩
        rcases hprod cmd (by rw [hsc]; simp) with rfl | ⟨sig, rfl⟩
        · -- close
          simp only [hsc, Option.some.injEq, Prod.mk.injEq] at h; obtain ⟨rfl, _⟩ := h
          refine ⟨hcons _ _ rfl, hothers _ _ rfl ⟨⟨Or.inr (Or.inr (Or.inr rfl)), hrest.1⟩, hrest.2, by intro sg i hx; cases hx⟩,
            hinv.capPos, hinv.inRange, fun _ _ _ => Or.inl rfl⟩
        · have hsig : sig < maxSig := hlim sig (by rw [hsc]; simp)
          simp only [hsc] at h
          split at h
          · simp only [Option.some.injEq, Prod.mk.injEq] at h; obtain ⟨rfl, _⟩ := h
            refine ⟨hcons _ _ rfl, hothers _ _ rfl ⟨⟨Or.inr (Or.inl ⟨_, _, rfl⟩), hrest.1⟩, hrest.2, ?_⟩,
              hinv.capPos, hinv.inRange, keepAnn _ _ rfl rfl rfl rfl id⟩
            intro sg i hx; simp only [Pc.dEnq.injEq] at hx; rw [← hx.1]; exact hsig
          · simp only [Option.some.injEq, Prod.mk.injEq] at h; obtain ⟨rfl, _⟩ := h
            refine ⟨hcons _ _ rfl, hothers _ _ rfl ⟨⟨Or.inr (Or.inr (Or.inl ⟨_, _, rfl⟩)), hrest.1⟩, hrest.2, by intro sg i hx; cases hx⟩,
              hinv.capPos, hinv.inRange, keepAnn _ _ rfl rfl rfl rfl id⟩
    · -- the second half of a send: the record is queued, its wake-up is still to come
      have hsg : sg < maxSig := hlim2 sg i hpc
      have hnw : i ∉ s.woken := (hcar.carryOk t th i hth (by simp [carry, hpc])).2
      simp only [hpc, Option.some.injEq, Prod.mk.injEq] at h; obtain ⟨rfl, _⟩ := h
      refine ⟨hcons _ _ rfl, hothers _ _ rfl ⟨⟨Or.inr (Or.inr (Or.inl ⟨_, _, rfl⟩)), hprod⟩, hlim, by intro sg i hx; cases hx⟩,
        hinv.capPos, ?_, ?_⟩
      · intro r hr
        simp only [setT, List.mem_append, List.mem_singleton] at hr
        rcases hr with hr | rfl
        · exact hinv.inRange r hr
        · exact hsg
      · intro r hr hw
        simp only [setT, List.mem_append, List.mem_singleton] at hr hw ⊢
        rcases hr with hr | rfl
        · rcases hinv.announced r hr hw with ha | ha | ⟨thc, hthc, hcov⟩
          · exact Or.inl ha
          · exact Or.inr (Or.inl ha)
          · exact Or.inr (Or.inr ⟨thc, (hc_same _ _ rfl).trans hthc, hcov⟩)
        · exact absurd hw hnw
    · -- the wake of a delivery: afterwards the pipe is not empty
      simp only [hpc, Option.some.injEq, Prod.mk.injEq] at h; obtain ⟨rfl, _⟩ := h
      refine ⟨hcons _ _ rfl, hothers _ _ rfl ⟨⟨Or.inl rfl, hprod⟩, hlim, by intro sg i hx; cases hx⟩,
        hinv.capPos, hinv.inRange, ?_⟩
      intro r _ _
      exact Or.inr (Or.inl (by simp only [setT]; exact wake_pos _ _ hinv.capPos))
    · -- the wake of a close
      simp only [hpc, Option.some.injEq, Prod.mk.injEq] at h; obtain ⟨rfl, _⟩ := h
      refine ⟨hcons _ _ rfl, hothers _ _ rfl ⟨⟨Or.inl rfl, hprod⟩, hlim, by intro sg i hx; cases hx⟩,
        hinv.capPos, hinv.inRange, ?_⟩
      intro r _ _
      exact Or.inr (Or.inl (by simp only [setT]; exact wake_pos _ _ hinv.capPos))

/-- the general shape of a consumer step's effect, and why it keeps the invariant -/
theorem wakeq_transfer (c : Nat) (st : Style) (s s0 : Sys) (th th' : Thread) (hinv : WakeQ c st s)
    (hth : s.threads[c]? = some th)
    (hthreads : s0.threads = s.threads) (hcap : s0.cap = s.cap) (hwoken : s0.woken = s.woken)
    (hstyle : (∀ cmd ∈ th'.script, cmdIn st cmd = true) ∧ th'.pc.inStyle st = true)
    (hsub : ∀ r ∈ s0.q, r ∈ s.q)
    (hclosed : s.closed = true → s0.closed = true)
    (hkeep : ∀ r ∈ s0.q, r.1 < maxSig →
      s0.closed = true ∨
      ((0 < s.pipe → 0 < s0.pipe ∨ covers th' r.1 = true) ∧
       (covers th r.1 = true → 0 < s0.pipe ∨ covers th' r.1 = true))) :
    WakeQ c st (setT s0 c th') := by
  have hlt : c < s.threads.length := (List.getElem?_eq_some_iff.1 hth).1
  have hget : ∀ j, (setT s0 c th').threads[j]? = if c = j then some th' else s.threads[j]? := by
    intro j; rw [getElem?_setT _ _ _ _ (by rw [hthreads]; exact hlt), hthreads]
  refine ⟨?_, ?_, by simp only [setT]; rw [hcap]; exact hinv.capPos, ?_, ?_⟩
  · intro thc hc; rw [hget c] at hc; simp at hc; subst hc; exact hstyle
  · intro j thj hj hc; rw [hget j] at hc; simp [Ne.symm hj] at hc; exact hinv.others j thj hj hc
  · intro r hr; exact hinv.inRange r (hsub r hr)
  · intro r hr hw
    simp only [setT] at hr hw
    rw [hwoken] at hw
    have hold := hsub r hr
    rcases hkeep r hr (hinv.inRange r hold) with hcl | ⟨hp, hc⟩
    · exact Or.inl hcl
    · rcases hinv.announced r hold hw with h | h | ⟨thc, hthc, hcov⟩
      · exact Or.inl (hclosed h)
      · rcases hp h with h' | h'
        · exact Or.inr (Or.inl h')
        · exact Or.inr (Or.inr ⟨th', by rw [hget c]; simp, h'⟩)
      · rw [hth] at hthc; injection hthc with e; subst e
        rcases hc hcov with h' | h'
        · exact Or.inr (Or.inl h')
        · exact Or.inr (Or.inr ⟨th', by rw [hget c]; simp, h'⟩)

theorem styleB_of (script : List Cmd) (h : ∀ cmd ∈ script, cmdIn .B cmd = true) :
    script.all (fun c => c == .poll || c == .forever) = true := by
  rw [List.all_eq_true]
  intro cmd hc
  have := h cmd hc
  cases cmd <;> simp [cmdIn] at this ⊢

/-- a step of the consumer preserves the invariant -/
theorem wakeq_step_consumer (rc : Bool) (c : Nat) (st : Style) (s s' : Sys) (o : Out) (hinv : WakeQ c st s)
    (h : step rc s c = some (s', o)) : WakeQ c st s' := by
  unfold step at h
  cases hth : s.threads[c]? with
  | none => simp [hth] at h
  | some th =>
    obtain ⟨hscript, hpcst⟩ := hinv.consumer th hth
    simp only [hth] at h
    have same : ∀ r ∈ s.q, r ∈ s.q := fun _ hr => hr
    cases hpc : th.pc with
    | dEnq sg i => rw [hpc] at hpcst; cases hpcst
    | dWake sg i => rw [hpc] at hpcst; cases hpcst
    | cWake => rw [hpc] at hpcst; cases hpcst
    | idle =>
      simp only [hpc] at h
      cases hsc : th.script with
      | nil => simp [hsc] at h
      | cons cmd rest =>
        have hrest : ∀ cmd ∈ rest, cmdIn st cmd = true := fun x hx => hscript x (by rw [hsc]; exact List.mem_cons_of_mem _ hx)
        have hcmd : cmdIn st cmd = true := hscript cmd (by rw [hsc]; simp)
        cases cmd with
        | deliver sg => cases st <;> cases hcmd
        | close => cases st <;> cases hcmd
        | pending =>
          have hst : st = .A := by cases st <;> first | rfl | cases hcmd
          subst hst
          simp only [hsc, step.stepFlush] at h
          split at h
          · simp only [Option.some.injEq, Prod.mk.injEq] at h; obtain ⟨rfl, _⟩ := h
            exact wakeq_transfer c .A s _ th _ hinv hth rfl rfl rfl ⟨hrest, rfl⟩ same id
              (fun r _ _ => Or.inr ⟨fun _ => Or.inr rfl, fun _ => Or.inr rfl⟩)
          · simp only [Option.some.injEq, Prod.mk.injEq] at h; obtain ⟨rfl, _⟩ := h
            exact wakeq_transfer c .A s _ th _ hinv hth rfl rfl rfl ⟨hrest, rfl⟩ same id
              (fun r _ _ => Or.inr ⟨fun _ => Or.inr (by simp [covers]), fun _ => Or.inr (by simp [covers])⟩)
        | wait =>
          have hst : st = .A := by cases st <;> first | rfl | cases hcmd
          subst hst
          simp only [hsc, Option.some.injEq, Prod.mk.injEq] at h; obtain ⟨rfl, _⟩ := h
          refine wakeq_transfer c .A s _ th _ hinv hth rfl rfl rfl ⟨hrest, by split <;> rfl⟩ same id ?_
          intro r _ _
          by_cases hc : s.closed = true
          · exact Or.inl hc
          · refine Or.inr ⟨fun hp => Or.inl hp, fun hcov => ?_⟩
            simp [covers, hpc, Thread.styleB, hsc] at hcov
        | poll =>
          have hst : st = .B := by cases st <;> first | rfl | cases hcmd
          subst hst
          simp only [hsc, step.stepPsClosed] at h
          split at h
          · rename_i hcl
            simp only [Option.some.injEq, Prod.mk.injEq] at h; obtain ⟨rfl, _⟩ := h
            exact wakeq_transfer c .B s _ th _ hinv hth rfl rfl rfl ⟨hrest, rfl⟩ same id (fun _ _ _ => Or.inl hcl)
          · simp only [Option.some.injEq, Prod.mk.injEq] at h; obtain ⟨rfl, _⟩ := h
            refine wakeq_transfer c .B s _ th _ hinv hth rfl rfl rfl ⟨hrest, by split <;> rfl⟩ same id ?_
            intro r _ hlt
            refine Or.inr ⟨fun hp => Or.inl hp, fun hcov => Or.inr ?_⟩
            simp only [covers, hpc, Bool.and_eq_true, decide_eq_true_eq] at hcov
            have : th.iterPos < maxSig := by omega
            simp [covers, this, hcov.2]
        | forever =>
          have hst : st = .B := by cases st <;> first | rfl | cases hcmd
          subst hst
          simp only [hsc, step.stepPsClosed] at h
          split at h
          · rename_i hcl
            simp only [Option.some.injEq, Prod.mk.injEq] at h; obtain ⟨rfl, _⟩ := h
            exact wakeq_transfer c .B s _ th _ hinv hth rfl rfl rfl ⟨hrest, rfl⟩ same id (fun _ _ _ => Or.inl hcl)
          · simp only [Option.some.injEq, Prod.mk.injEq] at h; obtain ⟨rfl, _⟩ := h
            refine wakeq_transfer c .B s _ th _ hinv hth rfl rfl rfl ⟨hrest, by split <;> rfl⟩ same id ?_
            intro r _ hlt
            refine Or.inr ⟨fun hp => Or.inl hp, fun hcov => Or.inr ?_⟩
            simp only [covers, hpc, Bool.and_eq_true, decide_eq_true_eq] at hcov
            have : th.iterPos < maxSig := by omega
            simp [covers, this, hcov.2]
    | flush m =>
      simp only [hpc, step.stepFlush] at h
      have hm : modeIn st m = true := by rw [hpc] at hpcst; exact hpcst
      split at h
      · simp only [Option.some.injEq, Prod.mk.injEq] at h; obtain ⟨rfl, _⟩ := h
        exact wakeq_transfer c st s _ th _ hinv hth rfl rfl rfl ⟨hscript, hm⟩ same id
          (fun r _ _ => Or.inr ⟨fun _ => Or.inr rfl, fun _ => Or.inr rfl⟩)
      · cases m with
        | pending | wait =>
          simp only [Option.some.injEq, Prod.mk.injEq] at h; obtain ⟨rfl, _⟩ := h
          refine wakeq_transfer c st s _ th _ hinv hth rfl rfl rfl ⟨hscript, ?_⟩ same id
            (fun r _ _ => Or.inr ⟨fun _ => Or.inr (by simp [covers]), fun _ => Or.inr (by simp [covers])⟩)
          cases st <;> simp_all [Pc.inStyle, modeIn]
        | poll | forever =>
          simp only [Option.some.injEq, Prod.mk.injEq] at h; obtain ⟨rfl, _⟩ := h
          refine wakeq_transfer c st s _ th _ hinv hth rfl rfl rfl ⟨hscript, ?_⟩ same id
            (fun r _ _ => Or.inr ⟨fun _ => Or.inr (by simp [covers]), fun _ => Or.inr (by simp [covers])⟩)
          cases st <;> simp_all [Pc.inStyle, modeIn]
    | scan m pos =>
      have hm : modeIn st m = true ∧ st = .A := by
        rw [hpc] at hpcst; simp only [Pc.inStyle, Bool.and_eq_true, beq_iff_eq] at hpcst; exact hpcst
      obtain ⟨hm, rfl⟩ := hm
      simp only [hpc] at h
      split at h
      · rename_i hlt
        cases hh : headOf s.q pos with
        | some r0 =>
          simp only [hh, Option.some.injEq, Prod.mk.injEq] at h; obtain ⟨rfl, _⟩ := h
          refine wakeq_transfer c .A s _ th _ hinv hth rfl rfl rfl ⟨hscript, by simp [Pc.inStyle, hm]⟩ ?_ id ?_
          · intro r hr; exact List.mem_of_mem_erase hr
          · intro r _ _
            exact Or.inr ⟨fun hp => Or.inl hp, fun hcov => Or.inr (by simpa [covers, hpc] using hcov)⟩
        | none =>
          simp only [hh, Option.some.injEq, Prod.mk.injEq] at h; obtain ⟨rfl, _⟩ := h
          refine wakeq_transfer c .A s _ th _ hinv hth rfl rfl rfl ⟨hscript, by split <;> simp [Pc.inStyle, hm]⟩ same id ?_
          intro r hr hsl
          have hne : r.1 ≠ pos := head_none_ne s.q pos r hh hr
          refine Or.inr ⟨fun hp => Or.inl hp, fun hcov => ?_⟩
          simp only [covers, hpc, decide_eq_true_eq] at hcov
          by_cases hlast : pos + 1 = maxSig
          · exfalso; omega
          · right; simp [hlast, covers]; omega
      · rename_i hge
        simp only [Option.some.injEq, Prod.mk.injEq] at h; obtain ⟨rfl, _⟩ := h
        refine wakeq_transfer c .A s _ th _ hinv hth rfl rfl rfl ⟨hscript, rfl⟩ same id ?_
        intro r _ hsl
        refine Or.inr ⟨fun hp => Or.inl hp, fun hcov => ?_⟩
        simp only [covers, hpc, decide_eq_true_eq] at hcov
        exfalso; omega
    | scanFin m pos i =>
      have hm : modeIn st m = true ∧ st = .A := by
        rw [hpc] at hpcst; simp only [Pc.inStyle, Bool.and_eq_true, beq_iff_eq] at hpcst; exact hpcst
      obtain ⟨hm, rfl⟩ := hm
      simp only [hpc, Option.some.injEq, Prod.mk.injEq] at h; obtain ⟨rfl, _⟩ := h
      refine wakeq_transfer c .A s _ th _ hinv hth rfl rfl rfl ⟨hscript, by simp [Pc.inStyle, hm]⟩ same id ?_
      intro r _ _
      exact Or.inr ⟨fun hp => Or.inl hp, fun hcov => Or.inr (by simpa [covers, hpc] using hcov)⟩
    | psClosed m =>
      have hm : modeIn st m = true ∧ st = .B := by
        rw [hpc] at hpcst; simp only [Pc.inStyle, Bool.and_eq_true, beq_iff_eq] at hpcst; exact hpcst
      obtain ⟨hm, rfl⟩ := hm
      simp only [hpc, step.stepPsClosed] at h
      split at h
      · rename_i hcl
        simp only [Option.some.injEq, Prod.mk.injEq] at h; obtain ⟨rfl, _⟩ := h
        exact wakeq_transfer c .B s _ th _ hinv hth rfl rfl rfl ⟨hscript, rfl⟩ same id (fun _ _ _ => Or.inl hcl)
      · simp only [Option.some.injEq, Prod.mk.injEq] at h; obtain ⟨rfl, _⟩ := h
        refine wakeq_transfer c .B s _ th _ hinv hth rfl rfl rfl ⟨hscript, by split <;> simp [Pc.inStyle, hm]⟩ same id ?_
        intro r _ hlt
        refine Or.inr ⟨fun hp => Or.inl hp, fun hcov => Or.inr ?_⟩
        simp only [covers, hpc, decide_eq_true_eq] at hcov
        have : th.iterPos < maxSig := by omega
        simp [covers, this, hcov]
    | psNext m =>
      have hm : modeIn st m = true ∧ st = .B := by
        rw [hpc] at hpcst; simp only [Pc.inStyle, Bool.and_eq_true, beq_iff_eq] at hpcst; exact hpcst
      obtain ⟨hm, rfl⟩ := hm
      simp only [hpc] at h
      cases hh : headOf s.q th.iterPos with
      | some r0 =>
        simp only [hh, Option.some.injEq, Prod.mk.injEq] at h; obtain ⟨rfl, _⟩ := h
        refine wakeq_transfer c .B s _ th _ hinv hth rfl rfl rfl ⟨hscript, by simp [Pc.inStyle, hm]⟩ ?_ id ?_
        · intro r hr; exact List.mem_of_mem_erase hr
        · intro r _ _
          exact Or.inr ⟨fun hp => Or.inl hp, fun hcov => Or.inr (by simpa [covers, hpc] using hcov)⟩
      | none =>
        simp only [hh, Option.some.injEq, Prod.mk.injEq] at h; obtain ⟨rfl, _⟩ := h
        refine wakeq_transfer c .B s _ th _ hinv hth rfl rfl rfl ⟨hscript, by split <;> simp [Pc.inStyle, hm]⟩ same id ?_
        intro r hr hsl
        have hne : r.1 ≠ th.iterPos := head_none_ne s.q th.iterPos r hh hr
        refine Or.inr ⟨fun hp => Or.inl hp, fun hcov => ?_⟩
        simp only [covers, hpc, decide_eq_true_eq] at hcov
        by_cases hlast : th.iterPos + 1 < maxSig
        · right; simp [hlast, covers]; omega
        · exfalso; omega
    | psFin m i =>
      have hm : modeIn st m = true ∧ st = .B := by
        rw [hpc] at hpcst; simp only [Pc.inStyle, Bool.and_eq_true, beq_iff_eq] at hpcst; exact hpcst
      obtain ⟨hm, rfl⟩ := hm
      have hB := styleB_of th.script hscript
      simp only [hpc] at h
      cases m with
      | forever =>
        simp only [Option.some.injEq, Prod.mk.injEq] at h; obtain ⟨rfl, _⟩ := h
        refine wakeq_transfer c .B s _ th _ hinv hth rfl rfl rfl ⟨hscript, by simp [Pc.inStyle, modeIn]⟩ same id ?_
        intro r _ _
        exact Or.inr ⟨fun hp => Or.inl hp, fun hcov => Or.inr (by simpa [covers, hpc] using hcov)⟩
      | pending | wait | poll =>
        simp only [Option.some.injEq, Prod.mk.injEq] at h; obtain ⟨rfl, _⟩ := h
        refine wakeq_transfer c .B s _ th _ hinv hth rfl rfl rfl ⟨hscript, rfl⟩ same id ?_
        intro r _ _
        refine Or.inr ⟨fun hp => Or.inl hp, fun hcov => Or.inr ?_⟩
        simp only [covers, hpc, decide_eq_true_eq] at hcov
        simp [covers, Thread.styleB, hB, hcov]
    | ppClosed m =>
      have hm : modeIn st m = true ∧ st = .B := by
        rw [hpc] at hpcst; simp only [Pc.inStyle, Bool.and_eq_true, beq_iff_eq] at hpcst; exact hpcst
      obtain ⟨hm, rfl⟩ := hm
      simp only [hpc] at h
      split at h
      · rename_i hcl
        have key : ∀ (th' : Thread), th'.script = th.script → th'.pc.inStyle .B = true →
            WakeQ c .B (setT s c th') := fun th' e1 e2 =>
          wakeq_transfer c .B s _ th _ hinv hth rfl rfl rfl ⟨by rw [e1]; exact hscript, e2⟩ same id (fun _ _ _ => Or.inl hcl)
        repeat' split at h
        all_goals (simp only [Option.some.injEq, Prod.mk.injEq] at h; obtain ⟨rfl, _⟩ := h)
        all_goals (apply key <;> simp [Pc.inStyle, hm])
      · simp only [Option.some.injEq, Prod.mk.injEq] at h; obtain ⟨rfl, _⟩ := h
        refine wakeq_transfer c .B s _ th _ hinv hth rfl rfl rfl ⟨hscript, by simp [Pc.inStyle, hm]⟩ same id ?_
        intro r _ _
        exact Or.inr ⟨fun hp => Or.inl hp, fun hcov => by simp [covers, hpc] at hcov⟩
    | ppCallback m =>
      have hm : modeIn st m = true := by
        rw [hpc] at hpcst; simp only [Pc.inStyle, Bool.and_eq_true] at hpcst; exact hpcst.1
      simp only [hpc] at h
      have toFlush : ∀ (s0 : Sys) (th' : Thread), s0 = { s with pipe := s.pipe - 1 } → th'.script = th.script →
          th'.pc = .flush m → WakeQ c st (setT s0 c th') := by
        intro s0 th' e0 e1 e2
        subst e0
        refine wakeq_transfer c st s _ th th' hinv hth rfl rfl rfl ⟨by rw [e1]; exact hscript, by rw [e2]; exact hm⟩ same id ?_
        intro r _ _
        exact Or.inr ⟨fun _ => Or.inr (by simp [covers, e2]), fun _ => Or.inr (by simp [covers, e2])⟩
      have noCover : ∀ sig, covers th sig = false := by intro sig; simp [covers, hpc]
      have toParked : ∀ (th' : Thread), th'.script = th.script → th'.pc.inStyle st = true → s.pipe = 0 →
          WakeQ c st (setT s c th') := by
        intro th' e1 e2 hp0
        refine wakeq_transfer c st s _ th th' hinv hth rfl rfl rfl ⟨by rw [e1]; exact hscript, e2⟩ same id ?_
        intro r _ _
        exact Or.inr ⟨fun hp => by omega, fun hcov => by rw [noCover r.1] at hcov; cases hcov⟩
      repeat' split at h
      all_goals (first | (simp at h; done) | skip)
      all_goals (simp only [Option.some.injEq, Prod.mk.injEq] at h; obtain ⟨rfl, _⟩ := h)
      all_goals first
        | (apply toFlush <;> rfl)
        | (apply toParked <;> first | rfl | assumption | (cases st <;> cases m <;> simp_all [Pc.inStyle, modeIn, blocking]))
    | psRecheck m =>
      have hm : modeIn st m = true ∧ st = .B := by
        rw [hpc] at hpcst; simp only [Pc.inStyle, Bool.and_eq_true, beq_iff_eq] at hpcst; exact hpcst
      obtain ⟨hm, rfl⟩ := hm
      simp only [hpc] at h
      have noCover : ∀ sig, covers th sig = false := by intro sig; simp [covers, hpc]
      split at h
      · rename_i hcl
        simp only [Option.some.injEq, Prod.mk.injEq] at h; obtain ⟨rfl, _⟩ := h
        exact wakeq_transfer c .B s _ th _ hinv hth rfl rfl rfl ⟨hscript, rfl⟩ same id (fun _ _ _ => Or.inl hcl)
      · have key : ∀ (th' : Thread), th'.script = th.script → th'.pc.inStyle .B = true →
            WakeQ c .B (setT s c th') := fun th' e1 e2 =>
          wakeq_transfer c .B s _ th _ hinv hth rfl rfl rfl ⟨by rw [e1]; exact hscript, e2⟩ same id
            (fun r _ _ => Or.inr ⟨fun hp => Or.inl hp, fun hcov => by rw [noCover r.1] at hcov; cases hcov⟩)
        split at h
        all_goals (simp only [Option.some.injEq, Prod.mk.injEq] at h; obtain ⟨rfl, _⟩ := h)
        all_goals (apply key <;> simp [Pc.inStyle, hm])

theorem wakeq_step (rc : Bool) (c : Nat) (st : Style) (s s' : Sys) (t : Nat) (o : Out) (hinv : WakeQ c st s)
    (hcar : CarryInv s) (h : step rc s t = some (s', o)) : WakeQ c st s' := by
  by_cases htc : t = c
  · subst htc; exact wakeq_step_consumer rc t st s s' o hinv h
  · exact wakeq_step_producer rc c st s s' t o hinv hcar htc h

/-- what the scripts must look like: thread `c` is the (only) consumer and uses one front-end family;
every other thread only delivers signals below `MAX_SIGNUM` or closes -/
structure GoodScripts (c : Nat) (st : Style) (scripts : List (List Cmd)) : Prop where
  consumer : ∀ sc, scripts[c]? = some sc → ∀ cmd ∈ sc, cmdIn st cmd = true
  others : ∀ (t : Nat) (sc : List Cmd), t ≠ c → scripts[t]? = some sc →
    (∀ cmd ∈ sc, cmd = .close ∨ ∃ sg, cmd = .deliver sg) ∧ (∀ sg, Cmd.deliver sg ∈ sc → sg < maxSig)

theorem wakeq_init (c : Nat) (st : Style) (w : List Nat) (cap pipe : Nat) (scripts : List (List Cmd))
    (hg : GoodScripts c st scripts) (hcap : 0 < cap) : WakeQ c st (Sys.init w cap pipe scripts) := by
  refine ⟨?_, ?_, hcap, by simp [Sys.init], by simp [Sys.init]⟩
  · intro th hth
    simp only [Sys.init, List.getElem?_map] at hth
    cases hs : scripts[c]? with
    | none => simp [hs] at hth
    | some sc => simp [hs] at hth; subst hth; exact ⟨hg.consumer sc hs, rfl⟩
  · intro t th htc hth
    simp only [Sys.init, List.getElem?_map] at hth
    cases hs : scripts[t]? with
    | none => simp [hs] at hth
    | some sc =>
      simp [hs] at hth; subst hth
      exact ⟨⟨Or.inl rfl, (hg.others t sc htc hs).1⟩, (hg.others t sc htc hs).2, by intro sg i hx; cases hx⟩

theorem wakeq_reachable {rc : Bool} {c : Nat} {st : Style} {w : List Nat} {cap pipe : Nat}
    {scripts : List (List Cmd)} {s : Sys} (hg : GoodScripts c st scripts) (hcap : 0 < cap)
    (hr : Reachable rc w cap pipe scripts s) : WakeQ c st s := by
  induction hr with
  | init => exact wakeq_init c st w cap pipe scripts hg hcap
  | step hr' hs ih => exact wakeq_step _ _ _ _ _ _ _ ih (carry_reachable hr') hs

/-- **C09.queue_never_stranded** — in every reachable state of every interleaving (any number of delivery
and close threads, one consumer of either front-end family, any pipe capacity > 0, any initial fill,
bursts of any length): while the instance is open, if the consumer is blocked on the self-pipe or is at /
past the non-blocking callback that found nothing (about to be parked as `Pending`), then no record whose
delivery has completed its wake-up is still queued. -/
theorem C09_queue_never_stranded {rc : Bool} {c : Nat} {st : Style} {w : List Nat} {cap pipe : Nat}
    {scripts : List (List Cmd)} {s : Sys} (hg : GoodScripts c st scripts) (hcap : 0 < cap)
    (hr : Reachable rc w cap pipe scripts s) (th : Thread) (hth : s.threads[c]? = some th) (m : Mode)
    (hpc : th.pc = .ppCallback m ∨ th.pc = .psRecheck m ∨ th.pc = .ppClosed m)
    (hopen : s.closed = false) (hpipe : s.pipe = 0) (r : Rec) (hq : r ∈ s.q) : r.2 ∉ s.woken :=
  C09_queue_no_lost_wakeup c st s (wakeq_reachable hg hcap hr) th hth m hpc hopen hpipe r hq

/-- the same for a consumer that has been answered `Pending` and is now idle between two polls with its
iterator exhausted -/
theorem C09_queue_parked_pending {rc : Bool} {c : Nat} {w : List Nat} {cap pipe : Nat}
    {scripts : List (List Cmd)} {s : Sys} (hg : GoodScripts c .B scripts) (hcap : 0 < cap)
    (hr : Reachable rc w cap pipe scripts s) (th : Thread) (hth : s.threads[c]? = some th)
    (hpc : th.pc = .idle) (hpos : maxSig ≤ th.iterPos)
    (hopen : s.closed = false) (hpipe : s.pipe = 0) (r : Rec) (hq : r ∈ s.q) : r.2 ∉ s.woken := by
  intro hin
  have hinv := wakeq_reachable hg hcap hr
  have hlt := hinv.inRange r hq
  rcases hinv.announced r hq hin with h | h | ⟨th', hth', hc⟩
  · rw [hopen] at h; cases h
  · omega
  · rw [hth] at hth'; injection hth' with e; subst e
    simp only [covers, hpc, Bool.and_eq_true, decide_eq_true_eq] at hc
    omega

/-- **C09.queue_scan_takes_oldest** — a scan that reaches a slot with queued records takes the oldest one
(and nothing else), and stays on the slot -/
theorem C09_queue_scan_takes_oldest (rc : Bool) (s : Sys) (t : Nat) (th : Thread) (m : Mode) (pos : Nat) (r : Rec)
    (hth : s.threads[t]? = some th) (hpc : th.pc = .scan m pos) (hlt : pos < maxSig)
    (hh : headOf s.q pos = some r) :
    ∃ s', step rc s t = some (s', { obs := .recvBegin pos true }) ∧ s'.q = s.q.erase r ∧
      qOf s.q pos = r :: qOf s'.q pos ∧ s'.threads[t]? = some { th with pc := .scanFin m pos r.2 } := by
  have hl : t < s.threads.length := (List.getElem?_eq_some_iff.1 hth).1
  refine ⟨setT { s with q := s.q.erase r } t { th with pc := .scanFin m pos r.2 }, ?_, rfl, ?_, ?_⟩
  · simp [step, hth, hpc, hlt, hh]
  · exact (head_erase s.q pos r hh).2.2
  · simp [setT, hl]

/-! ## non-vacuity -/
example : GoodScripts 1 .A [[.deliver 10, .deliver 10], [.wait, .pending]] := by
  constructor
  · intro sc h cmd hc; simp at h; subst h; simp at hc; rcases hc with rfl | rfl <;> rfl
  · intro t sc ht h
    match t, ht, h with
    | 0, _, h =>
      simp at h; subst h
      refine ⟨?_, ?_⟩
      · intro c hc; simp at hc; rcases hc with rfl | rfl <;> exact Or.inr ⟨10, rfl⟩
      · intro sg hs; simp at hs; subst hs; decide
    | (n + 2), _, h => simp at h

end SigHook.IterQ
