import SigHook.Props.C06b
import SigHook.Lemmas.ChannelCons
/-!
# C07 (continued) — every value is accounted for exactly once

> … and every value passed to send is dropped exactly once: by the receiver who got it, by the channel's own
> drop if it was still queued, or by send itself when the channel was full.

`Props/C07.lean` proves that no two accesses to a cell race. This file proves the *accounting*, for every
reachable state of the N-thread weak-memory model (any scripts, every interleaving, every stale read and
spurious failure), over the history variables of `Lemmas/ChannelPay.lean`:

* `C07_values_conserved` — the values written into cells so far are, as a multiset, exactly: the values
  written and about to be queued (`wr`), the values handed out by `recv` (`got`), the values still queued
  (`fq`). Nothing is duplicated, nothing is lost.
* `C07_no_value_twice` — if the values sent are distinct, no value is handed out twice, and none is both handed
  out and still in a cell.
* `C07_quiescent_accounting` — with no operation in flight, what is left in the cells of the `full` queue
  (which is what `Drop for Channel` drops, each cell once) is exactly what was written minus what was handed out.
* `C07_overflow_drop_is_unwritten` — a `send` that drops its value (channel full) has not written it anywhere
  and returns with that step: that value is dropped by `send` and by nobody else.
-/
namespace SigHook.Channel
open SigHook SigHook.Packed

theorem kinv_reachable {scripts : List (List Cmd)} {s : Sys} {g : Gh} (h : GReach genOrders scripts s g) : KInv g := by
  induction h with
  | init => exact kinv_init
  | step hpre hth hs ih =>
    obtain ⟨hI, hP⟩ := pinv_reachable C07_orderings_side_condition.1 C07_orderings_side_condition.2 hpre
    exact kinv_step hI hP ih hth (cstep_of hth hs)

def vals (l : List (Nat × Nat)) : List Nat := l.map (fun e : Nat × Nat => e.2)

/-- **C07.values_conserved** -/
theorem C07_values_conserved {scripts : List (List Cmd)} {s : Sys} {g : Gh} (hr : GReach genOrders scripts s g) :
    g.wrote.Perm (vals g.wr ++ g.got ++ vals g.fq) := by
  have hK := kinv_reachable hr
  have hP := (pinv_reachable C07_orderings_side_condition.1 C07_orderings_side_condition.2 hr).2
  have := hK.perm
  rw [hP.fifo, ← List.append_assoc] at this
  exact this

/-- **C07.no_value_twice** — distinct values in, distinct values out: no value is handed out twice, none is
both handed out and still held in a cell, none sits in two cells. -/
theorem C07_no_value_twice {scripts : List (List Cmd)} {s : Sys} {g : Gh} (hr : GReach genOrders scripts s g)
    (hd : g.wrote.Nodup) : (vals g.wr ++ g.got ++ vals g.fq).Nodup ∧ g.got.Nodup :=
  have h := (C07_values_conserved hr).nodup_iff.1 hd
  ⟨h, (List.nodup_append.1 (List.nodup_append.1 h).1).2.1⟩

/-- every value written is in exactly the places the multiset equation lists; where it is still in the
channel, it is in the cell of its index -/
theorem C07_written_value_is_somewhere {scripts : List (List Cmd)} {s : Sys} {g : Gh}
    (hr : GReach genOrders scripts s g) (x : Nat) (hx : x ∈ g.wrote) :
    x ∈ g.got ∨ ∃ idx, ((idx, x) ∈ g.wr ∨ (idx, x) ∈ g.fq) ∧ s.cells.getD (idx - 1) none = some x := by
  have hP := (pinv_reachable C07_orderings_side_condition.1 C07_orderings_side_condition.2 hr).2
  have := (C07_values_conserved hr).mem_iff.1 hx
  simp only [List.mem_append, vals, List.mem_map] at this
  rcases this with (⟨e, he, rfl⟩ | h) | ⟨e, he, rfl⟩
  · exact Or.inr ⟨e.1, Or.inl he, (hP.cellW e he).1⟩
  · exact Or.inl h
  · exact Or.inr ⟨e.1, Or.inr he, hP.cellF e he⟩

/-- no operation in flight -/
def Quiescent (s : Sys) : Prop := ∀ (t : Nat) (th : Thread), s.threads[t]? = some th → th.pc = .idle

/-- **C07.quiescent_accounting** — with no operation in flight the cells listed in `full` hold, each once,
exactly the values written and not handed out: that is what the channel's own drop lets go of. -/
theorem C07_quiescent_accounting {scripts : List (List Cmd)} {s : Sys} {g : Gh} (hr : GReach genOrders scripts s g)
    (hq : Quiescent s) : g.wrote.Perm (g.got ++ vals g.fq) ∧ g.fq.map (·.1) = LQ (lastMsg s.full) ∧
      ∀ e ∈ g.fq, s.cells.getD (e.1 - 1) none = some e.2 := by
  have hP := (pinv_reachable C07_orderings_side_condition.1 C07_orderings_side_condition.2 hr).2
  have hwr : g.wr = [] := by
    cases h : g.wr with
    | nil => rfl
    | cons e rest =>
      obtain ⟨_, j, thj, hj, hrole⟩ := hP.cellW e (by rw [h]; exact List.mem_cons_self)
      have := hq j thj hj
      rcases hrole with ⟨r, h2⟩ | ⟨r, cu, h2⟩ <;> (rw [this] at h2; cases h2)
  have := C07_values_conserved hr
  rw [hwr] at this
  exact ⟨by simpa [vals] using this, hP.keysF, hP.cellF⟩

/-- **C07.overflow_drop_is_unwritten** — the step at which a `send` gives its value up (`dropped = some tg`)
ends the call, and leaves every history variable as it was: the value was never written into a cell, so
nobody else can drop it. Conversely the step that writes a value drops nothing. -/
theorem C07_overflow_drop_is_unwritten {s s' : Sys} {t : Nat} {th : Thread} {c : Choice} {out : Out} (g : Gh)
    (hth : s.threads[t]? = some th) (hs : step genOrders s t c = some (s', out)) :
    (∀ tg, out.dropped = some tg → out.ret = some none ∧ g.next s th.pc out.obs = g) ∧
    (∀ idx tg, th.pc = .write idx tg → out.dropped = none) := by
  have h := cstep_of hth hs
  cases h with
  | startNone q tag rest hpc hsc hz =>
    exact ⟨fun tg _ => ⟨rfl, by simp [Gh.next, hpc]⟩, fun idx tg h => by rw [hpc] at h; cases h⟩
  | deqFailNone q tag cur hpc hcs hz =>
    exact ⟨fun tg _ => ⟨rfl, by cases q <;> simp [Gh.next, hpc]⟩, fun idx tg h => by rw [hpc] at h; cases h⟩
  | startGo q tag rest hpc hsc hz => exact ⟨fun tg h => (by cases h), fun _ _ _ => rfl⟩
  | deqOk q tag cur hpc hcs => exact ⟨fun tg h => (by cases h), fun _ _ _ => rfl⟩
  | deqFailRetry q tag cur hpc hcs hz => exact ⟨fun tg h => (by cases h), fun _ _ _ => rfl⟩
  | write idx tag hpc => exact ⟨fun tg h => (by cases h), fun _ _ _ => rfl⟩
  | takeSome idx tag hpc hc => exact ⟨fun tg h => (by cases h), fun _ _ _ => rfl⟩
  | takeNone idx hpc hc => exact ⟨fun tg h => (by cases h), fun _ _ _ => rfl⟩
  | enqLoad q idx ret hpc => exact ⟨fun tg h => (by cases h), fun _ _ _ => rfl⟩
  | enqPanic q idx ret cur hpc he => exact ⟨fun tg h => (by cases h), fun _ _ _ => rfl⟩
  | enqOk q idx ret cur new hpc he hcs => exact ⟨fun tg h => (by cases h), fun _ _ _ => rfl⟩
  | enqFail q idx ret cur new hpc he hcs => exact ⟨fun tg h => (by cases h), fun _ _ _ => rfl⟩

/-! ## non-vacuity: three senders (the third interrupted after writing) and a receiver -/
example :
    let run := fun (s : Sys × Gh) (sched : List Nat) => sched.foldl (fun (p : Sys × Gh) t =>
      match p.1.threads[t]?, step genOrders p.1 t {} with
      | some th, some (s', out) => (s', p.2.next p.1 th.pc out.obs)
      | _, _ => p) s
    let p := run (Sys.init [[.send 7], [.send 9], [.recv], [.send 4]], {}) [1, 1, 0, 0, 1, 1, 1, 0, 0, 0, 3, 3, 3, 2, 2, 2]
    p.2.wrote = [9, 7, 4] ∧ vals p.2.wr = [4] ∧ p.2.got = [9] ∧ vals p.2.fq = [7] := by
  decide +kernel

end SigHook.Channel
