import SigHook.Props.C11
import SigHook.Lemmas.Scan
/-!
# C10 — Signal iterators report only real, registered, not-yet-reported deliveries

> At every point in time the number of times an iterator has yielded a given signal is at most the
> number of deliveries of that signal that had begun since it was added, and it never yields a
> signal number it was not asked to watch - also after close. With the info-carrying exfiltrators
> each yielded record is a faithful copy of the information of one actual delivery, each delivery
> yields at most one record, and records of one signal come out in delivery order.

Model: L8 with the `SignalOnly` exfiltrator; `stores` / `yields` are ghost logs of every slot
store (one per delivery) and every yield. The info-carrying exfiltrators put a `Channel` behind
each slot: for them "faithful copy, at most one record per delivery, delivery order" is C06/C07
applied to that channel (one channel per signal number, `raw.rs:71-85`).
-/
namespace SigHook.Iter

/-- the three ways a step can touch the slots and the ghost logs -/
inductive Effect (s s' : Sys) : Prop where
  | none : s'.set = s.set → s'.stores = s.stores → s'.yields = s.yields → Effect s s'
  | store (sig : Nat) : s'.set = (if s.set.contains sig then s.set else sig :: s.set) →
      s'.stores = sig :: s.stores → s'.yields = s.yields → Effect s s'
  | yield (pos : Nat) : s.set.contains pos = true → s'.set = s.set.erase pos →
      s'.stores = s.stores → s'.yields = pos :: s.yields → Effect s s'

theorem step_effect (recheck : Bool) (s s' : Sys) (t : Nat) (o : Out) (h : step recheck s t = some (s', o)) :
    Effect s s' ∧ (∀ sig, o.yielded = some sig → s'.yields = sig :: s.yields) ∧
    (∀ sig, o.obs = .storeSlot sig → ∃ th rest, s.threads[t]? = some th ∧ th.script = .deliver sig :: rest) := by
  unfold step at h
  cases hth : s.threads[t]? with
  | none => simp [hth] at h
  | some th =>
    simp only [hth] at h
    cases hpc : th.pc with
    | idle =>
      simp only [hpc] at h
      cases hsc : th.script with
      | nil => simp [hsc] at h
      | cons c rest =>
        cases c with
        | deliver sig =>
          simp only [hsc, Option.some.injEq, Prod.mk.injEq] at h; obtain ⟨rfl, rfl⟩ := h
          exact ⟨.store sig rfl rfl rfl, by simp, by intro sg hsg; simp at hsg; subst hsg; exact ⟨th, rest, rfl, hsc⟩⟩
        | _ =>
          simp only [hsc, step.stepFlush, step.stepPsClosed] at h
          repeat' split at h
          all_goals (simp only [Option.some.injEq, Prod.mk.injEq] at h; obtain ⟨rfl, rfl⟩ := h)
          all_goals exact ⟨.none rfl rfl rfl, by simp, by simp⟩
    | scan m pos =>
      simp only [hpc] at h
      split at h
      · split at h
        · rename_i hin
          simp only [Option.some.injEq, Prod.mk.injEq] at h; obtain ⟨rfl, rfl⟩ := h
          exact ⟨.yield pos hin rfl rfl rfl, by simp [setT], by simp⟩
        · simp only [Option.some.injEq, Prod.mk.injEq] at h; obtain ⟨rfl, rfl⟩ := h
          exact ⟨.none rfl rfl rfl, by simp, by simp⟩
      · simp only [Option.some.injEq, Prod.mk.injEq] at h; obtain ⟨rfl, rfl⟩ := h
        exact ⟨.none rfl rfl rfl, by simp, by simp⟩
    | psNext m =>
      simp only [hpc] at h
      split at h
      · rename_i hin
        split at h
        all_goals (simp only [Option.some.injEq, Prod.mk.injEq] at h; obtain ⟨rfl, rfl⟩ := h)
        all_goals exact ⟨.yield th.iterPos hin rfl rfl rfl, by simp [setT], by simp⟩
      · simp only [Option.some.injEq, Prod.mk.injEq] at h; obtain ⟨rfl, rfl⟩ := h
        exact ⟨.none rfl rfl rfl, by simp, by simp⟩
    | _ =>
      simp only [hpc, step.stepFlush, step.stepPsClosed] at h
      repeat' split at h
      all_goals (first | (simp at h; done) | skip)
      all_goals (simp only [Option.some.injEq, Prod.mk.injEq] at h; obtain ⟨rfl, rfl⟩ := h)
      all_goals exact ⟨.none rfl rfl rfl, by simp, by simp⟩

theorem mem_store (sg sig : Nat) (set : List Nat) :
    sg ∈ (if set.contains sig then set else sig :: set) ↔ sg = sig ∨ sg ∈ set := by
  by_cases h : sig ∈ set
  · simp [h]; intro e; subst e; exact h
  · simp [h]

/-- the counting invariant: per signal, yields so far plus the possibly pending slot never exceed
the stores (deliveries) so far; the slot list has no duplicates -/
structure CountInv (s : Sys) : Prop where
  nodup : s.set.Nodup
  count : ∀ sig, s.yields.count sig + (if sig ∈ s.set then 1 else 0) ≤ s.stores.count sig

theorem count_init (w : List Nat) (cap pipe : Nat) (scripts : List (List Cmd)) :
    CountInv (Sys.init w cap pipe scripts) := ⟨by simp [Sys.init], by simp [Sys.init]⟩

theorem count_step (recheck : Bool) (s s' : Sys) (t : Nat) (o : Out) (hinv : CountInv s)
    (h : step recheck s t = some (s', o)) : CountInv s' := by
  obtain ⟨heff, _, _⟩ := step_effect recheck s s' t o h
  cases heff with
  | none h1 h2 h3 => exact ⟨by rw [h1]; exact hinv.nodup, by intro sg; rw [h1, h2, h3]; exact hinv.count sg⟩
  | store sig h1 h2 h3 =>
    constructor
    · rw [h1]; split
      · exact hinv.nodup
      · rename_i hn; exact List.nodup_cons.2 ⟨by simpa using hn, hinv.nodup⟩
    · intro sg
      have hc := hinv.count sg
      have hm := mem_store sg sig s.set
      rw [h1, h2, h3, List.count_cons]
      by_cases hs : sig = sg
      · subst hs
        have : sig ∈ (if s.set.contains sig then s.set else sig :: s.set) := hm.2 (Or.inl rfl)
        simp only [this, if_true, beq_self_eq_true]
        split at hc <;> omega
      · have hne : (sig == sg) = false := by simpa using hs
        have hiff : sg ∈ (if s.set.contains sig then s.set else sig :: s.set) ↔ sg ∈ s.set := by
          rw [hm]; constructor
          · rintro (h | h); exact absurd h.symm hs; exact h
          · exact Or.inr
        simp only [hne, Bool.false_eq_true, if_false, Nat.add_zero]
        by_cases hin : sg ∈ s.set
        · simp only [hiff.2 hin, hin, if_true] at hc ⊢; exact hc
        · have : ¬ sg ∈ (if s.set.contains sig then s.set else sig :: s.set) := fun h => hin (hiff.1 h)
          simp only [this, hin, if_false] at hc ⊢; exact hc
  | yield pos hin h1 h2 h3 =>
    have hmem : pos ∈ s.set := by simpa using hin
    constructor
    · rw [h1]; exact hinv.nodup.erase pos
    · intro sg
      have hc := hinv.count sg
      rw [h1, h2, h3, List.count_cons]
      by_cases hs : pos = sg
      · subst hs
        have hno : ¬ pos ∈ s.set.erase pos := fun hm => (hinv.nodup.mem_erase_iff.1 hm).1 rfl
        simp only [hno, if_false, beq_self_eq_true, if_true, hmem] at hc ⊢
        omega
      · have hne : (pos == sg) = false := by simpa using hs
        have hiff : sg ∈ s.set.erase pos ↔ sg ∈ s.set :=
          ⟨List.mem_of_mem_erase, fun hm => (List.mem_erase_of_ne (Ne.symm hs)).2 hm⟩
        simp only [hne, Bool.false_eq_true, if_false, Nat.add_zero]
        by_cases hin2 : sg ∈ s.set
        · simp only [hiff.2 hin2, hin2, if_true] at hc ⊢; exact hc
        · have : ¬ sg ∈ s.set.erase pos := fun h => hin2 (hiff.1 h)
          simp only [this, hin2, if_false] at hc ⊢; exact hc

theorem count_reachable {r : Bool} {w : List Nat} {cap pipe : Nat} {scripts : List (List Cmd)} {s : Sys}
    (hr : Reachable r w cap pipe scripts s) : CountInv s := by
  induction hr with
  | init => exact count_init w cap pipe scripts
  | step _ hs ih => exact count_step _ _ _ _ _ ih hs

/-- **C10.never_more_than_delivered** — at every point of every execution, for every signal:
the number of times it has been yielded is at most the number of its deliveries that have stored
into the slot (hence begun) — also after close, whatever the consumer front-end. -/
theorem C10_never_more_than_delivered {r : Bool} {w : List Nat} {cap pipe : Nat} {scripts : List (List Cmd)}
    {s : Sys} (hr : Reachable r w cap pipe scripts s) (sig : Nat) :
    s.yields.count sig ≤ s.stores.count sig := by
  have := (count_reachable hr).count sig; omega

/-- **C10.only_watched** — if the scripts only deliver watched signals (only a watched signal has
this instance's action registered), every yielded number is a watched one. -/
theorem C10_only_watched {r : Bool} {w : List Nat} {cap pipe : Nat} {scripts : List (List Cmd)} {s : Sys}
    (hr : Reachable r w cap pipe scripts s)
    (hw : ∀ sc ∈ scripts, ∀ sig, Cmd.deliver sig ∈ sc → sig ∈ w) :
    (∀ sig ∈ s.stores, sig ∈ w) ∧ (∀ sig ∈ s.yields, sig ∈ w) := by
  -- scripts only ever shrink: every command still in a thread's script was in the original one
  have hscripts : ∀ {s : Sys}, Reachable r w cap pipe scripts s →
      ∀ (t : Nat) (th : Thread), s.threads[t]? = some th → ∀ c ∈ th.script, ∃ sc ∈ scripts, c ∈ sc := by
    intro s hr
    induction hr with
    | init =>
      intro t th hth c hc
      simp only [Sys.init, List.getElem?_map] at hth
      cases hs : scripts[t]? with
      | none => simp [hs] at hth
      | some sc =>
        simp [hs] at hth; subst hth
        exact ⟨sc, List.mem_of_getElem? hs, hc⟩
    | @step s0 s1 t0 o0 _ hs ih =>
      intro t th hth c hc
      obtain ⟨_, _, hother⟩ := step_frame r s0 s1 t0 o0 hs
      by_cases htt : t = t0
      · subst htt
        -- the stepping thread's script is a suffix of its old script
        have : ∃ th0, s0.threads[t]? = some th0 ∧ ∀ c ∈ th.script, c ∈ th0.script := by
          unfold step at hs
          cases hth0 : s0.threads[t]? with
          | none => simp [hth0] at hs
          | some th0 =>
            have hlt : t < s0.threads.length := (List.getElem?_eq_some_iff.1 hth0).1
            refine ⟨th0, rfl, ?_⟩
            simp only [hth0] at hs
            have getT : ∀ (sx : Sys) (th' : Thread), sx.threads = s0.threads → (setT sx t th').threads[t]? = some th' := by
              intro sx th' h1; simp [setT, h1, hlt]
            cases hpc : th0.pc with
            | idle =>
              simp only [hpc] at hs
              cases hsc : th0.script with
              | nil => simp [hsc] at hs
              | cons c0 rest =>
                cases c0 <;> simp only [hsc, step.stepFlush, step.stepPsClosed] at hs
                all_goals (repeat' split at hs)
                all_goals (simp only [Option.some.injEq, Prod.mk.injEq] at hs; obtain ⟨rfl, _⟩ := hs)
                all_goals (rw [getT _ _ (by simp)] at hth; injection hth with hth; subst hth)
                all_goals (intro c hc; simp at hc ⊢; exact Or.inr hc)
            | _ =>
              simp only [hpc, step.stepFlush, step.stepPsClosed] at hs
              repeat' split at hs
              all_goals (first | (simp at hs; done) | skip)
              all_goals (simp only [Option.some.injEq, Prod.mk.injEq] at hs; obtain ⟨rfl, _⟩ := hs)
              all_goals (rw [getT _ _ (by simp)] at hth; injection hth with hth; subst hth)
              all_goals (intro c hc; exact hc)
        obtain ⟨th0, hth0, hsub⟩ := this
        exact ih t th0 hth0 c (hsub c hc)
      · rw [hother t htt] at hth; exact ih t th hth c hc
  have hstores : ∀ {s : Sys}, Reachable r w cap pipe scripts s → ∀ sig ∈ s.stores, sig ∈ w := by
    intro s hr
    induction hr with
    | init => simp [Sys.init]
    | @step s0 s1 t0 o0 hr0 hs ih =>
      -- which kind of step was it? look at the observation
      have hstep := hs
      unfold step at hs
      cases hth0 : s0.threads[t0]? with
      | none => simp [hth0] at hs
      | some th0 =>
        simp only [hth0] at hs
        cases hpc : th0.pc with
        | idle =>
          simp only [hpc] at hs
          cases hsc : th0.script with
          | nil => simp [hsc] at hs
          | cons c0 rest =>
            cases c0 with
            | deliver sg' =>
              simp only [hsc, Option.some.injEq, Prod.mk.injEq] at hs; obtain ⟨rfl, _⟩ := hs
              intro x hx
              simp only [setT, List.mem_cons] at hx
              rcases hx with hx | hx
              · subst hx
                obtain ⟨sc, hscm, hc⟩ := hscripts hr0 t0 th0 hth0 (.deliver x) (by rw [hsc]; simp)
                exact hw sc hscm x hc
              · exact ih x hx
            | _ =>
              simp only [hsc, step.stepFlush, step.stepPsClosed] at hs
              repeat' split at hs
              all_goals (simp only [Option.some.injEq, Prod.mk.injEq] at hs; obtain ⟨rfl, _⟩ := hs; exact ih)
        | _ =>
          simp only [hpc, step.stepFlush, step.stepPsClosed] at hs
          repeat' split at hs
          all_goals (first | (simp at hs; done) | skip)
          all_goals (simp only [Option.some.injEq, Prod.mk.injEq] at hs; obtain ⟨rfl, _⟩ := hs; exact ih)
  refine ⟨hstores hr, ?_⟩
  intro sig hy
  have h1 := C10_never_more_than_delivered hr sig
  have : 0 < s.yields.count sig := List.count_pos_iff.2 hy
  exact hstores hr sig (List.count_pos_iff.1 (by omega))

/-! ## non-vacuity -/
example : ∃ s, Reachable true [10, 12] 278 0 [[.deliver 10, .deliver 10], [.pending]] s ∧ s.yields = [10] ∧ s.stores = [10, 10] := by
  refine ⟨(runSched true (Sys.init [10, 12] 278 0 [[.deliver 10, .deliver 10], [.pending]])
      ([0, 0, 0, 0] ++ List.replicate 131 1)).1, ?_, by decide, by decide⟩
  have key : ∀ (sched : List Nat) (s : Sys), Reachable true [10, 12] 278 0 [[.deliver 10, .deliver 10], [.pending]] s →
      Reachable true [10, 12] 278 0 [[.deliver 10, .deliver 10], [.pending]] (runSched true s sched).1 := by
    intro sched
    induction sched with
    | nil => intro s h; exact h
    | cons t rest ih =>
      intro s h
      simp only [runSched]
      cases hs : step true s t with
      | none => exact h
      | some r => obtain ⟨s', o⟩ := r; exact ih s' (Reachable.step h hs)
  exact key _ _ Reachable.init

end SigHook.Iter

/-! ## Info-carrying exfiltrators (`WithRawSiginfo`, `WithOrigin`)

Their slot is a per-signal `Channel`: the action `send`s the kernel's record, `Pending::next`
`recv`s. What reaches the consumer is what the channel hands out, so C10 for them rests on
C06 - C08 (every received value was sent once, is received at most once, in order; never a torn or
invented one: `C07_race_free_declared`, `C06_fifo_transitions`) and on the scan handing out each
queued record exactly once (`C09_scan_hands_out_everything`). The two ties to the source that those
theorems need are repeated here so that C10's own check notices when they break. -/
namespace SigHook.Scan

/-- **C10.records_once_each** — a drain yields every queued record exactly as often as it is
queued (the yielded list *is* the queued list), so no record is reported twice and none invented -/
theorem C10_records_once_each (fuel : Nat) (s : St) (hf : (queued s).length < fuel) (r : Nat) :
    ((drain true fuel s).1.count r) = (queued s).count r := by
  rw [scan_hands_out_everything fuel s hf]

/-- tie to the source (regenerated): `recv` takes the record out of the cell before it hands the
slot index back to the senders; `send` writes the cell before it publishes the index -/
theorem C10_channel_order_skeleton :
    skelOf chanFile "recv" = ["dequeue.full", "cell.take", "enqueue.empty"] ∧
    skelOf chanFile "send" = ["dequeue.empty", "cell.write", "enqueue.full"] ∧ staysOnHit = true := by decide

/-- **C10.origin_load_skeleton** — tie to the source (regenerated): what the origin-carrying exfiltrator hands out
is `Origin::extract` of the record the raw exfiltrator's channel hands out - one `load` of the wrapped
`WithRawSiginfo`, mapped through the extraction, and nothing that looks at or edits the result. So "a faithful
copy of the information of one actual delivery" for `WithOrigin` is C10 for the raw records (above) composed with
C17 for the extraction. -/
theorem C10_origin_load_skeleton :
    skelOf "src/iterator/exfiltrator/origin.rs" "load" = ["raw.load", "map.extract"] := by decide

end SigHook.Scan
