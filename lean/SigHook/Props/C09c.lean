import SigHook.Props.C09
/-!
# C09 (continued) — the infinite iterator *obtains* a delivered signal

> For every delivery of a watched signal while the instance is open, a consumer that keeps calling
> wait/forever/poll and drains what it is handed obtains that signal at least once after the delivery.

`Props/C09.lean` proves the safety half (the consumer is never parked while a delivered signal is
unreported and nothing announces it). Here is the progress half for the consumer that "keeps calling" by
construction, `forever()`: in any state in which the signal's slot is set and either a wake-up byte is in the
pipe or the iterator's position has not passed the slot (which is what `WakeInv` guarantees for every
delivered-and-woken signal, see `C09_forever_obtains_reachable`), the consumer running *alone* yields that
signal within `fcost` steps - drains, scans, hands out what lies before it, and gets there. Nobody else has to
act; steps of other threads in between can only add bytes and set slots, which keeps the hypothesis.
-/
namespace SigHook.Iter

/-- inside `forever()` -/
def Pc.inForever : Pc → Bool
  | .flush .forever | .psClosed .forever | .psNext .forever | .ppClosed .forever | .ppCallback .forever
  | .psRecheck .forever => true
  | _ => false

/-- the scan will reach the slot of `sig` before the consumer can block -/
def fcovers (th : Thread) (sig : Nat) : Bool :=
  match th.pc with
  | .flush _ => true
  | .psClosed _ | .psNext _ => th.iterPos ≤ sig
  | _ => false

/-- the hypothesis kept until the signal is handed out -/
structure Due (s : Sys) (th : Thread) (sig : Nat) : Prop where
  mode : th.pc.inForever = true
  opn : s.closed = false
  set : sig ∈ s.set
  lt : sig < maxSig
  ann : 0 < s.pipe ∨ fcovers th sig = true

def flushCostF (pipe : Nat) : Nat := (pipe + 1023) / 1024 + 1

/-- own steps until `sig` is handed out, generously -/
def fcost (s : Sys) (th : Thread) (sig : Nat) : Nat :=
  let near := 2 * s.set.length + sig + 2          -- from `psClosed` at position 0
  let round := flushCostF s.pipe + near + 4        -- from `ppClosed` through the callback and the drain
  match th.pc with
  | .flush _ => flushCostF s.pipe + near
  | .psNext _ => if th.iterPos ≤ sig then 2 * s.set.length + (sig - th.iterPos) + 1
                 else 2 * s.set.length + (maxSig - th.iterPos) + 1 + round
  | .psClosed _ => if th.iterPos ≤ sig then 2 * s.set.length + (sig - th.iterPos) + 2
                   else 2 * s.set.length + (maxSig - th.iterPos) + 2 + round
  | .ppClosed _ => round
  | .ppCallback _ => round - 1
  | .psRecheck _ => 2 * s.set.length + (maxSig - th.iterPos) + 3 + round
  | _ => 0

theorem flushCostF_step (pipe : Nat) (h : 0 < pipe) : flushCostF (pipe - min pipe 1024) + 1 = flushCostF pipe := by
  unfold flushCostF
  by_cases hp : pipe ≤ 1024
  · have : min pipe 1024 = pipe := Nat.min_eq_left hp
    rw [this]
    have a : (pipe - pipe + 1023) / 1024 = 0 := by simp
    have b : (pipe + 1023) / 1024 = 1 := by omega
    omega
  · have : min pipe 1024 = 1024 := Nat.min_eq_right (by omega)
    rw [this]
    omega

theorem flushCostF_mono (pipe : Nat) : flushCostF (pipe - 1) ≤ flushCostF pipe := by
  unfold flushCostF; omega

theorem length_erase_mem (l : List Nat) (a : Nat) (h : a ∈ l) : (l.erase a).length + 1 = l.length := by
  rw [List.length_erase_of_mem h]
  have : 0 < l.length := List.length_pos_of_mem h
  omega

/-- one step of the `forever()` consumer while `sig` is due: it is enabled; either it hands out `sig`, or
`sig` is still due and `fcost` has dropped; the script is untouched -/
theorem due_step (rc : Bool) (s : Sys) (t : Nat) (th : Thread) (sig : Nat) (hth : s.threads[t]? = some th)
    (hd : Due s th sig) :
    ∃ s' o th', step rc s t = some (s', o) ∧ s'.threads[t]? = some th' ∧ th'.script = th.script ∧
      (o.yielded = some sig ∨ (Due s' th' sig ∧ fcost s' th' sig + 1 ≤ fcost s th sig)) := by
  have hlt : t < s.threads.length := (List.getElem?_eq_some_iff.1 hth).1
  have get : ∀ (s0 : Sys) (th' : Thread), s0.threads = s.threads → (setT s0 t th').threads[t]? = some th' := by
    intro s0 th' e; simp [setT, e, hlt]
  obtain ⟨hmode, hopen, hset, hsl, hann⟩ := hd
  have hopen' : ¬ s.closed = true := by rw [hopen]; simp
  unfold step
  simp only [hth]
  cases hpc : th.pc with
  | idle => rw [hpc] at hmode; cases hmode
  | dWake sg => rw [hpc] at hmode; cases hmode
  | cWake => rw [hpc] at hmode; cases hmode
  | scan m pos => rw [hpc] at hmode; cases hmode
  | flush m =>
    have hm : m = .forever := by rw [hpc] at hmode; cases m <;> first | rfl | cases hmode
    subst hm
    simp only [step.stepFlush]
    by_cases hp : s.pipe > 0
    · simp only [hp, if_true]
      refine ⟨_, _, _, rfl, get _ _ rfl, rfl, Or.inr ⟨⟨rfl, hopen, hset, hsl, Or.inr rfl⟩, ?_⟩⟩
      have := flushCostF_step s.pipe hp
      simp only [fcost, hpc, setT]; omega
    · simp only [hp, if_false]
      have hp0 : s.pipe = 0 := by omega
      refine ⟨_, _, _, rfl, get _ _ rfl, rfl, Or.inr ⟨⟨rfl, hopen, hset, hsl, Or.inr (by simp [fcovers])⟩, ?_⟩⟩
      simp only [fcost, hpc, setT, hp0, flushCostF, Nat.zero_le, if_true]; omega
  | psClosed m =>
    have hm : m = .forever := by rw [hpc] at hmode; cases m <;> first | rfl | cases hmode
    subst hm
    simp only [step.stepPsClosed, hopen', if_false]
    by_cases hcov : th.iterPos ≤ sig
    · have hl : th.iterPos < maxSig := by omega
      refine ⟨_, _, _, rfl, get _ _ rfl, rfl, Or.inr ⟨⟨by simp [hl, Pc.inForever], hopen, hset, hsl,
        Or.inr (by simp [fcovers, hl, hcov])⟩, ?_⟩⟩
      simp only [fcost, hpc, setT, hl, if_true, hcov]; omega
    · have hp : 0 < s.pipe := by
        rcases hann with h | h
        · exact h
        · simp [fcovers, hpc, hcov] at h
      by_cases hl : th.iterPos < maxSig
      · refine ⟨_, _, _, rfl, get _ _ rfl, rfl, Or.inr ⟨⟨by simp [hl, Pc.inForever], hopen, hset, hsl, Or.inl hp⟩, ?_⟩⟩
        simp only [fcost, hpc, setT, hl, if_true, hcov, if_false]; omega
      · refine ⟨_, _, _, rfl, get _ _ rfl, rfl, Or.inr ⟨⟨by simp [hl, Pc.inForever], hopen, hset, hsl, Or.inl hp⟩, ?_⟩⟩
        simp only [fcost, hpc, setT, hl, if_false, hcov]; omega
  | psNext m =>
    have hm : m = .forever := by rw [hpc] at hmode; cases m <;> first | rfl | cases hmode
    subst hm
    by_cases hin : s.set.contains th.iterPos = true
    · simp only [hin, if_true]
      have hmem : th.iterPos ∈ s.set := by simpa using hin
      by_cases heq : th.iterPos = sig
      · exact ⟨_, _, _, rfl, get _ _ rfl, rfl, Or.inl (by simp [heq])⟩
      · have hset' : sig ∈ s.set.erase th.iterPos := (List.mem_erase_of_ne (Ne.symm heq)).2 hset
        have hlen := length_erase_mem s.set th.iterPos hmem
        by_cases hcov : th.iterPos ≤ sig
        · refine ⟨_, _, _, rfl, get _ _ rfl, rfl, Or.inr ⟨⟨rfl, hopen, hset', hsl, Or.inr (by simp [fcovers, hcov])⟩, ?_⟩⟩
          simp only [fcost, hpc, setT, hcov, if_true]; omega
        · have hp : 0 < s.pipe := by
            rcases hann with h | h
            · exact h
            · simp [fcovers, hpc, hcov] at h
          refine ⟨_, _, _, rfl, get _ _ rfl, rfl, Or.inr ⟨⟨rfl, hopen, hset', hsl, Or.inl hp⟩, ?_⟩⟩
          simp only [fcost, hpc, setT, hcov, if_false]; omega
    · simp only [hin]
      have hne : th.iterPos ≠ sig := by
        intro e; rw [e] at hin; exact hin (by simpa using hset)
      by_cases hcov : th.iterPos ≤ sig
      · have hcov' : th.iterPos + 1 ≤ sig := by omega
        have hl : th.iterPos + 1 < maxSig := by omega
        refine ⟨_, _, _, rfl, get _ _ rfl, rfl, Or.inr ⟨⟨by simp [hl, Pc.inForever], hopen, hset, hsl,
          Or.inr (by simp [fcovers, hl, hcov'])⟩, ?_⟩⟩
        simp only [fcost, hpc, setT, hl, if_true, hcov, hcov']; omega
      · have hp : 0 < s.pipe := by
          rcases hann with h | h
          · exact h
          · simp [fcovers, hpc, hcov] at h
        have hcov' : ¬ th.iterPos + 1 ≤ sig := by omega
        by_cases hl : th.iterPos + 1 < maxSig
        · refine ⟨_, _, _, rfl, get _ _ rfl, rfl, Or.inr ⟨⟨by simp [hl, Pc.inForever], hopen, hset, hsl, Or.inl hp⟩, ?_⟩⟩
          simp only [fcost, hpc, setT, hl, if_true, hcov, hcov', if_false]; omega
        · refine ⟨_, _, _, rfl, get _ _ rfl, rfl, Or.inr ⟨⟨by simp [hl, Pc.inForever], hopen, hset, hsl, Or.inl hp⟩, ?_⟩⟩
          simp only [fcost, hpc, setT, hl, if_false, hcov]; omega
  | ppClosed m =>
    have hm : m = .forever := by rw [hpc] at hmode; cases m <;> first | rfl | cases hmode
    subst hm
    have hp : 0 < s.pipe := by
      rcases hann with h | h
      · exact h
      · simp [fcovers, hpc] at h
    simp only [hopen', if_false]
    refine ⟨_, _, _, rfl, get _ _ rfl, rfl, Or.inr ⟨⟨rfl, hopen, hset, hsl, Or.inl hp⟩, ?_⟩⟩
    simp only [fcost, hpc, setT, flushCostF]; omega
  | psRecheck m =>
    have hm : m = .forever := by rw [hpc] at hmode; cases m <;> first | rfl | cases hmode
    subst hm
    have hp : 0 < s.pipe := by
      rcases hann with h | h
      · exact h
      · simp [fcovers, hpc] at h
    simp only [hopen', if_false]
    refine ⟨_, _, _, rfl, get _ _ rfl, rfl, Or.inr ⟨⟨rfl, hopen, hset, hsl, Or.inl hp⟩, ?_⟩⟩
    simp only [fcost, hpc, setT]
    by_cases hcov : th.iterPos ≤ sig
    · simp only [hcov, if_true]; omega
    · simp only [hcov, if_false]; omega
  | ppCallback m =>
    have hm : m = .forever := by rw [hpc] at hmode; cases m <;> first | rfl | cases hmode
    subst hm
    have hp : 0 < s.pipe := by
      rcases hann with h | h
      · exact h
      · simp [fcovers, hpc] at h
    have hp0 : ¬ s.pipe = 0 := by omega
    simp only [blocking, if_true, hp0, if_false]
    refine ⟨_, _, _, rfl, get _ _ rfl, rfl, Or.inr ⟨⟨rfl, hopen, hset, hsl, Or.inr rfl⟩, ?_⟩⟩
    have := flushCostF_mono s.pipe
    simp only [fcost, hpc, setT, flushCostF] at this ⊢; omega

/-- signals handed out by thread `t` running alone for `n` steps -/
def soloYields (rc : Bool) (s : Sys) (t : Nat) : Nat → List Nat
  | 0 => []
  | n + 1 => match step rc s t with
    | some (s', o) => (match o.yielded with | some v => [v] | none => []) ++ soloYields rc s' t n
    | none => []

/-- **C09.forever_obtains** — while the instance is open, a `forever()` consumer for which `sig` is due (its
slot is set, and a wake-up byte is in the pipe or the scan has not passed the slot) hands `sig` out within
`fcost` own steps, running alone. -/
theorem C09_forever_obtains (rc : Bool) :
    ∀ (k : Nat) (s : Sys) (t : Nat) (th : Thread) (sig : Nat), s.threads[t]? = some th → Due s th sig →
      fcost s th sig ≤ k → ∃ n, n ≤ k + 1 ∧ sig ∈ soloYields rc s t n := by
  intro k
  induction k with
  | zero =>
    intro s t th sig hth hd hk
    obtain ⟨s', o, th', hs, _, _, hres⟩ := due_step rc s t th sig hth hd
    rcases hres with hy | ⟨_, hlt⟩
    · exact ⟨1, by omega, by simp [soloYields, hs, hy]⟩
    · omega
  | succ k ih =>
    intro s t th sig hth hd hk
    obtain ⟨s', o, th', hs, hth', _, hres⟩ := due_step rc s t th sig hth hd
    rcases hres with hy | ⟨hd', hlt⟩
    · exact ⟨1, by omega, by simp [soloYields, hs, hy]⟩
    · obtain ⟨n, hn, hmem⟩ := ih s' t th' sig hth' hd' (by omega)
      exact ⟨n + 1, by omega, by simp only [soloYields, hs]; exact List.mem_append_right _ hmem⟩

/-- the bound in closed form -/
theorem fcost_le (s : Sys) (th : Thread) (sig : Nat) (hs : sig < maxSig) :
    fcost s th sig ≤ 4 * s.set.length + 3 * maxSig + s.pipe / 1024 + 12 := by
  have hf : flushCostF s.pipe ≤ s.pipe / 1024 + 2 := by unfold flushCostF; omega
  unfold fcost
  cases th.pc with
  | flush m => simp only; omega
  | psNext m => simp only; split <;> omega
  | psClosed m => simp only; split <;> omega
  | ppClosed m => simp only; omega
  | ppCallback m => simp only; omega
  | psRecheck m => simp only; omega
  | idle => simp only; omega
  | dWake sg => simp only; omega
  | cWake => simp only; omega
  | scan m pos => simp only; omega

theorem fcovers_of_covers (th : Thread) (sig : Nat) (hm : th.pc.inForever = true) (hc : covers th sig = true) :
    fcovers th sig = true := by
  cases hpc : th.pc with
  | idle => rw [hpc] at hm; cases hm
  | dWake sg => rw [hpc] at hm; cases hm
  | cWake => rw [hpc] at hm; cases hm
  | scan m pos => rw [hpc] at hm; cases hm
  | flush m => simp [fcovers, hpc]
  | psClosed m => simpa [fcovers, covers, hpc] using hc
  | psNext m => simpa [fcovers, covers, hpc] using hc
  | ppClosed m => simp [covers, hpc] at hc
  | ppCallback m => simp [covers, hpc] at hc
  | psRecheck m => simp [covers, hpc] at hc

/-- the hypothesis `Due` is what the inductive invariant of `Props/C09.lean` provides for every reachable
state: a delivered signal whose wake-up has completed, in an open instance with a `forever()` consumer -/
theorem C09_forever_obtains_reachable {r : Bool} {c : Nat} {w : List Nat} {cap pipe : Nat}
    {scripts : List (List Cmd)} {s : Sys} (hg : GoodScripts c .B scripts) (hcap : 0 < cap)
    (hr : Reachable r w cap pipe scripts s) (th : Thread) (hth : s.threads[c]? = some th)
    (hmode : th.pc.inForever = true) (hopen : s.closed = false) (sig : Nat) (hin : (sig, true) ∈ s.unreported) :
    ∃ n, n ≤ fcost s th sig + 1 ∧ sig ∈ soloYields r s c n := by
  have hinv := wake_reachable hg hcap hr
  obtain ⟨hset, hlt⟩ := hinv.inSet _ hin
  have hann : 0 < s.pipe ∨ fcovers th sig = true := by
    rcases hinv.announced sig hin with h | h | ⟨th', hth', hc⟩
    · rw [hopen] at h; cases h
    · exact Or.inl h
    · rw [hth] at hth'; injection hth' with e; subst e
      exact Or.inr (fcovers_of_covers th sig hmode hc)
  exact C09_forever_obtains r (fcost s th sig) s c th sig hth ⟨hmode, hopen, hset, hlt, hann⟩ (Nat.le_refl _)

/-! ## non-vacuity: the delivery lands while the `forever()` consumer sits in its blocking read -/
example :
    let run := fun (s : Sys) (sched : List Nat) => sched.foldl (fun s t => match step true s t with | some (s', _) => s' | none => s) s
    let s := run (Sys.init [10] 278 0 [[.deliver 10], [.forever]]) (List.replicate 130 1 ++ [0, 0])
    (s.threads[1]?.map (fun th => (th.pc, fcost s th 10))) = some (.ppCallback .forever, 19) ∧ s.pipe = 1 ∧ s.set = [10] ∧
      (10, true) ∈ s.unreported ∧ 10 ∈ soloYields true s 1 20 := by
  decide +kernel

end SigHook.Iter
