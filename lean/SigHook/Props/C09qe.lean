import SigHook.Props.C09qc
/-!
# C09 for the queueing exfiltrators (continued) — a consumer that keeps polling obtains a queued record

`poll_signal` with the non-blocking callback over the model with per-signal queues (L8q), as `Props/C09e.lean` has
it for the flag exfiltrator. One call hands out one record. While a record of `sig` is due (queued, the instance
open, a wake-up byte in the pipe or the iterator not past the slot), no call answers `Pending`; every call hands
out one queued record, so a script holding as many further `poll` calls as records are queued gets to it, within
`pqcost` own steps, running alone.
-/
namespace SigHook.IterQ
open SigHook
open SigHook.Iter (Cmd Mode)

def Pc.inPoll : Pc → Bool
  | .idle | .flush .poll | .psClosed .poll | .psNext .poll | .psFin .poll _ | .ppClosed .poll | .ppCallback .poll
  | .psRecheck .poll => true
  | _ => false

def pcovers (th : Thread) (sig : Nat) : Bool :=
  match th.pc with
  | .flush _ => true
  | .idle | .psClosed _ | .psNext _ | .psFin _ _ => th.iterPos ≤ sig
  | _ => false

/-- how many further `poll` calls the script must hold -/
def pneed (s : Sys) (th : Thread) : Nat :=
  match th.pc with
  | .idle | .psRecheck _ | .psFin _ _ => s.q.length
  | _ => s.q.length - 1

/-- a record of `sig` is in the consumer's hands (next step: hand it out) -/
def inHandP (th : Thread) (sig : Nat) : Prop := (∃ id, th.pc = .psFin .poll id) ∧ th.iterPos = sig

structure DuePQ (s : Sys) (th : Thread) (sig : Nat) : Prop where
  mode : th.pc.inPoll = true
  polls : ∀ c ∈ th.script, c = Cmd.poll
  len : pneed s th ≤ th.script.length
  opn : s.closed = false
  lt : sig < maxSig
  due : inHandP th sig ∨ ((∃ r ∈ s.q, r.1 = sig) ∧ (0 < s.pipe ∨ pcovers th sig = true))

def pqcost (s : Sys) (th : Thread) (sig : Nat) : Nat :=
  let near := 3 * s.q.length + sig + 3
  let round := flushCostQ s.pipe + near + 4
  match th.pc with
  | .flush _ => flushCostQ s.pipe + near
  | .psNext _ => if th.iterPos ≤ sig then 3 * s.q.length + (sig - th.iterPos) + 2
                 else 3 * s.q.length + (maxSig - th.iterPos) + 1 + round
  | .psFin _ _ => if th.iterPos = sig then 1
                  else if th.iterPos ≤ sig then 3 * s.q.length + (sig - th.iterPos) + 4
                  else 3 * s.q.length + (maxSig - th.iterPos) + 3 + round
  | .psClosed _ | .idle => if th.iterPos ≤ sig then 3 * s.q.length + (sig - th.iterPos) + 3
                           else 3 * s.q.length + (maxSig - th.iterPos) + 2 + round
  | .ppClosed _ => round
  | .ppCallback _ => round - 1
  | .psRecheck _ => 3 * s.q.length + (maxSig - th.iterPos) + sig + 5 + round
  | _ => 0

theorem q_pos {s : Sys} {sig : Nat} (h : ∃ r ∈ s.q, r.1 = sig) : 1 ≤ s.q.length := by
  obtain ⟨r, hr, _⟩ := h; exact List.length_pos_of_mem hr

/-- one step of the polling consumer while a record of `sig` is due -/
theorem pdueq_step (rc : Bool) (s : Sys) (t : Nat) (th : Thread) (sig : Nat) (hth : s.threads[t]? = some th)
    (hd : DuePQ s th sig) :
    ∃ s' o th', step rc s t = some (s', o) ∧ s'.threads[t]? = some th' ∧
      ((∃ r, o.yielded = some r ∧ r.1 = sig) ∨ (DuePQ s' th' sig ∧ pqcost s' th' sig + 1 ≤ pqcost s th sig)) := by
  have hlt : t < s.threads.length := (List.getElem?_eq_some_iff.1 hth).1
  have get : ∀ (s0 : Sys) (th' : Thread), s0.threads = s.threads → (setT s0 t th').threads[t]? = some th' := by
    intro s0 th' e; simp [setT, e, hlt]
  obtain ⟨hmode, hpolls, hlen, hopen, hsl, hdue⟩ := hd
  have hopen' : ¬ s.closed = true := by rw [hopen]; simp
  unfold step
  simp only [hth]
  -- outside `psFin` nothing is in hand
  have notHand : (∀ i, th.pc ≠ .psFin .poll i) → (∃ r ∈ s.q, r.1 = sig) ∧ (0 < s.pipe ∨ pcovers th sig = true) := by
    intro h
    rcases hdue with ⟨⟨id, e⟩, _⟩ | h'
    · exact absurd e (h id)
    · exact h'
  cases hpc : th.pc with
  | dEnq sg i => rw [hpc] at hmode; cases hmode
  | dWake sg i => rw [hpc] at hmode; cases hmode
  | cWake => rw [hpc] at hmode; cases hmode
  | scan m pos => rw [hpc] at hmode; cases hmode
  | scanFin m pos i => rw [hpc] at hmode; cases hmode
  | idle =>
    obtain ⟨hq, hann⟩ := notHand (by rw [hpc]; intro i h; cases h)
    have hsp := q_pos hq
    have hlen' : s.q.length ≤ th.script.length := by simpa [pneed, hpc] using hlen
    cases hsc : th.script with
    | nil =>
      have h0 : th.script.length = 0 := by rw [hsc]; rfl
      omega
    | cons cmd rest =>
      have hcmd : cmd = .poll := hpolls cmd (by rw [hsc]; exact List.mem_cons_self)
      subst hcmd
      have hpolls' : ∀ c ∈ rest, c = Cmd.poll := fun c hc => hpolls c (by rw [hsc]; exact List.mem_cons_of_mem _ hc)
      have hlr : s.q.length - 1 ≤ rest.length := by
        have h1 : th.script.length = rest.length + 1 := by rw [hsc]; rfl
        omega
      simp only [step.stepPsClosed, hopen', if_false]
      by_cases hcov : th.iterPos ≤ sig
      · have hl : th.iterPos < maxSig := by omega
        refine ⟨_, _, _, rfl, get _ _ rfl, Or.inr ⟨⟨by simp [hl, Pc.inPoll], hpolls', by simpa [pneed, setT, hl] using hlr, hopen, hsl,
          Or.inr ⟨hq, Or.inr (by simp [pcovers, hl, hcov])⟩⟩, ?_⟩⟩
        simp only [pqcost, hpc, setT, hl, if_true, hcov]; omega
      · have hp : 0 < s.pipe := by
          rcases hann with h | h
          · exact h
          · simp [pcovers, hpc, hcov] at h
        by_cases hl : th.iterPos < maxSig
        · refine ⟨_, _, _, rfl, get _ _ rfl, Or.inr ⟨⟨by simp [hl, Pc.inPoll], hpolls', by simpa [pneed, setT, hl] using hlr, hopen, hsl,
            Or.inr ⟨hq, Or.inl hp⟩⟩, ?_⟩⟩
          simp only [pqcost, hpc, setT, hl, if_true, hcov, if_false]; omega
        · refine ⟨_, _, _, rfl, get _ _ rfl, Or.inr ⟨⟨by simp [hl, Pc.inPoll], hpolls', by simpa [pneed, setT, hl] using hlr, hopen, hsl,
            Or.inr ⟨hq, Or.inl hp⟩⟩, ?_⟩⟩
          simp only [pqcost, hpc, setT, hl, if_false, hcov]; omega
  | psFin m id =>
    have hm : m = .poll := by rw [hpc] at hmode; cases m <;> first | rfl | cases hmode
    subst hm
    have hlen' : s.q.length ≤ th.script.length := by simpa [pneed, hpc] using hlen
    simp only
    by_cases heq : th.iterPos = sig
    · exact ⟨_, _, _, rfl, get _ _ rfl, Or.inl ⟨_, rfl, heq⟩⟩
    · have hq : (∃ r ∈ s.q, r.1 = sig) ∧ (0 < s.pipe ∨ pcovers th sig = true) := by
        rcases hdue with ⟨_, h⟩ | h
        · exact absurd h heq
        · exact h
      refine ⟨_, _, _, rfl, get _ _ rfl, Or.inr ⟨⟨rfl, hpolls, by simpa [pneed, setT] using hlen', hopen, hsl, Or.inr ⟨hq.1, ?_⟩⟩, ?_⟩⟩
      · rcases hq.2 with h | h
        · exact Or.inl h
        · exact Or.inr (by simpa [pcovers, hpc] using h)
      · simp only [pqcost, hpc, setT, heq, if_false]
        by_cases hc : th.iterPos ≤ sig
        · simp only [hc, if_true]; omega
        · simp only [hc, if_false]; omega
  | flush m =>
    have hm : m = .poll := by rw [hpc] at hmode; cases m <;> first | rfl | cases hmode
    subst hm
    obtain ⟨hq, hann⟩ := notHand (by rw [hpc]; intro i h; cases h)
    have hlen' : s.q.length - 1 ≤ th.script.length := by simpa [pneed, hpc] using hlen
    simp only [step.stepFlush]
    by_cases hp : s.pipe > 0
    · simp only [hp, if_true]
      refine ⟨_, _, _, rfl, get _ _ rfl, Or.inr ⟨⟨rfl, hpolls, by simpa [pneed, setT] using hlen', hopen, hsl, Or.inr ⟨hq, Or.inr rfl⟩⟩, ?_⟩⟩
      have := flushCostQ_step s.pipe hp
      simp only [pqcost, hpc, setT]; omega
    · simp only [hp, if_false]
      have hp0 : s.pipe = 0 := by omega
      refine ⟨_, _, _, rfl, get _ _ rfl, Or.inr ⟨⟨rfl, hpolls, by simpa [pneed, setT] using hlen', hopen, hsl,
        Or.inr ⟨hq, Or.inr (by simp [pcovers])⟩⟩, ?_⟩⟩
      simp only [pqcost, hpc, setT, hp0, flushCostQ, Nat.zero_le, if_true]; omega
  | psClosed m =>
    have hm : m = .poll := by rw [hpc] at hmode; cases m <;> first | rfl | cases hmode
    subst hm
    obtain ⟨hq, hann⟩ := notHand (by rw [hpc]; intro i h; cases h)
    have hlen' : s.q.length - 1 ≤ th.script.length := by simpa [pneed, hpc] using hlen
    simp only [step.stepPsClosed, hopen', if_false]
    by_cases hcov : th.iterPos ≤ sig
    · have hl : th.iterPos < maxSig := by omega
      refine ⟨_, _, _, rfl, get _ _ rfl, Or.inr ⟨⟨by simp [hl, Pc.inPoll], hpolls, by simpa [pneed, setT, hl] using hlen', hopen, hsl,
        Or.inr ⟨hq, Or.inr (by simp [pcovers, hl, hcov])⟩⟩, ?_⟩⟩
      simp only [pqcost, hpc, setT, hl, if_true, hcov]; omega
    · have hp : 0 < s.pipe := by
        rcases hann with h | h
        · exact h
        · simp [pcovers, hpc, hcov] at h
      by_cases hl : th.iterPos < maxSig
      · refine ⟨_, _, _, rfl, get _ _ rfl, Or.inr ⟨⟨by simp [hl, Pc.inPoll], hpolls, by simpa [pneed, setT, hl] using hlen', hopen, hsl,
          Or.inr ⟨hq, Or.inl hp⟩⟩, ?_⟩⟩
        simp only [pqcost, hpc, setT, hl, if_true, hcov, if_false]; omega
      · refine ⟨_, _, _, rfl, get _ _ rfl, Or.inr ⟨⟨by simp [hl, Pc.inPoll], hpolls, by simpa [pneed, setT, hl] using hlen', hopen, hsl,
          Or.inr ⟨hq, Or.inl hp⟩⟩, ?_⟩⟩
        simp only [pqcost, hpc, setT, hl, if_false, hcov]; omega
  | psNext m =>
    have hm : m = .poll := by rw [hpc] at hmode; cases m <;> first | rfl | cases hmode
    subst hm
    obtain ⟨⟨r1, hr1, hr1s⟩, hann⟩ := notHand (by rw [hpc]; intro i h; cases h)
    have hsp : 1 ≤ s.q.length := List.length_pos_of_mem hr1
    have hlen' : s.q.length - 1 ≤ th.script.length := by simpa [pneed, hpc] using hlen
    simp only
    cases hh : headOf s.q th.iterPos with
    | some r0 =>
      simp only
      obtain ⟨h0s, h0m, _⟩ := head_erase s.q th.iterPos r0 hh
      have hlen2 := length_erase_rec s.q r0 h0m
      have hneed : (s.q.erase r0).length ≤ th.script.length := by omega
      by_cases heq : th.iterPos = sig
      · refine ⟨_, _, _, rfl, get _ _ rfl, Or.inr ⟨⟨rfl, hpolls, by simpa [pneed, setT] using hneed, hopen, hsl,
          Or.inl ⟨⟨_, rfl⟩, heq⟩⟩, ?_⟩⟩
        simp only [pqcost, hpc, setT, heq, Nat.le_refl, if_true]; omega
      · have hkeep : ∃ r ∈ s.q.erase r0, r.1 = sig := by
          refine ⟨r1, (List.mem_erase_of_ne ?_).2 hr1, hr1s⟩
          intro e; rw [e, h0s] at hr1s; exact heq hr1s
        by_cases hcov : th.iterPos ≤ sig
        · refine ⟨_, _, _, rfl, get _ _ rfl, Or.inr ⟨⟨rfl, hpolls, by simpa [pneed, setT] using hneed, hopen, hsl,
            Or.inr ⟨hkeep, Or.inr (by simp [pcovers, hcov])⟩⟩, ?_⟩⟩
          simp only [pqcost, hpc, setT, hcov, if_true, heq, if_false]; omega
        · have hp : 0 < s.pipe := by
            rcases hann with h | h
            · exact h
            · simp [pcovers, hpc, hcov] at h
          refine ⟨_, _, _, rfl, get _ _ rfl, Or.inr ⟨⟨rfl, hpolls, by simpa [pneed, setT] using hneed, hopen, hsl,
            Or.inr ⟨hkeep, Or.inl hp⟩⟩, ?_⟩⟩
          simp only [pqcost, hpc, setT, hcov, if_false, heq]; omega
    | none =>
      simp only
      have hne : th.iterPos ≠ sig := by
        intro e; exact head_none_ne s.q th.iterPos r1 hh hr1 (by rw [hr1s, e])
      by_cases hcov : th.iterPos ≤ sig
      · have hcov' : th.iterPos + 1 ≤ sig := by omega
        have hl : th.iterPos + 1 < maxSig := by omega
        refine ⟨_, _, _, rfl, get _ _ rfl, Or.inr ⟨⟨by simp [hl, Pc.inPoll], hpolls, by simpa [pneed, setT, hl] using hlen', hopen, hsl,
          Or.inr ⟨⟨r1, hr1, hr1s⟩, Or.inr (by simp [pcovers, hl, hcov'])⟩⟩, ?_⟩⟩
        simp only [pqcost, hpc, setT, hl, if_true, hcov, hcov']; omega
      · have hp : 0 < s.pipe := by
          rcases hann with h | h
          · exact h
          · simp [pcovers, hpc, hcov] at h
        have hcov' : ¬ th.iterPos + 1 ≤ sig := by omega
        by_cases hl : th.iterPos + 1 < maxSig
        · refine ⟨_, _, _, rfl, get _ _ rfl, Or.inr ⟨⟨by simp [hl, Pc.inPoll], hpolls, by simpa [pneed, setT, hl] using hlen', hopen, hsl,
            Or.inr ⟨⟨r1, hr1, hr1s⟩, Or.inl hp⟩⟩, ?_⟩⟩
          simp only [pqcost, hpc, setT, hl, if_true, hcov, hcov', if_false]; omega
        · refine ⟨_, _, _, rfl, get _ _ rfl, Or.inr ⟨⟨by simp [hl, Pc.inPoll], hpolls, by simpa [pneed, setT, hl] using hlen', hopen, hsl,
            Or.inr ⟨⟨r1, hr1, hr1s⟩, Or.inl hp⟩⟩, ?_⟩⟩
          simp only [pqcost, hpc, setT, hl, if_false, hcov]; omega
  | ppClosed m =>
    have hm : m = .poll := by rw [hpc] at hmode; cases m <;> first | rfl | cases hmode
    subst hm
    obtain ⟨hq, hann⟩ := notHand (by rw [hpc]; intro i h; cases h)
    have hlen' : s.q.length - 1 ≤ th.script.length := by simpa [pneed, hpc] using hlen
    have hp : 0 < s.pipe := by
      rcases hann with h | h
      · exact h
      · simp [pcovers, hpc] at h
    simp only [hopen', if_false]
    refine ⟨_, _, _, rfl, get _ _ rfl, Or.inr ⟨⟨rfl, hpolls, by simpa [pneed, setT] using hlen', hopen, hsl, Or.inr ⟨hq, Or.inl hp⟩⟩, ?_⟩⟩
    simp only [pqcost, hpc, setT, flushCostQ]; omega
  | psRecheck m =>
    have hm : m = .poll := by rw [hpc] at hmode; cases m <;> first | rfl | cases hmode
    subst hm
    obtain ⟨hq, hann⟩ := notHand (by rw [hpc]; intro i h; cases h)
    have hlen' : s.q.length ≤ th.script.length := by simpa [pneed, hpc] using hlen
    have hp : 0 < s.pipe := by
      rcases hann with h | h
      · exact h
      · simp [pcovers, hpc] at h
    simp only [hopen', if_false]
    refine ⟨_, _, _, rfl, get _ _ rfl, Or.inr ⟨⟨rfl, hpolls, by simpa [pneed, setT] using hlen', hopen, hsl, Or.inr ⟨hq, Or.inl hp⟩⟩, ?_⟩⟩
    simp only [pqcost, hpc, setT]
    by_cases hcov : th.iterPos ≤ sig
    · simp only [hcov, if_true]; omega
    · simp only [hcov, if_false]; omega
  | ppCallback m =>
    have hm : m = .poll := by rw [hpc] at hmode; cases m <;> first | rfl | cases hmode
    subst hm
    obtain ⟨hq, hann⟩ := notHand (by rw [hpc]; intro i h; cases h)
    have hlen' : s.q.length - 1 ≤ th.script.length := by simpa [pneed, hpc] using hlen
    have hp : 0 < s.pipe := by
      rcases hann with h | h
      · exact h
      · simp [pcovers, hpc] at h
    have hp0 : ¬ s.pipe = 0 := by omega
    simp only [blocking, Bool.false_eq_true, if_false, hp0]
    refine ⟨_, _, _, rfl, get _ _ rfl, Or.inr ⟨⟨rfl, hpolls, by simpa [pneed, setT] using hlen', hopen, hsl, Or.inr ⟨hq, Or.inr rfl⟩⟩, ?_⟩⟩
    have := flushCostQ_mono s.pipe
    simp only [pqcost, hpc, setT, flushCostQ] at this ⊢; omega

/-- **C09.queue_poll_obtains** — while the instance is open, a polling consumer for which a record of `sig` is
due and whose script holds enough further `poll` calls hands a record of `sig` out within `pqcost` own steps,
running alone. -/
theorem C09_queue_poll_obtains (rc : Bool) :
    ∀ (k : Nat) (s : Sys) (t : Nat) (th : Thread) (sig : Nat), s.threads[t]? = some th → DuePQ s th sig →
      pqcost s th sig ≤ k → ∃ n, n ≤ k + 1 ∧ ∃ r ∈ soloYieldsQ rc s t n, r.1 = sig := by
  intro k
  induction k with
  | zero =>
    intro s t th sig hth hd hk
    obtain ⟨s', o, th', hs, _, hres⟩ := pdueq_step rc s t th sig hth hd
    rcases hres with ⟨r, hy, hr⟩ | ⟨_, hlt⟩
    · exact ⟨1, by omega, r, by simp [soloYieldsQ, hs, hy], hr⟩
    · omega
  | succ k ih =>
    intro s t th sig hth hd hk
    obtain ⟨s', o, th', hs, hth', hres⟩ := pdueq_step rc s t th sig hth hd
    rcases hres with ⟨r, hy, hr⟩ | ⟨hd', hlt⟩
    · exact ⟨1, by omega, r, by simp [soloYieldsQ, hs, hy], hr⟩
    · obtain ⟨n, hn, r, hmem, hr⟩ := ih s' t th' sig hth' hd' (by omega)
      exact ⟨n + 1, by omega, r, by simp only [soloYieldsQ, hs]; exact List.mem_append_right _ hmem, hr⟩

theorem pcovers_of_covers (th : Thread) (sig : Nat) (hm : th.pc.inPoll = true) (hc : covers th sig = true) :
    pcovers th sig = true := by
  cases hpc : th.pc with
  | idle => simp only [covers, hpc, Bool.and_eq_true, decide_eq_true_eq] at hc; simp [pcovers, hpc, hc.2]
  | dEnq sg i => simp [covers, hpc] at hc
  | dWake sg i => simp [covers, hpc] at hc
  | cWake => simp [covers, hpc] at hc
  | scan m pos => rw [hpc] at hm; cases hm
  | scanFin m pos i => rw [hpc] at hm; cases hm
  | flush m => simp [pcovers, hpc]
  | psClosed m => simpa [pcovers, covers, hpc] using hc
  | psNext m => simpa [pcovers, covers, hpc] using hc
  | psFin m i => simpa [pcovers, covers, hpc] using hc
  | ppClosed m => simp [covers, hpc] at hc
  | ppCallback m => simp [covers, hpc] at hc
  | psRecheck m => simp [covers, hpc] at hc

/-- `DuePQ` is what `WakeQ` provides for every reachable state: a queued record whose delivery has completed its
wake-up, in an open instance with a polling consumer that has enough `poll` calls left -/
theorem C09_queue_poll_obtains_reachable {rc : Bool} {c : Nat} {w : List Nat} {cap pipe : Nat}
    {scripts : List (List Cmd)} {s : Sys} (hg : GoodScripts c .B scripts) (hcap : 0 < cap)
    (hr : Reachable rc w cap pipe scripts s) (th : Thread) (hth : s.threads[c]? = some th)
    (hmode : th.pc.inPoll = true) (hpolls : ∀ cmd ∈ th.script, cmd = Cmd.poll) (hlen : pneed s th ≤ th.script.length)
    (hopen : s.closed = false) (r : Rec) (hq : r ∈ s.q) (hw : r.2 ∈ s.woken) :
    ∃ n, n ≤ pqcost s th r.1 + 1 ∧ ∃ r' ∈ soloYieldsQ rc s c n, r'.1 = r.1 := by
  have hinv := wakeq_reachable hg hcap hr
  have hlt := hinv.inRange r hq
  have hann : 0 < s.pipe ∨ pcovers th r.1 = true := by
    rcases hinv.announced r hq hw with h | h | ⟨th', hth', hc⟩
    · rw [hopen] at h; cases h
    · exact Or.inl h
    · rw [hth] at hth'; injection hth' with e; subst e
      exact Or.inr (pcovers_of_covers th r.1 hmode hc)
  exact C09_queue_poll_obtains rc (pqcost s th r.1) s c th r.1 hth
    ⟨hmode, hpolls, hlen, hopen, hlt, Or.inr ⟨⟨r, hq, rfl⟩, hann⟩⟩ (Nat.le_refl _)

/-! ## non-vacuity: three records (two signals) queued while the poller is parked; three calls hand them out -/
example :
    let run := fun (s : Sys) (sched : List Nat) => sched.foldl (fun s t => match step true s t with | some (s', _) => s' | none => s) s
    let s := run (Sys.init [10, 12] 278 0 [[.deliver 12, .deliver 10, .deliver 12], [.poll, .poll, .poll, .poll]])
      (List.replicate 132 1 ++ [0, 0, 0, 0, 0, 0, 0, 0, 0])
    (s.threads[1]?.map (fun th => (th.pc, th.script.length, th.iterPos))) = some (.idle, 3, 128) ∧ s.pipe = 3 ∧
      s.q = [(12, 1), (10, 2), (12, 3)] ∧ soloYieldsQ true s 1 600 = [(10, 2), (12, 1), (12, 3)] := by
  decide +kernel

end SigHook.IterQ
