import SigHook.Props.C06
import SigHook.Props.C08
import SigHook.Lemmas.ChannelPay
/-!
# C06 (continued) — the values, not just the indexes

> … `recv` hands the values out in the order in which they were accepted; nothing is duplicated, invented
> or lost while it is queued.

`Props/C06.lean` proves FIFO at the level of slot *indexes* (every successful compare-exchange pops the head
or appends at the tail of a well-formed queue value). This file lifts it to the *values*: history variables
(`Lemmas/ChannelPay.lean`) record, outside the model, which value each `send` wrote into its cell (`wrote`,
`wr`), the values in the order in which they entered the `full` queue (`sent`) and left it (`got`), and the
pair a `recv` holds between unlinking an index and emptying its cell (`tk`). For every reachable state of the
N-thread weak-memory model - any scripts, every interleaving, every stale read and spurious failure:

* `C06_values_fifo`        — the values that have left `full` are an initial segment of those that entered it,
                              in that order;
* `C06_values_are_sent`    — every value that entered `full` is a value some `send` wrote (its argument);
* `C06_recv_takes_its_own` — what a `recv` takes out of its cell is the value recorded when it unlinked the
                              index (nobody touched the cell in between), and that value is in `got`;
* `C06_queued_values_intact` — while queued, a value sits unchanged in the cell of its index.
-/
namespace SigHook.Channel
open SigHook SigHook.Packed

/-- reachable states together with their history variables -/
inductive GReach (o : Orders) (scripts : List (List Cmd)) : Sys → Gh → Prop where
  | init : GReach o scripts (Sys.init scripts) {}
  | step {s s' : Sys} {g : Gh} {t : Nat} {th : Thread} {c : Choice} {out : Out} :
      GReach o scripts s g → s.threads[t]? = some th → step o s t c = some (s', out) →
      GReach o scripts s' (g.next s th.pc out.obs)

theorem greach_reachable {o : Orders} {scripts : List (List Cmd)} {s : Sys} {g : Gh}
    (h : GReach o scripts s g) : Reachable o scripts s := by
  induction h with
  | init => exact Reachable.init
  | step _ _ hs ih => exact Reachable.step ih hs

theorem pinv_init (scripts : List (List Cmd)) : PInv (Sys.init scripts) {} := by
  refine ⟨?_, (by intro e he; cases he), (by intro e he; cases he), (by intro e he; cases he), ?_, ?_, rfl,
    (by intro e he; cases he), (by intro x hx; cases hx), (by intro e he; cases he)⟩
  · show [] = LQ (lastMsg [{ val := 0, view := View.bot }])
    decide
  · intro t th idx ht hr
    obtain ⟨hpc, _⟩ := init_threads scripts t th ht
    rcases hr with ⟨r, h⟩ | ⟨r, cur, h⟩ <;> (rw [hpc] at h; cases h)
  · intro t th idx ht hr
    obtain ⟨hpc, _⟩ := init_threads scripts t th ht
    rw [hpc] at hr; cases hr

theorem pinv_reachable {o : Orders} (hrel : o.enqSucc.hasRelease = true) (hacq : o.deqSucc.hasAcquire = true)
    {scripts : List (List Cmd)} {s : Sys} {g : Gh} (h : GReach o scripts s g) : Inv s ∧ PInv s g := by
  induction h with
  | init => exact ⟨inv_init scripts, pinv_init scripts⟩
  | step _ hth hs ih =>
    obtain ⟨hI, hP⟩ := ih
    obtain ⟨hI', hnp, _⟩ := inv_step hrel hacq hI hs
    exact ⟨hI', pinv_step hI hP hth (cstep_of hth hs) hnp⟩

/-- **C06.values_fifo** — the values that have left the `full` queue are an initial segment of the values
that entered it, in the order in which they entered. -/
theorem C06_values_fifo {scripts : List (List Cmd)} {s : Sys} {g : Gh} (hr : GReach genOrders scripts s g) :
    g.got <+: g.sent := by
  have hP := (pinv_reachable C07_orderings_side_condition.1 C07_orderings_side_condition.2 hr).2
  exact ⟨_, hP.fifo.symm⟩

/-- **C06.values_are_sent** — every value that entered the `full` queue (hence every value handed out) is a
value that a `send` wrote into its cell: nothing is invented. -/
theorem C06_values_are_sent {scripts : List (List Cmd)} {s : Sys} {g : Gh} (hr : GReach genOrders scripts s g) :
    (∀ x ∈ g.sent, x ∈ g.wrote) ∧ (∀ x ∈ g.got, x ∈ g.wrote) := by
  have hP := (pinv_reachable C07_orderings_side_condition.1 C07_orderings_side_condition.2 hr).2
  refine ⟨hP.sentW, fun x hx => hP.sentW x ?_⟩
  rw [hP.fifo]; exact List.mem_append_left _ hx

/-- **C06.queued_values_intact** — the `full` queue's latest value lists exactly the recorded indexes, oldest
first, and the cell of each still holds the value recorded for it. -/
theorem C06_queued_values_intact {scripts : List (List Cmd)} {s : Sys} {g : Gh} (hr : GReach genOrders scripts s g) :
    g.fq.map (·.1) = LQ (lastMsg s.full) ∧ ∀ e ∈ g.fq, s.cells.getD (e.1 - 1) none = some e.2 := by
  have hP := (pinv_reachable C07_orderings_side_condition.1 C07_orderings_side_condition.2 hr).2
  exact ⟨hP.keysF, hP.cellF⟩

/-- **C06.recv_takes_its_own** — a `recv` that has unlinked index `idx` finds in the cell the value that was
recorded for `idx` when it unlinked it (the one that has joined `got`), and hands exactly that to its caller:
its next step exists, does not panic, and leaves it returning that value. -/
theorem C06_recv_takes_its_own {scripts : List (List Cmd)} {s : Sys} {g : Gh} (hr : GReach genOrders scripts s g)
    (t : Nat) (th : Thread) (idx : Nat) (c : Choice) (hth : s.threads[t]? = some th) (hpc : th.pc = .take idx) :
    ∃ tg, (idx, tg) ∈ g.tk ∧ tg ∈ g.got ∧ s.cells.getD (idx - 1) none = some tg ∧
      ∃ s' out, step genOrders s t c = some (s', out) ∧ out.panic = none ∧
        ∃ th', s'.threads[t]? = some th' ∧ th'.pc = .enqLoad .empty idx (some tg) := by
  obtain ⟨hI, hP⟩ := pinv_reachable C07_orderings_side_condition.1 C07_orderings_side_condition.2 hr
  obtain ⟨tg, hm⟩ := hP.ownT t th idx hth hpc
  have hc := (hP.cellT _ hm).1
  have hlt : t < s.threads.length := (List.getElem?_eq_some_iff.1 hth).1
  refine ⟨tg, hm, hP.tkGot _ hm, hc, ?_⟩
  simp only at hc
  have hen : (step genOrders s t c).isSome = true :=
    C08_never_waits genOrders s t c th hth (Or.inl (by rw [hpc]; intro h; cases h))
  cases hs : step genOrders s t c with
  | none => rw [hs] at hen; cases hen
  | some r =>
    obtain ⟨s', out⟩ := r
    have h := cstep_of hth hs
    cases h with
    | takeSome i tag hpc' hc' =>
      rw [hpc] at hpc'; injection hpc' with e; subst e
      rw [hc] at hc'; injection hc' with e; subst e
      exact ⟨_, _, rfl, rfl, _, setTh_get _ _ _ (by simpa [cellSys] using hlt), rfl⟩
    | takeNone i hpc' hc' =>
      rw [hpc] at hpc'; injection hpc' with e; subst e
      rw [hc] at hc'; cases hc'
    | startNone q tag rest hpc' => rw [hpc] at hpc'; cases hpc'
    | startGo q tag rest hpc' => rw [hpc] at hpc'; cases hpc'
    | deqOk q tag cur hpc' => rw [hpc] at hpc'; cases hpc'
    | deqFailNone q tag cur hpc' => rw [hpc] at hpc'; cases hpc'
    | deqFailRetry q tag cur hpc' => rw [hpc] at hpc'; cases hpc'
    | write i tag hpc' => rw [hpc] at hpc'; cases hpc'
    | enqLoad q i ret hpc' => rw [hpc] at hpc'; cases hpc'
    | enqPanic q i ret cur hpc' => rw [hpc] at hpc'; cases hpc'
    | enqOk q i ret cur new hpc' => rw [hpc] at hpc'; cases hpc'
    | enqFail q i ret cur new hpc' => rw [hpc] at hpc'; cases hpc'

/-! ## non-vacuity: two senders and a receiver; the receiver gets the first value that entered `full` -/
example :
    let run := fun (s : Sys × Gh) (sched : List Nat) => sched.foldl (fun (p : Sys × Gh) t =>
      match p.1.threads[t]?, step genOrders p.1 t {} with
      | some th, some (s', out) => (s', p.2.next p.1 th.pc out.obs)
      | _, _ => p) s
    let p := run (Sys.init [[.send 7], [.send 9], [.recv]], {}) [1, 1, 0, 0, 1, 1, 1, 0, 0, 0, 2, 2, 2]
    p.2.sent = [9, 7] ∧ p.2.got = [9] ∧ p.2.wrote = [9, 7] ∧ p.2.fq.map (·.2) = [7] := by
  decide +kernel

end SigHook.Channel
