import SigHook.Model.Builtin
import SigHook.Gen.Consts
import SigHook.Gen.Platform
import SigHook.Gen.Orderings
import SigHook.Model.Skel
/-!
# C15 — Flags and conditional shutdown do exactly what the flag state dictates

> After a delivery returns, a registered flag holds true (or the registered value) regardless of
> what the application wrote before. A conditional shutdown terminates the process during a
> delivery if and only if its condition is true at that moment, immediately, with exactly the
> requested exit status and without running exit-time hooks - so 'shutdown registered first, arming
> flag second' survives the first termination signal and dies on the second, for every arm/disarm
> history.

Model L7 (`Model/Builtin.lean`): any list of actions (in registration order), any flag contents,
any history of application writes and deliveries.
-/
namespace SigHook.Builtin

@[simp] theorem getF_setF (fl : Flags) (f g v : Nat) : getF (setF fl f v) g = if f = g then v else getF fl g := rfl

/-- the value an action writes into flag `f`, if it writes it -/
def setsTo (a : Action) (f : Nat) : Option Nat :=
  match a with
  | .setTrue g => if g = f then some 1 else none
  | .setUsize g v => if g = f then some v else none
  | .condShutdown _ _ => none

def writes (acts : List Action) (f : Nat) : Bool := acts.any (fun a => (setsTo a f).isSome)

theorem deliver_flag (acts : List Action) (fl fl' : Flags) (f v : Nat)
    (h : deliver acts fl = .returned fl')
    (hv : ∀ a ∈ acts, ∀ u, setsTo a f = some u → u = v) :
    getF fl' f = if writes acts f then v else getF fl f := by
  induction acts generalizing fl with
  | nil => simp [deliver] at h; subst h; simp [writes]
  | cons a rest ih =>
    have hv' : ∀ a ∈ rest, ∀ u, setsTo a f = some u → u = v := fun a ha => hv a (List.mem_cons_of_mem _ ha)
    cases a with
    | setTrue g =>
      simp only [deliver] at h
      rw [ih _ h hv']
      by_cases hg : g = f
      · have := hv (.setTrue g) (by simp) 1 (by simp [setsTo, hg])
        simp [writes, setsTo, hg, this]
      · simp [writes, setsTo, hg]
    | setUsize g u =>
      simp only [deliver] at h
      rw [ih _ h hv']
      by_cases hg : g = f
      · have := hv (.setUsize g u) (by simp) u (by simp [setsTo, hg])
        simp [writes, setsTo, hg, this]
      · simp [writes, setsTo, hg]
    | condShutdown st g =>
      simp only [deliver] at h
      split at h
      · cases h
      · rw [ih _ h hv']; simp [writes, setsTo]

/-- **C15.flag_set** — if a delivery returns, a flag registered with `flag::register` holds true,
whatever the application wrote before (and whatever else is registered, as long as nothing else
writes that flag). -/
theorem C15_flag_set (acts : List Action) (fl fl' : Flags) (f : Nat)
    (h : deliver acts fl = .returned fl') (hreg : .setTrue f ∈ acts)
    (honly : ∀ g v, .setUsize g v ∈ acts → g ≠ f) : getF fl' f = 1 := by
  have hv : ∀ a ∈ acts, ∀ u, setsTo a f = some u → u = 1 := by
    intro a ha u hu
    cases a with
    | setTrue g => simp only [setsTo] at hu; split at hu <;> simp_all
    | setUsize g v =>
      simp only [setsTo] at hu
      split at hu
      · rename_i hg; exact absurd hg (honly g v ha)
      · cases hu
    | condShutdown st g => cases hu
  rw [deliver_flag acts fl fl' f 1 h hv]
  have : writes acts f = true := by
    simp only [writes, List.any_eq_true]
    exact ⟨.setTrue f, hreg, by simp [setsTo]⟩
  simp [this]

/-- the same for `register_usize`: the flag holds the registered value -/
theorem C15_usize_set (acts : List Action) (fl fl' : Flags) (f v : Nat)
    (h : deliver acts fl = .returned fl') (hreg : .setUsize f v ∈ acts)
    (honly : ∀ a ∈ acts, ∀ u, setsTo a f = some u → u = v) : getF fl' f = v := by
  rw [deliver_flag acts fl fl' f v h honly]
  have : writes acts f = true := by
    simp only [writes, List.any_eq_true]
    exact ⟨.setUsize f v, hreg, by simp [setsTo]⟩
  simp [this]

/-- the flag contents when execution reaches position `k` of the action list (if it does) -/
def reach : List Action → Flags → Nat → Option Flags
  | _, fl, 0 => some fl
  | [], _, _ + 1 => none
  | .setTrue f :: rest, fl, k + 1 => reach rest (setF fl f 1) k
  | .setUsize f v :: rest, fl, k + 1 => reach rest (setF fl f v) k
  | .condShutdown _ f :: rest, fl, k + 1 => if getF fl f != 0 then none else reach rest fl k

/-- **C15.shutdown_iff** — a delivery terminates the process if and only if some conditional
shutdown's condition is true at the moment it is reached; it then ends with exactly that
shutdown's status (mod 256), without exit hooks, and no later action has run (the flags are those
at that moment). -/
theorem C15_shutdown_iff (acts : List Action) (fl : Flags) :
    (∃ code hooks fl', deliver acts fl = .exited code hooks fl') ↔
    (∃ k st f flk, acts[k]? = some (.condShutdown st f) ∧ reach acts fl k = some flk ∧ getF flk f ≠ 0) := by
  induction acts generalizing fl with
  | nil => simp [deliver]
  | cons a rest ih =>
    cases a with
    | setTrue g =>
      simp only [deliver, ih]
      constructor
      · rintro ⟨k, st, f, flk, h1, h2, h3⟩; exact ⟨k + 1, st, f, flk, by simpa using h1, by simpa [reach] using h2, h3⟩
      · rintro ⟨k, st, f, flk, h1, h2, h3⟩
        cases k with
        | zero => simp at h1
        | succ k => exact ⟨k, st, f, flk, by simpa using h1, by simpa [reach] using h2, h3⟩
    | setUsize g v =>
      simp only [deliver, ih]
      constructor
      · rintro ⟨k, st, f, flk, h1, h2, h3⟩; exact ⟨k + 1, st, f, flk, by simpa using h1, by simpa [reach] using h2, h3⟩
      · rintro ⟨k, st, f, flk, h1, h2, h3⟩
        cases k with
        | zero => simp at h1
        | succ k => exact ⟨k, st, f, flk, by simpa using h1, by simpa [reach] using h2, h3⟩
    | condShutdown st g =>
      simp only [deliver]
      by_cases hc : getF fl g != 0
      · simp only [hc, if_true]
        constructor
        · intro _; exact ⟨0, st, g, fl, by simp, by simp [reach], by simpa using hc⟩
        · intro _; exact ⟨_, _, _, rfl⟩
      · simp only [hc, Bool.false_eq_true, if_false, ih]
        constructor
        · rintro ⟨k, st', f, flk, h1, h2, h3⟩
          exact ⟨k + 1, st', f, flk, by simpa using h1, by simp [reach, hc]; exact h2, h3⟩
        · rintro ⟨k, st', f, flk, h1, h2, h3⟩
          cases k with
          | zero =>
            simp at h1; obtain ⟨rfl, rfl⟩ := h1
            simp [reach] at h2; subst h2
            exact absurd (by simpa using h3) hc
          | succ k => exact ⟨k, st', f, flk, by simpa using h1, by simpa [reach, hc] using h2, h3⟩

/-- what exactly the terminating delivery looks like: status of the first shutdown whose
condition holds, no exit hooks -/
theorem C15_shutdown_exact (acts : List Action) (fl : Flags) (code : Nat) (hooks : Bool) (fl' : Flags)
    (h : deliver acts fl = .exited code hooks fl') :
    hooks = false ∧ ∃ st f, .condShutdown st f ∈ acts ∧ code = exitCode st ∧ getF fl' f ≠ 0 := by
  induction acts generalizing fl with
  | nil => simp [deliver] at h
  | cons a rest ih =>
    cases a with
    | setTrue g =>
      obtain ⟨h1, st, f, h2, h3⟩ := ih _ (by simpa [deliver] using h)
      exact ⟨h1, st, f, List.mem_cons_of_mem _ h2, h3⟩
    | setUsize g v =>
      obtain ⟨h1, st, f, h2, h3⟩ := ih _ (by simpa [deliver] using h)
      exact ⟨h1, st, f, List.mem_cons_of_mem _ h2, h3⟩
    | condShutdown st g =>
      simp only [deliver] at h
      split at h
      · rename_i hc
        simp only [Outcome.exited.injEq] at h
        obtain ⟨rfl, rfl, rfl⟩ := h
        exact ⟨rfl, st, g, by simp, rfl, by simpa using hc⟩
      · obtain ⟨h1, st', f, h2, h3⟩ := ih _ h
        exact ⟨h1, st', f, List.mem_cons_of_mem _ h2, h3⟩

/-- **C15.double_signal_pattern** — "shutdown registered first, arming flag second" on one flag
`f` (nothing else touching `f`): a delivery with the flag false survives and leaves it true; a
delivery with the flag true terminates with the requested status — whatever the application did
to the flag in between (for every arm / disarm history this is what each delivery does). -/
theorem C15_double_signal_pattern (st : Int) (f : Nat) (fl : Flags) :
    (getF fl f = 0 → ∃ fl', deliver [.condShutdown st f, .setTrue f] fl = .returned fl' ∧ getF fl' f = 1) ∧
    (getF fl f ≠ 0 → deliver [.condShutdown st f, .setTrue f] fl = .exited (exitCode st) false fl) := by
  constructor
  · intro h; exact ⟨setF fl f 1, by simp [deliver, h], by simp⟩
  · intro h; simp [deliver, h]

/-- with the registrations in the other order the first delivery already terminates -/
theorem C15_other_order_dies_first (st : Int) (f : Nat) (fl : Flags) :
    deliver [.setTrue f, .condShutdown st f] fl = .exited (exitCode st) false (setF fl f 1) := by
  simp [deliver]

/-- the whole-history form: two deliveries with nothing in between always end the process at the
second one (first one survives iff the flag was disarmed) -/
theorem C15_two_signals (st : Int) (f : Nat) (fl : Flags) (h : getF fl f = 0) :
    ∃ fl', run [.condShutdown st f, .setTrue f] fl [.raise, .raise] = .exited (exitCode st) false fl' := by
  exact ⟨setF fl f 1, by simp [run, deliver, h]⟩

/-- disarming in between saves the process again -/
theorem C15_disarm_between (st : Int) (f : Nat) (fl : Flags) (h : getF fl f = 0) :
    ∃ fl', run [.condShutdown st f, .setTrue f] fl [.raise, .write f 0, .raise] = .returned fl' ∧ getF fl' f = 1 := by
  exact ⟨setF (setF (setF fl f 1) f 0) f 1, by simp [run, deliver, h], by simp⟩

/-! ## Round sixteen: whole histories, any actions -/

/-- **C15.history_shutdown_exact** — for every list of flag actions and every history of application writes and
deliveries: if the process ends, it ended inside a delivery, without exit hooks, with the status of a registered
conditional shutdown whose flag was non-zero at that moment. No history ends the process any other way. -/
theorem C15_history_shutdown_exact (acts : List Action) (evs : List Ev) (fl : Flags) (code : Nat) (hooks : Bool)
    (fl' : Flags) (h : run acts fl evs = .exited code hooks fl') :
    hooks = false ∧ ∃ st f, .condShutdown st f ∈ acts ∧ code = exitCode st ∧ getF fl' f ≠ 0 := by
  induction evs generalizing fl with
  | nil => simp [run] at h
  | cons ev evs ih =>
    cases ev with
    | write f v => exact ih (setF fl f v) (by simpa [run] using h)
    | raise =>
      simp only [run] at h
      cases hd : deliver acts fl with
      | returned fl1 => rw [hd] at h; exact ih fl1 h
      | exited c hk fl1 =>
        rw [hd] at h
        injection h with h1 h2 h3
        subst h1; subst h2; subst h3
        exact C15_shutdown_exact acts fl c hk fl1 hd

/-- **C15.history_no_shutdown_registered** — with no conditional shutdown among the actions, no history ends the
process: flags alone never terminate anything. -/
theorem C15_history_no_shutdown_registered (acts : List Action) (evs : List Ev) (fl : Flags)
    (hno : ∀ st f, .condShutdown st f ∉ acts) : ∃ fl', run acts fl evs = .returned fl' := by
  cases h : run acts fl evs with
  | returned fl' => exact ⟨fl', rfl⟩
  | exited c hk fl' =>
    obtain ⟨_, st, f, hm, _⟩ := C15_history_shutdown_exact acts evs fl c hk fl' h
    exact absurd hm (hno st f)

/-- exit status as the parent sees it -/
theorem C15_exit_code_range (st : Int) : exitCode st < 256 := by
  unfold exitCode; omega

/-! ## Tie: the orderings of the flag actions (informational: SeqCst in the source) -/
theorem C15_flag_orderings_seqcst :
    ∀ r ∈ Gen.orderings, r.1 = "src/flag.rs" → ∀ o ∈ r.2.2.2.2, o = Ord.seqCst := by decide


/-- **C15.deliveries_do_not_nest** — tie to the source (regenerated): the library installs its
handler without `SA_NODEFER` and without `SA_RESETHAND`, so the signal stays blocked while its
actions run and stays handled afterwards: deliveries of one signal are the *sequence* the model
assumes (`run`), never nested inside one another between two actions. -/
theorem C15_deliveries_do_not_nest :
    Gen.libFlags &&& Gen.SA_NODEFER.toNat = 0 ∧ Gen.libFlags &&& Gen.SA_RESETHAND.toNat = 0 ∧
    Gen.SA_NODEFER ≠ 0 ∧ Gen.SA_RESETHAND ≠ 0 := by decide

/-- **C15.action_skeleton** — tie to the source (regenerated): the four flag actions are exactly what the
model's `Action`s do. `register` / `register_usize` are one unconditional `store` (SeqCst) of `true` / of
the registered value - no read-modify-write, no condition; the conditional shutdown is one `load` (SeqCst)
of the condition followed by `low_level::exit(status)`, which is `libc::_exit` (no exit-time hooks); the
conditional default checks that the signal is known, then loads the condition and emulates the default. -/
theorem C15_action_skeleton :
    skelOf "src/flag.rs" "register" = ["store.true.seqcst"] ∧
    skelOf "src/flag.rs" "register_usize" = ["store.value.seqcst"] ∧
    skelOf "src/flag.rs" "register_conditional_shutdown" = ["load.seqcst", "low_level.exit"] ∧
    skelOf "src/flag.rs" "register_conditional_default" = ["signal_name.check", "load.seqcst", "emulate"] ∧
    skelOf "src/low_level/mod.rs" "exit" = ["_exit"] := by decide


end SigHook.Builtin
