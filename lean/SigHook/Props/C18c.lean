import SigHook.Props.C18b
import SigHook.Lemmas.HalfLock
/-!
# C18 (continued) — the slot a writer has switched away from only drains

`Props/C18b.lean` ends with what the barrier does *not* promise. This file is what it does promise, and why the
generation switch is there: once a writer is in its waiting loop, every reader that reads the generation from then
on enters the *other* slot. So the slot the writer switched away from can only lose readers - apart from *stale
entrants*, readers that had read the generation before the switch and have not incremented yet, of which there are
finitely many and none after they have entered. Its count never goes up again (`C18_switched_away_slot_only_drains`),
for as long as the writer is in the loop, under any schedule, with any number of deliveries arriving meanwhile. If the
writer has already seen the current slot empty (the normal case: it looked before it switched), that draining slot
is all it waits for, and no stream of later deliveries can hold it.
-/
namespace SigHook.HalfLock

/-- inside the waiting loop of `write_barrier`, after the generation switch -/
def Pc.inLoop : Pc → Bool
  | .wHint .. | .wLoop0 .. | .wLoop1 .. => true
  | _ => false

def InLoop (s : Sys) (t : Nat) : Prop := ∃ th, s.threads[t]? = some th ∧ th.pc.inLoop = true

/-- no reader is about to enter slot `k` on the strength of a generation it read earlier -/
def NoEntrant (s : Sys) (k : Nat) : Prop := ∀ th ∈ s.threads, ∀ g u, th.pc = .rInc g u → g % 2 ≠ k

theorem lockOf_setLock_other (s : Sys) (a k v : Nat) (ha : a < 2) (hk : k < 2) (h : a ≠ k) :
    (s.setLock a v).lockOf k = s.lockOf k := by
  unfold Sys.setLock Sys.lockOf
  by_cases ha0 : a = 0 <;> by_cases hk0 : k = 0 <;> simp [ha0, hk0] <;> omega

theorem lockOf_setLock_same (s : Sys) (k v : Nat) (hk : k < 2) : (s.setLock k v).lockOf k = v := by
  unfold Sys.setLock Sys.lockOf
  by_cases hk0 : k = 0 <;> simp [hk0]

theorem inLoop_crit {pc : Pc} (h : pc.inLoop = true) : pc.crit = true := by
  cases pc <;> simp [Pc.inLoop] at h <;> rfl

/-- one step of any thread while writer `t` is in its loop: the slot it switched away from (`(gen + 1) % 2`) does
not fill, and - if the writer is still in the loop afterwards - the generation is the same and there is still no
entrant for that slot -/
theorem drain_step {ye : Nat} {s s' : Sys} {t u : Nat} {o : Obs} (hinv : Inv s) (hloop : InLoop s t)
    (hne : NoEntrant s ((s.gen + 1) % 2)) (hs : step ye s u = some (s', o)) :
    s'.lockOf ((s.gen + 1) % 2) ≤ s.lockOf ((s.gen + 1) % 2) ∧
      (InLoop s' t → s'.gen = s.gen ∧ NoEntrant s' ((s.gen + 1) % 2)) := by
  obtain ⟨tht, htt, hlp⟩ := hloop
  have htlt : t < s.threads.length := (List.getElem?_eq_some_iff.1 htt).1
  have htget : s.threads[t] = tht := (List.getElem?_eq_some_iff.1 htt).2
  have hown : s.mutexOwner = some t := (hinv.mutex t htlt).1 (by rw [htget]; exact inLoop_crit hlp)
  have hk2 : (s.gen + 1) % 2 < 2 := Nat.mod_lt _ (by omega)
  unfold step at hs
  cases hu : s.threads[u]? with
  | none => simp [hu] at hs
  | some th =>
    have hult : u < s.threads.length := (List.getElem?_eq_some_iff.1 hu).1
    have huget : s.threads[u] = th := (List.getElem?_eq_some_iff.1 hu).2
    have hmem : th ∈ s.threads := by rw [← huget]; exact List.getElem_mem hult
    -- a thread inside `write()` is the owner of the mutex, i.e. `t`
    have crit_is_t : th.pc.crit = true → u = t := by
      intro hc
      have := (hinv.mutex u hult).1 (by rw [huget]; exact hc)
      rw [hown] at this; injection this with e; exact e.symm
    -- the entrants of a state that differs from `s` in thread `u` only
    have entr : ∀ (s0 : Sys) (th' : Thread), s0.threads = s.threads.set u th' →
        (∀ g w, th'.pc = .rInc g w → g % 2 ≠ (s.gen + 1) % 2) → NoEntrant s0 ((s.gen + 1) % 2) := by
      intro s0 th' e hnew x hx g w hp
      rw [e] at hx
      rcases List.mem_or_eq_of_mem_set hx with h | h
      · exact hne x h g w hp
      · subst h; exact hnew g w hp
    simp only [hu] at hs
    cases hpc : th.pc with
    | idle =>
      simp only [hpc] at hs
      cases hsc : th.script with
      | nil => simp [hsc] at hs
      | cons cmd rest =>
        cases cmd with
        | read uses =>
          simp only [hsc, Option.some.injEq, Prod.mk.injEq] at hs; obtain ⟨rfl, _⟩ := hs
          refine ⟨Nat.le_refl _, fun _ => ⟨rfl, entr _ _ rfl ?_⟩⟩
          intro g w hp; injection hp with hg _; subst hg; omega
        | write st bomb =>
          simp only [hsc, hown] at hs; cases hs
    | rInc g uses =>
      simp only [hpc, Option.some.injEq, Prod.mk.injEq] at hs; obtain ⟨rfl, _⟩ := hs
      have hg : g % 2 ≠ (s.gen + 1) % 2 := hne th hmem g uses hpc
      have hg2 : g % 2 < 2 := Nat.mod_lt _ (by omega)
      refine ⟨by show (s.setLock (g % 2) _).lockOf _ ≤ _; rw [lockOf_setLock_other s _ _ _ hg2 hk2 hg]; exact Nat.le_refl _,
        fun _ => ⟨rfl, entr _ _ rfl (by intro g' w hp; cases hp)⟩⟩
    | rData slot uses =>
      simp only [hpc, Option.some.injEq, Prod.mk.injEq] at hs; obtain ⟨rfl, _⟩ := hs
      exact ⟨Nat.le_refl _, fun _ => ⟨rfl, entr _ _ rfl (by intro g' w hp; cases hp)⟩⟩
    | rUse slot p uses =>
      cases uses with
      | succ n =>
        simp only [hpc, Option.some.injEq, Prod.mk.injEq] at hs; obtain ⟨rfl, _⟩ := hs
        exact ⟨Nat.le_refl _, fun _ => ⟨rfl, entr _ _ rfl (by intro g' w hp; cases hp)⟩⟩
      | zero =>
        simp only [hpc, Option.some.injEq, Prod.mk.injEq] at hs; obtain ⟨rfl, _⟩ := hs
        refine ⟨?_, fun _ => ⟨rfl, entr _ _ rfl (by intro g' w hp; cases hp)⟩⟩
        show (s.setLock slot (s.lockOf slot - 1)).lockOf _ ≤ _
        unfold Sys.setLock Sys.lockOf
        by_cases h0 : slot = 0 <;> by_cases hk0 : (s.gen + 1) % 2 = 0 <;> simp [h0, hk0, Sys.lockOf] <;> omega
    | wLoad st bomb =>
      have := crit_is_t (by rw [hpc]; rfl); subst this
      rw [htt] at hu; injection hu with e; subst e; rw [hpc] at hlp; cases hlp
    | wAlloc bomb =>
      have := crit_is_t (by rw [hpc]; rfl); subst this
      rw [htt] at hu; injection hu with e; subst e; rw [hpc] at hlp; cases hlp
    | wSwap new =>
      have := crit_is_t (by rw [hpc]; rfl); subst this
      rw [htt] at hu; injection hu with e; subst e; rw [hpc] at hlp; cases hlp
    | wSeen0 old =>
      have := crit_is_t (by rw [hpc]; rfl); subst this
      rw [htt] at hu; injection hu with e; subst e; rw [hpc] at hlp; cases hlp
    | wSeen1 old z0 =>
      have := crit_is_t (by rw [hpc]; rfl); subst this
      rw [htt] at hu; injection hu with e; subst e; rw [hpc] at hlp; cases hlp
    | wFlip old z0 z1 =>
      have := crit_is_t (by rw [hpc]; rfl); subst this
      rw [htt] at hu; injection hu with e; subst e; rw [hpc] at hlp; cases hlp
    | wFree old =>
      have := crit_is_t (by rw [hpc]; rfl); subst this
      rw [htt] at hu; injection hu with e; subst e; rw [hpc] at hlp; cases hlp
    | wUnlock p =>
      have := crit_is_t (by rw [hpc]; rfl); subst this
      rw [htt] at hu; injection hu with e; subst e; rw [hpc] at hlp; cases hlp
    | wHint old z0 z1 iter =>
      simp only [hpc, Option.some.injEq, Prod.mk.injEq] at hs; obtain ⟨rfl, _⟩ := hs
      exact ⟨Nat.le_refl _, fun _ => ⟨rfl, entr _ _ rfl (by intro g' w hp; split at hp <;> cases hp)⟩⟩
    | wLoop0 old z0 z1 iter =>
      simp only [hpc, Option.some.injEq, Prod.mk.injEq] at hs; obtain ⟨rfl, _⟩ := hs
      refine ⟨Nat.le_refl _, fun _ => ⟨rfl, entr _ _ rfl ?_⟩⟩
      intro g' w hp
      split at hp
      · cases hp
      · unfold afterLoop at hp; split at hp <;> cases hp
    | wLoop1 old z0 z1 iter =>
      simp only [hpc, Option.some.injEq, Prod.mk.injEq] at hs; obtain ⟨rfl, _⟩ := hs
      refine ⟨Nat.le_refl _, fun _ => ⟨rfl, entr _ _ rfl ?_⟩⟩
      intro g' w hp
      unfold afterLoop at hp; split at hp <;> cases hp

/-- any execution fragment throughout which writer `t` stays in its waiting loop -/
inductive WhileInLoop (ye : Nat) (t : Nat) : Sys → Sys → Prop where
  | refl {s : Sys} : InLoop s t → WhileInLoop ye t s s
  | step {s s' s'' : Sys} {u : Nat} {o : Obs} :
      WhileInLoop ye t s s' → step ye s' u = some (s'', o) → InLoop s'' t → WhileInLoop ye t s s''

theorem WhileInLoop.inLoop {ye t : Nat} {s s' : Sys} (h : WhileInLoop ye t s s') : InLoop s' t := by
  cases h with
  | refl h => exact h
  | step _ _ h => exact h

/-- **C18.switched_away_slot_only_drains** — from any reachable state in which writer `t` is in its waiting loop
and no stale entrant is left for the slot it switched away from: for as long as `t` stays in the loop - any
schedule, any number of new deliveries - the generation does not change, every new reader enters the other slot,
and the count of the switched-away slot never goes up. -/
theorem C18_switched_away_slot_only_drains {ye : Nat} {scripts : List (List Cmd)} {s s' : Sys} {t : Nat}
    (hr : Reachable ye scripts s) (hne : NoEntrant s ((s.gen + 1) % 2)) (hrun : WhileInLoop ye t s s') :
    Reachable ye scripts s' ∧ s'.gen = s.gen ∧ NoEntrant s' ((s.gen + 1) % 2) ∧
      s'.lockOf ((s.gen + 1) % 2) ≤ s.lockOf ((s.gen + 1) % 2) := by
  induction hrun with
  | refl _ => exact ⟨hr, rfl, hne, Nat.le_refl _⟩
  | step hpre hs hl ih =>
    obtain ⟨hr', hg, hne', hle⟩ := ih
    have hloop' := hpre.inLoop
    have hd := drain_step (inv_reachable hr') hloop' (by rw [hg]; exact hne') hs
    rw [hg] at hd
    obtain ⟨hgen, hne''⟩ := hd.2 hl
    exact ⟨Reachable.step hr' hs, hgen, hne'', Nat.le_trans hd.1 hle⟩

/-! ## non-vacuity: the writer has switched with a reader in slot 0; two further readers come and go through slot 1
while it waits; slot 0's count stays at 1 -/
example :
    let sc : List (List Cmd) := [[.write true false], [.read 5], [.read 1], [.read 1]]
    let s := (runSchedule 16 (Sys.init sc) [1, 1, 0, 0, 0, 0, 0, 0, 0, 0]).1
    let s' := (runSchedule 16 s [2, 2, 2, 0, 3, 3, 0, 2, 2]).1
    (s.threads[0]?.map (·.pc.inLoop)) = some true ∧ (s.gen, s.lock0, s.lock1) = (1, 1, 0) ∧
      (s'.threads[0]?.map (·.pc.inLoop)) = some true ∧ (s'.gen, s'.lock0, s'.lock1) = (1, 1, 1) := by
  decide

end SigHook.HalfLock
