import SigHook.Props.C09c
/-!
# C09 (continued) — a consumer that keeps polling obtains a delivered signal

> … a consumer that keeps calling wait/forever/poll and drains what it is handed obtains that signal at least
> once after the delivery.

The third front end: `poll_signal` with a non-blocking readiness callback, as the async adapters (tokio,
async-std) and `mio` users drive it - one call hands out at most one signal. In any state in which the signal's
slot is set, the instance is open, and a wake-up byte is in the pipe or the iterator's position has not passed the
slot, a consumer whose script still holds at least as many `poll` calls as there are slots set hands the signal
out within `pcost` own steps, running alone: while the signal is due, no call answers `Pending` (the one exception
is a call that is already past its callback, at `psRecheck`; it costs one more call), every call hands out one set
signal, and there are at most that many before it is the signal's turn.
-/
namespace SigHook.Iter

/-- inside `poll_signal` driven by the non-blocking callback, or between two such calls -/
def Pc.inPoll : Pc → Bool
  | .idle | .flush .poll | .psClosed .poll | .psNext .poll | .ppClosed .poll | .ppCallback .poll | .psRecheck .poll => true
  | _ => false

/-- the scan will reach the slot of `sig` before the consumer can answer `Pending` -/
def pcovers (th : Thread) (sig : Nat) : Bool :=
  match th.pc with
  | .flush _ => true
  | .idle | .psClosed _ | .psNext _ => th.iterPos ≤ sig
  | _ => false

/-- how many further `poll` calls the script must hold -/
def pneed (s : Sys) (th : Thread) : Nat :=
  match th.pc with
  | .idle | .psRecheck _ => s.set.length
  | _ => s.set.length - 1

structure DueP (s : Sys) (th : Thread) (sig : Nat) : Prop where
  mode : th.pc.inPoll = true
  polls : ∀ c ∈ th.script, c = Cmd.poll
  len : pneed s th ≤ th.script.length
  opn : s.closed = false
  set : sig ∈ s.set
  lt : sig < maxSig
  ann : 0 < s.pipe ∨ pcovers th sig = true

/-- own steps until `sig` is handed out, generously -/
def pcost (s : Sys) (th : Thread) (sig : Nat) : Nat :=
  let near := 2 * s.set.length + sig + 2
  let round := flushCostF s.pipe + near + 4
  match th.pc with
  | .flush _ => flushCostF s.pipe + near
  | .psNext _ => if th.iterPos ≤ sig then 2 * s.set.length + (sig - th.iterPos) + 1
                 else 2 * s.set.length + (maxSig - th.iterPos) + 1 + round
  | .psClosed _ | .idle => if th.iterPos ≤ sig then 2 * s.set.length + (sig - th.iterPos) + 2
                           else 2 * s.set.length + (maxSig - th.iterPos) + 2 + round
  | .ppClosed _ => round
  | .ppCallback _ => round - 1
  | .psRecheck _ => 2 * s.set.length + (maxSig - th.iterPos) + sig + 4 + round
  | _ => 0

theorem set_pos {s : Sys} {sig : Nat} (h : sig ∈ s.set) : 1 ≤ s.set.length := List.length_pos_of_mem h

/-- one step of the polling consumer while `sig` is due: it is enabled; either it hands out `sig`, or `sig` is
still due and `pcost` has dropped -/
theorem pdue_step (rc : Bool) (s : Sys) (t : Nat) (th : Thread) (sig : Nat) (hth : s.threads[t]? = some th)
    (hd : DueP s th sig) :
    ∃ s' o th', step rc s t = some (s', o) ∧ s'.threads[t]? = some th' ∧
      (o.yielded = some sig ∨ (DueP s' th' sig ∧ pcost s' th' sig + 1 ≤ pcost s th sig)) := by
  have hlt : t < s.threads.length := (List.getElem?_eq_some_iff.1 hth).1
  have get : ∀ (s0 : Sys) (th' : Thread), s0.threads = s.threads → (setT s0 t th').threads[t]? = some th' := by
    intro s0 th' e; simp [setT, e, hlt]
  obtain ⟨hmode, hpolls, hlen, hopen, hset, hsl, hann⟩ := hd
  have hopen' : ¬ s.closed = true := by rw [hopen]; simp
  have hsp := set_pos hset
  unfold step
  simp only [hth]
  cases hpc : th.pc with
  | dWake sg => rw [hpc] at hmode; cases hmode
  | cWake => rw [hpc] at hmode; cases hmode
  | scan m pos => rw [hpc] at hmode; cases hmode
  | idle =>
    have hlen' : s.set.length ≤ th.script.length := by simpa [pneed, hpc] using hlen
    cases hsc : th.script with
    | nil =>
      have h0 : th.script.length = 0 := by rw [hsc]; rfl
      omega
    | cons cmd rest =>
      have hcmd : cmd = .poll := hpolls cmd (by rw [hsc]; exact List.mem_cons_self)
      subst hcmd
      have hpolls' : ∀ c ∈ rest, c = Cmd.poll := fun c hc => hpolls c (by rw [hsc]; exact List.mem_cons_of_mem _ hc)
      have hlr : s.set.length - 1 ≤ rest.length := by
        have h1 : th.script.length = rest.length + 1 := by rw [hsc]; rfl
        omega
      simp only [step.stepPsClosed, hopen', if_false]
      by_cases hcov : th.iterPos ≤ sig
      · have hl : th.iterPos < maxSig := by omega
        refine ⟨_, _, _, rfl, get _ _ rfl, Or.inr ⟨⟨by simp [hl, Pc.inPoll], hpolls', by simpa [pneed, setT, hl] using hlr, hopen, hset, hsl,
          Or.inr (by simp [pcovers, hl, hcov])⟩, ?_⟩⟩
        simp only [pcost, hpc, setT, hl, if_true, hcov]; omega
      · have hp : 0 < s.pipe := by
          rcases hann with h | h
          · exact h
          · simp [pcovers, hpc, hcov] at h
        by_cases hl : th.iterPos < maxSig
        · refine ⟨_, _, _, rfl, get _ _ rfl, Or.inr ⟨⟨by simp [hl, Pc.inPoll], hpolls', by simpa [pneed, setT, hl] using hlr, hopen, hset, hsl, Or.inl hp⟩, ?_⟩⟩
          simp only [pcost, hpc, setT, hl, if_true, hcov, if_false]; omega
        · refine ⟨_, _, _, rfl, get _ _ rfl, Or.inr ⟨⟨by simp [hl, Pc.inPoll], hpolls', by simpa [pneed, setT, hl] using hlr, hopen, hset, hsl, Or.inl hp⟩, ?_⟩⟩
          simp only [pcost, hpc, setT, hl, if_false, hcov]; omega
  | flush m =>
    have hm : m = .poll := by rw [hpc] at hmode; cases m <;> first | rfl | cases hmode
    subst hm
    have hlen' : s.set.length - 1 ≤ th.script.length := by simpa [pneed, hpc] using hlen
    simp only [step.stepFlush]
    by_cases hp : s.pipe > 0
    · simp only [hp, if_true]
      refine ⟨_, _, _, rfl, get _ _ rfl, Or.inr ⟨⟨rfl, hpolls, by simpa [pneed, setT] using hlen', hopen, hset, hsl, Or.inr rfl⟩, ?_⟩⟩
      have := flushCostF_step s.pipe hp
      simp only [pcost, hpc, setT]; omega
    · simp only [hp, if_false]
      have hp0 : s.pipe = 0 := by omega
      refine ⟨_, _, _, rfl, get _ _ rfl, Or.inr ⟨⟨rfl, hpolls, by simpa [pneed, setT] using hlen', hopen, hset, hsl, Or.inr (by simp [pcovers])⟩, ?_⟩⟩
      simp only [pcost, hpc, setT, hp0, flushCostF, Nat.zero_le, if_true]; omega
  | psClosed m =>
    have hm : m = .poll := by rw [hpc] at hmode; cases m <;> first | rfl | cases hmode
    subst hm
    have hlen' : s.set.length - 1 ≤ th.script.length := by simpa [pneed, hpc] using hlen
    simp only [step.stepPsClosed, hopen', if_false]
    by_cases hcov : th.iterPos ≤ sig
    · have hl : th.iterPos < maxSig := by omega
      refine ⟨_, _, _, rfl, get _ _ rfl, Or.inr ⟨⟨by simp [hl, Pc.inPoll], hpolls, by simpa [pneed, setT, hl] using hlen', hopen, hset, hsl,
        Or.inr (by simp [pcovers, hl, hcov])⟩, ?_⟩⟩
      simp only [pcost, hpc, setT, hl, if_true, hcov]; omega
    · have hp : 0 < s.pipe := by
        rcases hann with h | h
        · exact h
        · simp [pcovers, hpc, hcov] at h
      by_cases hl : th.iterPos < maxSig
      · refine ⟨_, _, _, rfl, get _ _ rfl, Or.inr ⟨⟨by simp [hl, Pc.inPoll], hpolls, by simpa [pneed, setT, hl] using hlen', hopen, hset, hsl, Or.inl hp⟩, ?_⟩⟩
        simp only [pcost, hpc, setT, hl, if_true, hcov, if_false]; omega
      · refine ⟨_, _, _, rfl, get _ _ rfl, Or.inr ⟨⟨by simp [hl, Pc.inPoll], hpolls, by simpa [pneed, setT, hl] using hlen', hopen, hset, hsl, Or.inl hp⟩, ?_⟩⟩
        simp only [pcost, hpc, setT, hl, if_false, hcov]; omega
  | psNext m =>
    have hm : m = .poll := by rw [hpc] at hmode; cases m <;> first | rfl | cases hmode
    subst hm
    have hlen' : s.set.length - 1 ≤ th.script.length := by simpa [pneed, hpc] using hlen
    by_cases hin : s.set.contains th.iterPos = true
    · simp only [hin, if_true]
      have hmem : th.iterPos ∈ s.set := by simpa using hin
      by_cases heq : th.iterPos = sig
      · exact ⟨_, _, _, rfl, get _ _ rfl, Or.inl (by simp [heq])⟩
      · have hset' : sig ∈ s.set.erase th.iterPos := (List.mem_erase_of_ne (Ne.symm heq)).2 hset
        have hlen2 := length_erase_mem s.set th.iterPos hmem
        have hneed : (s.set.erase th.iterPos).length ≤ th.script.length := by omega
        by_cases hcov : th.iterPos ≤ sig
        · refine ⟨_, _, _, rfl, get _ _ rfl, Or.inr ⟨⟨rfl, hpolls, by simpa [pneed, setT] using hneed, hopen, hset', hsl,
            Or.inr (by simp [pcovers, hcov])⟩, ?_⟩⟩
          simp only [pcost, hpc, setT, hcov, if_true]; omega
        · have hp : 0 < s.pipe := by
            rcases hann with h | h
            · exact h
            · simp [pcovers, hpc, hcov] at h
          refine ⟨_, _, _, rfl, get _ _ rfl, Or.inr ⟨⟨rfl, hpolls, by simpa [pneed, setT] using hneed, hopen, hset', hsl, Or.inl hp⟩, ?_⟩⟩
          simp only [pcost, hpc, setT, hcov, if_false]; omega
    · simp only [hin]
      have hne : th.iterPos ≠ sig := by
        intro e; rw [e] at hin; exact hin (by simpa using hset)
      by_cases hcov : th.iterPos ≤ sig
      · have hcov' : th.iterPos + 1 ≤ sig := by omega
        have hl : th.iterPos + 1 < maxSig := by omega
        refine ⟨_, _, _, rfl, get _ _ rfl, Or.inr ⟨⟨by simp [hl, Pc.inPoll], hpolls, by simpa [pneed, setT, hl] using hlen', hopen, hset, hsl,
          Or.inr (by simp [pcovers, hl, hcov'])⟩, ?_⟩⟩
        simp only [pcost, hpc, setT, hl, if_true, hcov, hcov']; omega
      · have hp : 0 < s.pipe := by
          rcases hann with h | h
          · exact h
          · simp [pcovers, hpc, hcov] at h
        have hcov' : ¬ th.iterPos + 1 ≤ sig := by omega
        by_cases hl : th.iterPos + 1 < maxSig
        · refine ⟨_, _, _, rfl, get _ _ rfl, Or.inr ⟨⟨by simp [hl, Pc.inPoll], hpolls, by simpa [pneed, setT, hl] using hlen', hopen, hset, hsl, Or.inl hp⟩, ?_⟩⟩
          simp only [pcost, hpc, setT, hl, if_true, hcov, hcov', if_false]; omega
        · refine ⟨_, _, _, rfl, get _ _ rfl, Or.inr ⟨⟨by simp [hl, Pc.inPoll], hpolls, by simpa [pneed, setT, hl] using hlen', hopen, hset, hsl, Or.inl hp⟩, ?_⟩⟩
          simp only [pcost, hpc, setT, hl, if_false, hcov]; omega
  | ppClosed m =>
    have hm : m = .poll := by rw [hpc] at hmode; cases m <;> first | rfl | cases hmode
    subst hm
    have hlen' : s.set.length - 1 ≤ th.script.length := by simpa [pneed, hpc] using hlen
    have hp : 0 < s.pipe := by
      rcases hann with h | h
      · exact h
      · simp [pcovers, hpc] at h
    simp only [hopen', if_false]
    refine ⟨_, _, _, rfl, get _ _ rfl, Or.inr ⟨⟨rfl, hpolls, by simpa [pneed, setT] using hlen', hopen, hset, hsl, Or.inl hp⟩, ?_⟩⟩
    simp only [pcost, hpc, setT, flushCostF]; omega
  | psRecheck m =>
    have hm : m = .poll := by rw [hpc] at hmode; cases m <;> first | rfl | cases hmode
    subst hm
    have hlen' : s.set.length ≤ th.script.length := by simpa [pneed, hpc] using hlen
    have hp : 0 < s.pipe := by
      rcases hann with h | h
      · exact h
      · simp [pcovers, hpc] at h
    simp only [hopen', if_false]
    refine ⟨_, _, _, rfl, get _ _ rfl, Or.inr ⟨⟨rfl, hpolls, by simpa [pneed, setT] using hlen', hopen, hset, hsl, Or.inl hp⟩, ?_⟩⟩
    simp only [pcost, hpc, setT]
    by_cases hcov : th.iterPos ≤ sig
    · simp only [hcov, if_true]; omega
    · simp only [hcov, if_false]; omega
  | ppCallback m =>
    have hm : m = .poll := by rw [hpc] at hmode; cases m <;> first | rfl | cases hmode
    subst hm
    have hlen' : s.set.length - 1 ≤ th.script.length := by simpa [pneed, hpc] using hlen
    have hp : 0 < s.pipe := by
      rcases hann with h | h
      · exact h
      · simp [pcovers, hpc] at h
    have hp0 : ¬ s.pipe = 0 := by omega
    simp only [blocking, Bool.false_eq_true, if_false, hp0]
    refine ⟨_, _, _, rfl, get _ _ rfl, Or.inr ⟨⟨rfl, hpolls, by simpa [pneed, setT] using hlen', hopen, hset, hsl, Or.inr rfl⟩, ?_⟩⟩
    have := flushCostF_mono s.pipe
    simp only [pcost, hpc, setT, flushCostF] at this ⊢; omega

/-- **C09.poll_obtains** — while the instance is open, a polling consumer for which `sig` is due and whose
script holds enough further `poll` calls hands `sig` out within `pcost` own steps, running alone. -/
theorem C09_poll_obtains (rc : Bool) :
    ∀ (k : Nat) (s : Sys) (t : Nat) (th : Thread) (sig : Nat), s.threads[t]? = some th → DueP s th sig →
      pcost s th sig ≤ k → ∃ n, n ≤ k + 1 ∧ sig ∈ soloYields rc s t n := by
  intro k
  induction k with
  | zero =>
    intro s t th sig hth hd hk
    obtain ⟨s', o, th', hs, _, hres⟩ := pdue_step rc s t th sig hth hd
    rcases hres with hy | ⟨_, hlt⟩
    · exact ⟨1, by omega, by simp [soloYields, hs, hy]⟩
    · omega
  | succ k ih =>
    intro s t th sig hth hd hk
    obtain ⟨s', o, th', hs, hth', hres⟩ := pdue_step rc s t th sig hth hd
    rcases hres with hy | ⟨hd', hlt⟩
    · exact ⟨1, by omega, by simp [soloYields, hs, hy]⟩
    · obtain ⟨n, hn, hmem⟩ := ih s' t th' sig hth' hd' (by omega)
      exact ⟨n + 1, by omega, by simp only [soloYields, hs]; exact List.mem_append_right _ hmem⟩

/-- the bound in closed form -/
theorem pcost_le (s : Sys) (th : Thread) (sig : Nat) (hs : sig < maxSig) :
    pcost s th sig ≤ 4 * s.set.length + 4 * maxSig + s.pipe / 1024 + 14 := by
  have hf : flushCostF s.pipe ≤ s.pipe / 1024 + 2 := by unfold flushCostF; omega
  unfold pcost
  cases th.pc <;> simp only <;> (try split) <;> omega

theorem pcovers_of_covers (th : Thread) (sig : Nat) (hm : th.pc.inPoll = true) (hc : covers th sig = true) : pcovers th sig = true := by
  cases hpc : th.pc with
  | idle => simp only [covers, hpc, Bool.and_eq_true, decide_eq_true_eq] at hc; simp [pcovers, hpc, hc.2]
  | dWake sg => simp [covers, hpc] at hc
  | cWake => simp [covers, hpc] at hc
  | scan m pos => rw [hpc] at hm; cases hm
  | flush m => simp [pcovers, hpc]
  | psClosed m => simpa [pcovers, covers, hpc] using hc
  | psNext m => simpa [pcovers, covers, hpc] using hc
  | ppClosed m => simp [covers, hpc] at hc
  | ppCallback m => simp [covers, hpc] at hc
  | psRecheck m => simp [covers, hpc] at hc

/-- the hypothesis `DueP` is what the inductive invariant of `Props/C09.lean` provides for every reachable
state: a delivered signal whose wake-up has completed, in an open instance with a polling consumer that has
enough `poll` calls left -/
theorem C09_poll_obtains_reachable {r : Bool} {c : Nat} {w : List Nat} {cap pipe : Nat}
    {scripts : List (List Cmd)} {s : Sys} (hg : GoodScripts c .B scripts) (hcap : 0 < cap)
    (hr : Reachable r w cap pipe scripts s) (th : Thread) (hth : s.threads[c]? = some th)
    (hmode : th.pc.inPoll = true) (hpolls : ∀ cmd ∈ th.script, cmd = Cmd.poll) (hlen : pneed s th ≤ th.script.length)
    (hopen : s.closed = false) (sig : Nat) (hin : (sig, true) ∈ s.unreported) :
    ∃ n, n ≤ pcost s th sig + 1 ∧ sig ∈ soloYields r s c n := by
  have hinv := wake_reachable hg hcap hr
  obtain ⟨hset, hlt⟩ := hinv.inSet _ hin
  have hann : 0 < s.pipe ∨ pcovers th sig = true := by
    rcases hinv.announced sig hin with h | h | ⟨th', hth', hc⟩
    · rw [hopen] at h; cases h
    · exact Or.inl h
    · rw [hth] at hth'; injection hth' with e; subst e
      exact Or.inr (pcovers_of_covers th sig hmode hc)
  exact C09_poll_obtains r (pcost s th sig) s c th sig hth ⟨hmode, hpolls, hlen, hopen, hset, hlt, hann⟩ (Nat.le_refl _)

/-! ## non-vacuity: two signals delivered while the poller is parked after `Pending`; the third call hands out
the second of them -/
example :
    let run := fun (s : Sys) (sched : List Nat) => sched.foldl (fun s t => match step true s t with | some (s', _) => s' | none => s) s
    let s := run (Sys.init [10, 12] 278 0 [[.deliver 12, .deliver 10], [.poll, .poll, .poll]]) (List.replicate 132 1 ++ [0, 0, 0, 0])
    (s.threads[1]?.map (fun th => (th.pc, th.script.length, th.iterPos))) = some (.idle, 2, 128) ∧ s.pipe = 2 ∧ s.set = [10, 12] ∧
      soloYields true s 1 400 = [10, 12] := by
  decide +kernel

end SigHook.Iter
