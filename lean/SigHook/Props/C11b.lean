import SigHook.Props.C09
/-!
# C11 (continued) — `close()` unblocks every consumer

> Once close has been called, … every wait/forever/poll that is blocked or starts later returns …

The only place a consumer can wait is its *blocking* readiness callback on an empty self-pipe.
`CloseInv` says: once `closed` is set, either a `close()` is still between its store and its wake,
or a byte is in the pipe, or the consumer is not at that callback - and then it never gets there
again, because every path to it first loads `closed`. Hence after `close()` has returned the
consumer can always take its next step (`C11_close_unblocks`).
-/
namespace SigHook.Iter

/-- some `close()` has stored the flag and not yet written its wake-up byte -/
def closing (s : Sys) : Prop := ∃ (t : Nat) (th : Thread), s.threads[t]? = some th ∧ th.pc = .cWake

/-- the consumer's blocking read -/
def blockedPc : Pc → Bool
  | .ppCallback m => blocking m
  | _ => false

def CloseInv (c : Nat) (s : Sys) : Prop :=
  s.closed = true → closing s ∨ 0 < s.pipe ∨ ∀ th, s.threads[c]? = some th → blockedPc th.pc = false

/-- a consumer step in a closed instance never ends at the blocking read -/
theorem consumer_step_not_blocked (r : Bool) (s s' : Sys) (c : Nat) (o : Out) (th : Thread)
    (hth : s.threads[c]? = some th) (hcl : s.closed = true)
    (hnp : th.pc ≠ .cWake ∧ ∀ sg, th.pc ≠ .dWake sg) (hsc : ∀ cmd ∈ th.script, cmd.isProducer = false)
    (h : step r s c = some (s', o)) :
    ∀ th', s'.threads[c]? = some th' → blockedPc th'.pc = false := by
  have hlt : c < s.threads.length := (List.getElem?_eq_some_iff.1 hth).1
  have key : ∀ (s0 : Sys) (x : Thread), s0.threads = s.threads → blockedPc x.pc = false →
      ∀ th', (setT s0 c x).threads[c]? = some th' → blockedPc th'.pc = false := by
    intro s0 x h1 h2 th' hget
    rw [getElem?_setT _ _ _ _ (by rw [h1]; exact hlt)] at hget
    simp at hget; subst hget; exact h2
  unfold step at h
  simp only [hth] at h
  cases hpc : th.pc with
  | idle =>
    simp only [hpc] at h
    cases hs : th.script with
    | nil => simp [hs] at h
    | cons cmd rest =>
      have hcmd := hsc cmd (by rw [hs]; simp)
      cases cmd <;> simp only [Cmd.isProducer] at hcmd <;> try (cases hcmd)
      all_goals (simp only [hs, hcl, step.stepFlush, step.stepPsClosed] at h)
      all_goals (repeat' split at h)
      all_goals (simp only [Option.some.injEq, Prod.mk.injEq] at h; obtain ⟨rfl, _⟩ := h)
      all_goals (first | (exfalso; simp_all; done) | (apply key <;> simp [blockedPc]))
  | dWake sg => exact absurd hpc (hnp.2 sg)
  | cWake => exact absurd hpc hnp.1
  | ppCallback m =>
    simp only [hpc] at h
    repeat' split at h
    all_goals (first | (simp at h; done) | skip)
    all_goals (simp only [Option.some.injEq, Prod.mk.injEq] at h; obtain ⟨rfl, _⟩ := h)
    all_goals (apply key <;> simp [blockedPc])
  | _ =>
    simp only [hpc, hcl, step.stepFlush, step.stepPsClosed] at h
    repeat' split at h
    all_goals (first | (simp at h; done) | skip)
    all_goals (simp only [Option.some.injEq, Prod.mk.injEq] at h; obtain ⟨rfl, _⟩ := h)
    all_goals (first | (exfalso; simp_all; done) | (apply key <;> simp [blockedPc]))


/-- what a step of a delivery / close thread does to the pipe and to `closed` -/
theorem producer_step_effect (r : Bool) (s s' : Sys) (t : Nat) (o : Out) (th : Thread)
    (hth : s.threads[t]? = some th) (hprod : th.producer) (hcap : 0 < s.cap)
    (h : step r s t = some (s', o)) :
    s.pipe ≤ s'.pipe ∧ (th.pc = .cWake → 0 < s'.pipe) ∧
    (s.closed = false → s'.closed = true → ∃ th', s'.threads[t]? = some th' ∧ th'.pc = .cWake) := by
  have hlt : t < s.threads.length := (List.getElem?_eq_some_iff.1 hth).1
  obtain ⟨hpcs, hcmds, _⟩ := hprod
  unfold step at h
  simp only [hth] at h
  rcases hpcs with hpc | ⟨sg, hpc, _⟩ | hpc
  · simp only [hpc] at h
    cases hs : th.script with
    | nil => simp [hs] at h
    | cons cmd rest =>
      have hcmd := hcmds cmd (by rw [hs]; simp)
      cases cmd <;> simp only [Cmd.isProducer] at hcmd <;> try (cases hcmd)
      · simp only [hs, Option.some.injEq, Prod.mk.injEq] at h; obtain ⟨rfl, _⟩ := h
        refine ⟨Nat.le_refl _, (by intro e; rw [hpc] at e; cases e), ?_⟩
        intro h1 h2; simp only [setT] at h2; rw [h1] at h2; cases h2
      · simp only [hs, Option.some.injEq, Prod.mk.injEq] at h; obtain ⟨rfl, _⟩ := h
        refine ⟨Nat.le_refl _, (by intro e; rw [hpc] at e; cases e), ?_⟩
        intro _ _
        exact ⟨{ th with script := rest, pc := .cWake }, by simp [setT, hlt], rfl⟩
  · simp only [hpc, Option.some.injEq, Prod.mk.injEq] at h; obtain ⟨rfl, _⟩ := h
    refine ⟨?_, (by intro e; rw [hpc] at e; cases e), ?_⟩
    · simp only [setT]; split <;> omega
    · intro h1 h2; simp only [setT] at h2; rw [h1] at h2; cases h2
  · simp only [hpc, Option.some.injEq, Prod.mk.injEq] at h; obtain ⟨rfl, _⟩ := h
    refine ⟨?_, ?_, ?_⟩
    · simp only [setT]; split <;> omega
    · intro _; simp only [setT]; split <;> omega
    · intro h1 h2; simp only [setT] at h2; rw [h1] at h2; cases h2

theorem close_init (c : Nat) (w : List Nat) (cap pipe : Nat) (scripts : List (List Cmd)) :
    CloseInv c (Sys.init w cap pipe scripts) := by
  intro h; simp [Sys.init] at h

/-- `CloseInv` is preserved by every step of every thread -/
theorem close_step (r : Bool) (c : Nat) (st : Style) (s s' : Sys) (t : Nat) (o : Out)
    (hw : WakeInv c st s) (hc : CloseInv c s) (h : step r s t = some (s', o)) : CloseInv c s' := by
  obtain ⟨hmono, _, hframe⟩ := step_frame r s s' t o h
  intro hcl'
  by_cases htc : t = c
  · subst htc
    cases hth : s.threads[t]? with
    | none => unfold step at h; simp [hth] at h
    | some th =>
      obtain ⟨hscr, hpcst⟩ := hw.consumer th hth
      have hnp : th.pc ≠ .cWake ∧ ∀ sg, th.pc ≠ .dWake sg := by
        constructor
        · intro e; rw [e] at hpcst; cases st <;> simp [Pc.inStyle] at hpcst
        · intro sg e; rw [e] at hpcst; cases st <;> simp [Pc.inStyle] at hpcst
      have hsc : ∀ cmd ∈ th.script, cmd.isProducer = false := by
        intro cmd hm
        have := hscr cmd hm
        cases cmd <;> cases st <;> simp_all [Cmd.inStyle, Cmd.isProducer]
      -- the consumer does not set `closed`: it was set before
      have hcl : s.closed = true := by
        cases hcs : s.closed with
        | true => rfl
        | false =>
          exfalso
          -- every consumer step leaves `closed` alone
          have : s'.closed = s.closed := by
            unfold step at h
            simp only [hth] at h
            cases hpc : th.pc with
            | idle =>
              simp only [hpc] at h
              cases hs : th.script with
              | nil => simp [hs] at h
              | cons cmd rest =>
                have hcmd := hsc cmd (by rw [hs]; simp)
                cases cmd <;> simp only [Cmd.isProducer] at hcmd <;> try (cases hcmd)
                all_goals (simp only [hs, step.stepFlush, step.stepPsClosed] at h)
                all_goals (repeat' split at h)
                all_goals (simp only [Option.some.injEq, Prod.mk.injEq] at h; obtain ⟨rfl, _⟩ := h)
                all_goals rfl
            | dWake sg => exact absurd hpc (hnp.2 sg)
            | cWake => exact absurd hpc hnp.1
            | _ =>
              simp only [hpc, step.stepFlush, step.stepPsClosed] at h
              repeat' split at h
              all_goals (first | (simp at h; done) | skip)
              all_goals (simp only [Option.some.injEq, Prod.mk.injEq] at h; obtain ⟨rfl, _⟩ := h)
              all_goals rfl
          rw [this, hcs] at hcl'; cases hcl'
      exact Or.inr (Or.inr (consumer_step_not_blocked r s s' t o th hth hcl hnp hsc h))
  · cases hth : s.threads[t]? with
    | none => unfold step at h; simp [hth] at h
    | some th =>
      have hprod := hw.others t th htc hth
      obtain ⟨hp1, hp2, hp3⟩ := producer_step_effect r s s' t o th hth hprod hw.capPos h
      cases hcs : s.closed with
      | false =>
        obtain ⟨th', h1, h2⟩ := hp3 hcs hcl'
        exact Or.inl ⟨t, th', h1, h2⟩
      | true =>
        rcases hc hcs with ⟨j, thj, hj, hjp⟩ | hpos | hnb
        · by_cases hjt : j = t
          · subst hjt
            rw [hth] at hj; injection hj with hj; subst hj
            exact Or.inr (Or.inl (hp2 hjp))
          · exact Or.inl ⟨j, thj, by rw [hframe j hjt]; exact hj, hjp⟩
        · exact Or.inr (Or.inl (by omega))
        · exact Or.inr (Or.inr (by rw [hframe c (Ne.symm htc)]; exact hnb))

theorem close_reachable {r : Bool} {c : Nat} {st : Style} {w : List Nat} {cap pipe : Nat}
    {scripts : List (List Cmd)} {s : Sys} (hg : GoodScripts c st scripts) (hcap : 0 < cap)
    (hr : Reachable r w cap pipe scripts s) : CloseInv c s := by
  induction hr with
  | init => exact close_init c w cap pipe scripts
  | step hr' hs ih => exact close_step _ c st _ _ _ _ (wake_reachable hg hcap hr') ih hs

/-- **C11.close_unblocks** — in every reachable state (any number of delivery and close threads,
one consumer of either front-end family, any pipe capacity and fill), once `close()` has been
called and has returned (the flag is set and no closer is between its store and its wake), the
consumer is never blocked: whatever it is doing - in particular if it sits in its blocking
readiness callback - its next step is enabled. -/
theorem C11_close_unblocks {r : Bool} {c : Nat} {st : Style} {w : List Nat} {cap pipe : Nat}
    {scripts : List (List Cmd)} {s : Sys} (hg : GoodScripts c st scripts) (hcap : 0 < cap)
    (hr : Reachable r w cap pipe scripts s) (hcl : s.closed = true) (hret : ¬ closing s)
    (th : Thread) (hth : s.threads[c]? = some th) (hbusy : th.pc ≠ .idle ∨ th.script ≠ []) :
    (step r s c).isSome = true := by
  have hci := close_reachable hg hcap hr
  have hw := wake_reachable (r := r) hg hcap hr
  obtain ⟨hscr, hpcst⟩ := hw.consumer th hth
  -- the only disabled consumer step is the blocking read on an empty pipe
  have hen : blockedPc th.pc = false ∨ 0 < s.pipe := by
    rcases hci hcl with h | h | h
    · exact absurd h hret
    · exact Or.inr h
    · exact Or.inl (h th hth)
  unfold step
  simp only [hth]
  cases hpc : th.pc with
  | idle =>
    rcases hbusy with hb | hb
    · exact absurd hpc hb
    · cases hs : th.script with
      | nil => exact absurd hs hb
      | cons cmd rest =>
        cases cmd <;> simp only [step.stepFlush, step.stepPsClosed] <;> (repeat' split) <;> rfl
  | ppCallback m =>
    rw [hpc] at hen
    simp only [blockedPc] at hen
    rcases hen with hb | hp
    · simp [hb]; split <;> (try split) <;> rfl
    · have : s.pipe ≠ 0 := by omega
      simp [this]; split <;> rfl
  | dWake sg => rfl
  | cWake => rfl
  | flush m => simp only [step.stepFlush]; (repeat' split) <;> rfl
  | scan m pos => simp only; (repeat' split) <;> rfl
  | psClosed m => simp only [step.stepPsClosed]; (repeat' split) <;> rfl
  | psNext m => simp only; (repeat' split) <;> rfl
  | ppClosed m => simp only; (repeat' split) <;> rfl
  | psRecheck m => simp only; (repeat' split) <;> rfl

end SigHook.Iter
